/-
  One pass through Core.lean / Ws.lean for properties of the USAGE database.

  `UClosed c0 T`: the property `T` of system states fixes the configuration to `c0`, does not look
  at the channel database, the connection records or the events, and survives the four statements
  that write the usage database -- which the code executes only when `c0.usage = true`:
    `_summarize_nameplate_and_store`, `_summarize_mailbox_and_store`, `log_client_version`'s INSERT
    (with the blurred time), `dump_stats`' rewrite of `current`.
  Every function of the model preserves every such `T` (`UClosed.stepPlain`).
  Instances: "the configuration never changes" (`stepPlain_cfg`), "every stored time is blurred"
  (Props/C16b.lean), "the three record tables only grow", "without a usage database nothing is
  written" (Props/C15b.lean).
-/
import Wormhole.Inv.UsageDefs
import Wormhole.Reach

namespace Wormhole
namespace Sys

structure UClosed (c0 : Cfg) (T : Sys → Prop) : Prop where
  cfg : ∀ s, T s → s.cfg = c0
  emit : ∀ s e, T s → T (s.emit e)
  commit : ∀ s, T s → T s.commit
  ucommit : ∀ s, T s → T s.ucommit
  modDb : ∀ s f, T s → T (s.modDb f)
  conns : ∀ s cs, T s → T { s with conns := cs }
  storeNp : c0.usage = true → ∀ s app sides t p, T s → T (s.storeNameplateUsage app sides t p).1
  storeMb : c0.usage = true → ∀ s app f sides t p, T s → T (s.storeMailboxUsage app f sides t p)
  client : c0.usage = true → ∀ s a sd t i v, T s →
    T (s.modUdb (fun d => { d with clients := d.clients ++ [⟨a, sd, s.blurTime t, i, v⟩] }))
  current : c0.usage = true → ∀ s rows, T s → T (s.modUdb (fun d => { d with current := rows }))

section
variable {c0 : Cfg} {T : Sys → Prop} (hT : UClosed c0 T)
include hT

theorem UClosed.send {s : Sys} (h : T s) (c f) : T (s.send c f) := hT.emit _ _ h
theorem UClosed.sendError {s : Sys} (h : T s) (c x) : T (s.sendError c x) := hT.emit _ _ h
theorem UClosed.internalErr {s : Sys} (h : T s) (c x) : T (s.internalErr c x) := hT.emit _ _ h
theorem UClosed.updConn {s : Sys} (h : T s) (c f) : T (s.updConn c f) := hT.conns _ _ h
theorem UClosed.stopListeners {s : Sys} (h : T s) (a m) : T (s.stopListeners a m) := hT.conns _ _ h

theorem UClosed.usage {s : Sys} (h : T s) (hu : s.cfg.usage = true) : c0.usage = true := by
  rw [← hT.cfg s h]; exact hu

theorem UClosed.foldl_send {α : Type} (g : α → Nat) (fr : α → Frame) (l : List α) :
    ∀ {s : Sys}, T s → T (l.foldl (fun s a => s.send (g a) (fr a)) s) := by
  induction l with
  | nil => intro s h; exact h
  | cons a l ih => intro s h; exact ih (hT.send h _ _)

theorem UClosed.replay {s : Sys} (h : T s) (c app mb) : T (s.replay c app mb) := by
  unfold Sys.replay
  exact hT.foldl_send (fun _ => c) (fun (m : Message) => .message m.side m.phase m.body m.rx m.msgId) _ h

theorem UClosed.broadcast {s : Sys} (h : T s) (app mb f) : T (s.broadcast app mb f) := by
  unfold Sys.broadcast
  exact hT.foldl_send (fun c => c) (fun _ => f) _ h

theorem UClosed.storeNameplatesOfMailbox (hu : c0.usage = true) {app t} (l : List Nameplate) :
    ∀ {s : Sys}, T s → T (s.storeNameplatesOfMailbox app t l).1 := by
  induction l with
  | nil => intro s h; exact h
  | cons np rest ih =>
    intro s h
    unfold Sys.storeNameplatesOfMailbox
    have h1 := hT.storeNp hu s app (s.db.npSidesOf np.id) t false h
    split
    · rename_i s2 heq; rw [heq] at h1; exact h1
    · rename_i s2 heq; rw [heq] at h1; exact ih h1

theorem UClosed.mailboxOpen {s : Sys} (h : T s) (mb side t) : T (s.mailboxOpen mb side t) := by
  unfold Sys.mailboxOpen
  split
  · exact hT.commit _ (hT.modDb _ _ (hT.modDb _ _ h))
  · exact hT.commit _ (hT.modDb _ _ h)

theorem UClosed.addMailbox {s s1 : Sys} (h : T s) {app mb forNp t}
    (e : s.addMailbox app mb forNp t = some s1) : T s1 := by
  unfold Sys.addMailbox at e
  split at e
  · cases e; exact h
  · split at e
    · cases e
    · cases e; exact hT.modDb _ _ h

theorem UClosed.openMailbox {s : Sys} (h : T s) (app mb side t) : T (s.openMailbox app mb side t).1 := by
  unfold Sys.openMailbox
  split
  · exact h
  · rename_i s1 e
    have h2 := hT.commit _ (hT.mailboxOpen (hT.addMailbox h e) mb side t)
    dsimp only
    split <;> exact h2

theorem UClosed.addMessage {s : Sys} (h : T s) (app mb side ph bd t id) :
    T (s.addMessage app mb side ph bd t id) := by
  unfold Sys.addMessage
  exact hT.commit _ (hT.modDb _ _ (hT.modDb _ _ h))

theorem UClosed.mailboxClose {s : Sys} (h : T s) (app mb side mood t) :
    T (s.mailboxClose app mb side mood t).1 := by
  unfold Sys.mailboxClose
  split
  · exact h
  · split
    · exact h
    · dsimp only
      have h1 : T ((s.modDb (·.closeSide mb side mood)).commit) := hT.commit _ (hT.modDb _ _ h)
      split
      · exact h1
      · generalize hE : (if ((s.modDb (·.closeSide mb side mood)).commit).cfg.usage then _ else _) = p
        obtain ⟨s2, ok⟩ := p
        have h2 : T s2 := by
          split at hE
          · rename_i hu
            have := hT.storeNameplatesOfMailbox (hT.usage h1 hu) (app := app) (t := t)
              (((s.modDb (·.closeSide mb side mood)).commit).db.nameplatesOfMailbox app mb) h1
            rw [hE] at this; exact this
          · cases hE; exact h1
        dsimp only
        split
        · exact h2
        · dsimp only
          apply hT.stopListeners
          apply hT.commit
          have h3 := hT.modDb _ (fun d =>
            ((((d.delNpSidesOfMailbox app mb).delNameplatesOfMailbox app mb).delMessagesOf mb).delMbSidesOf
              mb).delMailbox mb) h2
          split
          · rename_i hu
            exact hT.ucommit _ (hT.storeMb (hT.usage h3 hu) _ _ _ _ _ _ h3)
          · exact h3

theorem UClosed.logClientVersion {s : Sys} (h : T s) (a sd t i v) : T (s.logClientVersion a sd t i v) := by
  unfold Sys.logClientVersion
  split
  · rename_i hu
    exact hT.ucommit _ (hT.client (hT.usage h hu) _ _ _ _ _ _ h)
  · exact h

theorem UClosed.claimCont {s : Sys} (h : T s) (app npid mb side t) : T (claimCont s app npid mb side t).1 := by
  unfold Sys.claimCont
  have h3 := hT.openMailbox (hT.commit _ h) app mb side t
  dsimp only
  split
  all_goals
    rename_i e
    rw [e] at h3
  · exact h3
  · exact h3
  · split <;> exact h3

theorem UClosed.claimTail {s : Sys} (h : T s) (app npid mb side t) : T (s.claimTail app npid mb side t).1 := by
  rw [claimTail_eq]
  split
  · exact hT.claimCont (hT.modDb _ _ h) _ _ _ _ _
  · split
    · exact hT.claimCont h _ _ _ _ _
    · exact h

theorem UClosed.claimNameplate {s : Sys} (h : T s) (app name side t fresh) :
    T (s.claimNameplate app name side t fresh).1 := by
  unfold Sys.claimNameplate
  split
  · split
    · exact h
    · rename_i s1 e
      exact hT.claimTail (hT.modDb _ _ (hT.addMailbox h e)) _ _ _ _ _
  · exact hT.claimTail h _ _ _ _ _

theorem UClosed.releaseNameplate {s : Sys} (h : T s) (app name side t) :
    T (s.releaseNameplate app name side t).1 := by
  unfold Sys.releaseNameplate
  split
  · exact h
  · rename_i np _
    split
    · exact h
    · dsimp only
      have h1 : T ((s.modDb (·.unclaim np.id side)).commit) := hT.commit _ (hT.modDb _ _ h)
      split
      · exact h1
      · have h2 := hT.modDb _ (fun d => (d.delNpSidesOf np.id).delNameplate np.id) h1
        split
        · rename_i hu
          have h3 := hT.storeNp (hT.usage h2 hu) _ app
            (((s.modDb (·.unclaim np.id side)).commit).db.npSidesOf np.id) t false h2
          split
          all_goals
            rename_i e
            rw [e] at h3
          · exact h3
          · exact hT.commit _ (hT.ucommit _ h3)
        · exact hT.commit _ h2

theorem UClosed.pruneNameplates {app now} (l : List Nameplate) :
    ∀ {s : Sys}, T s → T (s.pruneNameplates app now l).1 := by
  induction l with
  | nil => intro s h; exact h
  | cons np rest ih =>
    intro s h
    unfold Sys.pruneNameplates
    dsimp only
    have h1 := hT.modDb _ (fun d => (d.delNpSidesOf np.id).delNameplate np.id) h
    split
    · rename_i hu
      have h2 := hT.storeNp (hT.usage h1 hu) _ app (s.db.npSidesOf np.id) now true h1
      split
      all_goals
        rename_i e
        rw [e] at h2
      · exact h2
      · exact ih h2
    · exact ih h1

theorem UClosed.pruneMailboxes {app now} (l : List MailboxRow) :
    ∀ {s : Sys}, T s → T (s.pruneMailboxes app now l) := by
  induction l with
  | nil => intro s h; exact h
  | cons row rest ih =>
    intro s h
    unfold Sys.pruneMailboxes
    dsimp only
    have h1 := hT.modDb _ (fun d => ((d.delMessagesOf row.id).delMbSidesOf row.id).delMailbox row.id) h
    split
    · rename_i hu
      exact ih (hT.storeMb (hT.usage h1 hu) _ _ _ _ _ _ h1)
    · exact ih h1

theorem UClosed.prune {s : Sys} (h : T s) (app now old) : T (s.prune app now old).1 := by
  rw [prune_eq]
  dsimp only
  have h1 : T ((s.touchListened app now).commit) := hT.commit _ (hT.modDb _ _ h)
  generalize (s.touchListened app now).commit = s1 at h1
  unfold pruneRest
  have h2 := hT.pruneNameplates (app := app) (now := now) ((s1.db.nameplatesOfApp app).filter
    (fun r => r.mailbox ∈ ((s1.db.mailboxesOfApp app).filter (fun r => ¬ r.updated > old)).map (·.id))) h1
  split
  · rename_i e; rw [e] at h2; exact h2
  · rename_i s2 e
    rw [e] at h2
    have h3 := hT.pruneMailboxes (app := app) (now := now)
      ((s1.db.mailboxesOfApp app).filter (fun r => ¬ r.updated > old)) h2
    dsimp only
    split
    · dsimp only
      split
      · exact hT.ucommit _ (hT.commit _ h3)
      · exact hT.commit _ h3
    · exact h3

theorem UClosed.pruneApps {now old} (l : List String) :
    ∀ {s : Sys}, T s → T (s.pruneApps now old l).1 := by
  induction l with
  | nil => intro s h; exact h
  | cons app rest ih =>
    intro s h
    unfold Sys.pruneApps
    have h1 := hT.prune h app now old
    split
    all_goals
      rename_i e
      rw [e] at h1
    · exact h1
    · exact ih h1

theorem UClosed.dumpStats {s : Sys} (h : T s) (now) : T (s.dumpStats now) := by
  unfold Sys.dumpStats
  split
  · rename_i hu
    exact hT.ucommit _ (hT.current (hT.usage h hu) _ _ h)
  · exact h

theorem UClosed.expire {s : Sys} (h : T s) (now fault) : T (s.expire now fault) := by
  unfold Sys.expire
  dsimp only
  apply hT.dumpStats
  have h0 := hT.emit s (.fired now (now - Generated.expirationTicks)) h
  split
  · exact hT.emit _ _ h0
  · have h1 := hT.pruneApps (now := now) (old := now - Generated.expirationTicks)
      (s.emit (.fired now (now - Generated.expirationTicks))).allApps h0
    split
    all_goals
      rename_i e
      rw [e] at h1
    · exact h1
    · exact hT.emit _ _ h1

theorem UClosed.handlePing {s : Sys} (h : T s) (c v) : T (s.handlePing c v) := by
  unfold Sys.handlePing; split
  · exact hT.sendError h _ _
  · exact hT.send h _ _

theorem UClosed.handleBind {s : Sys} (h : T s) (x t a sd i v) : T (s.handleBind x t a sd i v) := by
  unfold Sys.handleBind
  split
  · exact hT.sendError h _ _
  · split
    · exact hT.sendError h _ _
    · split
      · exact hT.sendError h _ _
      · exact hT.logClientVersion (hT.updConn h _ _) _ _ _ _ _

theorem UClosed.handleList {s : Sys} (h : T s) (x app) : T (s.handleList x app) := hT.send h _ _

theorem UClosed.handleAllocate {s : Sys} (h : T s) (x app side t pick draws fresh) :
    T (s.handleAllocate x app side t pick draws fresh) := by
  unfold Sys.handleAllocate
  split
  · exact hT.sendError h _ _
  · split
    · exact hT.internalErr h _ _
    · rename_i name _
      have h1 := hT.claimNameplate h app name side t fresh
      split
      all_goals
        rename_i e
        rw [e] at h1
      · exact hT.send (hT.updConn h1 _ _) _ _
      · exact hT.internalErr h1 _ _
      · exact hT.internalErr h1 _ _
      · exact hT.internalErr h1 _ _

theorem UClosed.handleClaim {s : Sys} (h : T s) (x app side t n fresh) :
    T (s.handleClaim x app side t n fresh) := by
  unfold Sys.handleClaim
  split
  · exact hT.sendError h _ _
  · rename_i name
    split
    · exact hT.sendError h _ _
    · have h1 := hT.claimNameplate
        (hT.updConn h x.id (fun y => { y with didClaim := true, nameplateId := some name })) app name side t fresh
      dsimp only
      split
      all_goals
        rename_i e
        rw [e] at h1
      · exact hT.send h1 _ _
      · exact hT.sendError h1 _ _
      · exact hT.sendError h1 _ _
      · exact hT.internalErr h1 _ _

theorem UClosed.handleRelease {s : Sys} (h : T s) (x app side t n) : T (s.handleRelease x app side t n) := by
  unfold Sys.handleRelease
  have go : ∀ name : String, T (match (s.updConn x.id (fun y => { y with didRelease := true })).releaseNameplate
      app name side t with
      | (s1, true) => s1.send x.id .released
      | (s1, false) => s1.internalErr x.id "IndexError") := by
    intro name
    have h1 := hT.releaseNameplate (hT.updConn h x.id (fun y => { y with didRelease := true })) app name side t
    split
    all_goals
      rename_i e
      rw [e] at h1
    · exact hT.send h1 _ _
    · exact hT.internalErr h1 _ _
  split
  · exact hT.sendError h _ _
  · dsimp only
    split
    · split
      · exact hT.sendError h _ _
      · exact go _
    · exact go _
    · exact go _
    · exact hT.sendError h _ _

theorem UClosed.handleOpen {s : Sys} (h : T s) (x app side t m) : T (s.handleOpen x app side t m) := by
  unfold Sys.handleOpen
  split
  · exact hT.sendError h _ _
  · split
    · exact hT.sendError h _ _
    · rename_i mb
      have h1 := hT.openMailbox (hT.updConn h x.id (fun y => { y with mailboxId := some mb })) app mb side t
      dsimp only
      split
      all_goals
        rename_i e
        rw [e] at h1
      · exact hT.sendError h1 _ _
      · exact hT.internalErr h1 _ _
      · exact hT.replay (hT.updConn h1 _ _) _ _ _

theorem UClosed.handleAdd {s : Sys} (h : T s) (x app side t id ph bd) :
    T (s.handleAdd x app side t id ph bd) := by
  unfold Sys.handleAdd
  split
  · exact hT.sendError h _ _
  · split
    · exact hT.sendError h _ _
    · split
      · exact hT.sendError h _ _
      · exact hT.broadcast (hT.addMessage h _ _ _ _ _ _ _) _ _ _

theorem UClosed.handleClose {s : Sys} (h : T s) (x app side t m mood) :
    T (s.handleClose x app side t m mood) := by
  unfold Sys.handleClose
  have tail : ∀ (s1 : Sys) (r : OpenRes) (hd : String), T s1 →
      T (match ((s1, r, hd) : Sys × OpenRes × String) with
       | (s1, .crowded, _) => s1.sendError x.id "crowded"
       | (s1, .integrity, _) => s1.internalErr x.id "IntegrityError"
       | (s1, .ok, h) =>
         let s2 := s1.updConn x.id (fun y => { y with listening := false, didClose := true })
         match s2.mailboxClose app h side mood t with
         | (s3, false) => s3.internalErr x.id "IndexError"
         | (s3, true) => (s3.updConn x.id (fun y => { y with mailbox := none })).send x.id .closed) := by
    intro s1 r hd h1
    cases r
    · dsimp only
      have h3 := hT.mailboxClose (hT.updConn h1 x.id (fun y => { y with listening := false, didClose := true }))
        app hd side mood t
      split
      all_goals
        rename_i e
        rw [e] at h3
      · exact hT.internalErr h3 _ _
      · exact hT.send (hT.updConn h3 _ _) _ _
    · exact hT.sendError h1 _ _
    · exact hT.internalErr h1 _ _
  have go : ∀ mb : String,
      T (match (match x.mailbox with
          | some h => (s, OpenRes.ok, h)
          | none =>
            match s.openMailbox app mb side t with
            | (s1, r) => (s1.updConn x.id (fun y => if r = OpenRes.ok then { y with mailbox := some mb } else y), r, mb)
          : Sys × OpenRes × String) with
       | (s1, .crowded, _) => s1.sendError x.id "crowded"
       | (s1, .integrity, _) => s1.internalErr x.id "IntegrityError"
       | (s1, .ok, h) =>
         let s2 := s1.updConn x.id (fun y => { y with listening := false, didClose := true })
         match s2.mailboxClose app h side mood t with
         | (s3, false) => s3.internalErr x.id "IndexError"
         | (s3, true) => (s3.updConn x.id (fun y => { y with mailbox := none })).send x.id .closed) := by
    intro mb
    cases hx : x.mailbox with
    | some hd => exact tail s .ok hd h
    | none =>
      dsimp only
      have h1 := hT.openMailbox h app mb side t
      cases e : s.openMailbox app mb side t with
      | mk s1 r =>
        rw [e] at h1
        exact tail _ r mb (hT.updConn h1 _ _)
  split
  · exact hT.sendError h _ _
  · dsimp only
    split
    · split
      · exact hT.sendError h _ _
      · exact go _
    · exact go _
    · exact go _
    · exact hT.sendError h _ _

theorem UClosed.onMessage {s : Sys} (h : T s) (c t id cmd) : T (s.onMessage c t id cmd) := by
  unfold Sys.onMessage
  split
  · exact h
  · rename_i x _
    have ha := hT.send h c (.ack id)
    cases cmd with
    | noType => exact hT.sendError h _ _
    | ping v => exact hT.handlePing ha _ _
    | bind a sd i v => exact hT.handleBind ha _ _ _ _ _ _
    | unknown => dsimp only; split <;> exact hT.sendError ha _ _
    | list => dsimp only; split; exact hT.sendError ha _ _; exact hT.handleList ha _ _
    | allocate p d f => dsimp only; split; exact hT.sendError ha _ _; exact hT.handleAllocate ha _ _ _ _ _ _ _
    | claim n f => dsimp only; split; exact hT.sendError ha _ _; exact hT.handleClaim ha _ _ _ _ _ _
    | release n => dsimp only; split; exact hT.sendError ha _ _; exact hT.handleRelease ha _ _ _ _ _
    | open_ m => dsimp only; split; exact hT.sendError ha _ _; exact hT.handleOpen ha _ _ _ _ _
    | add ph bd => dsimp only; split; exact hT.sendError ha _ _; exact hT.handleAdd ha _ _ _ _ _ _ _
    | close m mood => dsimp only; split; exact hT.sendError ha _ _; exact hT.handleClose ha _ _ _ _ _ _

/-- every plain operation; `restart` reloads the committed usage database, so it needs its own
    hypothesis -/
theorem UClosed.stepPlain (hrestart : ∀ s t, T s → T (s.restart t)) {s : Sys} (h : T s) (op : Op) :
    T (s.stepPlain op) := by
  cases op with
  | connect c => exact hT.send (s := { s with conns := s.conns ++ [({ id := c } : Conn)] }) (hT.conns _ _ h) _ _
  | recv c t id cmd => exact hT.onMessage h c t id cmd
  | drop c => exact hT.conns _ _ h
  | sweep now fault => exact hT.expire h now fault
  | restart t => exact hrestart s t h
  | crashIn k op => exact h

end

/-! ### the configuration never changes -/

theorem uclosed_cfg (c0 : Cfg) : UClosed c0 (fun s => s.cfg = c0) where
  cfg := fun _ h => h
  emit := fun _ _ h => h
  commit := fun s h => by rw [commit_cfg]; exact h
  ucommit := fun s h => by rw [ucommit_cfg]; exact h
  modDb := fun _ _ h => h
  conns := fun _ _ h => h
  storeNp := fun _ s app sides t p h => by
    unfold storeNameplateUsage; split <;> exact h
  storeMb := fun _ _ _ _ _ _ _ h => h
  client := fun _ _ _ _ _ _ _ h => h
  current := fun _ _ _ h => h

theorem stepPlain_cfg (s : Sys) (op : Op) : (s.stepPlain op).cfg = s.cfg :=
  (uclosed_cfg s.cfg).stepPlain (fun _ _ h => h) rfl op

/-- **`step` never changes the configuration** (crashes included) -/
theorem step_cfg (s : Sys) (op : Op) : (s.step op).cfg = s.cfg := by
  cases op with
  | crashIn k op' =>
    have h1 := stepPlain_cfg ({ s with out := [], snaps := [] } : Sys) op'
    unfold Sys.step
    dsimp only
    split
    · rfl
    · exact h1
    · exact h1
  | connect c => exact stepPlain_cfg ({ s with out := [], snaps := [] } : Sys) _
  | recv c t id cmd => exact stepPlain_cfg ({ s with out := [], snaps := [] } : Sys) _
  | drop c => exact stepPlain_cfg ({ s with out := [], snaps := [] } : Sys) _
  | sweep now fault => exact stepPlain_cfg ({ s with out := [], snaps := [] } : Sys) _
  | restart t => exact stepPlain_cfg ({ s with out := [], snaps := [] } : Sys) _

theorem run_cfg (s : Sys) (ops : List Op) : (s.run ops).1.cfg = s.cfg := by
  induction ops generalizing s with
  | nil => rfl
  | cons op rest ih =>
    simp only [Sys.run]
    rw [ih, step_cfg]

end Sys

theorem GSys.run_cfg (g : GSys) (ops : List Op) : (g.run ops).sys.cfg = g.sys.cfg := by
  rw [GSys.run_sys]; exact Sys.run_cfg _ _

end Wormhole
