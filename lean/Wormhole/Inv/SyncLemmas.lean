/-
  Commit discipline of Core.lean (server.py), function by function.

  For every function we record
  * what it does to the four database components `db / disk / udb / udisk`
    (in particular: on return `db = disk` and `udb = udisk`, on EVERY path);
  * that it emits no frame (`frames` unchanged) and leaves `cfg` alone;
  * that it preserves `Chan.NpOk` (Inv/NpOk.lean), which is what rules out the two paths
    that would return with uncommitted writes (`ReclaimedError` after the INSERT of a new
    nameplate; `IndexError` in `_summarize_nameplate_usage`).
-/
import Wormhole.Inv.NpOk

namespace Wormhole

def Event.isFrame : Event → Bool
  | .frame _ _ _ => true
  | _ => false

namespace Sys

/-- the frames among the events of the current step -/
def frames (s : Sys) : List Event := s.out.filter Event.isFrame

/-- every frame emitted so far in this step was sent with nothing uncommitted -/
def FramesOk (s : Sys) : Prop := ∀ e ∈ s.out, ∀ c f b, e = Event.frame c f b → b = true

theorem framesOk_iff (s : Sys) :
    s.FramesOk ↔ ∀ e ∈ s.frames, ∀ c f b, e = Event.frame c f b → b = true := by
  simp only [FramesOk, frames, List.mem_filter]
  constructor
  · intro h e he; exact h e he.1
  · intro h e he c f b hb
    exact h e ⟨he, by subst hb; rfl⟩ c f b hb

theorem FramesOk.of_frames {s s' : Sys} (h : s'.frames = s.frames) (hs : s.FramesOk) : s'.FramesOk := by
  rw [framesOk_iff] at hs ⊢; rw [h]; exact hs

theorem synced_iff (s : Sys) : s.synced = true ↔ s.Synced := by
  simp [synced, Synced]

/-! ### primitives of Sys.lean -/

section prim
variable (s : Sys)

@[simp] theorem modDb_db (f) : (s.modDb f).db = f s.db := rfl
@[simp] theorem modDb_disk (f) : (s.modDb f).disk = s.disk := rfl
@[simp] theorem modDb_udb (f) : (s.modDb f).udb = s.udb := rfl
@[simp] theorem modDb_udisk (f) : (s.modDb f).udisk = s.udisk := rfl
@[simp] theorem modDb_cfg (f) : (s.modDb f).cfg = s.cfg := rfl
@[simp] theorem modDb_frames (f) : (s.modDb f).frames = s.frames := rfl
@[simp] theorem modDb_conns (f) : (s.modDb f).conns = s.conns := rfl

@[simp] theorem modUdb_db (f) : (s.modUdb f).db = s.db := rfl
@[simp] theorem modUdb_disk (f) : (s.modUdb f).disk = s.disk := rfl
@[simp] theorem modUdb_udb (f) : (s.modUdb f).udb = f s.udb := rfl
@[simp] theorem modUdb_udisk (f) : (s.modUdb f).udisk = s.udisk := rfl
@[simp] theorem modUdb_cfg (f) : (s.modUdb f).cfg = s.cfg := rfl
@[simp] theorem modUdb_frames (f) : (s.modUdb f).frames = s.frames := rfl
@[simp] theorem modUdb_conns (f) : (s.modUdb f).conns = s.conns := rfl

@[simp] theorem updConn_db (c f) : (s.updConn c f).db = s.db := rfl
@[simp] theorem updConn_disk (c f) : (s.updConn c f).disk = s.disk := rfl
@[simp] theorem updConn_udb (c f) : (s.updConn c f).udb = s.udb := rfl
@[simp] theorem updConn_udisk (c f) : (s.updConn c f).udisk = s.udisk := rfl
@[simp] theorem updConn_cfg (c f) : (s.updConn c f).cfg = s.cfg := rfl
@[simp] theorem updConn_frames (c f) : (s.updConn c f).frames = s.frames := rfl
@[simp] theorem updConn_out (c f) : (s.updConn c f).out = s.out := rfl

@[simp] theorem stopListeners_db (a m) : (s.stopListeners a m).db = s.db := rfl
@[simp] theorem stopListeners_disk (a m) : (s.stopListeners a m).disk = s.disk := rfl
@[simp] theorem stopListeners_udb (a m) : (s.stopListeners a m).udb = s.udb := rfl
@[simp] theorem stopListeners_udisk (a m) : (s.stopListeners a m).udisk = s.udisk := rfl
@[simp] theorem stopListeners_cfg (a m) : (s.stopListeners a m).cfg = s.cfg := rfl
@[simp] theorem stopListeners_frames (a m) : (s.stopListeners a m).frames = s.frames := rfl

@[simp] theorem emit_db (e) : (s.emit e).db = s.db := rfl
@[simp] theorem emit_disk (e) : (s.emit e).disk = s.disk := rfl
@[simp] theorem emit_udb (e) : (s.emit e).udb = s.udb := rfl
@[simp] theorem emit_udisk (e) : (s.emit e).udisk = s.udisk := rfl
@[simp] theorem emit_cfg (e) : (s.emit e).cfg = s.cfg := rfl
@[simp] theorem emit_out (e) : (s.emit e).out = s.out ++ [e] := rfl
theorem emit_frames (e) : (s.emit e).frames = s.frames ++ (if e.isFrame then [e] else []) := by
  simp only [frames, emit_out, List.filter_append, List.filter_cons, List.filter_nil]

@[simp] theorem commit_db : s.commit.db = s.db := by unfold commit; split <;> rfl
@[simp] theorem commit_disk : s.commit.disk = s.db := by unfold commit; split <;> simp_all
@[simp] theorem commit_udb : s.commit.udb = s.udb := by unfold commit; split <;> rfl
@[simp] theorem commit_udisk : s.commit.udisk = s.udisk := by unfold commit; split <;> rfl
@[simp] theorem commit_cfg : s.commit.cfg = s.cfg := by unfold commit; split <;> rfl
@[simp] theorem commit_conns : s.commit.conns = s.conns := by unfold commit; split <;> rfl
@[simp] theorem commit_frames : s.commit.frames = s.frames := by
  unfold commit; split
  · rfl
  · simp [frames, List.filter_append, Event.isFrame]

@[simp] theorem ucommit_db : s.ucommit.db = s.db := by unfold ucommit; split <;> rfl
@[simp] theorem ucommit_disk : s.ucommit.disk = s.disk := by unfold ucommit; split <;> rfl
@[simp] theorem ucommit_udb : s.ucommit.udb = s.udb := by unfold ucommit; split <;> rfl
@[simp] theorem ucommit_udisk : s.ucommit.udisk = s.udb := by unfold ucommit; split <;> simp_all
@[simp] theorem ucommit_cfg : s.ucommit.cfg = s.cfg := by unfold ucommit; split <;> rfl
@[simp] theorem ucommit_conns : s.ucommit.conns = s.conns := by unfold ucommit; split <;> rfl
@[simp] theorem ucommit_frames : s.ucommit.frames = s.frames := by
  unfold ucommit; split
  · rfl
  · simp [frames, List.filter_append, Event.isFrame]

end prim

/-! ### usage summaries -/

theorem summarizeNameplate_isSome (blur : Time → Time) (added : List Time) (t : Time) (p : Bool)
    (h : added ≠ []) : ∃ u, summarizeNameplate blur added t p = some u := by
  unfold summarizeNameplate
  split
  · rename_i e
    have := List.length_mergeSort (le := fun a b : Time => decide (a ≤ b)) added
    unfold sortTimes at e
    rw [e] at this
    cases added <;> simp_all
  · exact ⟨_, rfl⟩

/-- `s1` differs from `s` by pending usage writes only -/
structure UOnly (s s1 : Sys) : Prop where
  db : s1.db = s.db
  disk : s1.disk = s.disk
  udisk : s1.udisk = s.udisk
  cfg : s1.cfg = s.cfg
  frames : s1.frames = s.frames

theorem UOnly.refl (s : Sys) : UOnly s s := ⟨rfl, rfl, rfl, rfl, rfl⟩
theorem UOnly.trans {a b c : Sys} (h1 : UOnly a b) (h2 : UOnly b c) : UOnly a c :=
  ⟨h2.db.trans h1.db, h2.disk.trans h1.disk, h2.udisk.trans h1.udisk, h2.cfg.trans h1.cfg,
   h2.frames.trans h1.frames⟩

theorem storeNameplateUsage_spec {s s1 : Sys} {app sides t p b}
    (h : s.storeNameplateUsage app sides t p = (s1, b)) :
    UOnly s s1 ∧ (sides ≠ [] → b = true) := by
  unfold storeNameplateUsage at h
  split at h
  · rename_i e
    simp only [Prod.mk.injEq] at h
    obtain ⟨rfl, rfl⟩ := h
    refine ⟨UOnly.refl _, ?_⟩
    intro hne
    obtain ⟨u, hu⟩ := summarizeNameplate_isSome s.blurTime (sides.map (·.added)) t p (by simpa using hne)
    simp [hu] at e
  · simp only [Prod.mk.injEq] at h
    obtain ⟨rfl, rfl⟩ := h
    exact ⟨⟨rfl, rfl, rfl, rfl, rfl⟩, fun _ => rfl⟩

theorem storeMailboxUsage_uonly (s : Sys) (app forNp sides t p) :
    UOnly s (s.storeMailboxUsage app forNp sides t p) := ⟨rfl, rfl, rfl, rfl, rfl⟩

/-! ### Mailbox -/

section mailbox
variable (s : Sys)

@[simp] theorem mailboxOpen_disk (mb side t) : (s.mailboxOpen mb side t).disk = (s.mailboxOpen mb side t).db := by
  simp [mailboxOpen]
@[simp] theorem mailboxOpen_udb (mb side t) : (s.mailboxOpen mb side t).udb = s.udb := by
  unfold mailboxOpen; split <;> simp
@[simp] theorem mailboxOpen_udisk (mb side t) : (s.mailboxOpen mb side t).udisk = s.udisk := by
  unfold mailboxOpen; split <;> simp
@[simp] theorem mailboxOpen_cfg (mb side t) : (s.mailboxOpen mb side t).cfg = s.cfg := by
  unfold mailboxOpen; split <;> simp
@[simp] theorem mailboxOpen_frames (mb side t) : (s.mailboxOpen mb side t).frames = s.frames := by
  unfold mailboxOpen; split <;> simp
@[simp] theorem mailboxOpen_npPart (mb side t) : (s.mailboxOpen mb side t).db.npPart = s.db.npPart := by
  unfold mailboxOpen; split <;> simp

end mailbox

/-- `s1` differs from `s` by channel writes (committed or not) that leave the nameplate tables alone -/
structure DOnly (s s1 : Sys) : Prop where
  udb : s1.udb = s.udb
  udisk : s1.udisk = s.udisk
  cfg : s1.cfg = s.cfg
  frames : s1.frames = s.frames
  np : s1.db.npPart = s.db.npPart

theorem DOnly.refl (s : Sys) : DOnly s s := ⟨rfl, rfl, rfl, rfl, rfl⟩
theorem DOnly.trans {a b c : Sys} (h1 : DOnly a b) (h2 : DOnly b c) : DOnly a c :=
  ⟨h2.udb.trans h1.udb, h2.udisk.trans h1.udisk, h2.cfg.trans h1.cfg, h2.frames.trans h1.frames,
   h2.np.trans h1.np⟩

theorem addMailbox_spec {s s1 : Sys} {app mb forNp t} (h : s.addMailbox app mb forNp t = some s1) :
    DOnly s s1 ∧ s1.disk = s.disk := by
  unfold addMailbox at h
  split at h
  · cases h; exact ⟨DOnly.refl _, rfl⟩
  · split at h
    · cases h
    · cases h; exact ⟨⟨rfl, rfl, rfl, rfl, rfl⟩, rfl⟩

/-- `open_mailbox`: an IntegrityError leaves everything as it was; every other path
    (including `CrowdedError`) returns after the commit -/
theorem openMailbox_spec {s s1 : Sys} {app mb side t r} (h : s.openMailbox app mb side t = (s1, r)) :
    DOnly s s1 ∧ (r = .integrity → s1 = s) ∧ (r ≠ .integrity → s1.disk = s1.db) := by
  unfold openMailbox at h
  split at h
  · simp only [Prod.mk.injEq] at h
    obtain ⟨rfl, rfl⟩ := h
    exact ⟨DOnly.refl _, fun _ => rfl, fun h => absurd rfl h⟩
  · rename_i s0 e
    obtain ⟨d0, _⟩ := addMailbox_spec e
    have hd : DOnly s ((s0.mailboxOpen mb side t).commit) :=
      d0.trans ⟨by simp, by simp, by simp, by simp, by simp⟩
    dsimp only at h
    split at h <;>
    · simp only [Prod.mk.injEq] at h
      obtain ⟨rfl, rfl⟩ := h
      exact ⟨hd, by simp, by simp⟩

section addmsg
variable (s : Sys)
@[simp] theorem addMessage_disk (app mb side ph bd t id) :
    (s.addMessage app mb side ph bd t id).disk = (s.addMessage app mb side ph bd t id).db := by
  simp [addMessage]
theorem addMessage_donly (app mb side ph bd t id) : DOnly s (s.addMessage app mb side ph bd t id) := by
  constructor <;> simp [addMessage]
end addmsg

theorem storeNameplatesOfMailbox_spec {app t} (l : List Nameplate) :
    ∀ {s s1 : Sys} {b}, s.storeNameplatesOfMailbox app t l = (s1, b) →
      UOnly s s1 ∧ ((∀ n ∈ l, s.db.npSidesOf n.id ≠ []) → b = true) := by
  induction l with
  | nil =>
    intro s s1 b h
    simp only [storeNameplatesOfMailbox, Prod.mk.injEq] at h
    obtain ⟨rfl, rfl⟩ := h
    exact ⟨UOnly.refl _, fun _ => rfl⟩
  | cons np rest ih =>
    intro s s1 b h
    unfold storeNameplatesOfMailbox at h
    split at h
    · rename_i s0 e
      obtain ⟨u0, hb⟩ := storeNameplateUsage_spec e
      simp only [Prod.mk.injEq] at h
      obtain ⟨rfl, rfl⟩ := h
      refine ⟨u0, ?_⟩
      intro hall
      exact hb (hall np (by simp))
    · rename_i s0 e
      obtain ⟨u0, _⟩ := storeNameplateUsage_spec e
      obtain ⟨u1, hb⟩ := ih h
      refine ⟨u0.trans u1, ?_⟩
      intro hall
      apply hb
      intro n hn
      rw [u0.db]
      exact hall n (by simp [hn])

theorem npSidesOf_ne_nil {d : Chan} (h : d.NpHasSide) {n : Nameplate} (hn : n ∈ d.nameplates) :
    d.npSidesOf n.id ≠ [] := by
  obtain ⟨r, hr, e⟩ := h n hn
  intro h0
  have : r ∈ d.npSidesOf n.id := by simp [Chan.npSidesOf, List.mem_filter, hr, e]
  rw [h0] at this
  simp at this

/-- `s1` is reached from `s` without sending anything -/
structure Quiet (s s1 : Sys) : Prop where
  cfg : s1.cfg = s.cfg
  frames : s1.frames = s.frames

theorem Quiet.refl (s : Sys) : Quiet s s := ⟨rfl, rfl⟩
theorem Quiet.trans {a b c : Sys} (h1 : Quiet a b) (h2 : Quiet b c) : Quiet a c :=
  ⟨h2.cfg.trans h1.cfg, h2.frames.trans h1.frames⟩
theorem UOnly.quiet {s s1 : Sys} (h : UOnly s s1) : Quiet s s1 := ⟨h.cfg, h.frames⟩
theorem DOnly.quiet {s s1 : Sys} (h : DOnly s s1) : Quiet s s1 := ⟨h.cfg, h.frames⟩

theorem closeStore_spec {s s2 : Sys} {app t l ok}
    (h : (if s.cfg.usage then s.storeNameplatesOfMailbox app t l else (s, true)) = (s2, ok)) :
    UOnly s s2 ∧ ((∀ n ∈ l, s.db.npSidesOf n.id ≠ []) → ok = true) ∧
      (s.cfg.usage = false → s2.udb = s.udb) := by
  split at h
  · rename_i hu
    obtain ⟨u, hb⟩ := storeNameplatesOfMailbox_spec l h
    exact ⟨u, hb, by simp [hu]⟩
  · simp only [Prod.mk.injEq] at h
    obtain ⟨rfl, rfl⟩ := h
    exact ⟨UOnly.refl _, fun _ => rfl, fun _ => rfl⟩

/-- `Mailbox.close`: returns with nothing uncommitted on every path, provided every nameplate
    has a side row (otherwise the `IndexError` of repair F's loop escapes with usage rows pending) -/
theorem mailboxClose_spec {s s1 : Sys} {app mb side mood t b}
    (h : s.mailboxClose app mb side mood t = (s1, b)) :
    Quiet s s1 ∧ (s.db.NpOk → s1.db.NpOk) ∧ (s.Synced → s.db.NpHasSide → s1.Synced) := by
  unfold mailboxClose at h
  split at h
  · simp only [Prod.mk.injEq] at h
    obtain ⟨rfl, rfl⟩ := h
    exact ⟨Quiet.refl _, id, fun h _ => h⟩
  · split at h
    · simp only [Prod.mk.injEq] at h
      obtain ⟨rfl, rfl⟩ := h
      exact ⟨Quiet.refl _, id, fun h _ => h⟩
    · dsimp only at h
      split at h
      · simp only [Prod.mk.injEq] at h
        obtain ⟨rfl, rfl⟩ := h
        refine ⟨⟨by simp, by simp⟩, ?_, ?_⟩
        · intro hn; exact hn.of_npPart (by simp)
        · intro hs _; simpa [Synced] using hs.2
      · generalize hE : (if ((s.modDb _).commit).cfg.usage then _ else _) = p at h
        obtain ⟨s2, ok⟩ := p
        obtain ⟨u, hok, hud⟩ := closeStore_spec hE
        obtain ⟨u1, u2, u3, u4, u5⟩ := u
        simp only [commit_db, commit_disk, commit_udb, commit_udisk, commit_cfg, commit_frames,
          modDb_db, modDb_udb, modDb_udisk, modDb_cfg, modDb_frames] at u1 u2 u3 u4 u5 hok hud
        dsimp only at h
        split at h
        · simp only [Prod.mk.injEq] at h
          obtain ⟨rfl, rfl⟩ := h
          refine ⟨⟨u4, u5⟩, ?_, ?_⟩
          · intro hn; exact hn.of_npPart (by rw [u1]; rfl)
          · intro hs hh
            exfalso
            have : ok = true := hok (fun n hn => npSidesOf_ne_nil (d := s.db.closeSide mb side mood) hh
              (List.mem_filter.1 hn).1)
            simp_all
        · simp only [Prod.mk.injEq] at h
          obtain ⟨rfl, rfl⟩ := h
          refine ⟨?_, ?_, ?_⟩
          · constructor <;> (split <;> simp [u4, u5, storeMailboxUsage])
          · intro hn
            have := hn.delOfMailbox app mb
            refine this.of_npPart ?_
            split <;> simp [u1, storeMailboxUsage] <;> rfl
          · intro hs _
            obtain ⟨hs1, hs2⟩ := hs
            constructor
            · simp
            · split
              · simp
              · rename_i hu
                simp only [modDb_cfg, u4, Bool.not_eq_true] at hu
                simp [hud hu, u3, hs2]

/-! ### AppNamespace -/

section lcv
variable (s : Sys)
@[simp] theorem logClientVersion_db (a sd t i v) : (s.logClientVersion a sd t i v).db = s.db := by
  unfold logClientVersion; split <;> simp
@[simp] theorem logClientVersion_disk (a sd t i v) : (s.logClientVersion a sd t i v).disk = s.disk := by
  unfold logClientVersion; split <;> simp
@[simp] theorem logClientVersion_cfg (a sd t i v) : (s.logClientVersion a sd t i v).cfg = s.cfg := by
  unfold logClientVersion; split <;> simp
@[simp] theorem logClientVersion_frames (a sd t i v) : (s.logClientVersion a sd t i v).frames = s.frames := by
  unfold logClientVersion; split <;> simp
theorem logClientVersion_usync (a sd t i v) (h : s.udb = s.udisk) :
    (s.logClientVersion a sd t i v).udb = (s.logClientVersion a sd t i v).udisk := by
  unfold logClientVersion; split <;> simp [h]
end lcv

/-- the continuation of `claim_nameplate` after the side row is known to be there:
    `db.commit()`, `open_mailbox`, the crowding check -/
def claimCont (s1 : Sys) (app : String) (npid : Nat) (mb side : String) (t : Time) : Sys × ClaimRes :=
  let s2 := s1.commit
  match s2.openMailbox app mb side t with
  | (s3, .integrity) => (s3, .integrity)
  | (s3, .crowded) => (s3, .crowded)
  | (s3, .ok) => if (s3.db.npSidesOf npid).length > 2 then (s3, .crowded) else (s3, .ok mb)

theorem claimTail_eq (s : Sys) (app : String) (npid : Nat) (mb side : String) (t : Time) :
    s.claimTail app npid mb side t =
      match s.db.findNpSide npid side with
      | none => claimCont (s.modDb (·.insNpSide ⟨npid, true, side, t⟩)) app npid mb side t
      | some r => if r.claimed then claimCont s app npid mb side t else (s, .reclaimed) := rfl

/-- every path through the continuation returns after a commit (`CrowdedError` and the
    IntegrityError of `_add_mailbox` included) -/
theorem claimCont_spec {s s1 : Sys} {app npid mb side t r} (h : claimCont s app npid mb side t = (s1, r)) :
    DOnly s s1 ∧ s1.disk = s1.db ∧ r ≠ .reclaimed := by
  unfold claimCont at h
  dsimp only at h
  split at h
  all_goals
    rename_i s3 e
    obtain ⟨d, hi, hni⟩ := openMailbox_spec e
    have d' : DOnly s s3 := DOnly.trans ⟨by simp, by simp, by simp, by simp, by simp⟩ d
  · simp only [Prod.mk.injEq] at h
    obtain ⟨rfl, rfl⟩ := h
    refine ⟨d', ?_, by simp⟩
    rw [hi rfl]; simp
  · simp only [Prod.mk.injEq] at h
    obtain ⟨rfl, rfl⟩ := h
    exact ⟨d', hni (by simp), by simp⟩
  · split at h <;>
    · simp only [Prod.mk.injEq] at h
      obtain ⟨rfl, rfl⟩ := h
      exact ⟨d', hni (by simp), by simp⟩

/-- `s1` is reached from `s` by channel writes only -/
structure CQuiet (s s1 : Sys) : Prop where
  udb : s1.udb = s.udb
  udisk : s1.udisk = s.udisk
  cfg : s1.cfg = s.cfg
  frames : s1.frames = s.frames

theorem DOnly.cquiet {s s1 : Sys} (h : DOnly s s1) : CQuiet s s1 := ⟨h.udb, h.udisk, h.cfg, h.frames⟩
theorem CQuiet.refl (s : Sys) : CQuiet s s := ⟨rfl, rfl, rfl, rfl⟩
theorem CQuiet.trans {a b c : Sys} (h1 : CQuiet a b) (h2 : CQuiet b c) : CQuiet a c :=
  ⟨h2.udb.trans h1.udb, h2.udisk.trans h1.udisk, h2.cfg.trans h1.cfg, h2.frames.trans h1.frames⟩
theorem CQuiet.quiet {s s1 : Sys} (h : CQuiet s s1) : Quiet s s1 := ⟨h.cfg, h.frames⟩
theorem CQuiet.modDb (s : Sys) (f) : CQuiet s (s.modDb f) := ⟨rfl, rfl, rfl, rfl⟩

/-- `claim_nameplate`: `ReclaimedError` is raised before any write (`s1 = s`); every other
    path returns after a commit.  A `ReclaimedError` right after the INSERT of a new nameplate
    row would leave that row uncommitted; it cannot happen because no side row carries the
    fresh id. -/
theorem claimNameplate_spec {s s1 : Sys} {app name side t fresh r}
    (h : s.claimNameplate app name side t fresh = (s1, r)) (hb : s.db.IdsBounded) :
    CQuiet s s1 ∧ (s.db.NpOk → s1.db.NpOk) ∧ (s.db = s.disk → s1.db = s1.disk) := by
  unfold claimNameplate at h
  split at h
  · split at h
    · simp only [Prod.mk.injEq] at h
      obtain ⟨rfl, rfl⟩ := h
      exact ⟨CQuiet.refl _, id, id⟩
    · rename_i s0 e
      obtain ⟨d0, _⟩ := addMailbox_spec e
      have hnp := d0.np
      simp only [Chan.npPart, Prod.mk.injEq] at hnp
      obtain ⟨n1, n2, n3⟩ := hnp
      have hb0 : s0.db.IdsBounded := by
        unfold Chan.IdsBounded; rw [n1, n2, n3]; exact hb
      have hfresh : (s0.modDb (·.insNameplate app name fresh)).db.findNpSide s0.db.nextNp side = none := by
        have := hb0.findNpSide_fresh side
        simpa [Chan.findNpSide, Chan.insNameplate] using this
      dsimp only at h
      rw [claimTail_eq, hfresh] at h
      dsimp only at h
      obtain ⟨d1, hd, _⟩ := claimCont_spec h
      refine ⟨?_, ?_, fun _ => hd.symm⟩
      · exact d0.cquiet.trans ((CQuiet.modDb _ _).trans ((CQuiet.modDb _ _).trans d1.cquiet))
      · intro hn
        have h0 : s0.db.NpOk := hn.of_npPart d0.np
        have := h0.insNew app name fresh side true t
        exact this.of_npPart (by rw [d1.np]; rfl)
  · rename_i row e
    have hrow : row ∈ s.db.nameplates := List.mem_of_find?_eq_some e
    rw [claimTail_eq] at h
    split at h
    · obtain ⟨d1, hd, _⟩ := claimCont_spec h
      refine ⟨(CQuiet.modDb _ _).trans d1.cquiet, ?_, fun _ => hd.symm⟩
      intro hn
      have := hn.insNpSide ⟨row.id, true, side, t⟩ (hb.1 row hrow)
      exact this.of_npPart (by rw [d1.np]; rfl)
    · split at h
      · obtain ⟨d1, hd, _⟩ := claimCont_spec h
        exact ⟨d1.cquiet, fun hn => hn.of_npPart d1.np, fun _ => hd.symm⟩
      · simp only [Prod.mk.injEq] at h
        obtain ⟨rfl, rfl⟩ := h
        exact ⟨CQuiet.refl _, id, id⟩

theorem npSidesOf_unclaim_ne_nil {d : Chan} {npid : Nat} {side : String} {r : NpSide}
    (h : d.findNpSide npid side = some r) : (d.unclaim npid side).npSidesOf npid ≠ [] := by
  have hr : r ∈ d.npSides := List.mem_of_find?_eq_some h
  have hp := List.find?_some h
  simp only [decide_eq_true_eq] at hp
  intro h0
  have : ({ r with claimed := false } : NpSide) ∈ (d.unclaim npid side).npSidesOf npid := by
    simp only [Chan.npSidesOf, Chan.unclaim, List.mem_filter, List.mem_map, decide_eq_true_eq]
    exact ⟨⟨r, hr, by simp [hp]⟩, hp.1⟩
  rw [h0] at this
  simp at this

/-- `release_nameplate`: returns with nothing uncommitted on every path (the side row found by
    the first SELECT is among the rows summarized, so `IndexError` cannot be raised here) -/
theorem releaseNameplate_spec {s s1 : Sys} {app name side t b}
    (h : s.releaseNameplate app name side t = (s1, b)) :
    Quiet s s1 ∧ (s.db.NpOk → s1.db.NpOk) ∧ (s.Synced → s1.Synced) := by
  unfold releaseNameplate at h
  split at h
  · simp only [Prod.mk.injEq] at h
    obtain ⟨rfl, rfl⟩ := h
    exact ⟨Quiet.refl _, id, id⟩
  · rename_i np _
    split at h
    · simp only [Prod.mk.injEq] at h
      obtain ⟨rfl, rfl⟩ := h
      exact ⟨Quiet.refl _, id, id⟩
    · rename_i r0 hr0
      dsimp only at h
      split at h
      · simp only [Prod.mk.injEq] at h
        obtain ⟨rfl, rfl⟩ := h
        refine ⟨⟨by simp, by simp⟩, ?_, ?_⟩
        · intro hn; simpa using hn.unclaim np.id side
        · intro hs; simpa [Synced] using hs.2
      · split at h
        · split at h
          · rename_i s3 e
            obtain ⟨_, hok⟩ := storeNameplateUsage_spec e
            have := hok (by simpa using npSidesOf_unclaim_ne_nil hr0)
            simp at this
          · rename_i s3 e
            obtain ⟨u, _⟩ := storeNameplateUsage_spec e
            simp only [Prod.mk.injEq] at h
            obtain ⟨rfl, rfl⟩ := h
            refine ⟨⟨by simp [u.cfg], by simp [u.frames]⟩, ?_, ?_⟩
            · intro hn
              simpa [u.db] using (hn.unclaim np.id side).delById np.id
            · intro _; simp [Synced]
        · rename_i hu
          simp only [Prod.mk.injEq] at h
          obtain ⟨rfl, rfl⟩ := h
          refine ⟨⟨by simp, by simp⟩, ?_, ?_⟩
          · intro hn
            simpa using (hn.unclaim np.id side).delById np.id
          · intro hs; simpa [Synced] using hs.2

/-! ### prune -/

/-- `s1` is reached from `s` by writes only (no commit, no frame); without a usage database
    the usage side is not written -/
structure Pending (s s1 : Sys) : Prop where
  disk : s1.disk = s.disk
  udisk : s1.udisk = s.udisk
  cfg : s1.cfg = s.cfg
  frames : s1.frames = s.frames
  nousage : s.cfg.usage = false → s1.udb = s.udb

theorem Pending.refl (s : Sys) : Pending s s := ⟨rfl, rfl, rfl, rfl, fun _ => rfl⟩
theorem Pending.trans {a b c : Sys} (h1 : Pending a b) (h2 : Pending b c) : Pending a c :=
  ⟨h2.disk.trans h1.disk, h2.udisk.trans h1.udisk, h2.cfg.trans h1.cfg, h2.frames.trans h1.frames,
   fun h => (h2.nousage (by rw [h1.cfg]; exact h)).trans (h1.nousage h)⟩
theorem Pending.modDb (s : Sys) (f) : Pending s (s.modDb f) := ⟨rfl, rfl, rfl, rfl, fun _ => rfl⟩

theorem pruneNameplates_spec {app now} (l : List Nameplate) :
    ∀ {s s1 : Sys} {b}, s.pruneNameplates app now l = (s1, b) →
      Pending s s1 ∧
      (s.db.NpOk → (∀ n ∈ l, n ∈ s.db.nameplates) → l.Pairwise (fun a b => ¬ a.id = b.id) →
        s1.db.NpOk ∧ b = true) := by
  induction l with
  | nil =>
    intro s s1 b h
    simp only [pruneNameplates, Prod.mk.injEq] at h
    obtain ⟨rfl, rfl⟩ := h
    exact ⟨Pending.refl _, fun hn _ _ => ⟨hn, rfl⟩⟩
  | cons np rest ih =>
    intro s s1 b h
    unfold pruneNameplates at h
    dsimp only at h
    have key : ∀ s0 : Sys, s0.db = (s.modDb fun d => (d.delNpSidesOf np.id).delNameplate np.id).db →
        s.db.NpOk → (∀ n ∈ np :: rest, n ∈ s.db.nameplates) →
        (np :: rest).Pairwise (fun a b => ¬ a.id = b.id) →
        s0.db.NpOk ∧ (∀ n ∈ rest, n ∈ s0.db.nameplates) ∧ rest.Pairwise (fun a b => ¬ a.id = b.id) := by
      intro s0 e hn hmem hpw
      rw [List.pairwise_cons] at hpw
      rw [e]
      refine ⟨by simpa using hn.delById np.id, ?_, hpw.2⟩
      intro n hnr
      simp only [modDb_db, Chan.delNameplate, Chan.delNpSidesOf, List.mem_filter, decide_not,
        Bool.not_eq_eq_eq_not, Bool.not_true, decide_eq_false_iff_not]
      exact ⟨hmem n (by simp [hnr]), fun e' => hpw.1 n hnr e'.symm⟩
    split at h
    · rename_i hu
      split at h
      · rename_i s2 e
        obtain ⟨u, hok⟩ := storeNameplateUsage_spec e
        simp only [Prod.mk.injEq] at h
        obtain ⟨rfl, rfl⟩ := h
        refine ⟨⟨u.disk, u.udisk, u.cfg, u.frames, fun h0 => by simp_all⟩, ?_⟩
        intro hn hmem _
        have := hok (npSidesOf_ne_nil hn.hasSide (hmem np (by simp)))
        simp at this
      · rename_i s2 e
        obtain ⟨u, _⟩ := storeNameplateUsage_spec e
        obtain ⟨p2, hrest⟩ := ih h
        refine ⟨⟨p2.disk.trans u.disk, p2.udisk.trans u.udisk, p2.cfg.trans u.cfg,
          p2.frames.trans u.frames, fun h0 => by simp_all⟩, ?_⟩
        intro hn hmem hpw
        obtain ⟨k1, k2, k3⟩ := key s2 u.db hn hmem hpw
        exact hrest k1 k2 k3
    · obtain ⟨p2, hrest⟩ := ih h
      refine ⟨(Pending.modDb _ _).trans p2, ?_⟩
      intro hn hmem hpw
      obtain ⟨k1, k2, k3⟩ := key _ rfl hn hmem hpw
      exact hrest k1 k2 k3

theorem pruneMailboxes_spec {app now} (l : List MailboxRow) :
    ∀ (s : Sys), Pending s (s.pruneMailboxes app now l) ∧
      (s.pruneMailboxes app now l).db.npPart = s.db.npPart := by
  induction l with
  | nil => intro s; exact ⟨Pending.refl _, rfl⟩
  | cons row rest ih =>
    intro s
    unfold pruneMailboxes
    dsimp only
    split
    · rename_i hu
      obtain ⟨p, hnp⟩ := ih ((s.modDb fun d => ((d.delMessagesOf row.id).delMbSidesOf row.id).delMailbox row.id).storeMailboxUsage
        app row.forNp (s.db.mbSidesOf row.id) now true)
      refine ⟨⟨p.disk, p.udisk, p.cfg, p.frames, fun h0 => by simp_all⟩, ?_⟩
      rw [hnp]; rfl
    · obtain ⟨p, hnp⟩ := ih (s.modDb fun d => ((d.delMessagesOf row.id).delMbSidesOf row.id).delMailbox row.id)
      refine ⟨(Pending.modDb _ _).trans p, ?_⟩
      rw [hnp]; rfl

/-- `prune` after its first commit -/
def pruneRest (s1 : Sys) (app : String) (now : Time) (oldMb : List MailboxRow) (oldNp : List Nameplate) :
    Sys × Bool :=
  match s1.pruneNameplates app now oldNp with
  | (s2, false) => (s2, false)
  | (s2, true) =>
    let s3 := s2.pruneMailboxes app now oldMb
    if oldNp ≠ [] ∨ oldMb ≠ [] then
      let s4 := s3.commit
      (if s4.cfg.usage then s4.ucommit else s4, true)
    else (s3, true)

theorem prune_eq (s : Sys) (app : String) (now old : Time) :
    s.prune app now old =
      let s1 := (s.touchListened app now).commit
      let oldMb := (s1.db.mailboxesOfApp app).filter (fun r => ¬ r.updated > old)
      let oldNp := (s1.db.nameplatesOfApp app).filter (fun r => r.mailbox ∈ oldMb.map (·.id))
      pruneRest s1 app now oldMb oldNp := rfl

theorem pruneRest_spec {s s1 : Sys} {app now oldMb oldNp b}
    (h : pruneRest s app now oldMb oldNp = (s1, b)) :
    Quiet s s1 ∧
    (s.db.NpOk → (∀ n ∈ oldNp, n ∈ s.db.nameplates) → oldNp.Pairwise (fun a b => ¬ a.id = b.id) →
      s1.db.NpOk ∧ b = true ∧ (s.Synced → s1.Synced)) := by
  unfold pruneRest at h
  split at h
  · rename_i s2 e
    obtain ⟨p, hk⟩ := pruneNameplates_spec _ e
    simp only [Prod.mk.injEq] at h
    obtain ⟨rfl, rfl⟩ := h
    refine ⟨⟨p.cfg, p.frames⟩, ?_⟩
    intro hn hmem hpw
    have := (hk hn hmem hpw).2
    simp at this
  · rename_i s2 e
    obtain ⟨p, hk⟩ := pruneNameplates_spec _ e
    obtain ⟨p3, hnp⟩ := pruneMailboxes_spec (app := app) (now := now) oldMb s2
    have p' := p.trans p3
    dsimp only at h
    split at h
    · simp only [Prod.mk.injEq] at h
      obtain ⟨rfl, rfl⟩ := h
      refine ⟨⟨by split <;> simp [p'.cfg], by split <;> simp [p'.frames]⟩, ?_⟩
      intro hn hmem hpw
      refine ⟨?_, rfl, ?_⟩
      · have := ((hk hn hmem hpw).1).of_npPart hnp
        split <;> simpa using this
      · intro hs
        constructor
        · split <;> simp
        · split
          · simp
          · rename_i hu
            simp only [commit_cfg, p'.cfg, Bool.not_eq_true] at hu
            simp [p'.nousage hu, p'.udisk, hs.2]
    · rename_i hne
      simp only [ne_eq, not_or, Decidable.not_not] at hne
      obtain ⟨rfl, rfl⟩ := hne
      simp only [pruneNameplates, Prod.mk.injEq] at e
      obtain ⟨rfl, _⟩ := e
      simp only [pruneMailboxes, Prod.mk.injEq] at h
      obtain ⟨rfl, rfl⟩ := h
      exact ⟨Quiet.refl _, fun hn _ _ => ⟨hn, rfl, id⟩⟩

/-- `AppNamespace.prune`: with unique nameplate ids and a side row for every nameplate it
    does not fail, and returns with nothing uncommitted -/
theorem prune_spec {s s1 : Sys} {app now old b} (h : s.prune app now old = (s1, b)) :
    Quiet s s1 ∧ (s.db.NpOk → s1.db.NpOk ∧ b = true ∧ (s.Synced → s1.Synced)) := by
  rw [prune_eq] at h
  dsimp only at h
  obtain ⟨q, hk⟩ := pruneRest_spec h
  refine ⟨⟨by simpa [touchListened] using q.cfg, by simpa [touchListened] using q.frames⟩, ?_⟩
  intro hn
  have hn0 : ((s.touchListened app now).commit).db.NpOk := hn.of_npPart (by simp [touchListened]; rfl)
  have := hk hn0 ?_ ?_
  · refine ⟨this.1, this.2.1, ?_⟩
    intro hs
    apply this.2.2
    constructor
    · simp
    · simpa [touchListened] using hs.2
  · intro n hn
    exact (List.mem_filter.1 (List.mem_filter.1 hn).1).1
  · exact List.Pairwise.filter _ (List.Pairwise.filter _ hn0.ids)

theorem pruneApps_spec {now old} (l : List String) :
    ∀ {s s1 : Sys} {b}, s.pruneApps now old l = (s1, b) →
      Quiet s s1 ∧ (s.db.NpOk → s1.db.NpOk ∧ b = true ∧ (s.Synced → s1.Synced)) := by
  induction l with
  | nil =>
    intro s s1 b h
    simp only [pruneApps, Prod.mk.injEq] at h
    obtain ⟨rfl, rfl⟩ := h
    exact ⟨Quiet.refl _, fun hn => ⟨hn, rfl, id⟩⟩
  | cons app rest ih =>
    intro s s1 b h
    unfold pruneApps at h
    split at h
    · rename_i s2 e
      obtain ⟨q, hk⟩ := prune_spec e
      simp only [Prod.mk.injEq] at h
      obtain ⟨rfl, rfl⟩ := h
      refine ⟨q, ?_⟩
      intro hn
      have := (hk hn).2.1
      simp at this
    · rename_i s2 e
      obtain ⟨q, hk⟩ := prune_spec e
      obtain ⟨q2, hk2⟩ := ih h
      refine ⟨q.trans q2, ?_⟩
      intro hn
      obtain ⟨a1, _, a3⟩ := hk hn
      obtain ⟨b1, b2, b3⟩ := hk2 a1
      exact ⟨b1, b2, fun hs => b3 (a3 hs)⟩

section dump
variable (s : Sys)
@[simp] theorem dumpStats_db (now) : (s.dumpStats now).db = s.db := by
  unfold dumpStats; split <;> simp
@[simp] theorem dumpStats_disk (now) : (s.dumpStats now).disk = s.disk := by
  unfold dumpStats; split <;> simp
@[simp] theorem dumpStats_cfg (now) : (s.dumpStats now).cfg = s.cfg := by
  unfold dumpStats; split <;> simp
@[simp] theorem dumpStats_frames (now) : (s.dumpStats now).frames = s.frames := by
  unfold dumpStats; split <;> simp
theorem dumpStats_usync (now) (h : s.udb = s.udisk) : (s.dumpStats now).udb = (s.dumpStats now).udisk := by
  unfold dumpStats; split <;> simp [h]
end dump

/-! ### the invariant of C09 between and inside steps -/

/-- every frame of the current step was sent in a synced state, nothing is uncommitted now,
    and the nameplate tables are in order -/
structure Ok (s : Sys) : Prop where
  frames : s.FramesOk
  synced : s.Synced
  np : s.db.NpOk

theorem Ok.of_quiet {s s1 : Sys} (h : s.Ok) (q : Quiet s s1) (hs : s1.Synced) (hn : s1.db.NpOk) : s1.Ok :=
  ⟨h.frames.of_frames q.frames, hs, hn⟩

theorem Ok.send {s : Sys} (h : s.Ok) (c : Nat) (f : Frame) : (s.send c f).Ok := by
  refine ⟨?_, h.synced, h.np⟩
  intro e he c' f' b hb
  simp only [Sys.send, emit_out, List.mem_append, List.mem_singleton] at he
  rcases he with he | rfl
  · exact h.frames e he c' f' b hb
  · cases hb
    exact (synced_iff s).2 h.synced

theorem Ok.sendError {s : Sys} (h : s.Ok) (c : Nat) (t : String) : (s.sendError c t).Ok := h.send c _

theorem Ok.emit {s : Sys} (h : s.Ok) (e : Event) (he : e.isFrame = false) : (s.emit e).Ok := by
  refine ⟨?_, h.synced, h.np⟩
  apply h.frames.of_frames
  rw [emit_frames]; simp [he]

theorem Ok.internalErr {s : Sys} (h : s.Ok) (c : Nat) (cls : String) : (s.internalErr c cls).Ok :=
  h.emit _ rfl

theorem Ok.updConn {s : Sys} (h : s.Ok) (c : Nat) (f : Conn → Conn) : (s.updConn c f).Ok :=
  ⟨h.frames, h.synced, h.np⟩

theorem Ok.foldl {α : Type} (step : Sys → α → Sys) (hstep : ∀ s a, s.Ok → (step s a).Ok) (l : List α) :
    ∀ {s : Sys}, s.Ok → (l.foldl step s).Ok := by
  induction l with
  | nil => intro s h; exact h
  | cons a l ih => intro s h; exact ih (hstep s a h)

theorem Ok.expire {s : Sys} (h : s.Ok) (now : Time) (fault : Bool) : (s.expire now fault).Ok := by
  unfold Sys.expire
  dsimp only
  have h0 := h.emit (.fired now (now - Generated.expirationTicks)) rfl
  have key : ∀ s1 : Sys, s1.Ok → (s1.dumpStats now).Ok := by
    intro s1 h1
    exact ⟨h1.frames.of_frames (by simp), ⟨by simpa using h1.synced.1, dumpStats_usync _ _ h1.synced.2⟩,
      by simpa using h1.np⟩
  apply key
  split
  · exact h0.emit _ rfl
  · split
    · rename_i s1 e
      obtain ⟨q, hk⟩ := pruneApps_spec _ e
      obtain ⟨a1, _, a3⟩ := hk h0.np
      exact h0.of_quiet q (a3 h0.synced) a1
    · rename_i s1 e
      obtain ⟨q, hk⟩ := pruneApps_spec _ e
      obtain ⟨a1, _, a3⟩ := hk h0.np
      exact (h0.of_quiet q (a3 h0.synced) a1).emit _ rfl

theorem Ok.claimNameplate {s s1 : Sys} (h : s.Ok) {app name side t fresh r}
    (e : s.claimNameplate app name side t fresh = (s1, r)) : s1.Ok := by
  obtain ⟨q, hn, hd⟩ := claimNameplate_spec e h.np.bounded
  refine h.of_quiet q.quiet ⟨hd h.synced.1, ?_⟩ (hn h.np)
  rw [q.udb, q.udisk]; exact h.synced.2

theorem Ok.releaseNameplate {s s1 : Sys} (h : s.Ok) {app name side t b}
    (e : s.releaseNameplate app name side t = (s1, b)) : s1.Ok := by
  obtain ⟨q, hn, hs⟩ := releaseNameplate_spec e
  exact h.of_quiet q (hs h.synced) (hn h.np)

theorem Ok.openMailbox {s s1 : Sys} (h : s.Ok) {app mb side t r}
    (e : s.openMailbox app mb side t = (s1, r)) : s1.Ok := by
  obtain ⟨d, hi, hni⟩ := openMailbox_spec e
  by_cases hr : r = .integrity
  · rw [hi hr]; exact h
  · refine h.of_quiet d.quiet ⟨(hni hr).symm, ?_⟩ (h.np.of_npPart d.np)
    rw [d.udb, d.udisk]; exact h.synced.2

theorem Ok.mailboxClose {s s1 : Sys} (h : s.Ok) {app mb side mood t b}
    (e : s.mailboxClose app mb side mood t = (s1, b)) : s1.Ok := by
  obtain ⟨q, hn, hs⟩ := mailboxClose_spec e
  exact h.of_quiet q (hs h.synced h.np.hasSide) (hn h.np)

theorem Ok.addMessage {s : Sys} (h : s.Ok) (app mb side ph bd t id) :
    (s.addMessage app mb side ph bd t id).Ok := by
  have d := addMessage_donly s app mb side ph bd t id
  refine h.of_quiet d.quiet ⟨by simp, ?_⟩ (h.np.of_npPart d.np)
  rw [d.udb, d.udisk]; exact h.synced.2

theorem Ok.logClientVersion {s : Sys} (h : s.Ok) (a sd t i v) : (s.logClientVersion a sd t i v).Ok :=
  ⟨h.frames.of_frames (by simp), ⟨by simpa using h.synced.1, logClientVersion_usync _ _ _ _ _ _ h.synced.2⟩,
    by simpa using h.np⟩

/-! ### server_websocket.py -/

theorem Ok.handlePing {s : Sys} (h : s.Ok) (c v) : (s.handlePing c v).Ok := by
  unfold Sys.handlePing; split
  · exact h.sendError _ _
  · exact h.send _ _

theorem Ok.handleBind {s : Sys} (h : s.Ok) (x t a sd i v) : (s.handleBind x t a sd i v).Ok := by
  unfold Sys.handleBind
  split
  · exact h.sendError _ _
  · split
    · exact h.sendError _ _
    · split
      · exact h.sendError _ _
      · exact (h.updConn _ _).logClientVersion _ _ _ _ _

theorem Ok.handleList {s : Sys} (h : s.Ok) (x app) : (s.handleList x app).Ok := h.send _ _

theorem Ok.handleAllocate {s : Sys} (h : s.Ok) (x app side t pick draws fresh) :
    (s.handleAllocate x app side t pick draws fresh).Ok := by
  unfold Sys.handleAllocate
  split
  · exact h.sendError _ _
  · split
    · exact h.internalErr _ _
    · split
      all_goals
        rename_i s1 _ e
        have h1 := h.claimNameplate e
      · exact (h1.updConn _ _).send _ _
      · exact h1.internalErr _ _
      · exact h1.internalErr _ _
      · exact h1.internalErr _ _

theorem Ok.handleClaim {s : Sys} (h : s.Ok) (x app side t n fresh) :
    (s.handleClaim x app side t n fresh).Ok := by
  unfold Sys.handleClaim
  split
  · exact h.sendError _ _
  · split
    · exact h.sendError _ _
    · dsimp only
      split
      all_goals
        rename_i e
        have h1 := (h.updConn _ _).claimNameplate e
      · exact h1.send _ _
      · exact h1.sendError _ _
      · exact h1.sendError _ _
      · exact h1.internalErr _ _

theorem Ok.handleRelease {s : Sys} (h : s.Ok) (x app side t n) :
    (s.handleRelease x app side t n).Ok := by
  unfold Sys.handleRelease
  have go : ∀ name : String,
      (match (s.updConn x.id (fun y => { y with didRelease := true })).releaseNameplate app name side t with
       | (s1, true) => s1.send x.id .released
       | (s1, false) => s1.internalErr x.id "IndexError").Ok := by
    intro name
    split
    all_goals
      rename_i e
      have h1 := (h.updConn _ _).releaseNameplate e
    · exact h1.send _ _
    · exact h1.internalErr _ _
  split
  · exact h.sendError _ _
  · dsimp only
    split
    · split
      · exact h.sendError _ _
      · exact go _
    · exact go _
    · exact go _
    · exact h.sendError _ _

theorem Ok.replay {s : Sys} (h : s.Ok) (c app mb) : (s.replay c app mb).Ok := by
  unfold Sys.replay
  exact Ok.foldl _ (fun s m hs => hs.send _ _) _ h

theorem Ok.broadcast {s : Sys} (h : s.Ok) (app mb f) : (s.broadcast app mb f).Ok := by
  unfold Sys.broadcast
  exact Ok.foldl _ (fun s m hs => hs.send _ _) _ h

theorem Ok.handleOpen {s : Sys} (h : s.Ok) (x app side t m) : (s.handleOpen x app side t m).Ok := by
  unfold Sys.handleOpen
  split
  · exact h.sendError _ _
  · split
    · exact h.sendError _ _
    · dsimp only
      split
      all_goals
        rename_i e
        have h1 := (h.updConn _ _).openMailbox e
      · exact h1.sendError _ _
      · exact h1.internalErr _ _
      · exact (h1.updConn _ _).replay _ _ _

theorem Ok.handleAdd {s : Sys} (h : s.Ok) (x app side t id ph bd) :
    (s.handleAdd x app side t id ph bd).Ok := by
  unfold Sys.handleAdd
  split
  · exact h.sendError _ _
  · split
    · exact h.sendError _ _
    · split
      · exact h.sendError _ _
      · exact (h.addMessage _ _ _ _ _ _ _).broadcast _ _ _

theorem Ok.handleClose {s : Sys} (h : s.Ok) (x app side t m mood) :
    (s.handleClose x app side t m mood).Ok := by
  unfold Sys.handleClose
  have tail : ∀ (s1 : Sys) (r : OpenRes) (hd : String), s1.Ok →
      (match ((s1, r, hd) : Sys × OpenRes × String) with
       | (s1, .crowded, _) => s1.sendError x.id "crowded"
       | (s1, .integrity, _) => s1.internalErr x.id "IntegrityError"
       | (s1, .ok, h) =>
         let s2 := s1.updConn x.id (fun y => { y with listening := false, didClose := true })
         match s2.mailboxClose app h side mood t with
         | (s3, false) => s3.internalErr x.id "IndexError"
         | (s3, true) => (s3.updConn x.id (fun y => { y with mailbox := none })).send x.id .closed).Ok := by
    intro s1 r hd h1
    cases r
    · dsimp only
      split
      all_goals
        rename_i e
        have h3 := (h1.updConn _ _).mailboxClose e
      · exact h3.internalErr _ _
      · exact (h3.updConn _ _).send _ _
    · exact h1.sendError _ _
    · exact h1.internalErr _ _
  have go : ∀ mb : String,
      (match (match x.mailbox with
          | some h => (s, OpenRes.ok, h)
          | none =>
            match s.openMailbox app mb side t with
            | (s1, r) => (s1.updConn x.id (fun y => if r = OpenRes.ok then { y with mailbox := some mb } else y), r, mb)
          : Sys × OpenRes × String) with
       | (s1, .crowded, _) => s1.sendError x.id "crowded"
       | (s1, .integrity, _) => s1.internalErr x.id "IntegrityError"
       | (s1, .ok, h) =>
         let s2 := s1.updConn x.id (fun y => { y with listening := false, didClose := true })
         match s2.mailboxClose app h side mood t with
         | (s3, false) => s3.internalErr x.id "IndexError"
         | (s3, true) => (s3.updConn x.id (fun y => { y with mailbox := none })).send x.id .closed).Ok := by
    intro mb
    cases hx : x.mailbox with
    | some hd => exact tail s .ok hd h
    | none =>
      dsimp only
      cases e : s.openMailbox app mb side t with
      | mk s1 r => exact tail _ r mb ((h.openMailbox e).updConn _ _)
  split
  · exact h.sendError _ _
  · dsimp only
    split
    · split
      · exact h.sendError _ _
      · exact go _
    · exact go _
    · exact go _
    · exact h.sendError _ _

theorem Ok.onMessage {s : Sys} (h : s.Ok) (c t id cmd) : (s.onMessage c t id cmd).Ok := by
  unfold Sys.onMessage
  split
  · exact h
  · rename_i x _
    have ha := h.send c (.ack id)
    cases cmd with
    | noType => exact h.sendError _ _
    | ping v => exact ha.handlePing _ _
    | bind a sd i v => exact ha.handleBind _ _ _ _ _ _
    | unknown =>
      dsimp only
      split
      · exact ha.sendError _ _
      · exact ha.sendError _ _
    | list =>
      dsimp only
      split
      · exact ha.sendError _ _
      · exact ha.handleList _ _
    | allocate pick draws fresh =>
      dsimp only
      split
      · exact ha.sendError _ _
      · exact ha.handleAllocate _ _ _ _ _ _ _
    | claim n fresh =>
      dsimp only
      split
      · exact ha.sendError _ _
      · exact ha.handleClaim _ _ _ _ _ _
    | release n =>
      dsimp only
      split
      · exact ha.sendError _ _
      · exact ha.handleRelease _ _ _ _ _
    | open_ m =>
      dsimp only
      split
      · exact ha.sendError _ _
      · exact ha.handleOpen _ _ _ _ _
    | add ph bd =>
      dsimp only
      split
      · exact ha.sendError _ _
      · exact ha.handleAdd _ _ _ _ _ _ _
    | close m mood =>
      dsimp only
      split
      · exact ha.sendError _ _
      · exact ha.handleClose _ _ _ _ _ _

theorem Ok.connect {s : Sys} (h : s.Ok) (c : Nat) : (s.connect c).Ok := by
  unfold Sys.connect
  exact Ok.send (s := { s with conns := s.conns ++ [({ id := c } : Conn)] }) ⟨h.frames, h.synced, h.np⟩ _ _

theorem Ok.dropConn {s : Sys} (h : s.Ok) (c : Nat) : (s.dropConn c).Ok := ⟨h.frames, h.synced, h.np⟩

theorem Ok.restart {s : Sys} (h : s.Ok) (t : Time) : (s.restart t).Ok := by
  refine ⟨h.frames, ⟨rfl, rfl⟩, ?_⟩
  show s.disk.NpOk
  rw [← h.synced.1]; exact h.np

/-- every operation, run from a state with nothing uncommitted, sends all its frames in
    synced states and ends with nothing uncommitted (`crashIn` is the identity of `stepPlain`) -/
theorem Ok.stepPlain {s : Sys} (h : s.Ok) (op : Op) : (s.stepPlain op).Ok := by
  cases op with
  | connect c => exact h.connect c
  | recv c t id cmd => exact h.onMessage c t id cmd
  | drop c => exact h.dropConn c
  | sweep now fault => exact h.expire now fault
  | restart t => exact h.restart t
  | crashIn k op => exact h

end Sys

namespace Sys

/-- the state a step starts from -/
theorem Ok.clear {s : Sys} (hs : s.Synced) (hn : s.db.NpOk) : ({ s with out := [], snaps := [] } : Sys).Ok :=
  ⟨by intro e he; simp at he, hs, hn⟩

theorem step_eq_of_not_crash (s : Sys) {op : Op} (h : op.isCrash = false) :
    s.step op = ({ s with out := [], snaps := [] } : Sys).stepPlain op := by
  cases op <;> first | rfl | simp [Op.isCrash] at h

theorem Ok.step {s : Sys} (hs : s.Synced) (hn : s.db.NpOk) {op : Op} (h : op.isCrash = false) :
    (s.step op).Ok := by
  rw [step_eq_of_not_crash s h]
  exact (Ok.clear hs hn).stepPlain op

/-! ### crashes -/

theorem mem_cutAtCommit : ∀ (k : Nat) (l : List Event) (e : Event), e ∈ cutAtCommit k l → e ∈ l := by
  intro k l
  induction l generalizing k with
  | nil => intro e he; cases k <;> simp [cutAtCommit] at he
  | cons a l ih =>
    intro e he
    cases k with
    | zero => simp [cutAtCommit] at he
    | succ k =>
      cases a with
      | commit w =>
        simp only [cutAtCommit, List.mem_cons] at he ⊢
        rcases he with rfl | he
        · exact Or.inl rfl
        · exact Or.inr (ih _ _ he)
      | frame c f b =>
        simp only [cutAtCommit, List.mem_cons] at he ⊢
        rcases he with rfl | he
        · exact Or.inl rfl
        · exact Or.inr (ih _ _ he)
      | internal c cls =>
        simp only [cutAtCommit, List.mem_cons] at he ⊢
        rcases he with rfl | he
        · exact Or.inl rfl
        · exact Or.inr (ih _ _ he)
      | fired a b =>
        simp only [cutAtCommit, List.mem_cons] at he ⊢
        rcases he with rfl | he
        · exact Or.inl rfl
        · exact Or.inr (ih _ _ he)

/-- a crash leaves nothing uncommitted (by construction of `crashTo`), whatever the state before -/
theorem step_crash_synced (s : Sys) (k : Nat) (op : Op) : (s.step (.crashIn k op)).Synced := by
  unfold Sys.step
  dsimp only
  split <;> exact ⟨rfl, rfl⟩

/-- the frames that got out before a crash were sent in synced states -/
theorem step_crash_framesOk {s : Sys} (hs : s.Synced) (hn : s.db.NpOk) (k : Nat) (op : Op) :
    (s.step (.crashIn k op)).FramesOk := by
  have h1 := ((Ok.clear hs hn).stepPlain op).frames
  unfold Sys.step
  dsimp only
  split
  · intro e he; simp at he
  · intro e he
    exact h1 e (mem_cutAtCommit _ _ e he)
  · exact h1

end Sys
end Wormhole
