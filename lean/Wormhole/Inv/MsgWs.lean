/-
  `messages` / mailbox rows through the sweep, the websocket handlers and whole steps
  (continuation of Inv/MsgDb.lean).
-/
import Wormhole.Inv.MsgDb
import Wormhole.Props.C17

namespace Wormhole
namespace Chan

/-- mailbox ids are unique across apps (PRIMARY KEY), stated on the keys -/
def UniqIds (d : Chan) : Prop := d.mbKeys.Pairwise (fun k k' => ¬ k.2 = k'.2)

theorem PInv.uniqIds {d : Chan} (h : d.PInv) : d.UniqIds := by
  simpa [UniqIds, mbKeys, List.pairwise_map] using h.mbIds

theorem UniqIds.of_shrink {dead} {d d' : Chan} (h : ShrinkBy dead d d') (u : d.UniqIds) : d'.UniqIds := by
  unfold UniqIds; rw [h.keys]; exact u.filter _

theorem UniqIds.of_delStep {ok} {d d' : Chan} (h : DelStep ok d d') (u : d.UniqIds) : d'.UniqIds := by
  obtain ⟨_, s, _⟩ := h; exact u.of_shrink s

theorem UniqIds.eq {d : Chan} (u : d.UniqIds) {k k' : String × String} (hk : k ∈ d.mbKeys)
    (hk' : k' ∈ d.mbKeys) (h : k.2 = k'.2) : k = k' :=
  eq_of_pairwise_ne (f := Prod.snd) u hk hk' h

theorem mem_mbKeys {d : Chan} {k : String × String} :
    k ∈ d.mbKeys ↔ ∃ r ∈ d.mailboxes, r.app = k.1 ∧ r.id = k.2 := by
  simp only [mbKeys, List.mem_map]
  constructor
  · rintro ⟨r, hr, rfl⟩; exact ⟨r, hr, rfl, rfl⟩
  · rintro ⟨r, hr, h1, h2⟩; exact ⟨r, hr, by rw [h1, h2]⟩

theorem findMailbox_isSome_iff {d : Chan} {a m : String} :
    (d.findMailbox a m).isSome ↔ (a, m) ∈ d.mbKeys := by
  simp [findMailbox, mem_mbKeys, List.find?_isSome]

theorem findMailbox_eq_none_iff {d : Chan} {a m : String} :
    d.findMailbox a m = none ↔ (a, m) ∉ d.mbKeys := by
  rw [← findMailbox_isSome_iff]; simp

end Chan

namespace Sys

section sweep
variable {W : Prop} {P : Chan → Prop} {ok : String → String → Prop}

/-- `AppNamespace.prune`: the deleted mailbox rows had no listener, PROVIDED `old < now`
    (a touched row is stamped `now`) and mailbox ids are unique (the DELETEs go by id) -/
theorem AllDb.prune {s : Sys} (a : AllDb W P s) (hP : Chan.DelClosed ok P) (hu : s.db.UniqIds)
    {now old : Time} (hlt : old < now) (hok : ∀ a' m, s.listeners a' m = [] → ok a' m) {app : String} :
    AllDb W P (s.prune app now old).1 := by
  rw [prune_eq]
  dsimp only
  unfold pruneRest
  have a1 : AllDb W P (s.touchListened app now).commit := (a.touchListened hP.same).commit
  have k1 : (s.touchListened app now).commit.db.mbKeys = s.db.mbKeys := by
    simp only [commit_db, touchListened, modDb_db]
    exact s.db.mbKeys_map _ (fun r => by split <;> simp)
  generalize hoMb : (((s.touchListened app now).commit.db.mailboxesOfApp app).filter
    (fun r => ¬ r.updated > old)) = oldMb
  generalize hoNp : (((s.touchListened app now).commit.db.nameplatesOfApp app).filter
    (fun r => r.mailbox ∈ oldMb.map (·.id))) = oldNp
  have a2 := AllDb.pruneNameplates hP.same (app := app) (now := now) oldNp a1
  have k2 := (AllDb.pruneNameplates (W := False)
    (P := fun d => d.mpart = (s.touchListened app now).commit.db.mpart)
    (fun d d' h e => e.trans h) (app := app) (now := now) oldNp (AllDb.dbOnly rfl)).db
  split <;> rename_i s2 heq <;> rw [heq] at a2 k2
  · exact a2
  · dsimp only at a2 k2 ⊢
    have hkeys : s2.db.mbKeys = s.db.mbKeys := by
      have := congrArg Prod.snd k2
      simpa [Chan.mpart, k1] using this
    have a3 : AllDb W P (s2.pruneMailboxes app now oldMb) := by
      apply AllDb.pruneMailboxes hP oldMb a2
      intro row hrow k hk hid
      rw [hkeys] at hk
      subst hoMb
      simp only [List.mem_filter, Chan.mailboxesOfApp, commit_db, touchListened, modDb_db,
        List.mem_map, decide_eq_true_eq, decide_not, Bool.not_eq_eq_eq_not, Bool.not_true,
        decide_eq_false_iff_not] at hrow
      obtain ⟨⟨⟨r0, hr0, hf⟩, happ⟩, hold⟩ := hrow
      by_cases hc : r0.app = app ∧ s.listeners app r0.id ≠ []
      · rw [if_pos hc] at hf
        subst hf
        exact absurd hlt hold
      · rw [if_neg hc] at hf
        subst hf
        have hrk : (row.app, row.id) ∈ s.db.mbKeys := Chan.mem_mbKeys.2 ⟨row, hr0, rfl, rfl⟩
        have := hu.eq hk hrk hid
        subst this
        simp only
        apply hok
        by_contra hne
        exact hc ⟨happ, hne⟩
    split
    · split
      · exact a3.commit.ucommit
      · exact a3.commit
    · exact a3

/-- the relation between the databases before and after `prune` -/
theorem prune_delStep {s : Sys} (hu : s.db.UniqIds) {now old : Time} (hlt : old < now) (app : String) :
    Chan.DelStep (fun a' m => s.listeners a' m = []) s.db (s.prune app now old).1.db :=
  (AllDb.prune (W := False) (AllDb.dbOnly (Chan.DelStep.refl s.db)) (Chan.delClosed_delStep _ _) hu hlt
    (fun _ _ h => h)).db

theorem AllDb.pruneApps (hP : Chan.DelClosed ok P) {now old : Time} (hlt : old < now) (l : List String) :
    ∀ {s : Sys}, AllDb W P s → s.db.UniqIds → (∀ a' m, s.listeners a' m = [] → ok a' m) →
      AllDb W P (s.pruneApps now old l).1 := by
  induction l with
  | nil => intro s a _ _; exact a
  | cons app rest ih =>
    intro s a hu hok
    unfold Sys.pruneApps
    have a1 := a.prune hP hu hlt hok (app := app)
    have u1 := hu.of_delStep (prune_delStep hu hlt app)
    have c1 := prune_conns s app now old
    split <;> rename_i s1 heq <;> rw [heq] at a1 u1 c1
    · exact a1
    · exact ih a1 u1 (fun a' m h => hok a' m (by rw [← listeners_congr c1]; exact h))

theorem expirationTicks_pos : 0 < Generated.expirationTicks := by decide

/-- one firing of `expire()` -/
theorem AllDb.expire {s : Sys} (a : AllDb W P s) (hP : Chan.DelClosed ok P) (hu : s.db.UniqIds)
    (hok : ∀ a' m, s.listeners a' m = [] → ok a' m) {now : Time} {fault : Bool} :
    AllDb W P (s.expire now fault) := by
  unfold Sys.expire
  simp only []
  apply AllDb.dumpStats
  split
  · exact a.emit.emit
  · have hlt : now - Generated.expirationTicks < now := by
      have := expirationTicks_pos; omega
    have h1 := AllDb.pruneApps hP hlt ((s.emit (.fired now (now - Generated.expirationTicks))).allApps)
      (s := s.emit (.fired now (now - Generated.expirationTicks))) a.emit hu hok
    split <;> rename_i heq <;> rw [heq] at h1
    · exact h1
    · exact h1.emit

end sweep

end Sys
end Wormhole
