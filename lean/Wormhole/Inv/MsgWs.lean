/-
  `messages` / mailbox rows through the sweep, the websocket handlers and whole steps
  (continuation of Inv/MsgDb.lean).
-/
import Wormhole.Inv.MsgDb
import Wormhole.Props.C17

namespace Wormhole
namespace Chan

/-- mailbox ids are unique across apps (PRIMARY KEY), stated on the keys -/
def UniqIds (d : Chan) : Prop := d.mbKeys.Pairwise (fun k k' => ¬ k.2 = k'.2)

theorem PInv.uniqIds {d : Chan} (h : d.PInv) : d.UniqIds := by
  simpa [UniqIds, mbKeys, List.pairwise_map] using h.mbIds

theorem UniqIds.of_shrink {dead} {d d' : Chan} (h : ShrinkBy dead d d') (u : d.UniqIds) : d'.UniqIds := by
  unfold UniqIds; rw [h.keys]; exact u.filter _

theorem UniqIds.of_delStep {ok} {d d' : Chan} (h : DelStep ok d d') (u : d.UniqIds) : d'.UniqIds := by
  obtain ⟨_, s, _⟩ := h; exact u.of_shrink s

theorem UniqIds.eq {d : Chan} (u : d.UniqIds) {k k' : String × String} (hk : k ∈ d.mbKeys)
    (hk' : k' ∈ d.mbKeys) (h : k.2 = k'.2) : k = k' :=
  eq_of_pairwise_ne (f := Prod.snd) u hk hk' h

theorem mem_mbKeys {d : Chan} {k : String × String} :
    k ∈ d.mbKeys ↔ ∃ r ∈ d.mailboxes, r.app = k.1 ∧ r.id = k.2 := by
  simp only [mbKeys, List.mem_map]
  constructor
  · rintro ⟨r, hr, rfl⟩; exact ⟨r, hr, rfl, rfl⟩
  · rintro ⟨r, hr, h1, h2⟩; exact ⟨r, hr, by rw [h1, h2]⟩

theorem findMailbox_isSome_iff {d : Chan} {a m : String} :
    (d.findMailbox a m).isSome ↔ (a, m) ∈ d.mbKeys := by
  simp [findMailbox, mem_mbKeys, List.find?_isSome]

theorem findMailbox_eq_none_iff {d : Chan} {a m : String} :
    d.findMailbox a m = none ↔ (a, m) ∉ d.mbKeys := by
  rw [← findMailbox_isSome_iff]; simp

end Chan

namespace Sys

section sweep
variable {W : Prop} {P : Chan → Prop} {ok : String → String → Prop}

/-- `AppNamespace.prune`: the deleted mailbox rows had no listener, PROVIDED `old < now`
    (a touched row is stamped `now`) and mailbox ids are unique (the DELETEs go by id) -/
theorem AllDb.prune {s : Sys} (a : AllDb W P s) (hP : Chan.DelClosed ok P) (hu : s.db.UniqIds)
    {now old : Time} (hlt : old < now) (hok : ∀ a' m, s.listeners a' m = [] → ok a' m) {app : String} :
    AllDb W P (s.prune app now old).1 := by
  rw [prune_eq]
  dsimp only
  unfold pruneRest
  have a1 : AllDb W P (s.touchListened app now).commit := (a.touchListened hP.same).commit
  have k1 : (s.touchListened app now).commit.db.mbKeys = s.db.mbKeys := by
    simp only [commit_db]
    exact s.db.mbKeys_map _ (fun r => by split <;> simp)
  generalize hoMb : (((s.touchListened app now).commit.db.mailboxesOfApp app).filter
    (fun r => ¬ r.updated > old)) = oldMb
  generalize hoNp : (((s.touchListened app now).commit.db.nameplatesOfApp app).filter
    (fun r => r.mailbox ∈ oldMb.map (·.id))) = oldNp
  have a2 := AllDb.pruneNameplates hP.same (app := app) (now := now) oldNp a1
  have k2 := (AllDb.pruneNameplates (W := False)
    (P := fun d => d.mpart = (s.touchListened app now).commit.db.mpart)
    (fun d d' h e => e.trans h) (app := app) (now := now) oldNp (AllDb.dbOnly rfl)).db
  split <;> rename_i s2 heq <;> rw [heq] at a2 k2
  · exact a2
  · dsimp only at a2 k2 ⊢
    have hkeys : s2.db.mbKeys = s.db.mbKeys := by
      have := congrArg Prod.snd k2
      simp only [Chan.mpart] at this
      rw [this, k1]
    have a3 : AllDb W P (s2.pruneMailboxes app now oldMb) := by
      apply AllDb.pruneMailboxes hP oldMb a2
      intro row hrow k hk hid
      rw [hkeys] at hk
      subst hoMb
      simp only [List.mem_filter, Chan.mailboxesOfApp, commit_db, decide_eq_true_eq, decide_not, Bool.not_eq_eq_eq_not, Bool.not_true,
        decide_eq_false_iff_not] at hrow
      obtain ⟨⟨hrow', happ⟩, hold⟩ := hrow
      have hrow'' : row ∈ s.db.mailboxes.map (fun r =>
        if r.app = app ∧ s.listeners app r.id ≠ [] then { r with updated := now } else r) := hrow'
      obtain ⟨r0, hr0, hf⟩ := List.mem_map.1 hrow''
      by_cases hc : r0.app = app ∧ s.listeners app r0.id ≠ []
      · rw [if_pos hc] at hf
        subst hf
        exact absurd hlt hold
      · rw [if_neg hc] at hf
        subst hf
        have hrk : (r0.app, r0.id) ∈ s.db.mbKeys := Chan.mem_mbKeys.2 ⟨r0, hr0, rfl, rfl⟩
        have := hu.eq hk hrk hid
        subst this
        simp only
        apply hok
        by_cases hne : s.listeners app r0.id = []
        · rw [happ]; exact hne
        · exact absurd ⟨happ, hne⟩ hc
    split
    · split
      · exact a3.commit.ucommit
      · exact a3.commit
    · exact a3

/-- the relation between the databases before and after `prune` -/
theorem prune_delStep {s : Sys} (hu : s.db.UniqIds) {now old : Time} (hlt : old < now) (app : String) :
    Chan.DelStep (fun a' m => s.listeners a' m = []) s.db (s.prune app now old).1.db :=
  (AllDb.prune (W := False) (AllDb.dbOnly (Chan.DelStep.refl s.db)) (Chan.delClosed_delStep _ _) hu hlt
    (fun _ _ h => h)).db

theorem AllDb.pruneApps (hP : Chan.DelClosed ok P) {now old : Time} (hlt : old < now) (l : List String) :
    ∀ {s : Sys}, AllDb W P s → s.db.UniqIds → (∀ a' m, s.listeners a' m = [] → ok a' m) →
      AllDb W P (s.pruneApps now old l).1 := by
  induction l with
  | nil => intro s a _ _; exact a
  | cons app rest ih =>
    intro s a hu hok
    unfold Sys.pruneApps
    have a1 := a.prune hP hu hlt hok (app := app)
    have u1 := hu.of_delStep (prune_delStep hu hlt app)
    have c1 := prune_conns s app now old
    split <;> rename_i s1 heq <;> rw [heq] at a1 u1 c1
    · exact a1
    · exact ih a1 u1 (fun a' m h => hok a' m (by rw [← listeners_congr c1]; exact h))

theorem expirationTicks_pos : 0 < Generated.expirationTicks := by decide

/-- one firing of `expire()` -/
theorem AllDb.expire {s : Sys} (a : AllDb W P s) (hP : Chan.DelClosed ok P) (hu : s.db.UniqIds)
    (hok : ∀ a' m, s.listeners a' m = [] → ok a' m) {now : Time} {fault : Bool} :
    AllDb W P (s.expire now fault) := by
  unfold Sys.expire
  simp only []
  apply AllDb.dumpStats
  split
  · exact a.emit.emit
  · have hlt : now - Generated.expirationTicks < now := Int.sub_lt_self now expirationTicks_pos
    have h1 := AllDb.pruneApps hP hlt ((s.emit (.fired now (now - Generated.expirationTicks))).allApps)
      (s := s.emit (.fired now (now - Generated.expirationTicks))) a.emit hu hok
    split <;> rename_i heq <;> rw [heq] at h1
    · exact h1
    · exact h1.emit

end sweep

/-! ### the handlers of server_websocket.py -/

/-- no condition on the deleted rows -/
abbrev anyOk : String → String → Prop := fun _ _ => True

section handlers
variable {W : Prop} {P : Chan → Prop} {s : Sys} {x : Conn}

theorem AllDb.handlePing (a : AllDb W P s) {c v} : AllDb W P (s.handlePing c v) := by
  unfold Sys.handlePing
  split
  · exact a.sendError
  · exact a.send

theorem AllDb.handleBind (a : AllDb W P s) {t app side impl version} :
    AllDb W P (s.handleBind x t app side impl version) := by
  unfold Sys.handleBind
  split
  · exact a.sendError
  · split
    · exact a.sendError
    · split
      · exact a.sendError
      · exact a.updConn.logClientVersion

theorem AllDb.handleList (a : AllDb W P s) {app} : AllDb W P (s.handleList x app) := a.send

theorem AllDb.handleAllocate (a : AllDb W P s) (hP : Chan.GrowClosed P) {app side t pick draws fresh} :
    AllDb W P (s.handleAllocate x app side t pick draws fresh) := by
  unfold Sys.handleAllocate
  split
  · exact a.sendError
  · split
    · exact a.internalErr
    · rename_i name _
      have h := a.claimNameplate hP (app := app) (name := name) (side := side) (t := t) (fresh := fresh)
      split <;> rename_i heq <;> rw [heq] at h
      · exact h.updConn.send
      · exact h.internalErr
      · exact h.internalErr
      · exact h.internalErr

theorem AllDb.handleClaim (a : AllDb W P s) (hP : Chan.GrowClosed P) {app side t nameplate fresh} :
    AllDb W P (s.handleClaim x app side t nameplate fresh) := by
  unfold Sys.handleClaim
  split
  · exact a.sendError
  · rename_i name
    split
    · exact a.sendError
    · have h := (a.updConn (c := x.id)
        (f := fun y => { y with didClaim := true, nameplateId := some name })).claimNameplate hP
        (app := app) (name := name) (side := side) (t := t) (fresh := fresh)
      simp only []
      split <;> rename_i heq <;> rw [heq] at h
      · exact h.send
      · exact h.sendError
      · exact h.sendError
      · exact h.internalErr

theorem AllDb.handleRelease (a : AllDb W P s) (hP : Chan.SameClosed P) {app side t n} :
    AllDb W P (s.handleRelease x app side t n) := by
  have hgo : ∀ name, AllDb W P
      (match (s.updConn x.id (fun y => { y with didRelease := true })).releaseNameplate app name side t with
        | (s1, true) => s1.send x.id .released
        | (s1, false) => s1.internalErr x.id "IndexError") := by
    intro name
    have h := (a.updConn (c := x.id) (f := fun y => { y with didRelease := true })).releaseNameplate hP
      (app := app) (name := name) (side := side) (t := t)
    split <;> rename_i heq <;> rw [heq] at h
    · exact h.send
    · exact h.internalErr
  unfold Sys.handleRelease
  split
  · exact a.sendError
  · simp only []
    split
    · split
      · exact a.sendError
      · exact hgo _
    · exact hgo _
    · exact hgo _
    · exact a.sendError

theorem AllDb.replay (a : AllDb W P s) {c app mb} : AllDb W P (s.replay c app mb) := by
  unfold Sys.replay
  exact AllDb.foldl_send (fun _ => c) (fun (m : Message) => .message m.side m.phase m.body m.rx m.msgId) _ a

theorem AllDb.handleOpen (a : AllDb W P s) (hP : Chan.GrowClosed P) {app side t mailbox} :
    AllDb W P (s.handleOpen x app side t mailbox) := by
  unfold Sys.handleOpen
  split
  · exact a.sendError
  · split
    · exact a.sendError
    · rename_i mb
      have h := (a.updConn (c := x.id) (f := fun y => { y with mailboxId := some mb })).openMailbox hP
        (app := app) (mb := mb) (side := side) (t := t)
      simp only []
      split <;> rename_i heq <;> rw [heq] at h
      · exact h.sendError
      · exact h.internalErr
      · exact h.updConn.replay

theorem AllDb.handleClose {P2 : Chan → Prop} (a : AllDb W P s) (hP : Chan.GrowClosed P)
    (hP2 : Chan.DelClosed anyOk P2) (h12 : ∀ d, P d → P2 d) {app side t m mood} :
    AllDb W P2 (s.handleClose x app side t m mood) := by
  have a' : AllDb W P2 s := a.mono h12
  have hgo : ∀ mb, AllDb W P2
      (match (match x.mailbox with
          | some h => (s, OpenRes.ok, h)
          | none =>
            match s.openMailbox app mb side t with
            | (s1, r) =>
              (s1.updConn x.id (fun y => if r = .ok then { y with mailbox := some mb } else y), r, mb)
          : Sys × OpenRes × String) with
      | (s1, .crowded, _) => s1.sendError x.id "crowded"
      | (s1, .integrity, _) => s1.internalErr x.id "IntegrityError"
      | (s1, .ok, h) =>
        match (s1.updConn x.id (fun y => { y with listening := false, didClose := true })).mailboxClose
            app h side mood t with
        | (s3, false) => s3.internalErr x.id "IndexError"
        | (s3, true) => (s3.updConn x.id (fun y => { y with mailbox := none })).send x.id .closed) := by
    intro mb
    have hop : ∀ s1 r h, (match x.mailbox with
          | some h => (s, OpenRes.ok, h)
          | none =>
            match s.openMailbox app mb side t with
            | (s1, r) =>
              (s1.updConn x.id (fun y => if r = .ok then { y with mailbox := some mb } else y), r, mb)
          : Sys × OpenRes × String) = (s1, r, h) → AllDb W P2 s1 := by
      intro s1 r h heq
      split at heq
      · cases heq; exact a'
      · split at heq
        rename_i s1' r' hom
        cases heq
        have := a.openMailbox hP (app := app) (mb := mb) (side := side) (t := t)
        rw [hom] at this
        exact (this.mono h12).updConn
    split <;> rename_i heq <;> have h := hop _ _ _ heq
    · exact h.sendError
    · exact h.internalErr
    · rename_i _ s1 hh
      have hc := (h.updConn (c := x.id) (f := fun y => { y with listening := false, didClose := true })).mailboxClose
        hP2 (mb := hh) (fun _ => trivial) (app := app) (side := side) (mood := mood) (t := t)
      split <;> rename_i heq2 <;> rw [heq2] at hc
      · exact hc.internalErr
      · exact hc.updConn.send
  unfold Sys.handleClose
  split
  · exact a'.sendError
  · simp only []
    split
    · split
      · exact a'.sendError
      · exact hgo _
    · exact hgo _
    · exact hgo _
    · exact a'.sendError

/-- an accepted `add`, as an equation -/
theorem onMessage_add {c : Nat} {t : Time} {id : Val} {app mb : String} {ph bd : Val}
    (hx : s.findConn c = some x) (ha : x.app = some app) (hm : x.mailbox = some mb) :
    s.onMessage c t id (.add (some ph) (some bd)) =
      ((s.send c (.ack id)).addMessage app mb (x.side.getD "") ph bd t id).broadcast app mb
        (.message (x.side.getD "") ph bd t id) := by
  simp [Sys.onMessage, hx, ha, Sys.handleAdd, hm]

/-- every command other than an accepted `add` -/
theorem AllDb.onMessage {P2 : Chan → Prop} (a : AllDb W P s) (hP : Chan.GrowClosed P)
    (hP2 : Chan.DelClosed anyOk P2) (h12 : ∀ d, P d → P2 d) {c : Nat} {t : Time} {id : Val} {cmd : Cmd}
    (hna : ∀ x, s.findConn c = some x → ∀ ph bd, cmd = .add (some ph) (some bd) →
      x.app = none ∨ x.mailbox = none) :
    AllDb W P2 (s.onMessage c t id cmd) := by
  have a' : AllDb W P2 s := a.mono h12
  unfold Sys.onMessage
  split
  · exact a'
  · rename_i x hx
    split
    · exact a'.sendError
    · simp only []
      split
      · exact a'.send.handlePing
      · exact a'.send.handleBind
      · split
        · exact a'.send.sendError
        · rename_i app happ
          split
          · exact a'.send.handleList
          · exact (a.send.handleAllocate hP).mono h12
          · exact (a.send.handleClaim hP).mono h12
          · exact (a.send.handleRelease hP.same).mono h12
          · exact (a.send.handleOpen hP).mono h12
          · rename_i ph bd
            unfold Sys.handleAdd
            split
            · exact a'.send.sendError
            · rename_i mb hm
              split
              · exact a'.send.sendError
              · split
                · exact a'.send.sendError
                · rcases hna x hx _ _ rfl with h | h
                  · rw [h] at happ; cases happ
                  · rw [h] at hm; cases hm
          · exact a.send.handleClose hP hP2 h12
          · exact a'.send.sendError

end handlers

/-! ### a fold of sends -/

section fold
variable {α : Type} (g : α → Nat) (fr : α → Frame)

theorem foldl_send_spec (l : List α) : ∀ (s : Sys),
    let s' := l.foldl (fun s a => s.send (g a) (fr a)) s
    s'.db = s.db ∧ s'.disk = s.disk ∧ s'.udb = s.udb ∧ s'.udisk = s.udisk ∧ s'.snaps = s.snaps ∧
    s'.conns = s.conns ∧ s'.cfg = s.cfg ∧ s'.rebooted = s.rebooted ∧
    s'.out = s.out ++ l.map (fun a => .frame (g a) (fr a) s.synced) := by
  induction l with
  | nil => intro s; simp
  | cons a l ih =>
    intro s
    obtain ⟨h1, h2, h3, h4, h5, h6, h7, h8, h9⟩ := ih (s.send (g a) (fr a))
    refine ⟨h1, h2, h3, h4, h5, h6, h7, h8, ?_⟩
    have hsy : (s.send (g a) (fr a)).synced = s.synced := rfl
    simp only [List.foldl_cons, h9, hsy]
    simp [Sys.send, Sys.emit]

end fold

/-! ### whole steps -/

/-- the operation a (possibly crashing) operation executes -/
def _root_.Wormhole.Op.plain : Op → Op
  | .crashIn _ op => op
  | op => op

/-- the row an accepted `add` stores: `some` exactly when the (plain) operation is an `add` with
    phase and body on an existing connection that is bound and holds a mailbox handle -/
def addRowOf (s : Sys) : Op → Option Message
  | .recv c t id (.add (some ph) (some bd)) =>
    match s.findConn c with
    | some x =>
      match x.app, x.mailbox with
      | some a, some m => some ⟨a, m, x.side.getD "", ph.toText, bd.toText, t, id.toText⟩
      | _, _ => none
    | none => none
  | _ => none

/-- the condition the rows deleted by `op` satisfy: a sweep only deletes mailboxes without listener -/
def okOf (s : Sys) : Op → String → String → Prop
  | .sweep _ _ => fun a m => s.listeners a m = []
  | _ => fun _ _ => True

theorem AllDb.start {P : Chan → Prop} {s : Sys} (hs : s.Synced) (h : P s.db) :
    AllDb True P ({ s with out := [], snaps := [] } : Sys) :=
  ⟨h, fun _ => ⟨by rw [show ({ s with out := [], snaps := [] } : Sys).disk = s.disk from rfl, ← hs.1]; exact h,
    by simp⟩⟩

theorem AllDb.of_eq {W : Prop} {P : Chan → Prop} {s s' : Sys} (a : AllDb W P s) (h1 : s'.db = s.db)
    (h2 : s'.disk = s.disk) (h3 : s'.snaps = s.snaps) : AllDb W P s' :=
  ⟨h1 ▸ a.db, fun w => ⟨h2 ▸ (a.rest w).1, h3 ▸ (a.rest w).2⟩⟩

/-- every plain operation other than an accepted `add`: the live database, the committed one and
    every crash point arise from the initial database by first adding mailbox rows, then deleting
    mailbox rows together with their messages -/
theorem stepPlain_tr {s : Sys} (hs : s.Synced) (hu : s.db.UniqIds) (op : Op)
    (hna : addRowOf s op = none) :
    AllDb True (Chan.Tr (okOf s op) s.db) (({ s with out := [], snaps := [] } : Sys).stepPlain op) := by
  have a0 : AllDb True (Chan.Grow s.db) ({ s with out := [], snaps := [] } : Sys) :=
    AllDb.start hs (Chan.Grow.refl _)
  cases op with
  | connect c => exact (a0.mono fun d h => Chan.Tr.of_grow h).of_eq rfl rfl rfl
  | drop c => exact (a0.mono fun d h => Chan.Tr.of_grow h).of_eq rfl rfl rfl
  | restart t =>
    exact ⟨Chan.Tr.of_grow (a0.rest trivial).1, fun w => ⟨Chan.Tr.of_grow (a0.rest w).1,
      by simp [Sys.stepPlain, Sys.restart]⟩⟩
  | crashIn k op' => exact a0.mono fun d h => Chan.Tr.of_grow h
  | sweep now fault =>
    have a1 : AllDb True (Chan.Tr (okOf s (.sweep now fault)) s.db) ({ s with out := [], snaps := [] } : Sys) :=
      a0.mono fun d h => Chan.Tr.of_grow h
    exact a1.expire (Chan.delClosed_tr _ _) hu (fun a' m h => h)
  | recv c t id cmd =>
    refine a0.onMessage (Chan.growClosed_grow _) (Chan.delClosed_tr anyOk s.db)
      (fun d h => Chan.Tr.of_grow h) ?_
    intro x hx ph bd hcmd
    subst hcmd
    have hx' : s.findConn c = some x := hx
    simp only [addRowOf, hx'] at hna
    cases ha : x.app with
    | none => exact .inl rfl
    | some a =>
      cases hm : x.mailbox with
      | none => exact .inr rfl
      | some m => simp [ha, hm] at hna

/-- the database a step leaves is one of: the live database of the executed operation, its
    committed database, one of its crash points, or (crash before the first commit) the
    committed database it started from -/
theorem step_db_cases (s : Sys) (op : Op) :
    let s1 := ({ s with out := [], snaps := [] } : Sys).stepPlain op.plain
    (s.step op).db = s1.db ∨ (s.step op).db = s1.disk ∨ (∃ p ∈ s1.snaps, (s.step op).db = p.1) ∨
      (s.step op).db = s.disk := by
  cases op with
  | crashIn k op' =>
    simp only [Sys.step, Op.plain]
    cases k with
    | zero => exact .inr (.inr (.inr rfl))
    | succ k =>
      cases h : (({ s with out := [], snaps := [] } : Sys).stepPlain op').snaps[k + 1 - 1]? with
      | none => exact .inr (.inl (by simp [Sys.crashTo]))
      | some p =>
        refine .inr (.inr (.inl ⟨p, List.mem_of_getElem? h, ?_⟩))
        simp [Sys.crashTo]
  | _ => exact .inl rfl

/-- **every step other than an accepted `add`** (crashes included, whatever the crash point) -/
theorem step_tr {s : Sys} (hs : s.Synced) (hu : s.db.UniqIds) (op : Op)
    (hna : addRowOf s op.plain = none) :
    Chan.Tr (okOf s op.plain) s.db (s.step op).db := by
  have a := stepPlain_tr hs hu op.plain hna
  rcases step_db_cases s op with h | h | ⟨p, hp, h⟩ | h
  · rw [h]; exact a.db
  · rw [h]; exact (a.rest trivial).1
  · rw [h]; exact (a.rest trivial).2 p hp
  · rw [h, ← hs.1]; exact Chan.Tr.of_grow (Chan.Grow.refl _)

/-! ### the accepted `add` -/

theorem addMessage_spec {s : Sys} (hd : s.disk = s.db) (app mb side : String) (ph bd : Val) (t : Time)
    (id : Val) :
    (s.addMessage app mb side ph bd t id).db =
        (s.db.insMessage ⟨app, mb, side, ph.toText, bd.toText, t, id.toText⟩).touch mb t ∧
    (s.addMessage app mb side ph bd t id).disk = (s.addMessage app mb side ph bd t id).db ∧
    (s.addMessage app mb side ph bd t id).snaps =
      s.snaps ++ [((s.db.insMessage ⟨app, mb, side, ph.toText, bd.toText, t, id.toText⟩).touch mb t, s.udisk)] ∧
    (s.addMessage app mb side ph bd t id).out = s.out ++ [.commit .chan] ∧
    (s.addMessage app mb side ph bd t id).conns = s.conns ∧
    (s.addMessage app mb side ph bd t id).udb = s.udb ∧
    (s.addMessage app mb side ph bd t id).udisk = s.udisk ∧
    (s.addMessage app mb side ph bd t id).cfg = s.cfg := by
  have hne : ¬ ((s.modDb (·.insMessage ⟨app, mb, side, ph.toText, bd.toText, t, id.toText⟩)).modDb
      (·.touch mb t)).db = ((s.modDb (·.insMessage ⟨app, mb, side, ph.toText, bd.toText, t, id.toText⟩)).modDb
      (·.touch mb t)).disk := by
    intro h
    have := congrArg (fun d => d.messages.length) h
    simp [hd, Chan.touch, Chan.insMessage] at this
  unfold Sys.addMessage Sys.commit
  rw [if_neg hne]
  simp [Sys.modDb]

/-- the state after an accepted `add` -/
theorem onMessage_add_spec {s : Sys} {x : Conn} {c : Nat} {t : Time} {id : Val} {app mb : String}
    {ph bd : Val} (hs : s.Synced) (hx : s.findConn c = some x) (ha : x.app = some app)
    (hm : x.mailbox = some mb) :
    let s' := s.onMessage c t id (.add (some ph) (some bd))
    let d' := (s.db.insMessage ⟨app, mb, x.side.getD "", ph.toText, bd.toText, t, id.toText⟩).touch mb t
    s'.db = d' ∧ s'.disk = d' ∧ s'.snaps = s.snaps ++ [(d', s.udisk)] ∧ s'.conns = s.conns ∧
    s'.udb = s.udb ∧ s'.udisk = s.udisk ∧ s'.cfg = s.cfg ∧
    s'.out = s.out ++ [.frame c (.ack id) true, .commit .chan] ++
      (s.listeners app mb).map (fun c' => .frame c' (.message (x.side.getD "") ph bd t id) true) := by
  intro s' d'
  have e : s' = _ := onMessage_add (t := t) (id := id) (ph := ph) (bd := bd) hx ha hm
  obtain ⟨a1, a2, a3, a4, a5, a6, a7, a8⟩ := addMessage_spec (s := s.send c (.ack id)) hs.1.symm app mb
    (x.side.getD "") ph bd t id
  obtain ⟨f1, f2, f3, f4, f5, f6, f7, f8, f9⟩ := foldl_send_spec (fun c' => c')
    (fun _ => Frame.message (x.side.getD "") ph bd t id)
    (((s.send c (.ack id)).addMessage app mb (x.side.getD "") ph bd t id).listeners app mb)
    ((s.send c (.ack id)).addMessage app mb (x.side.getD "") ph bd t id)
  have hsy : ((s.send c (.ack id)).addMessage app mb (x.side.getD "") ph bd t id).synced = true := by
    rw [synced_iff]
    exact ⟨a2.symm, by rw [a6, a7]; exact hs.2⟩
  have hsy0 : s.synced = true := (synced_iff s).2 hs
  have hl : ((s.send c (.ack id)).addMessage app mb (x.side.getD "") ph bd t id).listeners app mb =
      s.listeners app mb := listeners_congr a5 app mb
  rw [e]
  unfold Sys.broadcast
  refine ⟨f1.trans a1, f2.trans (a2.trans a1), f5.trans a3, f6.trans a5, f3.trans a6, f4.trans a7,
    f7.trans a8, ?_⟩
  rw [f9, a4, hsy, hl]
  simp [Sys.send, Sys.emit, hsy0]

/-- **an accepted `add` appends exactly its row** (crash-free, or crash after the commit);
    a crash before the first commit leaves the database as it was -/
theorem step_add {s : Sys} (hs : s.Synced) (op : Op) {r : Message} (h : addRowOf s op.plain = some r) :
    ((∃ op', op = .crashIn 0 op') ∧ (s.step op).db = s.db) ∨
    ((¬ ∃ op', op = .crashIn 0 op') ∧ (s.step op).db = (s.db.insMessage r).touch r.mailbox r.rx) := by
  -- the executed operation
  have key : ∀ op1, addRowOf s op1 = some r →
      let s1 := ({ s with out := [], snaps := [] } : Sys).stepPlain op1
      s1.db = (s.db.insMessage r).touch r.mailbox r.rx ∧ s1.disk = s1.db ∧
        s1.snaps = [((s.db.insMessage r).touch r.mailbox r.rx, s.udisk)] := by
    intro op1 h1
    unfold addRowOf at h1
    split at h1
    · rename_i c t id ph bd
      split at h1
      · rename_i x hx
        split at h1
        · rename_i a m ha hm
          cases h1
          have hs0 : ({ s with out := [], snaps := [] } : Sys).Synced := hs
          obtain ⟨b1, b2, b3, _⟩ := onMessage_add_spec (t := t) (id := id) (ph := ph) (bd := bd) hs0
            (show ({ s with out := [], snaps := [] } : Sys).findConn c = some x from hx) ha hm
          exact ⟨b1, b2.trans b1.symm, by simpa [Sys.stepPlain] using b3⟩
        · cases h1
      · cases h1
    · cases h1
  cases op with
  | crashIn k op' =>
    obtain ⟨k1, k2, k3⟩ := key op' h
    cases k with
    | zero => exact .inl ⟨⟨op', rfl⟩, by simp [Sys.step, Sys.crashTo, hs.1]⟩
    | succ k =>
      refine .inr ⟨by simp, ?_⟩
      simp only [Sys.step]
      cases k with
      | zero => simp [k3, Sys.crashTo]
      | succ k => simp [k3, Sys.crashTo, k2, k1]
  | connect c => exact .inr ⟨by simp, (key _ h).1⟩
  | recv c t id cmd => exact .inr ⟨by simp, (key _ h).1⟩
  | drop c => exact .inr ⟨by simp, (key _ h).1⟩
  | sweep n f => exact .inr ⟨by simp, (key _ h).1⟩
  | restart t => exact .inr ⟨by simp, (key _ h).1⟩

end Sys
end Wormhole
