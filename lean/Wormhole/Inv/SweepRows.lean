/-
  Row-level reading of `Chan.sweepP` (Inv/SweepDb.lean) under `PInv`:
  what is kept (and is unchanged), what is deleted (only things of swept mailboxes), and that
  nothing of a swept mailbox is left.  These are the lemmas C12 and C13 are read off from.
-/
import Wormhole.Inv.SweepSys

namespace Wormhole
namespace Chan

section rows
variable {d : Chan} {A : String → Bool} {L : LFun} {now old : Time}

/-! ### kept rows -/

/-- the rows hanging off a mailbox id that is not swept are exactly what they were (as lists:
    same rows, same order) -/
theorem sweepP_keep_id {i : String} (hi : ¬ i ∈ d.deadIds A L old) :
    (d.sweepP A L now old).messages.filter (fun r => r.mailbox = i) = d.messages.filter (fun r => r.mailbox = i) ∧
    (d.sweepP A L now old).mbSidesOf i = d.mbSidesOf i ∧
    (d.sweepP A L now old).nameplates.filter (fun n => n.mailbox = i) = d.nameplates.filter (fun n => n.mailbox = i) := by
  simp only [sweepP, mbSidesOf, List.filter_filter]
  refine ⟨?_, ?_, ?_⟩ <;>
  · apply List.filter_congr
    intro x _
    by_cases hx : x.mailbox = i
    · subst hx; simp [hi]
    · simp [hx]

/-- a mailbox row that is not swept stays (re-stamped if listened), with its messages, side rows and
    nameplates (per app as well) -/
theorem sweepP_keep (h : d.PInv) {m : MailboxRow} (hm : m ∈ d.mailboxes) (hd : dead A L old m = false) :
    stamp A L now m ∈ (d.sweepP A L now old).mailboxes ∧
    (d.sweepP A L now old).messages.filter (fun r => r.mailbox = m.id) = d.messages.filter (fun r => r.mailbox = m.id) ∧
    (d.sweepP A L now old).messagesOf m.app m.id = d.messagesOf m.app m.id ∧
    (d.sweepP A L now old).mbSidesOf m.id = d.mbSidesOf m.id ∧
    (d.sweepP A L now old).nameplates.filter (fun n => n.mailbox = m.id) = d.nameplates.filter (fun n => n.mailbox = m.id) ∧
    (d.sweepP A L now old).nameplatesOfMailbox m.app m.id = d.nameplatesOfMailbox m.app m.id ∧
    (∀ n ∈ d.nameplates, n.mailbox = m.id → (d.sweepP A L now old).npSidesOf n.id = d.npSidesOf n.id) := by
  have hi : ¬ m.id ∈ d.deadIds A L old := by
    rw [mem_deadIds_of_mem h.mbIds hm, hd]; simp
  obtain ⟨k1, k2, k3⟩ := sweepP_keep_id (now := now) hi
  refine ⟨mem_sweepP_mailboxes.2 ⟨m, hm, hi, rfl⟩, k1, ?_, k2, k3, ?_, ?_⟩
  · have := congrArg (List.filter (fun r : Message => r.app = m.app)) k1
    simpa only [messagesOf, List.filter_filter, Bool.decide_and] using this
  · have := congrArg (List.filter (fun r : Nameplate => r.app = m.app)) k3
    simpa only [nameplatesOfMailbox, List.filter_filter, Bool.decide_and] using this
  · intro n hn e
    simp only [sweepP, npSidesOf, List.filter_filter]
    apply List.filter_congr
    intro r _
    by_cases hr : r.npid = n.id
    · have : ¬ r.npid ∈ d.deadNps A L old := by
        rw [hr, mem_deadNps]
        rintro ⟨n', hn', hd', e'⟩
        have : n' = n := eq_of_pairwise_ne (f := Nameplate.id) h.npIds hn' hn e'
        subst this
        rw [e] at hd'
        exact hi hd'
      simp [hr, hr ▸ this]
    · simp [hr]

/-- rows of apps outside `A` are untouched, in all five tables -/
theorem sweepP_other_app (h : d.PInv) {a : String} (ha : A a = false) :
    (d.sweepP A L now old).mailboxesOfApp a = d.mailboxesOfApp a ∧
    (d.sweepP A L now old).nameplatesOfApp a = d.nameplatesOfApp a ∧
    (d.sweepP A L now old).messages.filter (fun r => r.app = a) = d.messages.filter (fun r => r.app = a) ∧
    (∀ m ∈ d.mailboxes, m.app = a → (d.sweepP A L now old).mbSidesOf m.id = d.mbSidesOf m.id) ∧
    (∀ n ∈ d.nameplates, n.app = a → (d.sweepP A L now old).npSidesOf n.id = d.npSidesOf n.id) := by
  have hnd : ∀ m ∈ d.mailboxes, m.app = a → dead A L old m = false := by
    intro m _ e; simp [dead, e, ha]
  have hni : ∀ m ∈ d.mailboxes, m.app = a → ¬ m.id ∈ d.deadIds A L old := by
    intro m hm e
    rw [mem_deadIds_of_mem h.mbIds hm, hnd m hm e]; simp
  refine ⟨?_, ?_, ?_, ?_, ?_⟩
  · simp only [sweepP, mailboxesOfApp, List.filter_map, List.filter_filter]
    conv => rhs; rw [← List.map_id (List.filter _ _)]
    apply filter_map_congr
    · intro m hm
      by_cases e : m.app = a
      · simp [e, hni m hm e]
      · simp [e]
    · intro m _ hq
      simp only [decide_eq_true_eq] at hq
      simp [stamp, hq, ha]
  · simp only [sweepP, nameplatesOfApp, List.filter_filter]
    apply List.filter_congr
    intro n hn
    by_cases e : n.app = a
    · obtain ⟨m, hm, e1, e2⟩ := h.npMb n hn
      have := hni m hm (e2.trans e)
      rw [e1] at this
      simp [e, this]
    · simp [e]
  · simp only [sweepP, List.filter_filter]
    apply List.filter_congr
    intro r hr
    by_cases e : r.app = a
    · obtain ⟨m, hm, e1, e2⟩ := h.msgFk r hr
      have := hni m hm (e2.trans e)
      rw [e1] at this
      simp [e, this]
    · simp [e]
  · intro m hm e
    exact (sweepP_keep h hm (hnd m hm e)).2.2.2.1
  · intro n hn e
    obtain ⟨m, hm, e1, e2⟩ := h.npMb n hn
    exact (sweepP_keep h hm (hnd m hm (e2.trans e))).2.2.2.2.2.2 n hn e1.symm

/-! ### deleted rows -/

/-- every table after the sweep is a sub-list of the table before (mailboxes: up to the stamp) -/
theorem sweepP_sublist :
    (d.sweepP A L now old).nameplates.Sublist d.nameplates ∧
    (d.sweepP A L now old).npSides.Sublist d.npSides ∧
    (d.sweepP A L now old).mbSides.Sublist d.mbSides ∧
    (d.sweepP A L now old).messages.Sublist d.messages ∧
    (∀ m' ∈ (d.sweepP A L now old).mailboxes, ∃ m ∈ d.mailboxes, m' = stamp A L now m) ∧
    (d.sweepP A L now old).nextNp = d.nextNp := by
  refine ⟨List.filter_sublist, List.filter_sublist, List.filter_sublist, List.filter_sublist, ?_, rfl⟩
  intro m' hm'
  obtain ⟨m, hm, _, e⟩ := mem_sweepP_mailboxes.1 hm'
  exact ⟨m, hm, e.symm⟩

/-- a mailbox id that has disappeared belonged to a swept row -/
theorem sweepP_gone_mailbox (h : d.PInv) {m : MailboxRow} (hm : m ∈ d.mailboxes)
    (hgone : ∀ m' ∈ (d.sweepP A L now old).mailboxes, m'.id ≠ m.id) : dead A L old m = true := by
  cases hd : dead A L old m with
  | true => rfl
  | false => exact absurd (by simp) (hgone _ (sweepP_keep (now := now) h hm hd).1)

theorem sweepP_gone_message (h : d.PInv) {r : Message} (hr : r ∈ d.messages)
    (hgone : r ∉ (d.sweepP A L now old).messages) :
    ∃ m ∈ d.mailboxes, m.id = r.mailbox ∧ m.app = r.app ∧ dead A L old m = true := by
  obtain ⟨m, hm, e1, e2⟩ := h.msgFk r hr
  refine ⟨m, hm, e1, e2, ?_⟩
  rw [← mem_deadIds_of_mem h.mbIds hm, e1]
  exact Classical.byContradiction fun hc => hgone (mem_sweepP_messages.2 ⟨hr, hc⟩)

theorem sweepP_gone_mbSide (h : d.PInv) {r : MbSide} (hr : r ∈ d.mbSides)
    (hgone : r ∉ (d.sweepP A L now old).mbSides) :
    ∃ m ∈ d.mailboxes, m.id = r.mailbox ∧ dead A L old m = true := by
  obtain ⟨m, hm, e1⟩ := h.msFk r hr
  refine ⟨m, hm, e1, ?_⟩
  rw [← mem_deadIds_of_mem h.mbIds hm, e1]
  exact Classical.byContradiction fun hc => hgone (mem_sweepP_mbSides.2 ⟨hr, hc⟩)

theorem sweepP_gone_nameplate (h : d.PInv) {n : Nameplate} (hn : n ∈ d.nameplates)
    (hgone : n ∉ (d.sweepP A L now old).nameplates) :
    ∃ m ∈ d.mailboxes, m.id = n.mailbox ∧ m.app = n.app ∧ dead A L old m = true := by
  obtain ⟨m, hm, e1, e2⟩ := h.npMb n hn
  refine ⟨m, hm, e1, e2, ?_⟩
  rw [← mem_deadIds_of_mem h.mbIds hm, e1]
  exact Classical.byContradiction fun hc => hgone (mem_sweepP_nameplates.2 ⟨hn, hc⟩)

theorem sweepP_gone_npSide (h : d.PInv) {r : NpSide} (hr : r ∈ d.npSides)
    (hgone : r ∉ (d.sweepP A L now old).npSides) :
    ∃ n ∈ d.nameplates, n.id = r.npid ∧
      ∃ m ∈ d.mailboxes, m.id = n.mailbox ∧ m.app = n.app ∧ dead A L old m = true := by
  have hj : r.npid ∈ d.deadNps A L old :=
    Classical.byContradiction fun hc => hgone (mem_sweepP_npSides.2 ⟨hr, hc⟩)
  obtain ⟨n, hn, hd, e⟩ := mem_deadNps.1 hj
  obtain ⟨m, hm, e1, e2⟩ := h.npMb n hn
  refine ⟨n, hn, e, m, hm, e1, e2, ?_⟩
  rw [← mem_deadIds_of_mem h.mbIds hm, e1]
  exact hd

/-! ### completeness -/

/-- nothing of a swept mailbox is left (no invariant needed) -/
theorem sweepP_complete {m : MailboxRow} (hm : m ∈ d.mailboxes) (hd : dead A L old m = true) :
    (∀ m' ∈ (d.sweepP A L now old).mailboxes, m'.id ≠ m.id) ∧
    (∀ r ∈ (d.sweepP A L now old).messages, r.mailbox ≠ m.id) ∧
    (∀ r ∈ (d.sweepP A L now old).mbSides, r.mailbox ≠ m.id) ∧
    (∀ n ∈ (d.sweepP A L now old).nameplates, n.mailbox ≠ m.id) ∧
    (∀ n ∈ d.nameplates, n.mailbox = m.id → ∀ r ∈ (d.sweepP A L now old).npSides, r.npid ≠ n.id) := by
  have hi : m.id ∈ d.deadIds A L old := mem_deadIds.2 ⟨m, hm, hd, rfl⟩
  refine ⟨?_, ?_, ?_, ?_, ?_⟩
  · intro m' hm' e
    obtain ⟨m0, _, h0, rfl⟩ := mem_sweepP_mailboxes.1 hm'
    simp only [stamp_id] at e
    exact h0 (e ▸ hi)
  · intro r hr e; exact (mem_sweepP_messages.1 hr).2 (e ▸ hi)
  · intro r hr e; exact (mem_sweepP_mbSides.1 hr).2 (e ▸ hi)
  · intro n hn e; exact (mem_sweepP_nameplates.1 hn).2 (e ▸ hi)
  · intro n hn e r hr e'
    exact (mem_sweepP_npSides.1 hr).2 (mem_deadNps.2 ⟨n, hn, e ▸ hi, e'.symm⟩)

/-- if every mailbox row is swept, all five tables are empty afterwards -/
theorem sweepP_empty (h : d.PInv) (hall : ∀ m ∈ d.mailboxes, dead A L old m = true) :
    (d.sweepP A L now old).nameplates = [] ∧ (d.sweepP A L now old).npSides = [] ∧
    (d.sweepP A L now old).mailboxes = [] ∧ (d.sweepP A L now old).mbSides = [] ∧
    (d.sweepP A L now old).messages = [] := by
  have hi : ∀ m ∈ d.mailboxes, m.id ∈ d.deadIds A L old := fun m hm => mem_deadIds.2 ⟨m, hm, hall m hm, rfl⟩
  have hnp : (d.sweepP A L now old).nameplates = [] := by
    rw [List.eq_nil_iff_forall_not_mem]
    intro n hn
    obtain ⟨hn, hd⟩ := mem_sweepP_nameplates.1 hn
    obtain ⟨m, hm, e, _⟩ := h.npMb n hn
    exact hd (e ▸ hi m hm)
  refine ⟨hnp, ?_, ?_, ?_, ?_⟩
  · rw [List.eq_nil_iff_forall_not_mem]
    intro r hr
    obtain ⟨n, hn, _⟩ := (h.sweepP A L now old).nsFk r hr
    rw [hnp] at hn
    cases hn
  · rw [List.eq_nil_iff_forall_not_mem]
    intro m' hm'
    obtain ⟨m, hm, hd, _⟩ := mem_sweepP_mailboxes.1 hm'
    exact hd (hi m hm)
  · rw [List.eq_nil_iff_forall_not_mem]
    intro r hr
    obtain ⟨hr, hd⟩ := mem_sweepP_mbSides.1 hr
    obtain ⟨m, hm, e⟩ := h.msFk r hr
    exact hd (e ▸ hi m hm)
  · rw [List.eq_nil_iff_forall_not_mem]
    intro r hr
    obtain ⟨hr, hd⟩ := mem_sweepP_messages.1 hr
    obtain ⟨m, hm, e, _⟩ := h.msgFk r hr
    exact hd (e ▸ hi m hm)

end rows

/-- deadness when every app is swept -/
theorem dead_all {L : LFun} {old : Time} {m : MailboxRow} :
    dead (fun _ => true) L old m = true ↔ L m.app m.id = false ∧ m.updated ≤ old := by
  simp [dead_iff]

theorem stamp_all {L : LFun} {now : Time} {m : MailboxRow} :
    stamp (fun _ => true) L now m = if L m.app m.id = true then { m with updated := now } else m := by
  simp [stamp]

end Chan
end Wormhole

namespace Wormhole
namespace Sys

/-- exact specification of one `AppNamespace.prune(now, old)` (with `old < now`, as in `expire()`)
    from a state whose database satisfies the commit-point invariant: no exception escapes, the
    database is the sweep of that single app (read row by row with `Chan.sweepP_keep`,
    `Chan.sweepP_other_app`, `Chan.sweepP_gone_*`, `Chan.sweepP_complete`), connections and
    configuration are untouched, and nothing is left uncommitted -/
theorem prune_sweepP {s s1 : Sys} {app : String} {now old : Time} {b : Bool} (h : s.db.CInv)
    (hlt : old < now) (hp : s.prune app now old = (s1, b)) :
    b = true ∧ s1.db = s.db.sweepP (fun a => a == app) s.listened now old ∧ Fixed s s1 ∧
      s1.db.CInv ∧ (s.Synced → s1.Synced) := by
  obtain ⟨_, hk⟩ := prune_spec hp
  obtain ⟨_, hb, hs⟩ := hk h.npOk
  subst hb
  obtain ⟨hd, hf⟩ := prune_db hp
  rw [Chan.pruneApp_eq_sweepP h.toPInv _ _ hlt] at hd
  exact ⟨rfl, hd, hf, by rw [hd]; exact h.sweepP _ _ _ _, hs⟩

end Sys
end Wormhole
