/-
  Two-run simulation for K-close-touch (C14, audit B P4), part 1: the relation.

  Run B (without the re-sent close) and run A (with it) differ in ONE cell: the column `updated` of the
  mailbox row `m` (app `ap`) is `u` in B and `t` in A.  `updated` is written by open / add / claim / the
  touch loop of the sweep and READ only by the sweep's `old_mailboxes` query.  The relation:

    `RowRel u t m ap rb ra`   the rows are equal, or `rb` is the row of `(ap, m)` stamped `u` and `ra` is the
                              same row stamped `t`;
    `Chan.TchRel`             four tables and the counter equal, `mailboxes` related row by row;
    `Sys.TchRel`              `db` and `disk` related, connection records and configuration equal, the events
                              of the step equal once commits are dropped and the `synced` flags of frames
                              are normalised (`vis`) — the usage database is not compared (the duplicate's
                              `bind` adds a `client_versions` row), nor `rebooted`, nor `snaps`.
  An operation that re-stamps the row in both runs makes the rows equal again (`RowRel` then holds by its
  first disjunct); the relation never needs to know whether that has happened.
-/
import Wormhole.Inv.IsoDefs
import Wormhole.Inv.SimDefs

namespace Wormhole

/-- what is compared in a trace: frames (addressee and content; the `synced` flag is normalised — it is
    `true` in both runs by C09), `internal` and `fired` events; commits are dropped -/
def visE : Event → Option Event
  | .frame c f _ => some (.frame c f true)
  | .commit _ => none
  | e => some e

def vis (l : List Event) : List Event := l.filterMap visE

@[simp] theorem vis_nil : vis [] = [] := rfl
theorem vis_append (l l' : List Event) : vis (l ++ l') = vis l ++ vis l' := by simp [vis, List.filterMap_append]
@[simp] theorem vis_commit (l : List Event) (w : DbId) : vis (l ++ [.commit w]) = vis l := by
  simp [vis, List.filterMap_append, visE]

section
variable {u t : Time} {m ap : String}

def RowRel (u t : Time) (m ap : String) (rb ra : MailboxRow) : Prop :=
  ra = rb ∨ (rb.id = m ∧ rb.app = ap ∧ rb.updated = u ∧ ra = { rb with updated := t })

theorem RowRel.refl (r : MailboxRow) : RowRel u t m ap r r := Or.inl rfl
theorem RowRel.id {rb ra : MailboxRow} (h : RowRel u t m ap rb ra) : ra.id = rb.id := by
  rcases h with rfl | ⟨_, _, _, rfl⟩ <;> rfl
theorem RowRel.app {rb ra : MailboxRow} (h : RowRel u t m ap rb ra) : ra.app = rb.app := by
  rcases h with rfl | ⟨_, _, _, rfl⟩ <;> rfl
theorem RowRel.forNp {rb ra : MailboxRow} (h : RowRel u t m ap rb ra) : ra.forNp = rb.forNp := by
  rcases h with rfl | ⟨_, _, _, rfl⟩ <;> rfl
/-- the same UPDATE of `updated` on both rows makes them equal -/
theorem RowRel.set {rb ra : MailboxRow} (h : RowRel u t m ap rb ra) (v : Time) :
    ({ ra with updated := v } : MailboxRow) = { rb with updated := v } := by
  rcases h with rfl | ⟨_, _, _, rfl⟩ <;> rfl

namespace Chan

structure TchRel (u t : Time) (m ap : String) (db da : Chan) : Prop where
  nps : da.nameplates = db.nameplates
  sides : da.npSides = db.npSides
  mbs : All2 (RowRel u t m ap) db.mailboxes da.mailboxes
  mbSides : da.mbSides = db.mbSides
  msgs : da.messages = db.messages
  next : da.nextNp = db.nextNp

theorem TchRel.refl (d : Chan) : TchRel u t m ap d d :=
  ⟨rfl, rfl, All2.refl_of _ (fun r _ => RowRel.refl r), rfl, rfl, rfl⟩

/-- no row of `(ap, m)` stamped `u` on the B side: the databases are equal -/
theorem TchRel.eq_of_no_row {db da : Chan} (h : TchRel u t m ap db da)
    (hno : ¬ ∃ r ∈ db.mailboxes, r.id = m ∧ r.app = ap ∧ r.updated = u) : da = db := by
  have hm : da.mailboxes = db.mailboxes := by
    have : db.mailboxes.map (fun r => r) = da.mailboxes.map (fun r => r) :=
      h.mbs.map_eq _ _ (fun rb hb ra _ hr => by
        rcases hr with rfl | ⟨e1, e2, e3, _⟩
        · rfl
        · exact absurd ⟨rb, hb, e1, e2, e3⟩ hno)
    simpa using this.symm
  cases da; cases db
  obtain ⟨h1, h2, _, h4, h5, h6⟩ := h
  simp only at h1 h2 hm h4 h5 h6
  simp [h1, h2, hm, h4, h5, h6]

variable {db da : Chan} (h : TchRel u t m ap db da)
include h

/-! ### SELECTs that do not look at `mailboxes` -/

theorem TchRel.findNameplate (app name : String) : da.findNameplate app name = db.findNameplate app name := by
  simp only [Chan.findNameplate, h.nps]
theorem TchRel.nameplatesOfMailbox (app mb : String) : da.nameplatesOfMailbox app mb = db.nameplatesOfMailbox app mb := by
  simp only [Chan.nameplatesOfMailbox, h.nps]
theorem TchRel.nameplatesOfApp (app : String) : da.nameplatesOfApp app = db.nameplatesOfApp app := by
  simp only [Chan.nameplatesOfApp, h.nps]
theorem TchRel.findNpSide (npid : Nat) (side : String) : da.findNpSide npid side = db.findNpSide npid side := by
  simp only [Chan.findNpSide, h.sides]
theorem TchRel.npSidesOf (npid : Nat) : da.npSidesOf npid = db.npSidesOf npid := by
  simp only [Chan.npSidesOf, h.sides]
theorem TchRel.findMbSide (mb side : String) : da.findMbSide mb side = db.findMbSide mb side := by
  simp only [Chan.findMbSide, h.mbSides]
theorem TchRel.mbSidesOf (mb : String) : da.mbSidesOf mb = db.mbSidesOf mb := by
  simp only [Chan.mbSidesOf, h.mbSides]
theorem TchRel.messagesOf (app mb : String) : da.messagesOf app mb = db.messagesOf app mb := by
  simp only [Chan.messagesOf, h.msgs]
theorem TchRel.namesOfApp (app : String) : da.namesOfApp app = db.namesOfApp app := by
  simp only [Chan.namesOfApp, h.nps]

/-! ### SELECTs on `mailboxes` -/

theorem TchRel.findMailbox (app mb : String) :
    (db.findMailbox app mb = none ∧ da.findMailbox app mb = none) ∨
      ∃ rb ra, db.findMailbox app mb = some rb ∧ da.findMailbox app mb = some ra ∧ RowRel u t m ap rb ra := by
  unfold Chan.findMailbox
  apply h.mbs.find?
  intro rb _ ra _ hr
  rw [hr.id, hr.app]

theorem TchRel.findMailboxById (mb : String) :
    (db.findMailboxById mb = none ∧ da.findMailboxById mb = none) ∨
      ∃ rb ra, db.findMailboxById mb = some rb ∧ da.findMailboxById mb = some ra ∧ RowRel u t m ap rb ra := by
  unfold Chan.findMailboxById
  apply h.mbs.find?
  intro rb _ ra _ hr
  rw [hr.id]

theorem TchRel.mailboxesOfApp (app : String) :
    All2 (RowRel u t m ap) (db.mailboxesOfApp app) (da.mailboxesOfApp app) := by
  unfold Chan.mailboxesOfApp
  apply h.mbs.filter
  intro rb _ ra _ hr
  rw [hr.app]

theorem TchRel.mbApps : da.mailboxes.map (·.app) = db.mailboxes.map (·.app) :=
  (h.mbs.map_eq _ _ (fun _ _ _ _ hr => hr.app.symm)).symm

/-! ### the statements -/

theorem TchRel.insMbSide (r : MbSide) : TchRel u t m ap (db.insMbSide r) (da.insMbSide r) :=
  ⟨h.nps, h.sides, h.mbs, by simp [Chan.insMbSide, h.mbSides], h.msgs, h.next⟩
theorem TchRel.insNpSide (r : NpSide) : TchRel u t m ap (db.insNpSide r) (da.insNpSide r) :=
  ⟨h.nps, by simp [Chan.insNpSide, h.sides], h.mbs, h.mbSides, h.msgs, h.next⟩
theorem TchRel.insMessage (r : Message) : TchRel u t m ap (db.insMessage r) (da.insMessage r) :=
  ⟨h.nps, h.sides, h.mbs, h.mbSides, by simp [Chan.insMessage, h.msgs], h.next⟩
theorem TchRel.insNameplate (app name mb : String) :
    TchRel u t m ap (db.insNameplate app name mb) (da.insNameplate app name mb) :=
  ⟨by simp [Chan.insNameplate, h.nps, h.next], h.sides, h.mbs, h.mbSides, h.msgs, by simp [Chan.insNameplate, h.next]⟩
theorem TchRel.insMailbox (r : MailboxRow) : TchRel u t m ap (db.insMailbox r) (da.insMailbox r) :=
  ⟨h.nps, h.sides, h.mbs.append (.cons (RowRel.refl r) .nil), h.mbSides, h.msgs, h.next⟩
theorem TchRel.touch (mb : String) (t' : Time) : TchRel u t m ap (db.touch mb t') (da.touch mb t') := by
  refine ⟨h.nps, h.sides, ?_, h.mbSides, h.msgs, h.next⟩
  apply h.mbs.map
  intro rb _ ra _ hr
  by_cases e : rb.id = mb
  · rw [if_pos e, if_pos (hr.id.trans e)]
    exact Or.inl (hr.set t')
  · rw [if_neg e, if_neg (by rw [hr.id]; exact e)]
    exact hr
theorem TchRel.unclaim (npid : Nat) (side : String) : TchRel u t m ap (db.unclaim npid side) (da.unclaim npid side) :=
  ⟨h.nps, by simp [Chan.unclaim, h.sides], h.mbs, h.mbSides, h.msgs, h.next⟩
theorem TchRel.closeSide (mb side : String) (mood : Option String) :
    TchRel u t m ap (db.closeSide mb side mood) (da.closeSide mb side mood) :=
  ⟨h.nps, h.sides, h.mbs, by simp [Chan.closeSide, h.mbSides], h.msgs, h.next⟩
theorem TchRel.delNp (npid : Nat) :
    TchRel u t m ap ((db.delNpSidesOf npid).delNameplate npid) ((da.delNpSidesOf npid).delNameplate npid) :=
  ⟨by simp [Chan.delNpSidesOf, Chan.delNameplate, h.nps], by simp [Chan.delNpSidesOf, Chan.delNameplate, h.sides],
    h.mbs, h.mbSides, h.msgs, h.next⟩
theorem TchRel.delMailbox (mb : String) : TchRel u t m ap (db.delMailbox mb) (da.delMailbox mb) := by
  refine ⟨h.nps, h.sides, ?_, h.mbSides, h.msgs, h.next⟩
  apply h.mbs.filter
  intro rb _ ra _ hr
  rw [hr.id]
theorem TchRel.delMb (mb : String) :
    TchRel u t m ap (((db.delMessagesOf mb).delMbSidesOf mb).delMailbox mb)
      (((da.delMessagesOf mb).delMbSidesOf mb).delMailbox mb) := by
  have h1 : TchRel u t m ap ((db.delMessagesOf mb).delMbSidesOf mb) ((da.delMessagesOf mb).delMbSidesOf mb) :=
    ⟨h.nps, h.sides, h.mbs, by simp [Chan.delMessagesOf, Chan.delMbSidesOf, h.mbSides],
      by simp [Chan.delMessagesOf, Chan.delMbSidesOf, h.msgs], h.next⟩
  exact h1.delMailbox mb
/-- the five DELETEs of `Mailbox.close` -/
theorem TchRel.closeDeletes (app mb : String) :
    TchRel u t m ap
      (((((db.delNpSidesOfMailbox app mb).delNameplatesOfMailbox app mb).delMessagesOf mb).delMbSidesOf mb).delMailbox mb)
      (((((da.delNpSidesOfMailbox app mb).delNameplatesOfMailbox app mb).delMessagesOf mb).delMbSidesOf mb).delMailbox mb) := by
  have h1 : TchRel u t m ap
      ((((db.delNpSidesOfMailbox app mb).delNameplatesOfMailbox app mb).delMessagesOf mb).delMbSidesOf mb)
      ((((da.delNpSidesOfMailbox app mb).delNameplatesOfMailbox app mb).delMessagesOf mb).delMbSidesOf mb) :=
    ⟨by simp [Chan.delNpSidesOfMailbox, Chan.delNameplatesOfMailbox, Chan.delMessagesOf, Chan.delMbSidesOf, h.nps],
     by simp [Chan.delNpSidesOfMailbox, Chan.delNameplatesOfMailbox, Chan.delMessagesOf, Chan.delMbSidesOf,
        Chan.nameplatesOfMailbox, h.nps, h.sides],
     h.mbs,
     by simp [Chan.delNpSidesOfMailbox, Chan.delNameplatesOfMailbox, Chan.delMessagesOf, Chan.delMbSidesOf, h.mbSides],
     by simp [Chan.delNpSidesOfMailbox, Chan.delNameplatesOfMailbox, Chan.delMessagesOf, Chan.delMbSidesOf, h.msgs],
     h.next⟩
  exact h1.delMailbox mb

end Chan
end

namespace Sys

/-- the relation between the run without the duplicate (`b`, stamp `u`) and the run with it (`a`, stamp `t`) -/
structure TchRel (u t : Time) (m ap : String) (b a : Sys) : Prop where
  db : Chan.TchRel u t m ap b.db a.db
  disk : Chan.TchRel u t m ap b.disk a.disk
  conns : a.conns = b.conns
  cfg : a.cfg = b.cfg
  out : vis a.out = vis b.out

variable {u t : Time} {m ap : String} {b a : Sys}

theorem TchRel.modDb (h : TchRel u t m ap b a) {f g : Chan → Chan}
    (hfg : Chan.TchRel u t m ap (f b.db) (g a.db)) : TchRel u t m ap (b.modDb f) (a.modDb g) :=
  ⟨hfg, h.disk, h.conns, h.cfg, h.out⟩

theorem TchRel.modUdb (h : TchRel u t m ap b a) (f g : Usage → Usage) : TchRel u t m ap (b.modUdb f) (a.modUdb g) :=
  ⟨h.db, h.disk, h.conns, h.cfg, h.out⟩

theorem TchRel.emit (h : TchRel u t m ap b a) (e : Event) : TchRel u t m ap (b.emit e) (a.emit e) :=
  ⟨h.db, h.disk, h.conns, h.cfg, by simp only [emit_out, vis_append, h.out]⟩

theorem TchRel.send (h : TchRel u t m ap b a) (c : Nat) (f : Frame) : TchRel u t m ap (b.send c f) (a.send c f) :=
  ⟨h.db, h.disk, h.conns, h.cfg, by
    show vis (a.out ++ [_]) = vis (b.out ++ [_])
    simp only [vis_append, h.out]
    rfl⟩

theorem TchRel.sendError (h : TchRel u t m ap b a) (c : Nat) (txt : String) :
    TchRel u t m ap (b.sendError c txt) (a.sendError c txt) := h.send c _

theorem TchRel.internalErr (h : TchRel u t m ap b a) (c : Nat) (cls : String) :
    TchRel u t m ap (b.internalErr c cls) (a.internalErr c cls) := h.emit _

theorem TchRel.setConns (h : TchRel u t m ap b a) (l : List Conn) :
    TchRel u t m ap { b with conns := l } { a with conns := l } :=
  ⟨h.db, h.disk, rfl, h.cfg, h.out⟩

theorem TchRel.updConn (h : TchRel u t m ap b a) (c : Nat) (f : Conn → Conn) :
    TchRel u t m ap (b.updConn c f) (a.updConn c f) := by
  unfold Sys.updConn
  rw [h.conns]
  exact h.setConns _

theorem TchRel.stopListeners (h : TchRel u t m ap b a) (app mb : String) :
    TchRel u t m ap (b.stopListeners app mb) (a.stopListeners app mb) := by
  unfold Sys.stopListeners
  rw [h.conns]
  exact h.setConns _

theorem TchRel.commit (h : TchRel u t m ap b a) : TchRel u t m ap b.commit a.commit := by
  refine ⟨by simpa using h.db, by simpa using h.db, by simpa using h.conns, by simpa using h.cfg, ?_⟩
  unfold Sys.commit
  split <;> split <;> simp [h.out]

theorem TchRel.ucommit (h : TchRel u t m ap b a) : TchRel u t m ap b.ucommit a.ucommit := by
  refine ⟨by simpa using h.db, by simpa using h.disk, by simpa using h.conns, by simpa using h.cfg, ?_⟩
  unfold Sys.ucommit
  split <;> split <;> simp [h.out]

theorem TchRel.listeners (h : TchRel u t m ap b a) (app mb : String) : a.listeners app mb = b.listeners app mb := by
  simp only [Sys.listeners, h.conns]

theorem TchRel.findConn (h : TchRel u t m ap b a) (c : Nat) : a.findConn c = b.findConn c := by
  simp only [Sys.findConn, h.conns]

end Sys
end Wormhole
