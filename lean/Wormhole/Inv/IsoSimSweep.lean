/-
  C06, two-run simulation, part 4: the sweep, and one operation.

  In the full run `prune_all_apps` walks over all apps in sorted order; pruning an app other
  than `b` is a stutter step for the relation (frame lemma `prune_frameB`, Inv/IsoFrameCore.lean),
  pruning `b` is matched by the prune of `b` in the other run, whose `get_all_apps` returns `[b]`
  or `[]`.
-/
import Wormhole.Inv.IsoSimWs
import Wormhole.Inv.IsoFrameWs

set_option linter.unusedSimpArgs false

namespace Wormhole

theorem pairwise_ne_eraseDups' {α : Type} [BEq α] [LawfulBEq α] :
    ∀ (l : List α), l.eraseDups.Pairwise (fun a b => a ≠ b)
  | [] => by simp
  | a :: as => by
    rw [List.eraseDups_cons]
    refine List.pairwise_cons.2 ⟨?_, pairwise_ne_eraseDups' _⟩
    intro b hb
    rw [List.mem_eraseDups, List.mem_filter] at hb
    have := hb.2
    intro hab
    subst hab
    simp at this
termination_by l => l.length
decreasing_by
  simp only [List.length_cons]
  exact Nat.lt_succ_of_le (List.length_filter_le _ _)

/-- a list all of whose elements are `b`, with duplicates removed -/
theorem eraseDups_const {b : String} : ∀ (l : List String), (∀ a ∈ l, a = b) → l.eraseDups = if l = [] then [] else [b]
  | [], _ => by simp
  | a :: as, h => by
    have ha : a = b := h a (by simp)
    subst ha
    rw [List.eraseDups_cons]
    have : List.filter (fun x => !x == a) as = [] := by
      rw [List.filter_eq_nil_iff]
      intro x hx
      simp [h x (by simp [hx])]
    rw [this]
    simp

namespace Sys

section stutter
variable {b : String} {ρ : Nat → Nat} {s₁ s₁' s₂ : Sys}

/-- a step of the full run that leaves everything of app `b` alone is a stutter step -/
theorem IsoRel.of_frameB_left (h : IsoRel b ρ s₁ s₂) (hf : FrameB b s₁ s₁') (hfr : s₁'.frames = s₁.frames) :
    IsoRel b ρ s₁' s₂ := by
  have hids : s₁'.db.npIdsB b = s₁.db.npIdsB b := by unfold Chan.npIdsB; rw [hf.db.nps]
  refine ⟨⟨?_, ?_, ?_, ?_, ?_, ?_⟩, hf.udb.symm.trans h.udb, ?_, hf.cfg.trans h.cfg, hfr.trans h.frames⟩
  · rw [hf.db.nps]; exact h.db.nps
  · rw [hf.db.npSides]; exact h.db.sides
  · rw [hids]; exact h.db.inj
  · rw [hf.db.mbs]; exact h.db.mbs
  · rw [hf.db.mbSides]; exact h.db.mbSides
  · rw [hf.db.msgs]; exact h.db.msgs
  · have hc : All2 (fun x' x => x'.id = x.id ∧ (x' = x ∨ (x'.other b ∧ x.app ≠ some b))) s₁'.conns s₁.conns :=
      hf.conns.flip
    refine hc.comp h.conns ?_
    intro x' x x₂ r1 r2
    rcases r1.2 with rfl | ⟨ho, hnb⟩
    · exact r2
    · refine ⟨r2.1.trans r1.1.symm, fun hno => (hno ho).elim, fun _ => ?_⟩
      by_cases hox : x.other b
      · exact r2.2.2 hox
      · have e := r2.2.1 hox
        rw [e]
        cases hxa : x.app with
        | none => rfl
        | some a =>
          exfalso
          apply hox
          exact ⟨a, hxa, fun e' => hnb (by rw [hxa, e'])⟩

end stutter

/-! ### the sweep -/

section sweep
variable {b : String} {ρ : Nat → Nat} {U : String → Prop} {t : Time} {S : Prop} {now old : Time}

/-- pruning apps other than `b` in the full run: stutter steps -/
theorem pruneApps_stutter (hnow : now ≤ t) (hold : old < now) (l : List String) (hb : b ∉ l) {s₁ s₁' s₂ : Sys}
    {r : Bool} (h : IsoRel b ρ s₁ s₂) (hG : s₁.Good U t S) (e : s₁.pruneApps now old l = (s₁', r)) :
    IsoRel b ρ s₁' s₂ ∧ s₁'.Good U t S ∧ r = true :=
  ⟨h.of_frameB_left (pruneApps_frameB hnow hold l hb hG e) (pruneApps_spec l e).1.frames,
    (pruneApps_good hnow hold l hG e).1, (pruneApps_good hnow hold l hG e).2.1⟩

/-- `prune_all_apps` of the full run over a duplicate-free list of apps, against the prune of
    `b` alone (if `b` is in the list) in the other run -/
theorem pruneApps_iso (hnow : now ≤ t) (hold : old < now) : ∀ (l : List String), l.Pairwise (fun x y => x ≠ y) →
    ∀ {s₁ s₂ s₁' : Sys} {r : Bool}, IsoRel b ρ s₁ s₂ → s₁.Good U t S → s₁.pruneApps now old l = (s₁', r) →
      IsoRel b ρ s₁' (if b ∈ l then (s₂.prune b now old).1 else s₂) ∧ s₁'.Good U t S ∧ r = true
  | [], _, s₁, s₂, s₁', r, h, hG, e => by
    simp only [pruneApps, Prod.mk.injEq] at e
    obtain ⟨rfl, rfl⟩ := e
    exact ⟨by simpa using h, hG, rfl⟩
  | a :: rest, hd, s₁, s₂, s₁', r, h, hG, e => by
    unfold pruneApps at e
    cases e1 : s₁.prune a now old with
    | mk m₁ r1 =>
      obtain ⟨hG1, rfl, _, _⟩ := prune_good hG hnow hold e1
      rw [e1] at e
      dsimp only at e
      by_cases hab : a = b
      · subst hab
        have hnot : a ∉ rest := fun hm => (List.rel_of_pairwise_cons hd hm) rfl
        cases e2 : s₂.prune a now old with
        | mk m₂ r2 =>
          obtain ⟨h1, _⟩ := prune_iso h hG.db.cinv.toPInv e1 e2
          obtain ⟨h2, hG2, hr⟩ := pruneApps_stutter hnow hold rest hnot h1 hG1 e
          simp only [List.mem_cons, true_or, if_true]
          exact ⟨h2, hG2, hr⟩
      · have h1 : IsoRel b ρ m₁ s₂ := h.of_frameB_left (prune_frameB hG hab e1) (prune_spec e1).1.frames
        obtain ⟨h2, hG2, hr⟩ := pruneApps_iso hnow hold rest (List.pairwise_cons.1 hd).2 h1 hG1 e
        have hiff : (b ∈ a :: rest) ↔ (b ∈ rest) := by
          simp only [List.mem_cons]
          constructor
          · rintro (e' | e')
            · exact absurd e'.symm hab
            · exact e'
          · exact Or.inr
        simp only [hiff]
        exact ⟨h2, hG2, hr⟩

/-- the apps of the projected run: `b`, if it has a row -/
theorem allApps_proj {s₁ s₂ : Sys} (h : IsoRel b ρ s₁ s₂) :
    s₂.allApps = if b ∈ s₁.allApps then [b] else [] := by
  have hall : ∀ a ∈ s₂.db.nameplates.map (·.app) ++ s₂.db.mailboxes.map (·.app) ++ s₂.db.messages.map (·.app), a = b := by
    intro a ha
    rw [h.db.nps, h.db.mbs, h.db.msgs] at ha
    simp only [List.mem_append, List.mem_map, Chan.npsB, Chan.mbsB, Chan.msgsB, List.mem_filter, decide_eq_true_eq,
      Chan.rnNp] at ha
    rcases ha with (⟨_, ⟨n, ⟨_, hn⟩, rfl⟩, rfl⟩ | ⟨n, ⟨_, hn⟩, rfl⟩) | ⟨n, ⟨_, hn⟩, rfl⟩
    · exact hn
    · exact hn
    · exact hn
  have h12 : ∀ a, a ∈ s₂.db.nameplates.map (·.app) ++ s₂.db.mailboxes.map (·.app) ++ s₂.db.messages.map (·.app) →
      a ∈ s₁.db.nameplates.map (·.app) ++ s₁.db.mailboxes.map (·.app) ++ s₁.db.messages.map (·.app) := by
    intro a ha
    rw [h.db.nps, h.db.mbs, h.db.msgs] at ha
    simp only [List.mem_append, List.mem_map, Chan.npsB, Chan.mbsB, Chan.msgsB, List.mem_filter, decide_eq_true_eq,
      Chan.rnNp] at ha ⊢
    rcases ha with (⟨_, ⟨n, ⟨hn, _⟩, rfl⟩, rfl⟩ | ⟨n, ⟨hn, _⟩, rfl⟩) | ⟨n, ⟨hn, _⟩, rfl⟩
    · exact Or.inl (Or.inl ⟨n, hn, rfl⟩)
    · exact Or.inl (Or.inr ⟨n, hn, rfl⟩)
    · exact Or.inr ⟨n, hn, rfl⟩
  have h21 : b ∈ s₁.db.nameplates.map (·.app) ++ s₁.db.mailboxes.map (·.app) ++ s₁.db.messages.map (·.app) →
      b ∈ s₂.db.nameplates.map (·.app) ++ s₂.db.mailboxes.map (·.app) ++ s₂.db.messages.map (·.app) := by
    intro ha
    rw [h.db.nps, h.db.mbs, h.db.msgs]
    simp only [List.mem_append, List.mem_map, Chan.npsB, Chan.mbsB, Chan.msgsB, List.mem_filter, decide_eq_true_eq,
      Chan.rnNp] at ha ⊢
    rcases ha with (⟨n, hn, e⟩ | ⟨n, hn, e⟩) | ⟨n, hn, e⟩
    · exact Or.inl (Or.inl ⟨_, ⟨n, ⟨hn, e⟩, rfl⟩, e⟩)
    · exact Or.inl (Or.inr ⟨n, ⟨hn, e⟩, e⟩)
    · exact Or.inr ⟨n, ⟨hn, e⟩, e⟩
  have hmem : b ∈ s₁.allApps ↔
      ¬ (s₂.db.nameplates.map (·.app) ++ s₂.db.mailboxes.map (·.app) ++ s₂.db.messages.map (·.app) = []) := by
    unfold Sys.allApps
    rw [List.mem_mergeSort, List.mem_eraseDups]
    constructor
    · intro hb; exact List.ne_nil_of_mem (h21 hb)
    · intro hne
      obtain ⟨a, ha⟩ := List.exists_mem_of_ne_nil _ hne
      have := hall a ha
      subst this
      exact h12 a ha
  unfold Sys.allApps at hmem ⊢
  rw [eraseDups_const _ hall]
  by_cases hc : (s₂.db.nameplates.map (·.app) ++ s₂.db.mailboxes.map (·.app) ++ s₂.db.messages.map (·.app)) = []
  · rw [if_pos hc, if_neg (fun hm => (hmem.1 hm) hc)]
    simp
  · rw [if_neg hc, if_pos (hmem.2 hc)]
    simp

theorem allApps_pairwise (s : Sys) : s.allApps.Pairwise (fun x y => x ≠ y) := by
  unfold Sys.allApps
  rw [List.Perm.pairwise_iff (fun h => Ne.symm h) (List.mergeSort_perm _ _)]
  exact pairwise_ne_eraseDups' _

theorem IsoRel.dumpStats {s₁ s₂ : Sys} (h : IsoRel b ρ s₁ s₂) (now : Time) :
    IsoRel b ρ (s₁.dumpStats now) (s₂.dumpStats now) := by
  unfold Sys.dumpStats
  rw [← h.cfg]
  split
  · apply IsoRel.ucommit
    exact ⟨h.db, ⟨h.udb.nps, h.udb.mbs, h.udb.clients⟩, h.conns, h.cfg, h.frames⟩
  · exact h

/-- one firing of `expire()` -/
theorem IW.expire {s₁ s₂ : Sys} (w : IW b s₁ s₂) (hG : s₁.Good U t S) (hnow : now ≤ t) (fault : Bool) :
    IW b (s₁.expire now fault) (s₂.expire now fault) := by
  obtain ⟨ρ, h⟩ := w.rel
  refine ⟨⟨ρ, ?_⟩, w.oka.expire now fault, w.okb.expire now fault⟩
  unfold Sys.expire
  dsimp only
  apply IsoRel.dumpStats
  have h0 := h.emit (.fired now (now - Generated.expirationTicks))
  have hG0 : (s₁.emit (.fired now (now - Generated.expirationTicks))).Good U t S := hG.emit _
  have hold : now - Generated.expirationTicks < now := Int.sub_lt_self now expirationTicks_pos
  cases fault with
  | true => exact h0.emit _
  | false =>
    simp only [Bool.false_eq_true, ↓reduceIte]
    have hnp₂ : (s₂.emit (.fired now (now - Generated.expirationTicks))).db.NpOk := w.okb.np
    cases ea : (s₁.emit (.fired now (now - Generated.expirationTicks))).pruneApps now
        (now - Generated.expirationTicks) (s₁.emit (.fired now (now - Generated.expirationTicks))).allApps with
    | mk a1 ra =>
      obtain ⟨h1, _, rfl⟩ := pruneApps_iso hnow hold _ (allApps_pairwise _) h0 hG0 ea
      rw [allApps_proj h0]
      by_cases hb : b ∈ (s₁.emit (.fired now (now - Generated.expirationTicks))).allApps
      · rw [if_pos hb] at h1 ⊢
        cases eb : (s₂.emit (.fired now (now - Generated.expirationTicks))).prune b now (now - Generated.expirationTicks) with
        | mk b1 rb =>
          obtain rfl : rb = true := ((prune_spec eb).2 hnp₂).2.1
          rw [eb] at h1
          simp only [pruneApps, eb]
          exact h1
      · rw [if_neg hb] at h1 ⊢
        simp only [pruneApps]
        exact h1

end sweep

/-! ### one operation -/

section step
variable {b : String}

/-- **matched step**: one plain operation that is not a command of another app, from related
    states; `s₁` is the state of the full run at the start of the step (cleared `out`) and
    satisfies the invariant `Full` at the operation's time `t`.  The guard `NoForeign` is the
    negation of K-global-mailbox-id for this command. -/
theorem IW.stepPlain {U : String → Prop} {t : Time} {S : Prop} {s₁ s₂ : Sys} (w : IW b s₁ s₂) (hF : s₁.Full U t S)
    (op : Op) (hcr : op.isCrash = false) (ht : ∀ t', op.time? = some t' → t' = t)
    (hno : s₁.otherOp b op = false)
    (hg : ∀ c t' id cmd x, op = .recv c t' id cmd → s₁.findConn c = some x → x.app = some b →
      NoForeign s₁.db b x cmd) :
    IW b (s₁.stepPlain op) (s₂.stepPlain op) := by
  cases op with
  | connect c => exact w.connect c
  | recv c t' id cmd =>
    exact w.onMessage hF.good.db.cinv.toPInv hF.ids c t' id cmd hno (fun x hx hxa => hg c t' id cmd x rfl hx hxa)
  | drop c => exact w.dropConn c
  | sweep now fault =>
    have := ht now rfl
    subst this
    exact w.expire hF.good (Int.le_refl _) fault
  | restart t' => exact w.restart t'
  | crashIn k op => simp [Op.isCrash] at hcr

end step

end Sys

end Wormhole
