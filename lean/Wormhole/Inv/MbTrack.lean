/-
  A small framework for properties that hold THROUGHOUT a step (of the live database, of the
  committed copy and of every snapshot a crash can leave), used by Props/C08.lean and
  Props/C05.lean for the statements quantified over all operations.

  `Closed T`    : `T` survives the statements that only add rows / set fields ("grow")
  `ClosedDel T` : `T` survives the statements of the sweep
  `ClosedC T`   : `Closed` + `T` does not look at the connection records
  One pass through Core.lean / Ws.lean shows that every function preserves every such `T`
  (`Mailbox.close` needs two extra facts about `T`, given as hypotheses).
-/
import Wormhole.Inv.MbSpec

namespace Wormhole

/-- the mailbox name a `close` refers to: the `mailbox` key, else the remembered `_mailbox_id` -/
def Conn.closeName (x : Conn) (m : Option String) : Option String :=
  match m with
  | some m => some m
  | none => x.mailboxId

/-- the mailbox a `close` acts on: the handle if the connection holds one, else `closeName` -/
def Conn.closeTarget (x : Conn) (m : Option String) : Option String :=
  match x.mailbox with
  | some h => some h
  | none => x.closeName m

/-- channel statements that only add rows or set fields (and the by-id delete of `release`) -/
inductive GrowPrim (d0 : Chan) : (Chan → Chan) → Prop
  /-- `_add_mailbox` inserts only after it found no row with this id -/
  | insMailbox (r) (h : ∀ m ∈ d0.mailboxes, m.id ≠ r.id) : GrowPrim d0 (fun d => d.insMailbox r)
  | insMbSide (r) : GrowPrim d0 (fun d => d.insMbSide r)
  | touch (mb t) : GrowPrim d0 (fun d => d.touch mb t)
  | insMessage (r) : GrowPrim d0 (fun d => d.insMessage r)
  | insNameplate (a n m) : GrowPrim d0 (fun d => d.insNameplate a n m)
  | insNpSide (r) : GrowPrim d0 (fun d => d.insNpSide r)
  | unclaim (n sd) : GrowPrim d0 (fun d => d.unclaim n sd)
  | delNp (id) : GrowPrim d0 (fun d => (d.delNpSidesOf id).delNameplate id)

/-- the channel statements of the sweep -/
inductive DelPrim : (Chan → Chan) → Prop
  | delNp (id) : DelPrim (fun d => (d.delNpSidesOf id).delNameplate id)
  | delMb (id) : DelPrim (fun d => ((d.delMessagesOf id).delMbSidesOf id).delMailbox id)
  | touchSome (p : MailboxRow → Prop) (inst : DecidablePred p) (t : Time) :
      DelPrim (fun d => { d with mailboxes := d.mailboxes.map (fun r => if p r then { r with updated := t } else r) })

/-- the five DELETEs of `Mailbox.close` -/
def Chan.closeDeletes (d : Chan) (app mb : String) : Chan :=
  ((((d.delNpSidesOfMailbox app mb).delNameplatesOfMailbox app mb).delMessagesOf mb).delMbSidesOf
    mb).delMailbox mb

/-- an update of a connection record that keeps identity, binding, handle and subscription -/
def Harmless (f : Conn → Conn) : Prop :=
  ∀ y, (f y).id = y.id ∧ (f y).app = y.app ∧ (f y).side = y.side ∧ (f y).mailbox = y.mailbox ∧
    (f y).listening = y.listening

/-- a `message` frame -/
def Frame.isMsg : Frame → Bool
  | .message _ _ _ _ _ => true
  | _ => false

def Event.isMsg : Event → Bool
  | .frame _ f _ => f.isMsg
  | _ => false

namespace Sys

/-- `T` survives the sending of `message` frames too -/
def MsgClosed (T : Sys → Prop) : Prop := ∀ s c f, T s → T (s.send c f)

structure ClosedBase (T : Sys → Prop) : Prop where
  /-- any event except a `message` frame (those need `MsgClosed`) -/
  emit : ∀ s e, e.isMsg = false → T s → T (s.emit e)
  modUdb : ∀ s f, T s → T (s.modUdb f)
  commit : ∀ s, T s → T s.commit
  ucommit : ∀ s, T s → T s.ucommit

structure ClosedG (T : Sys → Prop) : Prop extends ClosedBase T where
  grow : ∀ s f, GrowPrim s.db f → T s → T (s.modDb f)

structure Closed (T : Sys → Prop) : Prop extends ClosedG T where
  flag : ∀ s c f, Harmless f → T s → T (s.updConn c f)

structure ClosedC (T : Sys → Prop) : Prop extends Closed T where
  anyConns : ∀ s cs, T s → T { s with conns := cs }

structure ClosedDel (T : Sys → Prop) : Prop extends ClosedBase T where
  del : ∀ s f, DelPrim f → T s → T (s.modDb f)

/-! ### base -/
section base
variable {T : Sys → Prop} (hT : ClosedBase T)
include hT

theorem ClosedBase.send {s : Sys} (h : T s) (c f) (hf : Frame.isMsg f = false := by rfl) :
    T (s.send c f) := hT.emit _ _ hf h
theorem ClosedBase.sendError {s : Sys} (h : T s) (c t) : T (s.sendError c t) := hT.emit _ _ rfl h
theorem ClosedBase.internalErr {s : Sys} (h : T s) (c t) : T (s.internalErr c t) := hT.emit _ _ rfl h

omit hT in
theorem MsgClosed.foldl_send (hm : MsgClosed T) {α : Type} (g : α → Nat) (fr : α → Frame) (l : List α) :
    ∀ {s : Sys}, T s → T (l.foldl (fun s a => s.send (g a) (fr a)) s) := by
  induction l with
  | nil => intro s h; exact h
  | cons a l ih => intro s h; exact ih (hm _ _ _ h)

omit hT in
theorem MsgClosed.replay (hm : MsgClosed T) {s : Sys} (h : T s) (c app mb) : T (s.replay c app mb) := by
  unfold Sys.replay
  exact hm.foldl_send (fun _ => c) (fun (m : Message) => .message m.side m.phase m.body m.rx m.msgId) _ h

omit hT in
theorem MsgClosed.broadcast (hm : MsgClosed T) {s : Sys} (h : T s) (app mb f) : T (s.broadcast app mb f) := by
  unfold Sys.broadcast
  exact hm.foldl_send (fun c => c) (fun _ => f) _ h

theorem ClosedBase.storeNameplateUsage {s : Sys} (h : T s) (app sides t p) :
    T (s.storeNameplateUsage app sides t p).1 := by
  unfold Sys.storeNameplateUsage
  split
  · exact h
  · dsimp only
    exact hT.modUdb _ _ h

theorem ClosedBase.storeMailboxUsage {s : Sys} (h : T s) (app forNp sides t p) :
    T (s.storeMailboxUsage app forNp sides t p) := by
  unfold Sys.storeMailboxUsage
  exact hT.modUdb _ _ h

theorem ClosedBase.logClientVersion {s : Sys} (h : T s) (a sd t i v) :
    T (s.logClientVersion a sd t i v) := by
  unfold Sys.logClientVersion
  split
  · exact hT.ucommit _ (hT.modUdb _ _ h)
  · exact h

theorem ClosedBase.dumpStats {s : Sys} (h : T s) (now) : T (s.dumpStats now) := by
  unfold Sys.dumpStats
  split
  · exact hT.ucommit _ (hT.modUdb _ _ h)
  · exact h

theorem ClosedBase.storeNameplatesOfMailbox {app t} (l : List Nameplate) :
    ∀ {s : Sys}, T s → T (s.storeNameplatesOfMailbox app t l).1 := by
  induction l with
  | nil => intro s h; exact h
  | cons np rest ih =>
    intro s h
    unfold Sys.storeNameplatesOfMailbox
    have h1 := hT.storeNameplateUsage h app (s.db.npSidesOf np.id) t false
    split
    · rename_i s2 heq; rw [heq] at h1; exact h1
    · rename_i s2 heq; rw [heq] at h1; exact ih h1

theorem ClosedBase.handlePing {s : Sys} (h : T s) (c v) : T (s.handlePing c v) := by
  unfold Sys.handlePing; split
  · exact hT.sendError h _ _
  · exact hT.send h _ _

theorem ClosedBase.handleList {s : Sys} (h : T s) (x app) : T (s.handleList x app) := hT.send h _ _

end base

/-! ### `Mailbox.close` -/

/-- `Mailbox.close` preserves a tracked property if its UPDATE does (`hcs`) and its DELETEs do
    whenever no side of the mailbox is open any more (`hdel`); the property may weaken from `T`
    to `T'` at the point where the deletion starts -/
theorem mailboxClose_track {T T' : Sys → Prop} (hT : ClosedBase T) (hT' : ClosedBase T')
    (hconns' : ∀ s cs, T' s → T' { s with conns := cs }) (hsub : ∀ s, T s → T' s)
    {app mb side : String} {mood : Option String} {t : Time}
    (hcs : ∀ s1, T s1 → s1.db.HasBox app mb → T (s1.modDb (·.closeSide mb side mood)))
    (hdel : ∀ s1, T' s1 → (s1.db.mbSidesOf mb).any (·.opened) = false →
      T' (s1.modDb (fun d => d.closeDeletes app mb)))
    {s : Sys} (h : T s) : T' (s.mailboxClose app mb side mood t).1 := by
  unfold mailboxClose
  split
  · exact hsub _ h
  · split
    · exact hsub _ h
    · rename_i row hrow _ _ _
      have h1 : T ((s.modDb (·.closeSide mb side mood)).commit) :=
        hT.commit _ (hcs _ h (Chan.findMailbox_isSome.1 (by simp [hrow])))
      dsimp only
      split
      · exact hsub _ h1
      · rename_i hany
        generalize hE : (if ((s.modDb _).commit).cfg.usage then _ else _) = p
        obtain ⟨s2, ok⟩ := p
        obtain ⟨u, _, _⟩ := closeStore_spec hE
        have h2 : T' s2 := by
          split at hE
          · have := hT'.storeNameplatesOfMailbox (app := app) (t := t)
              (((s.modDb (·.closeSide mb side mood)).commit).db.nameplatesOfMailbox app mb) (hsub _ h1)
            rw [hE] at this; exact this
          · simp only [Prod.mk.injEq] at hE
            obtain ⟨rfl, _⟩ := hE
            exact hsub _ h1
        dsimp only
        split
        · exact h2
        · have h3 : T' (s2.modDb (fun d => d.closeDeletes app mb)) := by
            apply hdel _ h2
            rw [u.db]
            simpa using hany
          apply hconns'
          apply hT'.commit
          split
          · exact hT'.ucommit _ (hT'.storeMailboxUsage h3 _ _ _ _ _)
          · exact h3

/-! ### grow -/
section grow
variable {T : Sys → Prop} (hT : ClosedG T)
include hT

theorem ClosedG.mailboxOpen {s : Sys} (h : T s) (mb side t) : T (s.mailboxOpen mb side t) := by
  unfold Sys.mailboxOpen
  split
  · exact hT.commit _ (hT.grow _ _ (.touch mb t) (hT.grow _ _ (.insMbSide _) h))
  · exact hT.commit _ (hT.grow _ _ (.touch mb t) h)

theorem ClosedG.addMailbox {s s1 : Sys} (h : T s) {app mb forNp t}
    (e : s.addMailbox app mb forNp t = some s1) : T s1 := by
  unfold Sys.addMailbox at e
  split at e
  · cases e; exact h
  · split at e
    · cases e
    · rename_i hnone
      cases e
      exact hT.grow _ _ (.insMailbox _ (Chan.findMailboxById_eq_none.1 hnone)) h

theorem ClosedG.openMailbox {s : Sys} (h : T s) (app mb side t) : T (s.openMailbox app mb side t).1 := by
  unfold Sys.openMailbox
  split
  · exact h
  · rename_i s2 h2
    have := hT.commit _ (hT.mailboxOpen (hT.addMailbox h h2) mb side t)
    dsimp only
    split <;> exact this

theorem ClosedG.addMessage {s : Sys} (h : T s) (app mb side ph bd t id) :
    T (s.addMessage app mb side ph bd t id) := by
  unfold Sys.addMessage
  exact hT.commit _ (hT.grow _ _ (.touch mb t) (hT.grow _ _ (.insMessage _) h))

theorem ClosedG.claimCont {s : Sys} (h : T s) (app npid mb side t) :
    T (claimCont s app npid mb side t).1 := by
  unfold Sys.claimCont
  have h3 := hT.openMailbox (hT.commit _ h) app mb side t
  dsimp only
  split <;> rename_i s3 heq <;> rw [heq] at h3
  · exact h3
  · exact h3
  · split <;> exact h3

theorem ClosedG.claimTail {s : Sys} (h : T s) (app npid mb side t) :
    T (s.claimTail app npid mb side t).1 := by
  rw [claimTail_eq]
  split
  · exact hT.claimCont (hT.grow _ _ (.insNpSide _) h) _ _ _ _ _
  · split
    · exact hT.claimCont h _ _ _ _ _
    · exact h

theorem ClosedG.claimNameplate {s : Sys} (h : T s) (app name side t fresh) :
    T (s.claimNameplate app name side t fresh).1 := by
  unfold Sys.claimNameplate
  split
  · split
    · exact h
    · rename_i s2 h2
      exact hT.claimTail (hT.grow _ _ (.insNameplate _ _ _) (hT.addMailbox h h2)) _ _ _ _ _
  · exact hT.claimTail h _ _ _ _ _

theorem ClosedG.releaseNameplate {s : Sys} (h : T s) (app name side t) :
    T (s.releaseNameplate app name side t).1 := by
  unfold Sys.releaseNameplate
  split
  · exact h
  · split
    · exact h
    · rename_i _ np _ _ _ _
      have h1 : T ((s.modDb (·.unclaim np.id side)).commit) := hT.commit _ (hT.grow _ _ (.unclaim _ _) h)
      dsimp only
      split
      · exact h1
      · have h2 : T (((s.modDb (·.unclaim np.id side)).commit).modDb
            (fun d => (d.delNpSidesOf np.id).delNameplate np.id)) := hT.grow _ _ (.delNp _) h1
        split
        · have h3 := hT.toClosedBase.storeNameplateUsage h2 app
            (((s.modDb (·.unclaim np.id side)).commit).db.npSidesOf np.id) t false
          split <;> rename_i s3 heq <;> rw [heq] at h3
          · exact h3
          · exact hT.commit _ (hT.ucommit _ h3)
        · exact hT.commit _ h2

end grow

/-! ### handlers -/
section handlers
variable {T : Sys → Prop} (hT : Closed T)
include hT

theorem Closed.handleAllocate {s : Sys} (h : T s) (x app side t pick draws fresh) :
    T (s.handleAllocate x app side t pick draws fresh) := by
  unfold Sys.handleAllocate
  split
  · exact hT.toClosedBase.sendError h _ _
  · split
    · exact hT.toClosedBase.internalErr h _ _
    · rename_i name _
      have h1 := hT.toClosedG.claimNameplate h app name side t fresh
      split
      all_goals
        rename_i s1 _ e
        rw [e] at h1
      · exact hT.toClosedBase.send (hT.flag _ x.id (fun y => { y with didAllocate := true })
          (fun y => ⟨rfl, rfl, rfl, rfl, rfl⟩) h1) _ _
      · exact hT.toClosedBase.internalErr h1 _ _
      · exact hT.toClosedBase.internalErr h1 _ _
      · exact hT.toClosedBase.internalErr h1 _ _

theorem Closed.handleClaim {s : Sys} (h : T s) (x app side t n fresh) :
    T (s.handleClaim x app side t n fresh) := by
  unfold Sys.handleClaim
  split
  · exact hT.toClosedBase.sendError h _ _
  · split
    · exact hT.toClosedBase.sendError h _ _
    · rename_i name _
      dsimp only
      have h1 := hT.toClosedG.claimNameplate (hT.flag _ x.id (fun y => { y with didClaim := true, nameplateId := some name })
        (fun y => ⟨rfl, rfl, rfl, rfl, rfl⟩) h) app name side t fresh
      split
      all_goals
        rename_i e
        rw [e] at h1
      · exact hT.toClosedBase.send h1 _ _
      · exact hT.toClosedBase.sendError h1 _ _
      · exact hT.toClosedBase.sendError h1 _ _
      · exact hT.toClosedBase.internalErr h1 _ _

theorem Closed.handleRelease {s : Sys} (h : T s) (x app side t n) :
    T (s.handleRelease x app side t n) := by
  unfold Sys.handleRelease
  have go : ∀ name : String,
      T (match (s.updConn x.id (fun y => { y with didRelease := true })).releaseNameplate app name side t with
       | (s1, true) => s1.send x.id .released
       | (s1, false) => s1.internalErr x.id "IndexError") := by
    intro name
    have h1 := hT.toClosedG.releaseNameplate (hT.flag _ x.id (fun y => { y with didRelease := true })
      (fun y => ⟨rfl, rfl, rfl, rfl, rfl⟩) h) app name side t
    split
    all_goals
      rename_i e
      rw [e] at h1
    · exact hT.toClosedBase.send h1 _ _
    · exact hT.toClosedBase.internalErr h1 _ _
  split
  · exact hT.toClosedBase.sendError h _ _
  · dsimp only
    split
    · split
      · exact hT.toClosedBase.sendError h _ _
      · exact go _
    · exact go _
    · exact go _
    · exact hT.toClosedBase.sendError h _ _

theorem Closed.handleAdd (hm : MsgClosed T) {s : Sys} (h : T s) (x app side t id ph bd) :
    T (s.handleAdd x app side t id ph bd) := by
  unfold Sys.handleAdd
  split
  · exact hT.toClosedBase.sendError h _ _
  · split
    · exact hT.toClosedBase.sendError h _ _
    · split
      · exact hT.toClosedBase.sendError h _ _
      · exact hm.broadcast (hT.toClosedG.addMessage h _ _ _ _ _ _ _) _ _ _

/-- every command except `bind`, `open`, `close` (those change binding / handle / subscription) -/
theorem Closed.onMessage {s : Sys} (h : T s) (c t id) {cmd : Cmd}
    (hm : (∃ ph bd, cmd = .add ph bd) → MsgClosed T)
    (hb : ∀ a sd i v, cmd ≠ .bind a sd i v) (ho : ∀ m, cmd ≠ .open_ m) (hc : ∀ m mood, cmd ≠ .close m mood) :
    T (s.onMessage c t id cmd) := by
  unfold Sys.onMessage
  split
  · exact h
  · rename_i x _
    have ha := hT.toClosedBase.send h c (.ack id)
    cases cmd with
    | noType => exact hT.toClosedBase.sendError h _ _
    | ping v => exact hT.toClosedBase.handlePing ha _ _
    | bind a sd i v => exact absurd rfl (hb a sd i v)
    | unknown =>
      dsimp only
      split
      · exact hT.toClosedBase.sendError ha _ _
      · exact hT.toClosedBase.sendError ha _ _
    | list =>
      dsimp only
      split
      · exact hT.toClosedBase.sendError ha _ _
      · exact hT.toClosedBase.handleList ha _ _
    | allocate pick draws fresh =>
      dsimp only
      split
      · exact hT.toClosedBase.sendError ha _ _
      · exact hT.handleAllocate ha _ _ _ _ _ _ _
    | claim n fresh =>
      dsimp only
      split
      · exact hT.toClosedBase.sendError ha _ _
      · exact hT.handleClaim ha _ _ _ _ _ _
    | release n =>
      dsimp only
      split
      · exact hT.toClosedBase.sendError ha _ _
      · exact hT.handleRelease ha _ _ _ _ _
    | open_ m => exact absurd rfl (ho m)
    | add ph bd =>
      dsimp only
      split
      · exact hT.toClosedBase.sendError ha _ _
      · exact hT.handleAdd (hm ⟨ph, bd, rfl⟩) ha _ _ _ _ _ _ _
    | close m mood => exact absurd rfl (hc m mood)

end handlers

/-! ### properties that do not look at connection records -/
section growC
variable {T : Sys → Prop} (hT : ClosedC T)
include hT

theorem ClosedC.updConn {s : Sys} (h : T s) (c f) : T (s.updConn c f) := hT.anyConns _ _ h

theorem ClosedC.handleBind {s : Sys} (h : T s) (x t a sd i v) : T (s.handleBind x t a sd i v) := by
  unfold Sys.handleBind
  split
  · exact hT.toClosedBase.sendError h _ _
  · split
    · exact hT.toClosedBase.sendError h _ _
    · split
      · exact hT.toClosedBase.sendError h _ _
      · exact hT.toClosedBase.logClientVersion (hT.updConn h _ _) _ _ _ _ _

theorem ClosedC.handleOpen (hm : MsgClosed T) {s : Sys} (h : T s) (x app side t m) :
    T (s.handleOpen x app side t m) := by
  unfold Sys.handleOpen
  split
  · exact hT.toClosedBase.sendError h _ _
  · split
    · exact hT.toClosedBase.sendError h _ _
    · rename_i mb
      dsimp only
      have h1 := hT.toClosedG.openMailbox (hT.updConn h x.id (fun y => { y with mailboxId := some mb })) app mb side t
      split
      all_goals
        rename_i e
        rw [e] at h1
      · exact hT.toClosedBase.sendError h1 _ _
      · exact hT.toClosedBase.internalErr h1 _ _
      · exact hm.replay (hT.updConn h1 _ _) _ _ _

end growC

/-- `handle_close` (after validation): see `mailboxClose_track`; the UPDATE / DELETE hypotheses
    are needed only for the mailbox the close acts on (`closeTarget`) -/
theorem handleClose_track {T T' : Sys → Prop} (hT : ClosedC T) (hT' : ClosedBase T')
    (hconns' : ∀ s cs, T' s → T' { s with conns := cs }) (hsub : ∀ s, T s → T' s)
    (x : Conn) (app side : String) (t : Time) (m : Option String) (mood : Option String)
    (hcs : ∀ tgt, x.closeTarget m = some tgt → ∀ s1, T s1 → s1.db.HasBox app tgt →
      T (s1.modDb (·.closeSide tgt side mood)))
    (hdel : ∀ tgt, x.closeTarget m = some tgt → ∀ s1, T' s1 → (s1.db.mbSidesOf tgt).any (·.opened) = false →
      T' (s1.modDb (fun d => d.closeDeletes app tgt)))
    {s : Sys} (h : T s) : T' (s.handleClose x app side t m mood) := by
  unfold Sys.handleClose
  have hb' : ClosedBase T := hT.toClosedBase
  have tail : ∀ (s1 : Sys) (r : OpenRes) (hd : String), T s1 → (r = .ok → x.closeTarget m = some hd) →
      T' (match ((s1, r, hd) : Sys × OpenRes × String) with
       | (s1, .crowded, _) => s1.sendError x.id "crowded"
       | (s1, .integrity, _) => s1.internalErr x.id "IntegrityError"
       | (s1, .ok, h) =>
         let s2 := s1.updConn x.id (fun y => { y with listening := false, didClose := true })
         match s2.mailboxClose app h side mood t with
         | (s3, false) => s3.internalErr x.id "IndexError"
         | (s3, true) => (s3.updConn x.id (fun y => { y with mailbox := none })).send x.id .closed) := by
    intro s1 r hd h1 htg
    cases r
    · dsimp only
      have h3 := mailboxClose_track hb' hT' hconns' hsub (app := app) (mb := hd) (side := side) (mood := mood)
        (t := t) (hcs hd (htg rfl)) (hdel hd (htg rfl))
        (hT.updConn h1 x.id (fun y => { y with listening := false, didClose := true }))
      split
      all_goals
        rename_i e
        rw [e] at h3
      · exact hT'.internalErr h3 _ _
      · exact hT'.send (hconns' _ _ h3) _ _
    · exact hsub _ (hb'.sendError h1 _ _)
    · exact hsub _ (hb'.internalErr h1 _ _)
  have go : ∀ mb : String, x.closeName m = some mb →
      T' (match (match x.mailbox with
          | some h => (s, OpenRes.ok, h)
          | none =>
            match s.openMailbox app mb side t with
            | (s1, r) => (s1.updConn x.id (fun y => if r = OpenRes.ok then { y with mailbox := some mb } else y), r, mb)
          : Sys × OpenRes × String) with
       | (s1, .crowded, _) => s1.sendError x.id "crowded"
       | (s1, .integrity, _) => s1.internalErr x.id "IntegrityError"
       | (s1, .ok, h) =>
         let s2 := s1.updConn x.id (fun y => { y with listening := false, didClose := true })
         match s2.mailboxClose app h side mood t with
         | (s3, false) => s3.internalErr x.id "IndexError"
         | (s3, true) => (s3.updConn x.id (fun y => { y with mailbox := none })).send x.id .closed) := by
    intro mb hmb
    cases hx : x.mailbox with
    | some hd => exact tail s .ok hd h (fun _ => by simp [Conn.closeTarget, hx])
    | none =>
      dsimp only
      have h1 := hT.toClosedG.openMailbox h app mb side t
      cases e : s.openMailbox app mb side t with
      | mk s1 r =>
        rw [e] at h1
        exact tail _ r mb (hT.updConn h1 _ _) (fun _ => by simp [Conn.closeTarget, hx, hmb])
  split
  · exact hsub _ (hb'.sendError h _ _)
  · dsimp only
    split
    · split
      · exact hsub _ (hb'.sendError h _ _)
      · exact go _ rfl
    · exact go _ rfl
    · rename_i held hm
      exact go _ (by simp [Conn.closeName, hm])
    · exact hsub _ (hb'.sendError h _ _)

/-- `onMessage` for every command -/
theorem onMessage_track {T T' : Sys → Prop} (hT : ClosedC T) (hT' : ClosedBase T')
    (hconns' : ∀ s cs, T' s → T' { s with conns := cs }) (hsub : ∀ s, T s → T' s)
    {s : Sys} (c : Nat) (t : Time) (id : Val) (cmd : Cmd)
    (hm : ((∃ ph bd, cmd = .add ph bd) ∨ (∃ m, cmd = .open_ m)) → MsgClosed T)
    (hcs : ∀ x m mood app tgt, s.findConn c = some x → cmd = .close m mood → x.app = some app →
      x.closeTarget m = some tgt → ∀ s1, T s1 → s1.db.HasBox app tgt →
      T (s1.modDb (·.closeSide tgt (x.side.getD "") mood)))
    (hdel : ∀ x m mood app tgt, s.findConn c = some x → cmd = .close m mood → x.app = some app →
      x.closeTarget m = some tgt → ∀ s1, T' s1 → (s1.db.mbSidesOf tgt).any (·.opened) = false →
      T' (s1.modDb (fun d => d.closeDeletes app tgt)))
    (h : T s) : T' (s.onMessage c t id cmd) := by
  have hb' : ClosedBase T := hT.toClosedBase
  by_cases hcl : ∃ m mood, cmd = .close m mood
  · obtain ⟨m, mood, rfl⟩ := hcl
    unfold Sys.onMessage
    split
    · exact hsub _ h
    · rename_i x hx
      have ha := hb'.send h c (.ack id)
      dsimp only
      split
      · exact hsub _ (hb'.sendError ha _ _)
      · rename_i app happ
        exact handleClose_track hT hT' hconns' hsub x app _ t m mood
          (fun tgt htg => hcs x m mood app tgt hx rfl happ htg)
          (fun tgt htg => hdel x m mood app tgt hx rfl happ htg) ha
  · apply hsub
    by_cases hbi : ∃ a sd i v, cmd = .bind a sd i v
    · obtain ⟨a, sd, i, v, rfl⟩ := hbi
      unfold Sys.onMessage
      split
      · exact h
      · exact hT.handleBind (hb'.send h c (.ack id)) _ _ _ _ _ _
    · by_cases hop : ∃ m, cmd = .open_ m
      · obtain ⟨m, rfl⟩ := hop
        unfold Sys.onMessage
        split
        · exact h
        · dsimp only
          split
          · exact hb'.sendError (hb'.send h c (.ack id)) _ _
          · exact hT.handleOpen (hm (Or.inr ⟨m, rfl⟩)) (hb'.send h c (.ack id)) _ _ _ _ _
      · exact hT.toClosed.onMessage h c t id (fun he => hm (Or.inl he)) (fun a sd i v e => hbi ⟨a, sd, i, v, e⟩)
          (fun m e => hop ⟨m, e⟩) (fun m mood e => hcl ⟨m, mood, e⟩)

/-! ### the sweep -/
section del
variable {T : Sys → Prop} (hT : ClosedDel T)
include hT

theorem ClosedDel.pruneNameplates {app now} (l : List Nameplate) :
    ∀ {s : Sys}, T s → T (s.pruneNameplates app now l).1 := by
  induction l with
  | nil => intro s h; exact h
  | cons np rest ih =>
    intro s h
    unfold Sys.pruneNameplates
    dsimp only
    have h1 : T (s.modDb (fun d => (d.delNpSidesOf np.id).delNameplate np.id)) := hT.del _ _ (.delNp _) h
    split
    · have h2 := hT.toClosedBase.storeNameplateUsage h1 app (s.db.npSidesOf np.id) now true
      split <;> rename_i heq <;> rw [heq] at h2
      · exact h2
      · exact ih h2
    · exact ih h1

theorem ClosedDel.pruneMailboxes {app now} (l : List MailboxRow) :
    ∀ {s : Sys}, T s → T (s.pruneMailboxes app now l) := by
  induction l with
  | nil => intro s h; exact h
  | cons row rest ih =>
    intro s h
    unfold Sys.pruneMailboxes
    dsimp only
    apply ih
    have h1 : T (s.modDb (fun d => ((d.delMessagesOf row.id).delMbSidesOf row.id).delMailbox row.id)) :=
      hT.del _ _ (.delMb _) h
    split
    · exact hT.toClosedBase.storeMailboxUsage h1 _ _ _ _ _
    · exact h1

theorem ClosedDel.prune {s : Sys} (h : T s) (app now old) : T (s.prune app now old).1 := by
  unfold Sys.prune
  dsimp only
  have h1 : T (s.touchListened app now).commit := by
    apply hT.commit
    unfold Sys.touchListened
    exact hT.del _ _ (.touchSome (fun r => r.app = app ∧ s.listeners app r.id ≠ []) _ now) h
  have h2 := hT.pruneNameplates (app := app) (now := now)
    (((s.touchListened app now).commit.db.nameplatesOfApp app).filter (fun r => r.mailbox ∈
      (((s.touchListened app now).commit.db.mailboxesOfApp app).filter (fun r => ¬ r.updated > old)).map (·.id))) h1
  split <;> rename_i heq <;> rw [heq] at h2
  · exact h2
  · have h3 := hT.pruneMailboxes (app := app) (now := now)
      (((s.touchListened app now).commit.db.mailboxesOfApp app).filter (fun r => ¬ r.updated > old)) h2
    split
    · split
      · exact hT.ucommit _ (hT.commit _ h3)
      · exact hT.commit _ h3
    · exact h3

theorem ClosedDel.pruneApps {now old} (l : List String) :
    ∀ {s : Sys}, T s → T (s.pruneApps now old l).1 := by
  induction l with
  | nil => intro s h; exact h
  | cons app rest ih =>
    intro s h
    unfold Sys.pruneApps
    have h1 := hT.prune h app now old
    split <;> rename_i heq <;> rw [heq] at h1
    · exact h1
    · exact ih h1

theorem ClosedDel.expire {s : Sys} (h : T s) (now fault) : T (s.expire now fault) := by
  unfold Sys.expire
  dsimp only
  apply hT.toClosedBase.dumpStats
  have h0 : T (s.emit (.fired now (now - Generated.expirationTicks))) := hT.emit _ _ rfl h
  split
  · exact hT.emit _ _ rfl h0
  · have h1 := hT.pruneApps (now := now) (old := now - Generated.expirationTicks)
      ((s.emit (.fired now (now - Generated.expirationTicks))).allApps) h0
    split <;> rename_i heq <;> rw [heq] at h1
    · exact h1
    · exact hT.emit _ _ rfl h1

end del

/-! ### `Track` -/

/-- `R` holds of the live channel database, of its committed copy and of every snapshot taken
    in the current step (the states a crash inside the step can leave) -/
structure Track (R : Chan → Prop) (s : Sys) : Prop where
  db : R s.db
  disk : R s.disk
  snaps : ∀ p ∈ s.snaps, R p.1

theorem Track.mono {R R' : Chan → Prop} (h : ∀ d, R d → R' d) {s : Sys} (hs : Track R s) : Track R' s :=
  ⟨h _ hs.db, h _ hs.disk, fun p hp => h _ (hs.snaps p hp)⟩

theorem Track.closedBase (R : Chan → Prop) : ClosedBase (Track R) where
  emit := fun _ _ _ h => ⟨h.db, h.disk, h.snaps⟩
  modUdb := fun _ _ h => ⟨h.db, h.disk, h.snaps⟩
  commit := by
    intro s h
    unfold Sys.commit
    split
    · exact h
    · refine ⟨h.db, h.db, ?_⟩
      intro p hp
      simp only [List.mem_append, List.mem_singleton] at hp
      rcases hp with hp | rfl
      · exact h.snaps p hp
      · exact h.db
  ucommit := by
    intro s h
    unfold Sys.ucommit
    split
    · exact h
    · refine ⟨h.db, h.disk, ?_⟩
      intro p hp
      simp only [List.mem_append, List.mem_singleton] at hp
      rcases hp with hp | rfl
      · exact h.snaps p hp
      · exact h.disk

theorem Track.msgClosed (R : Chan → Prop) : MsgClosed (Track R) := fun _ _ _ h => ⟨h.db, h.disk, h.snaps⟩

theorem Track.modDb {R : Chan → Prop} {s : Sys} (h : Track R s) (f : Chan → Chan) (hf : R (f s.db)) :
    Track R (s.modDb f) := ⟨hf, h.disk, h.snaps⟩

theorem Track.anyConns {R : Chan → Prop} {s : Sys} (h : Track R s) (cs : List Conn) :
    Track R { s with conns := cs } := ⟨h.db, h.disk, h.snaps⟩

theorem Track.closedC {R : Chan → Prop} (hR : ∀ d f, GrowPrim d f → R d → R (f d)) : ClosedC (Track R) where
  toClosedBase := Track.closedBase R
  grow := fun _ f hf h => h.modDb f (hR _ f hf h.db)
  flag := fun _ _ _ _ h => ⟨h.db, h.disk, h.snaps⟩
  anyConns := fun _ cs h => h.anyConns cs

theorem Track.closedDel {R : Chan → Prop} (hR : ∀ f, DelPrim f → ∀ d, R d → R (f d)) : ClosedDel (Track R) where
  toClosedBase := Track.closedBase R
  del := fun _ f hf h => h.modDb f (hR f hf _ h.db)

/-- the state a step starts from -/
theorem Track.start {R : Chan → Prop} {s : Sys} (h1 : R s.db) (h2 : R s.disk) :
    Track R ({ s with out := [], snaps := [] } : Sys) := ⟨h1, h2, by simp⟩

/-- whatever a crash inside `op` leaves in the channel database satisfied `R` at a commit point -/
theorem Track.crash {R : Chan → Prop} {s : Sys} (h0 : R s.disk) {op : Op}
    (h : Track R (({ s with out := [], snaps := [] } : Sys).stepPlain op)) (k : Nat) :
    R (s.step (.crashIn k op)).db := by
  show R (match k, (({ s with out := [], snaps := [] } : Sys).stepPlain op).snaps[k - 1]? with
    | 0, _ => _
    | _, some p => _
    | _, none => _ : Sys).db
  split
  · exact h0
  · rename_i p _ hp
    exact h.snaps p (List.mem_of_getElem? hp)
  · exact h.disk

end Sys
end Wormhole
