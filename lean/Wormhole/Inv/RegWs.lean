/-
  server_websocket.py against the registry: every handler keeps `RegInv` and, through `abs`,
  IS the handler of Ws.lean -- except that `handle_add` delivers the broadcast in the order of the
  object's listener dict (`_listeners.values()`), a permutation of the order `Sys.broadcast` uses.
-/
import Wormhole.Inv.RegCore

set_option linter.unusedSimpArgs false

namespace Wormhole
namespace RSys

theorem appOf_fixed (r : RSys) (x : RConn) (app : String) : r.appOf .fixed x app = r.getApp app := rfl

/-- after `get_app(app)` the namespace reference resolves, to a namespace of that app -/
theorem getApp_findNs {r : RSys} (h : r.RegInv) (app : String) :
    ∃ ns, (r.getApp app).1.findNs (r.getApp app).2 = some ns ∧ ns.app = app := by
  obtain ⟨j1, _, _, _, _, j6⟩ := getApp_spec h app
  obtain ⟨ns, hns, e1, e2⟩ := j1.appsNs _ j6
  exact ⟨ns, (findNs_eq_some j1).2 ⟨hns, e1⟩, e2⟩

/-- a bound connection's held object exists, so `self._mailbox` is set in both models or in neither -/
theorem absConn_mailbox_isSome {r : RSys} (h : r.RegInv) {x : RConn} (hx : x ∈ r.conns) :
    (absConn r.mbs x).mailbox.isSome = x.mailbox.isSome := by
  rw [absConn_mailbox]
  cases e : x.mailbox with
  | none => rfl
  | some o =>
    obtain ⟨k, hk, rfl, _⟩ := h.heldObj x hx o e
    simp [mbIdOf_eq h hk]

theorem absConn_mailbox_eq {r : RSys} (h : r.RegInv) {x : RConn} {k : MbObj} (hk : k ∈ r.mbs)
    (hm : x.mailbox = some k.oid) : (absConn r.mbs x).mailbox = some k.mailboxId := by
  rw [absConn_mailbox, hm]; exact mbIdOf_eq h hk

theorem absConn_mailbox_none {mbs : List MbObj} {x : RConn} (hm : x.mailbox = none) : (absConn mbs x).mailbox = none := by
  rw [absConn_mailbox, hm]; rfl

/-- an unbound connection holds nothing -/
theorem RegInv.unbound_no_mailbox {r : RSys} (h : r.RegInv) {x : RConn} (hx : x ∈ r.conns) (ha : x.app = none) :
    x.mailbox = none := by
  cases e : x.mailbox with
  | none => rfl
  | some o =>
    obtain ⟨k, _, _, e2⟩ := h.heldObj x hx o e
    rw [ha] at e2; cases e2

theorem findConn_abs {r : RSys} (c : Nat) : r.abs.findConn c = (r.findConn c).map (absConn r.mbs) := by
  unfold Sys.findConn findConn
  rw [abs_conns, aconns, List.find?_map]
  rfl

/-! ### bind, list -/

theorem handleBind_spec {r : RSys} (h : r.RegInv) {x : RConn} (hx : x ∈ r.conns) (t : Time)
    (app side impl version : Option String) :
    (r.handleBind .fixed x t app side impl version).RegInv ∧
    (r.handleBind .fixed x t app side impl version).abs =
      r.abs.handleBind (absConn r.mbs x) t app side impl version := by
  unfold handleBind Sys.handleBind
  simp only [absConn_app, absConn_side, absConn_id, appOf_fixed]
  have hcase : x.app = none ∨ ∃ a0, x.app = some a0 := by cases x.app <;> simp
  rcases hcase with hxa | ⟨a0, hxa⟩
  · simp only [hxa, Option.isSome_none, Bool.false_eq_true, false_or]
    by_cases hc : x.side.isSome = true ∧ x.side ≠ some ""
    · rw [if_pos hc, if_pos hc]
      exact ⟨h.sendError _ _, rfl⟩
    · rw [if_neg hc, if_neg hc]
      cases app with
      | none => exact ⟨h.sendError _ _, rfl⟩
      | some a =>
        cases side with
        | none => exact ⟨h.sendError _ _, rfl⟩
        | some sd =>
          simp only [Variant.fixed, Bool.false_eq_true, if_false]
          have hm := h.unbound_no_mailbox hx hxa
          have h1 : (r.updConn x.id (fun y => { y with app := some a, side := some sd })).RegInv := by
            refine h.updConn_nomb _ _ (fun _ => rfl) ?_
            intro y hy e
            have : y = x := pw_eq (f := RConn.id) h.connIds hy hx e
            subst this
            exact ⟨hm, hm⟩
          have a1 : (r.updConn x.id (fun y => { y with app := some a, side := some sd })).abs =
              r.abs.updConn x.id (fun y => { y with app := some a, side := some sd }) :=
            abs_updConn _ _ _ _ (fun _ _ _ => rfl)
          obtain ⟨j1, j2, _⟩ := getApp_spec h1 a
          refine ⟨j1.onCore _, ?_⟩
          rw [abs_onCore _ _ (by intro s cs; simp), j2, a1]
  · simp only [hxa, Option.isSome_some, true_or, if_true]
    exact ⟨(getApp_spec h a0).1.sendError _ _, by rw [abs_sendError, (getApp_spec h a0).2.1]⟩

theorem handleList_spec {r : RSys} (h : r.RegInv) (x : RConn) (app : String) :
    (r.handleList .fixed x app).RegInv ∧ (r.handleList .fixed x app).abs = r.abs.handleList (absConn r.mbs x) app := by
  unfold handleList Sys.handleList
  simp only [appOf_fixed]
  obtain ⟨ns, hf, e⟩ := getApp_findNs h app
  obtain ⟨j1, j2, _⟩ := getApp_spec h app
  rw [hf]
  dsimp only
  subst e
  refine ⟨j1.onCore _, ?_⟩
  rw [abs_onCore _ _ (by intro s cs; rfl), j2]
  rfl

/-! ### allocate, claim, release -/

theorem handleAllocate_spec {r : RSys} (h : r.RegInv) (x : RConn) (app side : String) (t : Time) (pick : Nat)
    (draws : List Nat) (fresh : String) :
    (r.handleAllocate .fixed x app side t pick draws fresh).RegInv ∧
    (r.handleAllocate .fixed x app side t pick draws fresh).abs =
      r.abs.handleAllocate (absConn r.mbs x) app side t pick draws fresh := by
  unfold handleAllocate Sys.handleAllocate
  simp only [appOf_fixed, absConn_didAllocate, absConn_id]
  by_cases hd : x.didAllocate = true
  · simp only [hd, if_true]
    exact ⟨h.sendError _ _, rfl⟩
  · simp only [hd, Bool.false_eq_true, if_false]
    obtain ⟨ns, hf, e⟩ := getApp_findNs h app
    obtain ⟨j1, j2, _, _, j5, j6⟩ := getApp_spec h app
    rw [hf]
    dsimp only
    subst e
    rw [j5, abs_db]
    cases Sys.findAvailable (r.core.db.namesOfApp ns.app) pick draws with
    | none => exact ⟨j1.internalErr _ _, by rw [abs_internalErr, j2]⟩
    | some name =>
      dsimp only
      obtain ⟨k1, k2, k3, _, _⟩ := claimNameplate_spec j1 j6 name side t fresh
      rw [j2] at k2 k3
      rcases hq : (r.getApp ns.app).1.claimNameplate (r.getApp ns.app).2 name side t fresh with ⟨r1, res⟩
      rcases hs : r.abs.claimNameplate ns.app name side t fresh with ⟨s1, res'⟩
      rw [hq] at k1; rw [hq, hs] at k2 k3
      simp only at k1 k2 k3
      subst k2 k3
      cases res with
      | ok m =>
        dsimp only
        refine ⟨(k1.updConn_flags x.id (fun y => { y with didAllocate := true }) (fun _ => rfl) (fun _ => rfl)
          (fun _ => rfl) (fun _ => rfl)).send _ _, ?_⟩
        rw [abs_send, abs_updConn _ _ _ (fun y => { y with didAllocate := true }) (fun _ _ _ => rfl)]
      | crowded => exact ⟨k1.internalErr _ _, rfl⟩
      | reclaimed => exact ⟨k1.internalErr _ _, rfl⟩
      | integrity => exact ⟨k1.internalErr _ _, rfl⟩

theorem handleClaim_spec {r : RSys} (h : r.RegInv) (x : RConn) (app side : String) (t : Time)
    (nameplate : Option String) (fresh : String) :
    (r.handleClaim .fixed x app side t nameplate fresh).RegInv ∧
    (r.handleClaim .fixed x app side t nameplate fresh).abs =
      r.abs.handleClaim (absConn r.mbs x) app side t nameplate fresh := by
  unfold handleClaim Sys.handleClaim
  simp only [appOf_fixed, absConn_didClaim, absConn_id]
  cases nameplate with
  | none => exact ⟨h.sendError _ _, rfl⟩
  | some name =>
    dsimp only
    by_cases hd : x.didClaim = true
    · simp only [hd, if_true]
      exact ⟨h.sendError _ _, rfl⟩
    · simp only [hd, Bool.false_eq_true, if_false]
      have h0 : (r.updConn x.id (fun y => { y with didClaim := true, nameplateId := some name })).RegInv :=
        h.updConn_flags _ _ (fun _ => rfl) (fun _ => rfl) (fun _ => rfl) (fun _ => rfl)
      have a0 : (r.updConn x.id (fun y => { y with didClaim := true, nameplateId := some name })).abs =
          r.abs.updConn x.id (fun y => { y with didClaim := true, nameplateId := some name }) :=
        abs_updConn _ _ _ _ (fun _ _ _ => rfl)
      generalize r.updConn x.id (fun y => { y with didClaim := true, nameplateId := some name }) = r0 at *
      rw [← a0]
      obtain ⟨j1, j2, _, _, _, j6⟩ := getApp_spec h0 app
      obtain ⟨k1, k2, k3, _, _⟩ := claimNameplate_spec j1 j6 name side t fresh
      rw [j2] at k2 k3
      rcases hq : (r0.getApp app).1.claimNameplate (r0.getApp app).2 name side t fresh with ⟨r1, res⟩
      rcases hs : r0.abs.claimNameplate app name side t fresh with ⟨s1, res'⟩
      rw [hq] at k1; rw [hq, hs] at k2 k3
      simp only at k1 k2 k3
      subst k2 k3
      cases res with
      | ok m => exact ⟨k1.send _ _, rfl⟩
      | crowded => exact ⟨k1.sendError _ _, rfl⟩
      | reclaimed => exact ⟨k1.sendError _ _, rfl⟩
      | integrity => exact ⟨k1.internalErr _ _, rfl⟩

theorem handleRelease_spec {r : RSys} (h : r.RegInv) (x : RConn) (app side : String) (t : Time)
    (nameplate : Option String) :
    (r.handleRelease .fixed x app side t nameplate).RegInv ∧
    (r.handleRelease .fixed x app side t nameplate).abs =
      r.abs.handleRelease (absConn r.mbs x) app side t nameplate := by
  have go : ∀ name : String,
      (let r0 := r.updConn x.id (fun y => { y with didRelease := true })
       let p := r0.appOf .fixed x app
       match p.1.findNs p.2 with
       | none => p.1.dangling
       | some ns =>
         match p.1.core.releaseNameplate ns.app name side t with
         | (c1, true) => ({ p.1 with core := c1 } : RSys).send x.id .released
         | (c1, false) => ({ p.1 with core := c1 } : RSys).internalErr x.id "IndexError").RegInv ∧
      (let r0 := r.updConn x.id (fun y => { y with didRelease := true })
       let p := r0.appOf .fixed x app
       match p.1.findNs p.2 with
       | none => p.1.dangling
       | some ns =>
         match p.1.core.releaseNameplate ns.app name side t with
         | (c1, true) => ({ p.1 with core := c1 } : RSys).send x.id .released
         | (c1, false) => ({ p.1 with core := c1 } : RSys).internalErr x.id "IndexError").abs =
      (let s0 := r.abs.updConn x.id (fun y => { y with didRelease := true })
       match s0.releaseNameplate app name side t with
       | (s1, true) => s1.send x.id .released
       | (s1, false) => s1.internalErr x.id "IndexError") := by
    intro name
    dsimp only
    have h0 : (r.updConn x.id (fun y => { y with didRelease := true })).RegInv :=
      h.updConn_flags _ _ (fun _ => rfl) (fun _ => rfl) (fun _ => rfl) (fun _ => rfl)
    have a0 : (r.updConn x.id (fun y => { y with didRelease := true })).abs =
        r.abs.updConn x.id (fun y => { y with didRelease := true }) :=
      abs_updConn _ _ _ _ (fun _ _ _ => rfl)
    generalize r.updConn x.id (fun y => { y with didRelease := true }) = r0 at *
    rw [← a0, appOf_fixed]
    obtain ⟨ns, hf, e⟩ := getApp_findNs h0 app
    obtain ⟨j1, j2, _⟩ := getApp_spec h0 app
    rw [hf]
    dsimp only
    subst e
    have hs : (r0.getApp ns.app).1.abs.releaseNameplate ns.app name side t =
        (((r0.getApp ns.app).1.core.releaseNameplate ns.app name side t).1.setConns (r0.getApp ns.app).1.aconns,
          ((r0.getApp ns.app).1.core.releaseNameplate ns.app name side t).2) := by
      rw [abs_eq', Sys.releaseNameplate_setConns]
    rw [← j2, hs]
    rcases (r0.getApp ns.app).1.core.releaseNameplate ns.app name side t with ⟨c1, b⟩
    cases b
    · exact ⟨(j1.core c1).internalErr _ _, rfl⟩
    · exact ⟨(j1.core c1).send _ _, rfl⟩
  unfold handleRelease Sys.handleRelease
  simp only [absConn_didRelease, absConn_id, absConn_nameplateId]
  by_cases hd : x.didRelease = true
  · simp only [hd, if_true]
    exact ⟨h.sendError _ _, rfl⟩
  · simp only [hd, Bool.false_eq_true, if_false]
    cases nameplate <;> cases hnp : x.nameplateId <;> dsimp only
    · exact ⟨h.sendError _ _, rfl⟩
    · exact go _
    · exact go _
    · rename_i n held
      by_cases hne : n ≠ held
      · simp only [ne_eq] at hne ⊢
        simp only [hne, not_false_eq_true, if_true]
        exact ⟨h.sendError _ _, rfl⟩
      · simp only [ne_eq, Decidable.not_not] at hne ⊢
        simp only [hne, not_true_eq_false, if_false]
        exact go _

end RSys
end Wormhole
