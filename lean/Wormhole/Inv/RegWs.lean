/-
  server_websocket.py against the registry: every handler keeps `RegInv` and, through `abs`,
  IS the handler of Ws.lean -- except that `handle_add` delivers the broadcast in the order of the
  object's listener dict (`_listeners.values()`), a permutation of the order `Sys.broadcast` uses.
-/
import Wormhole.Inv.RegCore
import Wormhole.Inv.RegTrace

set_option linter.unusedSimpArgs false

namespace Wormhole
namespace RSys

theorem appOf_fixed (r : RSys) (x : RConn) (app : String) : r.appOf .fixed x app = r.getApp app := rfl

/-- after `get_app(app)` the namespace reference resolves, to a namespace of that app -/
theorem getApp_findNs {r : RSys} (h : r.RegInv) (app : String) :
    ∃ ns, (r.getApp app).1.findNs (r.getApp app).2 = some ns ∧ ns.app = app := by
  obtain ⟨j1, _, _, _, _, j6⟩ := getApp_spec h app
  obtain ⟨ns, hns, e1, e2⟩ := j1.appsNs _ j6
  exact ⟨ns, (findNs_eq_some j1).2 ⟨hns, e1⟩, e2⟩

/-- a bound connection's held object exists, so `self._mailbox` is set in both models or in neither -/
theorem absConn_mailbox_isSome {r : RSys} (h : r.RegInv) {x : RConn} (hx : x ∈ r.conns) :
    (absConn r.mbs x).mailbox.isSome = x.mailbox.isSome := by
  rw [absConn_mailbox]
  cases e : x.mailbox with
  | none => rfl
  | some o =>
    obtain ⟨k, hk, rfl, _⟩ := h.heldObj x hx o e
    simp [mbIdOf_eq h hk]

theorem absConn_mailbox_eq {r : RSys} (h : r.RegInv) {x : RConn} {k : MbObj} (hk : k ∈ r.mbs)
    (hm : x.mailbox = some k.oid) : (absConn r.mbs x).mailbox = some k.mailboxId := by
  rw [absConn_mailbox, hm]; exact mbIdOf_eq h hk

theorem absConn_mailbox_none {mbs : List MbObj} {x : RConn} (hm : x.mailbox = none) : (absConn mbs x).mailbox = none := by
  rw [absConn_mailbox, hm]; rfl

/-- an unbound connection holds nothing -/
theorem RegInv.unbound_no_mailbox {r : RSys} (h : r.RegInv) {x : RConn} (hx : x ∈ r.conns) (ha : x.app = none) :
    x.mailbox = none := by
  cases e : x.mailbox with
  | none => rfl
  | some o =>
    obtain ⟨k, _, _, e2⟩ := h.heldObj x hx o e
    rw [ha] at e2; cases e2

theorem findConn_abs {r : RSys} (c : Nat) : r.abs.findConn c = (r.findConn c).map (absConn r.mbs) := by
  unfold Sys.findConn findConn
  rw [abs_conns, aconns, List.find?_map]
  rfl

/-! ### bind, list -/

theorem handleBind_spec {r : RSys} (h : r.RegInv) {x : RConn} (hx : x ∈ r.conns) (t : Time)
    (app side impl version : Option String) :
    (r.handleBind .fixed x t app side impl version).RegInv ∧
    (r.handleBind .fixed x t app side impl version).abs =
      r.abs.handleBind (absConn r.mbs x) t app side impl version := by
  unfold handleBind Sys.handleBind
  simp only [absConn_app, absConn_side, absConn_id, appOf_fixed]
  have hcase : x.app = none ∨ ∃ a0, x.app = some a0 := by cases x.app <;> simp
  rcases hcase with hxa | ⟨a0, hxa⟩
  · simp only [hxa, Option.isSome_none, Bool.false_eq_true, false_or]
    by_cases hc : x.side.isSome = true ∧ x.side ≠ some ""
    · rw [if_pos hc, if_pos hc]
      exact ⟨h.sendError _ _, rfl⟩
    · rw [if_neg hc, if_neg hc]
      cases app with
      | none => exact ⟨h.sendError _ _, rfl⟩
      | some a =>
        cases side with
        | none => exact ⟨h.sendError _ _, rfl⟩
        | some sd =>
          simp only [Variant.fixed, Bool.false_eq_true, if_false]
          have hm := h.unbound_no_mailbox hx hxa
          have h1 : (r.updConn x.id (fun y => { y with app := some a, side := some sd })).RegInv := by
            refine h.updConn_nomb _ _ (fun _ => rfl) ?_
            intro y hy e
            have : y = x := pw_eq (f := RConn.id) h.connIds hy hx e
            subst this
            exact ⟨hm, hm⟩
          have a1 : (r.updConn x.id (fun y => { y with app := some a, side := some sd })).abs =
              r.abs.updConn x.id (fun y => { y with app := some a, side := some sd }) :=
            abs_updConn _ _ _ _ (fun _ _ _ => rfl)
          obtain ⟨j1, j2, _⟩ := getApp_spec h1 a
          refine ⟨j1.onCore _, ?_⟩
          rw [abs_onCore _ _ (by intro s cs; simp), j2, a1]
  · simp only [hxa, Option.isSome_some, true_or, if_true]
    exact ⟨(getApp_spec h a0).1.sendError _ _, by rw [abs_sendError, (getApp_spec h a0).2.1]⟩

theorem handleList_spec {r : RSys} (h : r.RegInv) (x : RConn) (app : String) :
    (r.handleList .fixed x app).RegInv ∧ (r.handleList .fixed x app).abs = r.abs.handleList (absConn r.mbs x) app := by
  unfold handleList Sys.handleList
  simp only [appOf_fixed]
  obtain ⟨ns, hf, e⟩ := getApp_findNs h app
  obtain ⟨j1, j2, _⟩ := getApp_spec h app
  rw [hf]
  dsimp only
  subst e
  refine ⟨j1.onCore _, ?_⟩
  rw [abs_onCore _ _ (by intro s cs; rfl), j2]
  rfl

/-! ### allocate, claim, release -/

theorem handleAllocate_spec {r : RSys} (h : r.RegInv) (x : RConn) (app side : String) (t : Time) (pick : Nat)
    (draws : List Nat) (fresh : String) :
    (r.handleAllocate .fixed x app side t pick draws fresh).RegInv ∧
    (r.handleAllocate .fixed x app side t pick draws fresh).abs =
      r.abs.handleAllocate (absConn r.mbs x) app side t pick draws fresh := by
  unfold handleAllocate Sys.handleAllocate
  simp only [appOf_fixed, absConn_didAllocate, absConn_id]
  by_cases hd : x.didAllocate = true
  · simp only [hd, if_true]
    exact ⟨h.sendError _ _, rfl⟩
  · simp only [hd, Bool.false_eq_true, if_false]
    obtain ⟨ns, hf, e⟩ := getApp_findNs h app
    obtain ⟨j1, j2, _, _, j5, j6⟩ := getApp_spec h app
    rw [hf]
    dsimp only
    subst e
    rw [j5, abs_db]
    cases Sys.findAvailable (r.core.db.namesOfApp ns.app) pick draws with
    | none => exact ⟨j1.internalErr _ _, by rw [abs_internalErr, j2]⟩
    | some name =>
      dsimp only
      obtain ⟨k1, k2, k3, _, _⟩ := claimNameplate_spec j1 j6 name side t fresh
      rw [j2] at k2 k3
      rcases hq : (r.getApp ns.app).1.claimNameplate (r.getApp ns.app).2 name side t fresh with ⟨r1, res⟩
      rcases hs : r.abs.claimNameplate ns.app name side t fresh with ⟨s1, res'⟩
      rw [hq] at k1; rw [hq, hs] at k2 k3
      simp only at k1 k2 k3
      subst k2 k3
      cases res with
      | ok m =>
        dsimp only
        refine ⟨(k1.updConn_flags x.id (fun y => { y with didAllocate := true }) (fun _ => rfl) (fun _ => rfl)
          (fun _ => rfl) (fun _ => rfl)).send _ _, ?_⟩
        rw [abs_send, abs_updConn _ _ _ (fun y => { y with didAllocate := true }) (fun _ _ _ => rfl)]
      | crowded => exact ⟨k1.internalErr _ _, rfl⟩
      | reclaimed => exact ⟨k1.internalErr _ _, rfl⟩
      | integrity => exact ⟨k1.internalErr _ _, rfl⟩

theorem handleClaim_spec {r : RSys} (h : r.RegInv) (x : RConn) (app side : String) (t : Time)
    (nameplate : Option String) (fresh : String) :
    (r.handleClaim .fixed x app side t nameplate fresh).RegInv ∧
    (r.handleClaim .fixed x app side t nameplate fresh).abs =
      r.abs.handleClaim (absConn r.mbs x) app side t nameplate fresh := by
  unfold handleClaim Sys.handleClaim
  simp only [appOf_fixed, absConn_didClaim, absConn_id]
  cases nameplate with
  | none => exact ⟨h.sendError _ _, rfl⟩
  | some name =>
    dsimp only
    by_cases hd : x.didClaim = true
    · simp only [hd, if_true]
      exact ⟨h.sendError _ _, rfl⟩
    · simp only [hd, Bool.false_eq_true, if_false]
      have h0 : (r.updConn x.id (fun y => { y with didClaim := true, nameplateId := some name })).RegInv :=
        h.updConn_flags _ _ (fun _ => rfl) (fun _ => rfl) (fun _ => rfl) (fun _ => rfl)
      have a0 : (r.updConn x.id (fun y => { y with didClaim := true, nameplateId := some name })).abs =
          r.abs.updConn x.id (fun y => { y with didClaim := true, nameplateId := some name }) :=
        abs_updConn _ _ _ _ (fun _ _ _ => rfl)
      generalize r.updConn x.id (fun y => { y with didClaim := true, nameplateId := some name }) = r0 at *
      rw [← a0]
      obtain ⟨j1, j2, _, _, _, j6⟩ := getApp_spec h0 app
      obtain ⟨k1, k2, k3, _, _⟩ := claimNameplate_spec j1 j6 name side t fresh
      rw [j2] at k2 k3
      rcases hq : (r0.getApp app).1.claimNameplate (r0.getApp app).2 name side t fresh with ⟨r1, res⟩
      rcases hs : r0.abs.claimNameplate app name side t fresh with ⟨s1, res'⟩
      rw [hq] at k1; rw [hq, hs] at k2 k3
      simp only at k1 k2 k3
      subst k2 k3
      cases res with
      | ok m => exact ⟨k1.send _ _, rfl⟩
      | crowded => exact ⟨k1.sendError _ _, rfl⟩
      | reclaimed => exact ⟨k1.sendError _ _, rfl⟩
      | integrity => exact ⟨k1.internalErr _ _, rfl⟩

theorem handleRelease_spec {r : RSys} (h : r.RegInv) (x : RConn) (app side : String) (t : Time)
    (nameplate : Option String) :
    (r.handleRelease .fixed x app side t nameplate).RegInv ∧
    (r.handleRelease .fixed x app side t nameplate).abs =
      r.abs.handleRelease (absConn r.mbs x) app side t nameplate := by
  have go : ∀ name : String,
      (let r0 := r.updConn x.id (fun y => { y with didRelease := true })
       let p := r0.appOf .fixed x app
       match p.1.findNs p.2 with
       | none => p.1.dangling
       | some ns =>
         match p.1.core.releaseNameplate ns.app name side t with
         | (c1, true) => ({ p.1 with core := c1 } : RSys).send x.id .released
         | (c1, false) => ({ p.1 with core := c1 } : RSys).internalErr x.id "IndexError").RegInv ∧
      (let r0 := r.updConn x.id (fun y => { y with didRelease := true })
       let p := r0.appOf .fixed x app
       match p.1.findNs p.2 with
       | none => p.1.dangling
       | some ns =>
         match p.1.core.releaseNameplate ns.app name side t with
         | (c1, true) => ({ p.1 with core := c1 } : RSys).send x.id .released
         | (c1, false) => ({ p.1 with core := c1 } : RSys).internalErr x.id "IndexError").abs =
      (let s0 := r.abs.updConn x.id (fun y => { y with didRelease := true })
       match s0.releaseNameplate app name side t with
       | (s1, true) => s1.send x.id .released
       | (s1, false) => s1.internalErr x.id "IndexError") := by
    intro name
    dsimp only
    have h0 : (r.updConn x.id (fun y => { y with didRelease := true })).RegInv :=
      h.updConn_flags _ _ (fun _ => rfl) (fun _ => rfl) (fun _ => rfl) (fun _ => rfl)
    have a0 : (r.updConn x.id (fun y => { y with didRelease := true })).abs =
        r.abs.updConn x.id (fun y => { y with didRelease := true }) :=
      abs_updConn _ _ _ _ (fun _ _ _ => rfl)
    generalize r.updConn x.id (fun y => { y with didRelease := true }) = r0 at *
    rw [← a0, appOf_fixed]
    obtain ⟨ns, hf, e⟩ := getApp_findNs h0 app
    obtain ⟨j1, j2, _⟩ := getApp_spec h0 app
    rw [hf]
    dsimp only
    subst e
    have hs : (r0.getApp ns.app).1.abs.releaseNameplate ns.app name side t =
        (((r0.getApp ns.app).1.core.releaseNameplate ns.app name side t).1.setConns (r0.getApp ns.app).1.aconns,
          ((r0.getApp ns.app).1.core.releaseNameplate ns.app name side t).2) := by
      rw [abs_eq', Sys.releaseNameplate_setConns]
    rw [← j2, hs]
    rcases (r0.getApp ns.app).1.core.releaseNameplate ns.app name side t with ⟨c1, b⟩
    cases b
    · exact ⟨(j1.core c1).internalErr _ _, rfl⟩
    · exact ⟨(j1.core c1).send _ _, rfl⟩
  unfold handleRelease Sys.handleRelease
  simp only [absConn_didRelease, absConn_id, absConn_nameplateId]
  by_cases hd : x.didRelease = true
  · simp only [hd, if_true]
    exact ⟨h.sendError _ _, rfl⟩
  · simp only [hd, Bool.false_eq_true, if_false]
    cases nameplate <;> cases hnp : x.nameplateId <;> dsimp only
    · exact ⟨h.sendError _ _, rfl⟩
    · exact go _
    · exact go _
    · rename_i n held
      by_cases hne : n ≠ held
      · simp only [ne_eq] at hne ⊢
        simp only [hne, not_false_eq_true, if_true]
        exact ⟨h.sendError _ _, rfl⟩
      · simp only [ne_eq, Decidable.not_not] at hne ⊢
        simp only [hne, not_true_eq_false, if_false]
        exact go _

end RSys
end Wormhole

namespace Wormhole
namespace RSys

/-! ### open -/

theorem handleOpen_spec {r : RSys} (h : r.RegInv) {x : RConn} (hx : x ∈ r.conns) {app : String}
    (happ : x.app = some app) (side : String) (t : Time) (mailbox : Option String) :
    (r.handleOpen .fixed x app side t mailbox).RegInv ∧
    (r.handleOpen .fixed x app side t mailbox).abs = r.abs.handleOpen (absConn r.mbs x) app side t mailbox := by
  unfold handleOpen Sys.handleOpen
  simp only [appOf_fixed, absConn_id]
  have e := absConn_mailbox_isSome h hx
  by_cases hm : x.mailbox.isSome = true
  · have hm' : (absConn r.mbs x).mailbox.isSome = true := by rw [e]; exact hm
    simp only [hm, hm', if_true]
    exact ⟨h.sendError _ _, rfl⟩
  · have hm' : ¬ (absConn r.mbs x).mailbox.isSome = true := by rw [e]; exact hm
    simp only [hm, hm', Bool.false_eq_true, if_false]
    have hnone : x.mailbox = none := by
      cases e' : x.mailbox with
      | none => rfl
      | some o => simp [e'] at hm
    cases mailbox with
    | none => exact ⟨h.sendError _ _, rfl⟩
    | some mb =>
      dsimp only
      have h0 : (r.updConn x.id (fun y => { y with mailboxId := some mb })).RegInv :=
        h.updConn_flags _ _ (fun _ => rfl) (fun _ => rfl) (fun _ => rfl) (fun _ => rfl)
      have a0 : (r.updConn x.id (fun y => { y with mailboxId := some mb })).abs =
          r.abs.updConn x.id (fun y => { y with mailboxId := some mb }) :=
        abs_updConn _ _ _ _ (fun _ _ _ => rfl)
      have hx0 : ({ x with mailboxId := some mb } : RConn) ∈ (r.updConn x.id (fun y => { y with mailboxId := some mb })).conns :=
        List.mem_map.2 ⟨x, hx, by simp⟩
      generalize r.updConn x.id (fun y => { y with mailboxId := some mb }) = r0 at *
      rw [← a0]
      obtain ⟨j1, j2, j3, _, _, j6⟩ := getApp_spec h0 app
      obtain ⟨k1, k2, k3, k4, _, k6⟩ := openMailbox_spec j1 j6 mb side t
      rw [j2] at k2 k3
      rcases hq : (r0.getApp app).1.openMailbox (r0.getApp app).2 mb side t with ⟨r1, res, o⟩
      rcases hs : r0.abs.openMailbox app mb side t with ⟨s1, res'⟩
      rw [hq] at k1 k4 k6; rw [hq, hs] at k2 k3
      simp only at k1 k2 k3 k4 k6
      subst k2 k3
      cases res with
      | crowded => exact ⟨k1.sendError _ _, rfl⟩
      | integrity => exact ⟨k1.internalErr _ _, rfl⟩
      | ok =>
        dsimp only
        have hx1 : ({ x with mailboxId := some mb } : RConn) ∈ r1.conns := by rw [k4, j3]; exact hx0
        obtain ⟨m1, m2⟩ := subscribe_spec k1 hx1 hnone (app := app) (mb := mb) (o := o) happ (k6 rfl)
        have hreg2 : ((r1.updConn x.id (fun z => { z with mailbox := some o, listening := true })).addListener o
            x.id).Registered app mb o := k6 rfl
        obtain ⟨k, hk, ek1, ek2, ek3⟩ := hreg2.obj m1
        have hf := (findMb_eq_some m1).2 ⟨hk, ek1⟩
        rw [hf]
        dsimp only
        rw [ek2, ek3]
        refine ⟨m1.onCore _, ?_⟩
        rw [abs_onCore _ _ (by intro s cs; simp), m2]

/-! ### add -/

/-- the listener dict of a registered object is a permutation of `Sys.listeners` -/
theorem RegInv.listeners_perm {r : RSys} (h : r.RegInv) {k : MbObj} (hk : k ∈ r.mbs)
    (hreg : r.Registered k.app k.mailboxId k.oid) : k.listeners.Perm (r.abs.listeners k.app k.mailboxId) := by
  have hform : r.abs.listeners k.app k.mailboxId =
      (r.conns.filter (fun y => decide (y.listening = true ∧ y.app = some k.app ∧
        (absConn r.mbs y).mailbox = some k.mailboxId))).map (·.id) := by
    unfold Sys.listeners
    rw [abs_conns, aconns, List.filter_map, List.map_map]
    rfl
  rw [hform]
  apply (List.perm_ext_iff_of_nodup (h.lisNodup k hk) ?_).2
  · intro c
    simp only [List.mem_map, List.mem_filter, decide_eq_true_eq]
    constructor
    · intro hc
      obtain ⟨y, hy, e1, _⟩ := h.lisConn k hk c hc
      exact ⟨y, ⟨hy, (h.mem_listeners_iff hk hreg hy).1 (by rw [e1]; exact hc)⟩, e1⟩
    · rintro ⟨y, ⟨hy, hp⟩, rfl⟩
      exact (h.mem_listeners_iff hk hreg hy).2 hp
  · show List.Pairwise _ _
    rw [List.pairwise_map]
    exact List.Pairwise.filter _ h.connIds

theorem foldl_send (f : Frame) (ls : List Nat) : ∀ s : Sys,
    ls.foldl (fun s c => s.send c f) s = { s with out := s.out ++ ls.map (fun c => Event.frame c f s.synced) } := by
  induction ls with
  | nil => intro s; simp
  | cons c rest ih =>
    intro s
    rw [List.foldl_cons, ih]
    simp only [Sys.send, Sys.emit, Sys.synced, List.map_cons, List.append_assoc, List.singleton_append]
    rfl

theorem abs_broadcast (r : RSys) (ls : List Nat) (f : Frame) :
    (r.broadcast ls f).abs = ls.foldl (fun s c => s.send c f) r.abs := by
  unfold broadcast
  induction ls generalizing r with
  | nil => rfl
  | cons c rest ih => simp only [List.foldl_cons]; rw [ih, abs_send]

theorem RegInv.broadcast {r : RSys} (h : r.RegInv) (ls : List Nat) (f : Frame) : (r.broadcast ls f).RegInv := by
  unfold RSys.broadcast
  induction ls generalizing r with
  | nil => exact h
  | cons c rest ih => simp only [List.foldl_cons]; exact ih (h.send c f)

/-- `handle_add`: same state; the broadcast batch in the listener-dict order -/
theorem handleAdd_spec {r : RSys} (h : r.RegInv) {x : RConn} (hx : x ∈ r.conns) {app : String}
    (happ : x.app = some app) (hl : x.mailbox.isSome → x.listening = true) (side : String) (t : Time) (id : Val)
    (phase body : Option Val) :
    (r.handleAdd x side t id phase body).RegInv ∧
    OutEq (r.handleAdd x side t id phase body).abs (r.abs.handleAdd (absConn r.mbs x) app side t id phase body) := by
  unfold handleAdd Sys.handleAdd
  simp only [absConn_id]
  cases hm : x.mailbox with
  | none =>
    rw [absConn_mailbox_none hm]
    exact ⟨h.sendError _ _, .refl _⟩
  | some o =>
    obtain ⟨k, hk, rfl, ha⟩ := h.heldObj x hx o hm
    rw [absConn_mailbox_eq h hk hm]
    dsimp only
    cases phase with
    | none => exact ⟨h.sendError _ _, .refl _⟩
    | some ph =>
      cases body with
      | none => exact ⟨h.sendError _ _, .refl _⟩
      | some bd =>
        dsimp only
        rw [(findMb_eq_some h).2 ⟨hk, rfl⟩]
        dsimp only
        have hka : k.app = app := by rw [happ] at ha; exact (Option.some.inj ha).symm
        subst hka
        have hreg := h.heldReg x hx k hk hm (hl (by simp [hm]))
        have h1 := h.onCore (fun s => s.addMessage k.app k.mailboxId side ph bd t id)
        have a1 : (r.onCore (fun s => s.addMessage k.app k.mailboxId side ph bd t id)).abs =
            r.abs.addMessage k.app k.mailboxId side ph bd t id := abs_onCore _ _ (by intro s cs; simp)
        have hk1 : k ∈ (r.onCore (fun s => s.addMessage k.app k.mailboxId side ph bd t id)).mbs := hk
        have hreg1 : (r.onCore (fun s => s.addMessage k.app k.mailboxId side ph bd t id)).Registered k.app
            k.mailboxId k.oid := hreg
        rw [← a1]
        generalize r.onCore (fun s => s.addMessage k.app k.mailboxId side ph bd t id) = r1 at *
        refine ⟨h1.broadcast _ _, ?_⟩
        rw [abs_broadcast]
        unfold Sys.broadcast
        rw [foldl_send, foldl_send]
        have hb := TraceEq.batch (.message side ph bd t id) r1.abs.synced (a := []) (b := []) rfl
          (h1.listeners_perm hk1 hreg1) TraceEq.nil
        simp only [List.append_nil] at hb
        exact ⟨rfl, (TraceEq.refl _).append hb⟩

end RSys
end Wormhole

namespace Wormhole
namespace RSys

/-! ### close -/

theorem absConn_hold' {mbs : List MbObj} {o : Nat} {mb : String} (hmb : mbIdOf mbs o = some mb) (y : RConn) :
    absConn mbs { y with mailbox := some o } = { absConn mbs y with mailbox := some mb } := by
  have := absConn_hold hmb y y.listening
  exact this

/-- the end of `handle_close`: `self._mailbox.close(...)`, `self._mailbox = None`, the answer -/
theorem closeFinish_spec {r2 : RSys} (h2 : r2.RegInv) {k : MbObj} (hk : k ∈ r2.mbs)
    (hreg : r2.Registered k.app k.mailboxId k.oid) (c : Nat) (hnl : ∀ y ∈ r2.conns, y.id = c → y.listening = false)
    (side : String) (mood : Option String) (t : Time) :
    (match r2.mailboxClose .fixed k.oid side mood t with
      | (r3, false) => r3.internalErr c "IndexError"
      | (r3, true) => (r3.updConn c (fun y => { y with mailbox := none })).send c .closed).RegInv ∧
    (match r2.mailboxClose .fixed k.oid side mood t with
      | (r3, false) => r3.internalErr c "IndexError"
      | (r3, true) => (r3.updConn c (fun y => { y with mailbox := none })).send c .closed).abs =
    (match r2.abs.mailboxClose k.app k.mailboxId side mood t with
      | (s3, false) => s3.internalErr c "IndexError"
      | (s3, true) => (s3.updConn c (fun y => { y with mailbox := none })).send c .closed) := by
  obtain ⟨k1, k2, k3, k4⟩ := mailboxClose_spec h2 hk hreg side mood t
  rcases hq : r2.mailboxClose .fixed k.oid side mood t with ⟨r3, b⟩
  rcases hs : r2.abs.mailboxClose k.app k.mailboxId side mood t with ⟨s3, b'⟩
  rw [hq] at k1 k4; rw [hq, hs] at k2 k3
  simp only at k1 k2 k3 k4
  subst k2 k3
  cases b
  · exact ⟨k1.internalErr _ _, rfl⟩
  · dsimp only
    refine ⟨(k1.updConn_unhold c (fun y => { y with mailbox := none }) (fun _ => rfl) ?_).send _ _, ?_⟩
    · intro y hy e
      refine ⟨?_, rfl⟩
      cases hyl : y.listening with
      | false => rfl
      | true =>
        obtain ⟨y0, hy0, e0, l0⟩ := k4 y hy hyl
        have := hnl y0 hy0 (by rw [e0, e])
        rw [this] at l0; cases l0
    · rw [abs_send, abs_updConn _ _ _ (fun y => { y with mailbox := none }) (fun _ _ _ => rfl)]

theorem handleClose_spec {r : RSys} (h : r.RegInv) {x : RConn} (hx : x ∈ r.conns) {app : String}
    (happ : x.app = some app) (hcoh : x.mailbox.isSome = true ↔ x.listening = true) (side : String) (t : Time)
    (mailbox : Option String) (mood : Option String) :
    (r.handleClose .fixed x app side t mailbox mood).RegInv ∧
    (r.handleClose .fixed x app side t mailbox mood).abs =
      r.abs.handleClose (absConn r.mbs x) app side t mailbox mood := by
  have hxu : ∀ y ∈ r.conns, y.id = x.id → y = x := fun y hy e => pw_eq (f := RConn.id) h.connIds hy hx e
  have go : ∀ mb : String,
      (match (match x.mailbox with
          | some hh => (r, Sys.OpenRes.ok, hh)
          | none =>
            match (r.appOf .fixed x app).1.openMailbox (r.appOf .fixed x app).2 mb side t with
            | (r1, res, o) => (r1.updConn x.id (fun y => if res = Sys.OpenRes.ok then { y with mailbox := some o } else y), res, o)) with
        | (r1, .crowded, _) => r1.sendError x.id "crowded"
        | (r1, .integrity, _) => r1.internalErr x.id "IntegrityError"
        | (r1, .ok, hh) =>
          match (((if x.listening then r1.removeListener hh x.id else r1)).updConn x.id
            (fun y => { y with listening := false, didClose := true })).mailboxClose .fixed hh side mood t with
          | (r3, false) => r3.internalErr x.id "IndexError"
          | (r3, true) => (r3.updConn x.id (fun y => { y with mailbox := none })).send x.id .closed).RegInv ∧
      (match (match x.mailbox with
          | some hh => (r, Sys.OpenRes.ok, hh)
          | none =>
            match (r.appOf .fixed x app).1.openMailbox (r.appOf .fixed x app).2 mb side t with
            | (r1, res, o) => (r1.updConn x.id (fun y => if res = Sys.OpenRes.ok then { y with mailbox := some o } else y), res, o)) with
        | (r1, .crowded, _) => r1.sendError x.id "crowded"
        | (r1, .integrity, _) => r1.internalErr x.id "IntegrityError"
        | (r1, .ok, hh) =>
          match (((if x.listening then r1.removeListener hh x.id else r1)).updConn x.id
            (fun y => { y with listening := false, didClose := true })).mailboxClose .fixed hh side mood t with
          | (r3, false) => r3.internalErr x.id "IndexError"
          | (r3, true) => (r3.updConn x.id (fun y => { y with mailbox := none })).send x.id .closed).abs =
      (match (match (absConn r.mbs x).mailbox with
          | some hh => (r.abs, Sys.OpenRes.ok, hh)
          | none =>
            match r.abs.openMailbox app mb side t with
            | (s1, res) => (s1.updConn x.id (fun y => if res = Sys.OpenRes.ok then { y with mailbox := some mb } else y), res, mb)) with
        | (s1, .crowded, _) => s1.sendError x.id "crowded"
        | (s1, .integrity, _) => s1.internalErr x.id "IntegrityError"
        | (s1, .ok, hh) =>
          match (s1.updConn x.id (fun y => { y with listening := false, didClose := true })).mailboxClose app hh side
              mood t with
          | (s3, false) => s3.internalErr x.id "IndexError"
          | (s3, true) => (s3.updConn x.id (fun y => { y with mailbox := none })).send x.id .closed) := by
    intro mb
    cases hm : x.mailbox with
    | some o =>
      obtain ⟨k, hk, rfl, ha⟩ := h.heldObj x hx o hm
      have hka : k.app = app := by rw [happ] at ha; exact (Option.some.inj ha).symm
      subst hka
      have hlis : x.listening = true := hcoh.1 (by simp [hm])
      have hreg := h.heldReg x hx k hk hm hlis
      rw [absConn_mailbox_eq h hk hm]
      dsimp only
      simp only [hlis, if_true]
      have h2 := unlisten_spec h hx hm (fun y => { y with listening := false, didClose := true }) (fun _ => rfl)
        (fun _ => rfl) (fun _ => rfl) (fun _ => rfl)
      simp only [hlis, if_true] at h2
      have a2 : ((r.removeListener k.oid x.id).updConn x.id (fun y => { y with listening := false, didClose := true })).abs =
          r.abs.updConn x.id (fun y => { y with listening := false, didClose := true }) := by
        rw [abs_updConn _ _ _ (fun y => { y with listening := false, didClose := true }) (fun _ _ _ => rfl),
          abs_removeListener]
      rw [← a2]
      let k' : MbObj := { k with listeners := k.listeners.filter (fun d => ¬ d = x.id) }
      have hk' : k' ∈ ((r.removeListener k.oid x.id).updConn x.id
          (fun y => { y with listening := false, didClose := true })).mbs :=
        List.mem_map.2 ⟨k, hk, by simp [k']⟩
      have hreg' : ((r.removeListener k.oid x.id).updConn x.id
          (fun y => { y with listening := false, didClose := true })).Registered k'.app k'.mailboxId k'.oid := hreg
      exact closeFinish_spec h2 hk' hreg' x.id (by
        intro y hy e
        obtain ⟨y0, _, rfl⟩ := List.mem_map.1 hy
        split at e <;> simp_all) side mood t
    | none =>
      rw [absConn_mailbox_none hm]
      dsimp only
      have hnl : x.listening = false := by
        cases e : x.listening with
        | false => rfl
        | true => have := hcoh.2 e; simp [hm] at this
      rw [appOf_fixed]
      obtain ⟨j1, j2, j3, _, _, j6⟩ := getApp_spec h app
      obtain ⟨m1, m2, m3, m4, _, m6⟩ := openMailbox_spec j1 j6 mb side t
      rw [j2] at m2 m3
      rcases hq : (r.getApp app).1.openMailbox (r.getApp app).2 mb side t with ⟨r1, res, o⟩
      rcases hs : r.abs.openMailbox app mb side t with ⟨s1, res'⟩
      rw [hq] at m1 m4 m6; rw [hq, hs] at m2 m3
      simp only at m1 m2 m3 m4 m6
      subst m2 m3
      have hx1 : x ∈ r1.conns := by rw [m4, j3]; exact hx
      have hxu1 : ∀ y ∈ r1.conns, y.id = x.id → y = x := by rw [m4, j3]; exact hxu
      cases res with
      | crowded =>
        dsimp only
        refine ⟨(m1.updConn_flags x.id _ ?_ ?_ ?_ ?_).sendError _ _, ?_⟩
        · intro y; simp
        · intro y; simp
        · intro y; simp
        · intro y; simp
        · rw [abs_sendError, abs_updConn _ _ _ (fun y => if Sys.OpenRes.crowded = Sys.OpenRes.ok then { y with mailbox := some mb } else y)
            (by intro y _ _; simp)]
      | integrity =>
        dsimp only
        refine ⟨(m1.updConn_flags x.id _ ?_ ?_ ?_ ?_).internalErr _ _, ?_⟩
        · intro y; simp
        · intro y; simp
        · intro y; simp
        · intro y; simp
        · rw [abs_internalErr, abs_updConn _ _ _ (fun y => if Sys.OpenRes.integrity = Sys.OpenRes.ok then { y with mailbox := some mb } else y)
            (by intro y _ _; simp)]
      | ok =>
        simp only [if_true, hnl, Bool.false_eq_true, if_false]
        obtain ⟨k, hk, ek1, ek2, ek3⟩ := (m6 rfl).obj m1
        subst ek1
        -- `self._mailbox = <the registered object>` on a connection that holds nothing and does not listen
        have h1' : (r1.updConn x.id (fun y => { y with mailbox := some k.oid })).RegInv := by
          refine m1.updConn x.id _ (fun _ => rfl) ?_
          intro y hy e
          have := hxu1 y hy e; subst this
          refine ⟨?_, ?_, ?_, ?_⟩
          · intro o' e'
            simp only [Option.some.injEq] at e'
            subst e'
            exact ⟨k, hk, rfl, by simp only; rw [happ, ek2]⟩
          · intro k2 _ _ hl
            simp only [hnl] at hl
            cases hl
          · intro k2 hk2 _
            simp only [hnl, Bool.false_eq_true, iff_false]
            exact m1.not_listener_of_no_mailbox hy hm hk2
          · intro k2 hk2 hc
            exact absurd hc (m1.not_listener_of_no_mailbox hy hm hk2)
        have a1' : (r1.updConn x.id (fun y => { y with mailbox := some k.oid })).abs =
            r1.abs.updConn x.id (fun y => { y with mailbox := some mb }) := by
          apply abs_updConn
          intro y _ _
          exact absConn_hold' (by rw [mbIdOf_eq m1 hk, ek3]) y
        have hx1' : ({ x with mailbox := some k.oid } : RConn) ∈ (r1.updConn x.id (fun y => { y with mailbox := some k.oid })).conns :=
          List.mem_map.2 ⟨x, hx1, by simp⟩
        have h2 := unlisten_spec h1' hx1' (o := k.oid) rfl (fun y => { y with listening := false, didClose := true })
          (fun _ => rfl) (fun _ => rfl) (fun _ => rfl) (fun _ => rfl)
        simp only [hnl, Bool.false_eq_true, if_false] at h2
        have a2 : ((r1.updConn x.id (fun y => { y with mailbox := some k.oid })).updConn x.id
            (fun y => { y with listening := false, didClose := true })).abs =
            (r1.abs.updConn x.id (fun y => { y with mailbox := some mb })).updConn x.id
              (fun y => { y with listening := false, didClose := true }) := by
          rw [abs_updConn _ _ _ (fun y => { y with listening := false, didClose := true }) (fun _ _ _ => rfl), a1']
        rw [← a2]
        have hk2 : k ∈ ((r1.updConn x.id (fun y => { y with mailbox := some k.oid })).updConn x.id
            (fun y => { y with listening := false, didClose := true })).mbs := hk
        have hreg2 : ((r1.updConn x.id (fun y => { y with mailbox := some k.oid })).updConn x.id
            (fun y => { y with listening := false, didClose := true })).Registered k.app k.mailboxId k.oid := by
          rw [ek2, ek3]; exact m6 rfl
        have := closeFinish_spec h2 hk2 hreg2 x.id (by
          intro y hy e
          obtain ⟨y0, _, rfl⟩ := List.mem_map.1 hy
          split at e <;> simp_all) side mood t
        rw [ek2, ek3] at this
        exact this
  unfold handleClose Sys.handleClose
  simp only [absConn_didClose, absConn_id, absConn_mailboxId]
  by_cases hd : x.didClose = true
  · simp only [hd, if_true]
    exact ⟨h.sendError _ _, rfl⟩
  · simp only [hd, Bool.false_eq_true, if_false]
    cases mailbox <;> cases hmi : x.mailboxId <;> dsimp only
    · exact ⟨h.sendError _ _, rfl⟩
    · exact go _
    · exact go _
    · rename_i m held
      by_cases hne : m = held
      · simp only [ne_eq, hne, not_true_eq_false, if_false]
        exact go _
      · simp only [ne_eq, hne, not_false_eq_true, if_true]
        exact ⟨h.sendError _ _, rfl⟩

end RSys
end Wormhole
