/-
  C14 (re-sending an acknowledged command), part 2: the functions of Core.lean called a second
  time with the same arguments on the database the first call left.

  * `openMailbox_again`       `open_mailbox` answered `ok`  ⇒ a second call answers `ok`, database unchanged
  * `claimNameplate_ok_done`  what a claim answered `ok m` leaves behind (`Chan.ClaimDone`) — in particular
                              at most two side rows on the nameplate and on the mailbox, so the
                              K-crowded-rejoin guard is IMPLIED for an immediate re-send
  * `claimNameplate_again`    ... ⇒ a second call (any `fresh`) answers `ok m`, database unchanged
  * `releaseNameplate_again`  a second `release_nameplate` returns `true`, database unchanged
  * `Chan.closeDb_openDb_gone`, `Chan.closeDb_openDb_survived`
                              `open_mailbox` followed by `Mailbox.close` — what `handle_close` does on a
                              fresh connection — on the database an earlier close left: unchanged if
                              that close deleted the mailbox, `touch m t` of it if the mailbox survived
                              (finding K-close-touch)
-/
import Wormhole.Inv.DupChan

namespace Wormhole
namespace Sys

/-! ### open -/

/-- **`open_mailbox` twice.**  If `open_mailbox(a, m, σ, t)` answered `ok` (state `s1`), then on
    every state with the database of `s1` a second `open_mailbox(a, m, σ, t)` answers `ok` again and
    leaves the channel database, the connection records, the usage database and the
    configuration as they are.  (The guard "at most two side rows" holds because the first call
    checked it.) -/
theorem openMailbox_again {s s1 s' : Sys} {a m σ : String} {t : Time} (hP : s.db.PInv)
    (h : s.openMailbox a m σ t = (s1, .ok)) (hdb : s'.db = s1.db) :
    s1.db = s.db.openDb a m σ t ∧ (s1.db.mbSidesOf m).length ≤ 2 ∧
    ∃ s2, s'.openMailbox a m σ t = (s2, .ok) ∧ s2.db = s'.db ∧ s2.disk = s2.db ∧ SameRest s' s2 := by
  obtain ⟨hint, _, hne, hcrowd⟩ := openMailbox_exact hP h
  have hnc : ¬ s.db.Clash a m := fun hc => by cases hint.2 hc
  obtain ⟨hdb1, _, _⟩ := hne (by simp)
  have hlen : ¬ ((s.db.openDb a m σ t).mbSidesOf m).length > 2 := fun hl => by cases hcrowd.2 ⟨hnc, hl⟩
  have hP1 : s'.db.PInv := by rw [hdb, hdb1]; exact hP.openDb σ t hnc
  refine ⟨hdb1, by rw [hdb1]; omega, ?_⟩
  cases e : s'.openMailbox a m σ t with
  | mk s2 r2 =>
    obtain ⟨hint2, _, hne2, hcrowd2⟩ := openMailbox_exact hP1 e
    have hbox : s'.db.HasBox a m := by rw [hdb, hdb1]; exact Chan.openDb_hasBox _ _ _ _ _
    have hnc2 : ¬ s'.db.Clash a m := fun hc => hc.2 hbox
    have hidem : s'.db.openDb a m σ t = s'.db := by rw [hdb, hdb1]; exact Chan.openDb_idem _ _ _ _ _
    have hr2 : r2 = .ok := by
      cases r2 with
      | ok => rfl
      | integrity => exact absurd (hint2.1 rfl) hnc2
      | crowded =>
        have := (hcrowd2.1 rfl).2
        rw [hidem, hdb, hdb1] at this
        exact absurd this hlen
    subst hr2
    obtain ⟨e1, e2, e3⟩ := hne2 (by simp)
    exact ⟨s2, rfl, by rw [e1, hidem], e2, e3⟩

/-- a successful `open_mailbox` stamps every row with that id -/
theorem openMailbox_ok_touched {s s1 : Sys} {a m σ : String} {t : Time}
    (e : s.openMailbox a m σ t = (s1, .ok)) : ∀ r ∈ s1.db.mailboxes, r.id = m → r.updated = t := by
  unfold openMailbox at e
  split at e
  · cases e
  · rename_i s0 e0
    dsimp only at e
    split at e
    · cases e
    · simp only [Prod.mk.injEq, and_true] at e
      subst e
      intro r hr hid
      simp only [commit_db, mailboxOpen_db, Chan.touch, List.mem_map] at hr
      obtain ⟨r0, _, rfl⟩ := hr
      by_cases hc : r0.id = m
      · simp [hc]
      · rw [if_neg hc] at hid
        exact absurd hid hc

/-! ### claim -/

/-- a claim answered `ok` went through the continuation with the nameplate row in place and the
    caller's side row claimed -/
theorem claimNameplate_ok_cont {s s1 : Sys} {a n σ : String} {t : Time} {f m : String}
    (h : s.claimNameplate a n σ t f = (s1, .ok m)) :
    ∃ s2 npid mb, claimCont s2 a npid mb σ t = (s1, .ok m) ∧
      (∃ row ∈ s2.db.nameplates, row.id = npid ∧ row.app = a ∧ row.name = n ∧ row.mailbox = mb) ∧
      (∃ r ∈ s2.db.npSides, r.npid = npid ∧ r.side = σ ∧ r.claimed = true) := by
  unfold claimNameplate at h
  split at h
  · split at h
    · cases h
    · rename_i s0 e0
      dsimp only at h
      rw [claimTail_eq] at h
      split at h
      · exact ⟨_, _, _, h, ⟨⟨s0.db.nextNp, a, n, f⟩, by simp [Chan.insNpSide, Chan.insNameplate], rfl, rfl, rfl, rfl⟩,
          ⟨⟨s0.db.nextNp, true, σ, t⟩, by simp [Chan.insNpSide], rfl, rfl, rfl⟩⟩
      · rename_i r hr
        have hr' := List.find?_some hr
        simp only [decide_eq_true_eq] at hr'
        split at h
        · rename_i hc
          exact ⟨_, _, _, h, ⟨⟨s0.db.nextNp, a, n, f⟩, by simp [Chan.insNameplate], rfl, rfl, rfl, rfl⟩,
            ⟨r, List.mem_of_find?_eq_some hr, hr'.1, hr'.2, hc⟩⟩
        · cases h
  · rename_i row hrow
    have hmem : row ∈ s.db.nameplates := List.mem_of_find?_eq_some hrow
    have hk := List.find?_some hrow
    simp only [decide_eq_true_eq] at hk
    rw [claimTail_eq] at h
    split at h
    · exact ⟨_, _, _, h, ⟨row, hmem, rfl, hk.1, hk.2, rfl⟩,
        ⟨⟨row.id, true, σ, t⟩, by simp [Chan.insNpSide], rfl, rfl, rfl⟩⟩
    · rename_i r hr
      have hr' := List.find?_some hr
      simp only [decide_eq_true_eq] at hr'
      split at h
      · rename_i hc
        exact ⟨_, _, _, h, ⟨row, hmem, rfl, hk.1, hk.2, rfl⟩,
          ⟨r, List.mem_of_find?_eq_some hr, hr'.1, hr'.2, hc⟩⟩
      · cases h

/-- the continuation answered `ok`: `open_mailbox` answered `ok` and the nameplate has at most two
    side rows -/
theorem claimCont_ok_open {s s1 : Sys} {a : String} {npid : Nat} {mb σ : String} {t : Time} {m : String}
    (h : claimCont s a npid mb σ t = (s1, .ok m)) :
    s.commit.openMailbox a mb σ t = (s1, .ok) ∧ m = mb ∧ (s1.db.npSidesOf npid).length ≤ 2 := by
  unfold claimCont at h
  dsimp only at h
  split at h
  · cases h
  · cases h
  · rename_i s3 e
    split at h
    · cases h
    · simp only [Prod.mk.injEq, ClaimRes.ok.injEq] at h
      obtain ⟨rfl, rfl⟩ := h
      exact ⟨e, rfl, by omega⟩

end Sys

/-- what a claim of `(a, n)` by side `σ` at `t` answered `ok m` leaves in the database -/
structure Chan.ClaimDone (d : Chan) (a n σ m : String) (t : Time) : Prop where
  /-- the nameplate row points at `m`; the side's row on it is claimed; at most two side rows -/
  row : ∃ row, d.findNameplate a n = some row ∧ row.mailbox = m ∧
    (∃ r, d.findNpSide row.id σ = some r ∧ r.claimed = true) ∧ (d.npSidesOf row.id).length ≤ 2
  box : d.HasBox a m
  side : d.findMbSide m σ ≠ none
  stamped : ∀ r ∈ d.mailboxes, r.id = m → r.updated = t
  /-- the guard of K-crowded-rejoin, implied by the answer `ok` -/
  two : (d.mbSidesOf m).length ≤ 2

namespace Sys

/-- **what `claimed m` guarantees about the database afterwards** (`hP1`: the database after the
    call satisfies the invariant, as it does after the whole step by `GInv.step`) -/
theorem claimNameplate_ok_done {s s1 : Sys} {a n σ : String} {t : Time} {f m : String} (hP1 : s1.db.PInv)
    (h : s.claimNameplate a n σ t f = (s1, .ok m)) : s1.db.ClaimDone a n σ m t := by
  obtain ⟨s2, npid, mb, hc, ⟨row, hrow, hid, hra, hrn, hrm⟩, ⟨r, hr, hri, hrs, hrc⟩⟩ := claimNameplate_ok_cont h
  obtain ⟨eo, hm, hlen⟩ := claimCont_ok_open hc
  subst hm
  obtain ⟨_, hpart, _, hmlen, hside⟩ := claimCont_ok hc
  simp only [Chan.npPart, Prod.mk.injEq] at hpart
  obtain ⟨hp1, hp2, _⟩ := hpart
  have hrow1 : row ∈ s1.db.nameplates := by rw [hp1]; exact hrow
  have hr1 : r ∈ s1.db.npSides := by rw [hp2]; exact hr
  -- the look-ups
  obtain ⟨row', hf⟩ : ∃ row', s1.db.findNameplate a n = some row' := by
    cases hf : s1.db.findNameplate a n with
    | some row' => exact ⟨row', rfl⟩
    | none => exact absurd ⟨hra, hrn⟩ (Chan.findNameplate_none_spec hf row hrow1)
  obtain ⟨k1, k2, k3⟩ := Chan.findNameplate_spec hf
  have hrr : row' = row := hP1.np_eq_of_key k1 hrow1 (k2.trans hra.symm) (k3.trans hrn.symm)
  subst hrr
  obtain ⟨r', hf2⟩ : ∃ r', s1.db.findNpSide row'.id σ = some r' := by
    cases hf2 : s1.db.findNpSide row'.id σ with
    | some r' => exact ⟨r', rfl⟩
    | none =>
      simp only [Chan.findNpSide, List.find?_eq_none, decide_eq_true_eq] at hf2
      exact absurd ⟨hri.trans hid.symm, hrs⟩ (hf2 r hr1)
  obtain ⟨j1, j2, j3⟩ := Chan.findNpSide_spec hf2
  have hrr' : r' = r := hP1.ns_eq_of_key j1 hr1 (j2.trans (hri.trans hid.symm).symm) (j3.trans hrs.symm)
  subst hrr'
  refine ⟨⟨row', hf, hrm, ⟨r', hf2, hrc⟩, by rw [hid]; exact hlen⟩, ?_, ?_, openMailbox_ok_touched eo, hmlen⟩
  · obtain ⟨mr, hmr, e1, e2⟩ := hP1.npMb row' hrow1
    exact ⟨mr, hmr, e2.trans hra, e1.trans hrm⟩
  · intro hnone
    simp only [Chan.sidesOf, Chan.mbSidesOf, List.mem_map, List.mem_filter, decide_eq_true_eq] at hside
    obtain ⟨sr, ⟨hsr, e1⟩, e2⟩ := hside
    exact Chan.findMbSide_eq_none.1 hnone sr hsr ⟨e1, e2⟩

/-- **`claim_nameplate` twice.**  On a database in the state a successful claim left
    (`ClaimDone`), a second `claim_nameplate(a, n, σ, t)` — with ANY generated id `f'`, which is not
    used — answers `ok m` again and leaves the database and the connection records unchanged. -/
theorem claimNameplate_again {s' : Sys} {a n σ m : String} {t : Time} (hP : s'.db.PInv)
    (hD : s'.db.ClaimDone a n σ m t) (f' : String) :
    ∃ s2, s'.claimNameplate a n σ t f' = (s2, .ok m) ∧ s2.db = s'.db ∧ s2.conns = s'.conns := by
  obtain ⟨row, hrow, hm, ⟨r, hr, hcl⟩, hlen⟩ := hD.row
  obtain ⟨sr, hsr⟩ : ∃ sr, s'.db.findMbSide m σ = some sr := by
    cases hf : s'.db.findMbSide m σ with
    | some sr => exact ⟨sr, rfl⟩
    | none => exact absurd hf hD.side
  cases e : s'.claimNameplate a n σ t f' with
  | mk s2 r2 =>
    rcases Np.claimNameplate_present hP hrow e with ⟨r0, h0, hf, _, _⟩ | ⟨_, e1, e2, e3⟩
    · rw [hr] at h0; cases h0
      rw [hcl] at hf; cases hf
    · have hself : s'.db.npClaim row.id row.mailbox σ t = s'.db := by
        unfold Chan.npClaim Chan.npOpen
        rw [hr, hm]
        dsimp only
        rw [hsr]
        exact Chan.touch_eq_self hD.stamped
      rw [hself] at e1
      refine ⟨s2, ?_, e1, e2⟩
      rw [e3, e1]
      unfold Chan.npClaimRes
      rw [hm, if_neg (by have := hD.two; omega), if_neg (by omega)]

/-! ### release -/

/-- **`release_nameplate` twice.**  Whatever the first call did — nothing (no such nameplate, no row
    of this side), `claimed := false` on the side's row with another side still claiming, or the
    deletion of the nameplate — a second call (at any time `t'`) on a state with the resulting
    database returns normally and leaves the database and the connection records unchanged. -/
theorem releaseNameplate_again {s s1 s' : Sys} {a n σ : String} {t t' : Time} {b : Bool} (hP : s.db.PInv)
    (h : s.releaseNameplate a n σ t = (s1, b)) (hdb : s'.db = s1.db) :
    ∃ s2, s'.releaseNameplate a n σ t' = (s2, true) ∧ s2.db = s'.db ∧ s2.conns = s'.conns := by
  obtain ⟨_, _, hcases⟩ := Np.releaseNameplate_exact h
  cases e : s'.releaseNameplate a n σ t' with
  | mk s2 b2 =>
    obtain ⟨hb2, hconns2, hcases2⟩ := Np.releaseNameplate_exact e
    subst hb2
    refine ⟨s2, rfl, ?_, hconns2⟩
    rcases hcases with ⟨h0, hs⟩ | ⟨np, h1, h2, hs⟩ | ⟨np, r0, h1, h2, h3⟩
    · -- no such nameplate
      rw [hs] at hdb
      rcases hcases2 with ⟨_, hs2⟩ | ⟨_, _, _, hs2⟩ | ⟨np', r0', h1', _⟩
      · rw [hs2]
      · rw [hs2]
      · rw [hdb, h0] at h1'; cases h1'
    · -- no row of this side
      rw [hs] at hdb
      rcases hcases2 with ⟨_, hs2⟩ | ⟨_, _, _, hs2⟩ | ⟨np', r0', h1', h2', _⟩
      · rw [hs2]
      · rw [hs2]
      · rw [hdb, h1] at h1'; cases h1'
        rw [hdb, h2] at h2'; cases h2'
    · rcases h3 with ⟨hany, hd1, _⟩ | ⟨hany, hd1, _, _⟩
      · -- unclaimed, the nameplate stays
        rw [hd1] at hdb
        have hfn : s'.db.findNameplate a n = some np := by rw [hdb]; exact h1
        have hfs : s'.db.findNpSide np.id σ ≠ none := by
          rw [hdb, Chan.findNpSide_unclaim, h2]; simp
        rcases hcases2 with ⟨h0', _⟩ | ⟨np', h1', h2', _⟩ | ⟨np', r0', h1', h2', h3'⟩
        · rw [hfn] at h0'; cases h0'
        · rw [hfn] at h1'; cases h1'
          exact absurd h2' hfs
        · rw [hfn] at h1'; cases h1'
          rcases h3' with ⟨_, hd2, _⟩ | ⟨hany2, _⟩
          · rw [hd2, hdb, Chan.unclaim_unclaim]
          · rw [hdb, Chan.unclaim_unclaim, hany] at hany2; cases hany2
      · -- the nameplate was deleted
        rw [hd1] at hdb
        obtain ⟨m1, m2, m3⟩ := Chan.findNameplate_spec h1
        have hfn : s'.db.findNameplate a n = none := by
          rw [hdb]
          simp only [Chan.findNameplate, Chan.delNameplate, Chan.delNpSidesOf, Chan.unclaim,
            List.find?_eq_none, List.mem_filter, decide_eq_true_eq]
          rintro row ⟨hrow, hne⟩ ⟨ha, hn⟩
          exact hne (by rw [hP.np_eq_of_key hrow m1 (ha.trans m2.symm) (hn.trans m3.symm)])
        rcases hcases2 with ⟨_, hs2⟩ | ⟨np', h1', _⟩ | ⟨np', r0', h1', _⟩
        · rw [hs2]
        · rw [hfn] at h1'; cases h1'
        · rw [hfn] at h1'; cases h1'

end Sys

/-! ### close: `open_mailbox` then `Mailbox.close` on the database an earlier close left -/

namespace Chan

/-- the mailbox row is gone (the earlier close deleted it): the implicit open of the re-sent close
    re-creates mailbox row and side row, `Mailbox.close` deletes them again -/
theorem closeDb_openDb_gone {d : Chan} (hP : d.PInv) {a m σ : String} {mood : Option String} {t : Time}
    (hgone : ¬ d.HasId m) : (d.openDb a m σ t).closeDb a m σ mood = d := by
  have hno : ¬ (d.openDb a m σ t).OtherOpen m σ := by
    rw [otherOpen_openDb]
    rintro ⟨r, hr, hk, _⟩
    obtain ⟨m0, hm0, hi⟩ := hP.msFk r hr
    exact hgone ⟨m0, hm0, hi.trans hk⟩
  unfold closeDb
  rw [if_pos ⟨openDb_hasBox _ _ _ _ _, openDb_findMbSide_ne_none _ _ _ _ _⟩, if_neg hno, dropMailbox_openDb,
    dropMailbox_eq_self hP hgone]

/-- what a close by side `σ` of mailbox `(a, m)` with mood `mood` leaves when another side is
    still open: the row exists, the side's row says `opened = false, mood = mood` -/
structure CloseSurvived (d : Chan) (a m σ : String) (mood : Option String) : Prop where
  box : d.HasBox a m
  own : d.findMbSide m σ ≠ none
  closed : ∀ r ∈ d.mbSides, r.mailbox = m → r.side = σ → r.opened = false ∧ r.mood = mood
  other : d.OtherOpen m σ

/-- `closeSide` while another side is open establishes `CloseSurvived` -/
theorem CloseSurvived.of_closeSide {d : Chan} {a m σ : String} {mood : Option String} (h1 : d.HasBox a m)
    (h2 : d.findMbSide m σ ≠ none) (h3 : d.OtherOpen m σ) : (d.closeSide m σ mood).CloseSurvived a m σ mood :=
  ⟨h1, closeSide_findMbSide_ne_none.2 h2, closeSide_closed d m σ mood, closeSide_otherOpen.2 h3⟩

/-- the mailbox survived the earlier close (another side still open): the implicit open of the
    re-sent close finds row and side row and STAMPS the row (K-close-touch); `Mailbox.close`
    rewrites `opened = false, mood` to the same values.  Result: `touch m t` of the database. -/
theorem closeDb_openDb_survived {d : Chan} (hids : d.mailboxes.Pairwise (fun a b => ¬ a.id = b.id))
    {a m σ : String} {mood : Option String} {t : Time} (h : d.CloseSurvived a m σ mood) :
    (d.openDb a m σ t).closeDb a m σ mood = d.touch m t := by
  have ho : d.openDb a m σ t = d.touch m t := openDb_eq_touch hids h.box h.own
  have hb : (d.touch m t).HasBox a m := by rw [← ho]; exact openDb_hasBox _ _ _ _ _
  have hs : (d.touch m t).findMbSide m σ ≠ none := h.own
  have hoo : (d.touch m t).OtherOpen m σ := h.other
  rw [ho]
  unfold closeDb
  rw [if_pos ⟨hb, hs⟩, if_pos hoo, closeSide_touch, closeSide_eq_self h.closed]

end Chan
end Wormhole
