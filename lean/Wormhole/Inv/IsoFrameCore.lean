/-
  C06 (application isolation), frame lemmas, part 2: the functions of Core.lean (server.py).

  `FrameB b s s'`: b's rows of the channel database, b's usage rows, the connection table up to
  changes of records bound to another app (`ConnsFrame`) and the configuration are the same in
  `s'` as in `s`.  Every function of Core.lean called with an app `a ≠ b` is a `FrameB b` step.

  The only fact about the state these lemmas need is `s.db.PInv` (global uniqueness of mailbox
  ids, uniqueness of nameplate ids, id bounds, the foreign key of `messages`): the `…_of_pinv`
  forms.  The forms with the requested names take `s.Good U t S` (Inv/StepInv.lean).
  There is NO hypothesis that the ids app `a` names are disjoint from b's: if `a` opens a mailbox
  id that exists under `b`, `_add_mailbox` fails (`none`, K-global-mailbox-id) before any write.
-/
import Wormhole.Inv.IsoFramePrim
import Wormhole.Inv.SimDefs

set_option linter.unusedSimpArgs false
set_option linter.unusedVariables false

namespace Wormhole

/-! ### `All2`, `ConnsFrame` -/

/-- a list and its image -/
theorem All2.map_right {α β : Type} {R : α → β → Prop} (g : α → β) :
    ∀ (l : List α), (∀ x ∈ l, R x (g x)) → All2 R l (l.map g)
  | [], _ => .nil
  | a :: l, h => .cons (h a (by simp)) (All2.map_right g l (fun x hx => h x (by simp [hx])))

/-- an indexed family of relations, all holding elementwise -/
theorem All2.forall_of {α β ι : Type} (i0 : ι) {R : ι → α → β → Prop} :
    ∀ {l : List α} {l' : List β}, (∀ i, All2 (R i) l l') → All2 (fun x y => ∀ i, R i x y) l l'
  | [], l', h => by cases h i0; exact .nil
  | a :: l, [], h => by cases h i0
  | a :: l, c :: l', h =>
    .cons (fun i => by cases h i with | cons r _ => exact r)
      (All2.forall_of i0 (fun i => by cases h i with | cons _ t => exact t))

theorem ConnsFrame.trans {b : String} {l l' l'' : List Conn} (h : ConnsFrame b l l') (h' : ConnsFrame b l' l'') :
    ConnsFrame b l l'' := by
  refine All2.comp h h' ?_
  rintro x y z ⟨e1, c1⟩ ⟨e2, c2⟩
  refine ⟨e2.trans e1, ?_⟩
  rcases c2 with rfl | ⟨o2, n2⟩
  · exact c1
  · rcases c1 with rfl | ⟨_, n1⟩
    · exact Or.inr ⟨o2, n2⟩
    · exact Or.inr ⟨o2, n1⟩

theorem Conn.other_of_app {b a : String} {x : Conn} (h : x.app = some a) (hab : a ≠ b) : x.other b := ⟨a, h, hab⟩

theorem Conn.ne_of_app {b a : String} {x : Conn} (h : x.app = some a) (hab : a ≠ b) : x.app ≠ some b := by
  rw [h]; intro e; exact hab (Option.some.inj e)

/-- an UPDATE of connection records: a record changes only if it was not bound to `b` and is bound
    to another app afterwards -/
theorem ConnsFrame.map {b : String} (g : Conn → Conn) (l : List Conn)
    (h : ∀ x ∈ l, (g x).id = x.id ∧ (g x = x ∨ ((g x).other b ∧ x.app ≠ some b))) : ConnsFrame b l (l.map g) :=
  All2.map_right g l h

/-- a string different from `a` -/
theorem exists_ne_string (a : String) : a ≠ a ++ "x" := by
  intro h
  have := congrArg String.length h
  simp at this

namespace Sys

/-! ### `FrameB` -/

/-- `s'` has the same rows, usage rows and connections of app `b` as `s` -/
structure FrameB (b : String) (s s' : Sys) : Prop where
  db : Chan.SameB b s.db s'.db
  udb : Usage.SameB b s.udb s'.udb
  conns : ConnsFrame b s.conns s'.conns
  cfg : s'.cfg = s.cfg

section basic
variable {b : String} {s s' s'' : Sys}

theorem FrameB.refl (b : String) (s : Sys) : FrameB b s s :=
  ⟨Chan.SameB.refl _ _, Usage.SameB.refl _ _, ConnsFrame.refl _ _, rfl⟩

theorem FrameB.trans (h : FrameB b s s') (h' : FrameB b s' s'') : FrameB b s s'' :=
  ⟨h.db.trans h'.db, h.udb.trans h'.udb, h.conns.trans h'.conns, h'.cfg.trans h.cfg⟩

/-- nothing but `disk`, `udisk`, `out`, `snaps`, `rebooted` differs -/
theorem FrameB.of_eq (e1 : s'.db = s.db) (e2 : s'.udb = s.udb) (e3 : s'.conns = s.conns) (e4 : s'.cfg = s.cfg) :
    FrameB b s s' := by
  refine ⟨?_, ?_, ?_, e4⟩
  · rw [e1]; exact Chan.SameB.refl _ _
  · rw [e2]; exact Usage.SameB.refl _ _
  · rw [e3]; exact ConnsFrame.refl _ _

theorem frameB_modDb {f : Chan → Chan} (h : Chan.SameB b s.db (f s.db)) : FrameB b s (s.modDb f) :=
  ⟨h, Usage.SameB.refl _ _, ConnsFrame.refl _ _, rfl⟩

theorem frameB_modUdb {f : Usage → Usage} (h : Usage.SameB b s.udb (f s.udb)) : FrameB b s (s.modUdb f) :=
  ⟨Chan.SameB.refl _ _, h, ConnsFrame.refl _ _, rfl⟩

/-- appending usage rows of other apps -/
theorem frameB_modUdb_addNp (r : UNameplate) (hr : r.app ≠ b) :
    FrameB b s (s.modUdb (fun d => { d with nameplates := d.nameplates ++ [r] })) :=
  frameB_modUdb (Usage.addNp_sameB r hr)
theorem frameB_modUdb_addMb (r : UMailbox) (hr : r.app ≠ b) :
    FrameB b s (s.modUdb (fun d => { d with mailboxes := d.mailboxes ++ [r] })) :=
  frameB_modUdb (Usage.addMb_sameB r hr)
theorem frameB_modUdb_addClient (r : UClient) (hr : r.app ≠ b) :
    FrameB b s (s.modUdb (fun d => { d with clients := d.clients ++ [r] })) :=
  frameB_modUdb (Usage.addClient_sameB r hr)

theorem frameB_commit (b : String) (s : Sys) : FrameB b s s.commit :=
  FrameB.of_eq (commit_db s) (commit_udb s) (commit_conns s) (commit_cfg s)

theorem frameB_ucommit (b : String) (s : Sys) : FrameB b s s.ucommit :=
  FrameB.of_eq (ucommit_db s) (ucommit_udb s) (ucommit_conns s) (ucommit_cfg s)

theorem frameB_emit (b : String) (s : Sys) (e : Event) : FrameB b s (s.emit e) := FrameB.of_eq rfl rfl rfl rfl

theorem frameB_send (b : String) (s : Sys) (c : Nat) (f : Frame) : FrameB b s (s.send c f) := frameB_emit b s _

theorem FrameB.commit (h : FrameB b s s') : FrameB b s s'.commit := h.trans (frameB_commit b s')
theorem FrameB.ucommit (h : FrameB b s s') : FrameB b s s'.ucommit := h.trans (frameB_ucommit b s')
theorem FrameB.emit (h : FrameB b s s') (e : Event) : FrameB b s (s'.emit e) := h.trans (frameB_emit b s' e)
theorem FrameB.send (h : FrameB b s s') (c : Nat) (f : Frame) : FrameB b s (s'.send c f) := h.emit _

/-- an UPDATE of the record of connection `c` -/
theorem frameB_updConn (c : Nat) (f : Conn → Conn)
    (h : ∀ x ∈ s.conns, x.id = c → x.app ≠ some b ∧ (f x).other b ∧ (f x).id = x.id) :
    FrameB b s (s.updConn c f) := by
  refine ⟨Chan.SameB.refl _ _, Usage.SameB.refl _ _, ?_, rfl⟩
  apply ConnsFrame.map
  intro x hx
  split
  · rename_i hc
    obtain ⟨h1, h2, h3⟩ := h x hx hc
    exact ⟨h3, Or.inr ⟨h2, h1⟩⟩
  · exact ⟨rfl, Or.inl rfl⟩

/-- the stop callbacks of `Mailbox.close` of app `a`: only records bound to `a` are rewritten, and
    they stay bound to `a` -/
theorem frameB_stopListeners {a : String} (m : String) (hab : a ≠ b) : FrameB b s (s.stopListeners a m) := by
  refine ⟨Chan.SameB.refl _ _, Usage.SameB.refl _ _, ?_, rfl⟩
  apply ConnsFrame.map
  intro x _
  split
  · rename_i hc
    exact ⟨rfl, Or.inr ⟨Conn.other_of_app (a := a) hc.2.1 hab, Conn.ne_of_app hc.2.1 hab⟩⟩
  · exact ⟨rfl, Or.inl rfl⟩

end basic

/-! ### the usage functions -/

section usage
variable {b a : String} {s : Sys}

theorem storeNameplateUsage_frameB (hab : a ≠ b) (sides : List NpSide) (t : Time) (p : Bool) :
    FrameB b s (s.storeNameplateUsage a sides t p).1 := by
  unfold storeNameplateUsage
  split
  · exact FrameB.refl _ _
  · exact frameB_modUdb_addNp _ hab

theorem storeMailboxUsage_frameB (hab : a ≠ b) (fn : Bool) (sides : List MbSide) (t : Time) (p : Bool) :
    FrameB b s (s.storeMailboxUsage a fn sides t p) :=
  frameB_modUdb_addMb _ hab

theorem logClientVersion_frameB' (hab : a ≠ b) (side : String) (t : Time) (impl version : Option String) :
    FrameB b s (s.logClientVersion a side t impl version) := by
  unfold logClientVersion
  split
  · exact (frameB_modUdb_addClient _ hab).ucommit
  · exact FrameB.refl _ _

/-- `dump_stats` writes only the `current` row -/
theorem dumpStats_frameB (b : String) (s : Sys) (now : Time) : FrameB b s (s.dumpStats now) := by
  unfold dumpStats
  split
  · exact (frameB_modUdb (Usage.setCurrent_sameB _)).ucommit
  · exact FrameB.refl _ _

theorem uNp_frameB (hab : a ≠ b) (sides : List NpSide) (t : Time) (p : Bool) :
    FrameB b s (s.uNp a sides t p).1 := by
  unfold uNp
  split
  · exact storeNameplateUsage_frameB hab _ _ _
  · exact FrameB.refl _ _

theorem uMb_frameB (hab : a ≠ b) (fn : Bool) (sides : List MbSide) (t : Time) (p : Bool) :
    FrameB b s (s.uMb a fn sides t p) := by
  unfold uMb
  split
  · exact storeMailboxUsage_frameB hab _ _ _ _
  · exact FrameB.refl _ _

theorem uCommit_frameB (b : String) (s : Sys) : FrameB b s s.uCommit := by
  unfold uCommit
  split
  · exact frameB_ucommit _ _
  · exact FrameB.refl _ _

theorem uNps_frameB (hab : a ≠ b) (t : Time) (l : List Nameplate) :
    ∀ (s : Sys), FrameB b s (s.uNps a t l).1 := by
  induction l with
  | nil => intro s; exact FrameB.refl _ _
  | cons np rest ih =>
    intro s
    unfold uNps
    have h1 := uNp_frameB (s := s) hab (s.db.npSidesOf np.id) t false
    split
    · rename_i s1 e; rw [e] at h1; exact h1
    · rename_i s1 e; rw [e] at h1; exact h1.trans (ih s1)

theorem uNps_db_fr (t : Time) (l : List Nameplate) : ∀ (s : Sys), (s.uNps a t l).1.db = s.db := by
  induction l with
  | nil => intro s; rfl
  | cons np rest ih =>
    intro s
    unfold uNps
    have h1 := uNp_db s a (s.db.npSidesOf np.id) t false
    split
    · rename_i s1 e; rw [e] at h1; exact h1
    · rename_i s1 e; rw [e] at h1; exact (ih s1).trans h1

end usage

/-! ### Mailbox.open, _add_mailbox, open_mailbox, _add_message -/

section mailbox
variable {b a : String} {s s' : Sys}

theorem addMailbox_frameB' {m : String} {fn : Bool} {t : Time} (hab : a ≠ b)
    (e : s.addMailbox a m fn t = some s') : FrameB b s s' := by
  rcases addMailbox_cases e with ⟨rfl, _⟩ | ⟨rfl, _⟩
  · exact FrameB.refl _ _
  · exact frameB_modDb (Chan.insMailbox_sameB _ hab)

/-- after `_add_mailbox` succeeded for app `a`, no mailbox of `b` has that id -/
theorem addMailbox_not_mem {m : String} {fn : Bool} {t : Time}
    (hu : s.db.mailboxes.Pairwise (fun x y => ¬ x.id = y.id)) (hab : a ≠ b)
    (e : s.addMailbox a m fn t = some s') : m ∉ s'.db.mbIdsB b := by
  rcases addMailbox_cases e with ⟨rfl, hmb⟩ | ⟨rfl, hfree⟩
  · exact Chan.not_mem_mbIdsB_of_hasMb' hu hmb hab
  · show m ∉ (s.db.insMailbox ⟨a, m, t, fn⟩).mbIdsB b
    rw [(Chan.insMailbox_sameB (d := s.db) (b := b) ⟨a, m, t, fn⟩ hab).mbIdsB_eq]
    exact Chan.not_mem_mbIdsB_of_findById_none hfree

theorem mailboxOpen_frameB' {m : String} (side : String) (t : Time) (hm : m ∉ s.db.mbIdsB b) :
    FrameB b s (s.mailboxOpen m side t) := by
  rw [mailboxOpen_eq]
  exact (frameB_modDb (Chan.openSide_sameB side t hm)).commit

theorem openMailbox_frameB' {m side : String} {t : Time} {r : OpenRes}
    (hu : s.db.mailboxes.Pairwise (fun x y => ¬ x.id = y.id)) (hab : a ≠ b)
    (e : s.openMailbox a m side t = (s', r)) : FrameB b s s' := by
  unfold openMailbox at e
  split at e
  · cases e; exact FrameB.refl _ _
  · rename_i s0 e0
    have f2 : FrameB b s ((s0.mailboxOpen m side t).commit) :=
      (addMailbox_frameB' hab e0).trans (mailboxOpen_frameB' side t (addMailbox_not_mem hu hab e0)).commit
    dsimp only at e
    split at e <;> (cases e; exact f2)

theorem addMessage_frameB' {m : String} (side : String) (ph bd : Val) (t : Time) (id : Val) (hab : a ≠ b)
    (hm : m ∉ s.db.mbIdsB b) : FrameB b s (s.addMessage a m side ph bd t id) := by
  unfold addMessage
  have h1 : Chan.SameB b s.db (s.db.insMessage ⟨a, m, side, ph.toText, bd.toText, t, id.toText⟩) :=
    Chan.insMessage_sameB _ hab
  exact ((frameB_modDb h1).trans (frameB_modDb (Chan.touch_sameB t (by rw [modDb_db, h1.mbIdsB_eq]; exact hm)))).commit

end mailbox

/-! ### Mailbox.close -/

section close
variable {b a : String} {s s' : Sys}

theorem mailboxClose_frameB_of_pinv {m side : String} {mood : Option String} {t : Time} {r : Bool}
    (hp : s.db.PInv) (hab : a ≠ b) (e : s.mailboxClose a m side mood t = (s', r)) : FrameB b s s' := by
  rw [mailboxClose_eq] at e
  split at e
  · cases e; exact FrameB.refl _ _
  · rename_i row erow
    have hmb : s.db.HasMb a m := Chan.findMailbox_hasMb erow
    have hm : m ∉ s.db.mbIdsB b := Chan.not_mem_mbIdsB_of_hasMb hp hmb hab
    split at e
    · cases e; exact FrameB.refl _ _
    · dsimp only at e
      have f1 : FrameB b s ((s.modDb (·.closeSide m side mood)).commit) :=
        (frameB_modDb (Chan.closeSide_sameB side mood hm)).commit
      split at e
      · cases e; exact f1
      · have hp1 : (s.db.closeSide m side mood).PInv := hp.closeSide m side mood
        have f2 := f1.trans (uNps_frameB (b := b) hab t
          (((s.modDb (·.closeSide m side mood)).commit).db.nameplatesOfMailbox a m)
          ((s.modDb (·.closeSide m side mood)).commit))
        have hdb2 := uNps_db_fr (a := a) t (((s.modDb (·.closeSide m side mood)).commit).db.nameplatesOfMailbox a m)
          ((s.modDb (·.closeSide m side mood)).commit)
        split at e
        · rename_i s2 e2
          rw [e2] at f2
          cases e; exact f2
        · rename_i s2 e2
          rw [e2] at f2 hdb2
          simp only [commit_db, modDb_db] at hdb2
          have f3 : FrameB b s2 (s2.modDb (fun d =>
              ((((d.delNpSidesOfMailbox a m).delNameplatesOfMailbox a m).delMessagesOf m).delMbSidesOf
                m).delMailbox m)) := by
            apply frameB_modDb
            rw [hdb2]
            exact Chan.closeBlock_sameB hp1 (by simpa using hmb) hab
          cases e
          exact ((((f2.trans f3).trans (uMb_frameB hab _ _ _ _)).trans (uCommit_frameB _ _)).commit).trans
            (frameB_stopListeners m hab)

end close

/-! ### claim_nameplate, release_nameplate -/

section claim
variable {b a : String} {s s' : Sys}

theorem claimCont_frameB' {m side : String} {npid : Nat} {t : Time} {r : ClaimRes}
    (hu : s.db.mailboxes.Pairwise (fun x y => ¬ x.id = y.id)) (hab : a ≠ b)
    (e : claimCont s a npid m side t = (s', r)) : FrameB b s s' := by
  unfold claimCont at e
  dsimp only at e
  have key : ∀ {s3 : Sys} {r3 : OpenRes}, s.commit.openMailbox a m side t = (s3, r3) → FrameB b s s3 :=
    fun e3 => (frameB_commit b s).trans (openMailbox_frameB' (by simpa using hu) hab e3)
  split at e
  · rename_i s3 e3; cases e; exact key e3
  · rename_i s3 e3; cases e; exact key e3
  · rename_i s3 e3
    split at e <;> (cases e; exact key e3)

theorem claimTail_frameB' {m side : String} {npid : Nat} {t : Time} {r : ClaimRes}
    (hu : s.db.mailboxes.Pairwise (fun x y => ¬ x.id = y.id)) (hnp : npid ∉ s.db.npIdsB b) (hab : a ≠ b)
    (e : s.claimTail a npid m side t = (s', r)) : FrameB b s s' := by
  rw [claimTail_eq] at e
  split at e
  · exact (frameB_modDb (Chan.insNpSide_sameB ⟨npid, true, side, t⟩ hnp)).trans
      (claimCont_frameB' (s := s.modDb (·.insNpSide ⟨npid, true, side, t⟩)) hu hab e)
  · split at e
    · exact claimCont_frameB' hu hab e
    · cases e; exact FrameB.refl _ _

theorem claimNameplate_frameB_of_pinv {name side fresh : String} {t : Time} {r : ClaimRes}
    (hp : s.db.PInv) (hab : a ≠ b) (e : s.claimNameplate a name side t fresh = (s', r)) : FrameB b s s' := by
  unfold claimNameplate at e
  split at e
  · split at e
    · cases e; exact FrameB.refl _ _
    · rename_i s0 e0
      dsimp only at e
      have f0 := addMailbox_frameB' (b := b) hab e0
      have hp0 : s0.db.PInv := by
        rcases addMailbox_cases e0 with ⟨rfl, _⟩ | ⟨rfl, hfree⟩
        · exact hp
        · exact hp.insMailbox (r := ⟨a, fresh, t, true⟩) hfree
      have h1 : Chan.SameB b s0.db (s0.db.insNameplate a name fresh) := Chan.insNameplate_sameB a name fresh hab
      refine (f0.trans (frameB_modDb h1)).trans
        (claimTail_frameB' (s := s0.modDb (·.insNameplate a name fresh)) hp0.mbIds ?_ hab e)
      rw [modDb_db, h1.npIdsB_eq]
      exact Chan.nextNp_not_mem_npIdsB hp0.bounded
  · rename_i row erow
    obtain ⟨hrow, ra, _⟩ := Chan.findNameplate_some erow
    exact claimTail_frameB' hp.mbIds (Chan.not_mem_npIdsB_of_mem hp hrow (by rw [ra]; exact hab)) hab e

theorem releaseNameplate_frameB_of_pinv {name side : String} {t : Time} {r : Bool}
    (hp : s.db.PInv) (hab : a ≠ b) (e : s.releaseNameplate a name side t = (s', r)) : FrameB b s s' := by
  rw [releaseNameplate_eq] at e
  split at e
  · cases e; exact FrameB.refl _ _
  · rename_i np enp
    obtain ⟨hnp, ra, _⟩ := Chan.findNameplate_some enp
    have hid : np.id ∉ s.db.npIdsB b := Chan.not_mem_npIdsB_of_mem hp hnp (by rw [ra]; exact hab)
    split at e
    · cases e; exact FrameB.refl _ _
    · dsimp only at e
      have f1 : FrameB b s ((s.modDb (·.unclaim np.id side)).commit) :=
        (frameB_modDb (Chan.unclaim_sameB side hid)).commit
      split at e
      · cases e; exact f1
      · have f2 : FrameB b s (((s.modDb (·.unclaim np.id side)).commit).modDb
            (fun d => (d.delNpSidesOf np.id).delNameplate np.id)) := by
          refine f1.trans (frameB_modDb (Chan.delById_sameB ?_))
          simp only [commit_db, modDb_db]
          exact hid
        have f3 := f2.trans (uNp_frameB (b := b) hab
          (((s.modDb (·.unclaim np.id side)).commit).db.npSidesOf np.id) t false)
        split at e
        · rename_i s3 e3; rw [e3] at f3; cases e; exact f3
        · rename_i s3 e3; rw [e3] at f3; cases e
          exact (f3.trans (uCommit_frameB _ _)).commit

end claim

/-! ### prune -/

section prune
variable {b a : String}

/-- the nameplate loop of `prune`; the side condition is over b's rows, so it is carried along -/
theorem pruneNameplates_frameB' (hab : a ≠ b) (now : Time) (l : List Nameplate) :
    ∀ {s s' : Sys} {r : Bool}, (∀ n ∈ l, n.id ∉ s.db.npIdsB b) → s.pruneNameplates a now l = (s', r) →
      FrameB b s s' := by
  induction l with
  | nil =>
    intro s s' r _ e
    simp only [pruneNameplates, Prod.mk.injEq] at e
    obtain ⟨rfl, _⟩ := e
    exact FrameB.refl _ _
  | cons np rest ih =>
    intro s s' r h e
    rw [pruneNameplates_cons] at e
    have f1 : FrameB b s (s.modDb (fun d => (d.delNpSidesOf np.id).delNameplate np.id)) :=
      frameB_modDb (Chan.delById_sameB (h np (by simp)))
    have f2 := f1.trans (uNp_frameB (b := b) hab (s.db.npSidesOf np.id) now true)
    split at e
    · rename_i s2 e2; rw [e2] at f2; cases e; exact f2
    · rename_i s2 e2
      rw [e2] at f2
      refine f2.trans (ih ?_ e)
      intro n hn
      have := f2.db.npIdsB_eq
      dsimp only at this
      rw [this]
      exact h n (by simp [hn])

/-- the mailbox loop of `prune` -/
theorem pruneMailboxes_frameB' (hab : a ≠ b) (now : Time) (l : List MailboxRow) :
    ∀ (s : Sys), (∀ row ∈ l, row.id ∉ s.db.mbIdsB b ∧ ∀ r ∈ s.db.msgsB b, ¬ r.mailbox = row.id) →
      FrameB b s (s.pruneMailboxes a now l) := by
  induction l with
  | nil => intro s _; exact FrameB.refl _ _
  | cons row rest ih =>
    intro s h
    rw [pruneMailboxes_cons]
    obtain ⟨h1, h2⟩ := h row (by simp)
    have f1 : FrameB b s (s.modDb (fun d => ((d.delMessagesOf row.id).delMbSidesOf row.id).delMailbox row.id)) :=
      frameB_modDb (Chan.pruneBlock_sameB h1 h2)
    have f2 := f1.trans (uMb_frameB (b := b) hab row.forNp (s.db.mbSidesOf row.id) now true)
    refine f2.trans (ih _ ?_)
    intro row' hrow'
    rw [f2.db.mbIdsB_eq, f2.db.msgs]
    exact h row' (by simp [hrow'])

theorem touchListened_frameB (hab : a ≠ b) (s : Sys) (now : Time) : FrameB b s (s.touchListened a now) := by
  apply frameB_modDb
  apply Chan.mapMailboxesOfApp_sameB a hab
  · intro r; split <;> rfl
  · intro r hr
    rw [if_neg]
    rintro ⟨e, _⟩
    exact hr e

theorem prune_frameB_of_pinv {s s' : Sys} {now old : Time} {r : Bool} (hp : s.db.PInv) (hab : a ≠ b)
    (e : s.prune a now old = (s', r)) : FrameB b s s' := by
  rw [prune_eq] at e
  dsimp only at e
  have f1 : FrameB b s ((s.touchListened a now).commit) := (touchListened_frameB hab s now).commit
  have hp1 : ((s.touchListened a now).commit).db.PInv := by
    rw [commit_db, touchListened_db]
    exact hp.mapMailboxes _ (s.touchFn_keys a now)
  generalize (s.touchListened a now).commit = sA at e f1 hp1
  generalize hMb : ((sA.db.mailboxesOfApp a).filter (fun r => ¬ r.updated > old)) = oldMb at e
  generalize hNp : ((sA.db.nameplatesOfApp a).filter (fun r => r.mailbox ∈ oldMb.map (·.id))) = oldNp at e
  rw [pruneRest_eq] at e
  have hNpB : ∀ n ∈ oldNp, n.id ∉ sA.db.npIdsB b := by
    intro n hn
    rw [← hNp] at hn
    have h1 := (List.mem_filter.1 hn).1
    simp only [Chan.nameplatesOfApp, List.mem_filter, decide_eq_true_eq] at h1
    exact Chan.not_mem_npIdsB_of_mem hp1 h1.1 (by rw [h1.2]; exact hab)
  have hMbB : ∀ row ∈ oldMb, row.id ∉ sA.db.mbIdsB b ∧ ∀ r ∈ sA.db.msgsB b, ¬ r.mailbox = row.id := by
    intro row hrow
    rw [← hMb] at hrow
    have h1 := (List.mem_filter.1 hrow).1
    simp only [Chan.mailboxesOfApp, List.mem_filter, decide_eq_true_eq] at h1
    have hm : row.id ∉ sA.db.mbIdsB b := Chan.not_mem_mbIdsB_of_hasMb hp1 ⟨row, h1.1, rfl, h1.2⟩ hab
    exact ⟨hm, Chan.msgsB_ne_of_not_mem hp1 hm⟩
  split at e
  · rename_i s2 e2
    cases e
    exact f1.trans (pruneNameplates_frameB' hab now oldNp hNpB e2)
  · rename_i s2 e2
    have f2 := pruneNameplates_frameB' hab now oldNp hNpB e2
    have f3 : FrameB b s2 (s2.pruneMailboxes a now oldMb) := by
      apply pruneMailboxes_frameB' hab now oldMb s2
      intro row hrow
      rw [f2.db.mbIdsB_eq, f2.db.msgs]
      exact hMbB row hrow
    dsimp only at e
    split at e
    · cases e
      exact ((f1.trans (f2.trans f3)).commit).trans (uCommit_frameB _ _)
    · cases e
      exact f1.trans (f2.trans f3)

end prune

/-! ### the requested forms: from a state satisfying `Good` -/

section good
variable {U : String → Prop} {t : Time} {S : Prop} {b a : String} {s s' : Sys}

theorem addMailbox_frameB {m : String} {fn : Bool} {t' : Time} (h : s.Good U t S) (hab : a ≠ b)
    (e : s.addMailbox a m fn t' = some s') : FrameB b s s' :=
  addMailbox_frameB' hab e

theorem mailboxOpen_frameB {m : String} (h : s.Good U t S) (hmb : s.db.HasMb a m) (hab : a ≠ b) (side : String)
    (t' : Time) : FrameB b s (s.mailboxOpen m side t') :=
  mailboxOpen_frameB' side t' (Chan.not_mem_mbIdsB_of_hasMb h.db.cinv.toPInv hmb hab)

theorem openMailbox_frameB {m side : String} {t' : Time} {r : OpenRes} (h : s.Good U t S) (hab : a ≠ b)
    (e : s.openMailbox a m side t' = (s', r)) : FrameB b s s' :=
  openMailbox_frameB' h.db.cinv.mbIds hab e

theorem addMessage_frameB {m : String} (h : s.Good U t S) (hmb : s.db.HasMb a m) (hab : a ≠ b) (side : String)
    (ph bd : Val) (t' : Time) (id : Val) : FrameB b s (s.addMessage a m side ph bd t' id) :=
  addMessage_frameB' side ph bd t' id hab (Chan.not_mem_mbIdsB_of_hasMb h.db.cinv.toPInv hmb hab)

theorem mailboxClose_frameB {m side : String} {mood : Option String} {t' : Time} {r : Bool} (h : s.Good U t S)
    (hab : a ≠ b) (e : s.mailboxClose a m side mood t' = (s', r)) : FrameB b s s' :=
  mailboxClose_frameB_of_pinv h.db.cinv.toPInv hab e

theorem claimNameplate_frameB {name side fresh : String} {t' : Time} {r : ClaimRes} (h : s.Good U t S)
    (hab : a ≠ b) (e : s.claimNameplate a name side t' fresh = (s', r)) : FrameB b s s' :=
  claimNameplate_frameB_of_pinv h.db.cinv.toPInv hab e

theorem releaseNameplate_frameB {name side : String} {t' : Time} {r : Bool} (h : s.Good U t S)
    (hab : a ≠ b) (e : s.releaseNameplate a name side t' = (s', r)) : FrameB b s s' :=
  releaseNameplate_frameB_of_pinv h.db.cinv.toPInv hab e

theorem prune_frameB {now old : Time} {r : Bool} (h : s.Good U t S) (hab : a ≠ b)
    (e : s.prune a now old = (s', r)) : FrameB b s s' :=
  prune_frameB_of_pinv h.db.cinv.toPInv hab e

theorem logClientVersion_frameB (h : s.Good U t S) (hab : a ≠ b) (side : String) (t' : Time)
    (impl version : Option String) : FrameB b s (s.logClientVersion a side t' impl version) :=
  logClientVersion_frameB' hab side t' impl version

end good

end Sys
end Wormhole
