/-
  server.py against the registry: `open_mailbox`, `claim_nameplate`, `Mailbox.close`.
  Each `…_spec` says: `RegInv` is kept, and through `abs` the function IS the corresponding
  function of Core.lean.
-/
import Wormhole.Inv.RegPrim
import Wormhole.Inv.SyncLemmas

set_option linter.unusedSimpArgs false

namespace Wormhole
namespace RSys

theorem Registered.updNs_append {r : RSys} {n : Nat} {q : String × Nat} {a m : String} {o : Nat}
    (h : r.Registered a m o) :
    (r.updNs n (fun k => { k with boxes := k.boxes ++ [q] })).Registered a m o := by
  obtain ⟨ns, h1, h2, h3⟩ := h
  refine ⟨if ns.oid = n then { ns with boxes := ns.boxes ++ [q] } else ns, ?_, ?_, ?_⟩
  · exact List.mem_map.2 ⟨ns, h1, rfl⟩
  · split <;> exact h2
  · split
    · exact List.mem_append_left _ h3
    · exact h3

/-- the Mailbox object of `(ns.app, mb)` in the registered namespace `ns`, created if need be -/
theorem ensureMailbox_spec {r : RSys} (h : r.RegInv) {ns : Ns} (hns : ns ∈ r.nss) (hreg : (ns.app, ns.oid) ∈ r.apps)
    (mb : String) :
    (r.ensureMailbox ns mb).1.RegInv ∧ (r.ensureMailbox ns mb).1.abs = r.abs ∧
      (r.ensureMailbox ns mb).1.conns = r.conns ∧ (r.ensureMailbox ns mb).1.core = r.core ∧
      (r.ensureMailbox ns mb).1.apps = r.apps ∧
      (r.ensureMailbox ns mb).1.Registered ns.app mb (r.ensureMailbox ns mb).2 := by
  unfold ensureMailbox
  cases e : alookup ns.boxes mb with
  | some o =>
    exact ⟨h, rfl, rfl, rfl, rfl, ns, hns, hreg, (alookup_eq_some (h.boxesKey ns hns)).1 e⟩
  | none =>
    have hk := alookup_eq_none.1 e
    have hnsu : ∀ k ∈ r.nss, k.oid = ns.oid → k = ns := fun k hk e => pw_eq (f := Ns.oid) h.nsOids hk hns e
    dsimp only
    refine ⟨?_, ?_, rfl, rfl, rfl, ?_⟩
    · refine ⟨h.connIds, h.appsKey, ?_, ?_, ?_, ?_, ?_, ?_, ?_, ?_, ?_, ?_, ?_, ?_, ?_, ?_⟩
      · show List.Pairwise _ (List.map _ _)
        rw [List.pairwise_map]
        refine h.nsOids.imp ?_
        intro a b hab
        split <;> split <;> exact hab
      · show List.Pairwise _ (_ ++ _)
        rw [List.pairwise_append]
        refine ⟨h.mbOids, by simp, ?_⟩
        intro a ha b hb
        simp only [List.mem_singleton] at hb
        subst hb
        have := h.mbBound a ha
        (try simp only); omega
      · intro k hk'
        obtain ⟨k0, hk0, rfl⟩ := List.mem_map.1 hk'
        have := h.nsBound k0 hk0
        show (if _ then _ else _ : Ns).oid < r.nextOid + 1
        split <;> (try simp only) <;> omega
      · intro k hk'
        show k.oid < r.nextOid + 1
        rcases List.mem_append.1 hk' with hk' | hk'
        · have := h.mbBound k hk'; omega
        · simp only [List.mem_singleton] at hk'; subst hk'; simp
      · intro p hp
        obtain ⟨k, hk1, e1, e2⟩ := h.appsNs p hp
        refine ⟨if k.oid = ns.oid then { k with boxes := k.boxes ++ [(mb, r.nextOid)] } else k,
          List.mem_map.2 ⟨k, hk1, rfl⟩, ?_, ?_⟩
        · split <;> exact e1
        · split <;> exact e2
      · intro k hk'
        obtain ⟨k0, hk0, rfl⟩ := List.mem_map.1 hk'
        split
        · rename_i e0
          have := hnsu k0 hk0 e0; subst this
          show List.Pairwise _ (_ ++ _)
          rw [List.pairwise_append]
          refine ⟨h.boxesKey k0 hk0, by simp, ?_⟩
          intro a ha b hb
          simp only [List.mem_singleton] at hb
          subst hb
          exact hk a ha
        · exact h.boxesKey k0 hk0
      · intro k hk' p hp
        obtain ⟨k0, hk0, rfl⟩ := List.mem_map.1 hk'
        have old : ∀ p ∈ k0.boxes, ∃ k ∈ r.mbs ++ [({ oid := r.nextOid, nsOid := ns.oid, app := ns.app, mailboxId := mb } : MbObj)],
            k.oid = p.2 ∧ k.nsOid = k0.oid ∧ k.app = k0.app ∧ k.mailboxId = p.1 := by
          intro p hp
          obtain ⟨k, hk1, e1⟩ := h.boxesMb k0 hk0 p hp
          exact ⟨k, List.mem_append_left _ hk1, e1⟩
        split at hp
        · rename_i e0
          have := hnsu k0 hk0 e0; subst this
          simp only [if_true]
          rcases List.mem_append.1 hp with hp | hp
          · exact old p hp
          · simp only [List.mem_singleton] at hp; subst hp
            exact ⟨_, List.mem_append_right _ (List.mem_singleton.2 rfl), rfl, rfl, rfl, rfl⟩
        · rename_i e0
          simp only [e0, if_false]
          exact old p hp
      · intro k hk' hne
        obtain ⟨k0, hk0, rfl⟩ := List.mem_map.1 hk'
        split
        · rename_i e0
          have := hnsu k0 hk0 e0; subst this
          exact hreg
        · rename_i e0
          simp only [e0, if_false] at hne
          exact h.nsReg k0 hk0 hne
      · intro k hk'
        have old : ∀ k ∈ r.mbs, ∃ ns' ∈ r.nss.map (fun k => if k.oid = ns.oid then { k with boxes := k.boxes ++ [(mb, r.nextOid)] } else k),
            ns'.oid = k.nsOid ∧ ns'.app = k.app := by
          intro k hk1
          obtain ⟨n0, hn0, e1, e2⟩ := h.mbNs k hk1
          refine ⟨_, List.mem_map.2 ⟨n0, hn0, rfl⟩, ?_, ?_⟩
          · split <;> exact e1
          · split <;> exact e2
        rcases List.mem_append.1 hk' with hk' | hk'
        · exact old k hk'
        · simp only [List.mem_singleton] at hk'; subst hk'
          refine ⟨_, List.mem_map.2 ⟨ns, hns, rfl⟩, ?_, ?_⟩
          · split <;> rfl
          · split <;> rfl
      · intro x hx o hm
        obtain ⟨k, hk1, e1⟩ := h.heldObj x hx o hm
        exact ⟨k, List.mem_append_left _ hk1, e1⟩
      · intro x hx k hk' hm hl
        rcases List.mem_append.1 hk' with hk' | hk'
        · exact (h.heldReg x hx k hk' hm hl).updNs_append
        · simp only [List.mem_singleton] at hk'; subst hk'
          obtain ⟨k, hk1, e1, _⟩ := h.heldObj x hx _ hm
          have := h.mbBound k hk1
          (try simp only at e1); omega
      · intro x hx k hk' hm
        rcases List.mem_append.1 hk' with hk' | hk'
        · exact h.listenIff x hx k hk' hm
        · simp only [List.mem_singleton] at hk'; subst hk'
          obtain ⟨k, hk1, e1, _⟩ := h.heldObj x hx _ hm
          have := h.mbBound k hk1
          (try simp only at e1); omega
      · intro k hk' c hc
        rcases List.mem_append.1 hk' with hk' | hk'
        · exact h.lisConn k hk' c hc
        · simp only [List.mem_singleton] at hk'; subst hk'
          simp at hc
      · intro k hk'
        rcases List.mem_append.1 hk' with hk' | hk'
        · exact h.lisNodup k hk'
        · simp only [List.mem_singleton] at hk'; subst hk'
          simp
    · -- `abs`: the new object is held by nobody
      rw [abs_updNs, abs_eq', abs_eq']
      congr 1
      unfold aconns
      apply List.map_congr_left
      intro x hx
      apply absConn_congr
      intro o hm
      obtain ⟨k, hk1, e1, _⟩ := h.heldObj x hx o hm
      apply mbIdOf_append_of_isSome
      rw [← e1, mbIdOf_eq h hk1]; rfl
    · refine ⟨{ ns with boxes := ns.boxes ++ [(mb, r.nextOid)] }, ?_, hreg, by simp⟩
      exact List.mem_map.2 ⟨ns, hns, by simp⟩

end RSys
end Wormhole

namespace Wormhole
namespace RSys

theorem framed_open (mb side : String) (t : Time) : Framed (fun s => (s.mailboxOpen mb side t).commit) := by
  intro s cs; simp

/-- `AppNamespace.open_mailbox` on the registered namespace of `app` -/
theorem openMailbox_spec {r : RSys} (h : r.RegInv) {app : String} {n : Nat} (hn : (app, n) ∈ r.apps)
    (mb side : String) (t : Time) :
    (r.openMailbox n mb side t).1.RegInv ∧
    (r.openMailbox n mb side t).1.abs = (r.abs.openMailbox app mb side t).1 ∧
    (r.openMailbox n mb side t).2.1 = (r.abs.openMailbox app mb side t).2 ∧
    (r.openMailbox n mb side t).1.conns = r.conns ∧
    (r.openMailbox n mb side t).1.apps = r.apps ∧
    ((r.openMailbox n mb side t).2.1 = .ok →
      (r.openMailbox n mb side t).1.Registered app mb (r.openMailbox n mb side t).2.2) := by
  obtain ⟨ns, hns, e1, e2⟩ := h.appsNs _ hn
  simp only at e1 e2
  subst e2
  have hf : r.findNs n = some ns := (findNs_eq_some h).2 ⟨hns, e1⟩
  have hS : r.abs.addMailbox ns.app mb false t = (r.core.addMailbox ns.app mb false t).map (·.setConns r.aconns) := by
    rw [abs_eq']; simp
  unfold openMailbox Sys.openMailbox
  rw [hf, hS]
  dsimp only
  cases r.core.addMailbox ns.app mb false t with
  | none => exact ⟨h, rfl, rfl, rfl, rfl, by intro h; cases h⟩
  | some c1 =>
    simp only [Option.map_some]
    obtain ⟨i1, i2, i3, i4, i5, i6⟩ :=
      ensureMailbox_spec (r := { r with core := c1 }) (h.core c1) hns (by rw [← e1] at hn; exact hn) mb
    generalize ({ r with core := c1 } : RSys).ensureMailbox ns mb = p at *
    obtain ⟨k, hk, ek1, _, ek3⟩ := i6.obj i1
    have hfm : p.1.findMb p.2 = some k := (findMb_eq_some i1).2 ⟨hk, ek1⟩
    rw [hfm]
    dsimp only
    rw [ek3]
    have habs : (p.1.onCore (fun s => (s.mailboxOpen mb side t).commit)).abs =
        ((c1.setConns r.aconns).mailboxOpen mb side t).commit := by
      rw [abs_onCore _ _ (framed_open mb side t), i2]
      rfl
    have hdb : (p.1.onCore (fun s => (s.mailboxOpen mb side t).commit)).core.db =
        (((c1.setConns r.aconns).mailboxOpen mb side t).commit).db := by
      rw [← habs]; rfl
    have hinv := i1.onCore (fun s => (s.mailboxOpen mb side t).commit)
    rw [hdb]
    by_cases hc : ((((c1.setConns r.aconns).mailboxOpen mb side t).commit).db.mbSidesOf mb).length > 2
    · simp only [hc, if_true]
      exact ⟨hinv, habs, trivial, i3, i5, by intro h; cases h⟩
    · simp only [hc, if_false]
      exact ⟨hinv, habs, trivial, i3, i5, fun _ => i6⟩

end RSys
end Wormhole

namespace Wormhole
namespace RSys

theorem framed_commit : Framed (fun s => s.commit) := by intro s cs; simp

theorem claimCont_spec {r1 : RSys} (h : r1.RegInv) {app : String} {n : Nat} (hn : (app, n) ∈ r1.apps)
    (npid : Nat) (mb side : String) (t : Time) :
    (r1.claimCont n npid mb side t).1.RegInv ∧
    (r1.claimCont n npid mb side t).1.abs = (Sys.claimCont r1.abs app npid mb side t).1 ∧
    (r1.claimCont n npid mb side t).2 = (Sys.claimCont r1.abs app npid mb side t).2 ∧
    (r1.claimCont n npid mb side t).1.conns = r1.conns ∧
    (r1.claimCont n npid mb side t).1.apps = r1.apps := by
  have h2 : (r1.onCore (·.commit)).RegInv := h.onCore _
  have a2 : (r1.onCore (·.commit)).abs = r1.abs.commit := abs_onCore _ _ framed_commit
  obtain ⟨j1, j2, j3, j4, j5, _⟩ := openMailbox_spec h2 (app := app) (n := n) hn mb side t
  unfold claimCont Sys.claimCont
  dsimp only
  rw [a2] at j2 j3
  rcases hq : (r1.onCore (·.commit)).openMailbox n mb side t with ⟨r3, res, o⟩
  rcases hs : r1.abs.commit.openMailbox app mb side t with ⟨s3, res'⟩
  rw [hq, hs] at j2 j3
  rw [hq] at j1 j4 j5
  simp only at j1 j2 j3 j4 j5
  subst j2 j3
  cases res
  · dsimp only
    have : r3.core.db = r3.abs.db := rfl
    rw [this]
    split
    · exact ⟨j1, rfl, rfl, j4, j5⟩
    · exact ⟨j1, rfl, rfl, j4, j5⟩
  · exact ⟨j1, rfl, rfl, j4, j5⟩
  · exact ⟨j1, rfl, rfl, j4, j5⟩

theorem claimTail_spec {r : RSys} (h : r.RegInv) {app : String} {n : Nat} (hn : (app, n) ∈ r.apps)
    (npid : Nat) (mb side : String) (t : Time) :
    (r.claimTail n npid mb side t).1.RegInv ∧
    (r.claimTail n npid mb side t).1.abs = (r.abs.claimTail app npid mb side t).1 ∧
    (r.claimTail n npid mb side t).2 = (r.abs.claimTail app npid mb side t).2 ∧
    (r.claimTail n npid mb side t).1.conns = r.conns ∧
    (r.claimTail n npid mb side t).1.apps = r.apps := by
  rw [Sys.claimTail_eq]
  unfold claimTail
  rw [abs_db]
  cases r.core.db.findNpSide npid side with
  | none =>
    dsimp only
    have a : (r.onCore (·.modDb (·.insNpSide ⟨npid, true, side, t⟩))).abs =
        r.abs.modDb (·.insNpSide ⟨npid, true, side, t⟩) := abs_onCore _ _ (by intro s cs; rfl)
    rw [← a]
    exact claimCont_spec (h.onCore _) hn npid mb side t
  | some row =>
    dsimp only
    split
    · exact claimCont_spec h hn npid mb side t
    · exact ⟨h, rfl, rfl, rfl, rfl⟩

/-- `AppNamespace.claim_nameplate` on the registered namespace of `app` -/
theorem claimNameplate_spec {r : RSys} (h : r.RegInv) {app : String} {n : Nat} (hn : (app, n) ∈ r.apps)
    (name side : String) (t : Time) (fresh : String) :
    (r.claimNameplate n name side t fresh).1.RegInv ∧
    (r.claimNameplate n name side t fresh).1.abs = (r.abs.claimNameplate app name side t fresh).1 ∧
    (r.claimNameplate n name side t fresh).2 = (r.abs.claimNameplate app name side t fresh).2 ∧
    (r.claimNameplate n name side t fresh).1.conns = r.conns ∧
    (r.claimNameplate n name side t fresh).1.apps = r.apps := by
  obtain ⟨ns, hns, e1, e2⟩ := h.appsNs _ hn
  simp only at e1 e2
  subst e2
  have hf : r.findNs n = some ns := (findNs_eq_some h).2 ⟨hns, e1⟩
  have hS : r.abs.addMailbox ns.app fresh true t = (r.core.addMailbox ns.app fresh true t).map (·.setConns r.aconns) := by
    rw [abs_eq']; simp
  unfold claimNameplate Sys.claimNameplate
  rw [hf, hS, abs_db]
  dsimp only
  cases r.core.db.findNameplate ns.app name with
  | none =>
    dsimp only
    cases r.core.addMailbox ns.app fresh true t with
    | none => exact ⟨h, rfl, rfl, rfl, rfl⟩
    | some c1 =>
      simp only [Option.map_some]
      exact claimTail_spec (r := { r with core := c1.modDb (·.insNameplate ns.app name fresh) }) (h.core _) hn _ _ _ _
  | some row => exact claimTail_spec h hn _ _ _ _

end RSys
end Wormhole

namespace Wormhole
namespace RSys

/-- the listener dict of a registered object, in terms of the connection records:
    the connections that are listening under the object's app with a handle on its mailbox id -/
theorem RegInv.mem_listeners_iff {r : RSys} (h : r.RegInv) {k : MbObj} (hk : k ∈ r.mbs)
    (hreg : r.Registered k.app k.mailboxId k.oid) {y : RConn} (hy : y ∈ r.conns) :
    y.id ∈ k.listeners ↔
      (y.listening = true ∧ y.app = some k.app ∧ (absConn r.mbs y).mailbox = some k.mailboxId) := by
  constructor
  · intro hc
    obtain ⟨y', hy', e1, e2⟩ := h.lisConn k hk _ hc
    have : y' = y := pw_eq (f := RConn.id) h.connIds hy' hy e1
    subst this
    refine ⟨(h.listenIff y' hy k hk e2).1 hc, h.heldMem hy hk e2, ?_⟩
    rw [absConn_mailbox, e2]
    exact mbIdOf_eq h hk
  · rintro ⟨hl, ha, hm⟩
    rw [absConn_mailbox] at hm
    cases hmo : y.mailbox with
    | none => rw [hmo] at hm; cases hm
    | some o' =>
      rw [hmo] at hm
      obtain ⟨k', hk', e1, e2⟩ := h.heldObj y hy o' hmo
      subst e1
      simp only [Option.bind_some] at hm
      rw [mbIdOf_eq h hk'] at hm
      simp only [Option.some.injEq] at hm
      rw [ha] at e2
      simp only [Option.some.injEq] at e2
      have hr := h.heldReg y hy k' hk' hmo hl
      rw [← e2, hm] at hr
      have : k'.oid = k.oid := Registered.unique h hr hreg
      have : k' = k := pw_eq (f := MbObj.oid) h.mbOids hk' hk this
      subst this
      exact (h.listenIff y hy k' hk hmo).2 hl

theorem foldl_stop (ls : List Nat) : ∀ (r : RSys),
    ls.foldl (fun r c => r.stop .fixed c) r =
      { r with conns := r.conns.map (fun y => if y.id ∈ ls then { y with mailbox := none, listening := false } else y) } := by
  induction ls with
  | nil => intro r; simp
  | cons c rest ih =>
    intro r
    rw [List.foldl_cons, ih]
    simp only [stop, Variant.fixed, Bool.false_eq_true, if_false, updConn, List.map_map]
    congr 1
    apply List.map_congr_left
    intro y _
    simp only [Function.comp, List.mem_cons]
    by_cases e1 : y.id = c
    · simp [e1]
    · by_cases e2 : y.id ∈ rest <;> simp [e1, e2]

/-- `Mailbox.close`, the registry part: stop callbacks, `_listeners = {}`, `free_mailbox` -/
theorem shutObject_spec {r : RSys} (h : r.RegInv) {k : MbObj} (hk : k ∈ r.mbs)
    (hreg : r.Registered k.app k.mailboxId k.oid) :
    (r.shutObject .fixed k).RegInv ∧ (r.shutObject .fixed k).abs = r.abs.stopListeners k.app k.mailboxId ∧
      (∀ y' ∈ (r.shutObject .fixed k).conns, y'.listening = true → ∃ y ∈ r.conns, y.id = y'.id ∧ y.listening = true) := by
  have hku : ∀ k' ∈ r.mbs, k'.oid = k.oid → k' = k := fun k' hk' e => pw_eq (f := MbObj.oid) h.mbOids hk' hk e
  have hyu : ∀ {c : Nat} {y y' : RConn}, y ∈ r.conns → y' ∈ r.conns → y.id = c → y'.id = c → y = y' :=
    fun hy hy' e e' => pw_eq (f := RConn.id) h.connIds hy hy' (by rw [e, e'])
  -- stage A: the records and the listener dict
  let F : RConn → RConn := fun y => if y.id ∈ k.listeners then { y with mailbox := none, listening := false } else y
  let G : MbObj → MbObj := fun k' => if k'.oid = k.oid then { k' with listeners := [] } else k'
  let rA : RSys := { r with conns := r.conns.map F, mbs := r.mbs.map G }
  have hA : rA.RegInv := by
    refine h.relabel F G rfl rfl rfl rfl rfl ?_ ?_ ?_ ?_ ?_ ?_ ?_ ?_ ?_ ?_
    · intro z; simp only [F]; split <;> rfl
    · intro k'; simp only [G]; split <;> rfl
    · intro k'; simp only [G]; split <;> rfl
    · intro k'; simp only [G]; split <;> rfl
    · intro k'; simp only [G]; split <;> rfl
    · intro y hy o'
      simp only [F]
      split
      · intro e; cases e
      · exact h.heldObj y hy o'
    · intro y hy k' hk'
      simp only [F]
      split
      · intro e; cases e
      · exact h.heldReg y hy k' hk'
    · intro y hy k' hk'
      simp only [F, G]
      split
      · intro e; cases e
      · rename_i hn
        intro e
        have := h.listenIff y hy k' hk' e
        split
        · rename_i e0
          have := hku k' hk' e0; subst this
          simp only [List.not_mem_nil, false_iff]
          intro hl
          exact hn (this.2 hl)
        · exact this
    · intro k' hk' c hc
      simp only [G] at hc
      split at hc
      · simp at hc
      · rename_i e0
        obtain ⟨y, hy, e1, e2⟩ := h.lisConn k' hk' c hc
        refine ⟨y, hy, e1, ?_⟩
        simp only [F]
        split
        · rename_i hin
          obtain ⟨y2, hy2, e3, e4⟩ := h.lisConn k hk _ hin
          have := hyu hy2 hy e3 rfl; subst this
          rw [e2] at e4
          simp only [Option.some.injEq] at e4
          exact absurd e4 e0
        · exact e2
    · intro k' hk'
      simp only [G]
      split
      · simp
      · exact h.lisNodup k' hk'
  have hkA : G k ∈ rA.mbs := List.mem_map.2 ⟨k, hk, rfl⟩
  have hGk : G k = { k with listeners := [] } := by simp [G]
  have hshut : r.shutObject .fixed k =
      rA.updNs k.nsOid (fun n => { n with boxes := n.boxes.filter (fun p => ¬ p.1 = k.mailboxId) }) := by
    unfold shutObject
    rw [foldl_stop]
    rfl
  rw [hshut]
  refine ⟨?_, ?_, ?_⟩
  · -- stage B: `free_mailbox`
    have hregA : rA.Registered k.app k.mailboxId k.oid := hreg
    obtain ⟨ns1, hns1, hap1, hbx1⟩ := hregA
    obtain ⟨k1, hk1, e11, e12, _, _⟩ := hA.boxesMb ns1 hns1 _ hbx1
    have hk1' : k1 = G k := pw_eq (f := MbObj.oid) hA.mbOids hk1 hkA (by rw [e11, hGk])
    have hns1oid : ns1.oid = k.nsOid := by rw [← e12, hk1', hGk]
    have hnsu : ∀ n' ∈ r.nss, n'.oid = k.nsOid → n' = ns1 :=
      fun n' hn' e => pw_eq (f := Ns.oid) hA.nsOids hn' hns1 (by rw [e, hns1oid])
    let N : Ns → Ns := fun n => if n.oid = k.nsOid then { n with boxes := n.boxes.filter (fun p => ¬ p.1 = k.mailboxId) } else n
    have hN1 : ∀ n, (N n).oid = n.oid := by intro n; simp only [N]; split <;> rfl
    have hN2 : ∀ n, (N n).app = n.app := by intro n; simp only [N]; split <;> rfl
    have hN3 : ∀ n, ∀ p ∈ (N n).boxes, p ∈ n.boxes := by
      intro n p hp
      simp only [N] at hp
      split at hp
      · exact (List.mem_filter.1 hp).1
      · exact hp
    refine ⟨hA.connIds, hA.appsKey, ?_, hA.mbOids, ?_, hA.mbBound, ?_, ?_, ?_, ?_, ?_, hA.heldObj, ?_, hA.listenIff,
      hA.lisConn, hA.lisNodup⟩
    · show List.Pairwise _ (List.map N _)
      rw [List.pairwise_map]
      simpa only [hN1] using hA.nsOids
    · intro n hn
      obtain ⟨n0, hn0, rfl⟩ := List.mem_map.1 hn
      show (N n0).oid < _
      rw [hN1]; exact hA.nsBound n0 hn0
    · intro p hp
      obtain ⟨n0, hn0, e1, e2⟩ := hA.appsNs p hp
      exact ⟨N n0, List.mem_map.2 ⟨n0, hn0, rfl⟩, by rw [hN1]; exact e1, by rw [hN2]; exact e2⟩
    · intro n hn
      obtain ⟨n0, hn0, rfl⟩ := List.mem_map.1 hn
      show List.Pairwise _ (N n0).boxes
      simp only [N]
      split
      · exact List.Pairwise.filter _ (hA.boxesKey n0 hn0)
      · exact hA.boxesKey n0 hn0
    · intro n hn p hp
      obtain ⟨n0, hn0, rfl⟩ := List.mem_map.1 hn
      have := hA.boxesMb n0 hn0 p (hN3 n0 p hp)
      show ∃ k ∈ rA.mbs, k.oid = p.2 ∧ k.nsOid = (N n0).oid ∧ k.app = (N n0).app ∧ k.mailboxId = p.1
      rw [hN1, hN2]; exact this
    · intro n hn hne
      obtain ⟨n0, hn0, rfl⟩ := List.mem_map.1 hn
      show ((N n0).app, (N n0).oid) ∈ rA.apps
      rw [hN1, hN2]
      apply hA.nsReg n0 hn0
      intro e
      apply hne
      show (N n0).boxes = []
      simp only [N]
      split <;> simp [e]
    · intro k' hk'
      obtain ⟨n0, hn0, e1, e2⟩ := hA.mbNs k' hk'
      exact ⟨N n0, List.mem_map.2 ⟨n0, hn0, rfl⟩, by rw [hN1]; exact e1, by rw [hN2]; exact e2⟩
    · intro x hx k' hk' hm hl
      obtain ⟨n0, hn0, ha0, hb0⟩ := hA.heldReg x hx k' hk' hm hl
      refine ⟨N n0, List.mem_map.2 ⟨n0, hn0, rfl⟩, by rw [hN1]; exact ha0, ?_⟩
      simp only [N]
      split
      · rename_i e0
        have := hnsu n0 hn0 e0; subst this
        refine List.mem_filter.2 ⟨hb0, ?_⟩
        simp only [decide_not, Bool.not_eq_eq_eq_not, Bool.not_true, decide_eq_false_iff_not]
        intro em
        -- then k' is the closed object, which has no listening holder any more
        have e3 := pw_eq (f := fun p : String × Nat => p.1) (hA.boxesKey n0 hn0) hb0 hbx1 em
        simp only [Prod.mk.injEq] at e3
        have : k' = G k := pw_eq (f := MbObj.oid) hA.mbOids hk' hkA (by rw [e3.2, hGk])
        subst this
        have := (hA.listenIff x hx (G k) hkA hm).2 hl
        rw [hGk] at this
        simp at this
      · exact hb0
  · -- `abs`
    rw [abs_updNs, abs_eq', abs_eq']
    unfold Sys.stopListeners
    simp only [Sys.setConns_conns]
    show r.core.setConns rA.aconns = _
    have : rA.aconns = r.conns.map (fun y => absConn r.mbs (F y)) :=
      aconns_relabel (r := r) (r' := rA) F G rfl rfl (by intro k'; simp only [G]; split <;> rfl)
        (by intro k'; simp only [G]; split <;> rfl)
    rw [this]
    unfold Sys.setConns aconns
    simp only [Sys.mk.injEq, true_and, and_true, List.map_map]
    apply List.map_congr_left
    intro y hy
    simp only [Function.comp, F]
    have key := h.mem_listeners_iff hk hreg hy
    by_cases hin : y.id ∈ k.listeners
    · have := key.1 hin
      simp only [hin, if_true]
      rw [if_pos (by simpa using this)]
      unfold absConn; simp
    · simp only [hin, if_false]
      rw [if_neg]
      intro hc
      exact hin (key.2 (by simpa using hc))
  · intro y' hy' hl
    have hy'' : y' ∈ r.conns.map F := hy'
    obtain ⟨y, hy, rfl⟩ := List.mem_map.1 hy''
    refine ⟨y, hy, ?_, ?_⟩
    · simp only [F]; split <;> rfl
    · simp only [F] at hl
      split at hl
      · cases hl
      · exact hl

end RSys
end Wormhole

namespace Wormhole
namespace RSys

/-- what `mailboxClose_spec` says about the two results -/
def CloseOK (r : RSys) (R : RSys × Bool) (S : Sys × Bool) : Prop :=
  R.1.RegInv ∧ R.1.abs = S.1 ∧ R.2 = S.2 ∧
    ∀ y' ∈ R.1.conns, y'.listening = true → ∃ y ∈ r.conns, y.id = y'.id ∧ y.listening = true

/-- `Mailbox.close` on a REGISTERED Mailbox object -/
theorem mailboxClose_spec {r : RSys} (h : r.RegInv) {k : MbObj} (hk : k ∈ r.mbs)
    (hreg : r.Registered k.app k.mailboxId k.oid) (side : String) (mood : Option String) (t : Time) :
    CloseOK r (r.mailboxClose .fixed k.oid side mood t) (r.abs.mailboxClose k.app k.mailboxId side mood t) := by
  have hf : r.findMb k.oid = some k := (findMb_eq_some h).2 ⟨hk, rfl⟩
  have keep : ∀ y' ∈ r.conns, y'.listening = true → ∃ y ∈ r.conns, y.id = y'.id ∧ y.listening = true :=
    fun y' hy' hl => ⟨y', hy', rfl, hl⟩
  unfold mailboxClose Sys.mailboxClose
  rw [hf, abs_db]
  dsimp only
  cases hrow : r.core.db.findMailbox k.app k.mailboxId with
  | none => exact ⟨h, rfl, rfl, keep⟩
  | some row =>
    dsimp only
    cases r.core.db.findMbSide k.mailboxId side with
    | none => exact ⟨h, rfl, rfl, keep⟩
    | some _ =>
      dsimp only
      have a1 : (r.onCore (fun s => (s.modDb (·.closeSide k.mailboxId side mood)).commit)).abs =
          (r.abs.modDb (·.closeSide k.mailboxId side mood)).commit := abs_onCore _ _ (by intro s cs; simp)
      have h1 := h.onCore (fun s => (s.modDb (·.closeSide k.mailboxId side mood)).commit)
      have hk1 : k ∈ (r.onCore (fun s => (s.modDb (·.closeSide k.mailboxId side mood)).commit)).mbs := hk
      have hreg1 : (r.onCore (fun s => (s.modDb (·.closeSide k.mailboxId side mood)).commit)).Registered k.app
          k.mailboxId k.oid := hreg
      have hc1 : (r.onCore (fun s => (s.modDb (·.closeSide k.mailboxId side mood)).commit)).conns = r.conns := rfl
      rw [← a1]
      generalize r.onCore (fun s => (s.modDb (·.closeSide k.mailboxId side mood)).commit) = r1 at *
      rw [abs_db]
      by_cases hany : (r1.core.db.mbSidesOf k.mailboxId).any (·.opened) = true
      · simp only [hany, if_true]
        exact ⟨h1, rfl, rfl, by rw [hc1]; exact keep⟩
      · simp only [hany]
        obtain ⟨ns, hns, en1, en2⟩ := h1.mbNs k hk1
        have hfn : r1.findNs k.nsOid = some ns := (findNs_eq_some h1).2 ⟨hns, en1⟩
        rw [hfn]
        simp only [Bool.false_eq_true, if_false, abs_cfg]
        rw [en2]
        let F4 : Sys → Sys := fun s2 =>
          (if (s2.modDb fun d =>
                ((((d.delNpSidesOfMailbox k.app k.mailboxId).delNameplatesOfMailbox k.app k.mailboxId).delMessagesOf
                  k.mailboxId).delMbSidesOf k.mailboxId).delMailbox k.mailboxId).cfg.usage = true then
              ((s2.modDb fun d =>
                ((((d.delNpSidesOfMailbox k.app k.mailboxId).delNameplatesOfMailbox k.app k.mailboxId).delMessagesOf
                  k.mailboxId).delMbSidesOf k.mailboxId).delMailbox k.mailboxId).storeMailboxUsage
                  k.app row.forNp (r1.core.db.mbSidesOf k.mailboxId) t false).ucommit
            else
              s2.modDb fun d =>
                ((((d.delNpSidesOfMailbox k.app k.mailboxId).delNameplatesOfMailbox k.app k.mailboxId).delMessagesOf
                  k.mailboxId).delMbSidesOf k.mailboxId).delMailbox k.mailboxId).commit
        have hF4 : Framed F4 := by
          intro s cs
          by_cases hu : s.cfg.usage = true
          · simp only [F4]
            rw [if_pos (show ((s.setConns cs).modDb _).cfg.usage = true from hu),
              if_pos (show (s.modDb _).cfg.usage = true from hu)]
            simp
          · simp only [F4]
            rw [if_neg (show ¬ ((s.setConns cs).modDb _).cfg.usage = true from hu),
              if_neg (show ¬ (s.modDb _).cfg.usage = true from hu)]
            simp
        have tail : ∀ (c2 : Sys) (ok : Bool), r.CloseOK
            (if (!ok) = true then (({ r1 with core := c2 } : RSys), false)
              else (shutObject Variant.fixed (({ r1 with core := c2 } : RSys).onCore F4) k, true))
            (if (!ok) = true then (c2.setConns r1.aconns, false)
              else ((F4 (c2.setConns r1.aconns)).stopListeners k.app k.mailboxId, true)) := by
          intro c2 ok
          cases ok
          · simp only [Bool.not_false, if_true]
            exact ⟨h1.core c2, rfl, rfl, by rw [show ({ r1 with core := c2 } : RSys).conns = r.conns from hc1]; exact keep⟩
          · simp only [Bool.not_true, Bool.false_eq_true, if_false]
            obtain ⟨j1, j2, j3⟩ := shutObject_spec (r := ({ r1 with core := c2 } : RSys).onCore F4)
              ((h1.core c2).onCore F4) hk1 hreg1
            refine ⟨j1, ?_, rfl, ?_⟩
            · refine j2.trans ?_
              rw [abs_onCore _ _ hF4]
              rfl
            · intro y' hy' hl
              obtain ⟨y, hy, e1, e2⟩ := j3 y' hy' hl
              exact ⟨y, by rw [← hc1]; exact hy, e1, e2⟩
        by_cases hu : r1.core.cfg.usage = true
        · simp only [hu, if_true]
          rw [abs_eq', Sys.storeNameplatesOfMailbox_setConns]
          exact tail _ _
        · simp only [hu, if_false]
          exact tail r1.core true

end RSys
end Wormhole
