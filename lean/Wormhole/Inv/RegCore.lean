/-
  server.py against the registry: `open_mailbox`, `claim_nameplate`, `Mailbox.close`.
  Each `…_spec` says: `RegInv` is kept, and through `abs` the function IS the corresponding
  function of Core.lean.
-/
import Wormhole.Inv.RegPrim

namespace Wormhole
namespace RSys

theorem Registered.updNs_append {r : RSys} {n : Nat} {q : String × Nat} {a m : String} {o : Nat}
    (h : r.Registered a m o) :
    (r.updNs n (fun k => { k with boxes := k.boxes ++ [q] })).Registered a m o := by
  obtain ⟨ns, h1, h2, h3⟩ := h
  refine ⟨if ns.oid = n then { ns with boxes := ns.boxes ++ [q] } else ns, ?_, ?_, ?_⟩
  · exact List.mem_map.2 ⟨ns, h1, rfl⟩
  · split <;> exact h2
  · split
    · exact List.mem_append_left _ h3
    · exact h3

/-- the Mailbox object of `(ns.app, mb)` in the registered namespace `ns`, created if need be -/
theorem ensureMailbox_spec {r : RSys} (h : r.RegInv) {ns : Ns} (hns : ns ∈ r.nss) (hreg : (ns.app, ns.oid) ∈ r.apps)
    (mb : String) :
    (r.ensureMailbox ns mb).1.RegInv ∧ (r.ensureMailbox ns mb).1.abs = r.abs ∧
      (r.ensureMailbox ns mb).1.conns = r.conns ∧ (r.ensureMailbox ns mb).1.core = r.core ∧
      (r.ensureMailbox ns mb).1.apps = r.apps ∧
      (r.ensureMailbox ns mb).1.Registered ns.app mb (r.ensureMailbox ns mb).2 := by
  unfold ensureMailbox
  cases e : alookup ns.boxes mb with
  | some o =>
    exact ⟨h, rfl, rfl, rfl, rfl, ns, hns, hreg, (alookup_eq_some (h.boxesKey ns hns)).1 e⟩
  | none =>
    have hk := alookup_eq_none.1 e
    have hnsu : ∀ k ∈ r.nss, k.oid = ns.oid → k = ns := fun k hk e => pw_eq (f := Ns.oid) h.nsOids hk hns e
    dsimp only
    refine ⟨?_, ?_, rfl, rfl, rfl, ?_⟩
    · refine ⟨h.connIds, h.appsKey, ?_, ?_, ?_, ?_, ?_, ?_, ?_, ?_, ?_, ?_, ?_, ?_, ?_, ?_⟩
      · show List.Pairwise _ (List.map _ _)
        rw [List.pairwise_map]
        refine h.nsOids.imp ?_
        intro a b hab
        split <;> split <;> exact hab
      · show List.Pairwise _ (_ ++ _)
        rw [List.pairwise_append]
        refine ⟨h.mbOids, by simp, ?_⟩
        intro a ha b hb
        simp only [List.mem_singleton] at hb
        subst hb
        have := h.mbBound a ha
        simp only; omega
      · intro k hk'
        obtain ⟨k0, hk0, rfl⟩ := List.mem_map.1 hk'
        have := h.nsBound k0 hk0
        show (if _ then _ else _ : Ns).oid < r.nextOid + 1
        split <;> simp only <;> omega
      · intro k hk'
        show k.oid < r.nextOid + 1
        rcases List.mem_append.1 hk' with hk' | hk'
        · have := h.mbBound k hk'; omega
        · simp only [List.mem_singleton] at hk'; subst hk'; simp
      · intro p hp
        obtain ⟨k, hk1, e1, e2⟩ := h.appsNs p hp
        refine ⟨if k.oid = ns.oid then { k with boxes := k.boxes ++ [(mb, r.nextOid)] } else k,
          List.mem_map.2 ⟨k, hk1, rfl⟩, ?_, ?_⟩
        · split <;> exact e1
        · split <;> exact e2
      · intro k hk'
        obtain ⟨k0, hk0, rfl⟩ := List.mem_map.1 hk'
        split
        · rename_i e0
          have := hnsu k0 hk0 e0; subst this
          show List.Pairwise _ (_ ++ _)
          rw [List.pairwise_append]
          refine ⟨h.boxesKey k0 hk0, by simp, ?_⟩
          intro a ha b hb
          simp only [List.mem_singleton] at hb
          subst hb
          exact hk a ha
        · exact h.boxesKey k0 hk0
      · intro k hk' p hp
        obtain ⟨k0, hk0, rfl⟩ := List.mem_map.1 hk'
        have old : ∀ p ∈ k0.boxes, ∃ k ∈ r.mbs ++ [({ oid := r.nextOid, nsOid := ns.oid, app := ns.app, mailboxId := mb } : MbObj)],
            k.oid = p.2 ∧ k.nsOid = k0.oid ∧ k.app = k0.app ∧ k.mailboxId = p.1 := by
          intro p hp
          obtain ⟨k, hk1, e1⟩ := h.boxesMb k0 hk0 p hp
          exact ⟨k, List.mem_append_left _ hk1, e1⟩
        split at hp
        · rename_i e0
          have := hnsu k0 hk0 e0; subst this
          simp only [if_true]
          rcases List.mem_append.1 hp with hp | hp
          · exact old p hp
          · simp only [List.mem_singleton] at hp; subst hp
            exact ⟨_, List.mem_append_right _ (List.mem_singleton.2 rfl), rfl, rfl, rfl, rfl⟩
        · rename_i e0
          simp only [e0, if_false]
          exact old p hp
      · intro k hk' hne
        obtain ⟨k0, hk0, rfl⟩ := List.mem_map.1 hk'
        split
        · rename_i e0
          have := hnsu k0 hk0 e0; subst this
          exact hreg
        · rename_i e0
          simp only [e0, if_false] at hne
          exact h.nsReg k0 hk0 hne
      · intro k hk'
        have old : ∀ k ∈ r.mbs, ∃ ns' ∈ r.nss.map (fun k => if k.oid = ns.oid then { k with boxes := k.boxes ++ [(mb, r.nextOid)] } else k),
            ns'.oid = k.nsOid ∧ ns'.app = k.app := by
          intro k hk1
          obtain ⟨n0, hn0, e1, e2⟩ := h.mbNs k hk1
          refine ⟨_, List.mem_map.2 ⟨n0, hn0, rfl⟩, ?_, ?_⟩
          · split <;> exact e1
          · split <;> exact e2
        rcases List.mem_append.1 hk' with hk' | hk'
        · exact old k hk'
        · simp only [List.mem_singleton] at hk'; subst hk'
          refine ⟨_, List.mem_map.2 ⟨ns, hns, rfl⟩, ?_, ?_⟩
          · split <;> rfl
          · split <;> rfl
      · intro x hx o hm
        obtain ⟨k, hk1, e1⟩ := h.heldObj x hx o hm
        exact ⟨k, List.mem_append_left _ hk1, e1⟩
      · intro x hx k hk' hm hl
        rcases List.mem_append.1 hk' with hk' | hk'
        · exact (h.heldReg x hx k hk' hm hl).updNs_append
        · simp only [List.mem_singleton] at hk'; subst hk'
          obtain ⟨k, hk1, e1, _⟩ := h.heldObj x hx _ hm
          have := h.mbBound k hk1
          simp only at e1; omega
      · intro x hx k hk' hm
        rcases List.mem_append.1 hk' with hk' | hk'
        · exact h.listenIff x hx k hk' hm
        · simp only [List.mem_singleton] at hk'; subst hk'
          obtain ⟨k, hk1, e1, _⟩ := h.heldObj x hx _ hm
          have := h.mbBound k hk1
          simp only at e1; omega
      · intro k hk' c hc
        rcases List.mem_append.1 hk' with hk' | hk'
        · exact h.lisConn k hk' c hc
        · simp only [List.mem_singleton] at hk'; subst hk'
          simp at hc
      · intro k hk'
        rcases List.mem_append.1 hk' with hk' | hk'
        · exact h.lisNodup k hk'
        · simp only [List.mem_singleton] at hk'; subst hk'
          simp
    · -- `abs`: the new object is held by nobody
      rw [abs_updNs, abs_eq', abs_eq']
      congr 1
      unfold aconns
      apply List.map_congr_left
      intro x hx
      apply absConn_congr
      intro o hm
      obtain ⟨k, hk1, e1, _⟩ := h.heldObj x hx o hm
      apply mbIdOf_append_of_isSome
      rw [← e1, mbIdOf_eq h hk1]; rfl
    · refine ⟨{ ns with boxes := ns.boxes ++ [(mb, r.nextOid)] }, ?_, hreg, by simp⟩
      exact List.mem_map.2 ⟨ns, hns, by simp⟩

end RSys
end Wormhole
