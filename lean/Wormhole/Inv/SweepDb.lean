/-
  The expiry sweep on the channel database, as a pure function (`Chan` level).

  * `Chan.dropNps` / `Chan.dropMbs`: what the two DELETE loops of `AppNamespace.prune` do;
  * `Chan.pruneApp`: the database effect of one `prune(app, now, old)`, statement by statement
    (`L app mb` = "the `Mailbox` object of `(app, mb)` has a listener");
  * `Chan.sweepP A L now old`: the specification -- every mailbox row whose app is in `A`, that has
    no listener and is not updated after `old`, disappears together with everything hanging
    off it (by mailbox id / nameplate row id); listened rows of apps in `A` are re-stamped.
  * `pruneApp_eq_sweepP`: under `PInv` (unique mailbox ids, unique nameplate ids, a nameplate's
    mailbox lies in the nameplate's app) one `prune` is `sweepP` of a single app;
  * `sweepP_sweepP`: sweeps compose (no invariant needed);
  * `PInv.sweepP`, `CInv.sweepP`: the invariants survive;
  * `pruneFold_eq_sweepP`: the loop over a list of apps.
-/
import Wormhole.Inv.SyncLemmas

namespace Wormhole
namespace Chan

/-- listener oracle: `L app mb` = somebody is subscribed to mailbox `mb` of `app` -/
abbrev LFun := String → String → Bool

theorem filter_map_congr {α β : Type} {l : List α} {p q : α → Bool} {f g : α → β}
    (hp : ∀ x ∈ l, p x = q x) (hf : ∀ x ∈ l, q x = true → f x = g x) :
    (l.filter p).map f = (l.filter q).map g := by
  rw [List.filter_congr hp]
  apply List.map_congr_left
  intro x hx
  exact hf x (List.mem_filter.1 hx).1 (List.mem_filter.1 hx).2

theorem filter_true' {α : Type} (l : List α) : l.filter (fun _ => true) = l :=
  List.filter_eq_self.2 (by simp)

/-! ### the two DELETE loops -/

/-- `DELETE FROM nameplate_sides WHERE nameplates_id=?; DELETE FROM nameplates WHERE id=?`
    for every id of the list -/
def dropNps (d : Chan) (ids : List Nat) : Chan :=
  { d with nameplates := d.nameplates.filter (fun n => ¬ n.id ∈ ids),
           npSides := d.npSides.filter (fun r => ¬ r.npid ∈ ids) }

/-- `DELETE FROM messages WHERE mailbox_id=?; DELETE FROM mailbox_sides WHERE mailbox_id=?;
    DELETE FROM mailboxes WHERE id=?` for every id of the list -/
def dropMbs (d : Chan) (ids : List String) : Chan :=
  { d with mailboxes := d.mailboxes.filter (fun m => ¬ m.id ∈ ids),
           mbSides := d.mbSides.filter (fun r => ¬ r.mailbox ∈ ids),
           messages := d.messages.filter (fun r => ¬ r.mailbox ∈ ids) }

theorem dropNps_nil (d : Chan) : d.dropNps [] = d := by
  cases d; simp [dropNps, List.filter_eq_self]

theorem dropMbs_nil (d : Chan) : d.dropMbs [] = d := by
  cases d; simp [dropMbs, List.filter_eq_self]

theorem dropNps_cons (d : Chan) (i : Nat) (ids : List Nat) :
    ((d.delNpSidesOf i).delNameplate i).dropNps ids = d.dropNps (i :: ids) := by
  simp only [dropNps, delNameplate, delNpSidesOf, List.filter_filter, Chan.mk.injEq, and_true]
  constructor <;> (apply List.filter_congr; intro x _; simp; grind)

theorem dropMbs_cons (d : Chan) (i : String) (ids : List String) :
    (((d.delMessagesOf i).delMbSidesOf i).delMailbox i).dropMbs ids = d.dropMbs (i :: ids) := by
  simp only [dropMbs, delMailbox, delMbSidesOf, delMessagesOf, List.filter_filter, Chan.mk.injEq, and_true,
    true_and]
  refine ⟨?_, ?_, ?_⟩ <;> (apply List.filter_congr; intro x _; simp; grind)

/-! ### one `prune`, statement by statement -/

/-- the touch loop of `prune` -/
def stampApp (d : Chan) (L : LFun) (app : String) (now : Time) : Chan :=
  { d with mailboxes := d.mailboxes.map (fun r =>
      if r.app = app ∧ L app r.id = true then { r with updated := now } else r) }

/-- the database effect of `AppNamespace.prune(now, old)` for `app` -/
def pruneApp (d : Chan) (L : LFun) (app : String) (now old : Time) : Chan :=
  let d0 := d.stampApp L app now
  let oldMb := (d0.mailboxesOfApp app).filter (fun r => ¬ r.updated > old)
  let oldNp := (d0.nameplatesOfApp app).filter (fun r => r.mailbox ∈ oldMb.map (·.id))
  (d0.dropNps (oldNp.map (·.id))).dropMbs (oldMb.map (·.id))

/-! ### the specification -/

/-- the row is swept: its app is among the pruned ones, nobody listens, no update after `old` -/
def dead (A : String → Bool) (L : LFun) (old : Time) (m : MailboxRow) : Bool :=
  A m.app && !(L m.app m.id) && decide (m.updated ≤ old)

/-- the row after the touch loop -/
def stamp (A : String → Bool) (L : LFun) (now : Time) (m : MailboxRow) : MailboxRow :=
  if A m.app = true ∧ L m.app m.id = true then { m with updated := now } else m

@[simp] theorem stamp_id (A L now m) : (stamp A L now m).id = m.id := by
  unfold stamp; split <;> rfl
@[simp] theorem stamp_app (A L now m) : (stamp A L now m).app = m.app := by
  unfold stamp; split <;> rfl
@[simp] theorem stamp_forNp (A L now m) : (stamp A L now m).forNp = m.forNp := by
  unfold stamp; split <;> rfl

/-- ids of the swept mailbox rows -/
def deadIds (d : Chan) (A : String → Bool) (L : LFun) (old : Time) : List String :=
  (d.mailboxes.filter (dead A L old)).map (·.id)

/-- row ids of the nameplates that point at a swept mailbox -/
def deadNps (d : Chan) (A : String → Bool) (L : LFun) (old : Time) : List Nat :=
  (d.nameplates.filter (fun n => n.mailbox ∈ d.deadIds A L old)).map (·.id)

/-- the sweep of the apps in `A` -/
def sweepP (d : Chan) (A : String → Bool) (L : LFun) (now old : Time) : Chan :=
  { nameplates := d.nameplates.filter (fun n => ¬ n.mailbox ∈ d.deadIds A L old)
    npSides := d.npSides.filter (fun r => ¬ r.npid ∈ d.deadNps A L old)
    mailboxes := (d.mailboxes.filter (fun m => ¬ m.id ∈ d.deadIds A L old)).map (stamp A L now)
    mbSides := d.mbSides.filter (fun r => ¬ r.mailbox ∈ d.deadIds A L old)
    messages := d.messages.filter (fun r => ¬ r.mailbox ∈ d.deadIds A L old)
    nextNp := d.nextNp }

theorem mem_deadIds {d : Chan} {A L old} {i : String} :
    i ∈ d.deadIds A L old ↔ ∃ m ∈ d.mailboxes, dead A L old m = true ∧ m.id = i := by
  simp [deadIds, List.mem_map, List.mem_filter, and_assoc]

theorem mem_deadNps {d : Chan} {A L old} {j : Nat} :
    j ∈ d.deadNps A L old ↔ ∃ n ∈ d.nameplates, n.mailbox ∈ d.deadIds A L old ∧ n.id = j := by
  simp [deadNps, List.mem_map, List.mem_filter, and_assoc]

theorem dead_iff {A : String → Bool} {L : LFun} {old : Time} {m : MailboxRow} :
    dead A L old m = true ↔ A m.app = true ∧ L m.app m.id = false ∧ m.updated ≤ old := by
  simp [dead, and_assoc]

/-- with unique mailbox ids, an id is swept iff ITS row is -/
theorem mem_deadIds_of_mem {d : Chan} (h : d.mailboxes.Pairwise (fun a b => ¬ a.id = b.id))
    {A L old} {m : MailboxRow} (hm : m ∈ d.mailboxes) :
    m.id ∈ d.deadIds A L old ↔ dead A L old m = true := by
  rw [mem_deadIds]
  constructor
  · rintro ⟨m', hm', hd, e⟩
    have : m' = m := eq_of_pairwise_ne (f := MailboxRow.id) h hm' hm e
    subst this; exact hd
  · intro hd; exact ⟨m, hm, hd, rfl⟩

/-! ### membership in the swept tables -/

section mem
variable {d : Chan} {A : String → Bool} {L : LFun} {now old : Time}

theorem mem_sweepP_nameplates {n : Nameplate} :
    n ∈ (d.sweepP A L now old).nameplates ↔ n ∈ d.nameplates ∧ ¬ n.mailbox ∈ d.deadIds A L old := by
  simp [sweepP, List.mem_filter]

theorem mem_sweepP_npSides {r : NpSide} :
    r ∈ (d.sweepP A L now old).npSides ↔ r ∈ d.npSides ∧ ¬ r.npid ∈ d.deadNps A L old := by
  simp [sweepP, List.mem_filter]

theorem mem_sweepP_mailboxes {m' : MailboxRow} :
    m' ∈ (d.sweepP A L now old).mailboxes ↔
      ∃ m ∈ d.mailboxes, ¬ m.id ∈ d.deadIds A L old ∧ stamp A L now m = m' := by
  simp [sweepP, List.mem_map, List.mem_filter, and_assoc]

theorem mem_sweepP_mbSides {r : MbSide} :
    r ∈ (d.sweepP A L now old).mbSides ↔ r ∈ d.mbSides ∧ ¬ r.mailbox ∈ d.deadIds A L old := by
  simp [sweepP, List.mem_filter]

theorem mem_sweepP_messages {r : Message} :
    r ∈ (d.sweepP A L now old).messages ↔ r ∈ d.messages ∧ ¬ r.mailbox ∈ d.deadIds A L old := by
  simp [sweepP, List.mem_filter]

end mem

/-! ### `A` matters only on the apps of mailbox rows -/

theorem deadIds_congr {d : Chan} {A A' : String → Bool} {L old}
    (h : ∀ m ∈ d.mailboxes, A m.app = A' m.app) : d.deadIds A L old = d.deadIds A' L old := by
  unfold deadIds
  congr 1
  apply List.filter_congr
  intro m hm
  simp [dead, h m hm]

theorem sweepP_congr {d : Chan} {A A' : String → Bool} {L now old}
    (h : ∀ m ∈ d.mailboxes, A m.app = A' m.app) : d.sweepP A L now old = d.sweepP A' L now old := by
  have hD := deadIds_congr (L := L) (old := old) h
  have hN : d.deadNps A L old = d.deadNps A' L old := by unfold deadNps; rw [hD]
  unfold sweepP
  rw [hD, hN]
  simp only [Chan.mk.injEq, and_true, true_and]
  apply List.map_congr_left
  intro m hm
  have := h m (List.mem_filter.1 hm).1
  simp [stamp, this]

/-! ### one `prune` is the sweep of one app -/

theorem pruneApp_eq_sweepP {d : Chan} (h : d.PInv) (L : LFun) (app : String) {now old : Time}
    (hlt : old < now) : d.pruneApp L app now old = d.sweepP (fun a => a == app) L now old := by
  -- the old mailbox ids
  have hD : (((d.stampApp L app now).mailboxesOfApp app).filter (fun r => ¬ r.updated > old)).map (·.id)
      = d.deadIds (fun a => a == app) L old := by
    simp only [stampApp, mailboxesOfApp, deadIds, List.filter_map, List.filter_filter, List.map_map]
    apply filter_map_congr
    · intro m _
      simp only [Function.comp, dead]
      by_cases h1 : m.app = app <;> by_cases h2 : L app m.id = true
      · simp [h1, h2]; omega
      · simp [h1, h2]
      · simp [h1]
      · simp [h1]
    · intro m _ _
      simp only [Function.comp]
      split <;> rfl
  -- the old nameplate ids, as a set
  have hN : ∀ j : Nat,
      j ∈ (((d.stampApp L app now).nameplatesOfApp app).filter
        (fun r => r.mailbox ∈ d.deadIds (fun a => a == app) L old)).map (·.id) ↔
      j ∈ d.deadNps (fun a => a == app) L old := by
    intro j
    simp only [stampApp, nameplatesOfApp, mem_deadNps, List.mem_map, List.mem_filter,
      decide_eq_true_eq]
    constructor
    · rintro ⟨n, ⟨⟨hn, _⟩, hd⟩, e⟩; exact ⟨n, hn, hd, e⟩
    · rintro ⟨n, hn, hd, e⟩
      refine ⟨n, ⟨⟨hn, ?_⟩, hd⟩, e⟩
      obtain ⟨m, hm, hdm, em⟩ := mem_deadIds.1 hd
      obtain ⟨m', hm', e1, e2⟩ := h.npMb n hn
      have : m = m' := eq_of_pairwise_ne (f := MailboxRow.id) h.mbIds hm hm' (by rw [em, e1])
      subst this
      have := (dead_iff.1 hdm).1
      simp at this
      rw [← e2]; exact this
  unfold pruneApp
  simp only []
  rw [hD]
  simp only [sweepP, dropNps, dropMbs, stampApp, Chan.mk.injEq, and_true]
  refine ⟨?_, ?_, ?_⟩
  · -- nameplates
    apply List.filter_congr
    intro n hn
    have := hN n.id
    simp only [stampApp] at this
    have h2 : n.id ∈ d.deadNps (fun a => a == app) L old ↔ n.mailbox ∈ d.deadIds (fun a => a == app) L old := by
      rw [mem_deadNps]
      constructor
      · rintro ⟨n', hn', hd, e⟩
        have : n' = n := eq_of_pairwise_ne (f := Nameplate.id) h.npIds hn' hn e
        subst this; exact hd
      · intro hd; exact ⟨n, hn, hd, rfl⟩
    simp only [this, h2]
  · -- nameplate sides
    apply List.filter_congr
    intro r _
    have := hN r.npid
    simp only [stampApp] at this
    simp only [this]
  · -- mailboxes
    rw [List.filter_map]
    apply filter_map_congr
    · intro m _
      simp only [Function.comp]
      split <;> rfl
    · intro m _ _
      by_cases h1 : m.app = app
      · subst h1; simp [stamp]
      · simp [stamp, h1]

/-! ### sweeps compose -/

section compose
variable {d : Chan} {A B : String → Bool} {L : LFun} {now old : Time}

theorem dead_stamp {m : MailboxRow} :
    dead B L old (stamp A L now m) = true ↔ dead B L old m = true := by
  by_cases hl : L m.app m.id = true
  · simp [dead, hl]
  · have : stamp A L now m = m := by simp [stamp, hl]
    rw [this]

theorem dead_or {m : MailboxRow} :
    dead (fun a => A a || B a) L old m = true ↔ dead A L old m = true ∨ dead B L old m = true := by
  simp only [dead_iff, Bool.or_eq_true]; grind

theorem stamp_stamp (m : MailboxRow) :
    stamp B L now (stamp A L now m) = stamp (fun a => A a || B a) L now m := by
  by_cases hl : L m.app m.id = true <;> by_cases ha : A m.app = true <;> by_cases hb : B m.app = true <;>
    simp [stamp, hl, ha, hb]

/-- the ids swept in two rounds are the ids swept in one -/
theorem mem_deadIds_sweepP (i : String) :
    i ∈ d.deadIds (fun a => A a || B a) L old ↔
      i ∈ d.deadIds A L old ∨ i ∈ (d.sweepP A L now old).deadIds B L old := by
  simp only [mem_deadIds, mem_sweepP_mailboxes]
  constructor
  · rintro ⟨m, hm, hd, rfl⟩
    by_cases hA : m.id ∈ d.deadIds A L old
    · exact Or.inl (mem_deadIds.1 hA)
    · right
      refine ⟨stamp A L now m, ⟨m, hm, fun h => hA (mem_deadIds.2 h), rfl⟩, ?_, by simp⟩
      rw [dead_stamp]
      rcases dead_or.1 hd with h | h
      · exact absurd (mem_deadIds.2 ⟨m, hm, h, rfl⟩) hA
      · exact h
  · rintro (⟨m, hm, hd, rfl⟩ | ⟨m', ⟨m, hm, _, rfl⟩, hd, rfl⟩)
    · exact ⟨m, hm, dead_or.2 (Or.inl hd), rfl⟩
    · exact ⟨m, hm, dead_or.2 (Or.inr (dead_stamp.1 hd)), by simp⟩

theorem mem_deadNps_sweepP (j : Nat) :
    j ∈ d.deadNps (fun a => A a || B a) L old ↔
      j ∈ d.deadNps A L old ∨ j ∈ (d.sweepP A L now old).deadNps B L old := by
  simp only [mem_deadNps, mem_sweepP_nameplates, mem_deadIds_sweepP (now := now)]
  constructor
  · rintro ⟨n, hn, hd, rfl⟩
    by_cases hA : n.mailbox ∈ d.deadIds A L old
    · exact Or.inl ⟨n, hn, hA, rfl⟩
    · exact Or.inr ⟨n, ⟨hn, hA⟩, hd.resolve_left hA, rfl⟩
  · rintro (⟨n, hn, hd, rfl⟩ | ⟨n, ⟨hn, _⟩, hd, rfl⟩)
    · exact ⟨n, hn, Or.inl hd, rfl⟩
    · exact ⟨n, hn, Or.inr hd, rfl⟩

theorem sweepP_sweepP :
    (d.sweepP A L now old).sweepP B L now old = d.sweepP (fun a => A a || B a) L now old := by
  have hi := mem_deadIds_sweepP (d := d) (A := A) (B := B) (L := L) (now := now) (old := old)
  have hj := mem_deadNps_sweepP (d := d) (A := A) (B := B) (L := L) (now := now) (old := old)
  generalize hD2 : (d.sweepP A L now old).deadIds B L old = D2 at hi
  generalize hN2 : (d.sweepP A L now old).deadNps B L old = N2 at hj
  unfold sweepP at hD2 hN2 ⊢
  simp only [Chan.mk.injEq, and_true] 
  rw [hD2, hN2]
  simp only [List.filter_filter, List.filter_map, List.map_map]
  refine ⟨?_, ?_, ?_, ?_, ?_⟩
  · apply List.filter_congr; intro x _; simp [hi]; grind
  · apply List.filter_congr; intro x _; simp [hj]; grind
  · apply filter_map_congr
    · intro x _; simp [hi]; grind
    · intro x _ _; exact stamp_stamp x
  · apply List.filter_congr; intro x _; simp [hi]; grind
  · apply List.filter_congr; intro x _; simp [hi]; grind

end compose

/-! ### the invariants survive -/

theorem PInv.sweepP {d : Chan} (h : d.PInv) (A : String → Bool) (L : LFun) (now old : Time) :
    (d.sweepP A L now old).PInv := by
  have hdead : ∀ m ∈ d.mailboxes, ¬ m.id ∈ d.deadIds A L old →
      ∃ m' ∈ (d.sweepP A L now old).mailboxes, m'.id = m.id ∧ m'.app = m.app := by
    intro m hm hd
    exact ⟨stamp A L now m, mem_sweepP_mailboxes.2 ⟨m, hm, hd, rfl⟩, by simp, by simp⟩
  constructor
  · exact List.Pairwise.filter _ h.npIds
  · exact List.Pairwise.filter _ h.npKey
  · constructor
    · intro n hn; exact h.bounded.1 n (mem_sweepP_nameplates.1 hn).1
    · intro r hr; exact h.bounded.2 r (mem_sweepP_npSides.1 hr).1
  · simp only [Chan.sweepP, List.pairwise_map, stamp_id]
    exact List.Pairwise.filter _ h.mbIds
  · intro n hn
    obtain ⟨hn, hd⟩ := mem_sweepP_nameplates.1 hn
    obtain ⟨m, hm, e1, e2⟩ := h.npMb n hn
    obtain ⟨m', hm', e3, e4⟩ := hdead m hm (by rw [e1]; exact hd)
    exact ⟨m', hm', by rw [e3, e1], by rw [e4, e2]⟩
  · intro r hr
    obtain ⟨hr, hd⟩ := mem_sweepP_npSides.1 hr
    obtain ⟨n, hn, e⟩ := h.nsFk r hr
    refine ⟨n, mem_sweepP_nameplates.2 ⟨hn, ?_⟩, e⟩
    intro hdm
    exact hd (mem_deadNps.2 ⟨n, hn, hdm, e⟩)
  · exact List.Pairwise.filter _ h.nsKey
  · intro r hr
    obtain ⟨hr, hd⟩ := mem_sweepP_mbSides.1 hr
    obtain ⟨m, hm, e1⟩ := h.msFk r hr
    obtain ⟨m', hm', e3, _⟩ := hdead m hm (by rw [e1]; exact hd)
    exact ⟨m', hm', by rw [e3, e1]⟩
  · exact List.Pairwise.filter _ h.msKey
  · intro r hr
    obtain ⟨hr, hd⟩ := mem_sweepP_messages.1 hr
    obtain ⟨m, hm, e1, e2⟩ := h.msgFk r hr
    obtain ⟨m', hm', e3, e4⟩ := hdead m hm (by rw [e1]; exact hd)
    exact ⟨m', hm', by rw [e3, e1], by rw [e4, e2]⟩

theorem CInv.sweepP {d : Chan} (h : d.CInv) (A : String → Bool) (L : LFun) (now old : Time) :
    (d.sweepP A L now old).CInv := by
  refine ⟨h.toPInv.sweepP A L now old, ?_⟩
  intro n hn
  obtain ⟨hn, hd⟩ := mem_sweepP_nameplates.1 hn
  obtain ⟨r, hr, e⟩ := h.npHasSide n hn
  refine ⟨r, mem_sweepP_npSides.2 ⟨hr, ?_⟩, e⟩
  intro hj
  obtain ⟨n', hn', hd', e'⟩ := mem_deadNps.1 hj
  have : n' = n := eq_of_pairwise_ne (f := Nameplate.id) h.npIds hn' hn (by rw [e', e])
  subst this
  exact hd hd'

/-! ### the loop over the apps -/

/-- the database effect of `prune_all_apps` over the list `l` -/
def pruneFold (d : Chan) (L : LFun) (now old : Time) (l : List String) : Chan :=
  l.foldl (fun d a => d.pruneApp L a now old) d

theorem pruneFold_eq_sweepP (L : LFun) {now old : Time} (hlt : old < now) (l : List String) :
    ∀ {d : Chan}, d.PInv → d.pruneFold L now old l = d.sweepP (fun a => decide (a ∈ l)) L now old := by
  induction l with
  | nil =>
    intro d _
    simp only [pruneFold, List.foldl_nil, List.not_mem_nil, decide_false]
    have hD : d.deadIds (fun _ => false) L old = [] := by simp [deadIds, dead]
    have hN : d.deadNps (fun _ => false) L old = [] := by simp [deadNps, hD]
    have hs : ∀ l : List MailboxRow, l.map (stamp (fun _ => false) L now) = l := by
      intro l
      conv => rhs; rw [← List.map_id l]
      apply List.map_congr_left
      intro m _; simp [stamp]
    cases d
    simp [Chan.sweepP, hD, hN, hs, filter_true']
  | cons a rest ih =>
    intro d h
    have h1 := h.sweepP (fun x => x == a) L now old
    simp only [pruneFold, List.foldl_cons]
    rw [pruneApp_eq_sweepP h L a hlt]
    have := ih h1
    unfold pruneFold at this
    rw [this, sweepP_sweepP]
    congr 1
    funext x
    by_cases hx : x = a <;> simp [hx]

/-- `A` true on every app that has a mailbox row: the sweep of all apps -/
theorem sweepP_all {d : Chan} {A : String → Bool} {L now old} (h : ∀ m ∈ d.mailboxes, A m.app = true) :
    d.sweepP A L now old = d.sweepP (fun _ => true) L now old :=
  sweepP_congr (by intro m hm; simp [h m hm])

end Chan
end Wormhole
