/-
  Two-run (simulation) library, part 1: definitions.

  Two runs of `Sys.step` on related states are compared by a relation `R : Sys → Sys → Prop`
  of which only a handful of closure properties are needed (`SimRel R`): `R` is preserved when
  both runs do the SAME channel-side primitive (`modDb`, `commit`, a replacement of the
  connection table, `emit`), and when both runs go through the same *usage block* of the code
  (`uNp`, `uMb`, `uCommit`, `logClientVersion`) — the blocks guarded by `if self._usage_db`.
  Everything else (all of Core.lean except `dump_stats`, all of Ws.lean) is walked ONCE, for an
  arbitrary `R` with these properties, in `SimCore.lean` / `SimWs.lean`.

  Two instances:
  * `CfgRel` (SimCfg.lean, for C18): the runs may differ in `cfg.allowList`, `cfg.usage`,
    `cfg.blur`, `udb`, `udisk`, `rebooted`; events are compared after `eraseCfg`;
  * `RebRel` (SimReboot.lean, for C11): the runs differ in `rebooted` and the usage `current`
    row only; events are compared exactly.
-/
import Wormhole.Inv.SyncLemmas

namespace Wormhole

/-- same channel side: the channel database as seen by the process, as committed, and the
    connection records -/
def ChanEq (s₁ s₂ : Sys) : Prop := s₁.db = s₂.db ∧ s₁.disk = s₂.disk ∧ s₁.conns = s₂.conns

theorem ChanEq.refl (s : Sys) : ChanEq s s := ⟨rfl, rfl, rfl⟩
theorem ChanEq.symm {a b : Sys} (h : ChanEq a b) : ChanEq b a := ⟨h.1.symm, h.2.1.symm, h.2.2.symm⟩
theorem ChanEq.trans {a b c : Sys} (h : ChanEq a b) (h' : ChanEq b c) : ChanEq a c :=
  ⟨h.1.trans h'.1, h.2.1.trans h'.2.1, h.2.2.trans h'.2.2⟩

/-- What the listing / usage options may change in a trace, erased:
    (a) effective commits of the usage database are dropped;
    (b) the payload of a `nameplates` answer is replaced by `[]`;
    everything else — every other frame with its `synced` flag, channel commits, `internal`
    and `fired` events — is kept. -/
def eraseCfg : Event → Option Event
  | .commit .usage => none
  | .frame c (.nameplates _) b => some (.frame c (.nameplates []) b)
  | e => some e

/-- only the effective commits of the usage database are dropped -/
def eraseUsage : Event → Option Event
  | .commit .usage => none
  | e => some e

namespace Sys

/-! ### the usage blocks of Core.lean -/

/-- `if self._usage_db: _summarize_nameplate_and_store(...)` -/
def uNp (s : Sys) (app : String) (sides : List NpSide) (t : Time) (pruned : Bool) : Sys × Bool :=
  if s.cfg.usage then s.storeNameplateUsage app sides t pruned else (s, true)

/-- `if self._usage_db: _summarize_mailbox_and_store(...)` -/
def uMb (s : Sys) (app : String) (forNp : Bool) (sides : List MbSide) (t : Time) (pruned : Bool) : Sys :=
  if s.cfg.usage then s.storeMailboxUsage app forNp sides t pruned else s

/-- `if self._usage_db: self._usage_db.commit()` -/
def uCommit (s : Sys) : Sys := if s.cfg.usage then s.ucommit else s

/-- the loop of repair F in `Mailbox.close`, guarded -/
def uNps (s : Sys) (app : String) (t : Time) : List Nameplate → Sys × Bool
  | [] => (s, true)
  | np :: rest =>
    match s.uNp app (s.db.npSidesOf np.id) t false with
    | (s1, false) => (s1, false)
    | (s1, true) => uNps s1 app t rest

/-- `expire()` up to, and not including, `dump_stats` -/
def expireCore (s : Sys) (now : Time) (fault : Bool) : Sys :=
  let old := now - Generated.expirationTicks
  let s0 := s.emit (.fired now old)
  if fault then s0.emit (.internal none "OperationalError")
  else match s0.pruneApps now old (s0.allApps) with
    | (s1, true) => s1
    | (s1, false) => s1.emit (.internal none "IndexError")

theorem expire_eq (s : Sys) (now : Time) (fault : Bool) :
    s.expire now fault = (s.expireCore now fault).dumpStats now := rfl

end Sys

/-- The closure properties of a two-run relation that the generic walk needs. -/
structure SimRel (R : Sys → Sys → Prop) : Prop where
  chan : ∀ {a b}, R a b → ChanEq a b
  welcome : ∀ {a b}, R a b → a.cfg.welcome = b.cfg.welcome
  modDb : ∀ {a b}, R a b → ∀ f, R (a.modDb f) (b.modDb f)
  commit : ∀ {a b}, R a b → R a.commit b.commit
  setConns : ∀ {a b : Sys}, R a b → ∀ l, R { a with conns := l } { b with conns := l }
  emit : ∀ {a b}, R a b → ∀ e, R (a.emit e) (b.emit e)
  /-- the one place `cfg.allowList` is read; both runs are at a point with nothing uncommitted -/
  list : ∀ {a b}, R a b → a.Synced → b.Synced → ∀ x app, R (a.handleList x app) (b.handleList x app)
  uNp : ∀ {a b}, R a b → ∀ app sides t p, R (a.uNp app sides t p).1 (b.uNp app sides t p).1
  uMb : ∀ {a b}, R a b → ∀ app f sides t p, R (a.uMb app f sides t p) (b.uMb app f sides t p)
  uCommit : ∀ {a b}, R a b → R a.uCommit b.uCommit
  lcv : ∀ {a b}, R a b → ∀ app side t i v,
    R (a.logClientVersion app side t i v) (b.logClientVersion app side t i v)
  restart : ∀ {a b}, R a b → ∀ t, R (a.restart t) (b.restart t)

/-- relation lifted to `Option` -/
def ORel (R : Sys → Sys → Prop) : Option Sys → Option Sys → Prop
  | none, none => True
  | some a, some b => R a b
  | _, _ => False

namespace Sys

/-! ### one-run facts about the usage blocks -/

section blocks
variable (s : Sys)

@[simp] theorem uNp_db (app sides t p) : (s.uNp app sides t p).1.db = s.db := by
  unfold uNp storeNameplateUsage
  split
  · split <;> rfl
  · rfl
@[simp] theorem uNp_cfg (app sides t p) : (s.uNp app sides t p).1.cfg = s.cfg := by
  unfold uNp storeNameplateUsage
  split
  · split <;> rfl
  · rfl
@[simp] theorem uMb_db (app f sides t p) : (s.uMb app f sides t p).db = s.db := by
  unfold uMb; split <;> rfl
@[simp] theorem uMb_cfg (app f sides t p) : (s.uMb app f sides t p).cfg = s.cfg := by
  unfold uMb; split <;> rfl
@[simp] theorem uCommit_db : s.uCommit.db = s.db := by unfold uCommit; split <;> simp
@[simp] theorem uCommit_cfg : s.uCommit.cfg = s.cfg := by unfold uCommit; split <;> simp

theorem uNp_true (app) {sides : List NpSide} (t p) (h : sides ≠ []) : (s.uNp app sides t p).2 = true := by
  unfold uNp
  split
  · cases e : s.storeNameplateUsage app sides t p with
    | mk s1 b => exact (storeNameplateUsage_spec e).2 h
  · rfl

end blocks

/-! ### Core.lean rewritten over the blocks -/

theorem closeStore_eq_uNps (app : String) (t : Time) (l : List Nameplate) :
    ∀ s : Sys, (if s.cfg.usage then s.storeNameplatesOfMailbox app t l else (s, true)) = s.uNps app t l := by
  induction l with
  | nil => intro s; simp [storeNameplatesOfMailbox, uNps]
  | cons np rest ih =>
    intro s
    unfold storeNameplatesOfMailbox uNps
    by_cases hu : s.cfg.usage = true
    · simp only [hu, ↓reduceIte, uNp]
      cases e : s.storeNameplateUsage app (s.db.npSidesOf np.id) t false with
      | mk s1 b =>
        cases b with
        | false => rfl
        | true =>
          have hc : s1.cfg.usage = true := by rw [(storeNameplateUsage_spec e).1.cfg]; exact hu
          have := ih s1
          simp only [hc, ↓reduceIte] at this
          exact this
    · have := ih s
      simp only [hu, uNp] at this ⊢
      exact this

theorem mailboxClose_eq (s : Sys) (app mb side : String) (mood : Option String) (t : Time) :
    s.mailboxClose app mb side mood t =
      match s.db.findMailbox app mb with
      | none => (s, true)
      | some row =>
        match s.db.findMbSide mb side with
        | none => (s, true)
        | some _ =>
          let s1 := (s.modDb (·.closeSide mb side mood)).commit
          let sideRows := s1.db.mbSidesOf mb
          if sideRows.any (·.opened) then (s1, true)
          else
            match s1.uNps app t (s1.db.nameplatesOfMailbox app mb) with
            | (s2, false) => (s2, false)
            | (s2, true) =>
              let s3 := s2.modDb (fun d =>
                ((((d.delNpSidesOfMailbox app mb).delNameplatesOfMailbox app mb).delMessagesOf mb).delMbSidesOf
                  mb).delMailbox mb)
              ((((s3.uMb app row.forNp sideRows t false).uCommit).commit).stopListeners app mb, true) := by
  unfold mailboxClose
  cases s.db.findMailbox app mb with
  | none => rfl
  | some row =>
    dsimp only
    cases s.db.findMbSide mb side with
    | none => rfl
    | some r =>
      dsimp only
      split
      · rfl
      · rw [closeStore_eq_uNps]
        cases e : ((s.modDb (·.closeSide mb side mood)).commit).uNps app t
            (((s.modDb (·.closeSide mb side mood)).commit).db.nameplatesOfMailbox app mb) with
        | mk s2 ok =>
          cases ok with
          | false => rfl
          | true =>
            dsimp only
            simp only [Bool.not_true, Bool.false_eq_true, ↓reduceIte, uMb, uCommit, modDb_cfg]
            by_cases hu : s2.cfg.usage = true <;> simp [hu, storeMailboxUsage]

theorem releaseNameplate_eq (s : Sys) (app name side : String) (t : Time) :
    s.releaseNameplate app name side t =
      match s.db.findNameplate app name with
      | none => (s, true)
      | some np =>
        match s.db.findNpSide np.id side with
        | none => (s, true)
        | some _ =>
          let s1 := (s.modDb (·.unclaim np.id side)).commit
          let sideRows := s1.db.npSidesOf np.id
          if sideRows.any (·.claimed) then (s1, true)
          else
            let s2 := s1.modDb (fun d => (d.delNpSidesOf np.id).delNameplate np.id)
            match s2.uNp app sideRows t false with
            | (s3, false) => (s3, false)
            | (s3, true) => ((s3.uCommit).commit, true) := by
  unfold releaseNameplate
  cases s.db.findNameplate app name with
  | none => rfl
  | some np =>
    dsimp only
    cases s.db.findNpSide np.id side with
    | none => rfl
    | some r =>
      dsimp only
      split
      · rfl
      · unfold uNp
        split
        · rename_i hu
          split
          · rename_i s3 e
            simp only [e]
          · rename_i s3 e
            have hc : s3.cfg.usage = true := by rw [(storeNameplateUsage_spec e).1.cfg]; exact hu
            simp only [e, uCommit, hc, ↓reduceIte]
        · rename_i hu
          simp only [uCommit, hu]
          rfl

theorem pruneNameplates_cons (s : Sys) (app : String) (now : Time) (np : Nameplate) (rest : List Nameplate) :
    s.pruneNameplates app now (np :: rest) =
      match (s.modDb (fun d => (d.delNpSidesOf np.id).delNameplate np.id)).uNp app (s.db.npSidesOf np.id) now true with
      | (s2, false) => (s2, false)
      | (s2, true) => s2.pruneNameplates app now rest := by
  rw [pruneNameplates]
  unfold uNp
  split
  · rfl
  · rfl

theorem pruneMailboxes_cons (s : Sys) (app : String) (now : Time) (row : MailboxRow) (rest : List MailboxRow) :
    s.pruneMailboxes app now (row :: rest) =
      ((s.modDb (fun d => ((d.delMessagesOf row.id).delMbSidesOf row.id).delMailbox row.id)).uMb app row.forNp
        (s.db.mbSidesOf row.id) now true).pruneMailboxes app now rest := rfl

theorem pruneRest_eq (s1 : Sys) (app : String) (now : Time) (oldMb : List MailboxRow) (oldNp : List Nameplate) :
    pruneRest s1 app now oldMb oldNp =
      match s1.pruneNameplates app now oldNp with
      | (s2, false) => (s2, false)
      | (s2, true) =>
        let s3 := s2.pruneMailboxes app now oldMb
        if oldNp ≠ [] ∨ oldMb ≠ [] then ((s3.commit).uCommit, true) else (s3, true) := rfl

end Sys
end Wormhole
