/-
  Sys-level preservation, function by function (Core.lean = server.py).

  `Good U t S s`:
    * the server's view `db`, the committed state `disk` and EVERY snapshot taken at a commit
      point of the current step satisfy `Chan.CInv` (these snapshots are exactly what a kill -9
      can leave on disk) and `Chan.MbQ U t` (every mailbox id is known, no row is stamped later
      than `t`);
    * every LISTENING connection's handle points at an existing mailbox row of its app;
    * if `S` (crash-free history) the server's view satisfies the strengthening `SExtra`.
  Every function of Core.lean maps `Good` states to `Good` states; the lemmas also record the
  return value facts needed for "no internal error" (C17) and what happens to `conns`/`cfg`.
-/
import Wormhole.Inv.ChanLemmas
import Wormhole.Inv.SyncLemmas

set_option linter.unusedSimpArgs false

namespace Wormhole

/-- the expiry horizon is positive (re-checked whenever `Generated.lean` is regenerated) -/
theorem expirationTicks_pos : 0 < Generated.expirationTicks := by decide

namespace Chan

/-- commit-point invariant plus the ghost facts about mailbox rows -/
structure CQ (U : String → Prop) (t : Time) (d : Chan) : Prop where
  cinv : d.CInv
  q : d.MbQ U t

end Chan

namespace Sys

/-- the committed state and all snapshots of this step are in order -/
structure DGood (U : String → Prop) (t : Time) (s : Sys) : Prop where
  disk : s.disk.CQ U t
  snaps : ∀ p ∈ s.snaps, p.1.CQ U t

/-- a listening connection's handle points at an existing mailbox row of the connection's app -/
def LHandleOk (s : Sys) : Prop :=
  ∀ x ∈ s.conns, x.listening = true → ∀ mb, x.mailbox = some mb → ∃ a, x.app = some a ∧ s.db.HasMb a mb

structure Good0 (U : String → Prop) (t : Time) (s : Sys) : Prop where
  db : s.db.CQ U t
  d : s.DGood U t
  lh : s.LHandleOk

structure Good (U : String → Prop) (t : Time) (S : Prop) (s : Sys) : Prop extends Good0 U t s where
  sx : S → s.db.SExtra

section prim
variable {U : String → Prop} {t : Time} {S : Prop} {s : Sys}

@[simp] theorem commit_snaps_mem (p : Chan × Usage) :
    p ∈ s.commit.snaps ↔ p ∈ s.snaps ∨ (¬ s.db = s.disk ∧ p = (s.db, s.udisk)) := by
  unfold commit; split <;> simp_all

@[simp] theorem ucommit_snaps_mem (p : Chan × Usage) :
    p ∈ s.ucommit.snaps ↔ p ∈ s.snaps ∨ (¬ s.udb = s.udisk ∧ p = (s.disk, s.udb)) := by
  unfold ucommit; split <;> simp_all

theorem DGood.commit (h : s.DGood U t) (hdb : s.db.CQ U t) : s.commit.DGood U t := by
  refine ⟨by simpa using hdb, ?_⟩
  intro p hp
  rcases (commit_snaps_mem p).1 hp with hp | ⟨_, rfl⟩
  · exact h.snaps p hp
  · exact hdb

theorem DGood.ucommit (h : s.DGood U t) : s.ucommit.DGood U t := by
  refine ⟨by simpa using h.disk, ?_⟩
  intro p hp
  rcases (ucommit_snaps_mem p).1 hp with hp | ⟨_, rfl⟩
  · exact h.snaps p hp
  · exact h.disk

theorem DGood.of_eq {s' : Sys} (h : s.DGood U t) (e1 : s'.disk = s.disk) (e2 : s'.snaps = s.snaps) :
    s'.DGood U t := by
  refine ⟨by rw [e1]; exact h.disk, ?_⟩
  rw [e2]; exact h.snaps

@[simp] theorem commit_snaps_out_conns : s.commit.conns = s.conns := commit_conns s

theorem LHandleOk.of_eq {s' : Sys} (h : s.LHandleOk) (e1 : s'.conns = s.conns)
    (e2 : ∀ a m, s.db.HasMb a m → s'.db.HasMb a m) : s'.LHandleOk := by
  intro x hx hl mb hm
  rw [e1] at hx
  obtain ⟨a, ha, hb⟩ := h x hx hl mb hm
  exact ⟨a, ha, e2 a mb hb⟩

/-- a block of statements followed by `db.commit()` -/
theorem Good0.modDb_commit (h : s.Good0 U t) (f : Chan → Chan) (hf : (f s.db).CQ U t)
    (hm : ∀ a m, s.db.HasMb a m → (f s.db).HasMb a m) : ((s.modDb f).commit).Good0 U t := by
  refine ⟨by simpa using hf, DGood.commit (h.d.of_eq rfl rfl) hf, ?_⟩
  exact h.lh.of_eq (by simp) (by simpa using hm)

theorem Good0.commit (h : s.Good0 U t) : s.commit.Good0 U t :=
  ⟨by simpa using h.db, h.d.commit h.db, h.lh.of_eq (by simp) (by simp)⟩

theorem Good0.ucommit (h : s.Good0 U t) : s.ucommit.Good0 U t :=
  ⟨by simpa using h.db, h.d.ucommit, h.lh.of_eq (by simp) (by simp)⟩

theorem Good0.modUdb (h : s.Good0 U t) (f) : (s.modUdb f).Good0 U t :=
  ⟨h.db, h.d.of_eq rfl rfl, h.lh.of_eq rfl (fun _ _ x => x)⟩

theorem Good0.emit (h : s.Good0 U t) (e) : (s.emit e).Good0 U t :=
  ⟨h.db, h.d.of_eq rfl rfl, h.lh.of_eq rfl (fun _ _ x => x)⟩

theorem Good.commit (h : s.Good U t S) : s.commit.Good U t S :=
  ⟨h.toGood0.commit, by simpa using h.sx⟩

theorem Good.ucommit (h : s.Good U t S) : s.ucommit.Good U t S :=
  ⟨h.toGood0.ucommit, by simpa using h.sx⟩

theorem Good.modUdb (h : s.Good U t S) (f) : (s.modUdb f).Good U t S :=
  ⟨h.toGood0.modUdb f, h.sx⟩

theorem Good.emit (h : s.Good U t S) (e) : (s.emit e).Good U t S :=
  ⟨h.toGood0.emit e, h.sx⟩

theorem Good.send (h : s.Good U t S) (c f) : (s.send c f).Good U t S := h.emit _

/-- states that differ in the usage tables / events only -/
theorem Good.of_uonly {s' : Sys} (h : s.Good U t S) (e1 : s'.db = s.db) (e2 : s'.disk = s.disk)
    (e3 : s'.snaps = s.snaps) (e4 : s'.conns = s.conns) : s'.Good U t S := by
  refine ⟨⟨by rw [e1]; exact h.db, h.d.of_eq e2 e3, h.lh.of_eq e4 (by rw [e1]; exact fun _ _ x => x)⟩, ?_⟩
  rw [e1]; exact h.sx

end prim

/-! ### writes to the usage tables only -/

/-- `s'` differs from `s` in the (uncommitted) usage tables only -/
def UdbOnly (s s' : Sys) : Prop := ∃ u, s' = { s with udb := u }

theorem UdbOnly.refl (s : Sys) : UdbOnly s s := ⟨s.udb, rfl⟩
theorem UdbOnly.trans {a b c : Sys} (h1 : UdbOnly a b) (h2 : UdbOnly b c) : UdbOnly a c := by
  obtain ⟨u, rfl⟩ := h1
  obtain ⟨v, rfl⟩ := h2
  exact ⟨v, rfl⟩

section udbOnly
variable {s s' : Sys} (h : UdbOnly s s')
include h
theorem UdbOnly.db : s'.db = s.db := by obtain ⟨u, rfl⟩ := h; rfl
theorem UdbOnly.disk : s'.disk = s.disk := by obtain ⟨u, rfl⟩ := h; rfl
theorem UdbOnly.udisk : s'.udisk = s.udisk := by obtain ⟨u, rfl⟩ := h; rfl
theorem UdbOnly.snaps : s'.snaps = s.snaps := by obtain ⟨u, rfl⟩ := h; rfl
theorem UdbOnly.conns : s'.conns = s.conns := by obtain ⟨u, rfl⟩ := h; rfl
theorem UdbOnly.cfg : s'.cfg = s.cfg := by obtain ⟨u, rfl⟩ := h; rfl
theorem UdbOnly.out : s'.out = s.out := by obtain ⟨u, rfl⟩ := h; rfl
end udbOnly

theorem storeNameplateUsage_udbOnly (s : Sys) (app sides t p) :
    UdbOnly s (s.storeNameplateUsage app sides t p).1 := by
  unfold storeNameplateUsage
  split
  · exact UdbOnly.refl _
  · exact ⟨_, rfl⟩

theorem storeMailboxUsage_udbOnly (s : Sys) (app forNp sides t p) :
    UdbOnly s (s.storeMailboxUsage app forNp sides t p) := ⟨_, rfl⟩

theorem storeNameplatesOfMailbox_udbOnly {app t} (l : List Nameplate) :
    ∀ (s : Sys), UdbOnly s (s.storeNameplatesOfMailbox app t l).1 := by
  induction l with
  | nil => intro s; exact UdbOnly.refl _
  | cons np rest ih =>
    intro s
    unfold storeNameplatesOfMailbox
    have h1 := storeNameplateUsage_udbOnly s app (s.db.npSidesOf np.id) t false
    split
    · rename_i s1 e; rw [e] at h1; exact h1
    · rename_i s1 e; rw [e] at h1; exact h1.trans (ih s1)

section
variable {U : String → Prop} {t : Time} {S : Prop}

theorem Good.of_udbOnly {s s' : Sys} (h : s.Good U t S) (u : UdbOnly s s') : s'.Good U t S :=
  h.of_uonly u.db u.disk u.snaps u.conns

theorem Good0.of_udbOnly {s s' : Sys} (h : s.Good0 U t) (u : UdbOnly s s') : s'.Good0 U t :=
  (Good.of_udbOnly (S := False) ⟨h, False.elim⟩ u).toGood0

/-! ### Mailbox.open, _add_mailbox, open_mailbox, _add_message -/

theorem mailboxOpen_eq (s : Sys) (mb side : String) (t : Time) :
    s.mailboxOpen mb side t = (s.modDb (·.openSide mb side t)).commit := by
  unfold mailboxOpen Chan.openSide
  simp only [modDb]
  cases s.db.findMbSide mb side <;> rfl

theorem Good0.mailboxOpen {s : Sys} (h : s.Good0 U t) {mb : String} (side : String)
    (hmb : ∃ m ∈ s.db.mailboxes, m.id = mb) : (s.mailboxOpen mb side t).Good0 U t := by
  rw [mailboxOpen_eq]
  exact h.modDb_commit _ ⟨h.db.cinv.openSide mb side t hmb, h.db.q.openSide mb side⟩ (by simp)

theorem addMailbox_cases {s s1 : Sys} {app mb : String} {fn : Bool} {t : Time}
    (e : s.addMailbox app mb fn t = some s1) :
    (s1 = s ∧ s.db.HasMb app mb) ∨
    (s1 = s.modDb (·.insMailbox ⟨app, mb, t, fn⟩) ∧ s.db.findMailboxById mb = none) := by
  unfold addMailbox at e
  split at e
  · rename_i row e1
    cases e
    exact Or.inl ⟨rfl, Chan.findMailbox_hasMb e1⟩
  · split at e
    · cases e
    · rename_i e2
      cases e
      exact Or.inr ⟨rfl, e2⟩

theorem addMailbox_none {s : Sys} {app mb : String} {fn : Bool} {t : Time}
    (e : s.addMailbox app mb fn t = none) :
    ¬ s.db.HasMb app mb ∧ ∃ m ∈ s.db.mailboxes, m.id = mb := by
  unfold addMailbox at e
  split at e
  · cases e
  · rename_i e1
    split at e
    · rename_i row e2
      obtain ⟨a, b⟩ := Chan.findMailboxById_some e2
      exact ⟨Chan.findMailbox_none e1, row, a, b⟩
    · cases e

/-- the state after `_add_mailbox` succeeded: the row `(app, mb)` is there -/
theorem addMailbox_good0 {s s1 : Sys} {app mb : String} {fn : Bool} (h : s.Good0 U t) (hu : U mb)
    (e : s.addMailbox app mb fn t = some s1) :
    s1.Good0 U t ∧ s1.conns = s.conns ∧ s1.cfg = s.cfg ∧ s1.disk = s.disk ∧ s1.snaps = s.snaps ∧
      (∀ a m, s.db.HasMb a m → s1.db.HasMb a m) ∧ s1.db.HasMb app mb ∧ s1.db.npPart = s.db.npPart ∧
      (s.db.SExtra' mb → s1.db.SExtra' mb) := by
  rcases addMailbox_cases e with ⟨rfl, hmb⟩ | ⟨rfl, hfree⟩
  · exact ⟨h, rfl, rfl, rfl, rfl, fun _ _ x => x, hmb, rfl, id⟩
  · have hdb : (s.db.insMailbox ⟨app, mb, t, fn⟩).CQ U t :=
      ⟨Chan.CInv.of_pinv_npOk (h.db.cinv.toPInv.insMailbox hfree) (h.db.cinv.npOk.of_npPart (by rfl)),
       h.db.q.insMailbox hu (Int.le_refl _)⟩
    have hm : ∀ a m, s.db.HasMb a m → (s.db.insMailbox ⟨app, mb, t, fn⟩).HasMb a m :=
      fun a m x => (Chan.hasMb_insMailbox _ _ _ _).2 (Or.inl x)
    refine ⟨⟨hdb, h.d.of_eq rfl rfl, h.lh.of_eq rfl hm⟩, rfl, rfl, rfl, rfl, hm, ?_, rfl, ?_⟩
    · exact (Chan.hasMb_insMailbox _ _ _ _).2 (Or.inr ⟨rfl, rfl⟩)
    · intro hx
      exact hx.insMailbox h.db.cinv.toPInv rfl hfree

/-- `open_mailbox`: an IntegrityError (finding K-global-mailbox-id) happens exactly when the id
    exists under another app, and then nothing was written; otherwise the row `(app, mb)` exists
    afterwards and the state is committed -/
theorem openMailbox_good0 {s s1 : Sys} {app mb side : String} {r : OpenRes} (h : s.Good0 U t) (hu : U mb)
    (e : s.openMailbox app mb side t = (s1, r)) :
    s1.Good0 U t ∧ s1.conns = s.conns ∧ s1.cfg = s.cfg ∧ (∀ a m, s.db.HasMb a m → s1.db.HasMb a m) ∧
      (r ≠ .integrity → s1.db.HasMb app mb) ∧
      (r = .integrity → s1 = s ∧ ¬ s.db.HasMb app mb ∧ ∃ m ∈ s.db.mailboxes, m.id = mb) ∧
      (s.db.SExtra' mb → r ≠ .integrity → s1.db.SExtra) := by
  unfold openMailbox at e
  split at e
  · rename_i e0
    simp only [Prod.mk.injEq] at e
    obtain ⟨rfl, rfl⟩ := e
    obtain ⟨a, b⟩ := addMailbox_none e0
    exact ⟨h, rfl, rfl, fun _ _ x => x, fun x => absurd rfl x, fun _ => ⟨rfl, a, b⟩, fun _ x => absurd rfl x⟩
  · rename_i s0 e0
    obtain ⟨g0, c0, f0, _, _, m0, hmb0, _, x0⟩ := addMailbox_good0 h hu e0
    have hex : ∃ m ∈ s0.db.mailboxes, m.id = mb := by
      obtain ⟨m, hm, e1, _⟩ := hmb0; exact ⟨m, hm, e1⟩
    have g2 : ((s0.mailboxOpen mb side t).commit).Good0 U t := (g0.mailboxOpen side hex).commit
    have hdb2 : ((s0.mailboxOpen mb side t).commit).db = s0.db.openSide mb side t := by
      rw [mailboxOpen_eq]; simp
    have key : ((s0.mailboxOpen mb side t).commit).Good0 U t ∧
        ((s0.mailboxOpen mb side t).commit).conns = s.conns ∧
        ((s0.mailboxOpen mb side t).commit).cfg = s.cfg ∧
        (∀ a m, s.db.HasMb a m → ((s0.mailboxOpen mb side t).commit).db.HasMb a m) ∧
        ((s0.mailboxOpen mb side t).commit).db.HasMb app mb ∧
        (s.db.SExtra' mb → ((s0.mailboxOpen mb side t).commit).db.SExtra) := by
      refine ⟨g2, ?_, ?_, ?_, ?_, ?_⟩
      · rw [mailboxOpen_eq]; simpa using c0
      · simpa using f0
      · intro a m x; rw [hdb2]; simpa using m0 a m x
      · rw [hdb2]; simpa using hmb0
      · intro x; rw [hdb2]; exact (x0 x).openSide side t
    dsimp only at e
    split at e <;>
    · simp only [Prod.mk.injEq] at e
      obtain ⟨rfl, rfl⟩ := e
      obtain ⟨k1, k2, k3, k4, k5, k6⟩ := key
      exact ⟨k1, k2, k3, k4, fun _ => k5, (fun x => nomatch x), fun x _ => k6 x⟩

theorem openMailbox_good {s s1 : Sys} {app mb side : String} {r : OpenRes} (h : s.Good U t S) (hu : U mb)
    (e : s.openMailbox app mb side t = (s1, r)) :
    s1.Good U t S ∧ s1.conns = s.conns ∧ s1.cfg = s.cfg ∧ (∀ a m, s.db.HasMb a m → s1.db.HasMb a m) ∧
      (r ≠ .integrity → s1.db.HasMb app mb) ∧
      (r = .integrity → ¬ s.db.HasMb app mb ∧ ∃ m ∈ s.db.mailboxes, m.id = mb) := by
  obtain ⟨k1, k2, k3, k4, k5, k6, k7⟩ := openMailbox_good0 h.toGood0 hu e
  refine ⟨⟨k1, ?_⟩, k2, k3, k4, k5, fun x => (k6 x).2⟩
  intro hS
  by_cases hr : r = .integrity
  · rw [(k6 hr).1]; exact h.sx hS
  · exact k7 ((h.sx hS).weaken mb) hr

theorem addMessage_good {s : Sys} (h : s.Good U t S) {app mb : String} (side ph bd id)
    (hmb : s.db.HasMb app mb) : (s.addMessage app mb side ph bd t id).Good U t S := by
  have e : s.addMessage app mb side ph bd t id =
      (s.modDb (fun d => (d.insMessage ⟨app, mb, side, ph.toText, bd.toText, t, id.toText⟩).touch mb t)).commit := rfl
  rw [e]
  refine ⟨h.toGood0.modDb_commit _ ⟨?_, ?_⟩ (by simp), ?_⟩
  · exact Chan.CInv.of_pinv_npOk ((h.db.cinv.toPInv.insMessage (r := ⟨app, mb, _, _, _, _, _⟩) hmb).touch mb t)
      (h.db.cinv.npOk.of_npPart (by rfl))
  · exact Chan.MbQ.touch (d := s.db.insMessage _) h.db.q mb
  · intro hS
    simpa using ((h.sx hS).insMessage _).touch mb t

@[simp] theorem addMessage_conns' (s : Sys) (app mb side ph bd t id) :
    (s.addMessage app mb side ph bd t id).conns = s.conns := by
  simp [addMessage]

@[simp] theorem addMessage_hasMb (s : Sys) (app mb side ph bd t id a m) :
    (s.addMessage app mb side ph bd t id).db.HasMb a m ↔ s.db.HasMb a m := by
  simp [addMessage]

end

/-! ### Mailbox.close -/

section
variable {U : String → Prop} {t : Time} {S : Prop}

@[simp] theorem storeMailboxUsage_db (s : Sys) (a f sd t p) : (s.storeMailboxUsage a f sd t p).db = s.db := rfl
@[simp] theorem storeMailboxUsage_disk (s : Sys) (a f sd t p) : (s.storeMailboxUsage a f sd t p).disk = s.disk := rfl
@[simp] theorem storeMailboxUsage_conns (s : Sys) (a f sd t p) : (s.storeMailboxUsage a f sd t p).conns = s.conns := rfl
@[simp] theorem storeMailboxUsage_cfg (s : Sys) (a f sd t p) : (s.storeMailboxUsage a f sd t p).cfg = s.cfg := rfl
@[simp] theorem storeMailboxUsage_snaps (s : Sys) (a f sd t p) : (s.storeMailboxUsage a f sd t p).snaps = s.snaps := rfl

/-- a block of deletions, the usage record with its commit, and `db.commit()` -/
theorem closeTail_good {s2 : Sys} (h2 : s2.DGood U t) (f : Chan → Chan) (hdb : (f s2.db).CQ U t)
    (app : String) (forNp : Bool) (sides : List MbSide) (t' : Time) (p : Bool) :
    ((if (s2.modDb f).cfg.usage then ((s2.modDb f).storeMailboxUsage app forNp sides t' p).ucommit
      else s2.modDb f).commit).DGood U t ∧
    ((if (s2.modDb f).cfg.usage then ((s2.modDb f).storeMailboxUsage app forNp sides t' p).ucommit
      else s2.modDb f).commit).db = f s2.db ∧
    ((if (s2.modDb f).cfg.usage then ((s2.modDb f).storeMailboxUsage app forNp sides t' p).ucommit
      else s2.modDb f).commit).conns = s2.conns ∧
    ((if (s2.modDb f).cfg.usage then ((s2.modDb f).storeMailboxUsage app forNp sides t' p).ucommit
      else s2.modDb f).commit).cfg = s2.cfg := by
  have h3 : (s2.modDb f).DGood U t := h2.of_eq rfl rfl
  split
  · refine ⟨DGood.commit (DGood.ucommit (h3.of_eq rfl rfl)) (by simpa using hdb), by simp, by simp, by simp⟩
  · exact ⟨DGood.commit h3 (by simpa using hdb), by simp, by simp, by simp⟩

theorem mem_stopListeners {s : Sys} {app mb : String} {y : Conn} (hy : y ∈ (s.stopListeners app mb).conns) :
    (y ∈ s.conns ∧ ¬ (y.listening = true ∧ y.app = some app ∧ y.mailbox = some mb)) ∨
    (y.listening = false ∧ y.mailbox = none ∧ ∃ x ∈ s.conns, y = { x with mailbox := none, listening := false }) := by
  simp only [stopListeners, List.mem_map] at hy
  obtain ⟨x, hx, rfl⟩ := hy
  split
  · exact Or.inr ⟨rfl, rfl, x, hx, rfl⟩
  · rename_i hc
    exact Or.inl ⟨hx, hc⟩

/-- `Mailbox.close`: never fails (given the invariant), and when it deletes the mailbox every
    listener has dropped its handle -/
theorem mailboxClose_good {s s1 : Sys} {app mb side : String} {mood : Option String} {t' : Time} {b : Bool}
    (h : s.Good U t S) (e : s.mailboxClose app mb side mood t' = (s1, b)) :
    s1.Good U t S ∧ b = true ∧ s1.cfg = s.cfg ∧
      (s1.conns = s.conns ∨ s1.conns = (s.stopListeners app mb).conns) := by
  unfold mailboxClose at e
  split at e
  · simp only [Prod.mk.injEq] at e
    obtain ⟨rfl, rfl⟩ := e
    exact ⟨h, rfl, rfl, Or.inl rfl⟩
  · rename_i row erow
    have hmb : s.db.HasMb app mb := Chan.findMailbox_hasMb erow
    split at e
    · simp only [Prod.mk.injEq] at e
      obtain ⟨rfl, rfl⟩ := e
      exact ⟨h, rfl, rfl, Or.inl rfl⟩
    · have hp1 : (s.db.closeSide mb side mood).PInv := h.db.cinv.toPInv.closeSide mb side mood
      have hn1 : (s.db.closeSide mb side mood).NpOk := h.db.cinv.npOk.of_npPart (by rfl)
      have hq1 : (s.db.closeSide mb side mood).MbQ U t := h.db.q.of_mailboxes_eq rfl
      have g1 : ((s.modDb (·.closeSide mb side mood)).commit).Good0 U t :=
        h.toGood0.modDb_commit _ ⟨.of_pinv_npOk hp1 hn1, hq1⟩ (by simp)
      dsimp only at e
      split at e
      · rename_i hany
        simp only [Prod.mk.injEq] at e
        obtain ⟨rfl, rfl⟩ := e
        refine ⟨⟨g1, ?_⟩, rfl, by simp, Or.inl (by simp)⟩
        intro hS
        have := (h.sx hS).closeSide_of_any (mb := mb) (side := side) (mood := mood) (by simpa using hany)
        simpa using this
      · generalize hE : (if ((s.modDb _).commit).cfg.usage then _ else _) = p at e
        obtain ⟨s2, ok⟩ := p
        have hu2 : UdbOnly ((s.modDb (·.closeSide mb side mood)).commit) s2 := by
          split at hE
          · have := storeNameplatesOfMailbox_udbOnly (app := app) (t := t')
              (((s.modDb (·.closeSide mb side mood)).commit).db.nameplatesOfMailbox app mb)
              ((s.modDb (·.closeSide mb side mood)).commit)
            rw [hE] at this; exact this
          · cases hE; exact UdbOnly.refl _
        obtain ⟨_, hok, _⟩ := closeStore_spec hE
        simp only [commit_db, modDb_db] at hok
        have hok' : ok = true := hok (fun n hn => npSidesOf_ne_nil (d := s.db.closeSide mb side mood) hn1.hasSide
          (List.mem_filter.1 hn).1)
        subst hok'
        have hdb2 : s2.db = s.db.closeSide mb side mood := by rw [hu2.db]; simp
        have hcfg2 : s2.cfg = s.cfg := by rw [hu2.cfg]; simp
        have hconns2 : s2.conns = s.conns := by rw [hu2.conns]; simp
        have g2 : s2.Good0 U t := g1.of_udbOnly hu2
        have hdbF : ((((((s.db.closeSide mb side mood).delNpSidesOfMailbox app mb).delNameplatesOfMailbox app
            mb).delMessagesOf mb).delMbSidesOf mb).delMailbox mb).CQ U t := by
          refine ⟨.of_pinv_npOk (hp1.closeBlock (by simpa using hmb)) ?_, (hq1.delMailbox mb).of_mailboxes_eq rfl⟩
          exact (hn1.delOfMailbox app mb).of_npPart (by rfl)
        obtain ⟨k1, k2, k3, k4⟩ := closeTail_good g2.d
          (fun d => ((((d.delNpSidesOfMailbox app mb).delNameplatesOfMailbox app mb).delMessagesOf mb).delMbSidesOf
              mb).delMailbox mb) (by rw [hdb2]; exact hdbF) app row.forNp
          (((s.modDb (·.closeSide mb side mood)).commit).db.mbSidesOf mb) t' false
        simp only [Bool.not_true, Bool.false_eq_true, ↓reduceIte, Prod.mk.injEq] at e
        obtain ⟨rfl, rfl⟩ := e
        refine ⟨⟨⟨?_, ?_, ?_⟩, ?_⟩, rfl, ?_, Or.inr ?_⟩
        · rw [stopListeners_db, k2, hdb2]; exact hdbF
        · exact k1.of_eq rfl rfl
        · intro y hy hl m hm
          have hy' : y ∈ (s.stopListeners app mb).conns := by
            simp only [stopListeners, k3, hconns2] at hy ⊢; exact hy
          rcases mem_stopListeners hy' with ⟨hy0, hc⟩ | ⟨hl', _⟩
          · obtain ⟨a, ha, hb⟩ := h.lh y hy0 hl m hm
            refine ⟨a, ha, ?_⟩
            rw [stopListeners_db, k2, hdb2]
            simp only [Chan.hasMb_delMailbox, Chan.hasMb_delMbSidesOf, Chan.hasMb_delMessagesOf,
              Chan.hasMb_delNameplatesOfMailbox, Chan.hasMb_delNpSidesOfMailbox, Chan.hasMb_closeSide]
            refine ⟨hb, ?_⟩
            rintro rfl
            have : a = app := h.db.cinv.toPInv.mb_app_unique hb hmb
            subst this
            exact hc ⟨hl, ha, hm⟩
          · rw [hl'] at hl; cases hl
        · intro hS
          rw [stopListeners_db, k2, hdb2]
          exact (h.sx hS).closeSide_closeBlock h.db.cinv.npIds app mb side mood
        · rw [stopListeners_cfg, k4, hcfg2]
        · simp only [stopListeners, k3, hconns2]

end

/-! ### claim_nameplate, release_nameplate -/

section
variable {U : String → Prop} {t : Time} {S : Prop}

/-- the continuation of `claim_nameplate` (commit, `open_mailbox`, crowding check) from a state
    whose nameplate tables are already in order and where the mailbox row exists: no
    IntegrityError is possible -/
theorem claimCont_good {s s1 : Sys} {app mb side : String} {npid : Nat} {r : ClaimRes} (h : s.Good0 U t)
    (hu : U mb) (hmb : s.db.HasMb app mb) (e : claimCont s app npid mb side t = (s1, r)) :
    s1.Good0 U t ∧ s1.conns = s.conns ∧ s1.cfg = s.cfg ∧ (∀ a m, s.db.HasMb a m → s1.db.HasMb a m) ∧
      r ≠ .integrity ∧ r ≠ .reclaimed ∧ (s.db.SExtra' mb → s1.db.SExtra) := by
  unfold claimCont at e
  dsimp only at e
  have hc : s.commit.Good0 U t := h.commit
  split at e
  all_goals
    rename_i s3 e3
    obtain ⟨k1, k2, k3, k4, k5, k6, k7⟩ := openMailbox_good0 hc hu e3
    simp only [commit_db, commit_conns, commit_cfg] at k2 k3 k4 k6 k7
  · exact absurd hmb (k6 trivial).2.1
  · simp only [Prod.mk.injEq] at e
    obtain ⟨rfl, rfl⟩ := e
    exact ⟨k1, k2, k3, k4, by simp, by simp, fun x => k7 x (by simp)⟩
  · split at e <;>
    · simp only [Prod.mk.injEq] at e
      obtain ⟨rfl, rfl⟩ := e
      exact ⟨k1, k2, k3, k4, by simp, by simp, fun x => k7 x (by simp)⟩

/-- `claim_nameplate`: IntegrityError only when `fresh` exists under another app (and then nothing
    was written); `ReclaimedError` before any write -/
theorem claimNameplate_good {s s1 : Sys} {app name side fresh : String} {r : ClaimRes} (h : s.Good U t S)
    (hu : U fresh) (e : s.claimNameplate app name side t fresh = (s1, r)) :
    s1.Good U t S ∧ s1.conns = s.conns ∧ s1.cfg = s.cfg ∧ (∀ a m, s.db.HasMb a m → s1.db.HasMb a m) ∧
      (r = .integrity → ¬ s.db.HasMb app fresh ∧ ∃ m ∈ s.db.mailboxes, m.id = fresh) := by
  unfold claimNameplate at e
  split at e
  · rename_i enp
    split at e
    · rename_i e0
      simp only [Prod.mk.injEq] at e
      obtain ⟨rfl, rfl⟩ := e
      exact ⟨h, rfl, rfl, fun _ _ x => x, fun _ => addMailbox_none e0⟩
    · rename_i s0 e0
      obtain ⟨g0, c0, f0, d0, sn0, m0, hmb0, np0, x0⟩ := addMailbox_good0 h.toGood0 hu e0
      have hnp := np0
      simp only [Chan.npPart, Prod.mk.injEq] at hnp
      obtain ⟨n1, n2, n3⟩ := hnp
      have enp0 : s0.db.findNameplate app name = none := by
        simpa [Chan.findNameplate, n1] using enp
      have hfresh : (s0.modDb (·.insNameplate app name fresh)).db.findNpSide s0.db.nextNp side = none := by
        have := g0.db.cinv.bounded.findNpSide_fresh side
        simpa [Chan.findNpSide, Chan.insNameplate] using this
      dsimp only at e
      rw [claimTail_eq, hfresh] at e
      dsimp only at e
      have gB : ((s0.modDb (·.insNameplate app name fresh)).modDb
          (·.insNpSide ⟨s0.db.nextNp, true, side, t⟩)).Good0 U t := by
        refine ⟨⟨g0.db.cinv.insNew side t enp0 hmb0, g0.db.q.of_mailboxes_eq rfl⟩, g0.d.of_eq rfl rfl,
          g0.lh.of_eq rfl (fun _ _ x => x)⟩
      obtain ⟨k1, k2, k3, k4, k5, _, k7⟩ := claimCont_good gB hu (by simpa using hmb0) e
      refine ⟨⟨k1, ?_⟩, k2.trans c0, k3.trans f0, fun a m x => k4 a m (by simpa using m0 a m x),
        fun x => absurd x k5⟩
      intro hS
      apply k7
      exact (x0 ((h.sx hS).weaken fresh)).insNew app name fresh side t
  · rename_i row erow
    obtain ⟨hrow, ra, rn⟩ := Chan.findNameplate_some erow
    have hmb : s.db.HasMb app row.mailbox := by
      obtain ⟨m, hm, e1, e2⟩ := h.db.cinv.npMb row hrow
      exact ⟨m, hm, e1, e2.trans ra⟩
    have hu' : U row.mailbox := by
      obtain ⟨m, hm, e1, _⟩ := hmb
      rw [← e1]; exact (h.db.q m hm).1
    rw [claimTail_eq] at e
    split at e
    · rename_i eside
      have gB : (s.modDb (·.insNpSide ⟨row.id, true, side, t⟩)).Good0 U t :=
        ⟨⟨h.db.cinv.insNpSide (r := ⟨row.id, true, side, t⟩) eside hrow rfl, h.db.q.of_mailboxes_eq rfl⟩,
          h.d.of_eq rfl rfl, h.lh.of_eq rfl (fun _ _ x => x)⟩
      obtain ⟨k1, k2, k3, k4, k5, _, k7⟩ := claimCont_good gB hu' (by simpa using hmb) e
      refine ⟨⟨k1, ?_⟩, k2, k3, k4, fun x => absurd x k5⟩
      intro hS
      exact k7 (((h.sx hS).insNpSide _).weaken _)
    · split at e
      · obtain ⟨k1, k2, k3, k4, k5, _, k7⟩ := claimCont_good h.toGood0 hu' hmb e
        exact ⟨⟨k1, fun hS => k7 ((h.sx hS).weaken _)⟩, k2, k3, k4, fun x => absurd x k5⟩
      · simp only [Prod.mk.injEq] at e
        obtain ⟨rfl, rfl⟩ := e
        exact ⟨h, rfl, rfl, fun _ _ x => x, fun x => nomatch x⟩

/-- `release_nameplate`: never fails -/
theorem releaseNameplate_good {s s1 : Sys} {app name side : String} {t' : Time} {b : Bool} (h : s.Good U t S)
    (e : s.releaseNameplate app name side t' = (s1, b)) :
    s1.Good U t S ∧ b = true ∧ s1.conns = s.conns ∧ s1.cfg = s.cfg := by
  unfold releaseNameplate at e
  split at e
  · simp only [Prod.mk.injEq] at e
    obtain ⟨rfl, rfl⟩ := e
    exact ⟨h, rfl, rfl, rfl⟩
  · rename_i np _
    split at e
    · simp only [Prod.mk.injEq] at e
      obtain ⟨rfl, rfl⟩ := e
      exact ⟨h, rfl, rfl, rfl⟩
    · rename_i r0 hr0
      have hp1 : (s.db.unclaim np.id side).PInv := h.db.cinv.toPInv.unclaim np.id side
      have hn1 : (s.db.unclaim np.id side).NpOk := h.db.cinv.npOk.unclaim np.id side
      have hq1 : (s.db.unclaim np.id side).MbQ U t := h.db.q.of_mailboxes_eq rfl
      have g1 : ((s.modDb (·.unclaim np.id side)).commit).Good0 U t :=
        h.toGood0.modDb_commit _ ⟨.of_pinv_npOk hp1 hn1, hq1⟩ (by simp)
      have hdbF : (((s.db.unclaim np.id side).delNpSidesOf np.id).delNameplate np.id).CQ U t :=
        ⟨.of_pinv_npOk (hp1.delById np.id) (hn1.delById np.id), hq1.of_mailboxes_eq rfl⟩
      have g2 : (((s.modDb (·.unclaim np.id side)).commit).modDb
          (fun d => (d.delNpSidesOf np.id).delNameplate np.id)).Good0 U t := by
        refine ⟨by simpa using hdbF, g1.d.of_eq rfl rfl, g1.lh.of_eq rfl (fun a m x => by simpa using x)⟩
      have hsx : S → (((s.db.unclaim np.id side).delNpSidesOf np.id).delNameplate np.id).SExtra :=
        fun hS => (h.sx hS).unclaim_delById np.id side
      dsimp only at e
      split at e
      · rename_i hany
        simp only [Prod.mk.injEq] at e
        obtain ⟨rfl, rfl⟩ := e
        refine ⟨⟨g1, ?_⟩, rfl, by simp, by simp⟩
        intro hS
        have := (h.sx hS).unclaim_of_any (npid := np.id) (side := side) (by simpa using hany)
        simpa using this
      · split at e
        · split at e
          · rename_i s3 e3
            obtain ⟨_, hok⟩ := storeNameplateUsage_spec e3
            have := hok (by simpa using npSidesOf_unclaim_ne_nil hr0)
            simp at this
          · rename_i s3 e3
            have hu3 := storeNameplateUsage_udbOnly
              (((s.modDb (·.unclaim np.id side)).commit).modDb (fun d => (d.delNpSidesOf np.id).delNameplate np.id))
              app (((s.modDb (·.unclaim np.id side)).commit).db.npSidesOf np.id) t' false
            rw [e3] at hu3
            dsimp only at hu3
            simp only [Prod.mk.injEq] at e
            obtain ⟨rfl, rfl⟩ := e
            have g3 : s3.Good0 U t := g2.of_udbOnly hu3
            refine ⟨⟨g3.ucommit.commit, ?_⟩, rfl, ?_, ?_⟩
            · intro hS
              simpa [hu3.db] using hsx hS
            · simp [hu3.conns]
            · simp [hu3.cfg]
        · simp only [Prod.mk.injEq] at e
          obtain ⟨rfl, rfl⟩ := e
          refine ⟨⟨g2.commit, ?_⟩, rfl, by simp, by simp⟩
          intro hS
          simpa using hsx hS

end

/-! ### prune -/

/-- `s'` differs from `s` in the uncommitted tables only (no commit, no event, no connection change) -/
def PendOnly (s s' : Sys) : Prop := ∃ d u, s' = { s with db := d, udb := u }

theorem PendOnly.refl (s : Sys) : PendOnly s s := ⟨s.db, s.udb, rfl⟩
theorem PendOnly.trans {a b c : Sys} (h1 : PendOnly a b) (h2 : PendOnly b c) : PendOnly a c := by
  obtain ⟨d, u, rfl⟩ := h1
  obtain ⟨d', u', rfl⟩ := h2
  exact ⟨d', u', rfl⟩
theorem PendOnly.modDb (s : Sys) (f) : PendOnly s (s.modDb f) := ⟨f s.db, s.udb, rfl⟩
theorem UdbOnly.pend {s s' : Sys} (h : UdbOnly s s') : PendOnly s s' := by
  obtain ⟨u, rfl⟩ := h; exact ⟨s.db, u, rfl⟩

section pendOnly
variable {s s' : Sys} (h : PendOnly s s')
include h
theorem PendOnly.disk : s'.disk = s.disk := by obtain ⟨d, u, rfl⟩ := h; rfl
theorem PendOnly.udisk : s'.udisk = s.udisk := by obtain ⟨d, u, rfl⟩ := h; rfl
theorem PendOnly.snaps : s'.snaps = s.snaps := by obtain ⟨d, u, rfl⟩ := h; rfl
theorem PendOnly.conns : s'.conns = s.conns := by obtain ⟨d, u, rfl⟩ := h; rfl
theorem PendOnly.cfg : s'.cfg = s.cfg := by obtain ⟨d, u, rfl⟩ := h; rfl
theorem PendOnly.out : s'.out = s.out := by obtain ⟨d, u, rfl⟩ := h; rfl
end pendOnly

section
variable {U : String → Prop} {t : Time} {S : Prop}

/-- the nameplate loop of `prune`: never fails; deletes exactly the listed nameplates -/
theorem pruneNameplates_good {app : String} {now : Time} (l : List Nameplate) :
    ∀ {s s1 : Sys} {b : Bool}, s.pruneNameplates app now l = (s1, b) →
      s.db.CQ U t → (S → s.db.SExtra) → (∀ n ∈ l, n ∈ s.db.nameplates) →
      l.Pairwise (fun a b => ¬ a.id = b.id) →
      PendOnly s s1 ∧ s1.db.CQ U t ∧ (S → s1.db.SExtra) ∧ b = true ∧ s1.db.mailboxes = s.db.mailboxes ∧
        (∀ n ∈ s1.db.nameplates, n ∈ s.db.nameplates ∧ ∀ n' ∈ l, ¬ n'.id = n.id) := by
  induction l with
  | nil =>
    intro s s1 b e hdb hsx _ _
    simp only [pruneNameplates, Prod.mk.injEq] at e
    obtain ⟨rfl, rfl⟩ := e
    exact ⟨PendOnly.refl _, hdb, hsx, rfl, rfl, fun n hn => ⟨hn, by simp⟩⟩
  | cons np rest ih =>
    intro s s1 b e hdb hsx hmem hpw
    rw [List.pairwise_cons] at hpw
    unfold pruneNameplates at e
    dsimp only at e
    have hdb1 : ((s.db.delNpSidesOf np.id).delNameplate np.id).CQ U t :=
      ⟨.of_pinv_npOk (hdb.cinv.toPInv.delById np.id) (hdb.cinv.npOk.delById np.id), hdb.q.of_mailboxes_eq rfl⟩
    have hsx1 : S → ((s.db.delNpSidesOf np.id).delNameplate np.id).SExtra := fun hS => (hsx hS).delById np.id
    have hmem1 : ∀ n ∈ rest, n ∈ ((s.db.delNpSidesOf np.id).delNameplate np.id).nameplates := by
      intro n hn
      simp only [Chan.delNameplate, Chan.delNpSidesOf, List.mem_filter, decide_not, Bool.not_eq_eq_eq_not,
        Bool.not_true, decide_eq_false_iff_not]
      exact ⟨hmem n (by simp [hn]), fun e' => hpw.1 n hn e'.symm⟩
    have fin : ∀ s0 : Sys, PendOnly s s0 → s0.db = (s.db.delNpSidesOf np.id).delNameplate np.id →
        s0.pruneNameplates app now rest = (s1, b) →
        PendOnly s s1 ∧ s1.db.CQ U t ∧ (S → s1.db.SExtra) ∧ b = true ∧ s1.db.mailboxes = s.db.mailboxes ∧
          (∀ n ∈ s1.db.nameplates, n ∈ s.db.nameplates ∧ ∀ n' ∈ np :: rest, ¬ n'.id = n.id) := by
      intro s0 p0 e0 er
      obtain ⟨k1, k2, k3, k4, k5, k6⟩ := ih er (by rw [e0]; exact hdb1) (by rw [e0]; exact hsx1)
        (by rw [e0]; exact hmem1) hpw.2
      refine ⟨p0.trans k1, k2, k3, k4, by rw [k5, e0]; rfl, ?_⟩
      intro n hn
      obtain ⟨a1, a2⟩ := k6 n hn
      rw [e0] at a1
      simp only [Chan.delNameplate, Chan.delNpSidesOf, List.mem_filter, decide_not, Bool.not_eq_eq_eq_not,
        Bool.not_true, decide_eq_false_iff_not] at a1
      refine ⟨a1.1, ?_⟩
      intro n' hn'
      simp only [List.mem_cons] at hn'
      rcases hn' with rfl | hn'
      · exact fun e' => a1.2 e'.symm
      · exact a2 n' hn'
    split at e
    · split at e
      · rename_i s2 e2
        obtain ⟨_, hok⟩ := storeNameplateUsage_spec e2
        have := hok (npSidesOf_ne_nil hdb.cinv.npOk.hasSide (hmem np (by simp)))
        simp at this
      · rename_i s2 e2
        have hu2 := storeNameplateUsage_udbOnly
          (s.modDb (fun d => (d.delNpSidesOf np.id).delNameplate np.id)) app (s.db.npSidesOf np.id) now true
        rw [e2] at hu2
        dsimp only at hu2
        exact fin s2 ((PendOnly.modDb _ _).trans hu2.pend) (by rw [hu2.db]; rfl) e
    · exact fin _ (PendOnly.modDb _ _) rfl e

/-- the mailbox loop of `prune`, run when no nameplate references the listed mailboxes any more -/
theorem pruneMailboxes_good {app : String} {now : Time} (l : List MailboxRow) :
    ∀ (s : Sys), s.db.CQ U t → (S → s.db.SExtra) →
      (∀ row ∈ l, ∀ n ∈ s.db.nameplates, ¬ n.mailbox = row.id) →
      PendOnly s (s.pruneMailboxes app now l) ∧ (s.pruneMailboxes app now l).db.CQ U t ∧
        (S → (s.pruneMailboxes app now l).db.SExtra) ∧
        (∀ a m, s.db.HasMb a m → (∀ row ∈ l, ¬ row.id = m) → (s.pruneMailboxes app now l).db.HasMb a m) := by
  induction l with
  | nil =>
    intro s hdb hsx _
    exact ⟨PendOnly.refl _, hdb, hsx, fun _ _ x _ => x⟩
  | cons row rest ih =>
    intro s hdb hsx hno
    unfold pruneMailboxes
    dsimp only
    have hdb1 : (((s.db.delMessagesOf row.id).delMbSidesOf row.id).delMailbox row.id).CQ U t :=
      ⟨.of_pinv_npOk (hdb.cinv.toPInv.pruneBlock (hno row (by simp))) (hdb.cinv.npOk.of_npPart (by rfl)),
        hdb.q.delMailbox row.id⟩
    have hsx1 : S → (((s.db.delMessagesOf row.id).delMbSidesOf row.id).delMailbox row.id).SExtra :=
      fun hS => (hsx hS).pruneBlock row.id
    have fin : ∀ s0 : Sys, PendOnly s s0 →
        s0.db = ((s.db.delMessagesOf row.id).delMbSidesOf row.id).delMailbox row.id →
        PendOnly s (s0.pruneMailboxes app now rest) ∧ (s0.pruneMailboxes app now rest).db.CQ U t ∧
        (S → (s0.pruneMailboxes app now rest).db.SExtra) ∧
        (∀ a m, s.db.HasMb a m → (∀ r ∈ row :: rest, ¬ r.id = m) →
          (s0.pruneMailboxes app now rest).db.HasMb a m) := by
      intro s0 p0 e0
      obtain ⟨k1, k2, k3, k4⟩ := ih s0 (by rw [e0]; exact hdb1) (by rw [e0]; exact hsx1)
        (by rw [e0]; exact fun r hr n hn => hno r (by simp [hr]) n hn)
      refine ⟨p0.trans k1, k2, k3, ?_⟩
      intro a m hb hne
      apply k4 a m
      · rw [e0]
        simp only [Chan.hasMb_delMailbox, Chan.hasMb_delMbSidesOf, Chan.hasMb_delMessagesOf]
        exact ⟨hb, fun e' => hne row (by simp) e'.symm⟩
      · exact fun r hr => hne r (by simp [hr])
    split
    · exact fin _ ((PendOnly.modDb _ _).trans (storeMailboxUsage_udbOnly _ _ _ _ _ _).pend) rfl
    · exact fin _ (PendOnly.modDb _ _) rfl

/-- the mailbox-table UPDATE of `prune`'s touch loop -/
def touchFn (s : Sys) (app : String) (now : Time) (r : MailboxRow) : MailboxRow :=
  if r.app = app ∧ (s.listeners app r.id) ≠ [] then { r with updated := now } else r

theorem touchListened_db (s : Sys) (app : String) (now : Time) :
    (s.touchListened app now).db = { s.db with mailboxes := s.db.mailboxes.map (s.touchFn app now) } := rfl

theorem touchFn_keys (s : Sys) (app : String) (now : Time) (r : MailboxRow) :
    (s.touchFn app now r).id = r.id ∧ (s.touchFn app now r).app = r.app := by
  unfold touchFn; split <;> simp

theorem touchListened_cq {s : Sys} (h : s.db.CQ U t) (app : String) {now : Time} (hnow : now ≤ t) :
    (s.touchListened app now).db.CQ U t := by
  rw [touchListened_db]
  refine ⟨.of_pinv_npOk (h.cinv.toPInv.mapMailboxes _ (s.touchFn_keys app now)) (h.cinv.npOk.of_npPart (by rfl)),
    h.q.mapMailboxes _ ?_⟩
  intro r
  refine ⟨(s.touchFn_keys app now r).1, ?_⟩
  unfold touchFn
  split
  · exact Or.inr hnow
  · exact Or.inl rfl

/-- a mailbox some connection listens to is stamped `now` by the touch loop, hence not "old" -/
theorem not_old_of_listened {s : Sys} (hp : s.db.PInv) {x : Conn} (hx : x ∈ s.conns) (hl : x.listening = true)
    {a m : String} (ha : x.app = some a) (hm : x.mailbox = some m) (hb : s.db.HasMb a m) {app : String}
    {now old : Time} (hold : old < now) :
    ∀ row ∈ ((s.touchListened app now).db.mailboxesOfApp app).filter (fun r => ¬ r.updated > old),
      ¬ row.id = m := by
  intro row hrow e
  simp only [touchListened_db, Chan.mailboxesOfApp, List.mem_filter, List.mem_map, decide_eq_true_eq,
    decide_not, Bool.not_eq_eq_eq_not, Bool.not_true, decide_eq_false_iff_not] at hrow
  obtain ⟨⟨⟨r0, hr0, rfl⟩, happ⟩, hupd⟩ := hrow
  obtain ⟨k1, k2⟩ := s.touchFn_keys app now r0
  rw [k1] at e
  rw [k2] at happ
  have : a = app := hp.mb_app_unique hb ⟨r0, hr0, e, happ⟩
  subst this
  have hlis : s.listeners a r0.id ≠ [] := by
    intro h0
    have : x.id ∈ s.listeners a r0.id := by
      simp only [listeners, List.mem_map, List.mem_filter, decide_eq_true_eq]
      exact ⟨x, ⟨hx, hl, ha, by rw [e]; exact hm⟩, rfl⟩
    rw [h0] at this
    simp at this
  apply hupd
  unfold touchFn
  rw [if_pos ⟨happ, hlis⟩]
  exact hold

/-- `AppNamespace.prune`: never fails; the FOREIGN KEY guard of the mailbox loop holds (every
    nameplate pointing at an old mailbox was deleted by the nameplate loop); no mailbox with a
    listener is deleted -/
theorem prune_good {s s1 : Sys} {app : String} {now old : Time} {b : Bool} (h : s.Good U t S)
    (hnow : now ≤ t) (hold : old < now) (e : s.prune app now old = (s1, b)) :
    s1.Good U t S ∧ b = true ∧ s1.conns = s.conns ∧ s1.cfg = s.cfg := by
  rw [prune_eq] at e
  dsimp only at e
  have hdb1 : (s.touchListened app now).db.CQ U t := touchListened_cq h.db app hnow
  have hm1 : ∀ a m, s.db.HasMb a m ↔ (s.touchListened app now).db.HasMb a m := by
    intro a m
    rw [touchListened_db]
    exact (Chan.hasMb_mapMailboxes _ _ _ _ (s.touchFn_keys app now)).symm
  have g1 : ((s.touchListened app now).commit).Good U t S := by
    refine ⟨h.toGood0.modDb_commit _ hdb1 (fun a m => (hm1 a m).1), ?_⟩
    intro hS
    simp only [commit_db, touchListened_db]
    exact (h.sx hS).mapMailboxes _ (fun r => (s.touchFn_keys app now r).1)
  have hc1 : ((s.touchListened app now).commit).conns = s.conns := by simp [touchListened]
  have hf1 : ((s.touchListened app now).commit).cfg = s.cfg := by simp [touchListened]
  generalize hs1 : (s.touchListened app now).commit = sA at e g1 hc1 hf1
  have hdbA : sA.db = (s.touchListened app now).db := by rw [← hs1]; simp
  generalize hMb : ((sA.db.mailboxesOfApp app).filter (fun r => ¬ r.updated > old)) = oldMb at e
  generalize hNp : ((sA.db.nameplatesOfApp app).filter (fun r => r.mailbox ∈ oldMb.map (·.id))) = oldNp at e
  unfold pruneRest at e
  have hmemNp : ∀ n ∈ oldNp, n ∈ sA.db.nameplates := by
    intro n hn
    rw [← hNp] at hn
    exact (List.mem_filter.1 (List.mem_filter.1 hn).1).1
  have hpwNp : oldNp.Pairwise (fun a b => ¬ a.id = b.id) := by
    rw [← hNp]
    exact List.Pairwise.filter _ (List.Pairwise.filter _ g1.db.cinv.npIds)
  split at e
  · rename_i s2 e2
    have := (pruneNameplates_good oldNp e2 g1.db g1.sx hmemNp hpwNp).2.2.2.1
    simp at this
  · rename_i s2 e2
    obtain ⟨p2, hdb2, hsx2, _, hmb2, hnp2⟩ := pruneNameplates_good oldNp e2 g1.db g1.sx hmemNp hpwNp
    have hguard : ∀ row ∈ oldMb, ∀ n ∈ s2.db.nameplates, ¬ n.mailbox = row.id := by
      intro row hrow n hn e'
      obtain ⟨hnA, hnot⟩ := hnp2 n hn
      have hrow' := hrow
      rw [← hMb] at hrow'
      simp only [Chan.mailboxesOfApp, List.mem_filter, decide_eq_true_eq] at hrow'
      have happ : n.app = app :=
        g1.db.cinv.toPInv.np_app_of_mailbox ⟨row, hrow'.1.1, rfl, hrow'.1.2⟩ hnA e'
      apply hnot n _ rfl
      rw [← hNp]
      simp only [Chan.nameplatesOfApp, List.mem_filter, decide_eq_true_eq, List.mem_map]
      exact ⟨⟨hnA, happ⟩, row, hrow, e'.symm⟩
    obtain ⟨p3, hdb3, hsx3, hm3⟩ := pruneMailboxes_good (app := app) (now := now) oldMb s2 hdb2 hsx2 hguard
    have p' := p2.trans p3
    have hlh : ∀ s4 : Sys, s4.conns = sA.conns → s4.db = (s2.pruneMailboxes app now oldMb).db → s4.LHandleOk := by
      intro s4 c4 d4 x hx hl m hm
      rw [c4, hc1] at hx
      obtain ⟨a, ha, hb⟩ := h.lh x hx hl m hm
      refine ⟨a, ha, ?_⟩
      rw [d4]
      apply hm3 a m
      · have := (hm1 a m).1 hb
        rw [← hdbA] at this
        obtain ⟨r, hr, er⟩ := this
        exact ⟨r, by rw [hmb2]; exact hr, er⟩
      · have := not_old_of_listened h.db.cinv.toPInv hx hl ha hm hb (app := app) (now := now) hold
        rw [← hdbA, hMb] at this
        exact this
    dsimp only at e
    split at e
    · simp only [Prod.mk.injEq] at e
      obtain ⟨rfl, rfl⟩ := e
      have gd : ((s2.pruneMailboxes app now oldMb).commit).DGood U t :=
        DGood.commit (g1.d.of_eq p'.disk p'.snaps) hdb3
      refine ⟨?_, rfl, ?_, ?_⟩
      · split
        · refine ⟨⟨by simpa using hdb3, gd.ucommit, hlh _ (by simp [p'.conns]) (by simp)⟩, by simpa using hsx3⟩
        · refine ⟨⟨by simpa using hdb3, gd, hlh _ (by simp [p'.conns]) (by simp)⟩, by simpa using hsx3⟩
      · split <;> simp [p'.conns, hc1]
      · split <;> simp [p'.cfg, hf1]
    · rename_i hne
      simp only [ne_eq, not_or, Decidable.not_not] at hne
      obtain ⟨rfl, rfl⟩ := hne
      simp only [pruneNameplates, Prod.mk.injEq] at e2
      obtain ⟨rfl, _⟩ := e2
      simp only [pruneMailboxes, Prod.mk.injEq] at e
      obtain ⟨rfl, rfl⟩ := e
      exact ⟨g1, rfl, hc1, hf1⟩

/-- the FOREIGN KEY guard of the mailbox loop of `prune`, as a statement of its own: after the
    nameplate loop has run over `old_nameplates`, no nameplate row references any of the
    `old_mailboxes` (so each `DELETE FROM mailboxes WHERE id=?` is accepted: `Chan.pruneBlock_fk`) -/
theorem prune_fk_guard {sA s2 : Sys} {app : String} {now old : Time} {b : Bool} (hdb : sA.db.CQ U t)
    (e : sA.pruneNameplates app now ((sA.db.nameplatesOfApp app).filter (fun r => r.mailbox ∈
      ((sA.db.mailboxesOfApp app).filter (fun r => ¬ r.updated > old)).map (·.id))) = (s2, b)) :
    ∀ row ∈ (sA.db.mailboxesOfApp app).filter (fun r => ¬ r.updated > old),
      ∀ n ∈ s2.db.nameplates, ¬ n.mailbox = row.id := by
  obtain ⟨_, _, _, _, _, hnp2⟩ := pruneNameplates_good (S := False) _ e hdb False.elim
    (fun n hn => (List.mem_filter.1 (List.mem_filter.1 hn).1).1)
    (List.Pairwise.filter _ (List.Pairwise.filter _ hdb.cinv.npIds))
  intro row hrow n hn e'
  obtain ⟨hnA, hnot⟩ := hnp2 n hn
  have hrow' := hrow
  simp only [Chan.mailboxesOfApp, List.mem_filter, decide_eq_true_eq] at hrow'
  have happ : n.app = app := hdb.cinv.toPInv.np_app_of_mailbox ⟨row, hrow'.1.1, rfl, hrow'.1.2⟩ hnA e'
  apply hnot n _ rfl
  refine List.mem_filter.2 ⟨List.mem_filter.2 ⟨hnA, by simpa using happ⟩, ?_⟩
  simp only [decide_eq_true_eq, List.mem_map]
  exact ⟨row, hrow, e'.symm⟩

theorem pruneApps_good {now old : Time} (hnow : now ≤ t) (hold : old < now) (l : List String) :
    ∀ {s s1 : Sys} {b : Bool}, s.Good U t S → s.pruneApps now old l = (s1, b) →
      s1.Good U t S ∧ b = true ∧ s1.conns = s.conns ∧ s1.cfg = s.cfg := by
  induction l with
  | nil =>
    intro s s1 b h e
    simp only [pruneApps, Prod.mk.injEq] at e
    obtain ⟨rfl, rfl⟩ := e
    exact ⟨h, rfl, rfl, rfl⟩
  | cons app rest ih =>
    intro s s1 b h e
    unfold pruneApps at e
    split at e
    · rename_i s2 e2
      have := (prune_good h hnow hold e2).2.1
      simp at this
    · rename_i s2 e2
      obtain ⟨k1, _, k3, k4⟩ := prune_good h hnow hold e2
      obtain ⟨j1, j2, j3, j4⟩ := ih k1 e
      exact ⟨j1, j2, j3.trans k3, j4.trans k4⟩

/-! ### usage-only functions, expire -/

theorem Good.dumpStats {s : Sys} (h : s.Good U t S) (now : Time) : (s.dumpStats now).Good U t S := by
  unfold Sys.dumpStats
  split
  · exact (h.modUdb _).ucommit
  · exact h

@[simp] theorem dumpStats_conns (s : Sys) (now : Time) : (s.dumpStats now).conns = s.conns := by
  unfold Sys.dumpStats; split <;> simp

theorem Good.logClientVersion {s : Sys} (h : s.Good U t S) (a sd t' i v) :
    (s.logClientVersion a sd t' i v).Good U t S := by
  unfold Sys.logClientVersion
  split
  · exact (h.modUdb _).ucommit
  · exact h

@[simp] theorem logClientVersion_conns (s : Sys) (a sd t' i v) :
    (s.logClientVersion a sd t' i v).conns = s.conns := by
  unfold Sys.logClientVersion; split <;> simp

/-- one firing of `expire()`: the sweep itself cannot fail (`pruneApps` returns `true`) -/
theorem expire_good {s : Sys} (h : s.Good U t S) {now : Time} (hnow : now ≤ t) (fault : Bool) :
    (s.expire now fault).Good U t S ∧ (s.expire now fault).conns = s.conns ∧
      (s.expire now fault).cfg = s.cfg := by
  unfold Sys.expire
  dsimp only
  have hold : now - Generated.expirationTicks < now := Int.sub_lt_self now expirationTicks_pos
  have h0 := h.emit (.fired now (now - Generated.expirationTicks))
  split
  · exact ⟨(h0.emit _).dumpStats now, by simp [emit], by simp⟩
  · split
    · rename_i s1 e
      obtain ⟨k1, _, k3, k4⟩ := pruneApps_good hnow hold _ h0 e
      exact ⟨k1.dumpStats now, by simpa [emit] using k3, by simpa using k4⟩
    · rename_i s1 e
      obtain ⟨k1, k2, k3, k4⟩ := pruneApps_good hnow hold _ h0 e
      simp at k2

end

end Sys
end Wormhole
