/-
  Sys-level preservation, function by function (Core.lean = server.py).

  `Good U t S s`:
    * the server's view `db`, the committed state `disk` and EVERY snapshot taken at a commit
      point of the current step satisfy `Chan.CInv` (these snapshots are exactly what a kill -9
      can leave on disk) and `Chan.MbQ U t` (every mailbox id is known, no row is stamped later
      than `t`);
    * every LISTENING connection's handle points at an existing mailbox row of its app;
    * if `S` (crash-free history) the server's view satisfies the strengthening `SExtra`.
  Every function of Core.lean maps `Good` states to `Good` states; the lemmas also record the
  return value facts needed for "no internal error" (C17) and what happens to `conns`/`cfg`.
-/
import Wormhole.Inv.ChanLemmas
import Wormhole.Inv.SyncLemmas

set_option linter.unusedSimpArgs false

namespace Wormhole

/-- the expiry horizon is positive (re-checked whenever `Generated.lean` is regenerated) -/
theorem expirationTicks_pos : 0 < Generated.expirationTicks := by decide

namespace Chan

/-- commit-point invariant plus the ghost facts about mailbox rows -/
structure CQ (U : String → Prop) (t : Time) (d : Chan) : Prop where
  cinv : d.CInv
  q : d.MbQ U t

end Chan

namespace Sys

/-- the committed state and all snapshots of this step are in order -/
structure DGood (U : String → Prop) (t : Time) (s : Sys) : Prop where
  disk : s.disk.CQ U t
  snaps : ∀ p ∈ s.snaps, p.1.CQ U t

/-- a listening connection's handle points at an existing mailbox row of the connection's app -/
def LHandleOk (s : Sys) : Prop :=
  ∀ x ∈ s.conns, x.listening = true → ∀ mb, x.mailbox = some mb → ∃ a, x.app = some a ∧ s.db.HasMb a mb

structure Good0 (U : String → Prop) (t : Time) (s : Sys) : Prop where
  db : s.db.CQ U t
  d : s.DGood U t
  lh : s.LHandleOk

structure Good (U : String → Prop) (t : Time) (S : Prop) (s : Sys) : Prop extends Good0 U t s where
  sx : S → s.db.SExtra

section prim
variable {U : String → Prop} {t : Time} {S : Prop} {s : Sys}

@[simp] theorem commit_snaps_mem (p : Chan × Usage) :
    p ∈ s.commit.snaps ↔ p ∈ s.snaps ∨ (¬ s.db = s.disk ∧ p = (s.db, s.udisk)) := by
  unfold commit; split <;> simp_all

@[simp] theorem ucommit_snaps_mem (p : Chan × Usage) :
    p ∈ s.ucommit.snaps ↔ p ∈ s.snaps ∨ (¬ s.udb = s.udisk ∧ p = (s.disk, s.udb)) := by
  unfold ucommit; split <;> simp_all

theorem DGood.commit (h : s.DGood U t) (hdb : s.db.CQ U t) : s.commit.DGood U t := by
  refine ⟨by simpa using hdb, ?_⟩
  intro p hp
  rcases (commit_snaps_mem p).1 hp with hp | ⟨_, rfl⟩
  · exact h.snaps p hp
  · exact hdb

theorem DGood.ucommit (h : s.DGood U t) : s.ucommit.DGood U t := by
  refine ⟨by simpa using h.disk, ?_⟩
  intro p hp
  rcases (ucommit_snaps_mem p).1 hp with hp | ⟨_, rfl⟩
  · exact h.snaps p hp
  · exact h.disk

theorem DGood.of_eq {s' : Sys} (h : s.DGood U t) (e1 : s'.disk = s.disk) (e2 : s'.snaps = s.snaps) :
    s'.DGood U t := by
  refine ⟨by rw [e1]; exact h.disk, ?_⟩
  rw [e2]; exact h.snaps

@[simp] theorem commit_snaps_out_conns : s.commit.conns = s.conns := commit_conns s

theorem LHandleOk.of_eq {s' : Sys} (h : s.LHandleOk) (e1 : s'.conns = s.conns)
    (e2 : ∀ a m, s.db.HasMb a m → s'.db.HasMb a m) : s'.LHandleOk := by
  intro x hx hl mb hm
  rw [e1] at hx
  obtain ⟨a, ha, hb⟩ := h x hx hl mb hm
  exact ⟨a, ha, e2 a mb hb⟩

/-- a block of statements followed by `db.commit()` -/
theorem Good0.modDb_commit (h : s.Good0 U t) (f : Chan → Chan) (hf : (f s.db).CQ U t)
    (hm : ∀ a m, s.db.HasMb a m → (f s.db).HasMb a m) : ((s.modDb f).commit).Good0 U t := by
  refine ⟨by simpa using hf, DGood.commit (h.d.of_eq rfl rfl) hf, ?_⟩
  exact h.lh.of_eq (by simp) (by simpa using hm)

theorem Good0.commit (h : s.Good0 U t) : s.commit.Good0 U t :=
  ⟨by simpa using h.db, h.d.commit h.db, h.lh.of_eq (by simp) (by simp)⟩

theorem Good0.ucommit (h : s.Good0 U t) : s.ucommit.Good0 U t :=
  ⟨by simpa using h.db, h.d.ucommit, h.lh.of_eq (by simp) (by simp)⟩

theorem Good0.modUdb (h : s.Good0 U t) (f) : (s.modUdb f).Good0 U t :=
  ⟨h.db, h.d.of_eq rfl rfl, h.lh.of_eq rfl (fun _ _ x => x)⟩

theorem Good0.emit (h : s.Good0 U t) (e) : (s.emit e).Good0 U t :=
  ⟨h.db, h.d.of_eq rfl rfl, h.lh.of_eq rfl (fun _ _ x => x)⟩

theorem Good.commit (h : s.Good U t S) : s.commit.Good U t S :=
  ⟨h.toGood0.commit, by simpa using h.sx⟩

theorem Good.ucommit (h : s.Good U t S) : s.ucommit.Good U t S :=
  ⟨h.toGood0.ucommit, by simpa using h.sx⟩

theorem Good.modUdb (h : s.Good U t S) (f) : (s.modUdb f).Good U t S :=
  ⟨h.toGood0.modUdb f, h.sx⟩

theorem Good.emit (h : s.Good U t S) (e) : (s.emit e).Good U t S :=
  ⟨h.toGood0.emit e, h.sx⟩

theorem Good.send (h : s.Good U t S) (c f) : (s.send c f).Good U t S := h.emit _

/-- states that differ in the usage tables / events only -/
theorem Good.of_uonly {s' : Sys} (h : s.Good U t S) (e1 : s'.db = s.db) (e2 : s'.disk = s.disk)
    (e3 : s'.snaps = s.snaps) (e4 : s'.conns = s.conns) : s'.Good U t S := by
  refine ⟨⟨by rw [e1]; exact h.db, h.d.of_eq e2 e3, h.lh.of_eq e4 (by rw [e1]; exact fun _ _ x => x)⟩, ?_⟩
  rw [e1]; exact h.sx

end prim

/-! ### writes to the usage tables only -/

/-- `s'` differs from `s` in the (uncommitted) usage tables only -/
def UdbOnly (s s' : Sys) : Prop := ∃ u, s' = { s with udb := u }

theorem UdbOnly.refl (s : Sys) : UdbOnly s s := ⟨s.udb, rfl⟩
theorem UdbOnly.trans {a b c : Sys} (h1 : UdbOnly a b) (h2 : UdbOnly b c) : UdbOnly a c := by
  obtain ⟨u, rfl⟩ := h1
  obtain ⟨v, rfl⟩ := h2
  exact ⟨v, rfl⟩

section udbOnly
variable {s s' : Sys} (h : UdbOnly s s')
include h
theorem UdbOnly.db : s'.db = s.db := by obtain ⟨u, rfl⟩ := h; rfl
theorem UdbOnly.disk : s'.disk = s.disk := by obtain ⟨u, rfl⟩ := h; rfl
theorem UdbOnly.udisk : s'.udisk = s.udisk := by obtain ⟨u, rfl⟩ := h; rfl
theorem UdbOnly.snaps : s'.snaps = s.snaps := by obtain ⟨u, rfl⟩ := h; rfl
theorem UdbOnly.conns : s'.conns = s.conns := by obtain ⟨u, rfl⟩ := h; rfl
theorem UdbOnly.cfg : s'.cfg = s.cfg := by obtain ⟨u, rfl⟩ := h; rfl
theorem UdbOnly.out : s'.out = s.out := by obtain ⟨u, rfl⟩ := h; rfl
end udbOnly

theorem storeNameplateUsage_udbOnly (s : Sys) (app sides t p) :
    UdbOnly s (s.storeNameplateUsage app sides t p).1 := by
  unfold storeNameplateUsage
  split
  · exact UdbOnly.refl _
  · exact ⟨_, rfl⟩

theorem storeMailboxUsage_udbOnly (s : Sys) (app forNp sides t p) :
    UdbOnly s (s.storeMailboxUsage app forNp sides t p) := ⟨_, rfl⟩

theorem storeNameplatesOfMailbox_udbOnly {app t} (l : List Nameplate) :
    ∀ (s : Sys), UdbOnly s (s.storeNameplatesOfMailbox app t l).1 := by
  induction l with
  | nil => intro s; exact UdbOnly.refl _
  | cons np rest ih =>
    intro s
    unfold storeNameplatesOfMailbox
    have h1 := storeNameplateUsage_udbOnly s app (s.db.npSidesOf np.id) t false
    split
    · rename_i s1 e; rw [e] at h1; exact h1
    · rename_i s1 e; rw [e] at h1; exact h1.trans (ih s1)

section
variable {U : String → Prop} {t : Time} {S : Prop}

theorem Good.of_udbOnly {s s' : Sys} (h : s.Good U t S) (u : UdbOnly s s') : s'.Good U t S :=
  h.of_uonly u.db u.disk u.snaps u.conns

theorem Good0.of_udbOnly {s s' : Sys} (h : s.Good0 U t) (u : UdbOnly s s') : s'.Good0 U t :=
  (Good.of_udbOnly (S := False) ⟨h, False.elim⟩ u).toGood0

/-! ### Mailbox.open, _add_mailbox, open_mailbox, _add_message -/

theorem mailboxOpen_eq (s : Sys) (mb side : String) (t : Time) :
    s.mailboxOpen mb side t = (s.modDb (·.openSide mb side t)).commit := by
  unfold mailboxOpen Chan.openSide
  simp only [modDb]
  cases s.db.findMbSide mb side <;> rfl

theorem Good0.mailboxOpen {s : Sys} (h : s.Good0 U t) {mb : String} (side : String)
    (hmb : ∃ m ∈ s.db.mailboxes, m.id = mb) : (s.mailboxOpen mb side t).Good0 U t := by
  rw [mailboxOpen_eq]
  exact h.modDb_commit _ ⟨h.db.cinv.openSide mb side t hmb, h.db.q.openSide mb side⟩ (by simp)

theorem addMailbox_cases {s s1 : Sys} {app mb : String} {fn : Bool} {t : Time}
    (e : s.addMailbox app mb fn t = some s1) :
    (s1 = s ∧ s.db.HasMb app mb) ∨
    (s1 = s.modDb (·.insMailbox ⟨app, mb, t, fn⟩) ∧ s.db.findMailboxById mb = none) := by
  unfold addMailbox at e
  split at e
  · rename_i row e1
    cases e
    exact Or.inl ⟨rfl, Chan.findMailbox_hasMb e1⟩
  · split at e
    · cases e
    · rename_i e2
      cases e
      exact Or.inr ⟨rfl, e2⟩

theorem addMailbox_none {s : Sys} {app mb : String} {fn : Bool} {t : Time}
    (e : s.addMailbox app mb fn t = none) :
    ¬ s.db.HasMb app mb ∧ ∃ m ∈ s.db.mailboxes, m.id = mb := by
  unfold addMailbox at e
  split at e
  · cases e
  · rename_i e1
    split at e
    · rename_i row e2
      obtain ⟨a, b⟩ := Chan.findMailboxById_some e2
      exact ⟨Chan.findMailbox_none e1, row, a, b⟩
    · cases e

/-- the state after `_add_mailbox` succeeded: the row `(app, mb)` is there -/
theorem addMailbox_good0 {s s1 : Sys} {app mb : String} {fn : Bool} (h : s.Good0 U t) (hu : U mb)
    (e : s.addMailbox app mb fn t = some s1) :
    s1.Good0 U t ∧ s1.conns = s.conns ∧ s1.cfg = s.cfg ∧ s1.disk = s.disk ∧ s1.snaps = s.snaps ∧
      (∀ a m, s.db.HasMb a m → s1.db.HasMb a m) ∧ s1.db.HasMb app mb ∧ s1.db.npPart = s.db.npPart ∧
      (s.db.SExtra' mb → s1.db.SExtra' mb) := by
  rcases addMailbox_cases e with ⟨rfl, hmb⟩ | ⟨rfl, hfree⟩
  · exact ⟨h, rfl, rfl, rfl, rfl, fun _ _ x => x, hmb, rfl, id⟩
  · have hdb : (s.db.insMailbox ⟨app, mb, t, fn⟩).CQ U t :=
      ⟨Chan.CInv.of_pinv_npOk (h.db.cinv.toPInv.insMailbox hfree) (h.db.cinv.npOk.of_npPart (by rfl)),
       h.db.q.insMailbox hu (Int.le_refl _)⟩
    have hm : ∀ a m, s.db.HasMb a m → (s.db.insMailbox ⟨app, mb, t, fn⟩).HasMb a m :=
      fun a m x => (Chan.hasMb_insMailbox _ _ _ _).2 (Or.inl x)
    refine ⟨⟨hdb, h.d.of_eq rfl rfl, h.lh.of_eq rfl hm⟩, rfl, rfl, rfl, rfl, hm, ?_, rfl, ?_⟩
    · exact (Chan.hasMb_insMailbox _ _ _ _).2 (Or.inr ⟨rfl, rfl⟩)
    · intro hx
      exact hx.insMailbox h.db.cinv.toPInv rfl hfree

/-- `open_mailbox`: an IntegrityError (finding K-global-mailbox-id) happens exactly when the id
    exists under another app, and then nothing was written; otherwise the row `(app, mb)` exists
    afterwards and the state is committed -/
theorem openMailbox_good0 {s s1 : Sys} {app mb side : String} {r : OpenRes} (h : s.Good0 U t) (hu : U mb)
    (e : s.openMailbox app mb side t = (s1, r)) :
    s1.Good0 U t ∧ s1.conns = s.conns ∧ s1.cfg = s.cfg ∧ (∀ a m, s.db.HasMb a m → s1.db.HasMb a m) ∧
      (r ≠ .integrity → s1.db.HasMb app mb) ∧
      (r = .integrity → s1 = s ∧ ¬ s.db.HasMb app mb ∧ ∃ m ∈ s.db.mailboxes, m.id = mb) ∧
      (s.db.SExtra' mb → r ≠ .integrity → s1.db.SExtra) := by
  unfold openMailbox at e
  split at e
  · rename_i e0
    simp only [Prod.mk.injEq] at e
    obtain ⟨rfl, rfl⟩ := e
    obtain ⟨a, b⟩ := addMailbox_none e0
    exact ⟨h, rfl, rfl, fun _ _ x => x, fun x => absurd rfl x, fun _ => ⟨rfl, a, b⟩, fun _ x => absurd rfl x⟩
  · rename_i s0 e0
    obtain ⟨g0, c0, f0, _, _, m0, hmb0, _, x0⟩ := addMailbox_good0 h hu e0
    have hex : ∃ m ∈ s0.db.mailboxes, m.id = mb := by
      obtain ⟨m, hm, e1, _⟩ := hmb0; exact ⟨m, hm, e1⟩
    have g2 : ((s0.mailboxOpen mb side t).commit).Good0 U t := (g0.mailboxOpen side hex).commit
    have hdb2 : ((s0.mailboxOpen mb side t).commit).db = s0.db.openSide mb side t := by
      rw [mailboxOpen_eq]; simp
    have key : ((s0.mailboxOpen mb side t).commit).Good0 U t ∧
        ((s0.mailboxOpen mb side t).commit).conns = s.conns ∧
        ((s0.mailboxOpen mb side t).commit).cfg = s.cfg ∧
        (∀ a m, s.db.HasMb a m → ((s0.mailboxOpen mb side t).commit).db.HasMb a m) ∧
        ((s0.mailboxOpen mb side t).commit).db.HasMb app mb ∧
        (s.db.SExtra' mb → ((s0.mailboxOpen mb side t).commit).db.SExtra) := by
      refine ⟨g2, ?_, ?_, ?_, ?_, ?_⟩
      · rw [mailboxOpen_eq]; simpa using c0
      · simpa using f0
      · intro a m x; rw [hdb2]; simpa using m0 a m x
      · rw [hdb2]; simpa using hmb0
      · intro x; rw [hdb2]; exact (x0 x).openSide side t
    dsimp only at e
    split at e <;>
    · simp only [Prod.mk.injEq] at e
      obtain ⟨rfl, rfl⟩ := e
      obtain ⟨k1, k2, k3, k4, k5, k6⟩ := key
      exact ⟨k1, k2, k3, k4, fun _ => k5, (fun x => nomatch x), fun x _ => k6 x⟩

theorem openMailbox_good {s s1 : Sys} {app mb side : String} {r : OpenRes} (h : s.Good U t S) (hu : U mb)
    (e : s.openMailbox app mb side t = (s1, r)) :
    s1.Good U t S ∧ s1.conns = s.conns ∧ s1.cfg = s.cfg ∧ (∀ a m, s.db.HasMb a m → s1.db.HasMb a m) ∧
      (r ≠ .integrity → s1.db.HasMb app mb) ∧
      (r = .integrity → ¬ s.db.HasMb app mb ∧ ∃ m ∈ s.db.mailboxes, m.id = mb) := by
  obtain ⟨k1, k2, k3, k4, k5, k6, k7⟩ := openMailbox_good0 h.toGood0 hu e
  refine ⟨⟨k1, ?_⟩, k2, k3, k4, k5, fun x => (k6 x).2⟩
  intro hS
  by_cases hr : r = .integrity
  · rw [(k6 hr).1]; exact h.sx hS
  · exact k7 ((h.sx hS).weaken mb) hr

theorem addMessage_good {s : Sys} (h : s.Good U t S) {app mb : String} (side ph bd id)
    (hmb : s.db.HasMb app mb) : (s.addMessage app mb side ph bd t id).Good U t S := by
  have e : s.addMessage app mb side ph bd t id =
      (s.modDb (fun d => (d.insMessage ⟨app, mb, side, ph.toText, bd.toText, t, id.toText⟩).touch mb t)).commit := rfl
  rw [e]
  refine ⟨h.toGood0.modDb_commit _ ⟨?_, ?_⟩ (by simp), ?_⟩
  · exact Chan.CInv.of_pinv_npOk ((h.db.cinv.toPInv.insMessage (r := ⟨app, mb, _, _, _, _, _⟩) hmb).touch mb t)
      (h.db.cinv.npOk.of_npPart (by rfl))
  · exact Chan.MbQ.touch (d := s.db.insMessage _) h.db.q mb
  · intro hS
    simpa using ((h.sx hS).insMessage _).touch mb t

@[simp] theorem addMessage_conns' (s : Sys) (app mb side ph bd t id) :
    (s.addMessage app mb side ph bd t id).conns = s.conns := by
  simp [addMessage]

@[simp] theorem addMessage_hasMb (s : Sys) (app mb side ph bd t id a m) :
    (s.addMessage app mb side ph bd t id).db.HasMb a m ↔ s.db.HasMb a m := by
  simp [addMessage]

end

/-! ### Mailbox.close -/

section
variable {U : String → Prop} {t : Time} {S : Prop}

@[simp] theorem storeMailboxUsage_db (s : Sys) (a f sd t p) : (s.storeMailboxUsage a f sd t p).db = s.db := rfl
@[simp] theorem storeMailboxUsage_disk (s : Sys) (a f sd t p) : (s.storeMailboxUsage a f sd t p).disk = s.disk := rfl
@[simp] theorem storeMailboxUsage_conns (s : Sys) (a f sd t p) : (s.storeMailboxUsage a f sd t p).conns = s.conns := rfl
@[simp] theorem storeMailboxUsage_cfg (s : Sys) (a f sd t p) : (s.storeMailboxUsage a f sd t p).cfg = s.cfg := rfl
@[simp] theorem storeMailboxUsage_snaps (s : Sys) (a f sd t p) : (s.storeMailboxUsage a f sd t p).snaps = s.snaps := rfl

/-- a block of deletions, the usage record with its commit, and `db.commit()` -/
theorem closeTail_good {s2 : Sys} (h2 : s2.DGood U t) (f : Chan → Chan) (hdb : (f s2.db).CQ U t)
    (app : String) (forNp : Bool) (sides : List MbSide) (t' : Time) (p : Bool) :
    ((if (s2.modDb f).cfg.usage then ((s2.modDb f).storeMailboxUsage app forNp sides t' p).ucommit
      else s2.modDb f).commit).DGood U t ∧
    ((if (s2.modDb f).cfg.usage then ((s2.modDb f).storeMailboxUsage app forNp sides t' p).ucommit
      else s2.modDb f).commit).db = f s2.db ∧
    ((if (s2.modDb f).cfg.usage then ((s2.modDb f).storeMailboxUsage app forNp sides t' p).ucommit
      else s2.modDb f).commit).conns = s2.conns ∧
    ((if (s2.modDb f).cfg.usage then ((s2.modDb f).storeMailboxUsage app forNp sides t' p).ucommit
      else s2.modDb f).commit).cfg = s2.cfg := by
  have h3 : (s2.modDb f).DGood U t := h2.of_eq rfl rfl
  split
  · refine ⟨DGood.commit (DGood.ucommit (h3.of_eq rfl rfl)) (by simpa using hdb), by simp, by simp, by simp⟩
  · exact ⟨DGood.commit h3 (by simpa using hdb), by simp, by simp, by simp⟩

theorem mem_stopListeners {s : Sys} {app mb : String} {y : Conn} (hy : y ∈ (s.stopListeners app mb).conns) :
    (y ∈ s.conns ∧ ¬ (y.listening = true ∧ y.app = some app ∧ y.mailbox = some mb)) ∨
    (y.listening = false ∧ y.mailbox = none ∧ ∃ x ∈ s.conns, y = { x with mailbox := none, listening := false }) := by
  simp only [stopListeners, List.mem_map] at hy
  obtain ⟨x, hx, rfl⟩ := hy
  split
  · exact Or.inr ⟨rfl, rfl, x, hx, rfl⟩
  · rename_i hc
    exact Or.inl ⟨hx, hc⟩

/-- `Mailbox.close`: never fails (given the invariant), and when it deletes the mailbox every
    listener has dropped its handle -/
theorem mailboxClose_good {s s1 : Sys} {app mb side : String} {mood : Option String} {t' : Time} {b : Bool}
    (h : s.Good U t S) (e : s.mailboxClose app mb side mood t' = (s1, b)) :
    s1.Good U t S ∧ b = true ∧ s1.cfg = s.cfg ∧
      (s1.conns = s.conns ∨ s1.conns = (s.stopListeners app mb).conns) := by
  unfold mailboxClose at e
  split at e
  · simp only [Prod.mk.injEq] at e
    obtain ⟨rfl, rfl⟩ := e
    exact ⟨h, rfl, rfl, Or.inl rfl⟩
  · rename_i row erow
    have hmb : s.db.HasMb app mb := Chan.findMailbox_hasMb erow
    split at e
    · simp only [Prod.mk.injEq] at e
      obtain ⟨rfl, rfl⟩ := e
      exact ⟨h, rfl, rfl, Or.inl rfl⟩
    · have hp1 : (s.db.closeSide mb side mood).PInv := h.db.cinv.toPInv.closeSide mb side mood
      have hn1 : (s.db.closeSide mb side mood).NpOk := h.db.cinv.npOk.of_npPart (by rfl)
      have hq1 : (s.db.closeSide mb side mood).MbQ U t := h.db.q.of_mailboxes_eq rfl
      have g1 : ((s.modDb (·.closeSide mb side mood)).commit).Good0 U t :=
        h.toGood0.modDb_commit _ ⟨.of_pinv_npOk hp1 hn1, hq1⟩ (by simp)
      dsimp only at e
      split at e
      · rename_i hany
        simp only [Prod.mk.injEq] at e
        obtain ⟨rfl, rfl⟩ := e
        refine ⟨⟨g1, ?_⟩, rfl, by simp, Or.inl (by simp)⟩
        intro hS
        have := (h.sx hS).closeSide_of_any (mb := mb) (side := side) (mood := mood) (by simpa using hany)
        simpa using this
      · generalize hE : (if ((s.modDb _).commit).cfg.usage then _ else _) = p at e
        obtain ⟨s2, ok⟩ := p
        have hu2 : UdbOnly ((s.modDb (·.closeSide mb side mood)).commit) s2 := by
          split at hE
          · have := storeNameplatesOfMailbox_udbOnly (app := app) (t := t')
              (((s.modDb (·.closeSide mb side mood)).commit).db.nameplatesOfMailbox app mb)
              ((s.modDb (·.closeSide mb side mood)).commit)
            rw [hE] at this; exact this
          · cases hE; exact UdbOnly.refl _
        obtain ⟨_, hok, _⟩ := closeStore_spec hE
        simp only [commit_db, modDb_db] at hok
        have hok' : ok = true := hok (fun n hn => npSidesOf_ne_nil (d := s.db.closeSide mb side mood) hn1.hasSide
          (List.mem_filter.1 hn).1)
        subst hok'
        have hdb2 : s2.db = s.db.closeSide mb side mood := by rw [hu2.db]; simp
        have hcfg2 : s2.cfg = s.cfg := by rw [hu2.cfg]; simp
        have hconns2 : s2.conns = s.conns := by rw [hu2.conns]; simp
        have g2 : s2.Good0 U t := g1.of_udbOnly hu2
        have hdbF : ((((((s.db.closeSide mb side mood).delNpSidesOfMailbox app mb).delNameplatesOfMailbox app
            mb).delMessagesOf mb).delMbSidesOf mb).delMailbox mb).CQ U t := by
          refine ⟨.of_pinv_npOk (hp1.closeBlock (by simpa using hmb)) ?_, (hq1.delMailbox mb).of_mailboxes_eq rfl⟩
          exact (hn1.delOfMailbox app mb).of_npPart (by rfl)
        obtain ⟨k1, k2, k3, k4⟩ := closeTail_good g2.d
          (fun d => ((((d.delNpSidesOfMailbox app mb).delNameplatesOfMailbox app mb).delMessagesOf mb).delMbSidesOf
              mb).delMailbox mb) (by rw [hdb2]; exact hdbF) app row.forNp
          (((s.modDb (·.closeSide mb side mood)).commit).db.mbSidesOf mb) t' false
        simp only [Bool.not_true, Bool.false_eq_true, ↓reduceIte, Prod.mk.injEq] at e
        obtain ⟨rfl, rfl⟩ := e
        refine ⟨⟨⟨?_, ?_, ?_⟩, ?_⟩, rfl, ?_, Or.inr ?_⟩
        · rw [stopListeners_db, k2, hdb2]; exact hdbF
        · exact k1.of_eq rfl rfl
        · intro y hy hl m hm
          have hy' : y ∈ (s.stopListeners app mb).conns := by
            simpa [stopListeners, k3, hconns2] using hy
          rcases mem_stopListeners hy' with ⟨hy0, hc⟩ | ⟨hl', _⟩
          · obtain ⟨a, ha, hb⟩ := h.lh y hy0 hl m hm
            refine ⟨a, ha, ?_⟩
            rw [stopListeners_db, k2, hdb2]
            simp only [Chan.hasMb_delMailbox, Chan.hasMb_delMbSidesOf, Chan.hasMb_delMessagesOf,
              Chan.hasMb_delNameplatesOfMailbox, Chan.hasMb_delNpSidesOfMailbox, Chan.hasMb_closeSide]
            refine ⟨hb, ?_⟩
            rintro rfl
            have : a = app := h.db.cinv.toPInv.mb_app_unique hb hmb
            subst this
            exact hc ⟨hl, ha, hm⟩
          · rw [hl'] at hl; cases hl
        · intro hS
          rw [stopListeners_db, k2, hdb2]
          exact (h.sx hS).closeSide_closeBlock h.db.cinv.npIds app mb side mood
        · rw [stopListeners_cfg, k4, hcfg2]
        · simp only [stopListeners, k3, hconns2]

end

end Sys
end Wormhole
