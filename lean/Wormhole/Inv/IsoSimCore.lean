/-
  C06, two-run simulation, part 2: server.py (Core.lean).

  `IsoRel b ρ s₁ s₂`: `s₂` (the run without the other apps' commands) holds exactly the rows of
  app `b` of `s₁` (the full run) up to the renaming `ρ` of `nameplates.id`; the usage rows of
  app `b` agree; the connection tables agree record by record for the connections that are not
  bound to another app (`ConnRel`); same configuration; same frames emitted so far in this step.

  Every function of Core.lean called with app `b` maps related states to related states and
  returns the same result.  What is needed of the full run's database beyond the relation is
  stated per function (`PInv` facts: foreign keys, uniqueness of `nameplates.id`), and the guard
  of finding K-global-mailbox-id appears exactly once: in `addMailbox_iso`.
-/
import Wormhole.Inv.IsoSimPrim
import Wormhole.Inv.SimDefs

set_option linter.unusedSimpArgs false

namespace Wormhole

/-- the records of one connection in the two runs -/
def ConnRel (b : String) (x₁ x₂ : Conn) : Prop :=
  x₂.id = x₁.id ∧ (¬ x₁.other b → x₂ = x₁) ∧ (x₁.other b → x₂.app = none)

theorem ConnRel.listens {b : String} {x₁ x₂ : Conn} (h : ConnRel b x₁ x₂) (m : String) :
    decide (x₁.listening ∧ x₁.app = some b ∧ x₁.mailbox = some m) =
      decide (x₂.listening ∧ x₂.app = some b ∧ x₂.mailbox = some m) := by
  by_cases ho : x₁.other b
  · obtain ⟨a, ha, hab⟩ := ho
    have h2 := h.2.2 ⟨a, ha, hab⟩
    simp [ha, h2, hab]
  · rw [h.2.1 ho]

namespace Sys

structure IsoRel (b : String) (ρ : Nat → Nat) (s₁ s₂ : Sys) : Prop where
  db : Chan.ViewRel b ρ s₁.db s₂.db
  udb : Usage.SameB b s₁.udb s₂.udb
  conns : All2 (ConnRel b) s₁.conns s₂.conns
  cfg : s₁.cfg = s₂.cfg
  frames : s₁.frames = s₂.frames

section basics
variable {b : String} {ρ : Nat → Nat} {s₁ s₂ : Sys}

theorem IsoRel.modDb (h : IsoRel b ρ s₁ s₂) {ρ' : Nat → Nat} (f₁ f₂ : Chan → Chan)
    (hf : Chan.ViewRel b ρ' (f₁ s₁.db) (f₂ s₂.db)) : IsoRel b ρ' (s₁.modDb f₁) (s₂.modDb f₂) :=
  ⟨hf, h.udb, h.conns, h.cfg, h.frames⟩

theorem IsoRel.commit (h : IsoRel b ρ s₁ s₂) : IsoRel b ρ s₁.commit s₂.commit :=
  ⟨by simpa using h.db, by simpa using h.udb, by simpa using h.conns, by simpa using h.cfg, by simpa using h.frames⟩

theorem IsoRel.ucommit (h : IsoRel b ρ s₁ s₂) : IsoRel b ρ s₁.ucommit s₂.ucommit :=
  ⟨by simpa using h.db, by simpa using h.udb, by simpa using h.conns, by simpa using h.cfg, by simpa using h.frames⟩

theorem IsoRel.uCommit (h : IsoRel b ρ s₁ s₂) : IsoRel b ρ s₁.uCommit s₂.uCommit := by
  unfold Sys.uCommit
  rw [← h.cfg]
  split
  · exact h.ucommit
  · exact h

theorem IsoRel.blurTime (h : IsoRel b ρ s₁ s₂) : s₁.blurTime = s₂.blurTime := by
  funext t
  unfold Sys.blurTime Sys.blurTicks
  rw [h.cfg]

theorem IsoRel.setConns (h : IsoRel b ρ s₁ s₂) {l₁ l₂ : List Conn} (hl : All2 (ConnRel b) l₁ l₂) :
    IsoRel b ρ { s₁ with conns := l₁ } { s₂ with conns := l₂ } :=
  ⟨h.db, h.udb, hl, h.cfg, h.frames⟩

theorem IsoRel.listeners (h : IsoRel b ρ s₁ s₂) (m : String) : s₁.listeners b m = s₂.listeners b m := by
  unfold Sys.listeners
  apply All2.map_eq (R := ConnRel b)
  · apply All2.filter _ _ h.conns
    intro x₁ _ x₂ _ r
    exact r.listens m
  · intro x₁ _ x₂ _ r
    exact r.1.symm

/-- the usage block of a nameplate of app `b`, with side rows that agree on `added` -/
theorem IsoRel.uNp (h : IsoRel b ρ s₁ s₂) {sides₁ sides₂ : List NpSide}
    (hs : sides₂.map (·.added) = sides₁.map (·.added)) (t : Time) (p : Bool) :
    IsoRel b ρ (s₁.uNp b sides₁ t p).1 (s₂.uNp b sides₂ t p).1 ∧
      (s₁.uNp b sides₁ t p).2 = (s₂.uNp b sides₂ t p).2 := by
  unfold Sys.uNp Sys.storeNameplateUsage
  rw [← h.cfg, ← h.blurTime, hs]
  split
  · cases summarizeNameplate s₁.blurTime (sides₁.map (·.added)) t p with
    | none => exact ⟨h, rfl⟩
    | some u =>
      refine ⟨⟨h.db, ?_, h.conns, h.cfg, h.frames⟩, rfl⟩
      obtain ⟨u1, u2, u3⟩ := h.udb
      refine ⟨?_, u2, u3⟩
      simp only [Usage.npsB, Sys.modUdb, List.filter_append] at u1 ⊢
      rw [u1]
  · exact ⟨h, rfl⟩

/-- the usage block of a mailbox of app `b` -/
theorem IsoRel.uMb (h : IsoRel b ρ s₁ s₂) (forNp : Bool) (sides : List MbSide) (t : Time) (p : Bool) :
    IsoRel b ρ (s₁.uMb b forNp sides t p) (s₂.uMb b forNp sides t p) := by
  unfold Sys.uMb Sys.storeMailboxUsage
  rw [← h.cfg, ← h.blurTime]
  split
  · refine ⟨h.db, ?_, h.conns, h.cfg, h.frames⟩
    obtain ⟨u1, u2, u3⟩ := h.udb
    refine ⟨u1, ?_, u3⟩
    simp only [Usage.mbsB, Sys.modUdb, List.filter_append] at u2 ⊢
    rw [u2]
  · exact h

end basics

/-! ### Mailbox -/

section mailbox
variable {b : String} {ρ : Nat → Nat} {s₁ s₂ : Sys}

/-- "if the id is not b's, it is nobody's, and no side row mentions it": the guard of
    K-global-mailbox-id (no row with this id under another app) together with the foreign key
    of `mailbox_sides` -/
def Absent (d : Chan) (b m : String) : Prop :=
  ¬ d.HasMb b m → (∀ x ∈ d.mbSides, ¬ x.mailbox = m) ∧ (∀ r ∈ d.mailboxes, ¬ r.id = m)

theorem absent_of_hasMb {d : Chan} {b m : String} (h : d.HasMb b m) : Absent d b m := fun h' => (h' h).elim

theorem absent_of_pinv {d : Chan} {b m : String} (hp : d.PInv) (hg : ¬ d.ForeignMb b m) : Absent d b m := by
  intro hno
  have h2 : ∀ r ∈ d.mailboxes, ¬ r.id = m := fun r hr e => hg ⟨hno, r, hr, e⟩
  refine ⟨?_, h2⟩
  intro x hx e
  obtain ⟨r, hr, er⟩ := hp.msFk x hx
  exact h2 r hr (er.trans e)

/-- `_add_mailbox` -/
theorem addMailbox_iso (h : IsoRel b ρ s₁ s₂) (m : String) (forNp : Bool) (t : Time) (ha : Absent s₁.db b m) :
    ∃ s₁' s₂', s₁.addMailbox b m forNp t = some s₁' ∧ s₂.addMailbox b m forNp t = some s₂' ∧
      IsoRel b ρ s₁' s₂' ∧ s₁'.db.HasMb b m ∧ s₁'.db.npPart = s₁.db.npPart ∧ s₂'.db.npPart = s₂.db.npPart := by
  unfold Sys.addMailbox
  rw [h.db.findMailbox m, h.db.findMailboxById m]
  cases hf : s₁.db.findMailbox b m with
  | some row => exact ⟨s₁, s₂, rfl, rfl, h, Chan.findMailbox_hasMb hf, rfl, rfl⟩
  | none =>
    have hno : ¬ s₁.db.HasMb b m := Chan.findMailbox_none hf
    obtain ⟨h1, h2⟩ := ha hno
    have hid : s₁.db.findMailboxById m = none := by
      unfold Chan.findMailboxById
      rw [List.find?_eq_none]
      intro r hr; simpa using h2 r hr
    rw [hid]
    refine ⟨_, _, rfl, rfl, h.modDb _ _ (h.db.insMailbox ⟨b, m, t, forNp⟩ rfl h1), ?_, rfl, rfl⟩
    exact ⟨⟨b, m, t, forNp⟩, by simp [Sys.modDb, Chan.insMailbox], rfl, rfl⟩

/-- `Mailbox.open` -/
theorem mailboxOpen_iso (h : IsoRel b ρ s₁ s₂) {m : String} (hm : s₁.db.HasMb b m) (side : String) (t : Time) :
    IsoRel b ρ (s₁.mailboxOpen m side t) (s₂.mailboxOpen m side t) := by
  unfold Sys.mailboxOpen
  rw [h.db.findMbSide hm side]
  cases s₁.db.findMbSide m side with
  | none =>
    exact ((h.modDb _ _ (h.db.insMbSide ⟨m, true, side, t, none⟩ hm)).modDb _ _
      ((h.db.insMbSide ⟨m, true, side, t, none⟩ hm).touch m t)).commit
  | some _ => exact (h.modDb _ _ (h.db.touch m t)).commit

theorem hasMb_mailboxOpen {s : Sys} {a m' m side : String} {t : Time} :
    (s.mailboxOpen m side t).db.HasMb a m' ↔ s.db.HasMb a m' := by
  unfold Sys.mailboxOpen
  cases s.db.findMbSide m side <;> simp [Sys.modDb]

/-- `open_mailbox` -/
theorem openMailbox_iso (h : IsoRel b ρ s₁ s₂) {m side : String} {t : Time} (ha : Absent s₁.db b m)
    {s₁' s₂' : Sys} {r₁ r₂ : OpenRes} (e₁ : s₁.openMailbox b m side t = (s₁', r₁))
    (e₂ : s₂.openMailbox b m side t = (s₂', r₂)) :
    IsoRel b ρ s₁' s₂' ∧ r₁ = r₂ ∧ r₁ ≠ .integrity ∧ s₁'.db.HasMb b m ∧
      s₁'.db.npPart = s₁.db.npPart ∧ s₂'.db.npPart = s₂.db.npPart := by
  obtain ⟨a₁, a₂, ea₁, ea₂, hr, hm, hn₁, hn₂⟩ := addMailbox_iso h m false t ha
  unfold Sys.openMailbox at e₁ e₂
  rw [ea₁] at e₁; rw [ea₂] at e₂
  dsimp only at e₁ e₂
  have h2 : IsoRel b ρ ((a₁.mailboxOpen m side t).commit) ((a₂.mailboxOpen m side t).commit) :=
    (mailboxOpen_iso hr hm side t).commit
  have hm2 : ((a₁.mailboxOpen m side t).commit).db.HasMb b m := by
    rw [commit_db, hasMb_mailboxOpen]; exact hm
  have hlen : ((a₂.mailboxOpen m side t).commit).db.mbSidesOf m = ((a₁.mailboxOpen m side t).commit).db.mbSidesOf m :=
    h2.db.mbSidesOf hm2
  rw [hlen] at e₂
  have hp₁ : ((a₁.mailboxOpen m side t).commit).db.npPart = s₁.db.npPart := by
    rw [commit_db, mailboxOpen_npPart, hn₁]
  have hp₂ : ((a₂.mailboxOpen m side t).commit).db.npPart = s₂.db.npPart := by
    rw [commit_db, mailboxOpen_npPart, hn₂]
  split at e₁
  · rename_i hc
    rw [if_pos hc] at e₂
    cases e₁; cases e₂
    exact ⟨h2, rfl, by simp, hm2, hp₁, hp₂⟩
  · rename_i hc
    rw [if_neg hc] at e₂
    cases e₁; cases e₂
    exact ⟨h2, rfl, by simp, hm2, hp₁, hp₂⟩

/-- `_add_message` -/
theorem addMessage_iso (h : IsoRel b ρ s₁ s₂) (m side : String) (ph bd : Val) (t : Time) (id : Val) :
    IsoRel b ρ (s₁.addMessage b m side ph bd t id) (s₂.addMessage b m side ph bd t id) := by
  unfold Sys.addMessage
  exact ((h.modDb _ _ (h.db.insMessage _ rfl)).modDb _ _ ((h.db.insMessage _ rfl).touch m t)).commit

theorem IsoRel.stopListeners (h : IsoRel b ρ s₁ s₂) (m : String) :
    IsoRel b ρ (s₁.stopListeners b m) (s₂.stopListeners b m) := by
  unfold Sys.stopListeners
  apply h.setConns
  apply All2.map _ _ h.conns
  intro x₁ _ x₂ _ r
  have hl := r.listens m
  by_cases ho : x₁.other b
  · obtain ⟨a, ha, hab⟩ := ho
    have h2 := r.2.2 ⟨a, ha, hab⟩
    have c1 : ¬ (x₁.listening = true ∧ x₁.app = some b ∧ x₁.mailbox = some m) := by simp [ha, hab]
    have c2 : ¬ (x₂.listening = true ∧ x₂.app = some b ∧ x₂.mailbox = some m) := by simp [h2]
    rw [if_neg c1, if_neg c2]
    exact r
  · have e := r.2.1 ho
    subst e
    split
    · refine ⟨rfl, fun _ => rfl, fun ho' => (ho ?_).elim⟩
      obtain ⟨a, ha, hab⟩ := ho'
      exact ⟨a, ha, hab⟩
    · exact r

theorem uNps_db (s : Sys) (app : String) (t : Time) : ∀ (l : List Nameplate), (s.uNps app t l).1.db = s.db := by
  intro l
  induction l generalizing s with
  | nil => rfl
  | cons np rest ih =>
    unfold Sys.uNps
    have hd := s.uNp_db app (s.db.npSidesOf np.id) t false
    cases e : s.uNp app (s.db.npSidesOf np.id) t false with
    | mk a1 b1 =>
      rw [e] at hd
      cases b1 with
      | false => exact hd
      | true => dsimp only; rw [ih a1]; exact hd

/-- the loop of repair F over the nameplates that die with their mailbox -/
theorem uNps_iso (t : Time) : ∀ (l : List Nameplate) {s₁ s₂ : Sys}, IsoRel b ρ s₁ s₂ →
    (∀ n ∈ l, n.id ∈ s₁.db.npIdsB b) →
    IsoRel b ρ (s₁.uNps b t l).1 (s₂.uNps b t (l.map (Chan.rnNp ρ))).1 ∧
      (s₁.uNps b t l).2 = (s₂.uNps b t (l.map (Chan.rnNp ρ))).2
  | [], _, _, h, _ => ⟨h, rfl⟩
  | np :: rest, s₁, s₂, h, hl => by
    have hi : np.id ∈ s₁.db.npIdsB b := hl np (by simp)
    have hs : (s₂.db.npSidesOf (ρ np.id)).map (·.added) = (s₁.db.npSidesOf np.id).map (·.added) := by
      rw [h.db.npSidesOf hi, List.map_map]; rfl
    obtain ⟨h1, hb⟩ := h.uNp hs t false
    simp only [List.map_cons, Sys.uNps, Chan.rnNp_id]
    cases e₁ : s₁.uNp b (s₁.db.npSidesOf np.id) t false with
    | mk a₁ b₁ =>
      cases e₂ : s₂.uNp b (s₂.db.npSidesOf (ρ np.id)) t false with
      | mk a₂ b₂ =>
        rw [e₁, e₂] at h1 hb
        dsimp only at h1 hb
        subst hb
        cases b₁ with
        | false => exact ⟨h1, rfl⟩
        | true =>
          dsimp only
          apply uNps_iso t rest h1
          intro n hn
          have : a₁.db = s₁.db := by have := s₁.uNp_db b (s₁.db.npSidesOf np.id) t false; rw [e₁] at this; exact this
          rw [this]
          exact hl n (by simp [hn])

/-- `Mailbox.close` -/
theorem mailboxClose_iso (h : IsoRel b ρ s₁ s₂) (hu : s₁.db.NpIdsUnique) {m side : String} {mood : Option String}
    {t : Time} {s₁' s₂' : Sys} {r₁ r₂ : Bool} (e₁ : s₁.mailboxClose b m side mood t = (s₁', r₁))
    (e₂ : s₂.mailboxClose b m side mood t = (s₂', r₂)) : IsoRel b ρ s₁' s₂' ∧ r₁ = r₂ := by
  rw [mailboxClose_eq] at e₁ e₂
  rw [h.db.findMailbox m] at e₂
  cases hf : s₁.db.findMailbox b m with
  | none =>
    rw [hf] at e₁ e₂
    cases e₁; cases e₂; exact ⟨h, rfl⟩
  | some row =>
    rw [hf] at e₁ e₂
    dsimp only at e₁ e₂
    have hm : s₁.db.HasMb b m := Chan.findMailbox_hasMb hf
    rw [h.db.findMbSide hm side] at e₂
    cases hs : s₁.db.findMbSide m side with
    | none =>
      rw [hs] at e₁ e₂
      cases e₁; cases e₂; exact ⟨h, rfl⟩
    | some sr =>
      rw [hs] at e₁ e₂
      dsimp only at e₁ e₂
      have h1 : IsoRel b ρ ((s₁.modDb (·.closeSide m side mood)).commit) ((s₂.modDb (·.closeSide m side mood)).commit) :=
        (h.modDb _ _ (h.db.closeSide m side mood)).commit
      have hm1 : ((s₁.modDb (·.closeSide m side mood)).commit).db.HasMb b m := by simpa using hm
      have hrows := h1.db.mbSidesOf hm1
      rw [hrows] at e₂
      split at e₁
      · rename_i hc
        rw [if_pos hc] at e₂
        cases e₁; cases e₂; exact ⟨h1, rfl⟩
      · rename_i hc
        rw [if_neg hc] at e₂
        rw [h1.db.nameplatesOfMailbox m] at e₂
        obtain ⟨h2, hb⟩ := uNps_iso t (((s₁.modDb (·.closeSide m side mood)).commit).db.nameplatesOfMailbox b m) h1
          (fun n hn => Chan.mem_nameplatesOfMailbox_npIdsB hn)
        cases ea : ((s₁.modDb (·.closeSide m side mood)).commit).uNps b t
            (((s₁.modDb (·.closeSide m side mood)).commit).db.nameplatesOfMailbox b m) with
        | mk a₁ b₁ =>
          cases eb : ((s₂.modDb (·.closeSide m side mood)).commit).uNps b t
              ((((s₁.modDb (·.closeSide m side mood)).commit).db.nameplatesOfMailbox b m).map (Chan.rnNp ρ)) with
          | mk a₂ b₂ =>
            rw [ea] at e₁ h2 hb; rw [eb] at e₂ h2 hb
            dsimp only at h2 hb
            subst hb
            cases b₁ with
            | false => cases e₁; cases e₂; exact ⟨h2, rfl⟩
            | true =>
              dsimp only at e₁ e₂
              cases e₁; cases e₂
              refine ⟨?_, rfl⟩
              have hu2 : a₁.db.NpIdsUnique := by
                have : a₁.db = ((s₁.modDb (·.closeSide m side mood)).commit).db := by
                  have := uNps_db ((s₁.modDb (·.closeSide m side mood)).commit) b t
                    (((s₁.modDb (·.closeSide m side mood)).commit).db.nameplatesOfMailbox b m)
                  rw [ea] at this; exact this
                rw [this]
                simpa [Chan.NpIdsUnique, Chan.closeSide] using hu
              have h3 := h2.modDb
                (fun d => ((((d.delNpSidesOfMailbox b m).delNameplatesOfMailbox b m).delMessagesOf m).delMbSidesOf m).delMailbox m)
                (fun d => ((((d.delNpSidesOfMailbox b m).delNameplatesOfMailbox b m).delMessagesOf m).delMbSidesOf m).delMailbox m)
                (((h2.db.delNpOfMailbox hu2 m).delMessagesOf m).delMbBlock m)
              exact (((h3.uMb row.forNp _ t false).uCommit).commit).stopListeners m

end mailbox

/-! ### nameplates -/

section nameplates
variable {b : String} {ρ : Nat → Nat} {s₁ s₂ : Sys}

theorem npPart_eq {d d' : Chan} (h : d'.npPart = d.npPart) :
    d'.nameplates = d.nameplates ∧ d'.npSides = d.npSides ∧ d'.nextNp = d.nextNp := by
  simpa [Chan.npPart] using h

theorem npIdsB_of_npPart {d d' : Chan} (h : d'.npPart = d.npPart) (b : String) : d'.npIdsB b = d.npIdsB b := by
  unfold Chan.npIdsB Chan.npsB
  rw [(npPart_eq h).1]

/-- the continuation of `claim_nameplate` -/
theorem claimCont_iso (h : IsoRel b ρ s₁ s₂) {i : Nat} (hi : i ∈ s₁.db.npIdsB b) {mb side : String} {t : Time}
    (hm : s₁.db.HasMb b mb) {s₁' s₂' : Sys} {r₁ r₂ : ClaimRes}
    (e₁ : claimCont s₁ b i mb side t = (s₁', r₁)) (e₂ : claimCont s₂ b (ρ i) mb side t = (s₂', r₂)) :
    IsoRel b ρ s₁' s₂' ∧ r₁ = r₂ := by
  unfold claimCont at e₁ e₂
  dsimp only at e₁ e₂
  cases eo₁ : s₁.commit.openMailbox b mb side t with
  | mk a₁ o₁ =>
    cases eo₂ : s₂.commit.openMailbox b mb side t with
    | mk a₂ o₂ =>
      obtain ⟨h3, rfl, hni, _, hp₁, _⟩ := openMailbox_iso h.commit (absent_of_hasMb (by simpa using hm)) eo₁ eo₂
      rw [eo₁] at e₁; rw [eo₂] at e₂
      cases o₁ with
      | integrity => exact absurd rfl hni
      | crowded => cases e₁; cases e₂; exact ⟨h3, rfl⟩
      | ok =>
        dsimp only at e₁ e₂
        have hi3 : i ∈ a₁.db.npIdsB b := by
          rw [npIdsB_of_npPart hp₁]; simpa using hi
        rw [h3.db.npSidesOf hi3, List.length_map] at e₂
        split at e₁
        · rename_i hc
          rw [if_pos hc] at e₂
          cases e₁; cases e₂; exact ⟨h3, rfl⟩
        · rename_i hc
          rw [if_neg hc] at e₂
          cases e₁; cases e₂; exact ⟨h3, rfl⟩

theorem claimTail_iso (h : IsoRel b ρ s₁ s₂) {i : Nat} (hi : i ∈ s₁.db.npIdsB b) {mb side : String} {t : Time}
    (hm : s₁.db.HasMb b mb) {s₁' s₂' : Sys} {r₁ r₂ : ClaimRes}
    (e₁ : s₁.claimTail b i mb side t = (s₁', r₁)) (e₂ : s₂.claimTail b (ρ i) mb side t = (s₂', r₂)) :
    IsoRel b ρ s₁' s₂' ∧ r₁ = r₂ := by
  rw [claimTail_eq] at e₁ e₂
  rw [h.db.findNpSide hi side] at e₂
  cases hf : s₁.db.findNpSide i side with
  | none =>
    rw [hf] at e₁ e₂
    dsimp only [Option.map] at e₁ e₂
    exact claimCont_iso (h.modDb _ _ (h.db.insNpSide ⟨i, true, side, t⟩ hi)) hi (by simpa using hm) e₁ e₂
  | some r =>
    rw [hf] at e₁ e₂
    dsimp only [Option.map] at e₁ e₂
    split at e₁
    · rename_i hc
      rw [if_pos (show (Chan.rnSide ρ r).claimed = true from hc)] at e₂
      exact claimCont_iso h hi hm e₁ e₂
    · rename_i hc
      rw [if_neg (show ¬ (Chan.rnSide ρ r).claimed = true from hc)] at e₂
      cases e₁; cases e₂; exact ⟨h, rfl⟩

/-- `claim_nameplate`.  `hg` is the guard of K-global-mailbox-id for the generated id (implied
    by its freshness). -/
theorem claimNameplate_iso (h : IsoRel b ρ s₁ s₂) (hp : s₁.db.PInv)
    (hb₂ : ∀ n ∈ s₂.db.nameplates, n.id < s₂.db.nextNp) {name side : String} {t : Time} {fresh : String}
    (hg : ¬ s₁.db.ForeignMb b fresh) {s₁' s₂' : Sys} {r₁ r₂ : ClaimRes}
    (e₁ : s₁.claimNameplate b name side t fresh = (s₁', r₁))
    (e₂ : s₂.claimNameplate b name side t fresh = (s₂', r₂)) : ∃ ρ', IsoRel b ρ' s₁' s₂' ∧ r₁ = r₂ := by
  unfold Sys.claimNameplate at e₁ e₂
  rw [h.db.findNameplate name] at e₂
  cases hf : s₁.db.findNameplate b name with
  | some row =>
    rw [hf] at e₁ e₂
    simp only [Option.map, Chan.rnNp_id, Chan.rnNp_mailbox] at e₁ e₂
    have hrow := Chan.findNameplate_some hf
    obtain ⟨mrow, hm1, hm2, hm3⟩ := hp.npMb row hrow.1
    have hm : s₁.db.HasMb b row.mailbox := ⟨mrow, hm1, hm2, by rw [hm3]; exact hrow.2.1⟩
    exact ⟨ρ, claimTail_iso h (Chan.findNameplate_mem_npIdsB hf) hm e₁ e₂⟩
  | none =>
    rw [hf] at e₁ e₂
    dsimp only [Option.map] at e₁ e₂
    obtain ⟨a₁, a₂, ea₁, ea₂, hr, hm, hn₁, hn₂⟩ := addMailbox_iso h fresh true t (absent_of_pinv hp hg)
    rw [ea₁] at e₁; rw [ea₂] at e₂
    dsimp only at e₁ e₂
    obtain ⟨n1, n2, n3⟩ := npPart_eq hn₁
    obtain ⟨m1, m2, m3⟩ := npPart_eq hn₂
    have hb₁ : a₁.db.IdsBounded := by
      unfold Chan.IdsBounded; rw [n1, n2, n3]; exact hp.bounded
    have hb₂' : ∀ n ∈ a₂.db.nameplates, n.id < a₂.db.nextNp := by rw [m1, m3]; exact hb₂
    have hv := hr.db.insNameplate name fresh hb₁ hb₂'
    have h2 := hr.modDb (·.insNameplate b name fresh) (·.insNameplate b name fresh) hv
    have hi : a₁.db.nextNp ∈ (a₁.modDb (·.insNameplate b name fresh)).db.npIdsB b := by
      simp [Chan.npIdsB, Chan.npsB, Chan.insNameplate, List.filter_append]
    have hm' : (a₁.modDb (·.insNameplate b name fresh)).db.HasMb b fresh := by simpa using hm
    have hρ : Chan.extend ρ a₁.db.nextNp a₂.db.nextNp a₁.db.nextNp = a₂.db.nextNp := by simp [Chan.extend]
    rw [← hρ] at e₂
    exact ⟨_, claimTail_iso h2 hi hm' e₁ e₂⟩

/-- `release_nameplate` -/
theorem releaseNameplate_iso (h : IsoRel b ρ s₁ s₂) {name side : String} {t : Time} {s₁' s₂' : Sys} {r₁ r₂ : Bool}
    (e₁ : s₁.releaseNameplate b name side t = (s₁', r₁)) (e₂ : s₂.releaseNameplate b name side t = (s₂', r₂)) :
    IsoRel b ρ s₁' s₂' ∧ r₁ = r₂ := by
  rw [releaseNameplate_eq] at e₁ e₂
  rw [h.db.findNameplate name] at e₂
  cases hf : s₁.db.findNameplate b name with
  | none =>
    rw [hf] at e₁ e₂
    cases e₁; cases e₂; exact ⟨h, rfl⟩
  | some np =>
    rw [hf] at e₁ e₂
    simp only [Option.map, Chan.rnNp_id] at e₁ e₂
    have hi : np.id ∈ s₁.db.npIdsB b := Chan.findNameplate_mem_npIdsB hf
    rw [h.db.findNpSide hi side] at e₂
    cases hs : s₁.db.findNpSide np.id side with
    | none =>
      rw [hs] at e₁ e₂
      cases e₁; cases e₂; exact ⟨h, rfl⟩
    | some sr =>
      rw [hs] at e₁ e₂
      dsimp only [Option.map] at e₁ e₂
      have h1 : IsoRel b ρ ((s₁.modDb (·.unclaim np.id side)).commit) ((s₂.modDb (·.unclaim (ρ np.id) side)).commit) :=
        (h.modDb _ _ (h.db.unclaim hi side)).commit
      have hi1 : np.id ∈ ((s₁.modDb (·.unclaim np.id side)).commit).db.npIdsB b := by
        rw [commit_db]; exact hi
      have hrows := h1.db.npSidesOf hi1
      simp only [hrows] at e₂
      have hany : ((((s₁.modDb (·.unclaim np.id side)).commit).db.npSidesOf np.id).map (Chan.rnSide ρ)).any (·.claimed) =
          (((s₁.modDb (·.unclaim np.id side)).commit).db.npSidesOf np.id).any (·.claimed) := by
        rw [List.any_map]; rfl
      simp only [hany] at e₂
      split at e₁
      · rename_i hc
        rw [if_pos hc] at e₂
        cases e₁; cases e₂; exact ⟨h1, rfl⟩
      · rename_i hc
        rw [if_neg hc] at e₂
        have h2 := h1.modDb (fun d => (d.delNpSidesOf np.id).delNameplate np.id)
          (fun d => (d.delNpSidesOf (ρ np.id)).delNameplate (ρ np.id)) (h1.db.delById hi1)
        have hadd : ((((s₁.modDb (·.unclaim np.id side)).commit).db.npSidesOf np.id).map (Chan.rnSide ρ)).map (·.added) =
            (((s₁.modDb (·.unclaim np.id side)).commit).db.npSidesOf np.id).map (·.added) := by
          rw [List.map_map]; rfl
        obtain ⟨h3, hb⟩ := h2.uNp hadd t false
        cases ea : (((s₁.modDb (·.unclaim np.id side)).commit).modDb
            (fun d => (d.delNpSidesOf np.id).delNameplate np.id)).uNp b
            (((s₁.modDb (·.unclaim np.id side)).commit).db.npSidesOf np.id) t false with
        | mk a₁ b₁ =>
          cases eb : (((s₂.modDb (·.unclaim (ρ np.id) side)).commit).modDb
              (fun d => (d.delNpSidesOf (ρ np.id)).delNameplate (ρ np.id))).uNp b
              ((((s₁.modDb (·.unclaim np.id side)).commit).db.npSidesOf np.id).map (Chan.rnSide ρ)) t false with
          | mk a₂ b₂ =>
            rw [ea] at e₁ h3 hb; rw [eb] at e₂ h3 hb
            dsimp only at h3 hb
            subst hb
            cases b₁ with
            | false => cases e₁; cases e₂; exact ⟨h3, rfl⟩
            | true =>
              dsimp only at e₁ e₂
              cases e₁; cases e₂
              exact ⟨h3.uCommit.commit, rfl⟩

end nameplates

/-! ### prune -/

section prune
variable {b : String} {ρ : Nat → Nat} {s₁ s₂ : Sys}

theorem mem_npIdsB_delById {d : Chan} {b : String} {i k : Nat} :
    k ∈ ((d.delNpSidesOf i).delNameplate i).npIdsB b ↔ k ∈ d.npIdsB b ∧ ¬ k = i := by
  simp only [Chan.mem_npIdsB, Chan.delNameplate, Chan.delNpSidesOf, List.mem_filter, decide_eq_true_eq, decide_not,
    Bool.not_eq_eq_eq_not, Bool.not_true, decide_eq_false_iff_not]
  constructor
  · rintro ⟨n, ⟨h1, h2⟩, h3, rfl⟩; exact ⟨⟨n, h1, h3, rfl⟩, h2⟩
  · rintro ⟨⟨n, h1, h3, rfl⟩, h2⟩; exact ⟨n, ⟨h1, h2⟩, h3, rfl⟩

/-- the touch loop of `prune` -/
theorem touchListened_iso (h : IsoRel b ρ s₁ s₂) (now : Time) :
    IsoRel b ρ (s₁.touchListened b now) (s₂.touchListened b now) := by
  unfold Sys.touchListened
  apply h.modDb
  apply h.db.mapMailboxes
  · intro r; split <;> simp
  · intro r _ _
    rw [h.listeners r.id]

/-- the loop over `old_nameplates` -/
theorem pruneNameplates_iso (now : Time) : ∀ (l : List Nameplate) {s₁ s₂ : Sys}, IsoRel b ρ s₁ s₂ →
    (∀ n ∈ l, n.id ∈ s₁.db.npIdsB b) → l.Pairwise (fun x y => ¬ x.id = y.id) →
    IsoRel b ρ (s₁.pruneNameplates b now l).1 (s₂.pruneNameplates b now (l.map (Chan.rnNp ρ))).1 ∧
      (s₁.pruneNameplates b now l).2 = (s₂.pruneNameplates b now (l.map (Chan.rnNp ρ))).2
  | [], _, _, h, _, _ => ⟨h, rfl⟩
  | np :: rest, s₁, s₂, h, hl, hd => by
    have hi : np.id ∈ s₁.db.npIdsB b := hl np (by simp)
    have hs : (s₂.db.npSidesOf (ρ np.id)).map (·.added) = (s₁.db.npSidesOf np.id).map (·.added) := by
      rw [h.db.npSidesOf hi, List.map_map]; rfl
    have h2 := h.modDb (fun d => (d.delNpSidesOf np.id).delNameplate np.id)
      (fun d => (d.delNpSidesOf (ρ np.id)).delNameplate (ρ np.id)) (h.db.delById hi)
    obtain ⟨h3, hb⟩ := h2.uNp hs now true
    simp only [List.map_cons, pruneNameplates_cons, Chan.rnNp_id]
    cases e₁ : (s₁.modDb (fun d => (d.delNpSidesOf np.id).delNameplate np.id)).uNp b (s₁.db.npSidesOf np.id) now true with
    | mk a₁ b₁ =>
      cases e₂ : (s₂.modDb (fun d => (d.delNpSidesOf (ρ np.id)).delNameplate (ρ np.id))).uNp b
          (s₂.db.npSidesOf (ρ np.id)) now true with
      | mk a₂ b₂ =>
        rw [e₁, e₂] at h3 hb
        dsimp only at h3 hb
        subst hb
        cases b₁ with
        | false => exact ⟨h3, rfl⟩
        | true =>
          dsimp only
          have hdb : a₁.db = (s₁.db.delNpSidesOf np.id).delNameplate np.id := by
            have := (s₁.modDb (fun d => (d.delNpSidesOf np.id).delNameplate np.id)).uNp_db b (s₁.db.npSidesOf np.id) now true
            rw [e₁] at this; exact this
          apply pruneNameplates_iso now rest h3
          · intro n hn
            rw [hdb, mem_npIdsB_delById]
            exact ⟨hl n (by simp [hn]), fun e => (List.rel_of_pairwise_cons hd hn) e.symm⟩
          · exact (List.pairwise_cons.1 hd).2

theorem pruneNameplates_mailboxes (app : String) (now : Time) : ∀ (l : List Nameplate) (s : Sys),
    (s.pruneNameplates app now l).1.db.mailboxes = s.db.mailboxes
  | [], _ => rfl
  | np :: rest, s => by
    rw [pruneNameplates_cons]
    have hd := (s.modDb (fun d => (d.delNpSidesOf np.id).delNameplate np.id)).uNp_db app (s.db.npSidesOf np.id) now true
    cases e : (s.modDb (fun d => (d.delNpSidesOf np.id).delNameplate np.id)).uNp app (s.db.npSidesOf np.id) now true with
    | mk a1 b1 =>
      rw [e] at hd
      cases b1 with
      | false => dsimp only; rw [hd]; rfl
      | true => dsimp only; rw [pruneNameplates_mailboxes app now rest a1, hd]; rfl

/-- the loop over `old_mailboxes` -/
theorem pruneMailboxes_iso (now : Time) : ∀ (l : List MailboxRow) {s₁ s₂ : Sys}, IsoRel b ρ s₁ s₂ →
    (∀ r ∈ l, s₁.db.HasMb b r.id) → l.Pairwise (fun x y => ¬ x.id = y.id) →
    IsoRel b ρ (s₁.pruneMailboxes b now l) (s₂.pruneMailboxes b now l)
  | [], _, _, h, _, _ => h
  | row :: rest, s₁, s₂, h, hl, hd => by
    rw [pruneMailboxes_cons, pruneMailboxes_cons]
    have hm : s₁.db.HasMb b row.id := hl row (by simp)
    rw [h.db.mbSidesOf hm]
    have h2 := h.modDb (fun d => ((d.delMessagesOf row.id).delMbSidesOf row.id).delMailbox row.id)
      (fun d => ((d.delMessagesOf row.id).delMbSidesOf row.id).delMailbox row.id)
      ((h.db.delMessagesOf row.id).delMbBlock row.id)
    apply pruneMailboxes_iso now rest (h2.uMb row.forNp _ now true)
    · intro r hr
      rw [uMb_db, modDb_db, Chan.hasMb_delMailbox]
      exact ⟨by simpa using hl r (by simp [hr]), fun e => (List.rel_of_pairwise_cons hd hr) e.symm⟩
    · exact (List.pairwise_cons.1 hd).2

/-- `AppNamespace.prune` of app `b` -/
theorem prune_iso (h : IsoRel b ρ s₁ s₂) (hp : s₁.db.PInv) {now old : Time} {s₁' s₂' : Sys} {r₁ r₂ : Bool}
    (e₁ : s₁.prune b now old = (s₁', r₁)) (e₂ : s₂.prune b now old = (s₂', r₂)) :
    IsoRel b ρ s₁' s₂' ∧ r₁ = r₂ := by
  rw [prune_eq, pruneRest_eq] at e₁ e₂
  dsimp only at e₁ e₂
  have h1 : IsoRel b ρ ((s₁.touchListened b now).commit) ((s₂.touchListened b now).commit) :=
    (touchListened_iso h now).commit
  have hp1 : ((s₁.touchListened b now).commit).db.PInv := by
    rw [commit_db, touchListened_db]
    exact hp.mapMailboxes _ (s₁.touchFn_keys b now)
  rw [h1.db.mailboxesOfApp, h1.db.nameplatesOfApp, List.filter_map] at e₂
  have hcomp : ((fun r : Nameplate => decide (r.mailbox ∈ List.map (fun x => x.id)
      (List.filter (fun r => decide ¬r.updated > old) (((s₁.touchListened b now).commit).db.mailboxesOfApp b)))) ∘
        Chan.rnNp ρ) = (fun r : Nameplate => decide (r.mailbox ∈ List.map (fun x => x.id)
      (List.filter (fun r => decide ¬r.updated > old) (((s₁.touchListened b now).commit).db.mailboxesOfApp b)))) := by
    funext r; rfl
  rw [hcomp] at e₂
  -- the two lists
  have hnpl : ∀ n ∈ (((s₁.touchListened b now).commit).db.nameplatesOfApp b).filter (fun r => r.mailbox ∈
      ((((s₁.touchListened b now).commit).db.mailboxesOfApp b).filter (fun r => ¬ r.updated > old)).map (·.id)),
      n.id ∈ ((s₁.touchListened b now).commit).db.npIdsB b :=
    fun n hn => Chan.mem_nameplatesOfApp_npIdsB (List.mem_filter.1 hn).1
  have hnpd : ((((s₁.touchListened b now).commit).db.nameplatesOfApp b).filter (fun r => r.mailbox ∈
      ((((s₁.touchListened b now).commit).db.mailboxesOfApp b).filter (fun r => ¬ r.updated > old)).map (·.id))).Pairwise
      (fun x y => ¬ x.id = y.id) := ((hp1.npIds.filter _).filter _)
  have hmbl : ∀ r ∈ (((s₁.touchListened b now).commit).db.mailboxesOfApp b).filter (fun r => ¬ r.updated > old),
      ((s₁.touchListened b now).commit).db.HasMb b r.id := by
    intro r hr
    have := (List.mem_filter.1 (List.mem_filter.1 hr).1)
    exact ⟨r, this.1, rfl, by simpa using this.2⟩
  have hmbd : ((((s₁.touchListened b now).commit).db.mailboxesOfApp b).filter (fun r => ¬ r.updated > old)).Pairwise
      (fun x y => ¬ x.id = y.id) := ((hp1.mbIds.filter _).filter _)
  obtain ⟨h2, hb⟩ := pruneNameplates_iso now _ h1 hnpl hnpd
  cases ea : ((s₁.touchListened b now).commit).pruneNameplates b now
      ((((s₁.touchListened b now).commit).db.nameplatesOfApp b).filter (fun r => r.mailbox ∈
      ((((s₁.touchListened b now).commit).db.mailboxesOfApp b).filter (fun r => ¬ r.updated > old)).map (·.id))) with
  | mk a₁ b₁ =>
    cases eb : ((s₂.touchListened b now).commit).pruneNameplates b now
        (((((s₁.touchListened b now).commit).db.nameplatesOfApp b).filter (fun r => r.mailbox ∈
        ((((s₁.touchListened b now).commit).db.mailboxesOfApp b).filter (fun r => ¬ r.updated > old)).map (·.id))).map
          (Chan.rnNp ρ)) with
    | mk a₂ b₂ =>
      rw [ea, eb] at h2 hb
      rw [ea] at e₁; rw [eb] at e₂
      dsimp only at h2 hb
      subst hb
      cases b₁ with
      | false => cases e₁; cases e₂; exact ⟨h2, rfl⟩
      | true =>
        dsimp only at e₁ e₂
        have hmbl' : ∀ r ∈ (((s₁.touchListened b now).commit).db.mailboxesOfApp b).filter (fun r => ¬ r.updated > old),
            a₁.db.HasMb b r.id := by
          intro r hr
          have hq := congrArg (fun p : Sys × Bool => p.1.db.mailboxes) ea
          simp only [pruneNameplates_mailboxes] at hq
          obtain ⟨m0, g1, g2, g3⟩ := hmbl r hr
          exact ⟨m0, by rw [← hq]; exact g1, g2, g3⟩
        have h3 := pruneMailboxes_iso now _ h2 hmbl' hmbd
        simp only [ne_eq, List.map_eq_nil_iff] at e₁ e₂
        split at e₁
        · rename_i hc
          rw [if_pos hc] at e₂
          cases e₁; cases e₂
          exact ⟨h3.commit.uCommit, rfl⟩
        · rename_i hc
          rw [if_neg hc] at e₂
          cases e₁; cases e₂
          exact ⟨h3, rfl⟩

end prune

end Sys
end Wormhole
