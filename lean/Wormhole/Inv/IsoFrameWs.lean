/-
  C06 (application isolation), frame lemmas, part 3: the websocket layer (Ws.lean).

  `onMessage_frameB`: a command on a connection that is bound to an app other than `b` once the
  command has been processed (already bound to `a ≠ b`, or this is the `bind` to `a ≠ b`) leaves
  b's rows, b's usage rows and b's connections alone (`FrameB b`), and every frame it emits is
  addressed to a connection bound to another app (`FrameTo (otherIds b …)`): the acting
  connection itself or, for `add`, the listeners of `(a, m)`.

  Internally the handlers are walked with the bundle `HF b a c ids s s'` = `FrameB b s s'`, every
  record with id `c` is bound to `a` in `s'` (`BoundTo`), and the events appended since `s` are
  commits, `internal`s or frames to `ids`.  That a Core function keeps `BoundTo` is read off its
  frame lemma, which holds for EVERY `b' ≠ a` (`BoundTo.of_frames`).
-/
import Wormhole.Inv.IsoFrameCore
import Wormhole.Inv.WFDec

set_option linter.unusedSimpArgs false
set_option linter.unusedVariables false

namespace Wormhole

/-- `find?` by id commutes with an UPDATE that keeps ids -/
theorem find?_id_map (g : Conn → Conn) (hg : ∀ y, (g y).id = y.id) (c : Nat) (l : List Conn) :
    (l.map g).find? (fun y => y.id = c) = (l.find? (fun y => y.id = c)).map g := by
  induction l with
  | nil => rfl
  | cons y l ih =>
    simp only [List.map_cons, List.find?_cons, hg]
    split
    · rfl
    · exact ih

namespace Sys

/-! ### `appOf` -/

theorem appOf_eq_some {s : Sys} {c : Nat} {a : String} :
    s.appOf c = some a ↔ ∃ y, s.findConn c = some y ∧ y.app = some a := by
  unfold appOf
  cases s.findConn c with
  | none => simp
  | some y => simp

theorem appOf_of_conns_eq {s s' : Sys} (h : s'.conns = s.conns) (c : Nat) : s'.appOf c = s.appOf c := by
  unfold appOf findConn; rw [h]

theorem appOf_mem {s : Sys} {c : Nat} {a : String} (h : s.appOf c = some a) :
    ∃ y ∈ s.conns, y.id = c ∧ y.app = some a := by
  obtain ⟨y, hy, ha⟩ := appOf_eq_some.1 h
  exact ⟨y, findConn_mem' hy, findConn_id' hy, ha⟩

theorem mem_otherIds {b : String} {l : List Conn} {y : Conn} (hy : y ∈ l) (ho : y.other b) : y.id ∈ otherIds b l := by
  simp only [otherIds, List.mem_map, List.mem_filter, decide_eq_true_eq]
  exact ⟨y, ⟨hy, ho⟩, rfl⟩

theorem mem_otherIds_of_appOf {b : String} {s : Sys} {c : Nat} {a : String} (h : s.appOf c = some a) (hab : a ≠ b) :
    c ∈ otherIds b s.conns := by
  obtain ⟨y, hy, rfl, ha⟩ := appOf_mem h
  exact mem_otherIds hy ⟨a, ha, hab⟩

/-- the ids of the records bound to `a ≠ b` are still ids of records bound to another app after a
    `FrameB b` step -/
theorem FrameB.mem_otherIds {b a : String} {s s' : Sys} (h : FrameB b s s') (hab : a ≠ b) {y : Conn}
    (hy : y ∈ s.conns) (ha : y.app = some a) : y.id ∈ otherIds b s'.conns := by
  obtain ⟨y', hy', e, hcase⟩ := All2.mem_left h.conns hy
  rw [← e]
  apply Sys.mem_otherIds hy'
  rcases hcase with rfl | ⟨ho, _⟩
  · exact ⟨a, ha, hab⟩
  · exact ho

/-! ### `BoundTo` -/

/-- every record with id `c` is bound to app `a` -/
def BoundTo (c : Nat) (a : String) (s : Sys) : Prop := ∀ y ∈ s.conns, y.id = c → y.app = some a

theorem BoundTo.of_conns_eq {c : Nat} {a : String} {s s' : Sys} (h : BoundTo c a s) (e : s'.conns = s.conns) :
    BoundTo c a s' := by
  unfold BoundTo; rw [e]; exact h

/-- a step that is a `ConnsFrame b'` step for EVERY `b' ≠ a` keeps the records bound to `a` bound
    to `a` -/
theorem BoundTo.of_frames {c : Nat} {a : String} {s s' : Sys} (h : BoundTo c a s)
    (hf : ∀ b', a ≠ b' → ConnsFrame b' s.conns s'.conns) : BoundTo c a s' := by
  have i0 : { b' : String // a ≠ b' } := ⟨a ++ "x", exists_ne_string a⟩
  have all := All2.forall_of (ι := { b' : String // a ≠ b' }) i0
    (R := fun (i : { b' : String // a ≠ b' }) (x x' : Conn) => x'.id = x.id ∧ (x' = x ∨ (x'.other i.1 ∧ x.app ≠ some i.1))) (fun i => hf i.1 i.2)
  intro y' hy' hid
  obtain ⟨y, hy, r⟩ := All2.mem_right all hy'
  have hya : y.app = some a := h y hy ((r i0).1 ▸ hid)
  by_cases hyy : y' = y
  · rw [hyy]; exact hya
  · have ho : ∀ i : { b' : String // a ≠ b' }, y'.other i.1 := by
      intro i
      rcases (r i).2 with e | ⟨o, _⟩
      · exact absurd e hyy
      · exact o
    obtain ⟨a', ha', _⟩ := ho i0
    by_cases e : a = a'
    · rw [ha', e]
    · obtain ⟨a'', ha'', hne⟩ := ho ⟨a', e⟩
      rw [ha'] at ha''
      exact absurd (Option.some.inj ha'').symm hne

/-! ### the bundle carried through a handler -/

structure HF (b a : String) (c : Nat) (ids : List Nat) (s s' : Sys) : Prop where
  fr : FrameB b s s'
  bd : BoundTo c a s'
  out : OutExt (FrameTo ids) s s'

section hf
variable {b a : String} {c : Nat} {ids : List Nat} {s s1 : Sys}

theorem HF.refl (h : BoundTo c a s) : HF b a c ids s s := ⟨FrameB.refl _ _, h, OutExt.refl⟩

theorem HF.emit (h : HF b a c ids s s1) {e : Event} (he : FrameTo ids e) : HF b a c ids s (s1.emit e) :=
  ⟨h.fr.emit e, h.bd, h.out.emit he⟩

theorem HF.send (h : HF b a c ids s s1) {c' : Nat} (hc : c' ∈ ids) (f : Frame) : HF b a c ids s (s1.send c' f) :=
  h.emit (e := .frame c' f s1.synced) hc

theorem HF.sendError (h : HF b a c ids s s1) {c' : Nat} (hc : c' ∈ ids) (txt : String) :
    HF b a c ids s (s1.sendError c' txt) := h.send hc _

theorem HF.internalErr (h : HF b a c ids s s1) (c' : Nat) (cls : String) : HF b a c ids s (s1.internalErr c' cls) :=
  h.emit (e := .internal (some c') cls) trivial

/-- an update of the acting connection's record that keeps id and app -/
theorem HF.updConn (h : HF b a c ids s s1) (hab : a ≠ b) (f : Conn → Conn)
    (hf : ∀ y, (f y).id = y.id ∧ (f y).app = y.app) : HF b a c ids s (s1.updConn c f) := by
  refine ⟨h.fr.trans (frameB_updConn c f ?_), ?_, OutExt.updConn h.out⟩
  · intro y hy hid
    have := h.bd y hy hid
    exact ⟨Conn.ne_of_app this hab, ⟨a, by rw [(hf y).2]; exact this, hab⟩, (hf y).1⟩
  · intro y' hy' hid
    simp only [Sys.updConn, List.mem_map] at hy'
    obtain ⟨y, hy, rfl⟩ := hy'
    split at hid
    · rename_i hc
      rw [if_pos hc, (hf y).2]; exact h.bd y hy hc
    · rename_i hc
      exact absurd hid hc

/-- a function of Core.lean called with app `a` -/
theorem HF.core {s2 : Sys} (h : HF b a c ids s s1) (hab : a ≠ b) (hf : ∀ b', a ≠ b' → FrameB b' s1 s2)
    (hc : CExt s1 s2) : HF b a c ids s s2 :=
  ⟨h.fr.trans (hf b hab), h.bd.of_frames (fun b' hb' => (hf b' hb').conns), h.out.trans hc.frameTo⟩

theorem HF.foldl_send {α : Type} (g : α → Nat) (fr : α → Frame) (l : List α) :
    ∀ {s1 : Sys}, HF b a c ids s s1 → (∀ x ∈ l, g x ∈ ids) →
      HF b a c ids s (l.foldl (fun s x => s.send (g x) (fr x)) s1) := by
  induction l with
  | nil => intro s1 h _; exact h
  | cons x l ih =>
    intro s1 h hp
    simp only [List.foldl_cons]
    exact ih (h.send (hp x (by simp)) _) (fun x' hx' => hp x' (by simp [hx']))

end hf

/-! ### the handlers, for a connection `x` bound to `a ≠ b` -/

section handlers
variable {U : String → Prop} {t : Time} {S : Prop} {b a : String} {ids : List Nat} {s s0 : Sys} {x : Conn}

theorem handlePing_hf (h0 : HF b a x.id ids s s0) (hc : x.id ∈ ids) (v : Option Val) :
    HF b a x.id ids s (s0.handlePing x.id v) := by
  unfold Sys.handlePing
  split
  · exact h0.sendError hc _
  · exact h0.send hc _

theorem handleList_hf (h0 : HF b a x.id ids s s0) (hc : x.id ∈ ids) : HF b a x.id ids s (s0.handleList x a) := by
  unfold Sys.handleList
  exact h0.send hc _

theorem handleAllocate_hf (h0 : HF b a x.id ids s s0) (hF : s0.Full U t S) (hab : a ≠ b) (hc : x.id ∈ ids)
    (side : String) (t' : Time) (pick : Nat) (draws : List Nat) (fresh : String) :
    HF b a x.id ids s (s0.handleAllocate x a side t' pick draws fresh) := by
  unfold Sys.handleAllocate
  split
  · exact h0.sendError hc _
  · split
    · exact h0.internalErr _ _
    · rename_i name _
      have key : ∀ {s1 : Sys} {r : ClaimRes}, s0.claimNameplate a name side t' fresh = (s1, r) →
          HF b a x.id ids s s1 := by
        intro s1 r e
        refine h0.core hab (fun b' hb' => claimNameplate_frameB hF.good hb' e) ?_
        have := CExt.claimNameplate (OutExt.refl (s := s0)) (app := a) (name := name) (side := side) (t := t')
          (fresh := fresh)
        rw [e] at this; exact this
      split
      · rename_i s1 _ e; exact ((key e).updConn hab (fun y => { y with didAllocate := true }) (fun y => ⟨rfl, rfl⟩)).send hc _
      · rename_i s1 e; exact (key e).internalErr _ _
      · rename_i s1 e; exact (key e).internalErr _ _
      · rename_i s1 e; exact (key e).internalErr _ _

theorem handleClaim_hf (h0 : HF b a x.id ids s s0) (hF : s0.Full U t S) (hab : a ≠ b) (hc : x.id ∈ ids)
    (side : String) (t' : Time) (n : Option String) (fresh : String) :
    HF b a x.id ids s (s0.handleClaim x a side t' n fresh) := by
  unfold Sys.handleClaim
  split
  · exact h0.sendError hc _
  · rename_i name
    split
    · exact h0.sendError hc _
    · dsimp only
      have h1 := h0.updConn hab (fun y => { y with didClaim := true, nameplateId := some name })
        (fun y => ⟨rfl, rfl⟩)
      have key : ∀ {s1 : Sys} {r : ClaimRes},
          (s0.updConn x.id (fun y => { y with didClaim := true, nameplateId := some name })).claimNameplate a name
            side t' fresh = (s1, r) → HF b a x.id ids s s1 := by
        intro s1 r e
        refine h1.core hab (fun b' hb' => claimNameplate_frameB_of_pinv hF.good.db.cinv.toPInv hb' e) ?_
        have := CExt.claimNameplate (OutExt.refl
          (s := s0.updConn x.id (fun y => { y with didClaim := true, nameplateId := some name })))
          (app := a) (name := name) (side := side) (t := t') (fresh := fresh)
        rw [e] at this; exact this
      split
      · rename_i s1 _ e; exact (key e).send hc _
      · rename_i s1 e; exact (key e).sendError hc _
      · rename_i s1 e; exact (key e).sendError hc _
      · rename_i s1 e; exact (key e).internalErr _ _

theorem handleRelease_hf (h0 : HF b a x.id ids s s0) (hF : s0.Full U t S) (hab : a ≠ b) (hc : x.id ∈ ids)
    (side : String) (t' : Time) (n : Option String) :
    HF b a x.id ids s (s0.handleRelease x a side t' n) := by
  unfold Sys.handleRelease
  have go : ∀ name : String, HF b a x.id ids s
      (match (s0.updConn x.id (fun y => { y with didRelease := true })).releaseNameplate a name side t' with
       | (s1, true) => s1.send x.id .released
       | (s1, false) => s1.internalErr x.id "IndexError") := by
    intro name
    have h1 := h0.updConn hab (fun y => { y with didRelease := true }) (fun y => ⟨rfl, rfl⟩)
    have key : ∀ {s1 : Sys} {r : Bool},
        (s0.updConn x.id (fun y => { y with didRelease := true })).releaseNameplate a name side t' = (s1, r) →
        HF b a x.id ids s s1 := by
      intro s1 r e
      refine h1.core hab (fun b' hb' => releaseNameplate_frameB_of_pinv hF.good.db.cinv.toPInv hb' e) ?_
      have := CExt.releaseNameplate (OutExt.refl (s := s0.updConn x.id (fun y => { y with didRelease := true })))
        (app := a) (name := name) (side := side) (t := t')
      rw [e] at this; exact this
    split
    · rename_i s1 e; exact (key e).send hc _
    · rename_i s1 e; exact (key e).internalErr _ _
  split
  · exact h0.sendError hc _
  · dsimp only
    split
    · split
      · exact h0.sendError hc _
      · exact go _
    · exact go _
    · exact go _
    · exact h0.sendError hc _

theorem handleOpen_hf (h0 : HF b a x.id ids s s0) (hF : s0.Full U t S) (hab : a ≠ b) (hc : x.id ∈ ids)
    (side : String) (t' : Time) (mailbox : Option String) :
    HF b a x.id ids s (s0.handleOpen x a side t' mailbox) := by
  unfold Sys.handleOpen
  split
  · exact h0.sendError hc _
  · split
    · exact h0.sendError hc _
    · rename_i mb
      dsimp only
      have h1 := h0.updConn hab (fun y => { y with mailboxId := some mb }) (fun y => ⟨rfl, rfl⟩)
      have key : ∀ {s1 : Sys} {r : OpenRes},
          (s0.updConn x.id (fun y => { y with mailboxId := some mb })).openMailbox a mb side t' = (s1, r) →
          HF b a x.id ids s s1 := by
        intro s1 r e
        refine h1.core hab (fun b' hb' => openMailbox_frameB' hF.good.db.cinv.mbIds hb' e) ?_
        have := CExt.openMailbox (OutExt.refl (s := s0.updConn x.id (fun y => { y with mailboxId := some mb })))
          (app := a) (mb := mb) (side := side) (t := t')
        rw [e] at this; exact this
      split
      · rename_i s1 e; exact (key e).sendError hc _
      · rename_i s1 e; exact (key e).internalErr _ _
      · rename_i s1 e
        have h2 := (key e).updConn hab (fun y => { y with mailbox := some mb, listening := true })
          (fun y => ⟨rfl, rfl⟩)
        unfold Sys.replay
        exact HF.foldl_send (fun _ => x.id) (fun (m : Message) => .message m.side m.phase m.body m.rx m.msgId) _ h2
          (fun _ _ => hc)

theorem handleAdd_hf (h0 : HF b a x.id ids s s0) (hF : s0.Full U t S) (hx : x ∈ s0.conns) (hxa : x.app = some a)
    (hab : a ≠ b) (hc : x.id ∈ ids) (hl : ∀ y ∈ s0.conns, y.app = some a → y.id ∈ ids)
    (side : String) (t' : Time) (id : Val) (ph bd : Option Val) :
    HF b a x.id ids s (s0.handleAdd x a side t' id ph bd) := by
  unfold Sys.handleAdd
  split
  · exact h0.sendError hc _
  · rename_i mb hmb
    split
    · exact h0.sendError hc _
    · split
      · exact h0.sendError hc _
      · rename_i ph' _ bd'
        obtain ⟨ok, _⟩ := hF.conn x hx
        have hlis := ok.hl (by simp [hmb])
        obtain ⟨a0, ha0, hb0⟩ := hF.good.lh x hx hlis mb hmb
        rw [hxa] at ha0
        cases ha0
        have h1 : HF b a x.id ids s (s0.addMessage a mb side ph' bd' t' id) :=
          h0.core hab (fun b' hb' => addMessage_frameB hF.good hb0 hb' side ph' bd' t' id)
            (CExt.addMessage OutExt.refl)
        unfold Sys.broadcast
        refine HF.foldl_send (fun c => c) (fun _ => .message side ph' bd' t' id) _ h1 ?_
        intro c' hc'
        simp only [Sys.listeners, addMessage_conns', List.mem_map, List.mem_filter, decide_eq_true_eq] at hc'
        obtain ⟨y, ⟨hy, _, hya, _⟩, rfl⟩ := hc'
        exact hl y hy hya

theorem handleClose_hf (h0 : HF b a x.id ids s s0) (hF : s0.Full U t S) (hx : x ∈ s0.conns) (hab : a ≠ b)
    (hc : x.id ∈ ids) (side : String) (mailbox : Option String) (mood : Option String)
    (hu : ∀ mb, mailbox = some mb → U mb) :
    HF b a x.id ids s (s0.handleClose x a side t mailbox mood) := by
  unfold Sys.handleClose
  obtain ⟨_, uc⟩ := hF.conn x hx
  have tail : ∀ (s1 : Sys) (r : OpenRes) (hd : String), HF b a x.id ids s s1 → s1.db.PInv →
      HF b a x.id ids s
      (match ((s1, r, hd) : Sys × OpenRes × String) with
       | (s1, .crowded, _) => s1.sendError x.id "crowded"
       | (s1, .integrity, _) => s1.internalErr x.id "IntegrityError"
       | (s1, .ok, h) =>
         let s2 := s1.updConn x.id (fun y => { y with listening := false, didClose := true })
         match s2.mailboxClose a h side mood t with
         | (s3, false) => s3.internalErr x.id "IndexError"
         | (s3, true) => (s3.updConn x.id (fun y => { y with mailbox := none })).send x.id .closed) := by
    intro s1 r hd h1 hp1
    cases r
    · dsimp only
      have h2 := h1.updConn hab (fun y => { y with listening := false, didClose := true }) (fun y => ⟨rfl, rfl⟩)
      have key : ∀ {s3 : Sys} {r : Bool},
          (s1.updConn x.id (fun y => { y with listening := false, didClose := true })).mailboxClose a hd side mood
            t = (s3, r) → HF b a x.id ids s s3 := by
        intro s3 r e
        refine h2.core hab (fun b' hb' => mailboxClose_frameB_of_pinv hp1 hb' e) ?_
        have := CExt.mailboxClose (OutExt.refl
          (s := s1.updConn x.id (fun y => { y with listening := false, didClose := true })))
          (app := a) (mb := hd) (side := side) (mood := mood) (t := t)
        rw [e] at this; exact this
      split
      · rename_i s3 e; exact (key e).internalErr _ _
      · rename_i s3 e
        exact ((key e).updConn hab (fun y => { y with mailbox := none }) (fun y => ⟨rfl, rfl⟩)).send hc _
    · exact h1.sendError hc _
    · exact h1.internalErr _ _
  have go : ∀ (mb : String), U mb →
      HF b a x.id ids s
      (match (match x.mailbox with
          | some h => (s0, OpenRes.ok, h)
          | none =>
            match s0.openMailbox a mb side t with
            | (s1, r) => (s1.updConn x.id (fun y => if r = OpenRes.ok then { y with mailbox := some mb } else y), r, mb)
          : Sys × OpenRes × String) with
       | (s1, .crowded, _) => s1.sendError x.id "crowded"
       | (s1, .integrity, _) => s1.internalErr x.id "IntegrityError"
       | (s1, .ok, h) =>
         let s2 := s1.updConn x.id (fun y => { y with listening := false, didClose := true })
         match s2.mailboxClose a h side mood t with
         | (s3, false) => s3.internalErr x.id "IndexError"
         | (s3, true) => (s3.updConn x.id (fun y => { y with mailbox := none })).send x.id .closed) := by
    intro mb humb
    cases hxm : x.mailbox with
    | some hd => exact tail s0 .ok hd h0 hF.good.db.cinv.toPInv
    | none =>
      dsimp only
      cases e : s0.openMailbox a mb side t with
      | mk s1 r =>
        obtain ⟨k1, _⟩ := openMailbox_good hF.good humb e
        have h1 : HF b a x.id ids s s1 := by
          refine h0.core hab (fun b' hb' => openMailbox_frameB hF.good hb' e) ?_
          have := CExt.openMailbox (OutExt.refl (s := s0)) (app := a) (mb := mb) (side := side) (t := t)
          rw [e] at this; exact this
        have h2 := h1.updConn hab (fun y => if r = OpenRes.ok then { y with mailbox := some mb } else y)
          (fun y => by split <;> exact ⟨rfl, rfl⟩)
        exact tail _ r mb h2 k1.db.cinv.toPInv
  split
  · exact h0.sendError hc _
  · dsimp only
    split
    · rename_i m held hheld
      split
      · exact h0.sendError hc _
      · exact go m (hu m rfl)
    · rename_i m _
      exact go m (hu m rfl)
    · rename_i held hheld
      exact go held (uc held hheld)
    · exact h0.sendError hc _

end handlers

/-! ### onMessage -/

section onMessage
variable {U : String → Prop} {t : Time} {S : Prop} {s : Sys}

theorem Full.boundTo (h : s.Full U t S) {x : Conn} (hx : x ∈ s.conns) {a : String} (hxa : x.app = some a) :
    BoundTo x.id a s := by
  intro y hy e
  rw [Chan.eq_of_pairwise_ne (f := Conn.id) h.ids hy hx e]; exact hxa

/-- a command on a connection bound to `a ≠ b` -/
theorem onMessage_hf (h : s.Full U t S) {b a : String} {c : Nat} {ids : List Nat} {x : Conn}
    (hfx : s.findConn c = some x) (hxa : x.app = some a) (hab : a ≠ b) (id : Val) (cmd : Cmd)
    (hu : ∀ m ∈ cmd.mailboxIds, U m) (hc : c ∈ ids) (hl : ∀ y ∈ s.conns, y.app = some a → y.id ∈ ids) :
    HF b a c ids s (s.onMessage c t id cmd) := by
  have hx : x ∈ s.conns := findConn_mem' hfx
  have hid := findConn_id' hfx
  subst hid
  have hr : HF b a x.id ids s s := HF.refl (h.boundTo hx hxa)
  have h0 : HF b a x.id ids s (s.send x.id (.ack id)) := hr.send hc _
  have hF := h.send x.id (.ack id)
  have hxa0 : x ∈ (s.send x.id (.ack id)).conns := hx
  unfold Sys.onMessage
  rw [hfx]
  dsimp only
  cases cmd with
  | noType => exact hr.sendError hc _
  | ping v => exact handlePing_hf h0 hc v
  | bind a' sd i v =>
    dsimp only
    unfold Sys.handleBind
    rw [if_pos (Or.inl (by simp [hxa]))]
    exact h0.sendError hc _
  | unknown =>
    dsimp only
    split <;> exact h0.sendError hc _
  | list =>
    dsimp only
    split
    · exact h0.sendError hc _
    · rename_i app happ
      rw [hxa] at happ; cases happ
      exact handleList_hf h0 hc
  | allocate pick draws fresh =>
    dsimp only
    split
    · exact h0.sendError hc _
    · rename_i app happ
      rw [hxa] at happ; cases happ
      exact handleAllocate_hf h0 hF hab hc _ _ _ _ _
  | claim n fresh =>
    dsimp only
    split
    · exact h0.sendError hc _
    · rename_i app happ
      rw [hxa] at happ; cases happ
      exact handleClaim_hf h0 hF hab hc _ _ _ _
  | release n =>
    dsimp only
    split
    · exact h0.sendError hc _
    · rename_i app happ
      rw [hxa] at happ; cases happ
      exact handleRelease_hf h0 hF hab hc _ _ _
  | open_ m =>
    dsimp only
    split
    · exact h0.sendError hc _
    · rename_i app happ
      rw [hxa] at happ; cases happ
      exact handleOpen_hf h0 hF hab hc _ _ _
  | add ph bd =>
    dsimp only
    split
    · exact h0.sendError hc _
    · rename_i app happ
      rw [hxa] at happ; cases happ
      exact handleAdd_hf h0 hF hxa0 hxa hab hc hl _ _ _ _ _
  | close m mood =>
    dsimp only
    split
    · exact h0.sendError hc _
    · rename_i app happ
      rw [hxa] at happ; cases happ
      exact handleClose_hf h0 hF hxa0 hab hc _ m mood (fun mb e => hu mb (by simp [Cmd.mailboxIds, e]))


/-- a connection bound to `a` stays bound to `a` -/
theorem onMessage_appOf_bound (h : s.Full U t S) {a : String} {c : Nat} {x : Conn}
    (hfx : s.findConn c = some x) (hxa : x.app = some a) (id : Val) (cmd : Cmd)
    (hu : ∀ m ∈ cmd.mailboxIds, U m) : (s.onMessage c t id cmd).appOf c = some a := by
  have hx : x ∈ s.conns := findConn_mem' hfx
  have hid : x.id = c := findConn_id' hfx
  have hf := onMessage_hf (b := a ++ "x") (ids := s.conns.map (·.id)) h hfx hxa (exists_ne_string a) id cmd hu
    (by rw [← hid]; exact List.mem_map_of_mem hx) (fun y hy _ => List.mem_map_of_mem hy)
  have hfind := All2.find? (fun y => decide (y.id = c)) (fun y => decide (y.id = c)) hf.fr.conns
    (fun y _ y' _ r => by rw [r.1])
  rcases hfind with ⟨h1, _⟩ | ⟨y, y', h1, h2, _⟩
  · have : s.findConn c = none := h1
    rw [hfx] at this; cases this
  · have h2' : (s.onMessage c t id cmd).findConn c = some y' := h2
    exact appOf_eq_some.2 ⟨y', h2', hf.bd y' (findConn_mem' h2') (findConn_id' h2')⟩

/-- a command other than `bind` on an unbound connection is refused: the connection table is as
    before -/
theorem onMessage_unbound_conns {c : Nat} {x : Conn} (hfx : s.findConn c = some x) (hxa : x.app = none)
    (id : Val) (cmd : Cmd) (hnb : ∀ a sd i v, cmd ≠ .bind a sd i v) :
    (s.onMessage c t id cmd).conns = s.conns := by
  unfold Sys.onMessage
  rw [hfx]
  dsimp only
  cases cmd with
  | bind a sd i v => exact absurd rfl (hnb a sd i v)
  | ping v =>
    dsimp only
    unfold Sys.handlePing
    split <;> rfl
  | noType => rfl
  | _ =>
    dsimp only
    rw [hxa]
    rfl

/-- `handle_bind` accepts: no app id yet, no non-empty side yet, both keys present -/
theorem handleBind_accept {s0 : Sys} {x : Conn} (t' : Time) {aa sd' : String} (i v : Option String)
    (hxa : x.app = none) (hside : ¬ (x.side.isSome ∧ x.side ≠ some "")) :
    s0.handleBind x t' (some aa) (some sd') i v =
      (s0.updConn x.id (fun y => { y with app := some aa, side := some sd' })).logClientVersion aa sd' t' i v := by
  unfold Sys.handleBind
  rw [if_neg]
  rintro (h | h)
  · simp [hxa] at h
  · exact hside h

/-- `handle_bind` refuses: the connection table is as before -/
theorem handleBind_reject_conns {s0 : Sys} {x : Conn} (t' : Time) (a' sd i v : Option String)
    (hn : ¬ ∃ aa sd', a' = some aa ∧ sd = some sd' ∧ ¬ (x.side.isSome ∧ x.side ≠ some "")) :
    (s0.handleBind x t' a' sd i v).conns = s0.conns := by
  unfold Sys.handleBind
  split
  · rfl
  · rename_i hg
    split
    · rfl
    · split
      · rfl
      · exact absurd ⟨_, _, rfl, rfl, fun hh => hg (Or.inr hh)⟩ hn

/-- the accepted `bind` of an unbound connection to an app `aa`: the connection is bound to `aa`
    afterwards; if `aa ≠ b` nothing of `b` is touched -/
theorem onMessage_bind_spec (h : s.Full U t S) {c : Nat} {x : Conn} (hfx : s.findConn c = some x)
    (hxa : x.app = none) (hside : ¬ (x.side.isSome ∧ x.side ≠ some "")) (id : Val) (aa sd' : String)
    (i v : Option String) :
    (s.onMessage c t id (.bind (some aa) (some sd') i v)).appOf c = some aa ∧
    ∀ b, aa ≠ b → FrameB b s (s.onMessage c t id (.bind (some aa) (some sd') i v)) ∧
      OutExt (FrameTo (otherIds b (s.onMessage c t id (.bind (some aa) (some sd') i v)).conns)) s
        (s.onMessage c t id (.bind (some aa) (some sd') i v)) := by
  have hx : x ∈ s.conns := findConn_mem' hfx
  have hid : x.id = c := findConn_id' hfx
  have e : s.onMessage c t id (.bind (some aa) (some sd') i v) =
      ((s.send c (.ack id)).updConn x.id (fun y => { y with app := some aa, side := some sd' })).logClientVersion
        aa sd' t i v := by
    unfold Sys.onMessage
    rw [hfx]
    exact handleBind_accept t i v hxa hside
  have hconns : (s.onMessage c t id (.bind (some aa) (some sd') i v)).conns =
      s.conns.map (fun y => if y.id = x.id then { y with app := some aa, side := some sd' } else y) := by
    rw [e, logClientVersion_conns]; rfl
  have happ : (s.onMessage c t id (.bind (some aa) (some sd') i v)).appOf c = some aa := by
    unfold appOf findConn
    rw [hconns, find?_id_map _ (fun y => by split <;> rfl) c]
    have : s.conns.find? (fun y => decide (y.id = c)) = some x := hfx
    rw [this]
    simp
  refine ⟨happ, ?_⟩
  intro b hab
  have hcids := mem_otherIds_of_appOf happ hab
  rw [e] at hcids ⊢
  refine ⟨?_, ?_⟩
  · refine ((frameB_send b s c (.ack id)).trans (frameB_updConn x.id _ ?_)).trans
      (logClientVersion_frameB' hab sd' t i v)
    intro y hy hyid
    have : y = x := Chan.eq_of_pairwise_ne (f := Conn.id) h.ids hy hx hyid
    subst this
    exact ⟨by rw [hxa]; simp, ⟨aa, rfl, hab⟩, rfl⟩
  · have ox : OutExt (FrameTo (otherIds b (((s.send c (.ack id)).updConn x.id
        (fun y => { y with app := some aa, side := some sd' })).logClientVersion aa sd' t i v).conns)) s
        (s.send c (.ack id)) := OutExt.refl.send (fun _ => hcids)
    exact ox.trans (CExt.logClientVersion (OutExt.updConn (OutExt.refl (s := s.send c (.ack id))))).frameTo

/-- what `otherOp` (decided on the state before) says -/
theorem otherOp_recv_cases {b : String} {c : Nat} {t' : Time} {id : Val} {cmd : Cmd}
    (ho : s.otherOp b (.recv c t' id cmd) = true) :
    ∃ x, s.findConn c = some x ∧
      ((∃ a, x.app = some a ∧ a ≠ b) ∨
       (x.app = none ∧ ¬ (x.side.isSome ∧ x.side ≠ some "") ∧
          ∃ aa sd' i v, cmd = .bind (some aa) (some sd') i v ∧ aa ≠ b)) := by
  cases hfx : s.findConn c with
  | none => simp [otherOp, hfx] at ho
  | some x =>
    refine ⟨x, rfl, ?_⟩
    cases hxa : x.app with
    | some a =>
      simp only [otherOp, hfx, hxa, decide_eq_true_eq] at ho
      exact Or.inl ⟨a, rfl, ho⟩
    | none =>
      simp only [otherOp, hfx, hxa] at ho
      split at ho
      · rename_i aa sd' i v
        simp only [Bool.and_eq_true, decide_eq_true_eq, Bool.not_eq_eq_eq_not, Bool.not_true,
          decide_eq_false_iff_not] at ho
        exact Or.inr ⟨rfl, ho.2, aa, sd', i, v, rfl, ho.1⟩
      · cases ho

/-- **(pre-state form)** a command of another app (`otherOp`, decided before the command runs):
    its connection is bound to an app other than `b` afterwards, nothing of `b` is touched, and
    all frames go to connections bound to other apps -/
theorem onMessage_frameB_pre (h : s.Full U t S) (b : String) (c : Nat) (id : Val) (cmd : Cmd)
    (hu : ∀ m ∈ cmd.mailboxIds, U m) (ho : s.otherOp b (.recv c t id cmd) = true) :
    (∃ a, (s.onMessage c t id cmd).appOf c = some a ∧ a ≠ b) ∧
    FrameB b s (s.onMessage c t id cmd) ∧
      OutExt (FrameTo (otherIds b (s.onMessage c t id cmd).conns)) s (s.onMessage c t id cmd) := by
  obtain ⟨x, hfx, hcase⟩ := otherOp_recv_cases ho
  have hx : x ∈ s.conns := findConn_mem' hfx
  have hid : x.id = c := findConn_id' hfx
  rcases hcase with ⟨a, hxa, hab⟩ | ⟨hxa, hside, aa, sd', i, v, rfl, hab⟩
  · have happ := onMessage_appOf_bound h hfx hxa id cmd hu
    have hfr := (onMessage_hf (b := b) (ids := s.conns.map (·.id)) h hfx hxa hab id cmd hu
      (by rw [← hid]; exact List.mem_map_of_mem hx) (fun y hy _ => List.mem_map_of_mem hy)).fr
    refine ⟨⟨a, happ, hab⟩, hfr, ?_⟩
    exact (onMessage_hf (b := b) h hfx hxa hab id cmd hu (mem_otherIds_of_appOf happ hab)
      (fun y hy hya => hfr.mem_otherIds hab hy hya)).out
  · obtain ⟨happ, hrest⟩ := onMessage_bind_spec h hfx hxa hside id aa sd' i v
    exact ⟨⟨aa, happ, hab⟩, hrest b hab⟩

/-- `otherOp` (pre-state) implies the post-state condition -/
theorem otherOp_post (h : s.Full U t S) {b : String} {c : Nat} {id : Val} {cmd : Cmd}
    (hu : ∀ m ∈ cmd.mailboxIds, U m) (ho : s.otherOp b (.recv c t id cmd) = true) :
    ∃ a, (s.onMessage c t id cmd).appOf c = some a ∧ a ≠ b :=
  (onMessage_frameB_pre h b c id cmd hu ho).1

/-- conversely: if the acting connection is bound to an app other than `b` AFTER the command, the
    command is an `otherOp` (a connection's app never changes once set; only an accepted `bind`
    sets it) -/
theorem otherOp_of_post (h : s.Full U t S) {b : String} {c : Nat} {id : Val} {cmd : Cmd}
    (hu : ∀ m ∈ cmd.mailboxIds, U m)
    (ho : ∀ a, (s.onMessage c t id cmd).appOf c = some a → a ≠ b)
    (hs : (s.onMessage c t id cmd).appOf c ≠ none) : s.otherOp b (.recv c t id cmd) = true := by
  obtain ⟨a1, ha1⟩ := Option.ne_none_iff_exists'.1 hs
  have hab1 : a1 ≠ b := ho a1 ha1
  cases hfx : s.findConn c with
  | none =>
    exfalso
    have e : s.onMessage c t id cmd = s := by unfold Sys.onMessage; rw [hfx]
    rw [e, appOf, hfx] at ha1
    cases ha1
  | some x =>
    cases hxa : x.app with
    | some a =>
      have happ := onMessage_appOf_bound h hfx hxa id cmd hu
      rw [ha1] at happ
      cases happ
      simp only [otherOp, hfx, hxa, decide_eq_true_eq]
      exact hab1
    | none =>
      by_cases hb : ∃ a' sd i v, cmd = .bind a' sd i v
      · obtain ⟨a', sd, i, v, rfl⟩ := hb
        by_cases hacc : ∃ aa sd', a' = some aa ∧ sd = some sd' ∧ ¬ (x.side.isSome ∧ x.side ≠ some "")
        · obtain ⟨aa, sd', rfl, rfl, hside⟩ := hacc
          have happ := (onMessage_bind_spec h hfx hxa hside id aa sd' i v).1
          rw [ha1] at happ
          cases happ
          simp only [otherOp, hfx, hxa, Bool.and_eq_true, decide_eq_true_eq, Bool.not_eq_eq_eq_not, Bool.not_true,
            decide_eq_false_iff_not]
          exact ⟨hab1, hside⟩
        · exfalso
          have hc : (s.onMessage c t id (.bind a' sd i v)).conns = s.conns := by
            unfold Sys.onMessage
            rw [hfx]
            exact handleBind_reject_conns (s0 := s.send c (.ack id)) t a' sd i v hacc
          rw [appOf_of_conns_eq hc, appOf, hfx] at ha1
          simp [hxa] at ha1
      · exfalso
        have hc := onMessage_unbound_conns (t := t) hfx hxa id cmd (fun a sd i v e => hb ⟨a, sd, i, v, e⟩)
        rw [appOf_of_conns_eq hc, appOf, hfx] at ha1
        simp [hxa] at ha1

/-- **the frame theorem of the websocket layer** (post-state form): a command whose connection is
    bound to an app other than `b` once the command has been processed does not touch anything of
    app `b`, and all its frames go to connections bound to other apps -/
theorem onMessage_frameB (h : s.Full U t S) (b : String) (c : Nat) (id : Val) (cmd : Cmd)
    (hu : ∀ m ∈ cmd.mailboxIds, U m)
    (ho : ∀ a, (s.onMessage c t id cmd).appOf c = some a → a ≠ b)
    (hs : (s.onMessage c t id cmd).appOf c ≠ none) :
    FrameB b s (s.onMessage c t id cmd) ∧
      OutExt (FrameTo (otherIds b (s.onMessage c t id cmd).conns)) s (s.onMessage c t id cmd) :=
  (onMessage_frameB_pre h b c id cmd hu (otherOp_of_post h hu ho hs)).2

end onMessage

/-! ### one `recv` step from a state satisfying the global invariant -/

section recv

theorem frameB_cleared (b : String) (g : GSys) : FrameB b g.sys g.cleared := FrameB.of_eq rfl rfl rfl rfl

theorem step_recv_eq (s : Sys) (c : Nat) (t : Time) (id : Val) (cmd : Cmd) :
    s.step (.recv c t id cmd) = ({ s with out := [], snaps := [] } : Sys).onMessage c t id cmd := rfl

theorem otherOp_cleared (b : String) (g : GSys) (op : Op) : g.cleared.otherOp b op = g.sys.otherOp b op := by
  cases op <;> rfl

/-- **C06, one step**: a `recv` of another app (`otherOp`), from any state satisfying the global
    invariant: b's rows, b's usage rows, b's connections are untouched; every frame of the step
    goes to a connection bound to another app; the acting connection is bound to an app other
    than `b` afterwards -/
theorem recv_frameB {g : GSys} (hI : g.GInv) (b : String) {c : Nat} {t : Time} {id : Val} {cmd : Cmd}
    (hw : g.WFOp (.recv c t id cmd)) (ho : g.sys.otherOp b (.recv c t id cmd) = true) :
    FrameB b g.sys (g.sys.step (.recv c t id cmd)) ∧
      OutExt (FrameTo (otherIds b (g.sys.step (.recv c t id cmd)).conns)) g.cleared
        (g.sys.step (.recv c t id cmd)) ∧
      ∃ a, (g.sys.step (.recv c t id cmd)).appOf c = some a ∧ a ≠ b := by
  have hF : g.cleared.Full (g.opU (.recv c t id cmd)) t False :=
    hI.full (S := False) False.elim (.recv c t id cmd) hw.mono
  rw [step_recv_eq]
  obtain ⟨k1, k2, k3⟩ := onMessage_frameB_pre hF b c id cmd (fun m hm => List.mem_append_right _ hm)
    (by rw [otherOp_cleared]; exact ho)
  exact ⟨(frameB_cleared b g).trans k2, k3, k1⟩

/-- every event of the step is a commit, an `internal`, or a frame to a connection bound to another app -/
theorem recv_frameB_out {g : GSys} (hI : g.GInv) (b : String) {c : Nat} {t : Time} {id : Val} {cmd : Cmd}
    (hw : g.WFOp (.recv c t id cmd)) (ho : g.sys.otherOp b (.recv c t id cmd) = true) :
    ∀ e ∈ (g.sys.step (.recv c t id cmd)).out, FrameTo (otherIds b (g.sys.step (.recv c t id cmd)).conns) e := by
  obtain ⟨_, ⟨l, e1, e2⟩, _⟩ := recv_frameB hI b hw ho
  intro e he
  rw [e1] at he
  exact e2 e (by simpa using he)

theorem recv_otherOp_post {g : GSys} (hI : g.GInv) (b : String) {c : Nat} {t : Time} {id : Val} {cmd : Cmd}
    (hw : g.WFOp (.recv c t id cmd)) (ho : g.sys.otherOp b (.recv c t id cmd) = true) :
    ∃ a, (g.sys.step (.recv c t id cmd)).appOf c = some a ∧ a ≠ b :=
  (recv_frameB hI b hw ho).2.2

end recv

/-! ### the sweep over apps other than `b` -/

theorem pruneApps_frameB {U : String → Prop} {t : Time} {S : Prop} {b : String} {now old : Time}
    (hnow : now ≤ t) (hold : old < now) (l : List String) (hb : b ∉ l) :
    ∀ {s s' : Sys} {r : Bool}, s.Good U t S → s.pruneApps now old l = (s', r) → FrameB b s s' := by
  induction l with
  | nil =>
    intro s s' r _ e
    simp only [pruneApps, Prod.mk.injEq] at e
    obtain ⟨rfl, _⟩ := e
    exact FrameB.refl _ _
  | cons app rest ih =>
    intro s s' r h e
    have hne : app ≠ b := fun e' => hb (by simp [e'])
    have hb' : b ∉ rest := fun h' => hb (by simp [h'])
    unfold pruneApps at e
    split at e
    · rename_i s1 e1
      cases e
      exact prune_frameB h hne e1
    · rename_i s1 e1
      exact (prune_frameB h hne e1).trans (ih hb' (prune_good h hnow hold e1).1 e)

/-! ### connect, drop: the connection table gains / loses a record that is not bound to `b` -/

/-- `db`, `udb`, `cfg` are unchanged and so is the sub-table of the connections bound to `b` -/
structure FrameConnB (b : String) (s s' : Sys) : Prop where
  db : s'.db = s.db
  udb : s'.udb = s.udb
  cfg : s'.cfg = s.cfg
  conns : s'.conns.filter (fun x => x.app = some b) = s.conns.filter (fun x => x.app = some b)

theorem FrameConnB.sameB {b : String} {s s' : Sys} (h : FrameConnB b s s') :
    Chan.SameB b s.db s'.db ∧ Usage.SameB b s.udb s'.udb := by
  rw [h.db, h.udb]; exact ⟨Chan.SameB.refl _ _, Usage.SameB.refl _ _⟩

/-- `onOpen`: the new record is unbound; the only frame is the welcome to the new connection -/
theorem connect_frameB (b : String) (s : Sys) (c : Nat) : FrameConnB b s (s.connect c) := by
  refine ⟨rfl, rfl, rfl, ?_⟩
  simp [Sys.connect, Sys.send, Sys.emit, List.filter_append]

theorem connect_out (s : Sys) (c : Nat) :
    (s.connect c).out = s.out ++ [.frame c (.welcome s.cfg.welcome) (s.connect c).synced] := rfl

/-- `onClose` of a connection that is not bound to `b` -/
theorem dropConn_frameB {b : String} {s : Sys} {c : Nat} (h : ∀ x ∈ s.conns, x.id = c → x.app ≠ some b) :
    FrameConnB b s (s.dropConn c) := by
  refine ⟨rfl, rfl, rfl, ?_⟩
  apply filter_filter_keep
  intro x hx hp
  simp only [decide_eq_true_eq] at hp
  apply decide_eq_true
  intro e
  exact h x hx e hp

theorem dropConn_out (s : Sys) (c : Nat) : (s.dropConn c).out = s.out := rfl

/-- `onClose` of a connection of another app, in the terms of `otherIds` -/
theorem dropConn_frameB_of_appOf {U : String → Prop} {t : Time} {S : Prop} {b : String} {s : Sys} {c : Nat}
    (h : s.Full U t S) (hc : s.appOf c ≠ some b) : FrameConnB b s (s.dropConn c) := by
  apply dropConn_frameB
  intro x hx hid hxa
  apply hc
  have hfx : s.findConn c = some x := by
    unfold findConn
    cases hf : s.conns.find? (fun y => decide (y.id = c)) with
    | none =>
      have := List.find?_eq_none.1 hf x hx
      simp [hid] at this
    | some y =>
      have hy := List.mem_of_find?_eq_some hf
      have hyid : y.id = c := by simpa using List.find?_some hf
      rw [Chan.eq_of_pairwise_ne (f := Conn.id) h.ids hy hx (hyid.trans hid.symm)]
  exact appOf_eq_some.2 ⟨x, hfx, hxa⟩

end Sys

/-! ### non-vacuity: a REACHABLE two-app state with identical nameplate names, side strings and
    message contents; an other-app `close` deletes everything of app "a" and nothing of app "b".
    The state satisfies the hypotheses of `recv_frameB`, and its conclusion is also checked by
    evaluation. -/

namespace IsoFrameExample

instance instDecidableFrameTo (ids : List Nat) : (e : Event) → Decidable (FrameTo ids e)
  | .frame c _ _ => inferInstanceAs (Decidable (c ∈ ids))
  | .commit _ => isTrue trivial
  | .internal _ _ => isTrue trivial
  | .fired _ _ => isTrue trivial

def hist : List Op :=
  [.connect 1, .connect 2,
   .recv 1 1 .null (.bind (some "a") (some "s1") none none),
   .recv 2 1 .null (.bind (some "b") (some "s1") none none),
   .recv 1 2 .null (.claim (some "4") "m1"),
   .recv 2 2 .null (.claim (some "4") "m2"),
   .recv 1 3 .null (.open_ (some "m1")),
   .recv 2 3 .null (.open_ (some "m2")),
   .recv 1 4 .null (.add (some (.str "pake")) (some (.str "x"))),
   .recv 2 4 .null (.add (some (.str "pake")) (some (.str "x")))]

def g0 : GSys := (GSys.init { usage := true } 0).run hist

def closeA : Op := .recv 1 10 .null (.close (some "m1") (some "happy"))

/-- the hypotheses of `recv_frameB` hold: the state is reachable (hence `GInv`), the operation is
    well-formed and is an operation of another app -/
theorem g0_ginv : g0.GInv := (GSys.reach_of_wfB _ _ hist (by decide +kernel)).ginv
theorem closeA_wf : g0.WFOp closeA := GSys.wfOpB_sound (by decide +kernel)
theorem closeA_other : g0.sys.otherOp "b" closeA = true := by decide +kernel

/-- both apps have a nameplate "4", a mailbox with side "s1", the same message -/
example : g0.sys.db =
    { nameplates := [⟨1, "a", "4", "m1"⟩, ⟨2, "b", "4", "m2"⟩]
      npSides := [⟨1, true, "s1", 2⟩, ⟨2, true, "s1", 2⟩]
      mailboxes := [⟨"a", "m1", 4, true⟩, ⟨"b", "m2", 4, true⟩]
      mbSides := [⟨"m1", true, "s1", 2, none⟩, ⟨"m2", true, "s1", 2, none⟩]
      messages := [⟨"a", "m1", "s1", .str "pake", .str "x", 4, .null⟩,
                   ⟨"b", "m2", "s1", .str "pake", .str "x", 4, .null⟩]
      nextNp := 3 } := by decide +kernel

/-- app "a"'s mailbox, side row, message, nameplate and claim are gone … -/
example : (g0.sys.step closeA).db =
    { nameplates := [⟨2, "b", "4", "m2"⟩], npSides := [⟨2, true, "s1", 2⟩], mailboxes := [⟨"b", "m2", 4, true⟩],
      mbSides := [⟨"m2", true, "s1", 2, none⟩],
      messages := [⟨"b", "m2", "s1", .str "pake", .str "x", 4, .null⟩], nextNp := 3 } := by decide +kernel

/-- … and b's rows are the same, by evaluation … -/
example : Chan.SameB "b" g0.sys.db (g0.sys.step closeA).db :=
  ⟨by decide +kernel, by decide +kernel, by decide +kernel, by decide +kernel, by decide +kernel⟩

/-- … and by the theorem -/
example : Chan.SameB "b" g0.sys.db (g0.sys.step closeA).db :=
  (Sys.recv_frameB g0_ginv "b" closeA_wf closeA_other).1.db

/-- usage rows were written for app "a" only -/
example : Usage.SameB "b" g0.sys.udb (g0.sys.step closeA).udb ∧
    ((g0.sys.step closeA).udb.mailboxes.map (·.app), (g0.sys.step closeA).udb.nameplates.map (·.app)) =
      (["a"], ["a"]) :=
  ⟨⟨by decide +kernel, by decide +kernel, by decide +kernel⟩, by decide +kernel⟩

/-- the frames of the step (`ack`, `closed`) go to connection 1, the only one bound to another app -/
example : otherIds "b" (g0.sys.step closeA).conns = [1] ∧
    ∀ e ∈ (g0.sys.step closeA).out, FrameTo (otherIds "b" (g0.sys.step closeA).conns) e := by decide +kernel

end IsoFrameExample

end Wormhole
