/-
  C06 (application isolation), frame lemmas, part 3: the websocket layer (Ws.lean).

  `onMessage_frameB`: a command on a connection that is bound to an app other than `b` once the
  command has been processed (already bound to `a ≠ b`, or this is the `bind` to `a ≠ b`) leaves
  b's rows, b's usage rows and b's connections alone (`FrameB b`), and every frame it emits is
  addressed to a connection bound to another app (`FrameTo (otherIds b …)`): the acting
  connection itself or, for `add`, the listeners of `(a, m)`.

  Internally the handlers are walked with the bundle `HF b a c ids s s'` = `FrameB b s s'`, every
  record with id `c` is bound to `a` in `s'` (`BoundTo`), and the events appended since `s` are
  commits, `internal`s or frames to `ids`.  That a Core function keeps `BoundTo` is read off its
  frame lemma, which holds for EVERY `b' ≠ a` (`BoundTo.of_frames`).
-/
import Wormhole.Inv.IsoFrameCore

set_option linter.unusedSimpArgs false
set_option linter.unusedVariables false

namespace Wormhole

/-- `find?` by id commutes with an UPDATE that keeps ids -/
theorem find?_id_map (g : Conn → Conn) (hg : ∀ y, (g y).id = y.id) (c : Nat) (l : List Conn) :
    (l.map g).find? (fun y => y.id = c) = (l.find? (fun y => y.id = c)).map g := by
  induction l with
  | nil => rfl
  | cons y l ih =>
    simp only [List.map_cons, List.find?_cons, hg]
    split
    · rfl
    · exact ih

namespace Sys

/-! ### `appOf` -/

theorem appOf_eq_some {s : Sys} {c : Nat} {a : String} :
    s.appOf c = some a ↔ ∃ y, s.findConn c = some y ∧ y.app = some a := by
  unfold appOf
  cases s.findConn c with
  | none => simp
  | some y => simp

theorem appOf_of_conns_eq {s s' : Sys} (h : s'.conns = s.conns) (c : Nat) : s'.appOf c = s.appOf c := by
  unfold appOf findConn; rw [h]

theorem appOf_mem {s : Sys} {c : Nat} {a : String} (h : s.appOf c = some a) :
    ∃ y ∈ s.conns, y.id = c ∧ y.app = some a := by
  obtain ⟨y, hy, ha⟩ := appOf_eq_some.1 h
  exact ⟨y, findConn_mem' hy, findConn_id' hy, ha⟩

theorem mem_otherIds {b : String} {l : List Conn} {y : Conn} (hy : y ∈ l) (ho : y.other b) : y.id ∈ otherIds b l := by
  simp only [otherIds, List.mem_map, List.mem_filter, decide_eq_true_eq]
  exact ⟨y, ⟨hy, ho⟩, rfl⟩

theorem mem_otherIds_of_appOf {b : String} {s : Sys} {c : Nat} {a : String} (h : s.appOf c = some a) (hab : a ≠ b) :
    c ∈ otherIds b s.conns := by
  obtain ⟨y, hy, rfl, ha⟩ := appOf_mem h
  exact mem_otherIds hy ⟨a, ha, hab⟩

/-- the ids of the records bound to `a ≠ b` are still ids of records bound to another app after a
    `FrameB b` step -/
theorem FrameB.mem_otherIds {b a : String} {s s' : Sys} (h : FrameB b s s') (hab : a ≠ b) {y : Conn}
    (hy : y ∈ s.conns) (ha : y.app = some a) : y.id ∈ otherIds b s'.conns := by
  obtain ⟨y', hy', e, hcase⟩ := All2.mem_left h.conns hy
  rw [← e]
  apply Sys.mem_otherIds hy'
  rcases hcase with rfl | ⟨ho, _⟩
  · exact ⟨a, ha, hab⟩
  · exact ho

/-! ### `BoundTo` -/

/-- every record with id `c` is bound to app `a` -/
def BoundTo (c : Nat) (a : String) (s : Sys) : Prop := ∀ y ∈ s.conns, y.id = c → y.app = some a

theorem BoundTo.of_conns_eq {c : Nat} {a : String} {s s' : Sys} (h : BoundTo c a s) (e : s'.conns = s.conns) :
    BoundTo c a s' := by
  unfold BoundTo; rw [e]; exact h

/-- a step that is a `ConnsFrame b'` step for EVERY `b' ≠ a` keeps the records bound to `a` bound
    to `a` -/
theorem BoundTo.of_frames {c : Nat} {a : String} {s s' : Sys} (h : BoundTo c a s)
    (hf : ∀ b', a ≠ b' → ConnsFrame b' s.conns s'.conns) : BoundTo c a s' := by
  have i0 : { b' : String // a ≠ b' } := ⟨a ++ "x", exists_ne_string a⟩
  have all := All2.forall_of (ι := { b' : String // a ≠ b' }) i0
    (R := fun (i : { b' : String // a ≠ b' }) (x x' : Conn) => x'.id = x.id ∧ (x' = x ∨ (x'.other i.1 ∧ x.app ≠ some i.1))) (fun i => hf i.1 i.2)
  intro y' hy' hid
  obtain ⟨y, hy, r⟩ := All2.mem_right all hy'
  have hya : y.app = some a := h y hy ((r i0).1 ▸ hid)
  by_cases hyy : y' = y
  · rw [hyy]; exact hya
  · have ho : ∀ i : { b' : String // a ≠ b' }, y'.other i.1 := by
      intro i
      rcases (r i).2 with e | ⟨o, _⟩
      · exact absurd e hyy
      · exact o
    obtain ⟨a', ha', _⟩ := ho i0
    by_cases e : a = a'
    · rw [ha', e]
    · obtain ⟨a'', ha'', hne⟩ := ho ⟨a', e⟩
      rw [ha'] at ha''
      exact absurd (Option.some.inj ha'').symm hne

/-! ### the bundle carried through a handler -/

structure HF (b a : String) (c : Nat) (ids : List Nat) (s s' : Sys) : Prop where
  fr : FrameB b s s'
  bd : BoundTo c a s'
  out : OutExt (FrameTo ids) s s'

section hf
variable {b a : String} {c : Nat} {ids : List Nat} {s s1 : Sys}

theorem HF.refl (h : BoundTo c a s) : HF b a c ids s s := ⟨FrameB.refl _ _, h, OutExt.refl⟩

theorem HF.emit (h : HF b a c ids s s1) {e : Event} (he : FrameTo ids e) : HF b a c ids s (s1.emit e) :=
  ⟨h.fr.emit e, h.bd, h.out.emit he⟩

theorem HF.send (h : HF b a c ids s s1) {c' : Nat} (hc : c' ∈ ids) (f : Frame) : HF b a c ids s (s1.send c' f) :=
  h.emit (e := .frame c' f s1.synced) hc

theorem HF.sendError (h : HF b a c ids s s1) {c' : Nat} (hc : c' ∈ ids) (txt : String) :
    HF b a c ids s (s1.sendError c' txt) := h.send hc _

theorem HF.internalErr (h : HF b a c ids s s1) (c' : Nat) (cls : String) : HF b a c ids s (s1.internalErr c' cls) :=
  h.emit (e := .internal (some c') cls) trivial

/-- an update of the acting connection's record that keeps id and app -/
theorem HF.updConn (h : HF b a c ids s s1) (hab : a ≠ b) (f : Conn → Conn)
    (hf : ∀ y, (f y).id = y.id ∧ (f y).app = y.app) : HF b a c ids s (s1.updConn c f) := by
  refine ⟨h.fr.trans (frameB_updConn c f ?_), ?_, OutExt.updConn h.out⟩
  · intro y hy hid
    have := h.bd y hy hid
    exact ⟨Conn.ne_of_app this hab, ⟨a, by rw [(hf y).2]; exact this, hab⟩, (hf y).1⟩
  · intro y' hy' hid
    simp only [Sys.updConn, List.mem_map] at hy'
    obtain ⟨y, hy, rfl⟩ := hy'
    split at hid
    · rename_i hc
      rw [if_pos hc, (hf y).2]; exact h.bd y hy hc
    · rename_i hc
      exact absurd hid hc

/-- a function of Core.lean called with app `a` -/
theorem HF.core {s2 : Sys} (h : HF b a c ids s s1) (hab : a ≠ b) (hf : ∀ b', a ≠ b' → FrameB b' s1 s2)
    (hc : CExt s1 s2) : HF b a c ids s s2 :=
  ⟨h.fr.trans (hf b hab), h.bd.of_frames (fun b' hb' => (hf b' hb').conns), h.out.trans hc.frameTo⟩

theorem HF.foldl_send {α : Type} (g : α → Nat) (fr : α → Frame) (l : List α) :
    ∀ {s1 : Sys}, HF b a c ids s s1 → (∀ x ∈ l, g x ∈ ids) →
      HF b a c ids s (l.foldl (fun s x => s.send (g x) (fr x)) s1) := by
  induction l with
  | nil => intro s1 h _; exact h
  | cons x l ih =>
    intro s1 h hp
    simp only [List.foldl_cons]
    exact ih (h.send (hp x (by simp)) _) (fun x' hx' => hp x' (by simp [hx']))

end hf

/-! ### the handlers, for a connection `x` bound to `a ≠ b` -/

section handlers
variable {U : String → Prop} {t : Time} {S : Prop} {b a : String} {ids : List Nat} {s s0 : Sys} {x : Conn}

theorem handlePing_hf (h0 : HF b a x.id ids s s0) (hc : x.id ∈ ids) (v : Option Val) :
    HF b a x.id ids s (s0.handlePing x.id v) := by
  unfold Sys.handlePing
  split
  · exact h0.sendError hc _
  · exact h0.send hc _

theorem handleList_hf (h0 : HF b a x.id ids s s0) (hc : x.id ∈ ids) : HF b a x.id ids s (s0.handleList x a) := by
  unfold Sys.handleList
  exact h0.send hc _

theorem handleAllocate_hf (h0 : HF b a x.id ids s s0) (hF : s0.Full U t S) (hab : a ≠ b) (hc : x.id ∈ ids)
    (side : String) (t' : Time) (pick : Nat) (draws : List Nat) (fresh : String) :
    HF b a x.id ids s (s0.handleAllocate x a side t' pick draws fresh) := by
  unfold Sys.handleAllocate
  split
  · exact h0.sendError hc _
  · split
    · exact h0.internalErr _ _
    · rename_i name _
      have key : ∀ {s1 : Sys} {r : ClaimRes}, s0.claimNameplate a name side t' fresh = (s1, r) →
          HF b a x.id ids s s1 := by
        intro s1 r e
        refine h0.core hab (fun b' hb' => claimNameplate_frameB hF.good hb' e) ?_
        have := CExt.claimNameplate (OutExt.refl (s := s0)) (app := a) (name := name) (side := side) (t := t')
          (fresh := fresh)
        rw [e] at this; exact this
      split
      · rename_i s1 _ e; exact ((key e).updConn hab (fun y => { y with didAllocate := true }) (fun y => ⟨rfl, rfl⟩)).send hc _
      · rename_i s1 e; exact (key e).internalErr _ _
      · rename_i s1 e; exact (key e).internalErr _ _
      · rename_i s1 e; exact (key e).internalErr _ _

theorem handleClaim_hf (h0 : HF b a x.id ids s s0) (hF : s0.Full U t S) (hab : a ≠ b) (hc : x.id ∈ ids)
    (side : String) (t' : Time) (n : Option String) (fresh : String) :
    HF b a x.id ids s (s0.handleClaim x a side t' n fresh) := by
  unfold Sys.handleClaim
  split
  · exact h0.sendError hc _
  · rename_i name
    split
    · exact h0.sendError hc _
    · dsimp only
      have h1 := h0.updConn hab (fun y => { y with didClaim := true, nameplateId := some name })
        (fun y => ⟨rfl, rfl⟩)
      have key : ∀ {s1 : Sys} {r : ClaimRes},
          (s0.updConn x.id (fun y => { y with didClaim := true, nameplateId := some name })).claimNameplate a name
            side t' fresh = (s1, r) → HF b a x.id ids s s1 := by
        intro s1 r e
        refine h1.core hab (fun b' hb' => claimNameplate_frameB_of_pinv hF.good.db.cinv.toPInv hb' e) ?_
        have := CExt.claimNameplate (OutExt.refl
          (s := s0.updConn x.id (fun y => { y with didClaim := true, nameplateId := some name })))
          (app := a) (name := name) (side := side) (t := t') (fresh := fresh)
        rw [e] at this; exact this
      split
      · rename_i s1 _ e; exact (key e).send hc _
      · rename_i s1 e; exact (key e).sendError hc _
      · rename_i s1 e; exact (key e).sendError hc _
      · rename_i s1 e; exact (key e).internalErr _ _

theorem handleRelease_hf (h0 : HF b a x.id ids s s0) (hF : s0.Full U t S) (hab : a ≠ b) (hc : x.id ∈ ids)
    (side : String) (t' : Time) (n : Option String) :
    HF b a x.id ids s (s0.handleRelease x a side t' n) := by
  unfold Sys.handleRelease
  have go : ∀ name : String, HF b a x.id ids s
      (match (s0.updConn x.id (fun y => { y with didRelease := true })).releaseNameplate a name side t' with
       | (s1, true) => s1.send x.id .released
       | (s1, false) => s1.internalErr x.id "IndexError") := by
    intro name
    have h1 := h0.updConn hab (fun y => { y with didRelease := true }) (fun y => ⟨rfl, rfl⟩)
    have key : ∀ {s1 : Sys} {r : Bool},
        (s0.updConn x.id (fun y => { y with didRelease := true })).releaseNameplate a name side t' = (s1, r) →
        HF b a x.id ids s s1 := by
      intro s1 r e
      refine h1.core hab (fun b' hb' => releaseNameplate_frameB_of_pinv hF.good.db.cinv.toPInv hb' e) ?_
      have := CExt.releaseNameplate (OutExt.refl (s := s0.updConn x.id (fun y => { y with didRelease := true })))
        (app := a) (name := name) (side := side) (t := t')
      rw [e] at this; exact this
    split
    · rename_i s1 e; exact (key e).send hc _
    · rename_i s1 e; exact (key e).internalErr _ _
  split
  · exact h0.sendError hc _
  · dsimp only
    split
    · split
      · exact h0.sendError hc _
      · exact go _
    · exact go _
    · exact go _
    · exact h0.sendError hc _

theorem handleOpen_hf (h0 : HF b a x.id ids s s0) (hF : s0.Full U t S) (hab : a ≠ b) (hc : x.id ∈ ids)
    (side : String) (t' : Time) (mailbox : Option String) :
    HF b a x.id ids s (s0.handleOpen x a side t' mailbox) := by
  unfold Sys.handleOpen
  split
  · exact h0.sendError hc _
  · split
    · exact h0.sendError hc _
    · rename_i mb
      dsimp only
      have h1 := h0.updConn hab (fun y => { y with mailboxId := some mb }) (fun y => ⟨rfl, rfl⟩)
      have key : ∀ {s1 : Sys} {r : OpenRes},
          (s0.updConn x.id (fun y => { y with mailboxId := some mb })).openMailbox a mb side t' = (s1, r) →
          HF b a x.id ids s s1 := by
        intro s1 r e
        refine h1.core hab (fun b' hb' => openMailbox_frameB' hF.good.db.cinv.mbIds hb' e) ?_
        have := CExt.openMailbox (OutExt.refl (s := s0.updConn x.id (fun y => { y with mailboxId := some mb })))
          (app := a) (mb := mb) (side := side) (t := t')
        rw [e] at this; exact this
      split
      · rename_i s1 e; exact (key e).sendError hc _
      · rename_i s1 e; exact (key e).internalErr _ _
      · rename_i s1 e
        have h2 := (key e).updConn hab (fun y => { y with mailbox := some mb, listening := true })
          (fun y => ⟨rfl, rfl⟩)
        unfold Sys.replay
        exact HF.foldl_send (fun _ => x.id) (fun (m : Message) => .message m.side m.phase m.body m.rx m.msgId) _ h2
          (fun _ _ => hc)

theorem handleAdd_hf (h0 : HF b a x.id ids s s0) (hF : s0.Full U t S) (hx : x ∈ s0.conns) (hxa : x.app = some a)
    (hab : a ≠ b) (hc : x.id ∈ ids) (hl : ∀ y ∈ s0.conns, y.app = some a → y.id ∈ ids)
    (side : String) (t' : Time) (id : Val) (ph bd : Option Val) :
    HF b a x.id ids s (s0.handleAdd x a side t' id ph bd) := by
  unfold Sys.handleAdd
  split
  · exact h0.sendError hc _
  · rename_i mb hmb
    split
    · exact h0.sendError hc _
    · split
      · exact h0.sendError hc _
      · rename_i ph' _ bd'
        obtain ⟨ok, _⟩ := hF.conn x hx
        have hlis := ok.hl (by simp [hmb])
        obtain ⟨a0, ha0, hb0⟩ := hF.good.lh x hx hlis mb hmb
        rw [hxa] at ha0
        cases ha0
        have h1 : HF b a x.id ids s (s0.addMessage a mb side ph' bd' t' id) :=
          h0.core hab (fun b' hb' => addMessage_frameB hF.good hb0 hb' side ph' bd' t' id)
            (CExt.addMessage OutExt.refl)
        unfold Sys.broadcast
        refine HF.foldl_send (fun c => c) (fun _ => .message side ph' bd' t' id) _ h1 ?_
        intro c' hc'
        simp only [Sys.listeners, addMessage_conns', List.mem_map, List.mem_filter, decide_eq_true_eq] at hc'
        obtain ⟨y, ⟨hy, _, hya, _⟩, rfl⟩ := hc'
        exact hl y hy hya

theorem handleClose_hf (h0 : HF b a x.id ids s s0) (hF : s0.Full U t S) (hx : x ∈ s0.conns) (hab : a ≠ b)
    (hc : x.id ∈ ids) (side : String) (mailbox : Option String) (mood : Option String)
    (hu : ∀ mb, mailbox = some mb → U mb) :
    HF b a x.id ids s (s0.handleClose x a side t mailbox mood) := by
  unfold Sys.handleClose
  obtain ⟨_, uc⟩ := hF.conn x hx
  have tail : ∀ (s1 : Sys) (r : OpenRes) (hd : String), HF b a x.id ids s s1 → s1.db.PInv →
      HF b a x.id ids s
      (match ((s1, r, hd) : Sys × OpenRes × String) with
       | (s1, .crowded, _) => s1.sendError x.id "crowded"
       | (s1, .integrity, _) => s1.internalErr x.id "IntegrityError"
       | (s1, .ok, h) =>
         let s2 := s1.updConn x.id (fun y => { y with listening := false, didClose := true })
         match s2.mailboxClose a h side mood t with
         | (s3, false) => s3.internalErr x.id "IndexError"
         | (s3, true) => (s3.updConn x.id (fun y => { y with mailbox := none })).send x.id .closed) := by
    intro s1 r hd h1 hp1
    cases r
    · dsimp only
      have h2 := h1.updConn hab (fun y => { y with listening := false, didClose := true }) (fun y => ⟨rfl, rfl⟩)
      have key : ∀ {s3 : Sys} {r : Bool},
          (s1.updConn x.id (fun y => { y with listening := false, didClose := true })).mailboxClose a hd side mood
            t = (s3, r) → HF b a x.id ids s s3 := by
        intro s3 r e
        refine h2.core hab (fun b' hb' => mailboxClose_frameB_of_pinv hp1 hb' e) ?_
        have := CExt.mailboxClose (OutExt.refl
          (s := s1.updConn x.id (fun y => { y with listening := false, didClose := true })))
          (app := a) (mb := hd) (side := side) (mood := mood) (t := t)
        rw [e] at this; exact this
      split
      · rename_i s3 e; exact (key e).internalErr _ _
      · rename_i s3 e
        exact ((key e).updConn hab (fun y => { y with mailbox := none }) (fun y => ⟨rfl, rfl⟩)).send hc _
    · exact h1.sendError hc _
    · exact h1.internalErr _ _
  have go : ∀ (mb : String), U mb →
      HF b a x.id ids s
      (match (match x.mailbox with
          | some h => (s0, OpenRes.ok, h)
          | none =>
            match s0.openMailbox a mb side t with
            | (s1, r) => (s1.updConn x.id (fun y => if r = OpenRes.ok then { y with mailbox := some mb } else y), r, mb)
          : Sys × OpenRes × String) with
       | (s1, .crowded, _) => s1.sendError x.id "crowded"
       | (s1, .integrity, _) => s1.internalErr x.id "IntegrityError"
       | (s1, .ok, h) =>
         let s2 := s1.updConn x.id (fun y => { y with listening := false, didClose := true })
         match s2.mailboxClose a h side mood t with
         | (s3, false) => s3.internalErr x.id "IndexError"
         | (s3, true) => (s3.updConn x.id (fun y => { y with mailbox := none })).send x.id .closed) := by
    intro mb humb
    cases hxm : x.mailbox with
    | some hd => exact tail s0 .ok hd h0 hF.good.db.cinv.toPInv
    | none =>
      dsimp only
      cases e : s0.openMailbox a mb side t with
      | mk s1 r =>
        obtain ⟨k1, _⟩ := openMailbox_good hF.good humb e
        have h1 : HF b a x.id ids s s1 := by
          refine h0.core hab (fun b' hb' => openMailbox_frameB hF.good hb' e) ?_
          have := CExt.openMailbox (OutExt.refl (s := s0)) (app := a) (mb := mb) (side := side) (t := t)
          rw [e] at this; exact this
        have h2 := h1.updConn hab (fun y => if r = OpenRes.ok then { y with mailbox := some mb } else y)
          (fun y => by split <;> exact ⟨rfl, rfl⟩)
        exact tail _ r mb h2 k1.db.cinv.toPInv
  split
  · exact h0.sendError hc _
  · dsimp only
    split
    · rename_i m held hheld
      split
      · exact h0.sendError hc _
      · exact go m (hu m rfl)
    · rename_i m _
      exact go m (hu m rfl)
    · rename_i held hheld
      exact go held (uc held hheld)
    · exact h0.sendError hc _

end handlers

/-! ### onMessage -/

section onMessage
variable {U : String → Prop} {t : Time} {S : Prop} {s : Sys}

theorem Full.boundTo (h : s.Full U t S) {x : Conn} (hx : x ∈ s.conns) {a : String} (hxa : x.app = some a) :
    BoundTo x.id a s := by
  intro y hy e
  rw [Chan.eq_of_pairwise_ne (f := Conn.id) h.ids hy hx e]; exact hxa

/-- a command on a connection bound to `a ≠ b` -/
theorem onMessage_hf (h : s.Full U t S) {b a : String} {c : Nat} {ids : List Nat} {x : Conn}
    (hfx : s.findConn c = some x) (hxa : x.app = some a) (hab : a ≠ b) (id : Val) (cmd : Cmd)
    (hu : ∀ m ∈ cmd.mailboxIds, U m) (hc : c ∈ ids) (hl : ∀ y ∈ s.conns, y.app = some a → y.id ∈ ids) :
    HF b a c ids s (s.onMessage c t id cmd) := by
  have hx : x ∈ s.conns := findConn_mem' hfx
  have hid := findConn_id' hfx
  subst hid
  have hr : HF b a x.id ids s s := HF.refl (h.boundTo hx hxa)
  have h0 : HF b a x.id ids s (s.send x.id (.ack id)) := hr.send hc _
  have hF := h.send x.id (.ack id)
  have hxa0 : x ∈ (s.send x.id (.ack id)).conns := hx
  unfold Sys.onMessage
  rw [hfx]
  dsimp only
  cases cmd with
  | noType => exact hr.sendError hc _
  | ping v => exact handlePing_hf h0 hc v
  | bind a' sd i v =>
    dsimp only
    unfold Sys.handleBind
    rw [if_pos (Or.inl (by simp [hxa]))]
    exact h0.sendError hc _
  | unknown =>
    dsimp only
    split <;> exact h0.sendError hc _
  | list =>
    dsimp only
    split
    · exact h0.sendError hc _
    · rename_i app happ
      rw [hxa] at happ; cases happ
      exact handleList_hf h0 hc
  | allocate pick draws fresh =>
    dsimp only
    split
    · exact h0.sendError hc _
    · rename_i app happ
      rw [hxa] at happ; cases happ
      exact handleAllocate_hf h0 hF hab hc _ _ _ _ _
  | claim n fresh =>
    dsimp only
    split
    · exact h0.sendError hc _
    · rename_i app happ
      rw [hxa] at happ; cases happ
      exact handleClaim_hf h0 hF hab hc _ _ _ _
  | release n =>
    dsimp only
    split
    · exact h0.sendError hc _
    · rename_i app happ
      rw [hxa] at happ; cases happ
      exact handleRelease_hf h0 hF hab hc _ _ _
  | open_ m =>
    dsimp only
    split
    · exact h0.sendError hc _
    · rename_i app happ
      rw [hxa] at happ; cases happ
      exact handleOpen_hf h0 hF hab hc _ _ _
  | add ph bd =>
    dsimp only
    split
    · exact h0.sendError hc _
    · rename_i app happ
      rw [hxa] at happ; cases happ
      exact handleAdd_hf h0 hF hxa0 hxa hab hc hl _ _ _ _ _
  | close m mood =>
    dsimp only
    split
    · exact h0.sendError hc _
    · rename_i app happ
      rw [hxa] at happ; cases happ
      exact handleClose_hf h0 hF hxa0 hab hc _ m mood (fun mb e => hu mb (by simp [Cmd.mailboxIds, e]))

/-- a command other than `bind` on an unbound connection is refused: the connection table is as
    before -/
theorem onMessage_unbound_conns {c : Nat} {x : Conn} (hfx : s.findConn c = some x) (hxa : x.app = none)
    (id : Val) (cmd : Cmd) (hnb : ∀ a sd i v, cmd ≠ .bind a sd i v) :
    (s.onMessage c t id cmd).conns = s.conns := by
  unfold Sys.onMessage
  rw [hfx]
  dsimp only
  cases cmd with
  | bind a sd i v => exact absurd rfl (hnb a sd i v)
  | ping v =>
    dsimp only
    unfold Sys.handlePing
    split <;> rfl
  | noType => rfl
  | _ =>
    dsimp only
    rw [hxa]
    rfl

/-- **the frame theorem of the websocket layer**: a command whose connection is bound to an app
    other than `b` once the command has been processed does not touch anything of app `b`, and
    all its frames go to connections bound to other apps -/
theorem onMessage_frameB (h : s.Full U t S) (b : String) (c : Nat) (id : Val) (cmd : Cmd)
    (hu : ∀ m ∈ cmd.mailboxIds, U m)
    (ho : ∀ a, (s.onMessage c t id cmd).appOf c = some a → a ≠ b)
    (hs : (s.onMessage c t id cmd).appOf c ≠ none) :
    FrameB b s (s.onMessage c t id cmd) ∧
      OutExt (FrameTo (otherIds b (s.onMessage c t id cmd).conns)) s (s.onMessage c t id cmd) := by
  obtain ⟨a1, ha1⟩ := Option.ne_none_iff_exists'.1 hs
  have hab1 : a1 ≠ b := ho a1 ha1
  have hcids : c ∈ otherIds b (s.onMessage c t id cmd).conns := mem_otherIds_of_appOf ha1 hab1
  cases hfx : s.findConn c with
  | none =>
    exfalso
    have e : s.onMessage c t id cmd = s := by unfold Sys.onMessage; rw [hfx]
    rw [e, appOf, hfx] at ha1
    cases ha1
  | some x =>
    have hx : x ∈ s.conns := findConn_mem' hfx
    have hid : x.id = c := findConn_id' hfx
    cases hxa : x.app with
    | some a =>
      -- bound before: the app is kept, so it is `a1`
      have hbd : BoundTo c a (s.onMessage c t id cmd) :=
        (onMessage_hf (b := a ++ "x") (ids := [c]) h hfx hxa (exists_ne_string a) id cmd hu (by simp)
          (fun y hy hya => by
            have := Chan.eq_of_pairwise_ne (f := Conn.id) h.ids hy hx
            sorry)).bd
      sorry
    | none => sorry

end onMessage

end Sys
end Wormhole
