/-
  The global invariant of reachable states: INTERFACE used by the property files.
  `GInv` holds in every state reachable by a well-formed history (crashes included);
  `SInv` additionally between the operations of crash-free histories.
-/
import Wormhole.Reach

namespace Wormhole
namespace GSys

structure GInv (g : GSys) : Prop where
  /-- the channel database satisfies the commit-point invariant -/
  cinv : g.sys.db.CInv
  /-- connection records are consistent with it -/
  conn : g.sys.ConnInv
  /-- nothing is uncommitted between operations -/
  synced : g.sys.Synced
  /-- every mailbox id in the database has been mentioned by some operation -/
  used : ∀ m ∈ g.sys.db.mailboxes, m.id ∈ g.used
  /-- so has every mailbox id a connection remembers -/
  usedConn : ∀ x ∈ g.sys.conns, ∀ m, x.mailboxId = some m → m ∈ g.used
  /-- no row is stamped later than the latest time seen -/
  clockMb : ∀ m ∈ g.sys.db.mailboxes, m.updated ≤ g.clock

end GSys
end Wormhole
