/-
  The global invariant of reachable states: INTERFACE used by the property files.
  `GInv` holds in every state reachable by a well-formed history (crashes included);
  `SInv` additionally between the operations of crash-free histories.
-/
import Wormhole.Reach
import Wormhole.Inv.WsInv

namespace Wormhole
namespace GSys

structure GInv (g : GSys) : Prop where
  /-- the channel database satisfies the commit-point invariant -/
  cinv : g.sys.db.CInv
  /-- connection records are consistent with it -/
  conn : g.sys.ConnInv
  /-- nothing is uncommitted between operations -/
  synced : g.sys.Synced
  /-- every mailbox id in the database has been mentioned by some operation -/
  used : ∀ m ∈ g.sys.db.mailboxes, m.id ∈ g.used
  /-- so has every mailbox id a connection remembers -/
  usedConn : ∀ x ∈ g.sys.conns, ∀ m, x.mailboxId = some m → m ∈ g.used
  /-- no row is stamped later than the latest time seen -/
  clockMb : ∀ m ∈ g.sys.db.mailboxes, m.updated ≤ g.clock

/-! ## `GInv` holds in every reachable state

  Proof: `GInv` of the state before an operation gives `Sys.Full U t S` of the cleared state
  (Inv/WsInv.lean), with `U` = "mentioned so far, this operation included" and `t` = the
  operation's time; every plain operation preserves `Full` (`Sys.stepPlain_full`); `Full`
  afterwards, together with the commit discipline (`Sys.Ok`, Inv/SyncLemmas.lean), gives `GInv`
  again.  A crash keeps one of the snapshots, all of which satisfy `CInv` by `Full`. -/

/-- the time operation `op` runs at -/
def opTime (g : GSys) (op : Op) : Time := match op.time? with | some t => t | none => g.clock

/-- the mailbox ids known once `op` has been received -/
def opU (g : GSys) (op : Op) : String → Prop := fun m => m ∈ g.used ++ op.mailboxIds

/-- the state an operation starts from -/
abbrev cleared (g : GSys) : Sys := { g.sys with out := [], snaps := [] }

theorem clock_le_opTime {g : GSys} {op : Op} (hmono : ∀ t, op.time? = some t → g.clock ≤ t) :
    g.clock ≤ g.opTime op := by
  unfold opTime
  split
  · rename_i t e; exact hmono t e
  · exact Int.le_refl _

theorem GInv.full {g : GSys} (h : g.GInv) {S : Prop} (hS : S → g.sys.db.SExtra) (op : Op)
    (hmono : ∀ t, op.time? = some t → g.clock ≤ t) : g.cleared.Full (g.opU op) (g.opTime op) S := by
  have hclk := clock_le_opTime hmono
  have hcq : g.sys.db.CQ (g.opU op) (g.opTime op) :=
    ⟨h.cinv, fun m hm => ⟨List.mem_append_left _ (h.used m hm), Int.le_trans (h.clockMb m hm) hclk⟩⟩
  refine ⟨⟨⟨hcq, ⟨?_, ?_⟩, ?_⟩, hS⟩, h.conn.ids, ?_⟩
  · show g.sys.disk.CQ _ _
    rw [← h.synced.1]; exact hcq
  · intro p hp; simp at hp
  · intro x hx _ mb hm
    exact (h.conn.handle x hx mb hm).2
  · intro x hx
    refine ⟨⟨?_, h.conn.listen x hx, h.conn.bound x hx⟩, ?_⟩
    · intro hm
      obtain ⟨mb, e⟩ := Option.isSome_iff_exists.1 hm
      exact (h.conn.handle x hx mb e).1
    · intro m hm
      exact List.mem_append_left _ (h.usedConn x hx m hm)

theorem connInv_of_full {s : Sys} {U : String → Prop} {t : Time} {S : Prop} (h : s.Full U t S) : s.ConnInv := by
  refine ⟨h.ids, ?_, fun x hx => (h.conn x hx).1.lm, fun x hx => (h.conn x hx).1.bound⟩
  intro x hx mb hm
  have hl := (h.conn x hx).1.hl (by simp [hm])
  exact ⟨hl, h.good.lh x hx hl mb hm⟩

/-- `Full` after the step, with nothing uncommitted, is `GInv` of the next ghost state -/
theorem ginv_of_full {g' : GSys} {U : String → Prop} {t : Time} {S : Prop} (hF : g'.sys.Full U t S)
    (hs : g'.sys.Synced) (hU : ∀ m, U m → m ∈ g'.used) (ht : t = g'.clock) : g'.GInv := by
  refine ⟨hF.good.db.cinv, connInv_of_full hF, hs, ?_, ?_, ?_⟩
  · intro m hm; exact hU _ (hF.good.db.q m hm).1
  · intro x hx m hm; exact hU _ ((hF.conn x hx).2 m hm)
  · intro m hm; rw [← ht]; exact (hF.good.db.q m hm).2

/-- one plain operation from a state satisfying `GInv` -/
theorem GInv.plain_full {g : GSys} (h : g.GInv) {S : Prop} (hS : S → g.sys.db.SExtra) (op : Op)
    (hmono : ∀ t, op.time? = some t → g.clock ≤ t)
    (hconn : ∀ c, op = .connect c → ∀ x ∈ g.sys.conns, x.id ≠ c) :
    (g.cleared.stepPlain op).Full (g.opU op) (g.opTime op) S ∧
      Sys.OutExt (IntOnly (g.cleared.OpIntCause op)) g.cleared (g.cleared.stepPlain op) := by
  refine Sys.stepPlain_full (h.full hS op hmono) h.synced.1 op hconn ?_ ?_
  · intro m hm; exact List.mem_append_right _ hm
  · intro t' e
    unfold opTime; rw [e]

theorem step_clock (g : GSys) (op : Op) : (g.step op).clock = g.opTime op := rfl

/-- what a crash leaves: one of the snapshots of the uncrashed run (or the state before it),
    no process state -/
theorem step_crash_spec (s : Sys) (k : Nat) (op : Op) :
    ∃ p : Chan × Usage,
      (p ∈ (({ s with out := [], snaps := [] } : Sys).stepPlain op).snaps ∨
        p = ((({ s with out := [], snaps := [] } : Sys).stepPlain op).disk,
              (({ s with out := [], snaps := [] } : Sys).stepPlain op).udisk) ∨ p = (s.disk, s.udisk)) ∧
      (s.step (.crashIn k op)).db = p.1 ∧ (s.step (.crashIn k op)).disk = p.1 ∧
      (s.step (.crashIn k op)).udb = p.2 ∧ (s.step (.crashIn k op)).udisk = p.2 ∧
      (s.step (.crashIn k op)).conns = [] := by
  unfold Sys.step
  dsimp only
  split
  · exact ⟨(s.disk, s.udisk), Or.inr (Or.inr rfl), rfl, rfl, rfl, rfl, rfl⟩
  · rename_i p _ hp
    exact ⟨p, Or.inl (List.mem_of_getElem? hp), rfl, rfl, rfl, rfl, rfl⟩
  · exact ⟨_, Or.inr (Or.inl rfl), rfl, rfl, rfl, rfl, rfl⟩

/-- every state a crash inside `op` can leave on disk satisfies the commit-point invariant
    and the ghost facts -/
theorem GInv.crash_cq {g : GSys} (h : g.GInv) (op : Op)
    (hmono : ∀ t, op.time? = some t → g.clock ≤ t)
    (hconn : ∀ c, op = .connect c → ∀ x ∈ g.sys.conns, x.id ≠ c) (k : Nat) :
    (g.sys.step (.crashIn k op)).db.CQ (g.opU op) (g.opTime op) ∧ (g.sys.step (.crashIn k op)).Synced ∧
      (g.sys.step (.crashIn k op)).conns = [] := by
  obtain ⟨hF, _⟩ := h.plain_full (S := False) False.elim op hmono hconn
  obtain ⟨p, hp, e1, e2, e3, e4, e5⟩ := step_crash_spec g.sys k op
  refine ⟨?_, ⟨by rw [e1, e2], by rw [e3, e4]⟩, e5⟩
  rw [e1]
  rcases hp with hp | rfl | rfl
  · exact hF.good.d.snaps p hp
  · exact hF.good.d.disk
  · exact (h.full (S := False) False.elim op hmono).good.d.disk

/-- **one step preserves `GInv`**, crashes included -/
theorem GInv.step {g : GSys} (h : g.GInv) (op : Op) (hw : g.WFOp op) : (g.step op).GInv := by
  cases hc : op.isCrash with
  | false =>
    obtain ⟨hF, _⟩ := h.plain_full (S := False) False.elim op hw.mono hw.connFresh
    have hs : (g.sys.step op).Synced := (Sys.Ok.step h.synced h.cinv.npOk hc).synced
    have he : g.sys.step op = g.cleared.stepPlain op := Sys.step_eq_of_not_crash g.sys hc
    refine ginv_of_full (U := g.opU op) (t := g.opTime op) (S := False) ?_ hs (fun m hm => hm) rfl
    show (g.sys.step op).Full _ _ _
    rw [he]; exact hF
  | true =>
    cases op with
    | crashIn k op' =>
      obtain ⟨hp, hcf⟩ := hw.crashPlain k op' rfl
      obtain ⟨hcq, hs, hcn⟩ := h.crash_cq op' hw.mono hcf k
      refine ⟨hcq.cinv, ?_, hs, ?_, ?_, ?_⟩
      · refine ⟨?_, ?_, ?_, ?_⟩ <;>
          (show _ ; simp only [GSys.step, hcn]) <;> simp
      · intro m hm; exact (hcq.q m hm).1
      · intro x hx
        simp only [GSys.step, hcn] at hx
        simp at hx
      · intro m hm; exact (hcq.q m hm).2
    | _ => simp [Op.isCrash] at hc

theorem GInv.init (cfg : Cfg) (rb : Time) : (GSys.init cfg rb).GInv := by
  refine ⟨⟨⟨?_, ?_, ⟨?_, ?_⟩, ?_, ?_, ?_, ?_, ?_, ?_, ?_⟩, ?_⟩, ⟨?_, ?_, ?_, ?_⟩, ⟨rfl, rfl⟩, ?_, ?_, ?_⟩ <;>
    simp [GSys.init]

/-- **(A)** every state reachable by a well-formed history (crashes at any commit boundary of
    any operation included) satisfies `GInv` -/
theorem Reach.ginv {g : GSys} (h : g.Reach) : g.GInv := by
  induction h with
  | init cfg rb => exact GInv.init cfg rb
  | step op _ hw ih => exact ih.step op hw

/-- a crash-free step preserves the strengthening -/
theorem GInv.step_sextra {g : GSys} (h : g.GInv) (hS : g.sys.db.SExtra) (op : Op) (hw : g.WFOp op)
    (hc : op.isCrash = false) : (g.step op).sys.db.SExtra := by
  obtain ⟨hF, _⟩ := h.plain_full (S := True) (fun _ => hS) op hw.mono hw.connFresh
  have he : g.sys.step op = g.cleared.stepPlain op := Sys.step_eq_of_not_crash g.sys hc
  show (g.sys.step op).db.SExtra
  rw [he]; exact hF.good.sx trivial

theorem ReachCF.ginv_sextra {g : GSys} (h : g.ReachCF) : g.GInv ∧ g.sys.db.SExtra := by
  induction h with
  | init cfg rb =>
    refine ⟨GInv.init cfg rb, ⟨?_, ?_⟩⟩ <;> simp [GSys.init]
  | step op _ hw hc ih => exact ⟨ih.1.step op hw, ih.1.step_sextra ih.2 op hw hc⟩

/-- **(B)** between the operations of a crash-free history every nameplate has a claimed side row
    and every mailbox has an opened side row -/
theorem ReachCF.sinv {g : GSys} (h : g.ReachCF) : g.sys.db.SInv :=
  Chan.SInv.of h.ginv_sextra.1.cinv h.ginv_sextra.2

end GSys
end Wormhole
