/-
  One pass through Core.lean / Ws.lean for properties that must tell `send` from the emission of
  other events (used by Props/C09c.lean, `C09_ack_durable`).

  `AClosed T`: the property `T` of system states survives the primitives of Sys.lean:
    `send` (a frame, flag computed by `send` itself), `emit` of an `internal` or `fired` event
    (`Note`), `commit`, `ucommit`, `modDb f` and `modUdb f` for arbitrary `f`, any change of
    `conns`, any change of `rebooted`.
  Then every function of the model preserves `T`, up to `AClosed.stepPlain`.
  (Same pass as `UClosed` of Inv/UsageTrack.lean; there `emit` is closed under ALL events, which
  cannot express "every frame is produced by `send`", and the usage database is written by four
  named statements only.)
-/
import Wormhole.Inv.SyncLemmas

namespace Wormhole
namespace Sys

/-- the events other than frames and commits: `internal` (an exception was logged) and `fired` -/
def Note : Event → Prop
  | .internal _ _ => True
  | .fired _ _ => True
  | _ => False

structure AClosed (T : Sys → Prop) : Prop where
  send0 : ∀ s c f, T s → T (s.send c f)
  note : ∀ s e, Note e → T s → T (s.emit e)
  commit : ∀ s, T s → T s.commit
  ucommit : ∀ s, T s → T s.ucommit
  modDb : ∀ s f, T s → T (s.modDb f)
  modUdb : ∀ s f, T s → T (s.modUdb f)
  conns : ∀ s cs, T s → T { s with conns := cs }
  reboot : ∀ s t, T s → T { s with rebooted := t }

section
variable {T : Sys → Prop} (hT : AClosed T)
include hT

theorem AClosed.send {s : Sys} (h : T s) (c f) : T (s.send c f) := hT.send0 _ _ _ h
theorem AClosed.sendError {s : Sys} (h : T s) (c x) : T (s.sendError c x) := hT.send0 _ _ _ h
theorem AClosed.internalErr {s : Sys} (h : T s) (c x) : T (s.internalErr c x) := hT.note _ _ trivial h
theorem AClosed.updConn {s : Sys} (h : T s) (c f) : T (s.updConn c f) := hT.conns _ _ h
theorem AClosed.stopListeners {s : Sys} (h : T s) (a m) : T (s.stopListeners a m) := hT.conns _ _ h

theorem AClosed.storeNp (s : Sys) (app sides t p) (h : T s) : T (s.storeNameplateUsage app sides t p).1 := by
  unfold Sys.storeNameplateUsage
  split
  · exact h
  · dsimp only
    exact hT.modUdb _ _ h

theorem AClosed.storeMb (s : Sys) (app f sides t p) (h : T s) : T (s.storeMailboxUsage app f sides t p) := by
  unfold Sys.storeMailboxUsage
  exact hT.modUdb _ _ h

theorem AClosed.foldl_send {α : Type} (g : α → Nat) (fr : α → Frame) (l : List α) :
    ∀ {s : Sys}, T s → T (l.foldl (fun s a => s.send (g a) (fr a)) s) := by
  induction l with
  | nil => intro s h; exact h
  | cons a l ih => intro s h; exact ih (hT.send h _ _)

theorem AClosed.replay {s : Sys} (h : T s) (c app mb) : T (s.replay c app mb) := by
  unfold Sys.replay
  exact hT.foldl_send (fun _ => c) (fun (m : Message) => .message m.side m.phase m.body m.rx m.msgId) _ h

theorem AClosed.broadcast {s : Sys} (h : T s) (app mb f) : T (s.broadcast app mb f) := by
  unfold Sys.broadcast
  exact hT.foldl_send (fun c => c) (fun _ => f) _ h

theorem AClosed.storeNameplatesOfMailbox {app t} (l : List Nameplate) :
    ∀ {s : Sys}, T s → T (s.storeNameplatesOfMailbox app t l).1 := by
  induction l with
  | nil => intro s h; exact h
  | cons np rest ih =>
    intro s h
    unfold Sys.storeNameplatesOfMailbox
    have h1 := hT.storeNp s app (s.db.npSidesOf np.id) t false h
    split
    · rename_i s2 heq; rw [heq] at h1; exact h1
    · rename_i s2 heq; rw [heq] at h1; exact ih h1

theorem AClosed.mailboxOpen {s : Sys} (h : T s) (mb side t) : T (s.mailboxOpen mb side t) := by
  unfold Sys.mailboxOpen
  split
  · exact hT.commit _ (hT.modDb _ _ (hT.modDb _ _ h))
  · exact hT.commit _ (hT.modDb _ _ h)

theorem AClosed.addMailbox {s s1 : Sys} (h : T s) {app mb forNp t}
    (e : s.addMailbox app mb forNp t = some s1) : T s1 := by
  unfold Sys.addMailbox at e
  split at e
  · cases e; exact h
  · split at e
    · cases e
    · cases e; exact hT.modDb _ _ h

theorem AClosed.openMailbox {s : Sys} (h : T s) (app mb side t) : T (s.openMailbox app mb side t).1 := by
  unfold Sys.openMailbox
  split
  · exact h
  · rename_i s1 e
    have h2 := hT.commit _ (hT.mailboxOpen (hT.addMailbox h e) mb side t)
    dsimp only
    split <;> exact h2

theorem AClosed.addMessage {s : Sys} (h : T s) (app mb side ph bd t id) :
    T (s.addMessage app mb side ph bd t id) := by
  unfold Sys.addMessage
  exact hT.commit _ (hT.modDb _ _ (hT.modDb _ _ h))

theorem AClosed.mailboxClose {s : Sys} (h : T s) (app mb side mood t) :
    T (s.mailboxClose app mb side mood t).1 := by
  unfold Sys.mailboxClose
  split
  · exact h
  · split
    · exact h
    · dsimp only
      have h1 : T ((s.modDb (·.closeSide mb side mood)).commit) := hT.commit _ (hT.modDb _ _ h)
      split
      · exact h1
      · generalize hE : (if ((s.modDb (·.closeSide mb side mood)).commit).cfg.usage then _ else _) = p
        obtain ⟨s2, ok⟩ := p
        have h2 : T s2 := by
          split at hE
          · have := hT.storeNameplatesOfMailbox (app := app) (t := t)
              (((s.modDb (·.closeSide mb side mood)).commit).db.nameplatesOfMailbox app mb) h1
            rw [hE] at this; exact this
          · cases hE; exact h1
        dsimp only
        split
        · exact h2
        · dsimp only
          apply hT.stopListeners
          apply hT.commit
          have h3 := hT.modDb _ (fun d =>
            ((((d.delNpSidesOfMailbox app mb).delNameplatesOfMailbox app mb).delMessagesOf mb).delMbSidesOf
              mb).delMailbox mb) h2
          split
          · exact hT.ucommit _ (hT.storeMb _ _ _ _ _ _ h3)
          · exact h3

theorem AClosed.logClientVersion {s : Sys} (h : T s) (a sd t i v) : T (s.logClientVersion a sd t i v) := by
  unfold Sys.logClientVersion
  split
  · exact hT.ucommit _ (hT.modUdb _ _ h)
  · exact h

theorem AClosed.claimCont {s : Sys} (h : T s) (app npid mb side t) : T (claimCont s app npid mb side t).1 := by
  unfold Sys.claimCont
  have h3 := hT.openMailbox (hT.commit _ h) app mb side t
  dsimp only
  split
  all_goals
    rename_i e
    rw [e] at h3
  · exact h3
  · exact h3
  · split <;> exact h3

theorem AClosed.claimTail {s : Sys} (h : T s) (app npid mb side t) : T (s.claimTail app npid mb side t).1 := by
  rw [claimTail_eq]
  split
  · exact hT.claimCont (hT.modDb _ _ h) _ _ _ _ _
  · split
    · exact hT.claimCont h _ _ _ _ _
    · exact h

theorem AClosed.claimNameplate {s : Sys} (h : T s) (app name side t fresh) :
    T (s.claimNameplate app name side t fresh).1 := by
  unfold Sys.claimNameplate
  split
  · split
    · exact h
    · rename_i s1 e
      exact hT.claimTail (hT.modDb _ _ (hT.addMailbox h e)) _ _ _ _ _
  · exact hT.claimTail h _ _ _ _ _

theorem AClosed.releaseNameplate {s : Sys} (h : T s) (app name side t) :
    T (s.releaseNameplate app name side t).1 := by
  unfold Sys.releaseNameplate
  split
  · exact h
  · rename_i np _
    split
    · exact h
    · dsimp only
      have h1 : T ((s.modDb (·.unclaim np.id side)).commit) := hT.commit _ (hT.modDb _ _ h)
      split
      · exact h1
      · have h2 := hT.modDb _ (fun d => (d.delNpSidesOf np.id).delNameplate np.id) h1
        split
        · have h3 := hT.storeNp _ app
            (((s.modDb (·.unclaim np.id side)).commit).db.npSidesOf np.id) t false h2
          split
          all_goals
            rename_i e
            rw [e] at h3
          · exact h3
          · exact hT.commit _ (hT.ucommit _ h3)
        · exact hT.commit _ h2

theorem AClosed.pruneNameplates {app now} (l : List Nameplate) :
    ∀ {s : Sys}, T s → T (s.pruneNameplates app now l).1 := by
  induction l with
  | nil => intro s h; exact h
  | cons np rest ih =>
    intro s h
    unfold Sys.pruneNameplates
    dsimp only
    have h1 := hT.modDb _ (fun d => (d.delNpSidesOf np.id).delNameplate np.id) h
    split
    · have h2 := hT.storeNp _ app (s.db.npSidesOf np.id) now true h1
      split
      all_goals
        rename_i e
        rw [e] at h2
      · exact h2
      · exact ih h2
    · exact ih h1

theorem AClosed.pruneMailboxes {app now} (l : List MailboxRow) :
    ∀ {s : Sys}, T s → T (s.pruneMailboxes app now l) := by
  induction l with
  | nil => intro s h; exact h
  | cons row rest ih =>
    intro s h
    unfold Sys.pruneMailboxes
    dsimp only
    have h1 := hT.modDb _ (fun d => ((d.delMessagesOf row.id).delMbSidesOf row.id).delMailbox row.id) h
    split
    · exact ih (hT.storeMb _ _ _ _ _ _ h1)
    · exact ih h1

theorem AClosed.prune {s : Sys} (h : T s) (app now old) : T (s.prune app now old).1 := by
  rw [prune_eq]
  dsimp only
  have h1 : T ((s.touchListened app now).commit) := hT.commit _ (hT.modDb _ _ h)
  generalize (s.touchListened app now).commit = s1 at h1
  unfold pruneRest
  have h2 := hT.pruneNameplates (app := app) (now := now) ((s1.db.nameplatesOfApp app).filter
    (fun r => r.mailbox ∈ ((s1.db.mailboxesOfApp app).filter (fun r => ¬ r.updated > old)).map (·.id))) h1
  split
  · rename_i e; rw [e] at h2; exact h2
  · rename_i s2 e
    rw [e] at h2
    have h3 := hT.pruneMailboxes (app := app) (now := now)
      ((s1.db.mailboxesOfApp app).filter (fun r => ¬ r.updated > old)) h2
    dsimp only
    split
    · dsimp only
      split
      · exact hT.ucommit _ (hT.commit _ h3)
      · exact hT.commit _ h3
    · exact h3

theorem AClosed.pruneApps {now old} (l : List String) :
    ∀ {s : Sys}, T s → T (s.pruneApps now old l).1 := by
  induction l with
  | nil => intro s h; exact h
  | cons app rest ih =>
    intro s h
    unfold Sys.pruneApps
    have h1 := hT.prune h app now old
    split
    all_goals
      rename_i e
      rw [e] at h1
    · exact h1
    · exact ih h1

theorem AClosed.dumpStats {s : Sys} (h : T s) (now) : T (s.dumpStats now) := by
  unfold Sys.dumpStats
  split
  · exact hT.ucommit _ (hT.modUdb _ _ h)
  · exact h

theorem AClosed.expire {s : Sys} (h : T s) (now fault) : T (s.expire now fault) := by
  unfold Sys.expire
  dsimp only
  apply hT.dumpStats
  have h0 := hT.note s (.fired now (now - Generated.expirationTicks)) trivial h
  split
  · exact hT.note _ _ trivial h0
  · have h1 := hT.pruneApps (now := now) (old := now - Generated.expirationTicks)
      (s.emit (.fired now (now - Generated.expirationTicks))).allApps h0
    split
    all_goals
      rename_i e
      rw [e] at h1
    · exact h1
    · exact hT.note _ _ trivial h1

theorem AClosed.handlePing {s : Sys} (h : T s) (c v) : T (s.handlePing c v) := by
  unfold Sys.handlePing; split
  · exact hT.sendError h _ _
  · exact hT.send h _ _

theorem AClosed.handleBind {s : Sys} (h : T s) (x t a sd i v) : T (s.handleBind x t a sd i v) := by
  unfold Sys.handleBind
  split
  · exact hT.sendError h _ _
  · split
    · exact hT.sendError h _ _
    · split
      · exact hT.sendError h _ _
      · exact hT.logClientVersion (hT.updConn h _ _) _ _ _ _ _

theorem AClosed.handleList {s : Sys} (h : T s) (x app) : T (s.handleList x app) := hT.send h _ _

theorem AClosed.handleAllocate {s : Sys} (h : T s) (x app side t pick draws fresh) :
    T (s.handleAllocate x app side t pick draws fresh) := by
  unfold Sys.handleAllocate
  split
  · exact hT.sendError h _ _
  · split
    · exact hT.internalErr h _ _
    · rename_i name _
      have h1 := hT.claimNameplate h app name side t fresh
      split
      all_goals
        rename_i e
        rw [e] at h1
      · exact hT.send (hT.updConn h1 _ _) _ _
      · exact hT.internalErr h1 _ _
      · exact hT.internalErr h1 _ _
      · exact hT.internalErr h1 _ _

theorem AClosed.handleClaim {s : Sys} (h : T s) (x app side t n fresh) :
    T (s.handleClaim x app side t n fresh) := by
  unfold Sys.handleClaim
  split
  · exact hT.sendError h _ _
  · rename_i name
    split
    · exact hT.sendError h _ _
    · have h1 := hT.claimNameplate
        (hT.updConn h x.id (fun y => { y with didClaim := true, nameplateId := some name })) app name side t fresh
      dsimp only
      split
      all_goals
        rename_i e
        rw [e] at h1
      · exact hT.send h1 _ _
      · exact hT.sendError h1 _ _
      · exact hT.sendError h1 _ _
      · exact hT.internalErr h1 _ _

theorem AClosed.handleRelease {s : Sys} (h : T s) (x app side t n) : T (s.handleRelease x app side t n) := by
  unfold Sys.handleRelease
  have go : ∀ name : String, T (match (s.updConn x.id (fun y => { y with didRelease := true })).releaseNameplate
      app name side t with
      | (s1, true) => s1.send x.id .released
      | (s1, false) => s1.internalErr x.id "IndexError") := by
    intro name
    have h1 := hT.releaseNameplate (hT.updConn h x.id (fun y => { y with didRelease := true })) app name side t
    split
    all_goals
      rename_i e
      rw [e] at h1
    · exact hT.send h1 _ _
    · exact hT.internalErr h1 _ _
  split
  · exact hT.sendError h _ _
  · dsimp only
    split
    · split
      · exact hT.sendError h _ _
      · exact go _
    · exact go _
    · exact go _
    · exact hT.sendError h _ _

theorem AClosed.handleOpen {s : Sys} (h : T s) (x app side t m) : T (s.handleOpen x app side t m) := by
  unfold Sys.handleOpen
  split
  · exact hT.sendError h _ _
  · split
    · exact hT.sendError h _ _
    · rename_i mb
      have h1 := hT.openMailbox (hT.updConn h x.id (fun y => { y with mailboxId := some mb })) app mb side t
      dsimp only
      split
      all_goals
        rename_i e
        rw [e] at h1
      · exact hT.sendError h1 _ _
      · exact hT.internalErr h1 _ _
      · exact hT.replay (hT.updConn h1 _ _) _ _ _

theorem AClosed.handleAdd {s : Sys} (h : T s) (x app side t id ph bd) :
    T (s.handleAdd x app side t id ph bd) := by
  unfold Sys.handleAdd
  split
  · exact hT.sendError h _ _
  · split
    · exact hT.sendError h _ _
    · split
      · exact hT.sendError h _ _
      · exact hT.broadcast (hT.addMessage h _ _ _ _ _ _ _) _ _ _

theorem AClosed.handleClose {s : Sys} (h : T s) (x app side t m mood) :
    T (s.handleClose x app side t m mood) := by
  unfold Sys.handleClose
  have tail : ∀ (s1 : Sys) (r : OpenRes) (hd : String), T s1 →
      T (match ((s1, r, hd) : Sys × OpenRes × String) with
       | (s1, .crowded, _) => s1.sendError x.id "crowded"
       | (s1, .integrity, _) => s1.internalErr x.id "IntegrityError"
       | (s1, .ok, h) =>
         let s2 := s1.updConn x.id (fun y => { y with listening := false, didClose := true })
         match s2.mailboxClose app h side mood t with
         | (s3, false) => s3.internalErr x.id "IndexError"
         | (s3, true) => (s3.updConn x.id (fun y => { y with mailbox := none })).send x.id .closed) := by
    intro s1 r hd h1
    cases r
    · dsimp only
      have h3 := hT.mailboxClose (hT.updConn h1 x.id (fun y => { y with listening := false, didClose := true }))
        app hd side mood t
      split
      all_goals
        rename_i e
        rw [e] at h3
      · exact hT.internalErr h3 _ _
      · exact hT.send (hT.updConn h3 _ _) _ _
    · exact hT.sendError h1 _ _
    · exact hT.internalErr h1 _ _
  have go : ∀ mb : String,
      T (match (match x.mailbox with
          | some h => (s, OpenRes.ok, h)
          | none =>
            match s.openMailbox app mb side t with
            | (s1, r) => (s1.updConn x.id (fun y => if r = OpenRes.ok then { y with mailbox := some mb } else y), r, mb)
          : Sys × OpenRes × String) with
       | (s1, .crowded, _) => s1.sendError x.id "crowded"
       | (s1, .integrity, _) => s1.internalErr x.id "IntegrityError"
       | (s1, .ok, h) =>
         let s2 := s1.updConn x.id (fun y => { y with listening := false, didClose := true })
         match s2.mailboxClose app h side mood t with
         | (s3, false) => s3.internalErr x.id "IndexError"
         | (s3, true) => (s3.updConn x.id (fun y => { y with mailbox := none })).send x.id .closed) := by
    intro mb
    cases hx : x.mailbox with
    | some hd => exact tail s .ok hd h
    | none =>
      dsimp only
      have h1 := hT.openMailbox h app mb side t
      cases e : s.openMailbox app mb side t with
      | mk s1 r =>
        rw [e] at h1
        exact tail _ r mb (hT.updConn h1 _ _)
  split
  · exact hT.sendError h _ _
  · dsimp only
    split
    · split
      · exact hT.sendError h _ _
      · exact go _
    · exact go _
    · exact go _
    · exact hT.sendError h _ _

theorem AClosed.onMessage {s : Sys} (h : T s) (c t id cmd) : T (s.onMessage c t id cmd) := by
  unfold Sys.onMessage
  split
  · exact h
  · rename_i x _
    have ha := hT.send h c (.ack id)
    cases cmd with
    | noType => exact hT.sendError h _ _
    | ping v => exact hT.handlePing ha _ _
    | bind a sd i v => exact hT.handleBind ha _ _ _ _ _ _
    | unknown => dsimp only; split <;> exact hT.sendError ha _ _
    | list => dsimp only; split; exact hT.sendError ha _ _; exact hT.handleList ha _ _
    | allocate p d f => dsimp only; split; exact hT.sendError ha _ _; exact hT.handleAllocate ha _ _ _ _ _ _ _
    | claim n f => dsimp only; split; exact hT.sendError ha _ _; exact hT.handleClaim ha _ _ _ _ _ _
    | release n => dsimp only; split; exact hT.sendError ha _ _; exact hT.handleRelease ha _ _ _ _ _
    | open_ m => dsimp only; split; exact hT.sendError ha _ _; exact hT.handleOpen ha _ _ _ _ _
    | add ph bd => dsimp only; split; exact hT.sendError ha _ _; exact hT.handleAdd ha _ _ _ _ _ _ _
    | close m mood => dsimp only; split; exact hT.sendError ha _ _; exact hT.handleClose ha _ _ _ _ _ _

theorem AClosed.restart {s : Sys} (h : T s) (t : Time) : T (s.restart t) :=
  hT.reboot _ t (hT.conns _ [] (hT.modUdb _ (fun _ => s.udisk) (hT.modDb _ (fun _ => s.disk) h)))

/-- every plain operation -/
theorem AClosed.stepPlain {s : Sys} (h : T s) (op : Op) : T (s.stepPlain op) := by
  cases op with
  | connect c => exact hT.send (s := { s with conns := s.conns ++ [({ id := c } : Conn)] }) (hT.conns _ _ h) _ _
  | recv c t id cmd => exact hT.onMessage h c t id cmd
  | drop c => exact hT.conns _ _ h
  | sweep now fault => exact hT.expire h now fault
  | restart t => exact hT.restart h t
  | crashIn k op => exact h

end

end Sys
end Wormhole
