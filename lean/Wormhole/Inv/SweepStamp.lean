/-
  `mailboxes.updated` is stamped by every successful open / claim / add (`Mailbox._touch`,
  `_add_mailbox`): Core-level lemmas behind `C12_activity_stamps_*`.
-/
import Wormhole.Inv.SyncLemmas

namespace Wormhole

namespace Chan

/-- `UPDATE mailboxes SET updated=? WHERE id=?` -/
theorem touch_updated {d : Chan} {mb : String} {t : Time} {r : MailboxRow}
    (hr : r ∈ (d.touch mb t).mailboxes) (e : r.id = mb) : r.updated = t := by
  simp only [touch, List.mem_map] at hr
  obtain ⟨r0, _, rfl⟩ := hr
  by_cases h : r0.id = mb
  · simp [h]
  · simp [h] at e

theorem touch_mem {d : Chan} {mb : String} {t : Time} {r : MailboxRow} (hr : r ∈ d.mailboxes) (e : r.id = mb) :
    ({ r with updated := t } : MailboxRow) ∈ (d.touch mb t).mailboxes := by
  simp only [touch, List.mem_map]
  exact ⟨r, hr, by simp [e]⟩

end Chan

namespace Sys

/-- the row of `(app, mb)` is there and carries `updated = t` -/
def Stamped (s : Sys) (app mb : String) (t : Time) : Prop :=
  (∃ r ∈ s.db.mailboxes, r.id = mb ∧ r.app = app ∧ r.updated = t) ∧
  ∀ r ∈ s.db.mailboxes, r.id = mb → r.updated = t

instance (s : Sys) (app mb : String) (t : Time) : Decidable (s.Stamped app mb t) := by
  unfold Stamped; infer_instance

theorem mailboxOpen_mailboxes (s : Sys) (mb side : String) (t : Time) :
    (s.mailboxOpen mb side t).db.mailboxes = (s.db.touch mb t).mailboxes := by
  unfold mailboxOpen
  split <;> simp [Chan.touch, Chan.insMbSide]

theorem addMailbox_row {s s1 : Sys} {app mb forNp t} (h : s.addMailbox app mb forNp t = some s1) :
    ∃ r ∈ s1.db.mailboxes, r.id = mb ∧ r.app = app := by
  unfold addMailbox at h
  split at h
  · rename_i row e
    cases h
    have := List.find?_some e
    simp only [decide_eq_true_eq] at this
    exact ⟨row, List.mem_of_find?_eq_some e, this.2, this.1⟩
  · split at h
    · cases h
    · cases h
      exact ⟨⟨app, mb, t, forNp⟩, by simp [Chan.insMailbox], rfl, rfl⟩

/-- `open_mailbox` (also when it ends in `CrowdedError`) stamps the row -/
theorem openMailbox_stamped {s s1 : Sys} {app mb side t r} (h : s.openMailbox app mb side t = (s1, r))
    (hr : r ≠ .integrity) : s1.Stamped app mb t := by
  unfold openMailbox at h
  split at h
  · simp only [Prod.mk.injEq] at h
    exact absurd h.2.symm hr
  · rename_i s0 e
    obtain ⟨row, hrow, e1, e2⟩ := addMailbox_row e
    have hdb : s1.db.mailboxes = (s0.db.touch mb t).mailboxes := by
      dsimp only at h
      split at h <;>
      · simp only [Prod.mk.injEq] at h
        rw [← h.1, commit_db, mailboxOpen_mailboxes]
    constructor
    · refine ⟨{ row with updated := t }, ?_, e1, e2, rfl⟩
      rw [hdb]; exact Chan.touch_mem hrow e1
    · intro r' hr' e'
      rw [hdb] at hr'
      exact Chan.touch_updated hr' e'

theorem claimCont_stamped {s s1 : Sys} {app npid mb side t mb'}
    (h : claimCont s app npid mb side t = (s1, .ok mb')) :
    mb' = mb ∧ s1.Stamped app mb t ∧ s1.db.nameplates = s.db.nameplates := by
  have hnp := (claimCont_spec h).1.np
  simp only [Chan.npPart, Prod.mk.injEq] at hnp
  unfold claimCont at h
  dsimp only at h
  split at h
  · simp at h
  · simp at h
  · rename_i s3 e
    split at h
    · simp at h
    · simp only [Prod.mk.injEq, ClaimRes.ok.injEq] at h
      obtain ⟨rfl, rfl⟩ := h
      exact ⟨rfl, openMailbox_stamped e (by simp), hnp.1⟩

theorem claimTail_stamped {s s1 : Sys} {app npid mb side t mb'}
    (h : s.claimTail app npid mb side t = (s1, .ok mb')) :
    mb' = mb ∧ s1.Stamped app mb t ∧ s1.db.nameplates = s.db.nameplates := by
  rw [claimTail_eq] at h
  split at h
  · obtain ⟨a, b, c⟩ := claimCont_stamped h
    exact ⟨a, b, c⟩
  · split at h
    · exact claimCont_stamped h
    · simp at h

/-- a successful `claim_nameplate(name, side, when)`: the nameplate `(app, name)` exists, points at the
    returned mailbox, and that mailbox's row is stamped `when` -/
theorem claimNameplate_stamped {s s1 : Sys} {app name side t fresh mb}
    (h : s.claimNameplate app name side t fresh = (s1, .ok mb)) :
    s1.Stamped app mb t ∧ ∃ n ∈ s1.db.nameplates, n.app = app ∧ n.name = name ∧ n.mailbox = mb := by
  unfold claimNameplate at h
  split at h
  · split at h
    · simp at h
    · rename_i s0 e
      obtain ⟨a, b, c⟩ := claimTail_stamped h
      subst a
      refine ⟨b, ⟨s0.db.nextNp, app, name, mb⟩, ?_, rfl, rfl, rfl⟩
      rw [c]; simp [Chan.insNameplate]
  · rename_i row e
    obtain ⟨a, b, c⟩ := claimTail_stamped h
    subst a
    have := List.find?_some e
    simp only [decide_eq_true_eq] at this
    refine ⟨b, row, ?_, this.1, this.2, rfl⟩
    rw [c]; exact List.mem_of_find?_eq_some e

/-- `Mailbox._add_message` stamps every row with that id -/
theorem addMessage_updated (s : Sys) (app mb side : String) (ph bd : Val) (t : Time) (id : Val)
    {r : MailboxRow} (hr : r ∈ (s.addMessage app mb side ph bd t id).db.mailboxes) (e : r.id = mb) :
    r.updated = t := by
  simp only [addMessage, commit_db, modDb_db] at hr
  exact Chan.touch_updated hr e

theorem addMessage_mem (s : Sys) (app mb side : String) (ph bd : Val) (t : Time) (id : Val)
    {r : MailboxRow} (hr : r ∈ s.db.mailboxes) (e : r.id = mb) :
    ({ r with updated := t } : MailboxRow) ∈ (s.addMessage app mb side ph bd t id).db.mailboxes := by
  simp only [addMessage, commit_db, modDb_db]
  exact Chan.touch_mem (d := s.db.insMessage _) hr e

/-! ### frames do not touch the database -/

@[simp] theorem sw_send_db (s : Sys) (c f) : (s.send c f).db = s.db := rfl
@[simp] theorem sw_sendError_db (s : Sys) (c t) : (s.sendError c t).db = s.db := rfl
@[simp] theorem sw_internalErr_db (s : Sys) (c t) : (s.internalErr c t).db = s.db := rfl

theorem sw_foldl_send_db {α : Type} (g : α → Nat) (fr : α → Frame) (l : List α) :
    ∀ s : Sys, (l.foldl (fun s a => s.send (g a) (fr a)) s).db = s.db := by
  induction l with
  | nil => intro s; rfl
  | cons a l ih => intro s; simp only [List.foldl_cons]; rw [ih]; rfl

@[simp] theorem sw_broadcast_db (s : Sys) (app mb f) : (s.broadcast app mb f).db = s.db :=
  sw_foldl_send_db (fun c => c) (fun _ => f) _ s

@[simp] theorem sw_replay_db (s : Sys) (c app mb) : (s.replay c app mb).db = s.db :=
  sw_foldl_send_db (fun _ => c) (fun m : Message => .message m.side m.phase m.body m.rx m.msgId) _ s

end Sys
end Wormhole
