/-
  `handle_close` and `handle_open` as exact state transformers (from a state satisfying the
  invariants), used by Props/C08.lean and Props/C05.lean.
-/
import Wormhole.Inv.MbRel
import Wormhole.Props.C17

namespace Wormhole

namespace Chan

/-- `open_mailbox` keeps the invariant -/
theorem PInv.openDb {d : Chan} (hP : d.PInv) {app mb : String} (side : String) (t : Time)
    (hc : ¬ d.Clash app mb) : (d.openDb app mb side t).PInv := by
  have hid : ∀ mb', d.HasId mb' → (d.openDb app mb side t).HasId mb' := by
    rintro mb' ⟨m, hm, hi⟩
    exact ((openDb_hasBox_iff d app mb side t m.app mb').2 (Or.inl ⟨m, hm, rfl, hi⟩)).hasId
  refine ⟨hP.npIds, hP.npKey, hP.bounded, ?_, ?_, hP.nsFk, hP.nsKey, ?_, ?_, ?_⟩
  · -- mailbox ids
    unfold Chan.openDb
    cases hm : d.findMailbox app mb with
    | some row =>
      dsimp only
      rw [List.pairwise_map]
      refine hP.mbIds.imp ?_
      intro a b hab
      split <;> split <;> exact hab
    | none =>
      dsimp only
      rw [List.pairwise_append]
      refine ⟨hP.mbIds, by simp, ?_⟩
      intro a ha b hb
      simp only [List.mem_singleton] at hb
      subst hb
      intro hid'
      have hnh := findMailbox_eq_none.1 hm
      apply hc
      refine ⟨⟨a, ha, hid', fun happ => hnh ⟨a, ha, happ, hid'⟩⟩, hnh⟩
  · intro n hn
    obtain ⟨m, hm, h1, h2⟩ := hP.npMb n hn
    obtain ⟨m', hm', ha, hi⟩ := (openDb_hasBox_iff d app mb side t n.app n.mailbox).2 (Or.inl ⟨m, hm, h2, h1⟩)
    exact ⟨m', hm', hi, ha⟩
  · intro r hr
    cases hs : d.findMbSide mb side with
    | some r0 =>
      rw [openDb_mbSides_some d app mb side t hs] at hr
      obtain ⟨m, hm, hi⟩ := hP.msFk r hr
      exact hid _ ⟨m, hm, hi⟩
    | none =>
      rw [openDb_mbSides_none d app mb side t hs] at hr
      simp only [List.mem_append, List.mem_singleton] at hr
      rcases hr with hr | rfl
      · obtain ⟨m, hm, hi⟩ := hP.msFk r hr
        exact hid _ ⟨m, hm, hi⟩
      · exact (openDb_hasBox d app mb side t).hasId
  · cases hs : d.findMbSide mb side with
    | some r0 => rw [openDb_mbSides_some d app mb side t hs]; exact hP.msKey
    | none =>
      rw [openDb_mbSides_none d app mb side t hs, List.pairwise_append]
      refine ⟨hP.msKey, by simp, ?_⟩
      intro a ha b hb
      simp only [List.mem_singleton] at hb
      subst hb
      exact findMbSide_eq_none.1 hs a ha
  · intro r hr
    obtain ⟨m, hm, h1, h2⟩ := hP.msgFk r hr
    obtain ⟨m', hm', ha, hi⟩ := (openDb_hasBox_iff d app mb side t r.app r.mailbox).2 (Or.inl ⟨m, hm, h2, h1⟩)
    exact ⟨m', hm', hi, ha⟩

/-- the side row of (mb, side) after `openDb`: the old one if there was one, else the new one -/
theorem openDb_findMbSide_ne_none (d : Chan) (app mb side : String) (t : Time) :
    (d.openDb app mb side t).findMbSide mb side ≠ none := by
  intro h
  have := findMbSide_eq_none.1 h
  cases hs : d.findMbSide mb side with
  | some r0 =>
    obtain ⟨hr, h1, h2⟩ := findMbSide_some_mbx hs
    exact this r0 (by rw [openDb_mbSides_some d app mb side t hs]; exact hr) ⟨h1, h2⟩
  | none =>
    exact this ⟨mb, true, side, t, none⟩ (by rw [openDb_mbSides_none d app mb side t hs]; simp) ⟨rfl, rfl⟩

/-- deleting (app, mb) right after the implicit open of a `close` = deleting it from the
    database before that open: whatever the open added or touched belongs to (app, mb) -/
theorem dropMailbox_openDb (d : Chan) (app mb side : String) (t : Time) :
    (d.openDb app mb side t).dropMailbox app mb = d.dropMailbox app mb := by
  have h1 : (d.openDb app mb side t).mailboxes.filter (fun m => ¬ (m.app = app ∧ m.id = mb)) =
      d.mailboxes.filter (fun m => ¬ (m.app = app ∧ m.id = mb)) := by
    unfold openDb
    cases hm : d.findMailbox app mb with
    | some row =>
      dsimp only
      apply filter_map_of_fix
      · intro x; split <;> rfl
      · intro x hx
        have : ¬ (x.app = app ∧ x.id = mb) := by
          simp only [decide_eq_true_eq] at hx; exact hx
        rw [if_neg this]
    | none => simp
  have h2 : (d.openDb app mb side t).mbSides.filter (fun r => ¬ r.mailbox = mb) =
      d.mbSides.filter (fun r => ¬ r.mailbox = mb) := by
    cases hs : d.findMbSide mb side with
    | some r => rw [openDb_mbSides_some d app mb side t hs]
    | none => rw [openDb_mbSides_none d app mb side t hs]; simp
  unfold dropMailbox
  rw [h1, h2]
  rfl

theorem otherOpen_openDb (d : Chan) (app mb side : String) (t : Time) :
    (d.openDb app mb side t).OtherOpen mb side ↔ d.OtherOpen mb side := by
  unfold OtherOpen
  cases hs : d.findMbSide mb side with
  | some r => rw [openDb_mbSides_some d app mb side t hs]
  | none =>
    rw [openDb_mbSides_none d app mb side t hs]
    constructor
    · rintro ⟨r, hr, h1, h2, h3⟩
      simp only [List.mem_append, List.mem_singleton] at hr
      rcases hr with hr | rfl
      · exact ⟨r, hr, h1, h2, h3⟩
      · exact absurd rfl h2
    · rintro ⟨r, hr, hk⟩
      exact ⟨r, by simp [hr], hk⟩

/-- nothing belongs to a mailbox id that has no row: deleting it changes nothing -/
theorem dropMailbox_eq_self {d : Chan} (hP : d.PInv) {app mb : String} (h : ¬ d.HasId mb) :
    d.dropMailbox app mb = d := by
  have h1 : d.mailboxes.filter (fun m => ¬ (m.app = app ∧ m.id = mb)) = d.mailboxes := by
    apply List.filter_eq_self.2
    intro m hm
    simp only [decide_eq_true_eq]
    exact fun hk => h ⟨m, hm, hk.2⟩
  have h2 : d.mbSides.filter (fun r => ¬ r.mailbox = mb) = d.mbSides := by
    apply List.filter_eq_self.2
    intro r hr
    simp only [decide_eq_true_eq]
    intro hk
    obtain ⟨m, hm, hi⟩ := hP.msFk r hr
    exact h ⟨m, hm, hi.trans hk⟩
  have h3 : d.messages.filter (fun r => ¬ (r.app = app ∧ r.mailbox = mb)) = d.messages := by
    apply List.filter_eq_self.2
    intro r hr
    simp only [decide_eq_true_eq]
    intro hk
    obtain ⟨m, hm, hi, _⟩ := hP.msgFk r hr
    exact h ⟨m, hm, hi.trans hk.2⟩
  have h4 : d.nameplates.filter (fun n => ¬ (n.app = app ∧ n.mailbox = mb)) = d.nameplates := by
    apply List.filter_eq_self.2
    intro n hn
    simp only [decide_eq_true_eq]
    intro hk
    obtain ⟨m, hm, hi, _⟩ := hP.npMb n hn
    exact h ⟨m, hm, hi.trans hk.2⟩
  have h5 : d.npSides.filter (fun r => ¬ ∃ n ∈ d.nameplates, n.id = r.npid ∧ n.app = app ∧ n.mailbox = mb) =
      d.npSides := by
    apply List.filter_eq_self.2
    intro r _
    simp only [decide_eq_true_eq]
    rintro ⟨n, hn, _, hk⟩
    obtain ⟨m, hm, hi, _⟩ := hP.npMb n hn
    exact h ⟨m, hm, hi.trans hk.2⟩
  unfold dropMailbox
  rw [h1, h2, h3, h4, h5]

/-- what `Mailbox.close(side, mood)` does to the channel database -/
def closeDb (d : Chan) (app mb side : String) (mood : Option String) : Chan :=
  if d.HasBox app mb ∧ d.findMbSide mb side ≠ none then
    (if d.OtherOpen mb side then d.closeSide mb side mood else d.dropMailbox app mb)
  else d

end Chan

namespace Sys

/-- every connection that holds a mailbox handle has a side row in that mailbox
    (an invariant of reachable states, proved in Props/C05.lean relative to `GInv`) -/
def HandleRow (s : Sys) : Prop :=
  ∀ x ∈ s.conns, ∀ mb, x.mailbox = some mb → ∃ r ∈ s.db.mbSides, r.mailbox = mb ∧ r.side = x.side.getD ""

/-- the record of the closing connection afterwards -/
def closerUpd (y : Conn) : Conn := { y with mailbox := none, listening := false, didClose := true }

/-- the connection records after a `close` by connection `c` that deleted nothing -/
def closeConns (cs : List Conn) (c : Nat) : List Conn :=
  cs.map (fun y => if y.id = c then closerUpd y else y)

/-- ... and after one that deleted (app, mb): the remaining subscribers lose their handle -/
def closeConnsDel (cs : List Conn) (c : Nat) (app mb : String) : List Conn :=
  cs.map (fun y => if y.id = c then closerUpd y
    else if y.listening ∧ y.app = some app ∧ y.mailbox = some mb
      then { y with mailbox := none, listening := false } else y)

/-- the body of `handle_close` after validation, for the mailbox name `mb` -/
def closeGo (s : Sys) (x : Conn) (app side : String) (t : Time) (mb : String) (mood : Option String) : Sys :=
  let opened : Sys × OpenRes × String :=
    match x.mailbox with
    | some h => (s, .ok, h)
    | none =>
      match s.openMailbox app mb side t with
      | (s1, r) => (s1.updConn x.id (fun y => if r = .ok then { y with mailbox := some mb } else y), r, mb)
  match opened with
  | (s1, .crowded, _) => s1.sendError x.id "crowded"
  | (s1, .integrity, _) => s1.internalErr x.id "IntegrityError"
  | (s1, .ok, h) =>
    let s2 := s1.updConn x.id (fun y => { y with listening := false, didClose := true })
    match s2.mailboxClose app h side mood t with
    | (s3, false) => s3.internalErr x.id "IndexError"
    | (s3, true) => (s3.updConn x.id (fun y => { y with mailbox := none })).send x.id .closed

theorem handleClose_eq_closeGo {s : Sys} {x : Conn} {app side : String} {t : Time} {m mood} {mb : String}
    (hd : x.didClose = false) (hn : x.closeName m = some mb)
    (hsame : ∀ a held, m = some a → x.mailboxId = some held → a = held) :
    s.handleClose x app side t m mood = s.closeGo x app side t mb mood := by
  unfold handleClose
  simp only [hd, Bool.false_eq_true, if_false]
  split
  · rename_i a held hh
    rw [if_neg (by simpa using hsame a held rfl hh)]
    simp only [Conn.closeName] at hn
    cases hn; rfl
  · simp only [Conn.closeName] at hn
    cases hn; rfl
  · rename_i held hh
    simp only [Conn.closeName, hh] at hn
    cases hn; rfl
  · rename_i hh
    simp [Conn.closeName, hh] at hn

/-- what validation has checked when it lets a `close` through -/
theorem close_accepted {x : Conn} {m mood} (hr : rejectText x (.close m mood) = none) :
    (∃ app, x.app = some app) ∧ x.didClose = false ∧ (∃ mb, x.closeName m = some mb) ∧
    (∀ a held, m = some a → x.mailboxId = some held → a = held) := by
  obtain ⟨happ, h⟩ := needBind_eq_none hr
  have h1 : x.didClose = false := by cases hd : x.didClose <;> simp_all
  refine ⟨happ, h1, ?_, ?_⟩
  · cases m with
    | some a => exact ⟨a, rfl⟩
    | none =>
      cases hh : x.mailboxId with
      | some held => exact ⟨held, by simp [Conn.closeName, hh]⟩
      | none => simp [h1, hh] at h
  · intro a held hm hh
    subst hm
    simpa [h1, hh] using h

theorem onMessage_close_eq {s : Sys} {c : Nat} {x : Conn} {t : Time} {id : Val} {m mood} {app mb : String}
    (hx : s.findConn c = some x) (hr : rejectText x (.close m mood) = none) (happ : x.app = some app)
    (hn : x.closeName m = some mb) :
    s.onMessage c t id (.close m mood) =
      (s.send c (.ack id)).closeGo x app (x.side.getD "") t mb mood := by
  obtain ⟨_, hd, _, hsame⟩ := close_accepted hr
  unfold onMessage
  simp only [hx, happ]
  exact handleClose_eq_closeGo hd hn hsame

/-! ### the part after the implicit open -/

/-- `Mailbox.close` + the answer, from a state with the invariants: exact output and state -/
theorem close_tail {s2 : Sys} (hP : s2.db.PInv) (hN : s2.db.NpHasSide) (hS : s2.Synced)
    (c : Nat) (app tgt side : String) (mood : Option String) (t : Time) :
    ∃ s', (match s2.mailboxClose app tgt side mood t with
        | (s3, false) => s3.internalErr c "IndexError"
        | (s3, true) => (s3.updConn c (fun y => { y with mailbox := none })).send c .closed) = s' ∧
      (∃ commits, (∀ e ∈ commits, IsCommit e) ∧ s'.out = s2.out ++ commits ++ [.frame c .closed true]) ∧
      s'.Synced ∧ s'.cfg = s2.cfg ∧ s'.rebooted = s2.rebooted ∧
      s'.db = s2.db.closeDb app tgt side mood ∧
      (¬ (s2.db.HasBox app tgt ∧ s2.db.findMbSide tgt side ≠ none ∧ ¬ s2.db.OtherOpen tgt side) →
        s'.conns = (s2.updConn c (fun y => { y with mailbox := none })).conns ∧ s'.udb = s2.udb) ∧
      (s2.db.HasBox app tgt → s2.db.findMbSide tgt side ≠ none → ¬ s2.db.OtherOpen tgt side →
        s'.conns = (({ s2 with conns := stoppedConns s2.conns app tgt } : Sys).updConn c
          (fun y => { y with mailbox := none })).conns ∧ CloseUsage s2 s' app tgt) := by
  cases e : s2.mailboxClose app tgt side mood t with
  | mk s3 b =>
    obtain ⟨hb, hcfg, hreb, hnoop, hdo⟩ := mailboxClose_exact hP hN e
    subst hb
    obtain ⟨_, _, hsync⟩ := mailboxClose_spec e
    have hs3 : s3.Synced := hsync hS hN
    have hout := CExt.mailboxClose (OutExt.refl (s := s2)) (app := app) (mb := tgt) (side := side) (mood := mood)
      (t := t)
    rw [e] at hout
    obtain ⟨commits, ho, hc⟩ := hout
    refine ⟨_, rfl, ⟨commits, hc, ?_⟩, ?_, hcfg, hreb, ?_, ?_, ?_⟩
    · show (s3.updConn c _).out ++ [_] = _
      have : (s3.updConn c (fun y => { y with mailbox := none })).synced = true :=
        (synced_iff _).2 ⟨hs3.1, hs3.2⟩
      rw [this]
      dsimp only at ho
      simp [ho]
    · exact ⟨hs3.1, hs3.2⟩
    · show s3.db = _
      unfold Chan.closeDb
      by_cases hh : s2.db.HasBox app tgt ∧ s2.db.findMbSide tgt side ≠ none
      · rw [if_pos hh]
        obtain ⟨_, h1, h2⟩ := hdo hh.1 hh.2
        by_cases ho : s2.db.OtherOpen tgt side
        · rw [if_pos ho]; exact (h1 ho).1
        · rw [if_neg ho]; exact (h2 ho).1
      · rw [if_neg hh]
        rw [hnoop (by
          by_cases h1 : s2.db.HasBox app tgt
          · right
            by_cases h2 : s2.db.findMbSide tgt side = none
            · exact h2
            · exact absurd ⟨h1, h2⟩ hh
          · exact Or.inl h1)]
    · intro hno
      show (s3.updConn c _).conns = _ ∧ s3.udb = _
      by_cases hh : s2.db.HasBox app tgt ∧ s2.db.findMbSide tgt side ≠ none
      · obtain ⟨_, h1, _⟩ := hdo hh.1 hh.2
        have ho : s2.db.OtherOpen tgt side := by
          by_cases ho : s2.db.OtherOpen tgt side
          · exact ho
          · exact absurd ⟨hh.1, hh.2, ho⟩ hno
        obtain ⟨_, hr⟩ := h1 ho
        refine ⟨?_, hr.udb⟩
        show (s3.updConn c _).conns = _
        simp [updConn, hr.conns]
      · rw [hnoop (by
          by_cases h1 : s2.db.HasBox app tgt
          · right
            by_cases h2 : s2.db.findMbSide tgt side = none
            · exact h2
            · exact absurd ⟨h1, h2⟩ hh
          · exact Or.inl h1)]
        exact ⟨rfl, rfl⟩
    · intro h1 h2 h3
      obtain ⟨_, _, hd⟩ := hdo h1 h2
      obtain ⟨_, hconns, hus⟩ := hd h3
      refine ⟨?_, ?_⟩
      · show (s3.updConn c _).conns = _
        simp [updConn, hconns]
      exact ⟨hus.current, hus.clients, hus.off, hus.mailboxes, hus.nameplates⟩

/-! ### the whole step -/

theorem step_close_eq {s : Sys} {c : Nat} {x : Conn} {t : Time} {id : Val} {m mood} {app mb : String}
    (hx : s.findConn c = some x) (hr : rejectText x (.close m mood) = none) (happ : x.app = some app)
    (hn : x.closeName m = some mb) :
    s.step (.recv c t id (.close m mood)) =
      ((({ s with out := [], snaps := [] } : Sys).send c (.ack id))).closeGo x app (x.side.getD "") t mb mood := by
  rw [step_recv]
  exact onMessage_close_eq (s := { s with out := [], snaps := [] }) hx hr happ hn

/-- the channel database a `close` works on after its implicit `open_mailbox` (none if the
    connection holds a handle) -/
def closePre (s : Sys) (x : Conn) (app tgt : String) (t : Time) : Chan :=
  if x.mailbox = none then s.db.openDb app tgt (x.side.getD "") t else s.db

theorem CloseUsage.transport {s s2 s' : Sys} {app mb : String} (h : CloseUsage s2 s' app mb)
    (h1 : s2.udb = s.udb) (h2 : s2.cfg = s.cfg) (h3 : s2.db.nameplates = s.db.nameplates) :
    CloseUsage s s' app mb := by
  obtain ⟨a, b, c, d, e⟩ := h
  have h4 : s2.db.nameplatesOfMailbox app mb = s.db.nameplatesOfMailbox app mb := by
    unfold Chan.nameplatesOfMailbox; rw [h3]
  rw [h1, h2] at *
  rw [h4] at e
  exact ⟨a, b, c, d, e⟩

theorem closeConns_eq (cs : List Conn) (c : Nat) :
    ((cs.map (fun y => if y.id = c then { y with listening := false, didClose := true } else y)).map
      (fun y => if y.id = c then { y with mailbox := none } else y)) = closeConns cs c := by
  simp only [closeConns, List.map_map]
  apply List.map_congr_left
  intro y _
  by_cases hy : y.id = c <;> simp [hy, closerUpd]

theorem closeConns_eq' (cs : List Conn) (c : Nat) (mb : String) :
    (((cs.map (fun y => if y.id = c then { y with mailbox := some mb } else y)).map
      (fun y => if y.id = c then { y with listening := false, didClose := true } else y)).map
      (fun y => if y.id = c then { y with mailbox := none } else y)) = closeConns cs c := by
  simp only [closeConns, List.map_map]
  apply List.map_congr_left
  intro y _
  by_cases hy : y.id = c <;> simp [hy, closerUpd]

theorem closeConnsDel_eq (cs : List Conn) (c : Nat) (app tgt : String) :
    ((stoppedConns (cs.map (fun y => if y.id = c then { y with listening := false, didClose := true } else y))
      app tgt).map (fun y => if y.id = c then { y with mailbox := none } else y)) =
      closeConnsDel cs c app tgt := by
  simp only [closeConnsDel, stoppedConns, List.map_map]
  apply List.map_congr_left
  intro y _
  by_cases hy : y.id = c
  · simp [hy, closerUpd]
  · simp only [Function.comp, hy, if_false]
    split <;> simp

theorem closeConnsDel_eq' (cs : List Conn) (c : Nat) (app tgt mb : String) :
    ((stoppedConns ((cs.map (fun y => if y.id = c then { y with mailbox := some mb } else y)).map
      (fun y => if y.id = c then { y with listening := false, didClose := true } else y))
      app tgt).map (fun y => if y.id = c then { y with mailbox := none } else y)) =
      closeConnsDel cs c app tgt := by
  simp only [closeConnsDel, stoppedConns, List.map_map]
  apply List.map_congr_left
  intro y _
  by_cases hy : y.id = c
  · simp [hy, closerUpd]
  · simp only [Function.comp, hy, if_false]
    split <;> simp

/-- **`close`, the whole step** (validation passed; from a state with the invariants).
    (a) the name is a mailbox of another app: IntegrityError escapes (K-global-mailbox-id), nothing
        changes;
    (b) the implicit `open_mailbox` finds more than two side rows: `error "crowded"`, the database is
        `openDb` (committed), no connection record changes;
    (c) otherwise: exactly `ack, commits, closed`; the database is `closeDb` of the database after
        the implicit open; the closing connection ends without handle, `didClose = true`; if the
        mailbox was deleted the remaining subscribers lose their handles, else no other
        connection record changes. -/
theorem close_step {s : Sys} (hP : s.db.PInv) (hN : s.db.NpHasSide) (hS : s.Synced)
    {c : Nat} {x : Conn} (hx : s.findConn c = some x) {m mood : Option String}
    (hr : rejectText x (.close m mood) = none) {app : String} (happ : x.app = some app)
    {tgt : String} (htg : x.closeTarget m = some tgt) (t : Time) (id : Val) :
    (x.mailbox = none → s.db.Clash app tgt →
      (s.step (.recv c t id (.close m mood))).out =
        [.frame c (.ack id) true, .internal (some c) "IntegrityError"] ∧
      Unchanged s (s.step (.recv c t id (.close m mood)))) ∧
    (x.mailbox = none → ¬ s.db.Clash app tgt → ((closePre s x app tgt t).mbSidesOf tgt).length > 2 →
      (∃ commits, (∀ e ∈ commits, IsCommit e) ∧ (s.step (.recv c t id (.close m mood))).out =
        .frame c (.ack id) true :: (commits ++ [.frame c (.error "crowded") true])) ∧
      (s.step (.recv c t id (.close m mood))).db = closePre s x app tgt t ∧
      (s.step (.recv c t id (.close m mood))).Synced ∧
      SameRest s (s.step (.recv c t id (.close m mood)))) ∧
    (¬ (x.mailbox = none ∧ (s.db.Clash app tgt ∨ ((closePre s x app tgt t).mbSidesOf tgt).length > 2)) →
      (∃ commits, (∀ e ∈ commits, IsCommit e) ∧ (s.step (.recv c t id (.close m mood))).out =
        .frame c (.ack id) true :: (commits ++ [.frame c .closed true])) ∧
      (s.step (.recv c t id (.close m mood))).db =
        (closePre s x app tgt t).closeDb app tgt (x.side.getD "") mood ∧
      (s.step (.recv c t id (.close m mood))).Synced ∧
      (s.step (.recv c t id (.close m mood))).cfg = s.cfg ∧
      (s.step (.recv c t id (.close m mood))).rebooted = s.rebooted ∧
      (¬ ((closePre s x app tgt t).HasBox app tgt ∧ (closePre s x app tgt t).findMbSide tgt (x.side.getD "") ≠ none ∧
          ¬ (closePre s x app tgt t).OtherOpen tgt (x.side.getD "")) →
        (s.step (.recv c t id (.close m mood))).conns = closeConns s.conns c ∧
        (s.step (.recv c t id (.close m mood))).udb = s.udb) ∧
      ((closePre s x app tgt t).HasBox app tgt → (closePre s x app tgt t).findMbSide tgt (x.side.getD "") ≠ none →
          ¬ (closePre s x app tgt t).OtherOpen tgt (x.side.getD "") →
        (s.step (.recv c t id (.close m mood))).conns = closeConnsDel s.conns c app tgt ∧
        CloseUsage s (s.step (.recv c t id (.close m mood))) app tgt)) := by
  have hid : x.id = c := findConn_id hx
  obtain ⟨_, _, ⟨mb, hn⟩, _⟩ := close_accepted hr
  rw [step_close_eq hx hr happ hn]
  have hsy : s.synced = true := (synced_iff s).2 hS
  -- the state after the ack
  generalize hA : (({ s with out := [], snaps := [] } : Sys).send c (.ack id)) = sA
  have hAout : sA.out = [.frame c (.ack id) true] := by rw [← hA, ← hsy]; rfl
  have hAdb : sA.db = s.db := by rw [← hA]; rfl
  have hAdisk : sA.disk = s.disk := by rw [← hA]; rfl
  have hAudb : sA.udb = s.udb := by rw [← hA]; rfl
  have hAudisk : sA.udisk = s.udisk := by rw [← hA]; rfl
  have hAconns : sA.conns = s.conns := by rw [← hA]; rfl
  have hAcfg : sA.cfg = s.cfg := by rw [← hA]; rfl
  have hAreb : sA.rebooted = s.rebooted := by rw [← hA]; rfl
  have hAsnaps : sA.snaps = [] := by rw [← hA]; rfl
  cases hh : x.mailbox with
  | some h =>
    have htgt : tgt = h := by simp [Conn.closeTarget, hh] at htg; exact htg.symm
    subst htgt
    have hpre : closePre s x app tgt t = s.db := by simp [closePre, hh]
    rw [hpre]
    refine ⟨(fun h0 => by cases h0), (fun h0 => by cases h0), fun _ => ?_⟩
    simp only [closeGo, hh]
    obtain ⟨s', hs', ⟨commits, hc, hout⟩, hsync, hcfg, hreb, hdb, hsurv, hdel⟩ :=
      close_tail (s2 := sA.updConn x.id (fun y => { y with listening := false, didClose := true }))
        (by show sA.db.PInv; rw [hAdb]; exact hP) (by show sA.db.NpHasSide; rw [hAdb]; exact hN)
        (by show sA.db = sA.disk ∧ sA.udb = sA.udisk
            rw [hAdb, hAdisk, hAudb, hAudisk]; exact hS)
        x.id app tgt (x.side.getD "") mood t
    rw [hs']
    simp only [updConn_db, hAdb, updConn_out, hAout, updConn_cfg, hAcfg, updConn_rebooted_mbx, hAreb,
      updConn_udb, hAudb] at hout hcfg hreb hdb hsurv hdel
    refine ⟨⟨commits, hc, by rw [hout, ← hid]; simp⟩, hdb, hsync, hcfg, hreb, ?_, ?_⟩
    · intro hno
      obtain ⟨h1, h2⟩ := hsurv hno
      refine ⟨?_, h2⟩
      rw [h1]
      simp only [updConn, hAconns, hid]
      exact closeConns_eq s.conns c
    · intro h1 h2 h3
      obtain ⟨h4, h5⟩ := hdel h1 h2 h3
      refine ⟨?_, h5.transport (by simp [hAudb]) (by simp [hAcfg]) (by simp [hAdb])⟩
      rw [h4]
      simp only [updConn, hAconns, hid]
      exact closeConnsDel_eq s.conns c app tgt
  | none =>
    have htgt : mb = tgt := by
      simp only [Conn.closeTarget, hh] at htg
      rw [hn] at htg; cases htg; rfl
    subst htgt
    have hpre : closePre s x app mb t = s.db.openDb app mb (x.side.getD "") t := by simp [closePre, hh]
    rw [hpre]
    cases e : sA.openMailbox app mb (x.side.getD "") t with
    | mk s1 r =>
      obtain ⟨hint, hsame, hne, hcrowd⟩ := openMailbox_exact (by rw [hAdb]; exact hP) e
      rw [hAdb] at hint hne hcrowd
      have hcx : CExt sA s1 := by
        have := CExt.openMailbox (OutExt.refl (s := sA)) (app := app) (mb := mb) (side := x.side.getD "") (t := t)
        rw [e] at this; exact this
      obtain ⟨commits1, hout1, hc1⟩ := hcx
      cases r with
      | integrity =>
        simp only [closeGo, hh, e]
        have hcl := hint.1 rfl
        have hs1 : s1 = sA := hsame rfl
        rw [hs1]
        refine ⟨fun _ _ => ?_, fun _ hnc => absurd hcl hnc, fun hno => absurd ⟨trivial, Or.inl hcl⟩ hno⟩
        refine ⟨?_, ⟨⟨?_, ?_, ?_, ?_, ?_, ?_, ?_⟩, ?_⟩⟩
        · show (sA.updConn x.id _).out ++ [_] = _
          simp [hAout, hid]
        · exact hAdb
        · exact hAdisk
        · exact hAudb
        · exact hAudisk
        · exact hAcfg
        · exact hAreb
        · exact hAsnaps
        · show (sA.updConn x.id _).conns = _
          simp only [updConn, hAconns]
          apply Chan.map_eq_self
          intro y _
          simp
      | crowded =>
        simp only [closeGo, hh, e]
        have hnc : ¬ s.db.Clash app mb := fun hcl => by cases hint.2 hcl
        obtain ⟨hdb, hdisk, hrest⟩ := hne (by simp)
        have hlen := (hcrowd.1 rfl).2
        refine ⟨fun _ hcl => absurd hcl hnc, fun _ _ _ => ?_, fun hno => absurd ⟨trivial, Or.inr hlen⟩ hno⟩
        have hsync1 : s1.Synced := ⟨hdisk.symm, by rw [hrest.udb, hrest.udisk, hAudb, hAudisk]; exact hS.2⟩
        refine ⟨⟨commits1, hc1, ?_⟩, hdb, hsync1, ?_⟩
        · show (s1.updConn x.id _).out ++ [.frame x.id (.error "crowded") (s1.updConn x.id _).synced] = _
          have : (s1.updConn x.id (fun y => if OpenRes.crowded = OpenRes.ok then { y with mailbox := some mb } else y)).synced = true :=
            (synced_iff _).2 hsync1
          rw [this]
          simp [hout1, hAout, hid]
        · refine ⟨?_, by rw [← hAudb]; exact hrest.udb, by rw [← hAudisk]; exact hrest.udisk,
            by rw [← hAcfg]; exact hrest.cfg, by rw [← hAreb]; exact hrest.rebooted⟩
          show (s1.updConn x.id _).conns = _
          simp only [updConn, hrest.conns, hAconns]
          apply Chan.map_eq_self
          intro y _
          simp
      | ok =>
        simp only [closeGo, hh, e, if_true]
        have hnc : ¬ s.db.Clash app mb := fun hcl => by cases hint.2 hcl
        obtain ⟨hdb, hdisk, hrest⟩ := hne (by simp)
        have hlen : ¬ ((s.db.openDb app mb (x.side.getD "") t).mbSidesOf mb).length > 2 :=
          fun hl => by cases hcrowd.2 ⟨hnc, hl⟩
        refine ⟨fun _ hcl => absurd hcl hnc, fun _ _ hl => absurd hl hlen, fun _ => ?_⟩
        have hsync1 : s1.Synced := ⟨hdisk.symm, by rw [hrest.udb, hrest.udisk, hAudb, hAudisk]; exact hS.2⟩
        obtain ⟨s', hs', ⟨commits, hc, hout⟩, hsync, hcfg, hreb, hdb', hsurv, hdel⟩ :=
          close_tail (s2 := (s1.updConn x.id (fun y => { y with mailbox := some mb })).updConn
              x.id (fun y => { y with listening := false, didClose := true }))
            (by show s1.db.PInv; rw [hdb]; exact hP.openDb _ _ hnc)
            (by show s1.db.NpHasSide; rw [hdb]; exact hN)
            hsync1 x.id app mb (x.side.getD "") mood t
        rw [hs']
        simp only [updConn_db, hdb, updConn_out, hout1, hAout, updConn_cfg, hrest.cfg, hAcfg, updConn_rebooted_mbx,
          hrest.rebooted, hAreb, updConn_udb, hrest.udb, hAudb] at hout hcfg hreb hdb' hsurv hdel
        refine ⟨⟨commits1 ++ commits, ?_, by rw [hout, ← hid]; simp⟩, hdb', hsync, hcfg, hreb, ?_, ?_⟩
        · intro e he
          rcases List.mem_append.1 he with he | he
          · exact hc1 e he
          · exact hc e he
        · intro hno
          obtain ⟨h1, h2⟩ := hsurv hno
          refine ⟨?_, h2⟩
          rw [h1]
          simp only [updConn, hrest.conns, hAconns, hid]
          exact closeConns_eq' s.conns c mb
        · intro h1 h2 h3
          obtain ⟨h4, h5⟩ := hdel h1 h2 h3
          refine ⟨?_, h5.transport (by simp [hrest.udb, hAudb]) (by simp [hrest.cfg, hAcfg]) (by simp [hdb])⟩
          rw [h4]
          simp only [updConn, hrest.conns, hAconns, hid]
          exact closeConnsDel_eq' s.conns c app mb mb

/-! ### `open` -/

theorem open_accepted {x : Conn} {m : Option String} (hr : rejectText x (.open_ m) = none) :
    (∃ app, x.app = some app) ∧ x.mailbox = none ∧ ∃ mb, m = some mb := by
  obtain ⟨happ, h⟩ := needBind_eq_none hr
  have h1 : x.mailbox = none := by cases hd : x.mailbox <;> simp_all
  refine ⟨happ, h1, ?_⟩
  cases m with
  | none => simp [h1] at h
  | some mb => exact ⟨mb, rfl⟩

theorem foldl_send_out {α : Type} (c : Nat) (fr : α → Frame) (l : List α) :
    ∀ (s : Sys), (l.foldl (fun s a => s.send c (fr a)) s).out =
        s.out ++ l.map (fun a => Event.frame c (fr a) s.synced) ∧
      (l.foldl (fun s a => s.send c (fr a)) s).db = s.db ∧
      (l.foldl (fun s a => s.send c (fr a)) s).disk = s.disk ∧
      (l.foldl (fun s a => s.send c (fr a)) s).udb = s.udb ∧
      (l.foldl (fun s a => s.send c (fr a)) s).udisk = s.udisk ∧
      (l.foldl (fun s a => s.send c (fr a)) s).conns = s.conns ∧
      (l.foldl (fun s a => s.send c (fr a)) s).cfg = s.cfg ∧
      (l.foldl (fun s a => s.send c (fr a)) s).rebooted = s.rebooted := by
  induction l with
  | nil => intro s; simp
  | cons a l ih =>
    intro s
    simp only [List.foldl_cons]
    obtain ⟨h1, h2, h3, h4, h5, h6, h7, h8⟩ := ih (s.send c (fr a))
    refine ⟨?_, h2, h3, h4, h5, h6, h7, h8⟩
    rw [h1]
    have : (s.send c (fr a)).synced = s.synced := rfl
    rw [this]
    simp [Sys.send]

/-- the frames `open` replays: the stored messages of (app, mb) in `server_rx` order -/
def replayFrames (d : Chan) (c : Nat) (app mb : String) : List Event :=
  ((d.messagesOf app mb).mergeSort (fun a b => decide (a.rx ≤ b.rx))).map
    (fun m => Event.frame c (.message m.side m.phase m.body m.rx m.msgId) true)

/-- **`open`, the whole step** (validation passed; from a state with the invariants).
    In every case the connection remembers the name (`mailboxId`); it gets a handle and a
    subscription only in case (c). -/
theorem open_step {s : Sys} (hP : s.db.PInv) (hS : s.Synced)
    {c : Nat} {x : Conn} (hx : s.findConn c = some x) {mb : String}
    (hr : rejectText x (.open_ (some mb)) = none) {app : String} (happ : x.app = some app)
    (t : Time) (id : Val) :
    (s.db.Clash app mb →
      (s.step (.recv c t id (.open_ (some mb)))).out =
        [.frame c (.ack id) true, .internal (some c) "IntegrityError"] ∧
      SameStores s (s.step (.recv c t id (.open_ (some mb)))) ∧
      (s.step (.recv c t id (.open_ (some mb)))).conns =
        s.conns.map (fun y => if y.id = c then { y with mailboxId := some mb } else y)) ∧
    (¬ s.db.Clash app mb → ((s.db.openDb app mb (x.side.getD "") t).mbSidesOf mb).length > 2 →
      (∃ commits, (∀ e ∈ commits, IsCommit e) ∧ (s.step (.recv c t id (.open_ (some mb)))).out =
        .frame c (.ack id) true :: (commits ++ [.frame c (.error "crowded") true])) ∧
      (s.step (.recv c t id (.open_ (some mb)))).db = s.db.openDb app mb (x.side.getD "") t ∧
      (s.step (.recv c t id (.open_ (some mb)))).Synced ∧
      (s.step (.recv c t id (.open_ (some mb)))).udb = s.udb ∧
      (s.step (.recv c t id (.open_ (some mb)))).cfg = s.cfg ∧
      (s.step (.recv c t id (.open_ (some mb)))).rebooted = s.rebooted ∧
      (s.step (.recv c t id (.open_ (some mb)))).conns =
        s.conns.map (fun y => if y.id = c then { y with mailboxId := some mb } else y)) ∧
    (¬ s.db.Clash app mb → ¬ ((s.db.openDb app mb (x.side.getD "") t).mbSidesOf mb).length > 2 →
      (∃ commits, (∀ e ∈ commits, IsCommit e) ∧ (s.step (.recv c t id (.open_ (some mb)))).out =
        .frame c (.ack id) true ::
          (commits ++ replayFrames (s.db.openDb app mb (x.side.getD "") t) c app mb)) ∧
      (s.step (.recv c t id (.open_ (some mb)))).db = s.db.openDb app mb (x.side.getD "") t ∧
      (s.step (.recv c t id (.open_ (some mb)))).Synced ∧
      (s.step (.recv c t id (.open_ (some mb)))).udb = s.udb ∧
      (s.step (.recv c t id (.open_ (some mb)))).cfg = s.cfg ∧
      (s.step (.recv c t id (.open_ (some mb)))).rebooted = s.rebooted ∧
      (s.step (.recv c t id (.open_ (some mb)))).conns =
        s.conns.map (fun y => if y.id = c
          then { y with mailboxId := some mb, mailbox := some mb, listening := true } else y)) := by
  have hid : x.id = c := findConn_id hx
  obtain ⟨_, hnone, _⟩ := open_accepted hr
  have hsy : s.synced = true := (synced_iff s).2 hS
  have hstep : s.step (.recv c t id (.open_ (some mb))) =
      (({ s with out := [], snaps := [] } : Sys).send c (.ack id)).handleOpen x app (x.side.getD "") t (some mb) := by
    rw [step_recv]
    unfold onMessage
    have : ({ s with out := [], snaps := [] } : Sys).findConn c = some x := hx
    simp only [this, happ]
  rw [hstep]
  generalize hA : (({ s with out := [], snaps := [] } : Sys).send c (.ack id)) = sA
  have hAout : sA.out = [.frame c (.ack id) true] := by rw [← hA, ← hsy]; rfl
  have hAdb : sA.db = s.db := by rw [← hA]; rfl
  have hAdisk : sA.disk = s.disk := by rw [← hA]; rfl
  have hAudb : sA.udb = s.udb := by rw [← hA]; rfl
  have hAudisk : sA.udisk = s.udisk := by rw [← hA]; rfl
  have hAconns : sA.conns = s.conns := by rw [← hA]; rfl
  have hAcfg : sA.cfg = s.cfg := by rw [← hA]; rfl
  have hAreb : sA.rebooted = s.rebooted := by rw [← hA]; rfl
  have hAsnaps : sA.snaps = [] := by rw [← hA]; rfl
  unfold handleOpen
  simp only [hnone, Option.isSome_none, Bool.false_eq_true, if_false]
  cases e : (sA.updConn x.id (fun y => { y with mailboxId := some mb })).openMailbox app mb (x.side.getD "") t with
  | mk s1 r =>
    obtain ⟨hint, hsame, hne, hcrowd⟩ :=
      openMailbox_exact (s := sA.updConn x.id (fun y => { y with mailboxId := some mb }))
        (by show sA.db.PInv; rw [hAdb]; exact hP) e
    simp only [updConn_db, hAdb] at hint hne hcrowd
    have hcx : CExt (sA.updConn x.id (fun y => { y with mailboxId := some mb })) s1 := by
      have := CExt.openMailbox (OutExt.refl (s := sA.updConn x.id (fun y => { y with mailboxId := some mb })))
        (app := app) (mb := mb) (side := x.side.getD "") (t := t)
      rw [e] at this; exact this
    obtain ⟨commits1, hout1, hc1⟩ := hcx
    simp only [updConn_out, hAout] at hout1
    cases r with
    | integrity =>
      dsimp only
      have hcl := hint.1 rfl
      have hs1 : s1 = _ := hsame rfl
      rw [hs1]
      refine ⟨fun _ => ?_, fun hnc => absurd hcl hnc, fun hnc => absurd hcl hnc⟩
      refine ⟨?_, ⟨hAdb, hAdisk, hAudb, hAudisk, hAcfg, hAreb, hAsnaps⟩, ?_⟩
      · show (sA.updConn x.id _).out ++ [_] = _
        simp [hAout, hid]
      · show (sA.updConn x.id _).conns = _
        simp only [updConn, hAconns, hid]
    | crowded =>
      dsimp only
      have hnc : ¬ s.db.Clash app mb := fun hcl => by cases hint.2 hcl
      obtain ⟨hdb, hdisk, hrest⟩ := hne (by simp)
      have hlen := (hcrowd.1 rfl).2
      refine ⟨fun hcl => absurd hcl hnc, fun _ _ => ?_, fun _ hl => absurd hlen hl⟩
      have hsync1 : s1.Synced := ⟨hdisk.symm, by
        rw [hrest.udb, hrest.udisk]; show sA.udb = sA.udisk; rw [hAudb, hAudisk]; exact hS.2⟩
      refine ⟨⟨commits1, hc1, ?_⟩, hdb, hsync1, ?_, ?_, ?_, ?_⟩
      · show s1.out ++ [.frame x.id (.error "crowded") s1.synced] = _
        rw [(synced_iff _).2 hsync1]
        simp [hout1, hid]
      · show s1.udb = _; rw [hrest.udb]; exact hAudb
      · show s1.cfg = _; rw [hrest.cfg]; exact hAcfg
      · show s1.rebooted = _; rw [hrest.rebooted]; exact hAreb
      · show s1.conns = _
        rw [hrest.conns]
        simp only [updConn, hAconns, hid]
    | ok =>
      dsimp only
      have hnc : ¬ s.db.Clash app mb := fun hcl => by cases hint.2 hcl
      obtain ⟨hdb, hdisk, hrest⟩ := hne (by simp)
      have hlen : ¬ ((s.db.openDb app mb (x.side.getD "") t).mbSidesOf mb).length > 2 :=
        fun hl => by cases hcrowd.2 ⟨hnc, hl⟩
      refine ⟨fun hcl => absurd hcl hnc, fun _ hl => absurd hl hlen, fun _ _ => ?_⟩
      have hsync1 : s1.Synced := ⟨hdisk.symm, by
        rw [hrest.udb, hrest.udisk]; show sA.udb = sA.udisk; rw [hAudb, hAudisk]; exact hS.2⟩
      unfold replay
      obtain ⟨f1, f2, f3, f4, f5, f6, f7, f8⟩ := foldl_send_out x.id
        (fun (m : Message) => Frame.message m.side m.phase m.body m.rx m.msgId)
        (((s1.updConn x.id (fun y => { y with mailbox := some mb, listening := true })).db.messagesOf app mb).mergeSort
          (fun a b => decide (a.rx ≤ b.rx)))
        (s1.updConn x.id (fun y => { y with mailbox := some mb, listening := true }))
      refine ⟨⟨commits1, hc1, ?_⟩, ?_, ?_, ?_, ?_, ?_, ?_⟩
      · rw [f1]
        have : (s1.updConn x.id (fun y => { y with mailbox := some mb, listening := true })).synced = true :=
          (synced_iff _).2 hsync1
        rw [this]
        simp only [updConn_out, hout1, updConn_db, hdb, replayFrames, hid]
        simp
      · rw [f2]; exact hdb
      · exact ⟨by rw [f2, f3]; exact hsync1.1, by rw [f4, f5]; exact hsync1.2⟩
      · rw [f4]; show s1.udb = _; rw [hrest.udb]; exact hAudb
      · rw [f7]; show s1.cfg = _; rw [hrest.cfg]; exact hAcfg
      · rw [f8]; show s1.rebooted = _; rw [hrest.rebooted]; exact hAreb
      · rw [f6]
        show (s1.updConn x.id _).conns = _
        simp only [updConn, hrest.conns, hAconns, hid, List.map_map]
        apply List.map_congr_left
        intro y _
        by_cases hy : y.id = c <;> simp [hy]

end Sys
end Wormhole
