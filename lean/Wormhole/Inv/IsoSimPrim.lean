/-
  C06, two-run simulation, part 1: the relation between the channel databases and what the
  SELECTs return on related databases.

  `ViewRel b ρ d₁ d₂`: `d₂` consists exactly of the rows of app `b` of `d₁`, in the same order,
  with the surrogate key `nameplates.id` renamed by `ρ` (injective on the ids of b's nameplates).
  `d₁` is the database of the full run, `d₂` that of the run without the other apps' commands;
  the AUTOINCREMENT counter is the only thing other apps' activity shifts.
-/
import Wormhole.Inv.IsoDefs

set_option linter.unusedSimpArgs false

namespace Wormhole

theorem find?_congr_mem {α : Type} {p q : α → Bool} :
    ∀ {l : List α}, (∀ x ∈ l, p x = q x) → l.find? p = l.find? q
  | [], _ => rfl
  | a :: l, h => by
    simp only [List.find?_cons, h a (by simp)]
    rw [find?_congr_mem (fun x hx => h x (by simp [hx]))]

namespace Chan

def rnNp (ρ : Nat → Nat) (n : Nameplate) : Nameplate := { n with id := ρ n.id }
def rnSide (ρ : Nat → Nat) (r : NpSide) : NpSide := { r with npid := ρ r.npid }

@[simp] theorem rnNp_id (ρ n) : (rnNp ρ n).id = ρ n.id := rfl
@[simp] theorem rnNp_app (ρ n) : (rnNp ρ n).app = n.app := rfl
@[simp] theorem rnNp_name (ρ n) : (rnNp ρ n).name = n.name := rfl
@[simp] theorem rnNp_mailbox (ρ n) : (rnNp ρ n).mailbox = n.mailbox := rfl
@[simp] theorem rnSide_npid (ρ r) : (rnSide ρ r).npid = ρ r.npid := rfl
@[simp] theorem rnSide_side (ρ r) : (rnSide ρ r).side = r.side := rfl
@[simp] theorem rnSide_claimed (ρ r) : (rnSide ρ r).claimed = r.claimed := rfl
@[simp] theorem rnSide_added (ρ r) : (rnSide ρ r).added = r.added := rfl

structure ViewRel (b : String) (ρ : Nat → Nat) (d₁ d₂ : Chan) : Prop where
  nps : d₂.nameplates = (d₁.npsB b).map (rnNp ρ)
  sides : d₂.npSides = (d₁.npSidesB b).map (rnSide ρ)
  inj : ∀ i ∈ d₁.npIdsB b, ∀ j ∈ d₁.npIdsB b, ρ i = ρ j → i = j
  mbs : d₂.mailboxes = d₁.mbsB b
  mbSides : d₂.mbSides = d₁.mbSidesB b
  msgs : d₂.messages = d₁.msgsB b

theorem mem_npIdsB {d : Chan} {b : String} {i : Nat} :
    i ∈ d.npIdsB b ↔ ∃ n ∈ d.nameplates, n.app = b ∧ n.id = i := by
  simp [npIdsB, npsB, and_assoc]

theorem mem_mbIdsB {d : Chan} {b m : String} : m ∈ d.mbIdsB b ↔ d.HasMb b m := by
  simp only [mbIdsB, mbsB, HasMb, List.mem_map, List.mem_filter, decide_eq_true_eq]
  constructor
  · rintro ⟨r, ⟨h1, h2⟩, h3⟩; exact ⟨r, h1, h3, h2⟩
  · rintro ⟨r, h1, h3, h2⟩; exact ⟨r, ⟨h1, h2⟩, h3⟩

theorem mem_npSidesB {d : Chan} {b : String} {r : NpSide} :
    r ∈ d.npSidesB b ↔ r ∈ d.npSides ∧ r.npid ∈ d.npIdsB b := by
  simp [npSidesB]

section lookups
variable {b : String} {ρ : Nat → Nat} {d₁ d₂ : Chan}

/-- `SELECT * FROM mailboxes WHERE app_id=b AND id=m` -/
theorem ViewRel.findMailbox (h : ViewRel b ρ d₁ d₂) (m : String) : d₂.findMailbox b m = d₁.findMailbox b m := by
  unfold Chan.findMailbox
  rw [h.mbs, mbsB, List.find?_filter]
  apply find?_congr_mem
  intro x _
  by_cases h1 : x.app = b <;> simp [h1] <;> rfl

/-- in the projected database, `SELECT * FROM mailboxes WHERE id=m` sees b's rows only -/
theorem ViewRel.findMailboxById (h : ViewRel b ρ d₁ d₂) (m : String) : d₂.findMailboxById m = d₁.findMailbox b m := by
  unfold Chan.findMailboxById Chan.findMailbox
  rw [h.mbs, mbsB, List.find?_filter]
  apply find?_congr_mem
  intro x _
  simp

theorem ViewRel.hasMb (h : ViewRel b ρ d₁ d₂) (m : String) : d₂.HasMb b m ↔ d₁.HasMb b m := by
  unfold HasMb
  rw [h.mbs]
  simp only [mbsB, List.mem_filter, decide_eq_true_eq]
  constructor
  · rintro ⟨r, ⟨h1, _⟩, h2, h3⟩; exact ⟨r, h1, h2, h3⟩
  · rintro ⟨r, h1, h2, h3⟩; exact ⟨r, ⟨h1, h3⟩, h2, h3⟩

theorem ViewRel.mbSidesOf (h : ViewRel b ρ d₁ d₂) {m : String} (hm : d₁.HasMb b m) :
    d₂.mbSidesOf m = d₁.mbSidesOf m := by
  unfold Chan.mbSidesOf
  rw [h.mbSides, mbSidesB, List.filter_filter]
  apply List.filter_congr
  intro x _
  by_cases h1 : x.mailbox = m
  · simp [h1, mem_mbIdsB.2 hm]
  · simp [h1]

theorem ViewRel.findMbSide (h : ViewRel b ρ d₁ d₂) {m : String} (hm : d₁.HasMb b m) (side : String) :
    d₂.findMbSide m side = d₁.findMbSide m side := by
  unfold Chan.findMbSide
  rw [h.mbSides, mbSidesB, List.find?_filter]
  apply find?_congr_mem
  intro x _
  by_cases h1 : x.mailbox = m
  · simp [h1, mem_mbIdsB.2 hm]
  · simp [h1]

theorem ViewRel.messagesOf (h : ViewRel b ρ d₁ d₂) (m : String) : d₂.messagesOf b m = d₁.messagesOf b m := by
  unfold Chan.messagesOf
  rw [h.msgs, msgsB, List.filter_filter]
  apply List.filter_congr
  intro x _
  by_cases h1 : x.app = b <;> simp [h1] <;> rfl

theorem ViewRel.findNameplate (h : ViewRel b ρ d₁ d₂) (name : String) :
    d₂.findNameplate b name = (d₁.findNameplate b name).map (rnNp ρ) := by
  unfold Chan.findNameplate
  rw [h.nps, List.find?_map, npsB, List.find?_filter]
  congr 1
  apply find?_congr_mem
  intro x _
  by_cases h1 : x.app = b <;> simp [h1] <;> rfl

theorem ViewRel.nameplatesOfMailbox (h : ViewRel b ρ d₁ d₂) (m : String) :
    d₂.nameplatesOfMailbox b m = (d₁.nameplatesOfMailbox b m).map (rnNp ρ) := by
  unfold Chan.nameplatesOfMailbox
  rw [h.nps, List.filter_map, npsB, List.filter_filter]
  congr 1
  apply List.filter_congr
  intro x _
  by_cases h1 : x.app = b <;> simp [h1] <;> rfl

theorem ViewRel.nameplatesOfApp (h : ViewRel b ρ d₁ d₂) :
    d₂.nameplatesOfApp b = (d₁.nameplatesOfApp b).map (rnNp ρ) := by
  unfold Chan.nameplatesOfApp
  rw [h.nps, List.filter_map, npsB, List.filter_filter]
  congr 1
  apply List.filter_congr
  intro x _
  by_cases h1 : x.app = b <;> simp [h1] <;> rfl

theorem ViewRel.mailboxesOfApp (h : ViewRel b ρ d₁ d₂) : d₂.mailboxesOfApp b = d₁.mailboxesOfApp b := by
  unfold Chan.mailboxesOfApp
  rw [h.mbs, mbsB, List.filter_filter]
  apply List.filter_congr
  intro x _
  by_cases h1 : x.app = b <;> simp [h1] <;> rfl

theorem ViewRel.namesOfApp (h : ViewRel b ρ d₁ d₂) : d₂.namesOfApp b = d₁.namesOfApp b := by
  have := h.nameplatesOfApp
  unfold Chan.nameplatesOfApp at this
  unfold Chan.namesOfApp
  rw [this, List.map_map]
  rfl

theorem ViewRel.npSidesOf (h : ViewRel b ρ d₁ d₂) {i : Nat} (hi : i ∈ d₁.npIdsB b) :
    d₂.npSidesOf (ρ i) = (d₁.npSidesOf i).map (rnSide ρ) := by
  unfold Chan.npSidesOf
  rw [h.sides, List.filter_map, npSidesB, List.filter_filter]
  congr 1
  apply List.filter_congr
  intro x _
  by_cases h1 : x.npid ∈ d₁.npIdsB b
  · by_cases h2 : x.npid = i
    · simp [h2, hi] <;> rfl
    · have : ¬ ρ x.npid = ρ i := fun e => h2 (h.inj _ h1 _ hi e)
      simp [h1, h2, this]
  · have : ¬ x.npid = i := fun e => h1 (e ▸ hi)
    simp [h1, this]

theorem ViewRel.findNpSide (h : ViewRel b ρ d₁ d₂) {i : Nat} (hi : i ∈ d₁.npIdsB b) (side : String) :
    d₂.findNpSide (ρ i) side = (d₁.findNpSide i side).map (rnSide ρ) := by
  unfold Chan.findNpSide
  rw [h.sides, List.find?_map, npSidesB, List.find?_filter]
  congr 1
  apply find?_congr_mem
  intro x _
  by_cases h1 : x.npid ∈ d₁.npIdsB b
  · by_cases h2 : x.npid = i
    · simp [h2, hi] <;> rfl
    · have : ¬ ρ x.npid = ρ i := fun e => h2 (h.inj _ h1 _ hi e)
      simp [h1, h2, this]
  · have : ¬ x.npid = i := fun e => h1 (e ▸ hi)
    simp [h1, this]

/-- a nameplate found under app `b` has one of b's ids -/
theorem findNameplate_mem_npIdsB {d : Chan} {name : String} {row : Nameplate}
    (h : d.findNameplate b name = some row) : row.id ∈ d.npIdsB b := by
  have h1 := List.mem_of_find?_eq_some h
  have h2 := List.find?_some h
  simp only [decide_eq_true_eq] at h2
  exact mem_npIdsB.2 ⟨row, h1, h2.1, rfl⟩

theorem mem_nameplatesOfMailbox_npIdsB {d : Chan} {m : String} {n : Nameplate}
    (h : n ∈ d.nameplatesOfMailbox b m) : n.id ∈ d.npIdsB b := by
  simp only [Chan.nameplatesOfMailbox, List.mem_filter, decide_eq_true_eq] at h
  exact mem_npIdsB.2 ⟨n, h.1, h.2.1, rfl⟩

theorem mem_nameplatesOfApp_npIdsB {d : Chan} {n : Nameplate}
    (h : n ∈ d.nameplatesOfApp b) : n.id ∈ d.npIdsB b := by
  simp only [Chan.nameplatesOfApp, List.mem_filter, decide_eq_true_eq] at h
  exact mem_npIdsB.2 ⟨n, h.1, h.2, rfl⟩

end lookups

/-! ### the INSERT / UPDATE / DELETE statements on related databases -/

section prims
variable {b : String} {ρ : Nat → Nat} {d₁ d₂ : Chan}

theorem mbIdsB_mapMailboxes (d : Chan) (b : String) (f : MailboxRow → MailboxRow)
    (hf : ∀ r, (f r).id = r.id ∧ (f r).app = r.app) :
    ({ d with mailboxes := d.mailboxes.map f } : Chan).mbIdsB b = d.mbIdsB b := by
  simp only [mbIdsB, mbsB, List.filter_map, List.map_map]
  have : (List.filter ((fun m => decide (m.app = b)) ∘ f) d.mailboxes) = List.filter (fun m => decide (m.app = b)) d.mailboxes := by
    apply List.filter_congr
    intro x _
    simp [(hf x).2]
  rw [this]
  apply List.map_congr_left
  intro x _
  simp [(hf x).1]

/-- an UPDATE of `mailboxes` that keeps the key columns -/
theorem ViewRel.mapMailboxes (h : ViewRel b ρ d₁ d₂) (f₁ f₂ : MailboxRow → MailboxRow)
    (hf₁ : ∀ r, (f₁ r).id = r.id ∧ (f₁ r).app = r.app)
    (hf : ∀ r ∈ d₁.mailboxes, r.app = b → f₂ r = f₁ r) :
    ViewRel b ρ { d₁ with mailboxes := d₁.mailboxes.map f₁ } { d₂ with mailboxes := d₂.mailboxes.map f₂ } := by
  refine ⟨h.nps, h.sides, h.inj, ?_, ?_, h.msgs⟩
  · show d₂.mailboxes.map f₂ = (d₁.mailboxes.map f₁).filter (fun m => m.app = b)
    rw [h.mbs, mbsB, List.filter_map]
    have : (List.filter ((fun m => decide (m.app = b)) ∘ f₁) d₁.mailboxes) = List.filter (fun m => decide (m.app = b)) d₁.mailboxes := by
      apply List.filter_congr
      intro x _
      simp [(hf₁ x).2]
    rw [this]
    apply List.map_congr_left
    intro x hx
    simp only [List.mem_filter, decide_eq_true_eq] at hx
    exact hf x hx.1 hx.2
  · show d₂.mbSides = d₁.mbSides.filter (fun r => r.mailbox ∈ ({ d₁ with mailboxes := d₁.mailboxes.map f₁ } : Chan).mbIdsB b)
    rw [mbIdsB_mapMailboxes d₁ b f₁ hf₁]
    exact h.mbSides

theorem ViewRel.touch (h : ViewRel b ρ d₁ d₂) (m : String) (t : Time) : ViewRel b ρ (d₁.touch m t) (d₂.touch m t) :=
  h.mapMailboxes _ _ (fun r => by split <;> simp) (fun _ _ _ => rfl)

/-- an UPDATE of `mailbox_sides` that keeps the mailbox column -/
theorem ViewRel.mapMbSides (h : ViewRel b ρ d₁ d₂) (f : MbSide → MbSide) (hf : ∀ r, (f r).mailbox = r.mailbox) :
    ViewRel b ρ { d₁ with mbSides := d₁.mbSides.map f } { d₂ with mbSides := d₂.mbSides.map f } := by
  refine ⟨h.nps, h.sides, h.inj, h.mbs, ?_, h.msgs⟩
  show d₂.mbSides.map f = (d₁.mbSides.map f).filter (fun r => r.mailbox ∈ d₁.mbIdsB b)
  rw [h.mbSides, mbSidesB, List.filter_map]
  congr 1
  apply List.filter_congr
  intro x _
  simp [hf x]

theorem ViewRel.closeSide (h : ViewRel b ρ d₁ d₂) (m side : String) (mood : Option String) :
    ViewRel b ρ (d₁.closeSide m side mood) (d₂.closeSide m side mood) :=
  h.mapMbSides _ (fun r => by split <;> simp)

/-- an UPDATE of `nameplate_sides` that keeps the nameplate column -/
theorem ViewRel.mapNpSides (h : ViewRel b ρ d₁ d₂) (f₁ f₂ : NpSide → NpSide) (hf₁ : ∀ r, (f₁ r).npid = r.npid)
    (hf : ∀ r ∈ d₁.npSidesB b, f₂ (rnSide ρ r) = rnSide ρ (f₁ r)) :
    ViewRel b ρ { d₁ with npSides := d₁.npSides.map f₁ } { d₂ with npSides := d₂.npSides.map f₂ } := by
  refine ⟨h.nps, ?_, h.inj, h.mbs, h.mbSides, h.msgs⟩
  show d₂.npSides.map f₂ = ((d₁.npSides.map f₁).filter (fun r => r.npid ∈ d₁.npIdsB b)).map (rnSide ρ)
  rw [h.sides, List.filter_map, List.map_map, List.map_map]
  have : List.filter ((fun r => decide (r.npid ∈ d₁.npIdsB b)) ∘ f₁) d₁.npSides = d₁.npSidesB b := by
    unfold npSidesB
    apply List.filter_congr
    intro x _
    simp [hf₁ x]
  rw [this]
  apply List.map_congr_left
  intro x hx
  exact hf x hx

theorem ViewRel.unclaim (h : ViewRel b ρ d₁ d₂) {i : Nat} (hi : i ∈ d₁.npIdsB b) (side : String) :
    ViewRel b ρ (d₁.unclaim i side) (d₂.unclaim (ρ i) side) := by
  refine h.mapNpSides _ _ (fun r => by split <;> simp) ?_
  intro r hr
  have hr' := (mem_npSidesB.1 hr).2
  by_cases h2 : r.npid = i
  · by_cases h3 : r.side = side <;> simp [h2, h3, rnSide]
  · have : ¬ ρ r.npid = ρ i := fun e => h2 (h.inj _ hr' _ hi e)
    simp [h2, this, rnSide]

theorem ViewRel.insMessage (h : ViewRel b ρ d₁ d₂) (r : Message) (hr : r.app = b) :
    ViewRel b ρ (d₁.insMessage r) (d₂.insMessage r) := by
  refine ⟨h.nps, h.sides, h.inj, h.mbs, h.mbSides, ?_⟩
  show d₂.messages ++ [r] = (d₁.messages ++ [r]).filter (fun m => m.app = b)
  rw [List.filter_append, h.msgs, msgsB]
  simp [hr]

theorem ViewRel.insMbSide (h : ViewRel b ρ d₁ d₂) (r : MbSide) (hm : d₁.HasMb b r.mailbox) :
    ViewRel b ρ (d₁.insMbSide r) (d₂.insMbSide r) := by
  refine ⟨h.nps, h.sides, h.inj, h.mbs, ?_, h.msgs⟩
  show d₂.mbSides ++ [r] = (d₁.mbSides ++ [r]).filter (fun x => x.mailbox ∈ d₁.mbIdsB b)
  rw [List.filter_append, h.mbSides, mbSidesB]
  simp [mem_mbIdsB.2 hm]

theorem ViewRel.insMailbox (h : ViewRel b ρ d₁ d₂) (r : MailboxRow) (hr : r.app = b)
    (hno : ∀ x ∈ d₁.mbSides, ¬ x.mailbox = r.id) : ViewRel b ρ (d₁.insMailbox r) (d₂.insMailbox r) := by
  refine ⟨h.nps, h.sides, h.inj, ?_, ?_, h.msgs⟩
  · show d₂.mailboxes ++ [r] = (d₁.mailboxes ++ [r]).filter (fun m => m.app = b)
    rw [List.filter_append, h.mbs, mbsB]
    simp [hr]
  · show d₂.mbSides = d₁.mbSides.filter (fun x => x.mailbox ∈ (d₁.insMailbox r).mbIdsB b)
    rw [h.mbSides, mbSidesB]
    apply List.filter_congr
    intro x hx
    have : (d₁.insMailbox r).mbIdsB b = d₁.mbIdsB b ++ [r.id] := by
      simp [mbIdsB, mbsB, Chan.insMailbox, List.filter_append, hr]
    rw [this]
    simp [hno x hx]

theorem ViewRel.insNpSide (h : ViewRel b ρ d₁ d₂) (r : NpSide) (hi : r.npid ∈ d₁.npIdsB b) :
    ViewRel b ρ (d₁.insNpSide r) (d₂.insNpSide (rnSide ρ r)) := by
  refine ⟨h.nps, ?_, h.inj, h.mbs, h.mbSides, h.msgs⟩
  show d₂.npSides ++ [rnSide ρ r] = ((d₁.npSides ++ [r]).filter (fun x => x.npid ∈ d₁.npIdsB b)).map (rnSide ρ)
  rw [List.filter_append, h.sides, npSidesB]
  simp [hi]

/-- the renaming after an INSERT into `nameplates` in both runs -/
def extend (ρ : Nat → Nat) (i j : Nat) : Nat → Nat := fun k => if k = i then j else ρ k

theorem ViewRel.insNameplate (h : ViewRel b ρ d₁ d₂) (name mb : String) (hb₁ : d₁.IdsBounded)
    (hb₂ : ∀ n ∈ d₂.nameplates, n.id < d₂.nextNp) :
    ViewRel b (extend ρ d₁.nextNp d₂.nextNp) (d₁.insNameplate b name mb) (d₂.insNameplate b name mb) := by
  have hlt : ∀ i ∈ d₁.npIdsB b, i < d₁.nextNp := by
    intro i hi
    obtain ⟨n, hn, _, rfl⟩ := mem_npIdsB.1 hi
    exact hb₁.1 n hn
  have hρlt : ∀ i ∈ d₁.npIdsB b, ρ i < d₂.nextNp := by
    intro i hi
    obtain ⟨n, hn, hb, rfl⟩ := mem_npIdsB.1 hi
    apply hb₂ (rnNp ρ n)
    rw [h.nps]
    exact List.mem_map.2 ⟨n, by simp [npsB, hn, hb], rfl⟩
  have hids : (d₁.insNameplate b name mb).npIdsB b = d₁.npIdsB b ++ [d₁.nextNp] := by
    simp [npIdsB, npsB, Chan.insNameplate, List.filter_append]
  refine ⟨?_, ?_, ?_, h.mbs, h.mbSides, h.msgs⟩
  · show d₂.nameplates ++ [(⟨d₂.nextNp, b, name, mb⟩ : Nameplate)] =
      ((d₁.nameplates ++ [(⟨d₁.nextNp, b, name, mb⟩ : Nameplate)]).filter (fun n => n.app = b)).map
        (rnNp (extend ρ d₁.nextNp d₂.nextNp))
    rw [List.filter_append, List.map_append, h.nps]
    congr 1
    · apply List.map_congr_left
      intro n hn
      have : n.id < d₁.nextNp := hb₁.1 n (List.mem_filter.1 hn).1
      simp [rnNp, extend, Nat.ne_of_lt this]
    · simp [rnNp, extend]
  · show d₂.npSides = (d₁.npSides.filter (fun r => r.npid ∈ (d₁.insNameplate b name mb).npIdsB b)).map
        (rnSide (extend ρ d₁.nextNp d₂.nextNp))
    rw [hids, h.sides, npSidesB]
    have : d₁.npSides.filter (fun r => r.npid ∈ d₁.npIdsB b ++ [d₁.nextNp]) =
        d₁.npSides.filter (fun r => r.npid ∈ d₁.npIdsB b) := by
      apply List.filter_congr
      intro x hx
      have : x.npid < d₁.nextNp := hb₁.2 x hx
      simp [Nat.ne_of_lt this]
    rw [this]
    apply List.map_congr_left
    intro x hx
    have : x.npid < d₁.nextNp := hb₁.2 x (List.mem_filter.1 hx).1
    simp [rnSide, extend, Nat.ne_of_lt this]
  · rw [hids]
    intro i hi j hj e
    simp only [List.mem_append, List.mem_singleton] at hi hj
    simp only [extend] at e
    rcases hi with hi | rfl <;> rcases hj with hj | rfl
    · have h1 := Nat.ne_of_lt (hlt i hi)
      have h2 := Nat.ne_of_lt (hlt j hj)
      simp only [h1, h2, if_false] at e
      exact h.inj i hi j hj e
    · have h1 := Nat.ne_of_lt (hlt i hi)
      simp only [h1, if_false, if_true] at e
      exact absurd e (Nat.ne_of_lt (hρlt i hi))
    · have h2 := Nat.ne_of_lt (hlt j hj)
      simp only [h2, if_false, if_true] at e
      exact absurd e.symm (Nat.ne_of_lt (hρlt j hj))
    · rfl

/-- `DELETE FROM nameplate_sides WHERE nameplates_id=i; DELETE FROM nameplates WHERE id=i` -/
theorem ViewRel.delById (h : ViewRel b ρ d₁ d₂) {i : Nat} (hi : i ∈ d₁.npIdsB b) :
    ViewRel b ρ ((d₁.delNpSidesOf i).delNameplate i) ((d₂.delNpSidesOf (ρ i)).delNameplate (ρ i)) := by
  have hids : ∀ k, k ∈ ((d₁.delNpSidesOf i).delNameplate i).npIdsB b ↔ k ∈ d₁.npIdsB b ∧ ¬ k = i := by
    intro k
    simp only [mem_npIdsB, Chan.delNameplate, Chan.delNpSidesOf, List.mem_filter, decide_eq_true_eq, decide_not,
      Bool.not_eq_eq_eq_not, Bool.not_true, decide_eq_false_iff_not]
    constructor
    · rintro ⟨n, ⟨h1, h2⟩, h3, rfl⟩; exact ⟨⟨n, h1, h3, rfl⟩, h2⟩
    · rintro ⟨⟨n, h1, h3, rfl⟩, h2⟩; exact ⟨n, ⟨h1, h2⟩, h3, rfl⟩
  refine ⟨?_, ?_, ?_, h.mbs, h.mbSides, h.msgs⟩
  · show d₂.nameplates.filter (fun r => ¬ r.id = ρ i) =
      ((d₁.nameplates.filter (fun r => ¬ r.id = i)).filter (fun n => n.app = b)).map (rnNp ρ)
    rw [h.nps, List.filter_map, npsB, List.filter_filter, List.filter_filter]
    congr 1
    apply List.filter_congr
    intro x hx
    by_cases h1 : x.app = b
    · have hx' : x.id ∈ d₁.npIdsB b := mem_npIdsB.2 ⟨x, hx, h1, rfl⟩
      by_cases h2 : x.id = i
      · simp [h1, h2]
      · have : ¬ ρ x.id = ρ i := fun e => h2 (h.inj _ hx' _ hi e)
        simp [h1, h2, this]
    · simp [h1]
  · show d₂.npSides.filter (fun r => ¬ r.npid = ρ i) =
      ((d₁.npSides.filter (fun r => ¬ r.npid = i)).filter
        (fun r => r.npid ∈ ((d₁.delNpSidesOf i).delNameplate i).npIdsB b)).map (rnSide ρ)
    rw [h.sides, List.filter_map, npSidesB, List.filter_filter, List.filter_filter]
    congr 1
    apply List.filter_congr
    intro x hx
    by_cases h1 : x.npid ∈ d₁.npIdsB b
    · by_cases h2 : x.npid = i
      · simp [h2, hids]
      · have : ¬ ρ x.npid = ρ i := fun e => h2 (h.inj _ h1 _ hi e)
        simp [h1, h2, this, hids]
    · simp [h1, hids]
  · intro k hk j hj e
    exact h.inj k ((hids k).1 hk).1 j ((hids j).1 hj).1 e

/-- the nameplate part of the clean-up of `Mailbox.close` (repair A) -/
theorem ViewRel.delNpOfMailbox (h : ViewRel b ρ d₁ d₂) (hu : d₁.NpIdsUnique) (m : String) :
    ViewRel b ρ ((d₁.delNpSidesOfMailbox b m).delNameplatesOfMailbox b m)
      ((d₂.delNpSidesOfMailbox b m).delNameplatesOfMailbox b m) := by
  have hK : ∀ k, k ∈ (d₁.nameplatesOfMailbox b m).map (·.id) ↔ ∃ n ∈ d₁.nameplates, n.app = b ∧ n.mailbox = m ∧ n.id = k := by
    intro k
    simp [Chan.nameplatesOfMailbox, and_assoc]
  have hKsub : ∀ k, k ∈ (d₁.nameplatesOfMailbox b m).map (·.id) → k ∈ d₁.npIdsB b := by
    intro k hk
    obtain ⟨n, h1, h2, _, h4⟩ := (hK k).1 hk
    exact mem_npIdsB.2 ⟨n, h1, h2, h4⟩
  have hids : ∀ k, k ∈ ((d₁.delNpSidesOfMailbox b m).delNameplatesOfMailbox b m).npIdsB b ↔
      k ∈ d₁.npIdsB b ∧ k ∉ (d₁.nameplatesOfMailbox b m).map (·.id) := by
    intro k
    rw [hK]
    simp only [mem_npIdsB, Chan.delNameplatesOfMailbox, Chan.delNpSidesOfMailbox, List.mem_filter, decide_eq_true_eq,
      decide_not, Bool.not_eq_eq_eq_not, Bool.not_true, decide_eq_false_iff_not]
    constructor
    · rintro ⟨n, ⟨h1, h2⟩, h3, rfl⟩
      refine ⟨⟨n, h1, h3, rfl⟩, ?_⟩
      rintro ⟨n', g1, g2, g3, g4⟩
      have : n' = n := eq_of_pairwise_ne hu g1 h1 g4
      subst this
      exact h2 ⟨g2, g3⟩
    · rintro ⟨⟨n, h1, h3, rfl⟩, h2⟩
      exact ⟨n, ⟨h1, fun hh => h2 ⟨n, h1, hh.1, hh.2, rfl⟩⟩, h3, rfl⟩
  refine ⟨?_, ?_, ?_, h.mbs, h.mbSides, h.msgs⟩
  · show d₂.nameplates.filter (fun r => ¬ (r.app = b ∧ r.mailbox = m)) =
      ((d₁.nameplates.filter (fun r => ¬ (r.app = b ∧ r.mailbox = m))).filter (fun n => n.app = b)).map (rnNp ρ)
    rw [h.nps, List.filter_map, npsB, List.filter_filter, List.filter_filter]
    congr 1
    apply List.filter_congr
    intro x _
    by_cases h1 : x.app = b <;> simp [h1] <;> rfl
  · show d₂.npSides.filter (fun r => ¬ r.npid ∈ (d₂.nameplatesOfMailbox b m).map (·.id)) =
      ((d₁.npSides.filter (fun r => ¬ r.npid ∈ (d₁.nameplatesOfMailbox b m).map (·.id))).filter
        (fun r => r.npid ∈ ((d₁.delNpSidesOfMailbox b m).delNameplatesOfMailbox b m).npIdsB b)).map (rnSide ρ)
    rw [h.sides, List.filter_map, npSidesB, List.filter_filter, List.filter_filter, h.nameplatesOfMailbox,
      List.map_map]
    congr 1
    apply List.filter_congr
    intro x hx
    by_cases h1 : x.npid ∈ d₁.npIdsB b
    · have hiff : ρ x.npid ∈ (d₁.nameplatesOfMailbox b m).map ((·.id) ∘ rnNp ρ) ↔
          x.npid ∈ (d₁.nameplatesOfMailbox b m).map (·.id) := by
        simp only [List.mem_map, Function.comp, rnNp_id]
        constructor
        · rintro ⟨n, hn, e⟩
          have hn' : n.id ∈ d₁.npIdsB b := hKsub _ (List.mem_map.2 ⟨n, hn, rfl⟩)
          exact ⟨n, hn, h.inj _ hn' _ h1 e⟩
        · rintro ⟨n, hn, e⟩
          exact ⟨n, hn, by rw [e]⟩
      rw [Bool.eq_iff_iff]
      simp only [Bool.and_eq_true, decide_eq_true_eq, Function.comp_apply, rnSide_npid, hids, hiff, decide_not,
        Bool.not_eq_eq_eq_not, Bool.not_true, decide_eq_false_iff_not]
      grind
    · rw [Bool.eq_iff_iff]
      simp only [Bool.and_eq_true, decide_eq_true_eq, Function.comp_apply, rnSide_npid, hids, decide_not,
        Bool.not_eq_eq_eq_not, Bool.not_true, decide_eq_false_iff_not]
      grind
  · intro k hk j hj e
    exact h.inj k ((hids k).1 hk).1 j ((hids j).1 hj).1 e

theorem ViewRel.delMessagesOf (h : ViewRel b ρ d₁ d₂) (m : String) :
    ViewRel b ρ (d₁.delMessagesOf m) (d₂.delMessagesOf m) := by
  refine ⟨h.nps, h.sides, h.inj, h.mbs, h.mbSides, ?_⟩
  show d₂.messages.filter (fun r => ¬ r.mailbox = m) = (d₁.messages.filter (fun r => ¬ r.mailbox = m)).filter (fun x => x.app = b)
  rw [h.msgs, msgsB, List.filter_filter, List.filter_filter]
  apply List.filter_congr
  intro x _
  simp [Bool.and_comm]

/-- `DELETE FROM mailbox_sides WHERE mailbox_id=m; DELETE FROM mailboxes WHERE id=m` -/
theorem ViewRel.delMbBlock (h : ViewRel b ρ d₁ d₂) (m : String) :
    ViewRel b ρ ((d₁.delMbSidesOf m).delMailbox m) ((d₂.delMbSidesOf m).delMailbox m) := by
  have hids : ∀ k, k ∈ ((d₁.delMbSidesOf m).delMailbox m).mbIdsB b ↔ k ∈ d₁.mbIdsB b ∧ ¬ k = m := by
    intro k
    simp only [mbIdsB, mbsB, Chan.delMailbox, Chan.delMbSidesOf, List.mem_map, List.mem_filter, decide_eq_true_eq,
      decide_not, Bool.not_eq_eq_eq_not, Bool.not_true, decide_eq_false_iff_not]
    constructor
    · rintro ⟨r, ⟨⟨h1, h2⟩, h3⟩, rfl⟩; exact ⟨⟨r, ⟨h1, h3⟩, rfl⟩, h2⟩
    · rintro ⟨⟨r, ⟨h1, h3⟩, rfl⟩, h2⟩; exact ⟨r, ⟨⟨h1, h2⟩, h3⟩, rfl⟩
  refine ⟨h.nps, h.sides, h.inj, ?_, ?_, h.msgs⟩
  · show d₂.mailboxes.filter (fun r => ¬ r.id = m) = (d₁.mailboxes.filter (fun r => ¬ r.id = m)).filter (fun x => x.app = b)
    rw [h.mbs, mbsB, List.filter_filter, List.filter_filter]
    apply List.filter_congr
    intro x _
    simp [Bool.and_comm]
  · show d₂.mbSides.filter (fun r => ¬ r.mailbox = m) =
      (d₁.mbSides.filter (fun r => ¬ r.mailbox = m)).filter (fun r => r.mailbox ∈ ((d₁.delMbSidesOf m).delMailbox m).mbIdsB b)
    rw [h.mbSides, mbSidesB, List.filter_filter, List.filter_filter]
    apply List.filter_congr
    intro x _
    by_cases h1 : x.mailbox = m <;> simp [h1, hids]

end prims

end Chan
end Wormhole
