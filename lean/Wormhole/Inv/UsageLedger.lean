/-
  The ledger of the deletion phase of an operation: "usage rows written so far ~ rows retired so
  far".

  `Led B U0 blur t pruned d u`: `d` (channel database) and `u` (usage database) are reached from
  the base `B` / `U0` by deleting nameplates and mailboxes one at a time, each deletion together with
  its usage row; in `d` every surviving nameplate / mailbox still has the side rows it has in `B`
  (nameplates: the same `added` times -- `claimed` may have been reset by `release`).
  The ledger is maintained by
    `Led.delNp`   (`DELETE nameplate_sides, nameplates WHERE id` + `_summarize_nameplate_and_store`)
    `Led.delMb`   (`DELETE messages, mailbox_sides, mailboxes WHERE id` + `_summarize_mailbox_and_store`)
    `Led.touchSome`, `Led.unclaim`  (the UPDATEs of the sweep and of `release`).
-/
import Wormhole.Inv.UsageDefs
import Wormhole.Inv.MbSpec

namespace Wormhole

/-- the record of nameplate row `n` of base `B` -/
def Chan.npRec (B : Chan) (blur : Time → Time) (t : Time) (pruned : Bool) (n : Nameplate) : UNameplate :=
  npRecord blur n.app ((B.npSidesOf n.id).map (·.added)) t pruned

/-- the record of mailbox row `m` of base `B` -/
def Chan.mbRec (B : Chan) (blur : Time → Time) (t : Time) (pruned : Bool) (m : MailboxRow) : UMailbox :=
  mbRecord blur m.app m.forNp (B.mbSidesOf m.id) t pruned

structure Led (B : Chan) (U0 : Usage) (blur : Time → Time) (t : Time) (pruned : Bool) (d : Chan) (u : Usage) :
    Prop where
  npSub : ∀ n ∈ d.nameplates, n ∈ B.nameplates
  npSides : ∀ n ∈ d.nameplates, (d.npSidesOf n.id).map (·.added) = (B.npSidesOf n.id).map (·.added)
  mbSub : ∀ m ∈ d.mailboxes, ∃ m0 ∈ B.mailboxes, m0.id = m.id ∧ m0.app = m.app ∧ m0.forNp = m.forNp
  mbSides : ∀ m ∈ d.mailboxes, d.mbSidesOf m.id = B.mbSidesOf m.id
  npIds : d.nameplates.Pairwise (fun a b => ¬ a.id = b.id)
  mbIds : d.mailboxes.Pairwise (fun a b => ¬ a.id = b.id)
  recNp : ∃ recs, u.nameplates = U0.nameplates ++ recs ∧
    recs.Perm ((B.retiredNp d).map (B.npRec blur t pruned))
  recMb : ∃ recs, u.mailboxes = U0.mailboxes ++ recs ∧
    recs.Perm ((B.retiredMb d).map (B.mbRec blur t pruned))
  clients : u.clients = U0.clients

namespace Led
variable {B : Chan} {U0 : Usage} {blur : Time → Time} {t : Time} {pruned : Bool} {d : Chan} {u : Usage}

/-- the ledger starts balanced -/
theorem start (hB : B.PInv) : Led B U0 blur t pruned B U0 := by
  refine ⟨fun _ h => h, fun _ _ => rfl, fun m hm => ⟨m, hm, rfl, rfl, rfl⟩, fun _ _ => rfl, hB.npIds, hB.mbIds,
    ⟨[], by simp, ?_⟩, ⟨[], by simp, ?_⟩, rfl⟩
  · rw [Chan.retiredNp_self]; exact List.Perm.refl _
  · rw [Chan.retiredMb_self]; exact List.Perm.refl _

/-- only the `current` table of the usage database differs -/
theorem current (h : Led B U0 blur t pruned d u) (rows : List UCurrent) :
    Led B U0 blur t pruned d { u with current := rows } :=
  ⟨h.npSub, h.npSides, h.mbSub, h.mbSides, h.npIds, h.mbIds, h.recNp, h.recMb, h.clients⟩

/-- one nameplate row, its side rows and its usage record -/
theorem delNp (hB : B.PInv) (h : Led B U0 blur t pruned d u) {np : Nameplate} (hnp : np ∈ d.nameplates) :
    Led B U0 blur t pruned ((d.delNpSidesOf np.id).delNameplate np.id)
      { u with nameplates := u.nameplates ++
          [npRecord blur np.app ((d.npSidesOf np.id).map (·.added)) t pruned] } := by
  have hnpB : np ∈ B.nameplates := h.npSub np hnp
  have hside : ∀ n ∈ d.nameplates, n.id ≠ np.id →
      ((d.delNpSidesOf np.id).delNameplate np.id).npSidesOf n.id = d.npSidesOf n.id := by
    intro n _ hne
    simp only [Chan.npSidesOf, Chan.delNameplate, Chan.delNpSidesOf, List.filter_filter]
    apply List.filter_congr
    intro r _
    by_cases e : r.npid = n.id <;> simp [e, hne]
  refine ⟨?_, ?_, h.mbSub, h.mbSides, ?_, h.mbIds, ?_, ?_, h.clients⟩
  · intro n hn
    exact h.npSub n (List.mem_filter.1 hn).1
  · intro n hn
    obtain ⟨hn0, hne⟩ := List.mem_filter.1 hn
    rw [hside n hn0 (by simpa using hne)]
    exact h.npSides n hn0
  · exact List.Pairwise.filter _ h.npIds
  · obtain ⟨recs, e1, e2⟩ := h.recNp
    refine ⟨recs ++ [npRecord blur np.app ((d.npSidesOf np.id).map (·.added)) t pruned], by simp [e1], ?_⟩
    have hrec : npRecord blur np.app ((d.npSidesOf np.id).map (·.added)) t pruned = B.npRec blur t pruned np := by
      unfold Chan.npRec; rw [h.npSides np hnp]
    rw [hrec]
    have hperm : (B.retiredNp ((d.delNpSidesOf np.id).delNameplate np.id)).Perm (B.retiredNp d ++ [np]) := by
      unfold Chan.retiredNp
      apply filter_perm_snoc _ _ (nodup_of_pairwise_key (·.id) hB.npIds) hnpB
      · have : np.id ∈ d.nameplates.map (·.id) := List.mem_map.2 ⟨np, hnp, rfl⟩
        simp only [this, not_true, decide_false]
      · intro n hn
        have hiff : n.id ∈ (((d.delNpSidesOf np.id).delNameplate np.id).nameplates.map (·.id)) ↔
            (n.id ∈ d.nameplates.map (·.id) ∧ n ≠ np) := by
          simp only [Chan.delNameplate, Chan.delNpSidesOf, List.mem_map, List.mem_filter, decide_not,
            Bool.not_eq_eq_eq_not, Bool.not_true, decide_eq_false_iff_not]
          constructor
          · rintro ⟨n', ⟨hn', hne⟩, e⟩
            exact ⟨⟨n', hn', e⟩, fun e' => hne (by rw [e, e'])⟩
          · rintro ⟨⟨n', hn', e⟩, hne⟩
            refine ⟨n', ⟨hn', fun e' => hne ?_⟩, e⟩
            exact eq_of_key_eq (·.id) hB.npIds hn hnpB (e.symm.trans e')
        rw [Bool.eq_iff_iff]
        simp only [decide_eq_true_eq, Bool.or_eq_true]
        rw [hiff, Decidable.not_and_iff_not_or_not, Decidable.not_not]
    exact (e2.append_right _).trans
      (by rw [← List.map_singleton (f := B.npRec blur t pruned), ← List.map_append]; exact (hperm.map _).symm)
  · obtain ⟨recs, e1, e2⟩ := h.recMb
    exact ⟨recs, e1, e2⟩

/-- one mailbox row, its side rows, its messages and its usage record -/
theorem delMb (hB : B.PInv) (h : Led B U0 blur t pruned d u) {m : MailboxRow} (hm : m ∈ d.mailboxes) :
    Led B U0 blur t pruned (((d.delMessagesOf m.id).delMbSidesOf m.id).delMailbox m.id)
      { u with mailboxes := u.mailboxes ++ [mbRecord blur m.app m.forNp (d.mbSidesOf m.id) t pruned] } := by
  obtain ⟨m0, hm0, e0, ea, ef⟩ := h.mbSub m hm
  have hside : ∀ m' ∈ d.mailboxes, m'.id ≠ m.id →
      (((d.delMessagesOf m.id).delMbSidesOf m.id).delMailbox m.id).mbSidesOf m'.id = d.mbSidesOf m'.id := by
    intro m' _ hne
    simp only [Chan.mbSidesOf, Chan.delMailbox, Chan.delMbSidesOf, Chan.delMessagesOf, List.filter_filter]
    apply List.filter_congr
    intro r _
    by_cases e : r.mailbox = m'.id <;> simp [e, hne]
  refine ⟨h.npSub, h.npSides, ?_, ?_, h.npIds, ?_, ?_, ?_, h.clients⟩
  · intro m' hm'
    exact h.mbSub m' (List.mem_filter.1 hm').1
  · intro m' hm'
    obtain ⟨hm'0, hne⟩ := List.mem_filter.1 hm'
    rw [hside m' hm'0 (by simpa using hne)]
    exact h.mbSides m' hm'0
  · exact List.Pairwise.filter _ h.mbIds
  · obtain ⟨recs, e1, e2⟩ := h.recNp
    exact ⟨recs, e1, e2⟩
  · obtain ⟨recs, e1, e2⟩ := h.recMb
    refine ⟨recs ++ [mbRecord blur m.app m.forNp (d.mbSidesOf m.id) t pruned], by simp [e1], ?_⟩
    have hrec : mbRecord blur m.app m.forNp (d.mbSidesOf m.id) t pruned = B.mbRec blur t pruned m0 := by
      unfold Chan.mbRec; rw [h.mbSides m hm, ea, ef, e0]
    rw [hrec]
    have hperm : (B.retiredMb (((d.delMessagesOf m.id).delMbSidesOf m.id).delMailbox m.id)).Perm
        (B.retiredMb d ++ [m0]) := by
      unfold Chan.retiredMb
      apply filter_perm_snoc _ _ (nodup_of_pairwise_key (·.id) hB.mbIds) hm0
      · have : m0.id ∈ d.mailboxes.map (·.id) := List.mem_map.2 ⟨m, hm, e0.symm⟩
        simp only [this, not_true, decide_false]
      · intro n hn
        have hiff : n.id ∈ ((((d.delMessagesOf m.id).delMbSidesOf m.id).delMailbox m.id).mailboxes.map (·.id)) ↔
            (n.id ∈ d.mailboxes.map (·.id) ∧ n ≠ m0) := by
          simp only [Chan.delMailbox, Chan.delMbSidesOf, Chan.delMessagesOf, List.mem_map, List.mem_filter,
            decide_not, Bool.not_eq_eq_eq_not, Bool.not_true, decide_eq_false_iff_not]
          constructor
          · rintro ⟨n', ⟨hn', hne⟩, e⟩
            exact ⟨⟨n', hn', e⟩, fun e' => hne (by rw [e, e', e0])⟩
          · rintro ⟨⟨n', hn', e⟩, hne⟩
            refine ⟨n', ⟨hn', fun e' => hne ?_⟩, e⟩
            exact eq_of_key_eq (·.id) hB.mbIds hn hm0 (e.symm.trans (e'.trans e0.symm))
        rw [Bool.eq_iff_iff]
        simp only [decide_eq_true_eq, Bool.or_eq_true]
        rw [hiff, Decidable.not_and_iff_not_or_not, Decidable.not_not]
    exact (e2.append_right _).trans
      (by rw [← List.map_singleton (f := B.mbRec blur t pruned), ← List.map_append]; exact (hperm.map _).symm)

/-- `UPDATE mailboxes SET updated=…` on some rows -/
theorem touchSome (h : Led B U0 blur t pruned d u) (p : MailboxRow → Prop) [DecidablePred p] (t' : Time) :
    Led B U0 blur t pruned
      { d with mailboxes := d.mailboxes.map (fun r => if p r then { r with updated := t' } else r) } u := by
  have hid : ({ d with mailboxes := d.mailboxes.map (fun r => if p r then { r with updated := t' } else r) } :
      Chan).mailboxes.map (·.id) = d.mailboxes.map (·.id) := by
    simp only [List.map_map]
    apply List.map_congr_left
    intro r _
    simp only [Function.comp]
    split <;> rfl
  refine ⟨h.npSub, h.npSides, ?_, ?_, h.npIds, ?_, h.recNp, ?_, h.clients⟩
  · intro m hm
    obtain ⟨r, hr, rfl⟩ := List.mem_map.1 hm
    obtain ⟨m0, hm0, e0, ea, ef⟩ := h.mbSub r hr
    refine ⟨m0, hm0, ?_, ?_, ?_⟩ <;> (split <;> assumption)
  · intro m hm
    obtain ⟨r, hr, rfl⟩ := List.mem_map.1 hm
    have : (if p r then { r with updated := t' } else r).id = r.id := by split <;> rfl
    rw [this]
    exact h.mbSides r hr
  · rw [List.pairwise_map]
    refine h.mbIds.imp ?_
    intro a b hab
    have ha : (if p a then { a with updated := t' } else a).id = a.id := by split <;> rfl
    have hb : (if p b then { b with updated := t' } else b).id = b.id := by split <;> rfl
    rw [ha, hb]; exact hab
  · obtain ⟨recs, e1, e2⟩ := h.recMb
    exact ⟨recs, e1, by rw [Chan.retiredMb_congr hid]; exact e2⟩

/-- `UPDATE nameplate_sides SET claimed=0` on one row -/
theorem unclaim (h : Led B U0 blur t pruned d u) (npid : Nat) (side : String) :
    Led B U0 blur t pruned (d.unclaim npid side) u := by
  refine ⟨h.npSub, ?_, h.mbSub, h.mbSides, h.npIds, h.mbIds, h.recNp, h.recMb, h.clients⟩
  intro n hn
  rw [← h.npSides n hn]
  simp only [Chan.npSidesOf, Chan.unclaim]
  exact Chan.map_filter_map_of_inv _ _ _ (fun x => by split <;> rfl) (fun x => by split <;> rfl) _

end Led
end Wormhole
