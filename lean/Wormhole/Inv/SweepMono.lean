/-
  `mailboxes.updated` is only ever written with the time of the current operation:
  after ANY step (crashes included) that runs at time `T`, every mailbox row is a row of the
  database before the step, unchanged, or carries `updated = T`  (`Sys.step_stampStep`).
  With `WFOp.mono` (times never go back) and `GInv.clockMb` (no stamp is later than the clock)
  this makes `updated` monotone — the link between "last activity" and the column the sweep
  looks at (Props/C12.lean, `C12_updated_lower_bound`).

  Technique: the `AllDb` calculus of Inv/MsgDb.lean (a predicate of the live database, the
  committed one and all crash points), with `P := Chan.StampStep T d0`.
-/
import Wormhole.Inv.MsgDb
import Wormhole.Reach

namespace Wormhole

namespace Chan

/-- every mailbox row of `d'` is a row of `d` (unchanged) or is stamped `T` -/
def StampStep (T : Time) (d d' : Chan) : Prop :=
  ∀ r' ∈ d'.mailboxes, r' ∈ d.mailboxes ∨ r'.updated = T

theorem StampStep.refl (T : Time) (d : Chan) : StampStep T d d := fun _ h => .inl h

theorem StampStep.trans {T : Time} {a b c : Chan} (h1 : StampStep T a b) (h2 : StampStep T b c) :
    StampStep T a c := by
  intro r hr
  rcases h2 r hr with h | h
  · exact h1 r h
  · exact .inr h

/-- statements that do not add or alter mailbox rows -/
theorem StampStep.of_subset {T : Time} {d d' : Chan} (h : ∀ r ∈ d'.mailboxes, r ∈ d.mailboxes) :
    StampStep T d d' := fun r hr => .inl (h r hr)

theorem StampStep.touch (d : Chan) (mb : String) (T : Time) : StampStep T d (d.touch mb T) := by
  intro r hr
  simp only [Chan.touch, List.mem_map] at hr
  obtain ⟨r0, h0, rfl⟩ := hr
  by_cases e : r0.id = mb
  · right; simp [e]
  · left; simpa [e] using h0

theorem StampStep.insMailbox (d : Chan) (app mb : String) (T : Time) (f : Bool) :
    StampStep T d (d.insMailbox ⟨app, mb, T, f⟩) := by
  intro r hr
  simp only [Chan.insMailbox, List.mem_append, List.mem_singleton] at hr
  rcases hr with h | rfl
  · exact .inl h
  · exact .inr rfl

theorem StampStep.restamp (d : Chan) (p : MailboxRow → Prop) [DecidablePred p] (T : Time) :
    StampStep T d { d with mailboxes := d.mailboxes.map (fun r => if p r then { r with updated := T } else r) } := by
  intro r hr
  simp only [List.mem_map] at hr
  obtain ⟨r0, h0, rfl⟩ := hr
  by_cases e : p r0
  · right; simp [e]
  · left; simpa [e] using h0

theorem StampStep.delMb (T : Time) (d : Chan) (mb : String) :
    StampStep T d (((d.delMessagesOf mb).delMbSidesOf mb).delMailbox mb) :=
  .of_subset (fun _ hr => (List.mem_filter.1 hr).1)

theorem StampStep.closeDel (T : Time) (d : Chan) (app mb : String) :
    StampStep T d (((((d.delNpSidesOfMailbox app mb).delNameplatesOfMailbox app mb).delMessagesOf mb).delMbSidesOf
      mb).delMailbox mb) :=
  .of_subset (fun _ hr => (List.mem_filter.1 hr).1)

end Chan

namespace Sys

section stamp
variable {W : Prop} {T : Time} {d0 : Chan} {s : Sys}

/-- one statement -/
theorem AllDb.stamp (a : AllDb W (Chan.StampStep T d0) s) {f : Chan → Chan}
    (h : Chan.StampStep T s.db (f s.db)) : AllDb W (Chan.StampStep T d0) (s.modDb f) :=
  a.modDb (a.db.trans h)

/-- a statement that leaves the `mailboxes` table alone -/
theorem AllDb.stampSame (a : AllDb W (Chan.StampStep T d0) s) {f : Chan → Chan}
    (h : (f s.db).mailboxes = s.db.mailboxes) : AllDb W (Chan.StampStep T d0) (s.modDb f) :=
  a.stamp (.of_subset (by rw [h]; exact fun _ hr => hr))

theorem AllDb.sMailboxOpen (a : AllDb W (Chan.StampStep T d0) s) {mb side} :
    AllDb W (Chan.StampStep T d0) (s.mailboxOpen mb side T) := by
  unfold Sys.mailboxOpen
  split
  · exact ((a.stampSame (f := (·.insMbSide ⟨mb, true, side, T, none⟩)) rfl).stamp (Chan.StampStep.touch _ _ _)).commit
  · exact (a.stamp (Chan.StampStep.touch _ _ _)).commit

theorem AllDb.sAddMailbox (a : AllDb W (Chan.StampStep T d0) s) {app mb forNp s1}
    (h : s.addMailbox app mb forNp T = some s1) : AllDb W (Chan.StampStep T d0) s1 := by
  unfold Sys.addMailbox at h
  split at h
  · cases h; exact a
  · split at h
    · cases h
    · cases h
      exact a.stamp (Chan.StampStep.insMailbox _ _ _ _ _)

theorem AllDb.sOpenMailbox (a : AllDb W (Chan.StampStep T d0) s) {app mb side} :
    AllDb W (Chan.StampStep T d0) (s.openMailbox app mb side T).1 := by
  unfold Sys.openMailbox
  split
  · exact a
  · rename_i s1 h1
    have := ((a.sAddMailbox h1).sMailboxOpen (mb := mb) (side := side)).commit
    simp only []
    split <;> exact this

theorem AllDb.sClaimTail (a : AllDb W (Chan.StampStep T d0) s) {app npid mb side} :
    AllDb W (Chan.StampStep T d0) (s.claimTail app npid mb side T).1 := by
  rw [Sys.claimTail_eq]
  have cont : ∀ s2 : Sys, AllDb W (Chan.StampStep T d0) s2 →
      AllDb W (Chan.StampStep T d0) (Sys.claimCont s2 app npid mb side T).1 := by
    intro s2 a2
    unfold Sys.claimCont
    dsimp only
    have h3 := a2.commit.sOpenMailbox (app := app) (mb := mb) (side := side)
    split <;> rename_i s3 heq <;> rw [heq] at h3
    · exact h3
    · exact h3
    · split <;> exact h3
  split
  · exact cont _ (a.stampSame rfl)
  · split
    · exact cont _ a
    · exact a

theorem AllDb.sClaimNameplate (a : AllDb W (Chan.StampStep T d0) s) {app name side fresh} :
    AllDb W (Chan.StampStep T d0) (s.claimNameplate app name side T fresh).1 := by
  unfold Sys.claimNameplate
  split
  · split
    · exact a
    · rename_i s2 h2
      exact ((a.sAddMailbox h2).stampSame rfl).sClaimTail
  · exact a.sClaimTail

theorem AllDb.sReleaseNameplate (a : AllDb W (Chan.StampStep T d0) s) {app name side t} :
    AllDb W (Chan.StampStep T d0) (s.releaseNameplate app name side t).1 := by
  unfold Sys.releaseNameplate
  split
  · exact a
  · split
    · exact a
    · rename_i _ np _ _ _ _
      have h1 : AllDb W (Chan.StampStep T d0) ((s.modDb (·.unclaim np.id side)).commit) :=
        (a.stampSame rfl).commit
      simp only []
      split
      · exact h1
      · have h2 : AllDb W (Chan.StampStep T d0) (((s.modDb (·.unclaim np.id side)).commit).modDb
            (fun d => (d.delNpSidesOf np.id).delNameplate np.id)) := h1.stampSame rfl
        split
        · have h3 := h2.storeNameplateUsage (app := app)
            (sides := ((s.modDb (·.unclaim np.id side)).commit).db.npSidesOf np.id) (t := t) (p := false)
          split <;> rename_i s3 heq <;> rw [heq] at h3
          · exact h3
          · exact h3.ucommit.commit
        · exact h2.commit

theorem AllDb.sAddMessage (a : AllDb W (Chan.StampStep T d0) s) {app mb side ph bd id} :
    AllDb W (Chan.StampStep T d0) (s.addMessage app mb side ph bd T id) := by
  unfold Sys.addMessage
  exact ((a.stampSame rfl).stamp (Chan.StampStep.touch _ _ _)).commit

theorem AllDb.sCloseTail {s2 : Sys} (a : AllDb W (Chan.StampStep T d0) s2) {mb : String} {b : Bool}
    {app : String} {forNp : Bool} {sideRows : List MbSide} {t : Time} :
    AllDb W (Chan.StampStep T d0) (if (!b) = true then (s2, false) else
      let s3 := s2.modDb (fun d =>
        ((((d.delNpSidesOfMailbox app mb).delNameplatesOfMailbox app mb).delMessagesOf mb).delMbSidesOf
          mb).delMailbox mb)
      let s4 := if s3.cfg.usage then (s3.storeMailboxUsage app forNp sideRows t false).ucommit else s3
      ((s4.commit).stopListeners app mb, true)).1 := by
  have h3 : AllDb W (Chan.StampStep T d0) (s2.modDb (fun d =>
        ((((d.delNpSidesOfMailbox app mb).delNameplatesOfMailbox app mb).delMessagesOf mb).delMbSidesOf
          mb).delMailbox mb)) := a.stamp (Chan.StampStep.closeDel T _ app mb)
  split
  · exact a
  · apply AllDb.stopListeners
    apply AllDb.commit
    split
    · exact h3.storeMailboxUsage.ucommit
    · exact h3

theorem AllDb.sMailboxClose (a : AllDb W (Chan.StampStep T d0) s) {app mb side mood t} :
    AllDb W (Chan.StampStep T d0) (s.mailboxClose app mb side mood t).1 := by
  unfold Sys.mailboxClose
  split
  · exact a
  · split
    · exact a
    · have h1 : AllDb W (Chan.StampStep T d0) ((s.modDb (·.closeSide mb side mood)).commit) :=
        (a.stampSame rfl).commit
      simp only []
      split
      · exact h1
      · split
        · have h2 := AllDb.storeNameplatesOfMailbox (app := app) (t := t)
              (((s.modDb (·.closeSide mb side mood)).commit).db.nameplatesOfMailbox app mb) h1
          exact h2.sCloseTail
        · exact h1.sCloseTail

/-! ### the sweep -/

theorem AllDb.sTouchListened (a : AllDb W (Chan.StampStep T d0) s) {app} :
    AllDb W (Chan.StampStep T d0) (s.touchListened app T) := by
  unfold Sys.touchListened
  exact a.stamp (Chan.StampStep.restamp s.db (fun r => r.app = app ∧ s.listeners app r.id ≠ []) T)

theorem AllDb.sPruneNameplates {app now} (l : List Nameplate) :
    ∀ {s : Sys}, AllDb W (Chan.StampStep T d0) s →
      AllDb W (Chan.StampStep T d0) (s.pruneNameplates app now l).1 := by
  induction l with
  | nil => intro s a; exact a
  | cons np rest ih =>
    intro s a
    unfold Sys.pruneNameplates
    simp only []
    have h0 : AllDb W (Chan.StampStep T d0) (s.modDb (fun d => (d.delNpSidesOf np.id).delNameplate np.id)) :=
      a.stampSame rfl
    split
    · have h1 := h0.storeNameplateUsage (app := app) (sides := s.db.npSidesOf np.id) (t := now) (p := true)
      split <;> rename_i heq <;> rw [heq] at h1
      · exact h1
      · exact ih h1
    · exact ih h0

theorem AllDb.sPruneMailboxes {app now} (l : List MailboxRow) :
    ∀ {s : Sys}, AllDb W (Chan.StampStep T d0) s →
      AllDb W (Chan.StampStep T d0) (s.pruneMailboxes app now l) := by
  induction l with
  | nil => intro s a; exact a
  | cons row rest ih =>
    intro s a
    unfold Sys.pruneMailboxes
    simp only []
    have h0 : AllDb W (Chan.StampStep T d0)
        (s.modDb (fun d => ((d.delMessagesOf row.id).delMbSidesOf row.id).delMailbox row.id)) :=
      a.stamp (Chan.StampStep.delMb T _ _)
    split
    · exact ih h0.storeMailboxUsage
    · exact ih h0

theorem AllDb.sPrune (a : AllDb W (Chan.StampStep T d0) s) {app old} :
    AllDb W (Chan.StampStep T d0) (s.prune app T old).1 := by
  rw [prune_eq]
  dsimp only
  unfold pruneRest
  have a1 : AllDb W (Chan.StampStep T d0) (s.touchListened app T).commit := a.sTouchListened.commit
  generalize (((s.touchListened app T).commit.db.mailboxesOfApp app).filter
    (fun r => ¬ r.updated > old)) = oldMb
  generalize (((s.touchListened app T).commit.db.nameplatesOfApp app).filter
    (fun r => r.mailbox ∈ oldMb.map (·.id))) = oldNp
  have a2 := AllDb.sPruneNameplates (app := app) (now := T) oldNp a1
  split <;> rename_i s2 heq <;> rw [heq] at a2
  · exact a2
  · dsimp only at a2 ⊢
    have a3 := AllDb.sPruneMailboxes (app := app) (now := T) oldMb a2
    split
    · split
      · exact a3.commit.ucommit
      · exact a3.commit
    · exact a3

theorem AllDb.sPruneApps {old} (l : List String) :
    ∀ {s : Sys}, AllDb W (Chan.StampStep T d0) s → AllDb W (Chan.StampStep T d0) (s.pruneApps T old l).1 := by
  induction l with
  | nil => intro s a; exact a
  | cons app rest ih =>
    intro s a
    unfold Sys.pruneApps
    have a1 := a.sPrune (app := app) (old := old)
    split <;> rename_i s1 heq <;> rw [heq] at a1
    · exact a1
    · exact ih a1

theorem AllDb.sExpire (a : AllDb W (Chan.StampStep T d0) s) {fault} :
    AllDb W (Chan.StampStep T d0) (s.expire T fault) := by
  unfold Sys.expire
  simp only []
  apply AllDb.dumpStats
  split
  · exact a.emit.emit
  · have h1 := AllDb.sPruneApps (old := T - Generated.expirationTicks)
      ((s.emit (.fired T (T - Generated.expirationTicks))).allApps)
      (s := s.emit (.fired T (T - Generated.expirationTicks))) a.emit
    split <;> rename_i heq <;> rw [heq] at h1
    · exact h1
    · exact h1.emit

/-! ### the handlers -/

variable {x : Conn}

theorem AllDb.sHandlePing (a : AllDb W (Chan.StampStep T d0) s) {c v} :
    AllDb W (Chan.StampStep T d0) (s.handlePing c v) := by
  unfold Sys.handlePing
  split
  · exact a.sendError
  · exact a.send

theorem AllDb.sHandleBind (a : AllDb W (Chan.StampStep T d0) s) {t app side impl version} :
    AllDb W (Chan.StampStep T d0) (s.handleBind x t app side impl version) := by
  unfold Sys.handleBind
  split
  · exact a.sendError
  · split
    · exact a.sendError
    · split
      · exact a.sendError
      · exact a.updConn.logClientVersion

theorem AllDb.sHandleAllocate (a : AllDb W (Chan.StampStep T d0) s) {app side pick draws fresh} :
    AllDb W (Chan.StampStep T d0) (s.handleAllocate x app side T pick draws fresh) := by
  unfold Sys.handleAllocate
  split
  · exact a.sendError
  · split
    · exact a.internalErr
    · rename_i name _
      have h := a.sClaimNameplate (app := app) (name := name) (side := side) (fresh := fresh)
      split <;> rename_i heq <;> rw [heq] at h
      · exact h.updConn.send
      · exact h.internalErr
      · exact h.internalErr
      · exact h.internalErr

theorem AllDb.sHandleClaim (a : AllDb W (Chan.StampStep T d0) s) {app side nameplate fresh} :
    AllDb W (Chan.StampStep T d0) (s.handleClaim x app side T nameplate fresh) := by
  unfold Sys.handleClaim
  split
  · exact a.sendError
  · rename_i name
    split
    · exact a.sendError
    · have h := (a.updConn (c := x.id)
        (f := fun y => { y with didClaim := true, nameplateId := some name })).sClaimNameplate
        (app := app) (name := name) (side := side) (fresh := fresh)
      simp only []
      split <;> rename_i heq <;> rw [heq] at h
      · exact h.send
      · exact h.sendError
      · exact h.sendError
      · exact h.internalErr

theorem AllDb.sHandleRelease (a : AllDb W (Chan.StampStep T d0) s) {app side t n} :
    AllDb W (Chan.StampStep T d0) (s.handleRelease x app side t n) := by
  have hgo : ∀ name, AllDb W (Chan.StampStep T d0)
      (match (s.updConn x.id (fun y => { y with didRelease := true })).releaseNameplate app name side t with
        | (s1, true) => s1.send x.id .released
        | (s1, false) => s1.internalErr x.id "IndexError") := by
    intro name
    have h := (a.updConn (c := x.id) (f := fun y => { y with didRelease := true })).sReleaseNameplate
      (app := app) (name := name) (side := side) (t := t)
    split <;> rename_i heq <;> rw [heq] at h
    · exact h.send
    · exact h.internalErr
  unfold Sys.handleRelease
  split
  · exact a.sendError
  · simp only []
    split
    · split
      · exact a.sendError
      · exact hgo _
    · exact hgo _
    · exact hgo _
    · exact a.sendError

theorem AllDb.sReplay (a : AllDb W (Chan.StampStep T d0) s) {c app mb} :
    AllDb W (Chan.StampStep T d0) (s.replay c app mb) := by
  unfold Sys.replay
  exact AllDb.foldl_send (fun _ => c) (fun (m : Message) => .message m.side m.phase m.body m.rx m.msgId) _ a

theorem AllDb.sHandleOpen (a : AllDb W (Chan.StampStep T d0) s) {app side mailbox} :
    AllDb W (Chan.StampStep T d0) (s.handleOpen x app side T mailbox) := by
  unfold Sys.handleOpen
  split
  · exact a.sendError
  · split
    · exact a.sendError
    · rename_i mb
      have h := (a.updConn (c := x.id) (f := fun y => { y with mailboxId := some mb })).sOpenMailbox
        (app := app) (mb := mb) (side := side)
      simp only []
      split <;> rename_i heq <;> rw [heq] at h
      · exact h.sendError
      · exact h.internalErr
      · exact h.updConn.sReplay

theorem AllDb.sHandleAdd (a : AllDb W (Chan.StampStep T d0) s) {app side id ph bd} :
    AllDb W (Chan.StampStep T d0) (s.handleAdd x app side T id ph bd) := by
  unfold Sys.handleAdd
  split
  · exact a.sendError
  · split
    · exact a.sendError
    · split
      · exact a.sendError
      · unfold Sys.broadcast
        exact AllDb.foldl_send (fun c => c) (fun _ => _) _ a.sAddMessage

theorem AllDb.sHandleClose (a : AllDb W (Chan.StampStep T d0) s) {app side m mood} :
    AllDb W (Chan.StampStep T d0) (s.handleClose x app side T m mood) := by
  have hgo : ∀ mb, AllDb W (Chan.StampStep T d0)
      (match (match x.mailbox with
          | some h => (s, OpenRes.ok, h)
          | none =>
            match s.openMailbox app mb side T with
            | (s1, r) =>
              (s1.updConn x.id (fun y => if r = .ok then { y with mailbox := some mb } else y), r, mb)
          : Sys × OpenRes × String) with
      | (s1, .crowded, _) => s1.sendError x.id "crowded"
      | (s1, .integrity, _) => s1.internalErr x.id "IntegrityError"
      | (s1, .ok, h) =>
        match (s1.updConn x.id (fun y => { y with listening := false, didClose := true })).mailboxClose
            app h side mood T with
        | (s3, false) => s3.internalErr x.id "IndexError"
        | (s3, true) => (s3.updConn x.id (fun y => { y with mailbox := none })).send x.id .closed) := by
    intro mb
    have hop : ∀ s1 r h, (match x.mailbox with
          | some h => (s, OpenRes.ok, h)
          | none =>
            match s.openMailbox app mb side T with
            | (s1, r) =>
              (s1.updConn x.id (fun y => if r = .ok then { y with mailbox := some mb } else y), r, mb)
          : Sys × OpenRes × String) = (s1, r, h) → AllDb W (Chan.StampStep T d0) s1 := by
      intro s1 r h heq
      split at heq
      · cases heq; exact a
      · split at heq
        rename_i s1' r' hom
        cases heq
        have := a.sOpenMailbox (app := app) (mb := mb) (side := side)
        rw [hom] at this
        exact this.updConn
    split <;> rename_i heq <;> have h := hop _ _ _ heq
    · exact h.sendError
    · exact h.internalErr
    · rename_i _ s1 hh
      have hc := (h.updConn (c := x.id) (f := fun y => { y with listening := false, didClose := true })).sMailboxClose
        (mb := hh) (app := app) (side := side) (mood := mood) (t := T)
      split <;> rename_i heq2 <;> rw [heq2] at hc
      · exact hc.internalErr
      · exact hc.updConn.send
  unfold Sys.handleClose
  split
  · exact a.sendError
  · simp only []
    split
    · split
      · exact a.sendError
      · exact hgo _
    · exact hgo _
    · exact hgo _
    · exact a.sendError

theorem AllDb.sOnMessage (a : AllDb W (Chan.StampStep T d0) s) {c : Nat} {id : Val} {cmd : Cmd} :
    AllDb W (Chan.StampStep T d0) (s.onMessage c T id cmd) := by
  unfold Sys.onMessage
  split
  · exact a
  · rename_i x hx
    split
    · exact a.sendError
    · simp only []
      split
      · exact a.send.sHandlePing
      · exact a.send.sHandleBind
      · split
        · exact a.send.sendError
        · split
          · exact a.send.send
          · exact a.send.sHandleAllocate
          · exact a.send.sHandleClaim
          · exact a.send.sHandleRelease
          · exact a.send.sHandleOpen
          · exact a.send.sHandleAdd
          · exact a.send.sHandleClose
          · exact a.send.sendError

end stamp

/-! ### every operation -/

/-- the state an operation starts from, when nothing is uncommitted -/
theorem AllDb.sStart {T : Time} {s : Sys} (hs : s.db = s.disk) :
    AllDb True (Chan.StampStep T s.db) ({ s with out := [], snaps := [] } : Sys) :=
  ⟨Chan.StampStep.refl _ _, fun _ => ⟨by
    show Chan.StampStep T s.db s.disk
    rw [← hs]; exact Chan.StampStep.refl _ _, by simp⟩⟩

/-- every plain operation that runs at time `T` (operations that carry no time write no stamp) -/
theorem stepPlain_stamp {T : Time} {s : Sys} (hs : s.db = s.disk) (op : Op)
    (hT : ∀ t, op.time? = some t → t = T) :
    AllDb True (Chan.StampStep T s.db) (({ s with out := [], snaps := [] } : Sys).stepPlain op) := by
  have a0 : AllDb True (Chan.StampStep T s.db) ({ s with out := [], snaps := [] } : Sys) := AllDb.sStart hs
  cases op with
  | connect c => exact ⟨a0.db, a0.rest⟩
  | drop c => exact ⟨a0.db, a0.rest⟩
  | restart t => exact ⟨(a0.rest trivial).1, fun w => ⟨(a0.rest w).1, by simp [Sys.stepPlain, Sys.restart]⟩⟩
  | crashIn k op' => exact a0
  | sweep now fault =>
    have : now = T := hT now rfl
    subst this
    exact a0.sExpire
  | recv c t id cmd =>
    have : t = T := hT t rfl
    subst this
    exact a0.sOnMessage

/-- the database a step leaves is the live database of the executed (plain) operation, its committed
    database, one of its crash points, or the committed database it started from -/
theorem step_db_cases' (s : Sys) (op : Op) :
    ∃ op', (op = op' ∨ ∃ k, op = .crashIn k op') ∧
      ((s.step op).db = (({ s with out := [], snaps := [] } : Sys).stepPlain op').db ∨
       (s.step op).db = (({ s with out := [], snaps := [] } : Sys).stepPlain op').disk ∨
       (∃ p ∈ (({ s with out := [], snaps := [] } : Sys).stepPlain op').snaps, (s.step op).db = p.1) ∨
       (s.step op).db = s.disk) := by
  cases op with
  | crashIn k op' =>
    refine ⟨op', .inr ⟨k, rfl⟩, ?_⟩
    simp only [Sys.step]
    cases k with
    | zero => exact .inr (.inr (.inr rfl))
    | succ k =>
      cases h : (({ s with out := [], snaps := [] } : Sys).stepPlain op').snaps[k + 1 - 1]? with
      | none => exact .inr (.inl (by simp [Sys.crashTo]))
      | some p =>
        refine .inr (.inr (.inl ⟨p, List.mem_of_getElem? h, ?_⟩))
        simp [Sys.crashTo]
  | connect c => exact ⟨_, .inl rfl, .inl rfl⟩
  | recv c t id cmd => exact ⟨_, .inl rfl, .inl rfl⟩
  | drop c => exact ⟨_, .inl rfl, .inl rfl⟩
  | sweep now f => exact ⟨_, .inl rfl, .inl rfl⟩
  | restart t => exact ⟨_, .inl rfl, .inl rfl⟩

/-- **every step, crashes included**: from a state with nothing uncommitted, an operation that runs
    at time `T` leaves only mailbox rows that were there before (unchanged) or that are stamped `T` -/
theorem step_stampStep {T : Time} {s : Sys} (hs : s.db = s.disk) (op : Op)
    (hT : ∀ t, op.time? = some t → t = T) : Chan.StampStep T s.db (s.step op).db := by
  obtain ⟨op', hop, hc⟩ := step_db_cases' s op
  have hT' : ∀ t, op'.time? = some t → t = T := by
    rcases hop with rfl | ⟨k, rfl⟩
    · exact hT
    · exact hT
  have a := stepPlain_stamp (T := T) hs op' hT'
  rcases hc with h | h | ⟨p, hp, h⟩ | h
  · rw [h]; exact a.db
  · rw [h]; exact (a.rest trivial).1
  · rw [h]; exact (a.rest trivial).2 p hp
  · rw [h, ← hs]; exact Chan.StampStep.refl _ _

end Sys
end Wormhole
