/-
  The registry invariant `RSys.RegInv` and the lemmas about dict / heap look-ups.

  `RegInv r` (every clause is about the registry and the connection records only, never about
  the databases):
   * dicts have unique keys, heaps have unique oids below `nextOid`;
   * `_apps[a]` is a namespace object of app `a`; `ns._mailboxes[m]` is a Mailbox object created by
     `ns` for `(ns.app, m)`; a namespace that has any Mailbox object is registered (`nsReg`);
   * a connection's held object exists and belongs to the connection's app (`heldObj`); if the
     connection is LISTENING the object is the registered one (`heldReg`); it is in the object's
     listener dict iff it is listening (`listenIff`);
   * every listener of every object is a live connection holding that object (`lisConn`).
  Consequences (below): at most one registered object per (app, mailbox id)
  (`Registered.unique`); an unregistered object has no listeners (`RegInv.unregistered_no_listeners`).
  A connection that holds WITHOUT listening exists only inside `handle_close`; with the `Sys`-side
  fact "handle ⇒ listening" (`ConnInv.handle`, part of `GInv`) `heldReg` covers every holder
  (`RegInv.held_registered`).
-/
import Wormhole.Inv.RegFrame

namespace Wormhole

theorem pw_eq {α β : Type} {f : α → β} {l : List α}
    (h : l.Pairwise (fun a b => ¬ f a = f b)) {a b : α} (ha : a ∈ l) (hb : b ∈ l)
    (hab : f a = f b) : a = b := by
  induction l with
  | nil => simp at ha
  | cons x xs ih =>
    simp only [List.pairwise_cons] at h
    simp only [List.mem_cons] at ha hb
    grind

theorem find?_pw {α β : Type} [DecidableEq β] {f : α → β} {l : List α}
    (h : l.Pairwise (fun a b => ¬ f a = f b)) {a : α} (ha : a ∈ l) :
    l.find? (fun x => f x = f a) = some a := by
  induction l with
  | nil => simp at ha
  | cons x xs ih =>
    simp only [List.pairwise_cons] at h
    simp only [List.mem_cons] at ha
    simp only [List.find?_cons]
    by_cases e : f x = f a
    · have : a = x := by
        rcases ha with rfl | ha
        · rfl
        · exact absurd e (h.1 a ha)
      simp [this]
    · have : a ∈ xs := by
        rcases ha with rfl | ha
        · exact absurd rfl e
        · exact ha
      simp only [e, decide_false]
      exact ih h.2 this

theorem alookup_eq_some {l : List (String × Nat)} (hk : l.Pairwise (fun a b => ¬ a.1 = b.1)) {k : String} {v : Nat} :
    alookup l k = some v ↔ (k, v) ∈ l := by
  constructor
  · intro h
    unfold alookup at h
    simp only [Option.map_eq_some_iff] at h
    obtain ⟨p, hp, rfl⟩ := h
    have h1 := List.mem_of_find?_eq_some hp
    have h2 := List.find?_some hp
    simp only [decide_eq_true_eq] at h2
    subst h2
    exact h1
  · intro h
    have := find?_pw (f := fun p : String × Nat => p.1) hk h
    unfold alookup
    simp only at this
    rw [this]
    rfl

theorem alookup_eq_none {l : List (String × Nat)} {k : String} :
    alookup l k = none ↔ ∀ p ∈ l, ¬ p.1 = k := by
  unfold alookup
  simp [List.find?_eq_none]

/-- `_mailbox_id` of the Mailbox object `o`, if it is in the heap -/
def mbIdOf (mbs : List MbObj) (o : Nat) : Option String := (mbs.find? (fun k => k.oid = o)).map (·.mailboxId)

namespace RSys

theorem absConn_mailbox (mbs : List MbObj) (x : RConn) :
    (absConn mbs x).mailbox = x.mailbox.bind (mbIdOf mbs) := rfl

theorem abs_eq (r : RSys) : r.abs = r.core.setConns (r.conns.map (absConn r.mbs)) := rfl

/-- `server._apps[app]._mailboxes[mb]` is the object `o` -/
def Registered (r : RSys) (app mb : String) (o : Nat) : Prop :=
  ∃ ns ∈ r.nss, (app, ns.oid) ∈ r.apps ∧ (mb, o) ∈ ns.boxes

structure RegInv (r : RSys) : Prop where
  connIds : r.conns.Pairwise (fun a b => ¬ a.id = b.id)
  appsKey : r.apps.Pairwise (fun a b => ¬ a.1 = b.1)
  nsOids : r.nss.Pairwise (fun a b => ¬ a.oid = b.oid)
  mbOids : r.mbs.Pairwise (fun a b => ¬ a.oid = b.oid)
  nsBound : ∀ ns ∈ r.nss, ns.oid < r.nextOid
  mbBound : ∀ k ∈ r.mbs, k.oid < r.nextOid
  /-- `_apps[a]` is a namespace object of app `a` -/
  appsNs : ∀ p ∈ r.apps, ∃ ns ∈ r.nss, ns.oid = p.2 ∧ ns.app = p.1
  boxesKey : ∀ ns ∈ r.nss, ns.boxes.Pairwise (fun a b => ¬ a.1 = b.1)
  /-- `ns._mailboxes[m]` is a Mailbox object made by `ns` for `(ns.app, m)` -/
  boxesMb : ∀ ns ∈ r.nss, ∀ p ∈ ns.boxes,
    ∃ k ∈ r.mbs, k.oid = p.2 ∧ k.nsOid = ns.oid ∧ k.app = ns.app ∧ k.mailboxId = p.1
  /-- a namespace that has any Mailbox object is registered -/
  nsReg : ∀ ns ∈ r.nss, ns.boxes ≠ [] → (ns.app, ns.oid) ∈ r.apps
  /-- a Mailbox object's namespace exists -/
  mbNs : ∀ k ∈ r.mbs, ∃ ns ∈ r.nss, ns.oid = k.nsOid ∧ ns.app = k.app
  /-- a held object exists and belongs to the connection's app -/
  heldObj : ∀ x ∈ r.conns, ∀ o, x.mailbox = some o → ∃ k ∈ r.mbs, k.oid = o ∧ x.app = some k.app
  /-- a listening connection holds the registered object -/
  heldReg : ∀ x ∈ r.conns, ∀ k ∈ r.mbs, x.mailbox = some k.oid → x.listening = true →
    r.Registered k.app k.mailboxId k.oid
  /-- in the listener dict iff listening -/
  listenIff : ∀ x ∈ r.conns, ∀ k ∈ r.mbs, x.mailbox = some k.oid → (x.id ∈ k.listeners ↔ x.listening = true)
  /-- every listener is a live connection holding the object -/
  lisConn : ∀ k ∈ r.mbs, ∀ c ∈ k.listeners, ∃ x ∈ r.conns, x.id = c ∧ x.mailbox = some k.oid
  lisNodup : ∀ k ∈ r.mbs, k.listeners.Pairwise (fun a b => ¬ a = b)

/-- "a connection that holds a Mailbox is subscribed to it" (`ConnInv.handle`, from `GInv`) -/
def HoldsListen (r : RSys) : Prop := ∀ x ∈ r.conns, x.mailbox.isSome → x.listening = true

section lookups
variable {r : RSys}

theorem findNs_eq_some (h : r.RegInv) {n : Nat} {ns : Ns} : r.findNs n = some ns ↔ ns ∈ r.nss ∧ ns.oid = n := by
  constructor
  · intro e
    exact ⟨List.mem_of_find?_eq_some e, by simpa using List.find?_some e⟩
  · rintro ⟨hm, rfl⟩
    exact find?_pw (f := Ns.oid) h.nsOids hm

theorem findMb_eq_some (h : r.RegInv) {o : Nat} {k : MbObj} : r.findMb o = some k ↔ k ∈ r.mbs ∧ k.oid = o := by
  constructor
  · intro e
    exact ⟨List.mem_of_find?_eq_some e, by simpa using List.find?_some e⟩
  · rintro ⟨hm, rfl⟩
    exact find?_pw (f := MbObj.oid) h.mbOids hm

theorem mbIdOf_eq (h : r.RegInv) {k : MbObj} (hk : k ∈ r.mbs) : mbIdOf r.mbs k.oid = some k.mailboxId := by
  have := (findMb_eq_some h).2 ⟨hk, rfl⟩
  unfold findMb at this
  simp [mbIdOf, this]

theorem findConn_eq_some (h : r.RegInv) {c : Nat} {x : RConn} : r.findConn c = some x ↔ x ∈ r.conns ∧ x.id = c := by
  constructor
  · intro e
    exact ⟨List.mem_of_find?_eq_some e, by simpa using List.find?_some e⟩
  · rintro ⟨hm, rfl⟩
    exact find?_pw (f := RConn.id) h.connIds hm

/-- at most one registered Mailbox object per (app, mailbox id) -/
theorem Registered.unique (h : r.RegInv) {app mb : String} {o o' : Nat} (h1 : r.Registered app mb o)
    (h2 : r.Registered app mb o') : o = o' := by
  obtain ⟨ns, hns, ha, hb⟩ := h1
  obtain ⟨ns', hns', ha', hb'⟩ := h2
  have e1 := pw_eq (f := fun p : String × Nat => p.1) h.appsKey ha ha' rfl
  simp only [Prod.mk.injEq, true_and] at e1
  have e2 : ns = ns' := pw_eq (f := Ns.oid) h.nsOids hns hns' e1
  subst e2
  have e3 := pw_eq (f := fun p : String × Nat => p.1) (h.boxesKey ns hns) hb hb' rfl
  simpa using e3

/-- the object in a dict slot, as a heap member -/
theorem Registered.obj (h : r.RegInv) {app mb : String} {o : Nat} (h1 : r.Registered app mb o) :
    ∃ k ∈ r.mbs, k.oid = o ∧ k.app = app ∧ k.mailboxId = mb := by
  obtain ⟨ns, hns, ha, hb⟩ := h1
  obtain ⟨k, hk, e1, _, e3, e4⟩ := h.boxesMb ns hns _ hb
  obtain ⟨ns', hns', e5, e6⟩ := h.appsNs _ ha
  have : ns' = ns := pw_eq (f := Ns.oid) h.nsOids hns' hns e5
  subst this
  exact ⟨k, hk, e1, by rw [e3]; exact e6, e4⟩

/-- the held object of a connection, as a heap member -/
theorem RegInv.heldMem (h : r.RegInv) {x : RConn} (hx : x ∈ r.conns) {k : MbObj} (hk : k ∈ r.mbs)
    (hm : x.mailbox = some k.oid) : x.app = some k.app := by
  obtain ⟨k', hk', e, ha⟩ := h.heldObj x hx _ hm
  have : k' = k := pw_eq (f := MbObj.oid) h.mbOids hk' hk e
  subst this
  exact ha

/-- an object with a listener is registered; hence unregistered objects have no listeners -/
theorem RegInv.listened_registered (h : r.RegInv) {k : MbObj} (hk : k ∈ r.mbs) {c : Nat} (hc : c ∈ k.listeners) :
    r.Registered k.app k.mailboxId k.oid := by
  obtain ⟨x, hx, e, hm⟩ := h.lisConn k hk c hc
  exact h.heldReg x hx k hk hm ((h.listenIff x hx k hk hm).1 (by rw [e]; exact hc))

theorem RegInv.unregistered_no_listeners (h : r.RegInv) {k : MbObj} (hk : k ∈ r.mbs)
    (hu : ¬ r.Registered k.app k.mailboxId k.oid) : k.listeners = [] := by
  cases hl : k.listeners with
  | nil => rfl
  | cons c _ => exact absurd (h.listened_registered hk (c := c) (by simp [hl])) hu

/-- with "handle ⇒ listening", every held object is THE registered object of (the connection's app,
    its mailbox id) -/
theorem RegInv.held_registered (h : r.RegInv) (hl : r.HoldsListen) {x : RConn} (hx : x ∈ r.conns) {o : Nat}
    (hm : x.mailbox = some o) :
    ∃ k ∈ r.mbs, k.oid = o ∧ x.app = some k.app ∧ r.Registered k.app k.mailboxId o ∧ x.id ∈ k.listeners := by
  obtain ⟨k, hk, rfl, ha⟩ := h.heldObj x hx o hm
  have hL := hl x hx (by simp [hm])
  exact ⟨k, hk, rfl, ha, h.heldReg x hx k hk hm hL, (h.listenIff x hx k hk hm).2 hL⟩

/-- unregistered objects are held by nobody (under "handle ⇒ listening") -/
theorem RegInv.unregistered_not_held (h : r.RegInv) (hl : r.HoldsListen) {k : MbObj} (hk : k ∈ r.mbs)
    (hu : ¬ r.Registered k.app k.mailboxId k.oid) : ∀ x ∈ r.conns, ¬ x.mailbox = some k.oid := by
  intro x hx hm
  obtain ⟨k', hk', e, _, hr, _⟩ := h.held_registered hl hx hm
  have : k' = k := pw_eq (f := MbObj.oid) h.mbOids hk' hk e
  subst this
  exact hu hr

end lookups

end RSys
end Wormhole
