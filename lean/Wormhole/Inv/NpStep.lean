/-
  What ONE OPERATION (crashes included) can do to the nameplate tables.

  * `NpLbl`: the "kind" of an operation as far as nameplates are concerned, computed from the
    operation and the receiving connection's record (`Sys.npLbl`);
  * `Chan.NpRel lbl d0 d`: the databases `d` that an operation of kind `lbl` may commit (or end
    in) when started on `d0`, given as explicit shapes of the three nameplate components
    `(nameplates, nameplate_sides, AUTOINCREMENT counter)`;
  * `Sys.Np.step_rel`: every step from a synced state with `CInv` ends in a database related to
    the initial one by `NpRel (npLbl op)` -- INCLUDING `crashIn k op`, whose final database is
    one of the commit points of `op` (tracked by `DbAll`, Inv/NpSpec.lean).

  Props/C03.lean and Props/C07.lean derive their statements from `NpRel` by list reasoning.
-/
import Wormhole.Inv.NpSpec
import Wormhole.Reach

namespace Wormhole

/-- the kind of an operation, as far as the nameplate tables are concerned -/
inductive NpLbl where
  /-- touches no nameplate table -/
  | quiet
  /-- `claim_nameplate(n, σ, t)` in app `a`, with `fresh` from `generate_mailbox_id()` -/
  | claim (a n σ fresh : String) (t : Time)
  /-- `release_nameplate(n, σ)` in app `a` -/
  | release (a n σ : String)
  /-- `Mailbox.close` on mailbox `h` of app `a` -/
  | close (a h : String)
  /-- the expiry sweep -/
  | sweep
  deriving DecidableEq, Repr

namespace Chan

/-- what a sweep may do: delete nameplate rows together with all their side rows, and only
    nameplates whose mailbox is deleted too; nothing is added, no row is altered -/
structure NpSweep (d0 d : Chan) : Prop where
  nextNp : d.nextNp = d0.nextNp
  npSub : ∀ n ∈ d.nameplates, n ∈ d0.nameplates
  nsSub : ∀ r ∈ d.npSides, r ∈ d0.npSides
  nsKeep : ∀ r ∈ d0.npSides, (∃ n ∈ d.nameplates, n.id = r.npid) → r ∈ d.npSides
  mbSub : ∀ m ∈ d.mailboxes, ∃ m0 ∈ d0.mailboxes, m0.id = m.id
  gone : ∀ n ∈ d0.nameplates, n ∉ d.nameplates → ∀ m ∈ d.mailboxes, m.id ≠ n.mailbox

theorem NpSweep.refl (d : Chan) : NpSweep d d :=
  ⟨rfl, fun _ h => h, fun _ h => h, fun _ h _ => h, fun m h => ⟨m, h, rfl⟩, fun _ h h' => absurd h h'⟩

theorem NpSweep.trans {a b c : Chan} (h1 : NpSweep a b) (h2 : NpSweep b c) : NpSweep a c := by
  refine ⟨h2.nextNp.trans h1.nextNp, fun n h => h1.npSub n (h2.npSub n h),
    fun r h => h1.nsSub r (h2.nsSub r h), ?_, ?_, ?_⟩
  · intro r hr ⟨n, hn, e⟩
    exact h2.nsKeep r (h1.nsKeep r hr ⟨n, h2.npSub n hn, e⟩) ⟨n, hn, e⟩
  · intro m hm
    obtain ⟨m1, hm1, e1⟩ := h2.mbSub m hm
    obtain ⟨m0, hm0, e0⟩ := h1.mbSub m1 hm1
    exact ⟨m0, hm0, e0.trans e1⟩
  · intro n hn hnc m hm
    by_cases hb : n ∈ b.nameplates
    · exact h2.gone n hb hnc m hm
    · obtain ⟨m1, hm1, e1⟩ := h2.mbSub m hm
      rw [← e1]
      exact h1.gone n hn hb m1 hm1

/-- same nameplate tables, same set of mailbox ids -/
theorem NpSweep.of_same {d0 d : Chan} (h : d.npPart = d0.npPart)
    (hm : ∀ m ∈ d.mailboxes, ∃ m0 ∈ d0.mailboxes, m0.id = m.id) : NpSweep d0 d := by
  simp only [npPart, Prod.mk.injEq] at h
  obtain ⟨h1, h2, h3⟩ := h
  refine ⟨h3, ?_, ?_, ?_, hm, ?_⟩
  · rw [h1]; exact fun _ h => h
  · rw [h2]; exact fun _ h => h
  · rw [h2]; exact fun _ h _ => h
  · rw [h1]; exact fun _ h h' => absurd h h'

/-- **The commit points of an operation of kind `lbl` started on `d0`.** -/
def NpRel : NpLbl → Chan → Chan → Prop
  | .quiet, d0, d => d.npPart = d0.npPart
  | .claim a n σ fresh t, d0, d =>
      d.npPart = d0.npPart ∨
      (∃ row, d0.findNameplate a n = some row ∧ d0.findNpSide row.id σ = none ∧
        d.npPart = (d0.nameplates, d0.npSides ++ [⟨row.id, true, σ, t⟩], d0.nextNp)) ∨
      (d0.findNameplate a n = none ∧
        d.npPart = (d0.nameplates ++ [⟨d0.nextNp, a, n, fresh⟩],
                    d0.npSides ++ [⟨d0.nextNp, true, σ, t⟩], d0.nextNp + 1))
  | .release a n σ, d0, d =>
      d.npPart = d0.npPart ∨
      ∃ np r, d0.findNameplate a n = some np ∧ d0.findNpSide np.id σ = some r ∧
        (d.npPart = (d0.unclaim np.id σ).npPart ∨
         (((d0.unclaim np.id σ).npSidesOf np.id).any (·.claimed) = false ∧
           d.npPart = (((d0.unclaim np.id σ).delNpSidesOf np.id).delNameplate np.id).npPart))
  | .close a h, d0, d =>
      d.npPart = d0.npPart ∨
      (d.npPart = ((d0.delNpSidesOfMailbox a h).delNameplatesOfMailbox a h).npPart ∧
        ∀ m ∈ d.mailboxes, m.id ≠ h)
  | .sweep, d0, d => NpSweep d0 d

/-- every kind allows "nothing happened" -/
theorem NpRel.same (lbl : NpLbl) {d0 d : Chan} (h : d.npPart = d0.npPart)
    (hm : d.mailboxes = d0.mailboxes) : NpRel lbl d0 d := by
  cases lbl with
  | quiet => exact h
  | claim => exact Or.inl h
  | release => exact Or.inl h
  | close => exact Or.inl h
  | sweep => exact NpSweep.of_same h (by rw [hm]; exact fun m hm' => ⟨m, hm', rfl⟩)

theorem NpRel.refl (lbl : NpLbl) (d : Chan) : NpRel lbl d d := NpRel.same lbl rfl rfl

/-- for the kinds other than `close` and `sweep` only the nameplate tables of `d` matter -/
theorem NpRel.of_npPart {lbl : NpLbl} {d0 d d' : Chan} (hl : (∀ a h, lbl ≠ .close a h) ∧ lbl ≠ .sweep)
    (h : d'.npPart = d.npPart) (hr : NpRel lbl d0 d) : NpRel lbl d0 d' := by
  cases lbl with
  | quiet => exact h.trans hr
  | claim a n σ fresh t => simp only [NpRel] at hr ⊢; rw [h]; exact hr
  | release a n σ => simp only [NpRel] at hr ⊢; rw [h]; exact hr
  | close a h' => exact absurd rfl (hl.1 a h')
  | sweep => exact absurd rfl hl.2

end Chan

namespace Sys.Np

/-- the final database and all commit points of the current step are `NpRel lbl d0` -/
def AllRel (lbl : NpLbl) (d0 : Chan) (s : Sys) : Prop :=
  DbAll (Chan.NpRel lbl d0) s ∧ Chan.NpRel lbl d0 s.db

theorem AllRel.noCommit {lbl d0} {s s1 : Sys} (h : AllRel lbl d0 s) (hn : NoCommit s s1) (hd : s1.db = s.db) :
    AllRel lbl d0 s1 := ⟨hn.dbAll h.1, by rw [hd]; exact h.2⟩

theorem AllRel.send {lbl d0} {s : Sys} (h : AllRel lbl d0 s) (c f) : AllRel lbl d0 (s.send c f) := h
theorem AllRel.sendError {lbl d0} {s : Sys} (h : AllRel lbl d0 s) (c t) : AllRel lbl d0 (s.sendError c t) := h
theorem AllRel.internalErr {lbl d0} {s : Sys} (h : AllRel lbl d0 s) (c t) :
    AllRel lbl d0 (s.internalErr c t) := h
theorem AllRel.updConn {lbl d0} {s : Sys} (h : AllRel lbl d0 s) (c f) : AllRel lbl d0 (s.updConn c f) := h
theorem AllRel.emit {lbl d0} {s : Sys} (h : AllRel lbl d0 s) (e) : AllRel lbl d0 (s.emit e) := h

/-! ### claim -/

theorem claimNameplate_rel {s s1 : Sys} {a n σ t fresh r}
    (h : s.claimNameplate a n σ t fresh = (s1, r)) (hb : s.db.IdsBounded)
    (hA : DbAll (Chan.NpRel (.claim a n σ fresh t) s.db) s) :
    AllRel (.claim a n σ fresh t) s.db s1 := by
  have hl : (∀ a' h', NpLbl.claim a n σ fresh t ≠ .close a' h') ∧ NpLbl.claim a n σ fresh t ≠ .sweep :=
    ⟨fun _ _ => by simp, by simp⟩
  unfold claimNameplate at h
  split at h
  · rename_i hnone
    split at h
    · simp only [Prod.mk.injEq] at h
      obtain ⟨rfl, rfl⟩ := h
      exact ⟨hA, Chan.NpRel.refl _ _⟩
    · rename_i s0 e
      obtain ⟨d0, _⟩ := addMailbox_spec e
      have hnp := d0.np
      simp only [Chan.npPart, Prod.mk.injEq] at hnp
      obtain ⟨n1, n2, n3⟩ := hnp
      have hb0 : s0.db.IdsBounded := by
        unfold Chan.IdsBounded; rw [n1, n2, n3]; exact hb
      have hfresh : (s0.modDb (·.insNameplate a n fresh)).db.findNpSide s0.db.nextNp σ = none := by
        have := hb0.findNpSide_fresh σ
        simpa [Chan.findNpSide, Chan.insNameplate] using this
      dsimp only at h
      rw [claimTail_eq, hfresh] at h
      dsimp only at h
      obtain ⟨d1, _, _⟩ := claimCont_spec h
      have hmid : Chan.NpRel (.claim a n σ fresh t) s.db
          ((s0.modDb (·.insNameplate a n fresh)).modDb (·.insNpSide ⟨s0.db.nextNp, true, σ, t⟩)).db := by
        refine Or.inr (Or.inr ⟨hnone, ?_⟩)
        simp [Chan.npPart, Chan.insNpSide, Chan.insNameplate, n1, n2, n3]
      have hfin : Chan.NpRel (.claim a n σ fresh t) s.db s1.db := Chan.NpRel.of_npPart hl d1.np hmid
      refine ⟨claimCont_dbAll h ?_ hmid hfin, hfin⟩
      exact (NoCommit.modDb _ _).dbAll ((NoCommit.modDb _ _).dbAll ((addMailbox_noCommit e).dbAll hA))
  · rename_i row hrow
    rw [claimTail_eq] at h
    split at h
    · rename_i hside
      obtain ⟨d1, _, _⟩ := claimCont_spec h
      have hmid : Chan.NpRel (.claim a n σ fresh t) s.db (s.modDb (·.insNpSide ⟨row.id, true, σ, t⟩)).db :=
        Or.inr (Or.inl ⟨row, hrow, hside, rfl⟩)
      have hfin : Chan.NpRel (.claim a n σ fresh t) s.db s1.db := Chan.NpRel.of_npPart hl d1.np hmid
      exact ⟨claimCont_dbAll h ((NoCommit.modDb _ _).dbAll hA) hmid hfin, hfin⟩
    · split at h
      · obtain ⟨d1, _, _⟩ := claimCont_spec h
        have hfin : Chan.NpRel (.claim a n σ fresh t) s.db s1.db :=
          Chan.NpRel.of_npPart hl d1.np (Chan.NpRel.refl _ _)
        exact ⟨claimCont_dbAll h hA (Chan.NpRel.refl _ _) hfin, hfin⟩
      · simp only [Prod.mk.injEq] at h
        obtain ⟨rfl, rfl⟩ := h
        exact ⟨hA, Chan.NpRel.refl _ _⟩

/-! ### release -/

theorem releaseNameplate_rel {s s1 : Sys} {a n σ t b}
    (h : s.releaseNameplate a n σ t = (s1, b))
    (hA : DbAll (Chan.NpRel (.release a n σ) s.db) s) :
    AllRel (.release a n σ) s.db s1 := by
  obtain ⟨_, _, hcases⟩ := releaseNameplate_exact h
  have hfin : Chan.NpRel (.release a n σ) s.db s1.db := by
    rcases hcases with ⟨_, rfl⟩ | ⟨np, _, _, rfl⟩ | ⟨np, r0, h1, h2, h3⟩
    · exact Chan.NpRel.refl _ _
    · exact Chan.NpRel.refl _ _
    · rcases h3 with ⟨_, e, _⟩ | ⟨hany, e, _⟩
      · exact Or.inr ⟨np, r0, h1, h2, Or.inl (by rw [e])⟩
      · exact Or.inr ⟨np, r0, h1, h2, Or.inr ⟨hany, by rw [e]⟩⟩
  refine ⟨releaseNameplate_dbAll h hA ?_ hfin, hfin⟩
  intro np hnp
  cases hs : s.db.findNpSide np.id σ with
  | none =>
    -- the UPDATE matches no row
    refine Or.inl ?_
    have : s.db.unclaim np.id σ = s.db := by
      unfold Chan.unclaim
      have hmap : s.db.npSides.map (fun r => if r.npid = np.id ∧ r.side = σ then { r with claimed := false } else r)
          = s.db.npSides := by
        conv => rhs; rw [← List.map_id s.db.npSides]
        apply List.map_congr_left
        intro r hr
        simp only [Chan.findNpSide, List.find?_eq_none, decide_eq_true_eq] at hs
        simp [hs r hr]
      rw [hmap]
    rw [this]
  | some r0 => exact Or.inr ⟨np, r0, hnp, hs, Or.inl rfl⟩


/-! ### open, add: no nameplate table is touched -/

theorem _root_.Wormhole.Chan.NpRel.of_same_np {lbl : NpLbl} (hl : lbl ≠ .sweep) {d0 d : Chan}
    (h : d.npPart = d0.npPart) : Chan.NpRel lbl d0 d := by
  cases lbl with
  | quiet => exact h
  | claim => exact Or.inl h
  | release => exact Or.inl h
  | close => exact Or.inl h
  | sweep => exact absurd rfl hl

theorem openMailbox_allRel {lbl : NpLbl} (hl : lbl ≠ .sweep) {d0 : Chan} {s s1 : Sys} {app mb side t r}
    (h : s.openMailbox app mb side t = (s1, r)) (hnp : s.db.npPart = d0.npPart)
    (hA : DbAll (Chan.NpRel lbl d0) s) : AllRel lbl d0 s1 ∧ s1.db.npPart = d0.npPart := by
  obtain ⟨d, _, _⟩ := openMailbox_spec h
  have hnp1 : s1.db.npPart = d0.npPart := d.np.trans hnp
  have hfin := Chan.NpRel.of_same_np hl hnp1
  exact ⟨⟨openMailbox_dbAll h hA hfin, hfin⟩, hnp1⟩

theorem addMessage_allRel {lbl : NpLbl} (hl : lbl ≠ .sweep) {d0 : Chan} (s : Sys) (app mb side ph bd t id)
    (hnp : s.db.npPart = d0.npPart) (hA : DbAll (Chan.NpRel lbl d0) s) :
    AllRel lbl d0 (s.addMessage app mb side ph bd t id) := by
  have d := addMessage_donly s app mb side ph bd t id
  have hfin := Chan.NpRel.of_same_np hl (d.np.trans hnp)
  exact ⟨addMessage_dbAll _ _ _ _ _ _ _ _ hA hfin, hfin⟩

/-! ### close -/

/-- the final database of `Mailbox.close` -/
theorem mailboxClose_db {s s1 : Sys} {app mb side mood t b}
    (h : s.mailboxClose app mb side mood t = (s1, b)) :
    s1.db.npPart = s.db.npPart ∨
    s1.db = (((((s.db.closeSide mb side mood).delNpSidesOfMailbox app mb).delNameplatesOfMailbox app mb).delMessagesOf
      mb).delMbSidesOf mb).delMailbox mb := by
  unfold mailboxClose at h
  split at h
  · simp only [Prod.mk.injEq] at h
    obtain ⟨rfl, rfl⟩ := h
    exact Or.inl rfl
  · split at h
    · simp only [Prod.mk.injEq] at h
      obtain ⟨rfl, rfl⟩ := h
      exact Or.inl rfl
    · dsimp only at h
      split at h
      · simp only [Prod.mk.injEq] at h
        obtain ⟨rfl, rfl⟩ := h
        exact Or.inl (by simp)
      · generalize hE : (if ((s.modDb _).commit).cfg.usage then _ else _) = p at h
        obtain ⟨s2, ok⟩ := p
        obtain ⟨u, _, _⟩ := closeStore_spec hE
        have u1 := u.db
        simp only [commit_db, modDb_db] at u1
        dsimp only at h
        split at h
        · simp only [Prod.mk.injEq] at h
          obtain ⟨rfl, rfl⟩ := h
          exact Or.inl (by rw [u1]; rfl)
        · simp only [Prod.mk.injEq] at h
          obtain ⟨rfl, rfl⟩ := h
          refine Or.inr ?_
          rw [stopListeners_db, commit_db]
          split <;> simp [u1, storeMailboxUsage]

theorem mailboxClose_rel {d0 : Chan} {s s1 : Sys} {a hd side mood t b}
    (h : s.mailboxClose a hd side mood t = (s1, b)) (hnp : s.db.npPart = d0.npPart)
    (hA : DbAll (Chan.NpRel (.close a hd) d0) s) : AllRel (.close a hd) d0 s1 := by
  have hfin : Chan.NpRel (.close a hd) d0 s1.db := by
    rcases mailboxClose_db h with e | e
    · exact Or.inl (e.trans hnp)
    · refine Or.inr ⟨?_, ?_⟩
      · simp only [Chan.npPart, Prod.mk.injEq] at hnp
        obtain ⟨h1, h2, h3⟩ := hnp
        rw [e]
        simp [Chan.npPart, Chan.delMailbox, Chan.delMbSidesOf, Chan.delMessagesOf, Chan.delNameplatesOfMailbox,
          Chan.delNpSidesOfMailbox, Chan.nameplatesOfMailbox, Chan.closeSide, h1, h2, h3]
      · intro m hm
        rw [e] at hm
        simp only [Chan.delMailbox, List.mem_filter, decide_eq_true_eq] at hm
        exact hm.2
  refine ⟨mailboxClose_dbAll h hA (Or.inl ?_) hfin, hfin⟩
  exact hnp


/-! ### the sweep -/

end Sys.Np

/-- the DELETE loop over `old_nameplates` -/
def Chan.npDrop (d : Chan) (ids : List Nat) : Chan :=
  { d with nameplates := d.nameplates.filter (fun n => ¬ n.id ∈ ids),
           npSides := d.npSides.filter (fun r => ¬ r.npid ∈ ids) }

theorem Chan.npDrop_nil (d : Chan) : d.npDrop [] = d := by
  cases d; simp [Chan.npDrop]

theorem Chan.npDrop_cons (d : Chan) (i : Nat) (ids : List Nat) :
    ((d.delNpSidesOf i).delNameplate i).npDrop ids = d.npDrop (i :: ids) := by
  simp only [Chan.npDrop, Chan.delNameplate, Chan.delNpSidesOf, List.filter_filter, List.mem_cons, not_or]
  congr 1
  · apply List.filter_congr; intro n _; simp [Bool.and_comm]
  · apply List.filter_congr; intro n _; simp [Bool.and_comm]

/-- one `prune(app)`: the nameplates of `oldNp` go with their side rows (`d2`), then the
    mailboxes of `oldMb` (`d3`) -/
theorem Chan.npSweep_prune {d d3 : Chan} {oldMb : List MailboxRow} {oldNp : List Nameplate}
    (hu : d.NpIdsUnique) (hNp : ∀ n ∈ oldNp, n ∈ d.nameplates ∧ n.mailbox ∈ oldMb.map (·.id))
    (h3np : d3.npPart = (d.npDrop (oldNp.map (·.id))).npPart)
    (h3mb : ∀ m ∈ d3.mailboxes, m ∈ d.mailboxes ∧ m.id ∉ oldMb.map (·.id)) : Chan.NpSweep d d3 := by
  simp only [Chan.npPart, Chan.npDrop, Prod.mk.injEq] at h3np
  obtain ⟨e1, e2, e3⟩ := h3np
  refine ⟨e3, ?_, ?_, ?_, ?_, ?_⟩
  · intro n hn; rw [e1] at hn; exact (List.mem_filter.1 hn).1
  · intro r hr; rw [e2] at hr; exact (List.mem_filter.1 hr).1
  · intro r hr ⟨n, hn, e⟩
    rw [e1] at hn
    rw [e2, List.mem_filter]
    refine ⟨hr, ?_⟩
    have := (List.mem_filter.1 hn).2
    rw [← e]; exact this
  · intro m hm; exact ⟨m, (h3mb m hm).1, rfl⟩
  · intro n hn hnot m hm e
    have hid : n.id ∈ oldNp.map (·.id) := by
      apply Classical.byContradiction
      intro hc
      apply hnot
      rw [e1, List.mem_filter]
      exact ⟨hn, by simpa using hc⟩
    obtain ⟨n', hn', e'⟩ := List.mem_map.1 hid
    have : n' = n := Chan.eq_of_pairwise_ne (f := Nameplate.id) hu (hNp n' hn').1 hn e'
    subst this
    exact (h3mb m hm).2 (e ▸ (hNp n' hn').2)

namespace Sys.Np

theorem pruneNameplates_db {app now} (l : List Nameplate) :
    ∀ {s s1 : Sys} {b}, s.pruneNameplates app now l = (s1, b) →
      NoCommit s s1 ∧ (b = true → s1.db = s.db.npDrop (l.map (·.id))) := by
  induction l with
  | nil =>
    intro s s1 b h
    simp only [pruneNameplates, Prod.mk.injEq] at h
    obtain ⟨rfl, rfl⟩ := h
    exact ⟨NoCommit.refl _, fun _ => by simp [Chan.npDrop_nil]⟩
  | cons np rest ih =>
    intro s s1 b h
    unfold pruneNameplates at h
    dsimp only at h
    split at h
    · split at h
      · rename_i s2 e
        simp only [Prod.mk.injEq] at h
        obtain ⟨rfl, rfl⟩ := h
        exact ⟨(NoCommit.modDb _ _).trans (storeNameplateUsage_noCommit e).1, fun hb => by cases hb⟩
      · rename_i s2 e
        obtain ⟨n2, hdb⟩ := storeNameplateUsage_noCommit e
        obtain ⟨n3, h3⟩ := ih h
        refine ⟨(NoCommit.modDb _ _).trans (n2.trans n3), ?_⟩
        intro hb
        rw [h3 hb, hdb]
        simp only [modDb_db, List.map_cons]
        exact Chan.npDrop_cons _ _ _
    · obtain ⟨n3, h3⟩ := ih h
      refine ⟨(NoCommit.modDb _ _).trans n3, ?_⟩
      intro hb
      rw [h3 hb]
      simp only [modDb_db, List.map_cons]
      exact Chan.npDrop_cons _ _ _

theorem pruneMailboxes_db {app now} (l : List MailboxRow) :
    ∀ (s : Sys), NoCommit s (s.pruneMailboxes app now l) ∧
      ∀ m ∈ (s.pruneMailboxes app now l).db.mailboxes, m ∈ s.db.mailboxes ∧ m.id ∉ l.map (·.id) := by
  induction l with
  | nil => intro s; exact ⟨NoCommit.refl _, fun m hm => ⟨hm, by simp⟩⟩
  | cons row rest ih =>
    intro s
    unfold pruneMailboxes
    dsimp only
    have key : ∀ s2 : Sys, NoCommit s s2 →
        s2.db = ((s.db.delMessagesOf row.id).delMbSidesOf row.id).delMailbox row.id →
        NoCommit s (s2.pruneMailboxes app now rest) ∧
        ∀ m ∈ (s2.pruneMailboxes app now rest).db.mailboxes, m ∈ s.db.mailboxes ∧ m.id ∉ (row :: rest).map (·.id) := by
      intro s2 hn hd
      obtain ⟨n2, h2⟩ := ih s2
      refine ⟨hn.trans n2, ?_⟩
      intro m hm
      obtain ⟨a1, a2⟩ := h2 m hm
      rw [hd] at a1
      simp only [Chan.delMailbox, Chan.delMbSidesOf, Chan.delMessagesOf, List.mem_filter, decide_eq_true_eq] at a1
      refine ⟨a1.1, ?_⟩
      simp only [List.map_cons, List.mem_cons, not_or]
      exact ⟨a1.2, a2⟩
    split
    · exact key _ ⟨rfl, rfl⟩ rfl
    · exact key _ (NoCommit.modDb _ _) rfl

/-- one `prune(app)` inside a sweep -/
theorem prune_sweep {d0 : Chan} {s s1 : Sys} {app now old b} (h : s.prune app now old = (s1, b))
    (hn : s.db.NpOk) (hA : DbAll (Chan.NpSweep d0) s) (h0 : Chan.NpSweep d0 s.db) :
    DbAll (Chan.NpSweep d0) s1 ∧ Chan.NpSweep d0 s1.db := by
  rw [prune_eq] at h
  dsimp only at h
  have hn1 : ((s.touchListened app now).commit).db.NpOk := hn.of_npPart (by simp [touchListened]; rfl)
  have h1 : Chan.NpSweep d0 ((s.touchListened app now).commit).db := by
    refine h0.trans (Chan.NpSweep.of_same (by simp [touchListened]; rfl) ?_)
    intro m hm
    simp only [commit_db, touchListened, modDb_db, List.mem_map] at hm
    obtain ⟨m0, hm0, rfl⟩ := hm
    refine ⟨m0, hm0, ?_⟩
    split <;> rfl
  have hA1 : DbAll (Chan.NpSweep d0) ((s.touchListened app now).commit) :=
    DbAll.commit ((NoCommit.touchListened s app now).dbAll hA) (by simpa using h1)
  generalize (s.touchListened app now).commit = s' at h hn1 h1 hA1
  unfold pruneRest at h
  split at h
  · rename_i s2 e
    exfalso
    have := ((pruneNameplates_spec _ e).2 hn1
      (fun n hn => (List.mem_filter.1 (List.mem_filter.1 hn).1).1)
      (List.Pairwise.filter _ (List.Pairwise.filter _ hn1.ids))).2
    simp at this
  · rename_i s2 e
    obtain ⟨n2, hdb2⟩ := pruneNameplates_db _ e
    obtain ⟨n3, hmb3⟩ := pruneMailboxes_db (app := app) (now := now)
      ((s'.db.mailboxesOfApp app).filter (fun r => ¬ r.updated > old)) s2
    obtain ⟨_, hnp3⟩ := pruneMailboxes_spec (app := app) (now := now)
      ((s'.db.mailboxesOfApp app).filter (fun r => ¬ r.updated > old)) s2
    have hsw : Chan.NpSweep s'.db (s2.pruneMailboxes app now
        ((s'.db.mailboxesOfApp app).filter (fun r => ¬ r.updated > old))).db := by
      apply Chan.npSweep_prune (oldMb := (s'.db.mailboxesOfApp app).filter (fun r => ¬ r.updated > old))
        (oldNp := (s'.db.nameplatesOfApp app).filter (fun r => r.mailbox ∈
          ((s'.db.mailboxesOfApp app).filter (fun r => ¬ r.updated > old)).map (·.id))) hn1.ids
      · intro n hn
        rw [List.mem_filter] at hn
        refine ⟨(List.mem_filter.1 hn.1).1, by simpa using hn.2⟩
      · rw [hnp3, hdb2 rfl]
      · intro m hm
        obtain ⟨a1, a2⟩ := hmb3 m hm
        rw [hdb2 rfl] at a1
        exact ⟨a1, a2⟩
    have hfin := h1.trans hsw
    have hA3 : DbAll (Chan.NpSweep d0) (s2.pruneMailboxes app now
        ((s'.db.mailboxesOfApp app).filter (fun r => ¬ r.updated > old))) := n3.dbAll (n2.dbAll hA1)
    dsimp only at h
    split at h
    · simp only [Prod.mk.injEq] at h
      obtain ⟨rfl, rfl⟩ := h
      split
      · exact ⟨DbAll.ucommit (DbAll.commit hA3 hfin), by simpa using hfin⟩
      · exact ⟨DbAll.commit hA3 hfin, by simpa using hfin⟩
    · simp only [Prod.mk.injEq] at h
      obtain ⟨rfl, rfl⟩ := h
      exact ⟨hA3, hfin⟩

theorem pruneApps_sweep {d0 : Chan} {now old} (l : List String) :
    ∀ {s s1 : Sys} {b}, s.pruneApps now old l = (s1, b) → s.db.NpOk →
      DbAll (Chan.NpSweep d0) s → Chan.NpSweep d0 s.db →
      DbAll (Chan.NpSweep d0) s1 ∧ Chan.NpSweep d0 s1.db := by
  induction l with
  | nil =>
    intro s s1 b h _ hA h0
    simp only [pruneApps, Prod.mk.injEq] at h
    obtain ⟨rfl, rfl⟩ := h
    exact ⟨hA, h0⟩
  | cons app rest ih =>
    intro s s1 b h hn hA h0
    unfold pruneApps at h
    split at h
    · rename_i s2 e
      simp only [Prod.mk.injEq] at h
      obtain ⟨rfl, rfl⟩ := h
      exact prune_sweep e hn hA h0
    · rename_i s2 e
      obtain ⟨a1, a2⟩ := prune_sweep e hn hA h0
      exact ih h ((prune_spec e).2 hn).1 a1 a2

theorem expire_sweep {s : Sys} (now : Time) (fault : Bool) (hn : s.db.NpOk)
    (hA : DbAll (Chan.NpSweep s.db) s) :
    DbAll (Chan.NpSweep s.db) (s.expire now fault) ∧ Chan.NpSweep s.db (s.expire now fault).db := by
  unfold Sys.expire
  dsimp only
  have key : ∀ s1 : Sys, DbAll (Chan.NpSweep s.db) s1 → Chan.NpSweep s.db s1.db →
      DbAll (Chan.NpSweep s.db) (s1.dumpStats now) ∧ Chan.NpSweep s.db (s1.dumpStats now).db := by
    intro s1 h1 h2
    refine ⟨?_, by simpa using h2⟩
    unfold dumpStats
    split
    · exact DbAll.ucommit h1
    · exact h1
  apply key
  · split
    · exact hA
    · split
      · rename_i s1 e
        exact (pruneApps_sweep _ e hn hA (Chan.NpSweep.refl _)).1
      · rename_i s1 e
        exact (pruneApps_sweep _ e hn hA (Chan.NpSweep.refl _)).1
  · split
    · exact Chan.NpSweep.refl _
    · split
      · rename_i s1 e
        exact (pruneApps_sweep _ e hn hA (Chan.NpSweep.refl _)).2
      · rename_i s1 e
        exact (pruneApps_sweep _ e hn hA (Chan.NpSweep.refl _)).2


/-! ### the handlers of server_websocket.py -/

theorem AllRel.refl' (lbl : NpLbl) {s : Sys} (hA : DbAll (Chan.NpRel lbl s.db) s) : AllRel lbl s.db s :=
  ⟨hA, Chan.NpRel.refl _ _⟩

theorem handleClaim_rel {s : Sys} (x : Conn) (a σ : String) (t : Time) (n fresh : String)
    (hb : s.db.IdsBounded) (hA : DbAll (Chan.NpRel (.claim a n σ fresh t) s.db) s) :
    AllRel (.claim a n σ fresh t) s.db (s.handleClaim x a σ t (some n) fresh) := by
  unfold handleClaim
  dsimp only
  split
  · exact AllRel.refl' _ hA
  · split
    all_goals
      rename_i e
      have h1 := claimNameplate_rel e hb hA
    · exact h1.send _ _
    · exact h1.sendError _ _
    · exact h1.sendError _ _
    · exact h1.internalErr _ _

/-- the kind of an `allocate` -/
def allocLbl (d : Chan) (a σ : String) (t : Time) (pick : Nat) (draws : List Nat) (fresh : String) : NpLbl :=
  match findAvailable (d.namesOfApp a) pick draws with
  | some n => .claim a n σ fresh t
  | none => .quiet

theorem handleAllocate_rel {s : Sys} (x : Conn) (a σ : String) (t : Time) (pick draws fresh)
    (hb : s.db.IdsBounded) (hA : DbAll (Chan.NpRel (allocLbl s.db a σ t pick draws fresh) s.db) s) :
    AllRel (allocLbl s.db a σ t pick draws fresh) s.db (s.handleAllocate x a σ t pick draws fresh) := by
  unfold handleAllocate
  split
  · exact AllRel.refl' _ hA
  · unfold allocLbl at hA ⊢
    cases e : findAvailable (s.db.namesOfApp a) pick draws with
    | none =>
      rw [e] at hA
      exact AllRel.refl' _ hA
    | some name =>
      rw [e] at hA
      dsimp only at hA ⊢
      split
      all_goals
        rename_i e'
        have h1 := claimNameplate_rel e' hb hA
      · exact (h1.updConn _ _).send _ _
      · exact h1.internalErr _ _
      · exact h1.internalErr _ _
      · exact h1.internalErr _ _

/-- the nameplate a `release` resolves to -/
def releaseTarget (x : Conn) (n : Option String) : Option String :=
  match n with
  | some n => some n
  | none => x.nameplateId

def releaseLbl (x : Conn) (a σ : String) (n : Option String) : NpLbl :=
  match releaseTarget x n with
  | some n => .release a n σ
  | none => .quiet

theorem handleRelease_rel {s : Sys} (x : Conn) (a σ : String) (t : Time) (n : Option String)
    (hA : DbAll (Chan.NpRel (releaseLbl x a σ n) s.db) s) :
    AllRel (releaseLbl x a σ n) s.db (s.handleRelease x a σ t n) := by
  unfold handleRelease
  have go : ∀ name : String, releaseLbl x a σ n = .release a name σ →
      AllRel (releaseLbl x a σ n) s.db
      (match (s.updConn x.id (fun y => { y with didRelease := true })).releaseNameplate a name σ t with
       | (s1, true) => s1.send x.id .released
       | (s1, false) => s1.internalErr x.id "IndexError") := by
    intro name hl
    rw [hl] at hA ⊢
    split
    all_goals
      rename_i e
      have h1 := releaseNameplate_rel e hA
    · exact h1.send _ _
    · exact h1.internalErr _ _
  split
  · exact AllRel.refl' _ hA
  · dsimp only
    split
    · split
      · exact AllRel.refl' _ hA
      · exact go _ rfl
    · exact go _ rfl
    · rename_i held hh
      exact go _ (by simp [releaseLbl, releaseTarget, hh])
    · exact AllRel.refl' _ hA

/-- the mailbox a `close` acts on: the handle if the connection has one, else the named /
    remembered id -/
def closeTarget (x : Conn) (m : Option String) : Option String :=
  match x.mailbox with
  | some h => some h
  | none =>
    match m with
    | some m => some m
    | none => x.mailboxId

def closeLbl (x : Conn) (a : String) (m : Option String) : NpLbl :=
  match closeTarget x m with
  | some h => .close a h
  | none => .quiet

theorem handleClose_rel {s : Sys} (x : Conn) (a σ : String) (t : Time) (m : Option String) (mood : Option String)
    (hA : DbAll (Chan.NpRel (closeLbl x a m) s.db) s) :
    AllRel (closeLbl x a m) s.db (s.handleClose x a σ t m mood) := by
  unfold handleClose
  have tail : ∀ (s1 : Sys) (r : OpenRes) (hd : String), closeLbl x a m = .close a hd →
      AllRel (.close a hd) s.db s1 → s1.db.npPart = s.db.npPart →
      AllRel (closeLbl x a m) s.db
      (match ((s1, r, hd) : Sys × OpenRes × String) with
       | (s1, .crowded, _) => s1.sendError x.id "crowded"
       | (s1, .integrity, _) => s1.internalErr x.id "IntegrityError"
       | (s1, .ok, h) =>
         let s2 := s1.updConn x.id (fun y => { y with listening := false, didClose := true })
         match s2.mailboxClose a h σ mood t with
         | (s3, false) => s3.internalErr x.id "IndexError"
         | (s3, true) => (s3.updConn x.id (fun y => { y with mailbox := none })).send x.id .closed) := by
    intro s1 r hd hl h1 hnp
    rw [hl]
    cases r
    · dsimp only
      split
      all_goals
        rename_i e
        have h3 := mailboxClose_rel (d0 := s.db) e hnp h1.1
      · exact h3.internalErr _ _
      · exact (h3.updConn _ _).send _ _
    · exact h1.sendError _ _
    · exact h1.internalErr _ _
  have go : ∀ mb : String, (x.mailbox = none → closeLbl x a m = .close a mb) →
      AllRel (closeLbl x a m) s.db
      (match (match x.mailbox with
          | some h => (s, OpenRes.ok, h)
          | none =>
            match s.openMailbox a mb σ t with
            | (s1, r) => (s1.updConn x.id (fun y => if r = OpenRes.ok then { y with mailbox := some mb } else y), r, mb)
          : Sys × OpenRes × String) with
       | (s1, .crowded, _) => s1.sendError x.id "crowded"
       | (s1, .integrity, _) => s1.internalErr x.id "IntegrityError"
       | (s1, .ok, h) =>
         let s2 := s1.updConn x.id (fun y => { y with listening := false, didClose := true })
         match s2.mailboxClose a h σ mood t with
         | (s3, false) => s3.internalErr x.id "IndexError"
         | (s3, true) => (s3.updConn x.id (fun y => { y with mailbox := none })).send x.id .closed) := by
    intro mb hmb
    cases hx : x.mailbox with
    | some hd =>
      have hl : closeLbl x a m = .close a hd := by simp [closeLbl, closeTarget, hx]
      exact tail s .ok hd hl (hl ▸ AllRel.refl' _ hA) rfl
    | none =>
      dsimp only
      have hl := hmb hx
      cases e : s.openMailbox a mb σ t with
      | mk s1 r =>
        obtain ⟨h1, hnp⟩ := openMailbox_allRel (lbl := .close a mb) (by simp) e rfl (hl ▸ hA)
        exact tail _ r mb hl (h1.updConn _ _) hnp
  split
  · exact AllRel.refl' _ hA
  · dsimp only
    split
    · split
      · exact AllRel.refl' _ hA
      · exact go _ (fun hx => by simp [closeLbl, closeTarget, hx])
    · exact go _ (fun hx => by simp [closeLbl, closeTarget, hx])
    · rename_i held hh
      exact go _ (fun hx => by simp [closeLbl, closeTarget, hx, hh])
    · exact AllRel.refl' _ hA

theorem AllRel.replay {lbl d0} {s : Sys} (h : AllRel lbl d0 s) (c a mb) : AllRel lbl d0 (s.replay c a mb) := by
  unfold Sys.replay
  obtain ⟨n1, n2⟩ := NoCommit.foldl_send (fun _ => c)
    (fun m : Message => Frame.message m.side m.phase m.body m.rx m.msgId)
    ((s.db.messagesOf a mb).mergeSort (fun a b => decide (a.rx ≤ b.rx))) s
  exact h.noCommit n1 n2

theorem AllRel.broadcast {lbl d0} {s : Sys} (h : AllRel lbl d0 s) (a mb f) : AllRel lbl d0 (s.broadcast a mb f) := by
  unfold Sys.broadcast
  obtain ⟨n1, n2⟩ := NoCommit.foldl_send (fun c : Nat => c) (fun _ => f) (s.listeners a mb) s
  exact h.noCommit n1 n2

theorem handleOpen_rel {s : Sys} (x : Conn) (a σ : String) (t : Time) (m : Option String)
    (hA : DbAll (Chan.NpRel .quiet s.db) s) : AllRel .quiet s.db (s.handleOpen x a σ t m) := by
  unfold handleOpen
  split
  · exact AllRel.refl' _ hA
  · split
    · exact AllRel.refl' _ hA
    · dsimp only
      split
      all_goals
        rename_i e
        obtain ⟨h1, _⟩ := openMailbox_allRel (lbl := .quiet) (d0 := s.db) (by simp) e rfl hA
      · exact h1.sendError _ _
      · exact h1.internalErr _ _
      · exact (h1.updConn _ _).replay _ _ _

theorem handleAdd_rel {s : Sys} (x : Conn) (a σ : String) (t : Time) (id : Val) (ph bd : Option Val)
    (hA : DbAll (Chan.NpRel .quiet s.db) s) : AllRel .quiet s.db (s.handleAdd x a σ t id ph bd) := by
  unfold handleAdd
  split
  · exact AllRel.refl' _ hA
  · split
    · exact AllRel.refl' _ hA
    · split
      · exact AllRel.refl' _ hA
      · exact (addMessage_allRel (lbl := .quiet) (d0 := s.db) (by simp) s _ _ _ _ _ _ _ rfl hA).broadcast _ _ _

theorem handleBind_rel {s : Sys} (x : Conn) (t : Time) (a sd i v)
    (hA : DbAll (Chan.NpRel .quiet s.db) s) : AllRel .quiet s.db (s.handleBind x t a sd i v) := by
  unfold handleBind
  split
  · exact AllRel.refl' _ hA
  · split
    · exact AllRel.refl' _ hA
    · split
      · exact AllRel.refl' _ hA
      · refine ⟨?_, by simp; exact Chan.NpRel.refl _ _⟩
        unfold logClientVersion
        split
        · exact DbAll.ucommit hA
        · exact hA


/-! ### `onMessage`, `step` -/

/-- the kind of command `cmd` received at time `t` on connection record `x` -/
def cmdLbl (d : Chan) (x : Conn) (t : Time) : Cmd → NpLbl
  | .claim (some n) fresh =>
    match x.app with
    | some a => .claim a n (x.side.getD "") fresh t
    | none => .quiet
  | .allocate pick draws fresh =>
    match x.app with
    | some a => allocLbl d a (x.side.getD "") t pick draws fresh
    | none => .quiet
  | .release n =>
    match x.app with
    | some a => releaseLbl x a (x.side.getD "") n
    | none => .quiet
  | .close m _ =>
    match x.app with
    | some a => closeLbl x a m
    | none => .quiet
  | _ => .quiet

end Sys.Np

/-- **the kind of an operation** in state `s` (a crashed operation has the kind of the
    operation it cuts short) -/
def Sys.npLbl (s : Sys) : Op → NpLbl
  | .recv c t _ cmd =>
    match s.findConn c with
    | some x => Sys.Np.cmdLbl s.db x t cmd
    | none => .quiet
  | .sweep _ fault => if fault then .quiet else .sweep
  | .crashIn _ op => s.npLbl op
  | _ => .quiet

/-- the operation a (possibly crashed) operation consists of -/
def Op.inner : Op → Op
  | .crashIn _ op => op.inner
  | op => op

namespace Sys.Np

/-- a sweep whose first database access fails changes no table -/
theorem expire_fault_rel {s : Sys} (now : Time) (hA : DbAll (Chan.NpRel .quiet s.db) s) :
    AllRel .quiet s.db (s.expire now true) := by
  have key : ∀ s1 : Sys, AllRel .quiet s.db s1 → AllRel .quiet s.db (s1.dumpStats now) := by
    intro s1 h1
    refine ⟨?_, by simpa using h1.2⟩
    unfold dumpStats
    split
    · exact DbAll.ucommit h1.1
    · exact h1.1
  simp only [Sys.expire, ↓reduceIte]
  exact key _ (AllRel.refl' _ hA)

theorem onMessage_rel {s : Sys} (c : Nat) (t : Time) (id : Val) (cmd : Cmd) (hb : s.db.IdsBounded)
    (hA : DbAll (Chan.NpRel (s.npLbl (.recv c t id cmd)) s.db) s) :
    AllRel (s.npLbl (.recv c t id cmd)) s.db (s.onMessage c t id cmd) := by
  unfold Sys.onMessage
  unfold Sys.npLbl at hA ⊢
  cases hx : s.findConn c with
  | none => exact AllRel.refl' _ (by simpa [hx] using hA)
  | some x =>
    simp only [hx] at hA ⊢
    have hA' : ∀ L, DbAll (Chan.NpRel L s.db) s → DbAll (Chan.NpRel L (s.send c (.ack id)).db) (s.send c (.ack id)) :=
      fun _ h => h
    cases cmd with
    | noType => exact AllRel.refl' _ hA
    | ping v =>
      dsimp only
      unfold handlePing
      split <;> exact AllRel.refl' _ hA
    | bind a sd i v => exact handleBind_rel (s := s.send c (.ack id)) x t a sd i v hA
    | unknown =>
      dsimp only
      split <;> exact AllRel.refl' _ hA
    | list =>
      dsimp only
      split <;> exact AllRel.refl' _ hA
    | allocate pick draws fresh =>
      dsimp only [cmdLbl] at hA ⊢
      cases ha : x.app with
      | none => simp only [ha] at hA ⊢; exact AllRel.refl' _ hA
      | some a =>
        simp only [ha] at hA ⊢
        exact handleAllocate_rel (s := s.send c (.ack id)) x a _ t pick draws fresh hb hA
    | claim n fresh =>
      cases ha : x.app with
      | none =>
        dsimp only
        exact AllRel.refl' _ hA
      | some a =>
        cases n with
        | none =>
          dsimp only
          unfold handleClaim
          exact AllRel.refl' _ hA
        | some n =>
          dsimp only [cmdLbl] at hA ⊢
          simp only [ha] at hA ⊢
          exact handleClaim_rel (s := s.send c (.ack id)) x a _ t n fresh hb hA
    | release n =>
      dsimp only [cmdLbl] at hA ⊢
      cases ha : x.app with
      | none => simp only [ha] at hA ⊢; exact AllRel.refl' _ hA
      | some a =>
        simp only [ha] at hA ⊢
        exact handleRelease_rel (s := s.send c (.ack id)) x a _ t n hA
    | open_ m =>
      dsimp only [cmdLbl] at hA ⊢
      split
      · exact AllRel.refl' _ hA
      · exact handleOpen_rel (s := s.send c (.ack id)) x _ _ t m hA
    | add ph bd =>
      dsimp only [cmdLbl] at hA ⊢
      split
      · exact AllRel.refl' _ hA
      · exact handleAdd_rel (s := s.send c (.ack id)) x _ _ t id ph bd hA
    | close m mood =>
      dsimp only [cmdLbl] at hA ⊢
      cases ha : x.app with
      | none => simp only [ha] at hA ⊢; exact AllRel.refl' _ hA
      | some a =>
        simp only [ha] at hA ⊢
        exact handleClose_rel (s := s.send c (.ack id)) x a _ t m mood hA

theorem npLbl_clear (s : Sys) (op : Op) :
    ({ s with out := [], snaps := [] } : Sys).npLbl op = s.npLbl op := by
  induction op with
  | crashIn k op ih => exact ih
  | _ => rfl

/-- a plain operation from a synced state: its final database and its commit points -/
theorem stepPlain_rel {s : Sys} (op : Op) (hn : s.db.NpOk)
    (hA : DbAll (Chan.NpRel (s.npLbl op) s.db) s) :
    AllRel (s.npLbl op) s.db (s.stepPlain op) := by
  cases op with
  | connect c => exact AllRel.refl' _ hA
  | recv c t id cmd => exact onMessage_rel c t id cmd hn.bounded hA
  | drop c => exact AllRel.refl' _ hA
  | sweep now fault =>
    cases fault with
    | true => exact expire_fault_rel now hA
    | false => exact expire_sweep now false hn hA
  | restart t => exact ⟨hA, hA.1⟩
  | crashIn k op => exact AllRel.refl' _ hA

/-- **Every step** (crashes included) from a state with nothing uncommitted ends in a database
    that the kind of the operation allows. -/
theorem step_rel {s : Sys} (hs : s.Synced) (hn : s.db.NpOk) (op : Op) :
    Chan.NpRel (s.npLbl op) s.db (s.step op).db := by
  have h0 : ∀ L, DbAll (Chan.NpRel L s.db) ({ s with out := [], snaps := [] } : Sys) := by
    intro L
    refine ⟨?_, by intro p hp; simp at hp⟩
    show Chan.NpRel L s.db s.disk
    rw [← hs.1]; exact Chan.NpRel.refl _ _
  have hplain : ∀ op' : Op, AllRel (s.npLbl op') s.db (({ s with out := [], snaps := [] } : Sys).stepPlain op') := by
    intro op'
    have := stepPlain_rel (s := { s with out := [], snaps := [] }) op' hn (by rw [npLbl_clear]; exact h0 _)
    rw [npLbl_clear] at this
    exact this
  cases op with
  | crashIn k op' =>
    obtain ⟨⟨hd, hsn⟩, _⟩ := hplain op'
    show Chan.NpRel (s.npLbl op') s.db _
    unfold Sys.step
    dsimp only
    split
    · show Chan.NpRel _ s.db s.disk
      rw [← hs.1]; exact Chan.NpRel.refl _ _
    · rename_i p _ hp
      exact hsn p (List.mem_of_getElem? hp)
    · exact hd
  | connect c => exact (hplain (.connect c)).2
  | recv c t id cmd => exact (hplain (.recv c t id cmd)).2
  | drop c => exact (hplain (.drop c)).2
  | sweep now fault => exact (hplain (.sweep now fault)).2
  | restart t => exact (hplain (.restart t)).2


/-! ### what a label says about the operation -/

theorem cmdLbl_claim {d : Chan} {x : Conn} {t t' : Time} {cmd : Cmd} {a n σ fresh : String}
    (h : cmdLbl d x t cmd = .claim a n σ fresh t') :
    t' = t ∧ x.app = some a ∧ x.side.getD "" = σ ∧
    (cmd = .claim (some n) fresh ∨
      ∃ pick draws, cmd = .allocate pick draws fresh ∧ findAvailable (d.namesOfApp a) pick draws = some n) := by
  cases cmd with
  | claim n' fresh' =>
    cases n' with
    | none => simp [cmdLbl] at h
    | some n' =>
      cases ha : x.app <;> simp [cmdLbl, ha] at h
      obtain ⟨rfl, rfl, rfl, rfl, rfl⟩ := h
      exact ⟨rfl, rfl, rfl, Or.inl rfl⟩
  | allocate pick draws fresh' =>
    cases ha : x.app <;> simp [cmdLbl, ha, allocLbl] at h
    split at h
    · rename_i n' hf
      simp at h
      obtain ⟨rfl, rfl, rfl, rfl, rfl⟩ := h
      exact ⟨rfl, rfl, rfl, Or.inr ⟨pick, draws, rfl, hf⟩⟩
    · simp at h
  | release n' =>
    cases ha : x.app <;> simp [cmdLbl, ha, releaseLbl] at h
    cases hr : releaseTarget x n' <;> simp [hr] at h
  | close m mood =>
    cases ha : x.app <;> simp [cmdLbl, ha, closeLbl] at h
    cases hr : closeTarget x m <;> simp [hr] at h
  | _ => simp [cmdLbl] at h

theorem cmdLbl_release {d : Chan} {x : Conn} {t : Time} {cmd : Cmd} {a n σ : String}
    (h : cmdLbl d x t cmd = .release a n σ) :
    x.app = some a ∧ x.side.getD "" = σ ∧ ∃ nm, cmd = .release nm ∧ releaseTarget x nm = some n := by
  cases cmd with
  | claim n' fresh' =>
    cases n' with
    | none => simp [cmdLbl] at h
    | some n' => cases ha : x.app <;> simp [cmdLbl, ha] at h
  | allocate pick draws fresh' =>
    cases ha : x.app <;> simp [cmdLbl, ha, allocLbl] at h
    split at h <;> simp at h
  | release n' =>
    cases ha : x.app <;> simp [cmdLbl, ha, releaseLbl] at h
    cases hr : releaseTarget x n' <;> simp [hr] at h
    obtain ⟨rfl, rfl, rfl⟩ := h
    exact ⟨rfl, rfl, n', rfl, hr⟩
  | close m mood =>
    cases ha : x.app <;> simp [cmdLbl, ha, closeLbl] at h
    cases hr : closeTarget x m <;> simp [hr] at h
  | _ => simp [cmdLbl] at h

theorem cmdLbl_close {d : Chan} {x : Conn} {t : Time} {cmd : Cmd} {a hd : String}
    (h : cmdLbl d x t cmd = .close a hd) :
    x.app = some a ∧ ∃ m mood, cmd = .close m mood ∧ closeTarget x m = some hd := by
  cases cmd with
  | claim n' fresh' =>
    cases n' with
    | none => simp [cmdLbl] at h
    | some n' => cases ha : x.app <;> simp [cmdLbl, ha] at h
  | allocate pick draws fresh' =>
    cases ha : x.app <;> simp [cmdLbl, ha, allocLbl] at h
    split at h <;> simp at h
  | release n' =>
    cases ha : x.app <;> simp [cmdLbl, ha, releaseLbl] at h
    cases hr : releaseTarget x n' <;> simp [hr] at h
  | close m mood =>
    cases ha : x.app <;> simp [cmdLbl, ha, closeLbl] at h
    cases hr : closeTarget x m <;> simp [hr] at h
    obtain ⟨rfl, rfl⟩ := h
    exact ⟨rfl, m, mood, rfl, hr⟩
  | _ => simp [cmdLbl] at h

theorem cmdLbl_ne_sweep {d : Chan} {x : Conn} {t : Time} {cmd : Cmd} : cmdLbl d x t cmd ≠ .sweep := by
  intro h
  cases cmd with
  | claim n' fresh' =>
    cases n' with
    | none => simp [cmdLbl] at h
    | some n' => cases ha : x.app <;> simp [cmdLbl, ha] at h
  | allocate pick draws fresh' =>
    cases ha : x.app <;> simp [cmdLbl, ha, allocLbl] at h
    split at h <;> simp at h
  | release n' =>
    cases ha : x.app <;> simp [cmdLbl, ha, releaseLbl] at h
    cases hr : releaseTarget x n' <;> simp [hr] at h
  | close m mood =>
    cases ha : x.app <;> simp [cmdLbl, ha, closeLbl] at h
    cases hr : closeTarget x m <;> simp [hr] at h
  | _ => simp [cmdLbl] at h

/-- a step of kind `claim a n σ fresh t` is (a crash of) a `claim` of `n`, or an `allocate` that
    picks `n`, at time `t` with generated id `fresh`, received on a connection bound to `a`
    with side `σ` -/
theorem npLbl_claim {s : Sys} {op : Op} {a n σ fresh : String} {t : Time}
    (h : s.npLbl op = .claim a n σ fresh t) :
    ∃ c id cmd x, op.inner = .recv c t id cmd ∧ s.findConn c = some x ∧ x.app = some a ∧
      x.side.getD "" = σ ∧ op.fresh? = some fresh ∧
      (cmd = .claim (some n) fresh ∨
        ∃ pick draws, cmd = .allocate pick draws fresh ∧
          findAvailable (s.db.namesOfApp a) pick draws = some n) := by
  induction op with
  | crashIn k op ih => exact ih h
  | recv c t' id cmd =>
    unfold Sys.npLbl at h
    cases hx : s.findConn c with
    | none => simp [hx] at h
    | some x =>
      simp only [hx] at h
      obtain ⟨rfl, h1, h2, h3⟩ := cmdLbl_claim h
      refine ⟨c, id, cmd, x, rfl, hx, h1, h2, ?_, h3⟩
      rcases h3 with rfl | ⟨p, dr, rfl, _⟩ <;> rfl
  | sweep now fault => cases fault <;> simp [Sys.npLbl] at h
  | _ => simp [Sys.npLbl] at h

theorem npLbl_release {s : Sys} {op : Op} {a n σ : String} (h : s.npLbl op = .release a n σ) :
    ∃ c t id nm x, op.inner = .recv c t id (.release nm) ∧ s.findConn c = some x ∧ x.app = some a ∧
      x.side.getD "" = σ ∧ releaseTarget x nm = some n := by
  induction op with
  | crashIn k op ih => exact ih h
  | recv c t' id cmd =>
    unfold Sys.npLbl at h
    cases hx : s.findConn c with
    | none => simp [hx] at h
    | some x =>
      simp only [hx] at h
      obtain ⟨h1, h2, nm, rfl, h3⟩ := cmdLbl_release h
      exact ⟨c, t', id, nm, x, rfl, hx, h1, h2, h3⟩
  | sweep now fault => cases fault <;> simp [Sys.npLbl] at h
  | _ => simp [Sys.npLbl] at h

theorem npLbl_close {s : Sys} {op : Op} {a hd : String} (h : s.npLbl op = .close a hd) :
    ∃ c t id m mood x, op.inner = .recv c t id (.close m mood) ∧ s.findConn c = some x ∧ x.app = some a ∧
      closeTarget x m = some hd := by
  induction op with
  | crashIn k op ih => exact ih h
  | recv c t' id cmd =>
    unfold Sys.npLbl at h
    cases hx : s.findConn c with
    | none => simp [hx] at h
    | some x =>
      simp only [hx] at h
      obtain ⟨h1, m, mood, rfl, h3⟩ := cmdLbl_close h
      exact ⟨c, t', id, m, mood, x, rfl, hx, h1, h3⟩
  | sweep now fault => cases fault <;> simp [Sys.npLbl] at h
  | _ => simp [Sys.npLbl] at h

theorem npLbl_sweep {s : Sys} {op : Op} (h : s.npLbl op = .sweep) : ∃ now, op.inner = .sweep now false := by
  induction op with
  | crashIn k op ih => exact ih h
  | recv c t' id cmd =>
    unfold Sys.npLbl at h
    cases hx : s.findConn c with
    | none => simp [hx] at h
    | some x =>
      simp only [hx] at h
      exact absurd h cmdLbl_ne_sweep
  | sweep now fault =>
    cases fault with
    | true => simp [Sys.npLbl] at h
    | false => exact ⟨now, rfl⟩
  | _ => simp [Sys.npLbl] at h

end Sys.Np
end Wormhole
