/-
  Exact specifications of `Sys.openMailbox` (`AppNamespace.open_mailbox` + `Mailbox.open`) and
  `Sys.mailboxClose` (`Mailbox.close`), used by Props/C08.lean and Props/C05.lean.

  `Chan.openDb d app mb side t`     : the channel database after a successful `open_mailbox`
  `Chan.dropMailbox d app mb`       : the channel database after `Mailbox.close` deleted (app, mb):
                                      five `filter`s, one per table, each keyed by what BELONGS to
                                      (app, mb) -- every other row of every table is kept as it is.
  That the code's statements (keyed by mailbox id alone) have this effect needs `PInv`: mailbox
  ids are globally unique and child rows follow their parents.
-/
import Wormhole.Inv.SyncLemmas
import Wormhole.Inv.WsLemmas

namespace Wormhole
namespace Chan

/-- the mailbox row (app, mb) exists -/
def HasBox (d : Chan) (app mb : String) : Prop := ∃ m ∈ d.mailboxes, m.app = app ∧ m.id = mb

instance (d : Chan) (app mb : String) : Decidable (d.HasBox app mb) := by
  unfold HasBox; infer_instance

/-- `mb` is a mailbox id under ANOTHER app and not under `app`: the situation in which
    `_add_mailbox` raises IntegrityError (finding K-global-mailbox-id) -/
def Clash (d : Chan) (app mb : String) : Prop :=
  (∃ m ∈ d.mailboxes, m.id = mb ∧ m.app ≠ app) ∧ ¬ d.HasBox app mb

instance (d : Chan) (app mb : String) : Decidable (d.Clash app mb) := by
  unfold Clash; infer_instance

/-- the sides of the side rows of mailbox `mb`, in table (= insertion) order -/
def sidesOf (d : Chan) (mb : String) : List String := (d.mbSidesOf mb).map (·.side)

/-- the sides of the two oldest side rows of `mb` -/
def first2 (d : Chan) (mb : String) : List String := ((d.mbSidesOf mb).take 2).map (·.side)

theorem findMailbox_isSome {d : Chan} {app mb : String} :
    (d.findMailbox app mb).isSome ↔ d.HasBox app mb := by
  simp [findMailbox, HasBox, List.find?_isSome]

theorem findMailbox_eq_none {d : Chan} {app mb : String} :
    d.findMailbox app mb = none ↔ ¬ d.HasBox app mb := by
  rw [← findMailbox_isSome]; cases d.findMailbox app mb <;> simp

theorem findMailbox_some_mbx {d : Chan} {app mb : String} {row : MailboxRow}
    (h : d.findMailbox app mb = some row) : row ∈ d.mailboxes ∧ row.app = app ∧ row.id = mb := by
  refine ⟨List.mem_of_find?_eq_some h, ?_⟩
  simpa using List.find?_some h

theorem findMailboxById_eq_none {d : Chan} {mb : String} :
    d.findMailboxById mb = none ↔ ∀ m ∈ d.mailboxes, m.id ≠ mb := by
  simp [findMailboxById, List.find?_eq_none]

theorem findMbSide_eq_none {d : Chan} {mb side : String} :
    d.findMbSide mb side = none ↔ ∀ r ∈ d.mbSides, ¬ (r.mailbox = mb ∧ r.side = side) := by
  simp [findMbSide, List.find?_eq_none]

theorem findMbSide_some_mbx {d : Chan} {mb side : String} {r : MbSide}
    (h : d.findMbSide mb side = some r) : r ∈ d.mbSides ∧ r.mailbox = mb ∧ r.side = side := by
  refine ⟨List.mem_of_find?_eq_some h, ?_⟩
  simpa using List.find?_some h

theorem findMbSide_isSome {d : Chan} {mb side : String} :
    (d.findMbSide mb side).isSome ↔ ∃ r ∈ d.mbSides, r.mailbox = mb ∧ r.side = side := by
  simp [findMbSide, List.find?_isSome]

/-- under `PInv` the row with id `mb` is the row (app, mb) as soon as that one exists -/
theorem app_of_id {d : Chan} (hids : d.mailboxes.Pairwise (fun a b => ¬ a.id = b.id))
    {app mb : String} (h : d.HasBox app mb)
    {m : MailboxRow} (hm : m ∈ d.mailboxes) (hid : m.id = mb) : m.app = app := by
  obtain ⟨m0, hm0, ha, hi⟩ := h
  have : m = m0 := eq_of_pairwise_ne (f := MailboxRow.id) hids hm hm0 (by rw [hid, hi])
  rw [this, ha]

theorem PInv.app_of_id {d : Chan} (hP : d.PInv) {app mb : String} (h : d.HasBox app mb)
    {m : MailboxRow} (hm : m ∈ d.mailboxes) (hid : m.id = mb) : m.app = app :=
  Chan.app_of_id hP.mbIds h hm hid

/-- the channel database after `open_mailbox(app, mb, side, t)` did not raise IntegrityError -/
def openDb (d : Chan) (app mb side : String) (t : Time) : Chan :=
  { d with
    mailboxes :=
      match d.findMailbox app mb with
      | some _ => d.mailboxes.map (fun r => if r.app = app ∧ r.id = mb then { r with updated := t } else r)
      | none => d.mailboxes ++ [⟨app, mb, t, false⟩]
    mbSides :=
      match d.findMbSide mb side with
      | some _ => d.mbSides
      | none => d.mbSides ++ [⟨mb, true, side, t, none⟩] }

/-- the channel database after `Mailbox.close` found no opened side and deleted (app, mb) -/
def dropMailbox (d : Chan) (app mb : String) : Chan :=
  { d with
    nameplates := d.nameplates.filter (fun n => ¬ (n.app = app ∧ n.mailbox = mb))
    npSides := d.npSides.filter
      (fun r => ¬ ∃ n ∈ d.nameplates, n.id = r.npid ∧ n.app = app ∧ n.mailbox = mb)
    mailboxes := d.mailboxes.filter (fun m => ¬ (m.app = app ∧ m.id = mb))
    mbSides := d.mbSides.filter (fun r => ¬ r.mailbox = mb)
    messages := d.messages.filter (fun r => ¬ (r.app = app ∧ r.mailbox = mb)) }

/-! ### `openDb`, table by table -/

section openDb
variable (d : Chan) (app mb side : String) (t : Time)

@[simp] theorem openDb_nameplates : (d.openDb app mb side t).nameplates = d.nameplates := rfl
@[simp] theorem openDb_npSides : (d.openDb app mb side t).npSides = d.npSides := rfl
@[simp] theorem openDb_messages : (d.openDb app mb side t).messages = d.messages := rfl
@[simp] theorem openDb_nextNp : (d.openDb app mb side t).nextNp = d.nextNp := rfl

theorem openDb_mbSides_some {r : MbSide} (h : d.findMbSide mb side = some r) :
    (d.openDb app mb side t).mbSides = d.mbSides := by simp [openDb, h]

theorem openDb_mbSides_none (h : d.findMbSide mb side = none) :
    (d.openDb app mb side t).mbSides = d.mbSides ++ [⟨mb, true, side, t, none⟩] := by
  simp [openDb, h]

/-- the side rows of every mailbox after `openDb`: a new row is appended for (mb, side) if
    there was none (opened, added now, no mood); nothing else changes -/
theorem openDb_mbSidesOf (mb' : String) :
    (d.openDb app mb side t).mbSidesOf mb' =
      d.mbSidesOf mb' ++
        (if mb' = mb ∧ d.findMbSide mb side = none then [⟨mb, true, side, t, none⟩] else []) := by
  cases h : d.findMbSide mb side with
  | some r => simp [mbSidesOf, openDb_mbSides_some d app mb side t h]
  | none =>
    simp only [mbSidesOf, openDb_mbSides_none d app mb side t h, List.filter_append, and_true]
    by_cases hm : mb' = mb
    · simp [hm]
    · have : ¬ mb = mb' := fun e => hm e.symm
      simp [hm, this]

theorem openDb_hasBox : (d.openDb app mb side t).HasBox app mb := by
  unfold HasBox openDb
  cases h : d.findMailbox app mb with
  | none => exact ⟨⟨app, mb, t, false⟩, by simp, rfl, rfl⟩
  | some row =>
    obtain ⟨hm, ha, hi⟩ := findMailbox_some_mbx h
    refine ⟨{ row with updated := t }, ?_, ha, hi⟩
    simp only [List.mem_map]
    exact ⟨row, hm, by simp [ha, hi]⟩

/-- mailbox rows by key: `openDb` adds the key (app, mb) and removes none -/
theorem openDb_hasBox_iff (app' mb' : String) :
    (d.openDb app mb side t).HasBox app' mb' ↔ d.HasBox app' mb' ∨ (app' = app ∧ mb' = mb) := by
  constructor
  · rintro ⟨m, hm, ha, hi⟩
    unfold openDb at hm
    cases h : d.findMailbox app mb with
    | none =>
      simp only [h, List.mem_append, List.mem_singleton] at hm
      rcases hm with hm | rfl
      · exact Or.inl ⟨m, hm, ha, hi⟩
      · exact Or.inr ⟨ha.symm, hi.symm⟩
    | some row =>
      simp only [h, List.mem_map] at hm
      obtain ⟨m0, hm0, rfl⟩ := hm
      refine Or.inl ⟨m0, hm0, ?_, ?_⟩
      · rw [← ha]; split <;> rfl
      · rw [← hi]; split <;> rfl
  · rintro (⟨m, hm, ha, hi⟩ | ⟨rfl, rfl⟩)
    · unfold HasBox openDb
      cases h : d.findMailbox app mb with
      | none => exact ⟨m, by simp [hm], ha, hi⟩
      | some row =>
        refine ⟨if m.app = app ∧ m.id = mb then { m with updated := t } else m, ?_, ?_, ?_⟩
        · simp only [List.mem_map]; exact ⟨m, hm, rfl⟩
        · rw [← ha]; split <;> rfl
        · rw [← hi]; split <;> rfl
    · exact openDb_hasBox d app' mb' side t

end openDb

/-! ### `dropMailbox`, table by table -/

section dropMailbox
variable (d : Chan) (app mb : String)

@[simp] theorem dropMailbox_nextNp : (d.dropMailbox app mb).nextNp = d.nextNp := rfl

theorem mem_dropMailbox_mailboxes {m : MailboxRow} :
    m ∈ (d.dropMailbox app mb).mailboxes ↔ m ∈ d.mailboxes ∧ ¬ (m.app = app ∧ m.id = mb) := by
  simp only [dropMailbox, List.mem_filter, decide_eq_true_eq]

theorem mem_dropMailbox_mbSides {r : MbSide} :
    r ∈ (d.dropMailbox app mb).mbSides ↔ r ∈ d.mbSides ∧ r.mailbox ≠ mb := by
  simp [dropMailbox, List.mem_filter]

theorem mem_dropMailbox_messages {r : Message} :
    r ∈ (d.dropMailbox app mb).messages ↔ r ∈ d.messages ∧ ¬ (r.app = app ∧ r.mailbox = mb) := by
  simp only [dropMailbox, List.mem_filter, decide_eq_true_eq]

theorem mem_dropMailbox_nameplates {n : Nameplate} :
    n ∈ (d.dropMailbox app mb).nameplates ↔ n ∈ d.nameplates ∧ ¬ (n.app = app ∧ n.mailbox = mb) := by
  simp only [dropMailbox, List.mem_filter, decide_eq_true_eq]

theorem mem_dropMailbox_npSides {r : NpSide} :
    r ∈ (d.dropMailbox app mb).npSides ↔
      r ∈ d.npSides ∧ ¬ ∃ n ∈ d.nameplates, n.id = r.npid ∧ n.app = app ∧ n.mailbox = mb := by
  simp [dropMailbox, List.mem_filter]

/-- the deleted mailbox is gone ... -/
theorem dropMailbox_not_hasBox : ¬ (d.dropMailbox app mb).HasBox app mb := by
  rintro ⟨m, hm, ha, hi⟩
  exact ((mem_dropMailbox_mailboxes d app mb).1 hm).2 ⟨ha, hi⟩

/-- ... with all its side rows ... -/
theorem dropMailbox_mbSidesOf_self : (d.dropMailbox app mb).mbSidesOf mb = [] := by
  simp [mbSidesOf, dropMailbox, List.filter_filter, List.filter_eq_nil_iff]

/-- ... all its messages ... -/
theorem dropMailbox_messagesOf_self : (d.dropMailbox app mb).messagesOf app mb = [] := by
  simp only [messagesOf, dropMailbox, List.filter_filter, List.filter_eq_nil_iff]
  intro r _; simp

/-- ... and every nameplate pointing at it -/
theorem dropMailbox_nameplatesOfMailbox_self : (d.dropMailbox app mb).nameplatesOfMailbox app mb = [] := by
  simp only [nameplatesOfMailbox, dropMailbox, List.filter_filter, List.filter_eq_nil_iff]
  intro r _; simp

/-- FRAME: every other mailbox row is kept, with its side rows ... -/
theorem dropMailbox_mbSidesOf_other {mb' : String} (h : mb' ≠ mb) :
    (d.dropMailbox app mb).mbSidesOf mb' = d.mbSidesOf mb' := by
  simp only [mbSidesOf, dropMailbox, List.filter_filter]
  apply List.filter_congr
  intro r _
  by_cases hr : r.mailbox = mb' <;> simp [hr, h]

/-- ... and its messages -/
theorem dropMailbox_messagesOf_other {app' mb' : String} (h : ¬ (app' = app ∧ mb' = mb)) :
    (d.dropMailbox app mb).messagesOf app' mb' = d.messagesOf app' mb' := by
  simp only [messagesOf, dropMailbox, List.filter_filter]
  apply List.filter_congr
  intro r _
  by_cases hr : r.app = app' ∧ r.mailbox = mb'
  · obtain ⟨h1, h2⟩ := hr
    simp [h1, h2, h]
  · simp [hr]

/-- FRAME: every nameplate not pointing at (app, mb) is kept with exactly its side rows
    (needs unique nameplate ids) -/
theorem dropMailbox_npSidesOf_other (hids : d.nameplates.Pairwise (fun a b => ¬ a.id = b.id))
    {n : Nameplate} (hn : n ∈ d.nameplates) (h : ¬ (n.app = app ∧ n.mailbox = mb)) :
    (d.dropMailbox app mb).npSidesOf n.id = d.npSidesOf n.id := by
  simp only [npSidesOf, dropMailbox, List.filter_filter]
  apply List.filter_congr
  intro r _
  by_cases hr : r.npid = n.id
  · simp only [hr, decide_true, Bool.true_and, decide_eq_true_eq]
    rintro ⟨n', hn', hid, ha, hm⟩
    have : n' = n := eq_of_pairwise_ne (f := Nameplate.id) hids hn' hn hid
    subst this
    exact h ⟨ha, hm⟩
  · simp [hr]

end dropMailbox

/-! ### the statements of `Mailbox.close` compute `dropMailbox` (needs `PInv`) -/

theorem filter_map_of_fix {α : Type} (f : α → α) (p : α → Bool) (h1 : ∀ x, p (f x) = p x)
    (h2 : ∀ x, p x = true → f x = x) (l : List α) : (l.map f).filter p = l.filter p := by
  induction l with
  | nil => rfl
  | cons x rest ih =>
    simp only [List.map_cons, List.filter_cons, h1]
    split
    · rename_i hx; rw [h2 x hx, ih]
    · exact ih

theorem map_filter_map_of_inv {α β : Type} (f : α → α) (p : α → Bool) (g : α → β)
    (h1 : ∀ x, p (f x) = p x) (h2 : ∀ x, g (f x) = g x) (l : List α) :
    ((l.map f).filter p).map g = (l.filter p).map g := by
  induction l with
  | nil => rfl
  | cons x rest ih =>
    simp only [List.map_cons, List.filter_cons, h1]
    split
    · simp only [List.map_cons, h2, ih]
    · exact ih

theorem closeSide_mbSides_filter (d : Chan) (mb side : String) (mood : Option String) :
    (d.closeSide mb side mood).mbSides.filter (fun r => ¬ r.mailbox = mb) =
      d.mbSides.filter (fun r => ¬ r.mailbox = mb) := by
  simp only [closeSide]
  apply filter_map_of_fix
  · intro x; split <;> rfl
  · intro x hx
    have : ¬ x.mailbox = mb := by simpa using hx
    simp [this]

/-- the five DELETEs of `Mailbox.close` remove exactly what belongs to (app, mb) -/
theorem deletes_eq_dropMailbox {d : Chan} (hids : d.mailboxes.Pairwise (fun a b => ¬ a.id = b.id))
    (hfk : ∀ r ∈ d.messages, ∃ m ∈ d.mailboxes, m.id = r.mailbox ∧ m.app = r.app)
    {app mb : String} (h : d.HasBox app mb) :
    ((((d.delNpSidesOfMailbox app mb).delNameplatesOfMailbox app mb).delMessagesOf mb).delMbSidesOf
      mb).delMailbox mb = d.dropMailbox app mb := by
  simp only [delNpSidesOfMailbox, delNameplatesOfMailbox, delMessagesOf, delMbSidesOf, delMailbox,
    dropMailbox, nameplatesOfMailbox]
  congr 1
  · -- nameplate sides
    apply List.filter_congr
    intro r _
    apply decide_eq_decide.2
    simp only [List.mem_map, List.mem_filter, decide_eq_true_eq]
    apply not_congr
    constructor
    · rintro ⟨n, ⟨hn, hk⟩, e⟩; exact ⟨n, hn, e, hk⟩
    · rintro ⟨n, hn, e, hk⟩; exact ⟨n, ⟨hn, hk⟩, e⟩
  · -- mailboxes
    apply List.filter_congr
    intro m hm
    by_cases hid : m.id = mb
    · simp [hid, app_of_id hids h hm hid]
    · simp [hid]
  · -- messages
    apply List.filter_congr
    intro r hr
    by_cases hid : r.mailbox = mb
    · obtain ⟨m, hm, e1, e2⟩ := hfk r hr
      have := app_of_id hids h hm (e1.trans hid)
      simp [hid, ← e2, this]
    · simp [hid]

theorem closeSide_hasBox {d : Chan} {mb side : String} {mood : Option String} {app' mb' : String} :
    (d.closeSide mb side mood).HasBox app' mb' ↔ d.HasBox app' mb' := Iff.rfl

theorem dropMailbox_closeSide (d : Chan) (app mb side : String) (mood : Option String) :
    (d.closeSide mb side mood).dropMailbox app mb = d.dropMailbox app mb := by
  have := closeSide_mbSides_filter d mb side mood
  simp only [dropMailbox] at this ⊢
  simp only [this]
  rfl

/-- `closeSide` touches only the `mailbox_sides` table, and there only the row (mb, side) -/
theorem mem_closeSide_mbSides {d : Chan} {mb side : String} {mood : Option String} {r : MbSide} :
    r ∈ (d.closeSide mb side mood).mbSides ↔
      (r ∈ d.mbSides ∧ ¬ (r.mailbox = mb ∧ r.side = side)) ∨
      (∃ r0 ∈ d.mbSides, r0.mailbox = mb ∧ r0.side = side ∧
        r = { r0 with opened := false, mood := mood }) := by
  simp only [closeSide, List.mem_map]
  constructor
  · rintro ⟨r0, h0, rfl⟩
    by_cases h : r0.mailbox = mb ∧ r0.side = side
    · exact Or.inr ⟨r0, h0, h.1, h.2, by simp [h]⟩
    · exact Or.inl (by simp [h, h0])
  · rintro (⟨h0, h⟩ | ⟨r0, h0, h1, h2, rfl⟩)
    · exact ⟨r, h0, by simp [h]⟩
    · exact ⟨r0, h0, by simp [h1, h2]⟩

/-- the side rows of another mailbox are untouched by `closeSide` -/
theorem closeSide_mbSidesOf_other (d : Chan) (mb side : String) (mood : Option String) {mb' : String}
    (h : mb' ≠ mb) : (d.closeSide mb side mood).mbSidesOf mb' = d.mbSidesOf mb' := by
  simp only [mbSidesOf, closeSide]
  apply filter_map_of_fix
  · intro x; split <;> rfl
  · intro x hx
    have : x.mailbox = mb' := by simpa using hx
    have : ¬ x.mailbox = mb := fun e => h (this.symm.trans e)
    simp [this]

/-- `closeSide` keeps the sides (and their order) of every mailbox -/
theorem closeSide_sidesOf (d : Chan) (mb side : String) (mood : Option String) (mb' : String) :
    (d.closeSide mb side mood).sidesOf mb' = d.sidesOf mb' := by
  simp only [sidesOf, mbSidesOf, closeSide]
  apply map_filter_map_of_inv
  · intro x; split <;> rfl
  · intro x; split <;> rfl

/-! ### `open_mailbox` statement by statement = `openDb` -/

/-- the statements of `_add_mailbox` + `Mailbox.open`, composed -/
def openRaw (d : Chan) (app mb side : String) (t : Time) : Chan :=
  let d1 := match d.findMailbox app mb with
    | some _ => d
    | none => d.insMailbox ⟨app, mb, t, false⟩
  let d2 := match d1.findMbSide mb side with
    | none => d1.insMbSide ⟨mb, true, side, t, none⟩
    | some _ => d1
  d2.touch mb t

theorem map_eq_self {α : Type} (f : α → α) (l : List α) (h : ∀ x ∈ l, f x = x) : l.map f = l := by
  induction l with
  | nil => rfl
  | cons x rest ih =>
    simp only [List.map_cons]
    rw [h x (by simp), ih (fun y hy => h y (by simp [hy]))]

theorem openRaw_eq_openDb {d : Chan} (hids : d.mailboxes.Pairwise (fun a b => ¬ a.id = b.id))
    {app mb : String} (side : String) (t : Time)
    (hc : ¬ d.Clash app mb) : d.openRaw app mb side t = d.openDb app mb side t := by
  unfold openRaw openDb
  cases hm : d.findMailbox app mb with
  | some row =>
    have hh : d.HasBox app mb := findMailbox_isSome.1 (by simp [hm])
    have hmap : d.mailboxes.map (fun r => if r.id = mb then { r with updated := t } else r) =
        d.mailboxes.map (fun r => if r.app = app ∧ r.id = mb then { r with updated := t } else r) := by
      apply List.map_congr_left
      intro m hmem
      by_cases hid : m.id = mb
      · simp [hid, app_of_id hids hh hmem hid]
      · simp [hid]
    dsimp only
    cases hs : d.findMbSide mb side <;> simp [touch, insMbSide, hmap]
  | none =>
    have hno : ∀ m ∈ d.mailboxes, m.id ≠ mb := by
      intro m hmem hid
      have hnh := findMailbox_eq_none.1 hm
      apply hc
      refine ⟨⟨m, hmem, hid, ?_⟩, hnh⟩
      intro ha
      exact hnh ⟨m, hmem, ha, hid⟩
    have hmap : (d.mailboxes ++ [(⟨app, mb, t, false⟩ : MailboxRow)]).map
          (fun r => if r.id = mb then { r with updated := t } else r) =
        d.mailboxes ++ [⟨app, mb, t, false⟩] := by
      apply map_eq_self
      intro m hmem
      simp only [List.mem_append, List.mem_singleton] at hmem
      rcases hmem with hmem | rfl
      · simp [hno m hmem]
      · simp
    have e1 : (d.insMailbox ⟨app, mb, t, false⟩).findMbSide mb side = d.findMbSide mb side := rfl
    dsimp only
    rw [e1]
    cases hs : d.findMbSide mb side <;> simp [touch, insMbSide, insMailbox, hmap]

end Chan

namespace Sys

/-- the connection records, the usage database and the configuration are the same -/
structure SameRest (s s1 : Sys) : Prop where
  conns : s1.conns = s.conns
  udb : s1.udb = s.udb
  udisk : s1.udisk = s.udisk
  cfg : s1.cfg = s.cfg
  rebooted : s1.rebooted = s.rebooted

theorem SameRest.refl (s : Sys) : SameRest s s := ⟨rfl, rfl, rfl, rfl, rfl⟩
theorem SameRest.trans {a b c : Sys} (h1 : SameRest a b) (h2 : SameRest b c) : SameRest a c :=
  ⟨h2.conns.trans h1.conns, h2.udb.trans h1.udb, h2.udisk.trans h1.udisk, h2.cfg.trans h1.cfg,
   h2.rebooted.trans h1.rebooted⟩

@[simp] theorem modDb_rebooted_mbx (s : Sys) (f) : (s.modDb f).rebooted = s.rebooted := rfl
@[simp] theorem modUdb_rebooted_mbx (s : Sys) (f) : (s.modUdb f).rebooted = s.rebooted := rfl
@[simp] theorem updConn_rebooted_mbx (s : Sys) (c f) : (s.updConn c f).rebooted = s.rebooted := rfl
@[simp] theorem stopListeners_rebooted_mbx (s : Sys) (a m) : (s.stopListeners a m).rebooted = s.rebooted := rfl
@[simp] theorem emit_rebooted_mbx (s : Sys) (e) : (s.emit e).rebooted = s.rebooted := rfl
@[simp] theorem emit_conns_mbx (s : Sys) (e) : (s.emit e).conns = s.conns := rfl
@[simp] theorem commit_rebooted_mbx (s : Sys) : s.commit.rebooted = s.rebooted := by
  unfold commit; split <;> rfl
@[simp] theorem ucommit_rebooted_mbx (s : Sys) : s.ucommit.rebooted = s.rebooted := by
  unfold ucommit; split <;> rfl

theorem SameRest.commit (s : Sys) : SameRest s s.commit := ⟨by simp, by simp, by simp, by simp, by simp⟩
theorem SameRest.modDb (s : Sys) (f) : SameRest s (s.modDb f) := ⟨rfl, rfl, rfl, rfl, rfl⟩

theorem mailboxOpen_rest (s : Sys) (mb side : String) (t : Time) : SameRest s (s.mailboxOpen mb side t) := by
  unfold mailboxOpen
  split
  · exact ((SameRest.modDb _ _).trans (SameRest.modDb _ _)).trans (SameRest.commit _)
  · exact (SameRest.modDb _ _).trans (SameRest.commit _)

theorem mailboxOpen_db (s : Sys) (mb side : String) (t : Time) :
    (s.mailboxOpen mb side t).db =
      (match s.db.findMbSide mb side with
        | none => s.db.insMbSide ⟨mb, true, side, t, none⟩
        | some _ => s.db).touch mb t := by
  unfold mailboxOpen
  split <;> simp_all

/-- **`open_mailbox`, exactly.**  IntegrityError iff the id exists under another app and not under
    this one, and then nothing at all changes; otherwise the database becomes `openDb` (the mailbox
    row exists, `updated := t`; the side row exists, created `opened` if it was absent and left
    alone if present; every other row of every table unchanged), everything is committed, no
    connection record and no usage row changes; `crowded` iff the mailbox then has more than two
    side rows. -/
theorem openMailbox_exact' {s s1 : Sys} {app mb side : String} {t : Time} {r : OpenRes}
    (hids : s.db.mailboxes.Pairwise (fun a b => ¬ a.id = b.id)) (h : s.openMailbox app mb side t = (s1, r)) :
    (r = .integrity ↔ s.db.Clash app mb) ∧
    (r = .integrity → s1 = s) ∧
    (r ≠ .integrity → s1.db = s.db.openDb app mb side t ∧ s1.disk = s1.db ∧ SameRest s s1) ∧
    (r = .crowded ↔ ¬ s.db.Clash app mb ∧ ((s.db.openDb app mb side t).mbSidesOf mb).length > 2) := by
  unfold openMailbox at h
  split at h
  · -- IntegrityError
    rename_i e
    simp only [Prod.mk.injEq] at h
    obtain ⟨rfl, rfl⟩ := h
    have hc : s.db.Clash app mb := by
      unfold addMailbox at e
      split at e
      · cases e
      · rename_i hn
        split at e
        · rename_i row hrow
          have hmem : row ∈ s.db.mailboxes := List.mem_of_find?_eq_some hrow
          have hid : row.id = mb := by simpa using List.find?_some hrow
          have hnh := Chan.findMailbox_eq_none.1 hn
          exact ⟨⟨row, hmem, hid, fun ha => hnh ⟨row, hmem, ha, hid⟩⟩, hnh⟩
        · cases e
    exact ⟨⟨fun _ => hc, fun _ => rfl⟩, fun _ => rfl, (fun hne => absurd rfl hne),
      ⟨(fun hh => by cases hh), fun hh => absurd hc hh.1⟩⟩
  · rename_i s0 e
    have hnc : ¬ s.db.Clash app mb := by
      rintro ⟨⟨m, hm, hid, hne⟩, hnh⟩
      unfold addMailbox at e
      rw [Chan.findMailbox_eq_none.2 hnh] at e
      simp only at e
      split at e
      · cases e
      · rename_i hnone
        exact Chan.findMailboxById_eq_none.1 hnone m hm hid
    have hdb : ((s0.mailboxOpen mb side t).commit).db = s.db.openRaw app mb side t := by
      rw [commit_db, mailboxOpen_db]
      unfold addMailbox at e
      unfold Chan.openRaw
      split at e
      · rename_i row hrow
        cases e
        simp [hrow]
      · rename_i hn
        split at e
        · cases e
        · cases e
          simp [hn]
    have hrest : SameRest s ((s0.mailboxOpen mb side t).commit) := by
      have h0 : SameRest s s0 := by
        unfold addMailbox at e
        split at e
        · cases e; exact SameRest.refl _
        · split at e
          · cases e
          · cases e; exact SameRest.modDb _ _
      exact (h0.trans (mailboxOpen_rest _ _ _ _)).trans (SameRest.commit _)
    rw [Chan.openRaw_eq_openDb hids side t hnc] at hdb
    dsimp only at h
    split at h
    · rename_i hlen
      simp only [Prod.mk.injEq] at h
      obtain ⟨rfl, rfl⟩ := h
      rw [hdb] at hlen
      exact ⟨⟨(fun hh => by cases hh), fun hh => absurd hh hnc⟩, (fun hh => by cases hh),
        fun _ => ⟨hdb, by simp, hrest⟩, ⟨fun _ => ⟨hnc, hlen⟩, fun _ => rfl⟩⟩
    · rename_i hlen
      simp only [Prod.mk.injEq] at h
      obtain ⟨rfl, rfl⟩ := h
      rw [hdb] at hlen
      exact ⟨⟨(fun hh => by cases hh), fun hh => absurd hh hnc⟩, (fun hh => by cases hh),
        fun _ => ⟨hdb, by simp, hrest⟩, ⟨(fun hh => by cases hh), fun hh => absurd hh.2 hlen⟩⟩

/-- `openMailbox_exact'` from `PInv` (only the uniqueness of mailbox ids is used) -/
theorem openMailbox_exact {s s1 : Sys} {app mb side : String} {t : Time} {r : OpenRes}
    (hP : s.db.PInv) (h : s.openMailbox app mb side t = (s1, r)) :
    (r = .integrity ↔ s.db.Clash app mb) ∧
    (r = .integrity → s1 = s) ∧
    (r ≠ .integrity → s1.db = s.db.openDb app mb side t ∧ s1.disk = s1.db ∧ SameRest s s1) ∧
    (r = .crowded ↔ ¬ s.db.Clash app mb ∧ ((s.db.openDb app mb side t).mbSidesOf mb).length > 2) :=
  openMailbox_exact' hP.mbIds h

/-! ### `Mailbox.close` -/

/-- is some side of `mb` other than `side` still open? (decides between the two cases of close) -/
def _root_.Wormhole.Chan.OtherOpen (d : Chan) (mb side : String) : Prop :=
  ∃ r ∈ d.mbSides, r.mailbox = mb ∧ r.side ≠ side ∧ r.opened = true

instance (d : Chan) (mb side : String) : Decidable (d.OtherOpen mb side) := by
  unfold Chan.OtherOpen; infer_instance

theorem _root_.Wormhole.Chan.closeSide_any_opened (d : Chan) (mb side : String) (mood : Option String) :
    ((d.closeSide mb side mood).mbSidesOf mb).any (·.opened) = true ↔ d.OtherOpen mb side := by
  simp only [List.any_eq_true, Chan.mbSidesOf, List.mem_filter, decide_eq_true_eq, Chan.OtherOpen]
  constructor
  · rintro ⟨r, ⟨hr, hm⟩, ho⟩
    rcases Chan.mem_closeSide_mbSides.1 hr with ⟨h0, hk⟩ | ⟨r0, h0, h1, h2, rfl⟩
    · exact ⟨r, h0, hm, fun e => hk ⟨hm, e⟩, ho⟩
    · simp at ho
  · rintro ⟨r, hr, hm, hs, ho⟩
    exact ⟨r, ⟨Chan.mem_closeSide_mbSides.2 (Or.inl ⟨hr, fun hk => hs hk.2⟩), hm⟩, ho⟩

/-- the connection records after the stop callbacks of a deleted mailbox (repair B) -/
def stoppedConns (cs : List Conn) (app mb : String) : List Conn :=
  cs.map (fun x => if x.listening ∧ x.app = some app ∧ x.mailbox = some mb
    then { x with mailbox := none, listening := false } else x)

/-- the usage rows a deleting close appends: one mailbox row, one nameplate row per deleted
    nameplate (what the rows say is C15's business) -/
structure CloseUsage (s s1 : Sys) (app mb : String) : Prop where
  current : s1.udb.current = s.udb.current
  clients : s1.udb.clients = s.udb.clients
  off : s.cfg.usage = false → s1.udb = s.udb
  mailboxes : s.cfg.usage = true → ∃ u, s1.udb.mailboxes = s.udb.mailboxes ++ [u] ∧ u.app = app
  nameplates : s.cfg.usage = true → ∃ us, s1.udb.nameplates = s.udb.nameplates ++ us ∧
    us.length = (s.db.nameplatesOfMailbox app mb).length ∧ ∀ u ∈ us, u.app = app

/-- what the loop of repair F does to everything but the pending usage rows -/
theorem storeNameplatesOfMailbox_rest {app t} (l : List Nameplate) :
    ∀ {s s1 : Sys} {b}, s.storeNameplatesOfMailbox app t l = (s1, b) →
      s1.conns = s.conns ∧ s1.rebooted = s.rebooted ∧ s1.udb.current = s.udb.current ∧
      s1.udb.clients = s.udb.clients ∧ s1.udb.mailboxes = s.udb.mailboxes ∧
      (b = true → ∃ us, s1.udb.nameplates = s.udb.nameplates ++ us ∧ us.length = l.length ∧
        ∀ u ∈ us, u.app = app) := by
  induction l with
  | nil =>
    intro s s1 b h
    simp only [storeNameplatesOfMailbox, Prod.mk.injEq] at h
    obtain ⟨rfl, rfl⟩ := h
    exact ⟨rfl, rfl, rfl, rfl, rfl, fun _ => ⟨[], by simp, rfl, by simp⟩⟩
  | cons np rest ih =>
    intro s s1 b h
    unfold storeNameplatesOfMailbox at h
    have key : ∀ {s0 : Sys} {b0}, s.storeNameplateUsage app (s.db.npSidesOf np.id) t false = (s0, b0) →
        s0.conns = s.conns ∧ s0.rebooted = s.rebooted ∧ s0.udb.current = s.udb.current ∧
        s0.udb.clients = s.udb.clients ∧ s0.udb.mailboxes = s.udb.mailboxes ∧
        (b0 = true → ∃ u, s0.udb.nameplates = s.udb.nameplates ++ [u] ∧ u.app = app) := by
      intro s0 b0 e
      unfold storeNameplateUsage at e
      split at e
      · simp only [Prod.mk.injEq] at e
        obtain ⟨rfl, rfl⟩ := e
        exact ⟨rfl, rfl, rfl, rfl, rfl, fun hh => by cases hh⟩
      · simp only [Prod.mk.injEq] at e
        obtain ⟨rfl, rfl⟩ := e
        exact ⟨rfl, rfl, rfl, rfl, rfl, fun _ => ⟨_, rfl, rfl⟩⟩
    split at h
    · rename_i s0 e
      simp only [Prod.mk.injEq] at h
      obtain ⟨rfl, rfl⟩ := h
      obtain ⟨k1, k2, k3, k4, k5, _⟩ := key e
      exact ⟨k1, k2, k3, k4, k5, fun hh => by cases hh⟩
    · rename_i s0 e
      obtain ⟨k1, k2, k3, k4, k5, k6⟩ := key e
      obtain ⟨j1, j2, j3, j4, j5, j6⟩ := ih h
      refine ⟨j1.trans k1, j2.trans k2, j3.trans k3, j4.trans k4, j5.trans k5, ?_⟩
      intro hb
      obtain ⟨u, hu, hua⟩ := k6 rfl
      obtain ⟨us, hus, hlen, hall⟩ := j6 hb
      refine ⟨u :: us, by rw [hus, hu]; simp, by simp [hlen], ?_⟩
      intro u' hu'
      simp only [List.mem_cons] at hu'
      rcases hu' with rfl | hu'
      · exact hua
      · exact hall u' hu'

/-- **`Mailbox.close`, exactly** (from a database satisfying `PInv` in which every nameplate has a
    side row, i.e. `CInv`): it never fails; without the mailbox row or the side row nothing
    changes; otherwise the side row gets `opened := false, mood := mood` and
    * if another side of `mb` is still open NOTHING else changes (`closeSide` touches that one
      row only; no connection record, no usage row);
    * else the database is `dropMailbox` of the old one: the mailbox row, its side rows, its
      messages, the nameplates of `app` pointing at it and their side rows are gone and EVERY
      OTHER ROW OF EVERY TABLE IS UNCHANGED; the connections that were listening on (app, mb)
      lose handle and subscription, all other connection records are unchanged; with a usage
      database one mailbox row and one nameplate row per deleted nameplate are appended.
    In all cases the channel database is committed afterwards. -/
theorem mailboxClose_exact {s s1 : Sys} {app mb side : String} {mood : Option String} {t : Time}
    {b : Bool} (hP : s.db.PInv) (hN : s.db.NpHasSide)
    (h : s.mailboxClose app mb side mood t = (s1, b)) :
    b = true ∧ s1.cfg = s.cfg ∧ s1.rebooted = s.rebooted ∧
    ((¬ s.db.HasBox app mb ∨ s.db.findMbSide mb side = none) → s1 = s) ∧
    (s.db.HasBox app mb → s.db.findMbSide mb side ≠ none →
      s1.disk = s1.db ∧
      (s.db.OtherOpen mb side → s1.db = s.db.closeSide mb side mood ∧ SameRest s s1) ∧
      (¬ s.db.OtherOpen mb side →
        s1.db = s.db.dropMailbox app mb ∧ s1.conns = stoppedConns s.conns app mb ∧
        CloseUsage s s1 app mb)) := by
  unfold mailboxClose at h
  split at h
  · rename_i hn
    simp only [Prod.mk.injEq] at h
    obtain ⟨rfl, rfl⟩ := h
    exact ⟨rfl, rfl, rfl, fun _ => rfl, fun hh => absurd hh (Chan.findMailbox_eq_none.1 hn)⟩
  · rename_i row hrow
    have hh : s.db.HasBox app mb := Chan.findMailbox_isSome.1 (by simp [hrow])
    split at h
    · rename_i hn
      simp only [Prod.mk.injEq] at h
      obtain ⟨rfl, rfl⟩ := h
      exact ⟨rfl, rfl, rfl, fun _ => rfl, fun _ hne => absurd hn hne⟩
    · rename_i r0 hr0
      have hsome : ¬ (¬ s.db.HasBox app mb ∨ s.db.findMbSide mb side = none) := by
        rintro (h1 | h1)
        · exact h1 hh
        · rw [hr0] at h1; cases h1
      dsimp only at h
      split at h
      · -- another side is open
        rename_i hany
        simp only [Prod.mk.injEq] at h
        obtain ⟨rfl, rfl⟩ := h
        have hoo : s.db.OtherOpen mb side := by
          rw [← Chan.closeSide_any_opened s.db mb side mood]; simpa using hany
        refine ⟨rfl, by simp, by simp, fun hx => absurd hx hsome, fun _ _ => ⟨by simp, ?_, ?_⟩⟩
        · intro _
          exact ⟨by simp, (SameRest.modDb _ _).trans (SameRest.commit _)⟩
        · intro hno; exact absurd hoo hno
      · rename_i hany
        have hoo : ¬ s.db.OtherOpen mb side := by
          rw [← Chan.closeSide_any_opened s.db mb side mood]; simpa using hany
        generalize hE : (if ((s.modDb _).commit).cfg.usage then _ else _) = p at h
        obtain ⟨s2, ok⟩ := p
        obtain ⟨u, hok, hud⟩ := closeStore_spec hE
        have hokt : ok = true := by
          apply hok
          intro n hn
          simp only [commit_db, modDb_db] at hn ⊢
          exact npSidesOf_ne_nil (d := s.db.closeSide mb side mood) hN (List.mem_filter.1 hn).1
        subst hokt
        have hrest : s2.conns = s.conns ∧ s2.rebooted = s.rebooted ∧ s2.udb.current = s.udb.current ∧
            s2.udb.clients = s.udb.clients ∧ s2.udb.mailboxes = s.udb.mailboxes ∧
            (s.cfg.usage = true → ∃ us, s2.udb.nameplates = s.udb.nameplates ++ us ∧
              us.length = (s.db.nameplatesOfMailbox app mb).length ∧ ∀ u ∈ us, u.app = app) := by
          split at hE
          · obtain ⟨j1, j2, j3, j4, j5, j6⟩ := storeNameplatesOfMailbox_rest _ hE
            simp only [commit_conns, modDb_conns, commit_rebooted_mbx, commit_udb, modDb_udb, commit_db,
              modDb_db] at j1 j2 j3 j4 j5 j6
            exact ⟨j1, j2, j3, j4, j5, fun _ => j6 trivial⟩
          · rename_i hu
            simp only [Prod.mk.injEq] at hE
            obtain ⟨rfl, _⟩ := hE
            simp only [commit_cfg, modDb_cfg, Bool.not_eq_true] at hu
            exact ⟨by simp, by simp, by simp, by simp, by simp, fun hx => by simp [hu] at hx⟩
        obtain ⟨r1, r2, r3, r4, r5, r6⟩ := hrest
        obtain ⟨u1, u2, u3, u4, u5⟩ := u
        simp only [commit_db, commit_disk, commit_udb, commit_udisk, commit_cfg, commit_frames,
          modDb_db, modDb_udb, modDb_udisk, modDb_cfg, modDb_frames] at u1 u2 u3 u4 u5 hud
        dsimp only at h
        simp only [Bool.not_true, Bool.false_eq_true, if_false, Prod.mk.injEq] at h
        obtain ⟨rfl, rfl⟩ := h
        have hdel : (((((s2.db.delNpSidesOfMailbox app mb).delNameplatesOfMailbox app mb).delMessagesOf
            mb).delMbSidesOf mb).delMailbox mb) = s.db.dropMailbox app mb := by
          rw [u1, Chan.deletes_eq_dropMailbox (d := s.db.closeSide mb side mood) hP.mbIds hP.msgFk hh,
            Chan.dropMailbox_closeSide]
        refine ⟨rfl, ?_, ?_, fun hx => absurd hx hsome, fun _ _ => ⟨?_, fun hx => absurd hx hoo, fun _ => ⟨?_, ?_, ?_⟩⟩⟩
        · split <;> simp [u4, storeMailboxUsage]
        · split <;> simp [r2, storeMailboxUsage, stopListeners]
        · simp
        · split <;> simp [storeMailboxUsage, hdel]
        · simp only [stopListeners, stoppedConns]
          split <;> simp [r1, storeMailboxUsage]
        · constructor
          · split <;> simp [storeMailboxUsage, r3]
          · split <;> simp [storeMailboxUsage, r4]
          · intro hu
            rw [if_neg (by simp [u4, hu])]
            simp [hud hu]
          · intro hu
            rw [if_pos (by simp [u4, hu])]
            exact ⟨_, by simp [storeMailboxUsage, r5]; rfl, rfl⟩
          · intro hu
            rw [if_pos (by simp [u4, hu])]
            obtain ⟨us, h1, h2, h3⟩ := r6 hu
            exact ⟨us, by simp [storeMailboxUsage, h1], h2, h3⟩

end Sys
end Wormhole
