/-
  The ledger (Inv/UsageLedger.lean) through the deleting functions of Core.lean that delete one
  row at a time: the expiry sweep (`pruneNameplates`, `pruneMailboxes`, `prune`, `pruneApps`,
  `expire`) and `release_nameplate`.  With a usage database configured, from a base database with
  `CInv`, none of them fails and each keeps "usage rows written ~ rows retired" exact.
-/
import Wormhole.Inv.UsageLedger

namespace Wormhole

/-- the blur function of a configuration -/
def Cfg.blurTime (c : Cfg) : Time → Time := ({ cfg := c } : Sys).blurTime

namespace Sys

theorem blurTime_eq_cfg (s : Sys) : s.blurTime = s.cfg.blurTime :=
  blurTime_congr (s := ({ cfg := s.cfg } : Sys)) (s1 := s) rfl

/-- the ledger on a system state: fixed configuration, `Led` of the two live databases -/
structure SLed (B : Chan) (U0 : Usage) (c0 : Cfg) (t : Time) (pruned : Bool) (s : Sys) : Prop where
  cfg : s.cfg = c0
  led : Led B U0 c0.blurTime t pruned s.db s.udb

variable {B : Chan} {U0 : Usage} {c0 : Cfg} {t : Time} {pruned : Bool}

theorem SLed.of_eq {s s' : Sys} (h : SLed B U0 c0 t pruned s) (hc : s'.cfg = s.cfg) (hd : s'.db = s.db)
    (hu : s'.udb = s.udb) : SLed B U0 c0 t pruned s' :=
  ⟨hc.trans h.cfg, by rw [hd, hu]; exact h.led⟩

theorem SLed.blur {s : Sys} (h : SLed B U0 c0 t pruned s) : s.blurTime = c0.blurTime := by
  rw [blurTime_eq_cfg, h.cfg]

theorem SLed.emit {s : Sys} (h : SLed B U0 c0 t pruned s) (e : Event) : SLed B U0 c0 t pruned (s.emit e) :=
  h.of_eq rfl rfl rfl
theorem SLed.send {s : Sys} (h : SLed B U0 c0 t pruned s) (c f) : SLed B U0 c0 t pruned (s.send c f) :=
  h.of_eq rfl rfl rfl
theorem SLed.sendError {s : Sys} (h : SLed B U0 c0 t pruned s) (c x) : SLed B U0 c0 t pruned (s.sendError c x) :=
  h.of_eq rfl rfl rfl
theorem SLed.internalErr {s : Sys} (h : SLed B U0 c0 t pruned s) (c x) :
    SLed B U0 c0 t pruned (s.internalErr c x) := h.of_eq rfl rfl rfl
theorem SLed.updConn {s : Sys} (h : SLed B U0 c0 t pruned s) (c f) : SLed B U0 c0 t pruned (s.updConn c f) :=
  h.of_eq rfl rfl rfl
theorem SLed.commit {s : Sys} (h : SLed B U0 c0 t pruned s) : SLed B U0 c0 t pruned s.commit :=
  h.of_eq (by simp) (by simp) (by simp)
theorem SLed.ucommit {s : Sys} (h : SLed B U0 c0 t pruned s) : SLed B U0 c0 t pruned s.ucommit :=
  h.of_eq (by simp) (by simp) (by simp)

theorem SLed.start {s : Sys} (hB : s.db.PInv) (t : Time) (pruned : Bool) :
    SLed s.db s.udb s.cfg t pruned s := ⟨rfl, Led.start hB⟩

/-! ### the sweep -/

theorem pruneNameplates_led (hB : B.PInv) (hN : B.NpHasSide) (hu : c0.usage = true) {app : String}
    {now : Time} (l : List Nameplate) :
    ∀ {s : Sys}, SLed B U0 c0 now true s → (∀ n ∈ l, n ∈ s.db.nameplates ∧ n.app = app) →
      l.Pairwise (fun a b => ¬ a.id = b.id) →
      ∃ s1, s.pruneNameplates app now l = (s1, true) ∧ SLed B U0 c0 now true s1 ∧
        s1.db.mailboxes = s.db.mailboxes := by
  induction l with
  | nil =>
    intro s h _ _
    exact ⟨s, rfl, h, rfl⟩
  | cons np rest ih =>
    intro s h hmem hpw
    obtain ⟨hnp, happ⟩ := hmem np List.mem_cons_self
    obtain ⟨hnprest, hpw'⟩ := List.pairwise_cons.1 hpw
    have hsides : s.db.npSidesOf np.id ≠ [] := by
      intro e
      have h1 := h.led.npSides np hnp
      rw [e] at h1
      have h2 := npSidesOf_ne_nil hN (h.led.npSub np hnp)
      exact h2 (by simpa using h1.symm)
    unfold pruneNameplates
    simp only [modDb_cfg, h.cfg, hu, if_true]
    rw [storeNameplateUsage_eq _ _ _ _ hsides]
    dsimp only
    have hbl : (s.modDb fun d => (d.delNpSidesOf np.id).delNameplate np.id).blurTime = c0.blurTime := by
      rw [blurTime_eq_cfg, modDb_cfg, h.cfg]
    have h2 : SLed B U0 c0 now true
        ((s.modDb fun d => (d.delNpSidesOf np.id).delNameplate np.id).modUdb fun d =>
          { d with nameplates := d.nameplates ++
            [npRecord (s.modDb fun d => (d.delNpSidesOf np.id).delNameplate np.id).blurTime app
              ((s.db.npSidesOf np.id).map (·.added)) now true] }) := by
      refine ⟨h.cfg, ?_⟩
      rw [hbl, ← happ]
      exact h.led.delNp hB hnp
    obtain ⟨s1, e1, h1, m1⟩ := ih h2 (by
      intro n hn
      obtain ⟨hn0, ha⟩ := hmem n (List.mem_cons_of_mem _ hn)
      refine ⟨?_, ha⟩
      simp only [modUdb_db, modDb_db, Chan.delNameplate, Chan.delNpSidesOf, List.mem_filter, decide_not,
        Bool.not_eq_eq_eq_not, Bool.not_true, decide_eq_false_iff_not]
      exact ⟨hn0, fun e => hnprest n hn e.symm⟩) hpw'
    exact ⟨s1, e1, h1, m1⟩

theorem pruneMailboxes_led (hB : B.PInv) (hu : c0.usage = true) {app : String} {now : Time}
    (l : List MailboxRow) :
    ∀ {s : Sys}, SLed B U0 c0 now true s → (∀ r ∈ l, r ∈ s.db.mailboxes ∧ r.app = app) →
      l.Pairwise (fun a b => ¬ a.id = b.id) → SLed B U0 c0 now true (s.pruneMailboxes app now l) := by
  induction l with
  | nil => intro s h _ _; exact h
  | cons row rest ih =>
    intro s h hmem hpw
    obtain ⟨hrow, happ⟩ := hmem row List.mem_cons_self
    obtain ⟨hrest, hpw'⟩ := List.pairwise_cons.1 hpw
    unfold pruneMailboxes
    simp only [modDb_cfg, h.cfg, hu, if_true]
    rw [storeMailboxUsage_eq]
    have hbl : (s.modDb fun d => ((d.delMessagesOf row.id).delMbSidesOf row.id).delMailbox row.id).blurTime
        = c0.blurTime := by
      rw [blurTime_eq_cfg, modDb_cfg, h.cfg]
    apply ih
    · refine ⟨h.cfg, ?_⟩
      rw [hbl, ← happ]
      exact h.led.delMb hB hrow
    · intro r hr
      obtain ⟨hr0, ha⟩ := hmem r (List.mem_cons_of_mem _ hr)
      refine ⟨?_, ha⟩
      simp only [modUdb_db, modDb_db, Chan.delMailbox, Chan.delMbSidesOf, Chan.delMessagesOf, List.mem_filter,
        decide_not, Bool.not_eq_eq_eq_not, Bool.not_true, decide_eq_false_iff_not]
      exact ⟨hr0, fun e => hrest r hr e.symm⟩
    · exact hpw'

/-- `AppNamespace.prune` -/
theorem prune_led (hB : B.PInv) (hN : B.NpHasSide) (hu : c0.usage = true) {s : Sys} (app : String)
    (now old : Time) (h : SLed B U0 c0 now true s) :
    ∃ s1, s.prune app now old = (s1, true) ∧ SLed B U0 c0 now true s1 := by
  have h1 : SLed B U0 c0 now true ((s.touchListened app now).commit) := by
    apply SLed.commit
    refine ⟨h.cfg, ?_⟩
    exact h.led.touchSome (fun r => r.app = app ∧ s.listeners app r.id ≠ []) now
  rw [prune_eq]
  dsimp only
  unfold pruneRest
  generalize hs1 : (s.touchListened app now).commit = s1 at h1
  have hmemMb : ∀ r ∈ (s1.db.mailboxesOfApp app).filter (fun r => ¬ r.updated > old),
      r ∈ s1.db.mailboxes ∧ r.app = app := by
    intro r hr
    have := List.mem_filter.1 (List.mem_filter.1 hr).1
    exact ⟨this.1, by simpa using this.2⟩
  have hpwMb : ((s1.db.mailboxesOfApp app).filter (fun r => ¬ r.updated > old)).Pairwise
      (fun a b => ¬ a.id = b.id) := List.Pairwise.filter _ (List.Pairwise.filter _ h1.led.mbIds)
  obtain ⟨s2, e2, h2, m2⟩ := pruneNameplates_led hB hN hu (app := app) (now := now)
    ((s1.db.nameplatesOfApp app).filter
      (fun r => r.mailbox ∈ ((s1.db.mailboxesOfApp app).filter (fun r => ¬ r.updated > old)).map (·.id)))
    h1 (by
      intro n hn
      have := List.mem_filter.1 (List.mem_filter.1 hn).1
      exact ⟨this.1, by simpa using this.2⟩)
    (List.Pairwise.filter _ (List.Pairwise.filter _ h1.led.npIds))
  rw [e2]
  dsimp only
  have h3 := pruneMailboxes_led hB hu (app := app) (now := now)
    ((s1.db.mailboxesOfApp app).filter (fun r => ¬ r.updated > old)) h2
    (by rw [m2]; exact hmemMb) hpwMb
  split
  · refine ⟨_, rfl, ?_⟩
    split
    · exact h3.commit.ucommit
    · exact h3.commit
  · exact ⟨_, rfl, h3⟩

theorem pruneApps_led (hB : B.PInv) (hN : B.NpHasSide) (hu : c0.usage = true) {now old : Time}
    (l : List String) :
    ∀ {s : Sys}, SLed B U0 c0 now true s →
      ∃ s1, s.pruneApps now old l = (s1, true) ∧ SLed B U0 c0 now true s1 := by
  induction l with
  | nil => intro s h; exact ⟨s, rfl, h⟩
  | cons app rest ih =>
    intro s h
    obtain ⟨s1, e1, h1⟩ := prune_led hB hN hu app now old h
    obtain ⟨s2, e2, h2⟩ := ih h1
    refine ⟨s2, ?_, h2⟩
    unfold pruneApps
    rw [e1]
    exact e2

theorem dumpStats_led {s : Sys} (h : SLed B U0 c0 t pruned s) (now : Time) :
    SLed B U0 c0 t pruned (s.dumpStats now) := by
  unfold dumpStats
  split
  · apply SLed.ucommit
    exact ⟨h.cfg, h.led.current _⟩
  · exact h

/-- one firing of `expire()`, faulted or not -/
theorem expire_led (hB : B.PInv) (hN : B.NpHasSide) (hu : c0.usage = true) {s : Sys} (now : Time)
    (fault : Bool) (h : SLed B U0 c0 now true s) : SLed B U0 c0 now true (s.expire now fault) := by
  unfold expire
  dsimp only
  apply dumpStats_led
  split
  · exact (h.emit _).emit _
  · obtain ⟨s1, e1, h1⟩ := pruneApps_led hB hN hu (now := now) (old := now - Generated.expirationTicks)
      (s.emit (.fired now (now - Generated.expirationTicks))).allApps (h.emit _)
    rw [e1]
    exact h1

/-! ### `release_nameplate` -/

theorem releaseNameplate_led (hB : B.PInv) (hu : c0.usage = true) {s : Sys} (app name side : String)
    (h : SLed B U0 c0 t false s) :
    ∃ s1, s.releaseNameplate app name side t = (s1, true) ∧ SLed B U0 c0 t false s1 := by
  unfold releaseNameplate
  split
  · exact ⟨s, rfl, h⟩
  · rename_i np hnp
    split
    · exact ⟨s, rfl, h⟩
    · rename_i r0 hr0
      dsimp only
      have h1 : SLed B U0 c0 t false ((s.modDb (·.unclaim np.id side)).commit) :=
        SLed.commit ⟨h.cfg, h.led.unclaim np.id side⟩
      split
      · exact ⟨_, rfl, h1⟩
      · have hnpmem : np ∈ ((s.modDb (·.unclaim np.id side)).commit).db.nameplates := by
          simp only [commit_db, modDb_db, Chan.unclaim]
          exact List.mem_of_find?_eq_some hnp
        have happ : np.app = app := by
          have := List.find?_some hnp
          simp only [decide_eq_true_eq] at this
          exact this.1
        have hsides : ((s.modDb (·.unclaim np.id side)).commit).db.npSidesOf np.id ≠ [] := by
          simp only [commit_db, modDb_db]
          exact npSidesOf_unclaim_ne_nil hr0
        simp only [modDb_cfg, commit_cfg, h.cfg, hu, if_true]
        rw [storeNameplateUsage_eq _ _ _ _ hsides]
        dsimp only
        refine ⟨_, rfl, ?_⟩
        apply SLed.commit
        apply SLed.ucommit
        refine ⟨by simp [h.cfg], ?_⟩
        simp only [modUdb_db, modUdb_udb, modDb_db, modDb_udb]
        have hbl : (((s.modDb (·.unclaim np.id side)).commit).modDb
            fun d => (d.delNpSidesOf np.id).delNameplate np.id).blurTime = c0.blurTime := by
          rw [blurTime_eq_cfg]; simp [h.cfg]
        rw [hbl, ← happ]
        exact h1.led.delNp hB hnpmem

end Sys
end Wormhole
