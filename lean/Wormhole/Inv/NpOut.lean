/-
  Which steps can emit a `claimed` frame: only the `claim` command (so the ghost
  `claimedAnswers` of Props/C03.lean sees every `claimed` frame of a history).
-/
import Wormhole.Inv.WsLemmas

namespace Wormhole

/-- not a `claimed` frame -/
def NotClaimed : Event → Prop
  | .frame _ (.claimed _) _ => False
  | _ => True

namespace Sys.Np

theorem notClaimed_of_commit (e : Event) (h : IsCommit e) : NotClaimed e := by
  obtain ⟨w, rfl⟩ := h; trivial

theorem CExt.nc {s s' : Sys} (h : CExt s s') : OutExt NotClaimed s s' := h.mono notClaimed_of_commit

section handlers
variable {s : Sys} (x : Conn)

theorem sendError_nc {s0 s1 : Sys} (h : OutExt NotClaimed s0 s1) (c t) : OutExt NotClaimed s0 (s1.sendError c t) :=
  h.send (fun _ => trivial)

theorem internalErr_nc {s0 s1 : Sys} (h : OutExt NotClaimed s0 s1) (c t) :
    OutExt NotClaimed s0 (s1.internalErr c t) := h.emit trivial

theorem handlePing_nc (c v) : OutExt NotClaimed s (s.handlePing c v) := by
  unfold handlePing
  split
  · exact sendError_nc .refl _ _
  · exact OutExt.refl.send (fun _ => trivial)

theorem handleBind_nc (t a sd i v) : OutExt NotClaimed s (s.handleBind x t a sd i v) := by
  unfold handleBind
  split
  · exact sendError_nc .refl _ _
  · split
    · exact sendError_nc .refl _ _
    · split
      · exact sendError_nc .refl _ _
      · exact CExt.nc (CExt.logClientVersion (OutExt.updConn .refl))

theorem handleList_nc (app) : OutExt NotClaimed s (s.handleList x app) := by
  unfold handleList
  exact OutExt.refl.send (fun _ => trivial)

theorem handleAllocate_nc (app side t pick draws fresh) :
    OutExt NotClaimed s (s.handleAllocate x app side t pick draws fresh) := by
  unfold handleAllocate
  split
  · exact sendError_nc .refl _ _
  · split
    · exact internalErr_nc .refl _ _
    · rename_i name _
      have h := CExt.nc (CExt.claimNameplate (OutExt.refl (s := s)) (app := app) (name := name) (side := side)
        (t := t) (fresh := fresh))
      split <;> rename_i heq <;> rw [heq] at h
      · exact h.updConn.send (fun _ => trivial)
      · exact h.emit trivial
      · exact h.emit trivial
      · exact h.emit trivial

theorem handleRelease_nc (app side t n) : OutExt NotClaimed s (s.handleRelease x app side t n) := by
  have hgo : ∀ name, OutExt NotClaimed s
      (match (s.updConn x.id (fun y => { y with didRelease := true })).releaseNameplate app name side t with
        | (s1, true) => s1.send x.id .released
        | (s1, false) => s1.internalErr x.id "IndexError") := by
    intro name
    have h := CExt.nc (CExt.releaseNameplate (OutExt.updConn (OutExt.refl (s := s)) (c := x.id)
      (f := fun y => { y with didRelease := true })) (app := app) (name := name) (side := side) (t := t))
    split <;> rename_i heq <;> rw [heq] at h
    · exact h.send (fun _ => trivial)
    · exact h.emit trivial
  unfold handleRelease
  split
  · exact sendError_nc .refl _ _
  · dsimp only
    split
    · split
      · exact sendError_nc .refl _ _
      · exact hgo _
    · exact hgo _
    · exact hgo _
    · exact sendError_nc .refl _ _

theorem handleOpen_nc (app side t m) : OutExt NotClaimed s (s.handleOpen x app side t m) := by
  unfold handleOpen
  split
  · exact sendError_nc .refl _ _
  · split
    · exact sendError_nc .refl _ _
    · rename_i mb
      have h := CExt.nc (CExt.openMailbox (OutExt.updConn (OutExt.refl (s := s)) (c := x.id)
        (f := fun y => { y with mailboxId := some mb })) (app := app) (mb := mb) (side := side) (t := t))
      dsimp only
      split <;> rename_i heq <;> rw [heq] at h
      · exact h.send (fun _ => trivial)
      · exact h.emit trivial
      · unfold replay
        exact OutExt.foldl_send (fun _ => x.id)
          (fun (m : Message) => Frame.message m.side m.phase m.body m.rx m.msgId) _ h.updConn
          (fun _ _ _ => trivial)

theorem handleAdd_nc (app side t id ph bd) : OutExt NotClaimed s (s.handleAdd x app side t id ph bd) := by
  unfold handleAdd
  split
  · exact sendError_nc .refl _ _
  · split
    · exact sendError_nc .refl _ _
    · split
      · exact sendError_nc .refl _ _
      · unfold broadcast
        exact OutExt.foldl_send (fun c => c) (fun _ => Frame.message side _ _ t id) _
          (CExt.nc (CExt.addMessage OutExt.refl)) (fun _ _ _ => trivial)

theorem handleClose_nc (app side t m mood) : OutExt NotClaimed s (s.handleClose x app side t m mood) := by
  have hgo : ∀ mb, OutExt NotClaimed s
      (match (match x.mailbox with
          | some h => (s, OpenRes.ok, h)
          | none =>
            match s.openMailbox app mb side t with
            | (s1, r) =>
              (s1.updConn x.id (fun y => if r = .ok then { y with mailbox := some mb } else y), r, mb)
          : Sys × OpenRes × String) with
      | (s1, .crowded, _) => s1.sendError x.id "crowded"
      | (s1, .integrity, _) => s1.internalErr x.id "IntegrityError"
      | (s1, .ok, h) =>
        match (s1.updConn x.id (fun y => { y with listening := false, didClose := true })).mailboxClose
            app h side mood t with
        | (s3, false) => s3.internalErr x.id "IndexError"
        | (s3, true) => (s3.updConn x.id (fun y => { y with mailbox := none })).send x.id .closed) := by
    intro mb
    have hop : ∀ s1 r h, (match x.mailbox with
          | some h => (s, OpenRes.ok, h)
          | none =>
            match s.openMailbox app mb side t with
            | (s1, r) =>
              (s1.updConn x.id (fun y => if r = .ok then { y with mailbox := some mb } else y), r, mb)
          : Sys × OpenRes × String) = (s1, r, h) → OutExt NotClaimed s s1 := by
      intro s1 r h heq
      split at heq
      · cases heq; exact .refl
      · split at heq
        rename_i s1' r' hom
        cases heq
        have := CExt.openMailbox (OutExt.refl (s := s)) (app := app) (mb := mb) (side := side) (t := t)
        rw [hom] at this
        exact (CExt.nc this).updConn
    split <;> rename_i heq <;> have h := hop _ _ _ heq
    · exact h.send (fun _ => trivial)
    · exact h.emit trivial
    · rename_i _ s1 hh
      have hc := h.updConn.trans (CExt.nc (CExt.mailboxClose (OutExt.refl (s :=
        s1.updConn x.id (fun y => { y with listening := false, didClose := true })))
        (app := app) (mb := hh) (side := side) (mood := mood) (t := t)))
      split <;> rename_i heq2 <;> rw [heq2] at hc
      · exact hc.emit trivial
      · exact hc.updConn.send (fun _ => trivial)
  unfold handleClose
  split
  · exact sendError_nc .refl _ _
  · dsimp only
    split
    · split
      · exact sendError_nc .refl _ _
      · exact hgo _
    · exact hgo _
    · exact hgo _
    · exact sendError_nc .refl _ _

end handlers

/-- a command other than `claim` emits no `claimed` frame -/
theorem onMessage_nc {s : Sys} (c : Nat) (t : Time) (id : Val) {cmd : Cmd}
    (hcmd : ∀ n fresh, cmd ≠ .claim n fresh) : OutExt NotClaimed s (s.onMessage c t id cmd) := by
  unfold onMessage
  split
  · exact .refl
  · rename_i x _
    have ha : OutExt NotClaimed s (s.send c (.ack id)) := OutExt.refl.send (fun _ => trivial)
    cases cmd with
    | noType => exact sendError_nc .refl _ _
    | ping v => exact ha.trans (handlePing_nc _ _)
    | bind a sd i v => exact ha.trans (handleBind_nc _ _ _ _ _ _)
    | claim n fresh => exact absurd rfl (hcmd n fresh)
    | unknown => dsimp only; split <;> exact sendError_nc ha _ _
    | list =>
      dsimp only
      split
      · exact sendError_nc ha _ _
      · exact ha.trans (handleList_nc _ _)
    | allocate p d f =>
      dsimp only
      split
      · exact sendError_nc ha _ _
      · exact ha.trans (handleAllocate_nc _ _ _ _ _ _ _)
    | release n =>
      dsimp only
      split
      · exact sendError_nc ha _ _
      · exact ha.trans (handleRelease_nc _ _ _ _ _)
    | open_ m =>
      dsimp only
      split
      · exact sendError_nc ha _ _
      · exact ha.trans (handleOpen_nc _ _ _ _ _)
    | add ph bd =>
      dsimp only
      split
      · exact sendError_nc ha _ _
      · exact ha.trans (handleAdd_nc _ _ _ _ _ _ _)
    | close m mood =>
      dsimp only
      split
      · exact sendError_nc ha _ _
      · exact ha.trans (handleClose_nc _ _ _ _ _ _)

/-- every `claimed` frame goes to `c`, and `ok` holds if there is one -/
def ClaimedTo (c : Nat) (ok : Prop) (e : Event) : Prop :=
  ∀ c' m b, e = .frame c' (.claimed m) b → c' = c ∧ ok

theorem claimedTo_of_commit {c ok} (e : Event) (h : IsCommit e) : ClaimedTo c ok e := by
  obtain ⟨w, rfl⟩ := h
  intro c' m b h'; cases h'

theorem send_other {c ok} {s0 s1 : Sys} (h : OutExt (ClaimedTo c ok) s0 s1) (c1 : Nat) (f : Frame)
    (hf : ∀ m, f ≠ .claimed m) : OutExt (ClaimedTo c ok) s0 (s1.send c1 f) := by
  refine h.send (fun b c' m b' h' => ?_)
  cases h'
  exact absurd rfl (hf m)

/-- a `claim` sends a `claimed` frame to its own connection only, and only if that connection is
    bound and the command names a nameplate -/
theorem onMessage_claim_nc {s : Sys} (c : Nat) (t : Time) (id : Val) (n : Option String) (fresh : String)
    (ok : Prop) (hok : ∀ x a nm, s.findConn c = some x → x.app = some a → n = some nm → ok) :
    OutExt (ClaimedTo c ok) s (s.onMessage c t id (.claim n fresh)) := by
  unfold onMessage
  cases hx : s.findConn c with
  | none => exact .refl
  | some x =>
    rw [hx] at hok
    have hid : x.id = c := by simpa using List.find?_some hx
    dsimp only
    have ha : OutExt (ClaimedTo c ok) s (s.send c (.ack id)) := send_other .refl _ _ (fun _ h => by cases h)
    cases happ : x.app with
    | none => exact send_other ha _ _ (fun _ h => by cases h)
    | some a =>
      dsimp only
      refine ha.trans ?_
      unfold handleClaim
      cases n with
      | none => exact send_other .refl _ _ (fun _ h => by cases h)
      | some nm =>
        dsimp only
        split
        · exact send_other .refl _ _ (fun _ h => by cases h)
        · have h := (CExt.claimNameplate (OutExt.updConn (OutExt.refl (s := s.send c (.ack id))) (c := x.id)
            (f := fun y => { y with didClaim := true, nameplateId := some nm })) (app := a) (name := nm)
            (side := x.side.getD "") (t := t) (fresh := fresh)).mono (Q := ClaimedTo c ok) claimedTo_of_commit
          split <;> rename_i heq <;> rw [heq] at h
          · refine h.send (fun b c' m b' h' => ?_)
            cases h'
            exact ⟨hid, hok x a nm rfl happ rfl⟩
          · exact send_other h _ _ (fun _ h => by cases h)
          · exact send_other h _ _ (fun _ h => by cases h)
          · exact h.emit (fun _ _ _ h => by cases h)

end Sys.Np
end Wormhole
