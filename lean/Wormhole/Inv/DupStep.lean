/-
  C14 (re-sending an acknowledged command), part 3: the duplicate as operations.

      dup c' = [connect c', recv c' t id₁ (bind a σ impl ver), recv c' t id cmd', drop c']

  * `dup_prefix`   the first two operations: state `sb` = the state before plus one fresh connection
                   record bound to (a, σ) (`DupReady`); only the usage database may differ;
  * `dup_claim`, `dup_release`, `dup_open`, `dup_close_gone`, `dup_close_survived`
                   the third operation from such a state: exact answer, database unchanged
                   (`touch m t` of it for a close of a surviving mailbox: K-close-touch);
  * `dup_drop`     the fourth: the connection table is the one before the duplicate.
-/
import Wormhole.Inv.DupCore

namespace Wormhole
namespace Sys

/-- the record of the duplicate's connection after its `bind` -/
def dupConn (c' : Nat) (a σ : String) : Conn := { id := c', app := some a, side := some σ }

/-- `sb` is `s` plus one fresh connection `c'` bound to (a, σ); the usage database is free -/
structure DupReady (s sb : Sys) (c' : Nat) (a σ : String) : Prop where
  db : sb.db = s.db
  disk : sb.disk = s.disk
  cfg : sb.cfg = s.cfg
  conns : sb.conns = s.conns ++ [dupConn c' a σ]
  usync : sb.udb = sb.udisk

/-! ### connection tables with one fresh record at the end -/

theorem find_append_fresh {cs : List Conn} {c' : Nat} (hf : ∀ y ∈ cs, y.id ≠ c') (x : Conn) (hx : x.id = c') :
    (cs ++ [x]).find? (fun y => y.id = c') = some x := by
  rw [List.find?_append]
  have : cs.find? (fun y => decide (y.id = c')) = none := by
    simp only [List.find?_eq_none, decide_eq_true_eq]
    exact hf
  rw [this]
  simp [hx]

theorem map_append_fresh {cs : List Conn} {c' : Nat} (hf : ∀ y ∈ cs, y.id ≠ c') (x : Conn) (hx : x.id = c')
    (f : Conn → Conn) :
    (cs ++ [x]).map (fun y => if y.id = c' then f y else y) = cs ++ [f x] := by
  rw [List.map_append]
  congr 1
  · apply Chan.map_eq_self
    intro y hy
    rw [if_neg (hf y hy)]
  · simp [hx]

theorem filter_append_fresh {cs : List Conn} {c' : Nat} (hf : ∀ y ∈ cs, y.id ≠ c') (x : Conn) (hx : x.id = c') :
    (cs ++ [x]).filter (fun y => ¬ y.id = c') = cs := by
  rw [List.filter_append]
  have h1 : cs.filter (fun y => decide (¬ y.id = c')) = cs := by
    apply List.filter_eq_self.2
    intro y hy
    simpa using hf y hy
  rw [h1]
  simp [hx]

theorem DupReady.findConn {s sb : Sys} {c' : Nat} {a σ : String} (h : DupReady s sb c' a σ)
    (hf : ∀ y ∈ s.conns, y.id ≠ c') : sb.findConn c' = some (dupConn c' a σ) := by
  unfold Sys.findConn
  rw [h.conns]
  exact find_append_fresh hf _ rfl

theorem DupReady.synced {s sb : Sys} {c' : Nat} {a σ : String} (h : DupReady s sb c' a σ) (hs : s.Synced) :
    sb.Synced := ⟨by rw [h.db, h.disk]; exact hs.1, h.usync⟩

theorem logClientVersion_conns (s : Sys) (a sd : String) (t : Time) (i v : Option String) :
    (s.logClientVersion a sd t i v).conns = s.conns := by
  unfold logClientVersion
  split <;> simp

/-! ### `connect`, `bind` -/

/-- **the first two operations of the duplicate.**  From a state `s` with nothing uncommitted
    and no connection `c'`: after `connect c'` and `bind (a, σ)` the channel database, its
    committed copy and the configuration are those of `s`, the connection table is that of `s`
    plus the record of `c'`; the events are `welcome` to `c'`, then `ack` to `c'` followed by
    commits only (the usage commit of `log_client_version`, when a usage database exists). -/
theorem dup_prefix {s : Sys} (hs : s.Synced) {c' : Nat} (hf : ∀ y ∈ s.conns, y.id ≠ c') (a σ : String)
    (t : Time) (id₁ : Val) (impl ver : Option String) :
    DupReady s ((s.step (.connect c')).step (.recv c' t id₁ (.bind (some a) (some σ) impl ver))) c' a σ ∧
    (s.step (.connect c')).out = [.frame c' (.welcome s.cfg.welcome) true] ∧
    ∃ commits, (∀ e ∈ commits, IsCommit e) ∧
      ((s.step (.connect c')).step (.recv c' t id₁ (.bind (some a) (some σ) impl ver))).out =
        .frame c' (.ack id₁) true :: commits := by
  have hsy : s.synced = true := (synced_iff s).2 hs
  have hout1 : (s.step (.connect c')).out = [.frame c' (.welcome s.cfg.welcome) true] := by
    show [Event.frame c' (.welcome s.cfg.welcome) (({ s with out := [], snaps := [], conns := s.conns ++ [({ id := c' } : Conn)] } : Sys).synced)] = _
    have : (({ s with out := [], snaps := [], conns := s.conns ++ [({ id := c' } : Conn)] } : Sys).synced) = s.synced := rfl
    rw [this, hsy]
  -- the state the `bind` starts from
  generalize hA : (({ (s.step (.connect c')) with out := [], snaps := [] } : Sys)) = sa
  have hAdb : sa.db = s.db := by rw [← hA]; rfl
  have hAdisk : sa.disk = s.disk := by rw [← hA]; rfl
  have hAudb : sa.udb = s.udb := by rw [← hA]; rfl
  have hAudisk : sa.udisk = s.udisk := by rw [← hA]; rfl
  have hAcfg : sa.cfg = s.cfg := by rw [← hA]; rfl
  have hAconns : sa.conns = s.conns ++ [({ id := c' } : Conn)] := by rw [← hA]; rfl
  have hAout : sa.out = [] := by rw [← hA]
  have hAsy : sa.synced = true := by rw [← hA]; exact hsy
  have hfind : sa.findConn c' = some ({ id := c' } : Conn) := by
    unfold Sys.findConn
    rw [hAconns]
    exact find_append_fresh hf _ rfl
  have hstep : (s.step (.connect c')).step (.recv c' t id₁ (.bind (some a) (some σ) impl ver)) =
      ((sa.send c' (.ack id₁)).updConn c' (fun y => { y with app := some a, side := some σ })).logClientVersion
        a σ t impl ver := by
    rw [step_recv, hA]
    unfold onMessage
    rw [hfind]
    simp [handleBind]
  rw [hstep]
  refine ⟨⟨?_, ?_, ?_, ?_, ?_⟩, hout1, ?_⟩
  · simp only [logClientVersion_db, updConn_db]; exact hAdb
  · simp only [logClientVersion_disk, updConn_disk]; exact hAdisk
  · simp only [logClientVersion_cfg, updConn_cfg]; exact hAcfg
  · rw [logClientVersion_conns]
    show (sa.conns.map _) = _
    rw [hAconns]
    exact map_append_fresh hf _ rfl _
  · apply logClientVersion_usync
    show sa.udb = sa.udisk
    rw [hAudb, hAudisk]; exact hs.2
  · have hc := CExt.logClientVersion (OutExt.refl (s := (sa.send c' (.ack id₁)).updConn c'
      (fun y => { y with app := some a, side := some σ }))) (app := a) (side := σ) (t := t) (impl := impl)
      (version := ver)
    obtain ⟨l, hl, hcl⟩ := hc
    refine ⟨l, hcl, ?_⟩
    rw [hl]
    show (sa.out ++ [Event.frame c' (.ack id₁) sa.synced]) ++ l = _
    rw [hAout, hAsy]
    rfl

/-! ### `drop` -/

/-- **the last operation of the duplicate**: dropping `c'` from a connection table that is the
    one of `s` plus one record of `c'` gives back the table of `s`; nothing else changes and no
    event is emitted. -/
theorem dup_drop {s sc : Sys} {c' : Nat} (hf : ∀ y ∈ s.conns, y.id ≠ c') {y : Conn} (hy : y.id = c')
    (hc : sc.conns = s.conns ++ [y]) :
    (sc.step (.drop c')).conns = s.conns ∧ (sc.step (.drop c')).db = sc.db ∧
    (sc.step (.drop c')).disk = sc.disk ∧ (sc.step (.drop c')).cfg = sc.cfg ∧
    (sc.step (.drop c')).udb = sc.udb ∧ (sc.step (.drop c')).udisk = sc.udisk ∧
    (sc.step (.drop c')).out = [] := by
  refine ⟨?_, rfl, rfl, rfl, rfl, rfl, rfl⟩
  show sc.conns.filter (fun x => ¬ x.id = c') = s.conns
  rw [hc]
  exact filter_append_fresh hf y hy

/-! ### the third operation: `claim` -/

/-- a `claim` of `n` on a bound connection that has not claimed yet, as a state equation -/
theorem step_claim_eq {s : Sys} {c : Nat} {x : Conn} {a : String} (t : Time) (id : Val) (n fresh : String)
    (hx : s.findConn c = some x) (ha : x.app = some a) (hd : x.didClaim = false) :
    s.step (.recv c t id (.claim (some n) fresh)) =
      match (((({ s with out := [], snaps := [] } : Sys).send c (.ack id)).updConn c
          (fun y => { y with didClaim := true, nameplateId := some n })).claimNameplate a n (x.side.getD "") t fresh) with
      | (s1, .ok mb) => s1.send c (.claimed mb)
      | (s1, .crowded) => s1.sendError c "crowded"
      | (s1, .reclaimed) => s1.sendError c "reclaimed"
      | (s1, .integrity) => s1.internalErr c "IntegrityError" := by
  have hid := findConn_id hx
  rw [step_recv]
  unfold Sys.onMessage
  have : ({ s with out := [], snaps := [] } : Sys).findConn c = some x := hx
  rw [this]
  simp only [ha]
  unfold Sys.handleClaim
  simp only [hd, hid]
  rfl

/-- **the re-sent `claim`.**  `s`: a state with nothing uncommitted whose database is in the state a
    successful claim of `(a, n)` by side `σ` at `t` left (`ClaimDone`, see `claimNameplate_ok_done`);
    `sb`: `s` plus the fresh connection `c'` bound to `(a, σ)`.  Then `claim n` on `c'` at `t`, with
    ANY generated id `f'`, is answered `ack, commits, claimed m`; the channel database is unchanged,
    nothing is left uncommitted, only the record of `c'` changes. -/
theorem dup_claim {s sb : Sys} {c' : Nat} {a σ : String} (hR : DupReady s sb c' a σ) (hs : s.Synced)
    (hf : ∀ y ∈ s.conns, y.id ≠ c') (hP : s.db.PInv) {n m : String} {t : Time}
    (hD : s.db.ClaimDone a n σ m t) (id : Val) (f' : String) :
    ∀ sc, sc = sb.step (.recv c' t id (.claim (some n) f')) →
      sc.db = s.db ∧ sc.Synced ∧ sc.cfg = s.cfg ∧ (∃ y, y.id = c' ∧ sc.conns = s.conns ++ [y]) ∧
      ∃ commits, (∀ e ∈ commits, IsCommit e) ∧
        sc.out = .frame c' (.ack id) true :: (commits ++ [.frame c' (.claimed m) true]) := by
  intro sc hsc
  have hx := hR.findConn hf
  have hSb := hR.synced hs
  rw [step_claim_eq t id n f' hx rfl rfl] at hsc
  have hside : (dupConn c' a σ).side.getD "" = σ := rfl
  rw [hside] at hsc
  generalize hX : ((({ sb with out := [], snaps := [] } : Sys).send c' (.ack id)).updConn c'
    (fun y => { y with didClaim := true, nameplateId := some n })) = X at hsc
  have hXdb : X.db = s.db := by rw [← hX]; exact hR.db
  have hXdisk : X.disk = s.disk := by rw [← hX]; exact hR.disk
  have hXcfg : X.cfg = s.cfg := by rw [← hX]; exact hR.cfg
  have hXu : X.udb = X.udisk := by rw [← hX]; exact hR.usync
  have hXout : X.out = [.frame c' (.ack id) true] := by
    rw [← hX]
    show [Event.frame c' (.ack id) sb.synced] = _
    rw [(synced_iff sb).2 hSb]
  have hXconns : X.conns = s.conns ++ [{ dupConn c' a σ with didClaim := true, nameplateId := some n }] := by
    rw [← hX]
    show sb.conns.map _ = _
    rw [hR.conns]
    exact map_append_fresh hf _ rfl _
  obtain ⟨s2, e, e1, e2⟩ := claimNameplate_again (s' := X) (by rw [hXdb]; exact hP) (by rw [hXdb]; exact hD) f'
  obtain ⟨q, _, hd⟩ := claimNameplate_spec e (by rw [hXdb]; exact hP.bounded)
  have hsync2 : s2.Synced := ⟨hd (by rw [hXdb, hXdisk]; exact hs.1), by rw [q.udb, q.udisk]; exact hXu⟩
  have hcx := CExt.claimNameplate (OutExt.refl (s := X)) (app := a) (name := n) (side := σ) (t := t) (fresh := f')
  rw [e] at hcx
  obtain ⟨commits, hout, hc⟩ := hcx
  rw [e] at hsc
  dsimp only at hsc hout
  subst hsc
  refine ⟨e1.trans hXdb, hsync2, q.cfg.trans hXcfg, ⟨_, rfl, e2.trans hXconns⟩, commits, hc, ?_⟩
  show s2.out ++ [Event.frame c' (.claimed m) s2.synced] = _
  rw [(synced_iff s2).2 hsync2, hout, hXout]
  simp

/-! ### the third operation: `release` -/

/-- a `release` that passes validation, as a state equation -/
theorem step_release_eq {s : Sys} {c : Nat} {x : Conn} {a : String} (t : Time) (id : Val) (nm : Option String)
    (hx : s.findConn c = some x) (ha : x.app = some a) (hnr : rejectText x (.release nm) = none) :
    ∃ n, Np.releaseTarget x nm = some n ∧
      s.step (.recv c t id (.release nm)) =
        match (((({ s with out := [], snaps := [] } : Sys).send c (.ack id)).updConn c
            (fun y => { y with didRelease := true })).releaseNameplate a n (x.side.getD "") t) with
        | (s1, true) => s1.send c .released
        | (s1, false) => s1.internalErr c "IndexError" := by
  have hid := findConn_id hx
  simp only [rejectText, needBind, ha] at hnr
  have hd : x.didRelease = false := by
    cases h : x.didRelease
    · rfl
    · simp [h] at hnr
  simp only [hd] at hnr
  rw [step_recv]
  unfold Sys.onMessage
  have : ({ s with out := [], snaps := [] } : Sys).findConn c = some x := hx
  rw [this]
  simp only [ha]
  unfold Sys.handleRelease
  simp only [hd, hid]
  cases nm with
  | some n =>
    refine ⟨n, rfl, ?_⟩
    cases hh : x.nameplateId with
    | none => simp; rfl
    | some held =>
      simp only [hh] at hnr
      have : n = held := by
        apply Classical.byContradiction
        intro hne
        simp [hne] at hnr
      subst this
      simp; rfl
  | none =>
    cases hh : x.nameplateId with
    | none => simp [hh] at hnr
    | some held => exact ⟨held, by simp [Np.releaseTarget, hh], by simp; rfl⟩

/-- **the re-sent `release`.**  `s`: a state with nothing uncommitted whose database is the one a
    call `release_nameplate(a, n, σ, t)` left (from a database satisfying the invariant); `sb`: `s` plus
    the fresh connection `c'` bound to `(a, σ)`.  Then `release n` on `c'` (at any time) is answered
    `ack, commits, released`; the channel database is unchanged, nothing is left uncommitted,
    only the record of `c'` changes. -/
theorem dup_release {s sb : Sys} {c' : Nat} {a σ : String} (hR : DupReady s sb c' a σ) (hs : s.Synced)
    (hf : ∀ y ∈ s.conns, y.id ≠ c') {s0 s1 : Sys} {n : String} {t : Time} {b : Bool} (hP0 : s0.db.PInv)
    (h0 : s0.releaseNameplate a n σ t = (s1, b)) (hdb : s.db = s1.db) (t' : Time) (id : Val) :
    ∀ sc, sc = sb.step (.recv c' t' id (.release (some n))) →
      sc.db = s.db ∧ sc.Synced ∧ sc.cfg = s.cfg ∧ (∃ y, y.id = c' ∧ sc.conns = s.conns ++ [y]) ∧
      ∃ commits, (∀ e ∈ commits, IsCommit e) ∧
        sc.out = .frame c' (.ack id) true :: (commits ++ [.frame c' .released true]) := by
  intro sc hsc
  have hx := hR.findConn hf
  have hSb := hR.synced hs
  obtain ⟨n', hn', hstep⟩ := step_release_eq t' id (some n) hx (a := a) rfl (by simp [rejectText, needBind, dupConn])
  have : n' = n := by simp [Np.releaseTarget] at hn'; exact hn'.symm
  subst this
  rw [hstep] at hsc
  have hside : (dupConn c' a σ).side.getD "" = σ := rfl
  rw [hside] at hsc
  generalize hX : ((({ sb with out := [], snaps := [] } : Sys).send c' (.ack id)).updConn c'
    (fun y => { y with didRelease := true })) = X at hsc
  have hXdb : X.db = s.db := by rw [← hX]; exact hR.db
  have hXdisk : X.disk = s.disk := by rw [← hX]; exact hR.disk
  have hXcfg : X.cfg = s.cfg := by rw [← hX]; exact hR.cfg
  have hXu : X.udb = X.udisk := by rw [← hX]; exact hR.usync
  have hXout : X.out = [.frame c' (.ack id) true] := by
    rw [← hX]
    show [Event.frame c' (.ack id) sb.synced] = _
    rw [(synced_iff sb).2 hSb]
  have hXconns : X.conns = s.conns ++ [{ dupConn c' a σ with didRelease := true }] := by
    rw [← hX]
    show sb.conns.map _ = _
    rw [hR.conns]
    exact map_append_fresh hf _ rfl _
  obtain ⟨s2, e, e1, e2⟩ := releaseNameplate_again (s' := X) (t' := t') hP0 h0 (hXdb.trans hdb)
  obtain ⟨q, _, hsy⟩ := releaseNameplate_spec e
  have hsync2 : s2.Synced := hsy ⟨by rw [hXdb, hXdisk]; exact hs.1, hXu⟩
  have hcx := CExt.releaseNameplate (OutExt.refl (s := X)) (app := a) (name := n') (side := σ) (t := t')
  rw [e] at hcx
  obtain ⟨commits, hout, hc⟩ := hcx
  rw [e] at hsc
  dsimp only at hsc hout
  subst hsc
  refine ⟨e1.trans hXdb, hsync2, q.cfg.trans hXcfg, ⟨_, rfl, e2.trans hXconns⟩, commits, hc, ?_⟩
  show s2.out ++ [Event.frame c' .released s2.synced] = _
  rw [(synced_iff s2).2 hsync2, hout, hXout]
  simp

/-! ### the third operation: `open` -/

/-- the frames of an answer `ack, commits, rest` -/
theorem filter_isFrame_answer {c : Nat} {id : Val} {commits rest : List Event} (hc : ∀ e ∈ commits, IsCommit e)
    (hr : ∀ e ∈ rest, e.isFrame = true) :
    (Event.frame c (.ack id) true :: (commits ++ rest)).filter Event.isFrame = .frame c (.ack id) true :: rest := by
  have h1 : commits.filter Event.isFrame = [] := by
    rw [List.filter_eq_nil_iff]
    intro e he
    obtain ⟨w, rfl⟩ := hc e he
    simp [Event.isFrame]
  have h2 : rest.filter Event.isFrame = rest := List.filter_eq_self.2 hr
  simp [List.filter_cons, Event.isFrame, List.filter_append, h1, h2]

theorem replayFrames_isFrame (d : Chan) (c : Nat) (a m : String) : ∀ e ∈ replayFrames d c a m, e.isFrame = true := by
  intro e he
  simp only [replayFrames, List.mem_map] at he
  obtain ⟨_, _, rfl⟩ := he
  rfl

theorem replayFrames_to (d : Chan) (c : Nat) (a m : String) :
    ∀ k f b, Event.frame k f b ∈ replayFrames d c a m → k = c := by
  intro k f b he
  simp only [replayFrames, List.mem_map] at he
  obtain ⟨_, _, e⟩ := he
  cases e
  rfl

/-- **the re-sent `open`.**  `s`: a state with nothing uncommitted whose database is the one a
    successful `open_mailbox(a, m, σ, t)` left (`openDb` of some database, at most two side rows);
    `sb`: `s` plus the fresh connection `c'` bound to `(a, σ)`.  Then `open m` on `c'` at `t` is answered
    `ack, commits` and the replay of the stored messages of `(a, m)` — the frames `replayFrames s.db · a m`
    that the first open got, addressed to `c'`; the channel database is unchanged, nothing is left
    uncommitted, `c'` is subscribed, no other connection record changes. -/
theorem dup_open {s sb : Sys} {c' : Nat} {a σ : String} (hR : DupReady s sb c' a σ) (hs : s.Synced)
    (hf : ∀ y ∈ s.conns, y.id ≠ c') (hP : s.db.PInv) {d0 : Chan} {m : String} {t : Time}
    (hd : s.db = d0.openDb a m σ t) (hlen : (s.db.mbSidesOf m).length ≤ 2) (id : Val) :
    ∀ sc, sc = sb.step (.recv c' t id (.open_ (some m))) →
      sc.db = s.db ∧ sc.Synced ∧ sc.cfg = s.cfg ∧
      sc.conns = s.conns ++ [{ dupConn c' a σ with mailboxId := some m, mailbox := some m, listening := true }] ∧
      ∃ commits, (∀ e ∈ commits, IsCommit e) ∧
        sc.out = .frame c' (.ack id) true :: (commits ++ replayFrames s.db c' a m) := by
  intro sc hsc
  have hx := hR.findConn hf
  have hSb := hR.synced hs
  have hbox : sb.db.HasBox a m := by rw [hR.db, hd]; exact Chan.openDb_hasBox _ _ _ _ _
  have hidem : sb.db.openDb a m σ t = s.db := by rw [hR.db, hd]; exact Chan.openDb_idem _ _ _ _ _
  obtain ⟨_, _, h3⟩ := open_step (s := sb) (by rw [hR.db]; exact hP) hSb hx (mb := m)
    (by simp [rejectText, needBind, dupConn]) (app := a) rfl t id
  have hside : (dupConn c' a σ).side.getD "" = σ := rfl
  rw [hside, hidem] at h3
  obtain ⟨hout, hdb, hsy, _, hcfg, _, hconns⟩ := h3 (fun hc => hc.2 hbox) (by omega)
  subst hsc
  refine ⟨hdb, hsy, hcfg.trans hR.cfg, ?_, hout⟩
  rw [hconns, hR.conns]
  exact map_append_fresh hf _ rfl (fun y => { y with mailboxId := some m, mailbox := some m, listening := true })

/-! ### the third operation: `close` -/

theorem dupConn_close_valid (c' : Nat) (a σ m : String) (mood : Option String) :
    rejectText (dupConn c' a σ) (.close (some m) mood) = none := by
  simp [rejectText, needBind, dupConn]

theorem dupConn_closeTarget (c' : Nat) (a σ m : String) : (dupConn c' a σ).closeTarget (some m) = some m := by
  simp [Conn.closeTarget, Conn.closeName, dupConn]

theorem dupConn_closePre (sb : Sys) (c' : Nat) (a σ m : String) (t : Time) :
    closePre sb (dupConn c' a σ) a m t = sb.db.openDb a m σ t := by
  simp [closePre, dupConn]

/-- **the re-sent `close`, the mailbox is gone.**  `s`: a state with nothing uncommitted satisfying
    the invariants in which no mailbox row has id `m` (the close deleted it) and hence no
    connection holds a handle on it; `sb`: `s` plus the fresh connection `c'` bound to `(a, σ)`.  Then
    `close m mood` on `c'` is answered `ack, commits, closed`; the implicit `open_mailbox` creates the
    mailbox row and a side row and `Mailbox.close` deletes them again within the step: the channel
    database is unchanged; only the record of `c'` changes.  (With a usage database one usage
    `mailboxes` row is written: the usage database is not part of the stored channel state.) -/
theorem dup_close_gone {s sb : Sys} {c' : Nat} {a σ : String} (hR : DupReady s sb c' a σ) (hs : s.Synced)
    (hf : ∀ y ∈ s.conns, y.id ≠ c') (hP : s.db.PInv) (hN : s.db.NpHasSide) {m : String}
    (hgone : ¬ s.db.HasId m) (hH : ∀ y ∈ s.conns, y.mailbox ≠ some m) (mood : Option String) (t : Time) (id : Val) :
    ∀ sc, sc = sb.step (.recv c' t id (.close (some m) mood)) →
      sc.db = s.db ∧ sc.Synced ∧ sc.cfg = s.cfg ∧ (∃ y, y.id = c' ∧ sc.conns = s.conns ++ [y]) ∧
      ∃ commits, (∀ e ∈ commits, IsCommit e) ∧
        sc.out = .frame c' (.ack id) true :: (commits ++ [.frame c' .closed true]) := by
  intro sc hsc
  have hx := hR.findConn hf
  have hSb := hR.synced hs
  have hnoside : s.db.mbSidesOf m = [] := by
    simp only [Chan.mbSidesOf, List.filter_eq_nil_iff, decide_eq_true_eq]
    intro r hr hk
    obtain ⟨m0, hm0, hi⟩ := hP.msFk r hr
    exact hgone ⟨m0, hm0, hi.trans hk⟩
  obtain ⟨_, _, h3⟩ := close_step (s := sb) (by rw [hR.db]; exact hP) (by rw [hR.db]; exact hN) hSb hx
    (dupConn_close_valid c' a σ m mood) (app := a) rfl (dupConn_closeTarget c' a σ m) t id
  have hside : (dupConn c' a σ).side.getD "" = σ := rfl
  rw [dupConn_closePre, hside, hR.db] at h3
  have hgo : ¬ ((dupConn c' a σ).mailbox = none ∧
      (s.db.Clash a m ∨ ((s.db.openDb a m σ t).mbSidesOf m).length > 2)) := by
    rintro ⟨_, hk | hk⟩
    · obtain ⟨⟨m0, hm0, hi, _⟩, _⟩ := hk
      exact hgone ⟨m0, hm0, hi⟩
    · rw [Chan.openDb_mbSidesOf, hnoside] at hk
      split at hk <;> simp at hk
  obtain ⟨hout, hdb, hsy, hcfg, _, _, hdel⟩ := h3 hgo
  have hno : ¬ (s.db.openDb a m σ t).OtherOpen m σ := by
    rw [Chan.otherOpen_openDb]
    rintro ⟨r, hr, hk, _⟩
    obtain ⟨m0, hm0, hi⟩ := hP.msFk r hr
    exact hgone ⟨m0, hm0, hi.trans hk⟩
  obtain ⟨hconns, _⟩ := hdel (Chan.openDb_hasBox _ _ _ _ _) (Chan.openDb_findMbSide_ne_none _ _ _ _ _) hno
  subst hsc
  refine ⟨by rw [hdb, Chan.closeDb_openDb_gone hP hgone], hsy, hcfg.trans hR.cfg,
    ⟨closerUpd (dupConn c' a σ), rfl, ?_⟩, hout⟩
  rw [hconns, hR.conns]
  unfold closeConnsDel
  rw [List.map_append]
  congr 1
  · apply Chan.map_eq_self
    intro y hy
    rw [if_neg (hf y hy), if_neg]
    rintro ⟨_, _, hk⟩
    exact hH y hy hk
  · simp [dupConn]

/-- **the re-sent `close`, the mailbox survived** (another side still has it open) — findings
    K-close-touch and K-crowded-rejoin.  `s`: a state with nothing uncommitted satisfying the
    invariants whose database is in the state a close of `(a, m)` by side `σ` with mood `mood` left
    (`CloseSurvived`), with AT MOST TWO side rows on `m` (guard of K-crowded-rejoin, see
    `dup_close_crowded`); `sb`: `s` plus the fresh connection `c'` bound to `(a, σ)`.  Then `close m mood`
    (same mood) on `c'` at `t` is answered `ack, commits, closed`, only the record of `c'` changes, and
    the channel database is `touch m t` of the one before: all five tables and the counter are
    unchanged EXCEPT the column `updated` of the mailbox row `m`, which becomes `t` (K-close-touch). -/
theorem dup_close_survived {s sb : Sys} {c' : Nat} {a σ : String} (hR : DupReady s sb c' a σ) (hs : s.Synced)
    (hf : ∀ y ∈ s.conns, y.id ≠ c') (hP : s.db.PInv) (hN : s.db.NpHasSide) {m : String} {mood : Option String}
    (hSv : s.db.CloseSurvived a m σ mood) (hlen : (s.db.mbSidesOf m).length ≤ 2) (t : Time) (id : Val) :
    ∀ sc, sc = sb.step (.recv c' t id (.close (some m) mood)) →
      sc.db = s.db.touch m t ∧ sc.Synced ∧ sc.cfg = s.cfg ∧ (∃ y, y.id = c' ∧ sc.conns = s.conns ++ [y]) ∧
      ∃ commits, (∀ e ∈ commits, IsCommit e) ∧
        sc.out = .frame c' (.ack id) true :: (commits ++ [.frame c' .closed true]) := by
  intro sc hsc
  have hx := hR.findConn hf
  have hSb := hR.synced hs
  obtain ⟨_, _, h3⟩ := close_step (s := sb) (by rw [hR.db]; exact hP) (by rw [hR.db]; exact hN) hSb hx
    (dupConn_close_valid c' a σ m mood) (app := a) rfl (dupConn_closeTarget c' a σ m) t id
  have hside : (dupConn c' a σ).side.getD "" = σ := rfl
  rw [dupConn_closePre, hside, hR.db] at h3
  have hsides : (s.db.openDb a m σ t).mbSidesOf m = s.db.mbSidesOf m := by
    rw [Chan.openDb_mbSidesOf]
    simp [hSv.own]
  have hgo : ¬ ((dupConn c' a σ).mailbox = none ∧
      (s.db.Clash a m ∨ ((s.db.openDb a m σ t).mbSidesOf m).length > 2)) := by
    rintro ⟨_, hk | hk⟩
    · exact hk.2 hSv.box
    · rw [hsides] at hk; omega
  obtain ⟨hout, hdb, hsy, hcfg, _, hsurv, _⟩ := h3 hgo
  have hoo : (s.db.openDb a m σ t).OtherOpen m σ := (Chan.otherOpen_openDb _ _ _ _ _).2 hSv.other
  obtain ⟨hconns, _⟩ := hsurv (fun hk => hk.2.2 hoo)
  subst hsc
  refine ⟨by rw [hdb, Chan.closeDb_openDb_survived hP.mbIds hSv], hsy, hcfg.trans hR.cfg,
    ⟨closerUpd (dupConn c' a σ), rfl, ?_⟩, hout⟩
  rw [hconns, hR.conns]
  unfold closeConns
  exact map_append_fresh hf _ rfl closerUpd

/-- **K-crowded-rejoin for the re-sent `close`**: the same situation with MORE than two side rows on
    `m` (a third side has touched the mailbox): the re-sent close of one of the first two sides is
    answered `crowded`, not `closed`. -/
theorem dup_close_crowded {s sb : Sys} {c' : Nat} {a σ : String} (hR : DupReady s sb c' a σ) (hs : s.Synced)
    (hf : ∀ y ∈ s.conns, y.id ≠ c') (hP : s.db.PInv) (hN : s.db.NpHasSide) {m : String} {mood : Option String}
    (hSv : s.db.CloseSurvived a m σ mood) (hlen : (s.db.mbSidesOf m).length > 2) (t : Time) (id : Val) :
    ∃ commits, (∀ e ∈ commits, IsCommit e) ∧
      (sb.step (.recv c' t id (.close (some m) mood))).out =
        .frame c' (.ack id) true :: (commits ++ [.frame c' (.error "crowded") true]) := by
  have hx := hR.findConn hf
  have hSb := hR.synced hs
  obtain ⟨_, h2, _⟩ := close_step (s := sb) (by rw [hR.db]; exact hP) (by rw [hR.db]; exact hN) hSb hx
    (dupConn_close_valid c' a σ m mood) (app := a) rfl (dupConn_closeTarget c' a σ m) t id
  rw [dupConn_closePre, hR.db] at h2
  have hsides : (s.db.openDb a m σ t).mbSidesOf m = s.db.mbSidesOf m := by
    rw [Chan.openDb_mbSidesOf]
    simp [hSv.own]
  exact (h2 rfl (fun hk => hk.2 hSv.box) (by rw [hsides]; exact hlen)).1

end Sys
end Wormhole
