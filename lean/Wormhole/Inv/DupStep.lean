/-
  C14 (re-sending an acknowledged command), part 3: the duplicate as operations.

      dup c' = [connect c', recv c' t id₁ (bind a σ impl ver), recv c' t id cmd', drop c']

  * `dup_prefix`   the first two operations: state `sb` = the state before plus one fresh connection
                   record bound to (a, σ) (`DupReady`); only the usage database may differ;
  * `dup_claim`, `dup_release`, `dup_open`, `dup_close_gone`, `dup_close_survived`
                   the third operation from such a state: exact answer, database unchanged
                   (`touch m t` of it for a close of a surviving mailbox: K-close-touch);
  * `dup_drop`     the fourth: the connection table is the one before the duplicate.
-/
import Wormhole.Inv.DupCore

namespace Wormhole
namespace Sys

/-- the record of the duplicate's connection after its `bind` -/
def dupConn (c' : Nat) (a σ : String) : Conn := { id := c', app := some a, side := some σ }

/-- `sb` is `s` plus one fresh connection `c'` bound to (a, σ); the usage database is free -/
structure DupReady (s sb : Sys) (c' : Nat) (a σ : String) : Prop where
  db : sb.db = s.db
  disk : sb.disk = s.disk
  cfg : sb.cfg = s.cfg
  conns : sb.conns = s.conns ++ [dupConn c' a σ]
  usync : sb.udb = sb.udisk

/-! ### connection tables with one fresh record at the end -/

theorem find_append_fresh {cs : List Conn} {c' : Nat} (hf : ∀ y ∈ cs, y.id ≠ c') (x : Conn) (hx : x.id = c') :
    (cs ++ [x]).find? (fun y => y.id = c') = some x := by
  rw [List.find?_append]
  have : cs.find? (fun y => decide (y.id = c')) = none := by
    simp only [List.find?_eq_none, decide_eq_true_eq]
    exact hf
  rw [this]
  simp [hx]

theorem map_append_fresh {cs : List Conn} {c' : Nat} (hf : ∀ y ∈ cs, y.id ≠ c') (x : Conn) (hx : x.id = c')
    (f : Conn → Conn) :
    (cs ++ [x]).map (fun y => if y.id = c' then f y else y) = cs ++ [f x] := by
  rw [List.map_append]
  congr 1
  · apply Chan.map_eq_self
    intro y hy
    rw [if_neg (hf y hy)]
  · simp [hx]

theorem filter_append_fresh {cs : List Conn} {c' : Nat} (hf : ∀ y ∈ cs, y.id ≠ c') (x : Conn) (hx : x.id = c') :
    (cs ++ [x]).filter (fun y => ¬ y.id = c') = cs := by
  rw [List.filter_append]
  have h1 : cs.filter (fun y => decide (¬ y.id = c')) = cs := by
    apply List.filter_eq_self.2
    intro y hy
    simpa using hf y hy
  rw [h1]
  simp [hx]

theorem DupReady.findConn {s sb : Sys} {c' : Nat} {a σ : String} (h : DupReady s sb c' a σ)
    (hf : ∀ y ∈ s.conns, y.id ≠ c') : sb.findConn c' = some (dupConn c' a σ) := by
  unfold Sys.findConn
  rw [h.conns]
  exact find_append_fresh hf _ rfl

theorem DupReady.synced {s sb : Sys} {c' : Nat} {a σ : String} (h : DupReady s sb c' a σ) (hs : s.Synced) :
    sb.Synced := ⟨by rw [h.db, h.disk]; exact hs.1, h.usync⟩

theorem logClientVersion_conns (s : Sys) (a sd : String) (t : Time) (i v : Option String) :
    (s.logClientVersion a sd t i v).conns = s.conns := by
  unfold logClientVersion
  split <;> simp

/-! ### `connect`, `bind` -/

/-- **the first two operations of the duplicate.**  From a state `s` with nothing uncommitted
    and no connection `c'`: after `connect c'` and `bind (a, σ)` the channel database, its
    committed copy and the configuration are those of `s`, the connection table is that of `s`
    plus the record of `c'`; the events are `welcome` to `c'`, then `ack` to `c'` followed by
    commits only (the usage commit of `log_client_version`, when a usage database exists). -/
theorem dup_prefix {s : Sys} (hs : s.Synced) {c' : Nat} (hf : ∀ y ∈ s.conns, y.id ≠ c') (a σ : String)
    (t : Time) (id₁ : Val) (impl ver : Option String) :
    DupReady s ((s.step (.connect c')).step (.recv c' t id₁ (.bind (some a) (some σ) impl ver))) c' a σ ∧
    (s.step (.connect c')).out = [.frame c' (.welcome s.cfg.welcome) true] ∧
    ∃ commits, (∀ e ∈ commits, IsCommit e) ∧
      ((s.step (.connect c')).step (.recv c' t id₁ (.bind (some a) (some σ) impl ver))).out =
        .frame c' (.ack id₁) true :: commits := by
  have hsy : s.synced = true := (synced_iff s).2 hs
  have hout1 : (s.step (.connect c')).out = [.frame c' (.welcome s.cfg.welcome) true] := by
    show [Event.frame c' (.welcome s.cfg.welcome) (({ s with out := [], snaps := [], conns := s.conns ++ [({ id := c' } : Conn)] } : Sys).synced)] = _
    have : (({ s with out := [], snaps := [], conns := s.conns ++ [({ id := c' } : Conn)] } : Sys).synced) = s.synced := rfl
    rw [this, hsy]
  -- the state the `bind` starts from
  generalize hA : (({ (s.step (.connect c')) with out := [], snaps := [] } : Sys)) = sa
  have hAdb : sa.db = s.db := by rw [← hA]; rfl
  have hAdisk : sa.disk = s.disk := by rw [← hA]; rfl
  have hAudb : sa.udb = s.udb := by rw [← hA]; rfl
  have hAudisk : sa.udisk = s.udisk := by rw [← hA]; rfl
  have hAcfg : sa.cfg = s.cfg := by rw [← hA]; rfl
  have hAconns : sa.conns = s.conns ++ [({ id := c' } : Conn)] := by rw [← hA]; rfl
  have hAout : sa.out = [] := by rw [← hA]
  have hAsy : sa.synced = true := by rw [← hA]; exact hsy
  have hfind : sa.findConn c' = some ({ id := c' } : Conn) := by
    unfold Sys.findConn
    rw [hAconns]
    exact find_append_fresh hf _ rfl
  have hstep : (s.step (.connect c')).step (.recv c' t id₁ (.bind (some a) (some σ) impl ver)) =
      ((sa.send c' (.ack id₁)).updConn c' (fun y => { y with app := some a, side := some σ })).logClientVersion
        a σ t impl ver := by
    rw [step_recv, hA]
    unfold onMessage
    rw [hfind]
    simp [handleBind]
  rw [hstep]
  refine ⟨⟨?_, ?_, ?_, ?_, ?_⟩, hout1, ?_⟩
  · simp only [logClientVersion_db, updConn_db]; exact hAdb
  · simp only [logClientVersion_disk, updConn_disk]; exact hAdisk
  · simp only [logClientVersion_cfg, updConn_cfg]; exact hAcfg
  · rw [logClientVersion_conns]
    show (sa.conns.map _) = _
    rw [hAconns]
    exact map_append_fresh hf _ rfl _
  · apply logClientVersion_usync
    show sa.udb = sa.udisk
    rw [hAudb, hAudisk]; exact hs.2
  · have hc := CExt.logClientVersion (OutExt.refl (s := (sa.send c' (.ack id₁)).updConn c'
      (fun y => { y with app := some a, side := some σ }))) (app := a) (side := σ) (t := t) (impl := impl)
      (version := ver)
    obtain ⟨l, hl, hcl⟩ := hc
    refine ⟨l, hcl, ?_⟩
    rw [hl]
    show (sa.out ++ [Event.frame c' (.ack id₁) sa.synced]) ++ l = _
    rw [hAout, hAsy]
    rfl

/-! ### `drop` -/

/-- **the last operation of the duplicate**: dropping `c'` from a connection table that is the
    one of `s` plus one record of `c'` gives back the table of `s`; nothing else changes and no
    event is emitted. -/
theorem dup_drop {s sc : Sys} {c' : Nat} (hf : ∀ y ∈ s.conns, y.id ≠ c') {y : Conn} (hy : y.id = c')
    (hc : sc.conns = s.conns ++ [y]) :
    (sc.step (.drop c')).conns = s.conns ∧ (sc.step (.drop c')).db = sc.db ∧
    (sc.step (.drop c')).disk = sc.disk ∧ (sc.step (.drop c')).cfg = sc.cfg ∧
    (sc.step (.drop c')).udb = sc.udb ∧ (sc.step (.drop c')).udisk = sc.udisk ∧
    (sc.step (.drop c')).out = [] := by
  refine ⟨?_, rfl, rfl, rfl, rfl, rfl, rfl⟩
  show sc.conns.filter (fun x => ¬ x.id = c') = s.conns
  rw [hc]
  exact filter_append_fresh hf y hy

end Sys
end Wormhole
