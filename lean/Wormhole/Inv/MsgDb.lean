/-
  What the functions of Core.lean (server.py) do to the `messages` table and to the set of
  mailbox rows -- the two things C01 / C02 look at in the database.

  * `Chan.mbKeys`     the (app, id) pairs of the mailbox rows;
  * `Chan.mpart`      (messages, mbKeys): most statements leave it alone;
  * `Chan.Grow`       same messages, possibly more mailbox rows (open / claim / allocate);
  * `Chan.ShrinkBy dead`  the mailbox rows with an id in `dead` and the messages with such a
                      mailbox id are gone, everything else is as before (close / prune);
  * `Chan.DelStep ok` a `ShrinkBy` whose deleted rows all satisfy `ok app id`;
  * `Sys.AllDb W P`     `P` holds of the live database, of the committed one and of every
                      committed state reached inside the current step (the crash points).
  Every function is given a lemma `AllDb W P s → AllDb W P (f s)` for every `P` closed under
  the kind of change it makes, so that one pass serves crash-free steps, crashes, C01 and C02.
-/
import Wormhole.Inv.SyncLemmas
import Wormhole.Inv.WsLemmas

namespace Wormhole
namespace Chan

/-- the (app, id) pairs of the mailbox rows, in row order -/
def mbKeys (d : Chan) : List (String × String) := d.mailboxes.map (fun r => (r.app, r.id))

/-- messages and mailbox keys -/
def mpart (d : Chan) : List Message × List (String × String) := (d.messages, d.mbKeys)

theorem mpart_eq {d d' : Chan} (h1 : d'.messages = d.messages) (h2 : d'.mailboxes = d.mailboxes) :
    d'.mpart = d.mpart := by simp [mpart, mbKeys, h1, h2]

section prim
variable (d : Chan)

@[simp] theorem mpart_insNameplate (a n m) : (d.insNameplate a n m).mpart = d.mpart := rfl
@[simp] theorem mpart_insNpSide (r) : (d.insNpSide r).mpart = d.mpart := rfl
@[simp] theorem mpart_insMbSide (r) : (d.insMbSide r).mpart = d.mpart := rfl
@[simp] theorem mpart_unclaim (n sd) : (d.unclaim n sd).mpart = d.mpart := rfl
@[simp] theorem mpart_closeSide (m sd mood) : (d.closeSide m sd mood).mpart = d.mpart := rfl
@[simp] theorem mpart_delNpSidesOf (n) : (d.delNpSidesOf n).mpart = d.mpart := rfl
@[simp] theorem mpart_delNameplate (n) : (d.delNameplate n).mpart = d.mpart := rfl
@[simp] theorem mpart_delNpSidesOfMailbox (a m) : (d.delNpSidesOfMailbox a m).mpart = d.mpart := rfl
@[simp] theorem mpart_delNameplatesOfMailbox (a m) : (d.delNameplatesOfMailbox a m).mpart = d.mpart := rfl
@[simp] theorem mpart_delMbSidesOf (m) : (d.delMbSidesOf m).mpart = d.mpart := rfl

/-- re-stamping mailbox rows keeps their keys -/
theorem mbKeys_map (f : MailboxRow → MailboxRow) (hf : ∀ r, (f r).app = r.app ∧ (f r).id = r.id) :
    ({ d with mailboxes := d.mailboxes.map f } : Chan).mbKeys = d.mbKeys := by
  simp only [mbKeys, List.map_map]
  apply List.map_congr_left
  intro r _
  simp [(hf r).1, (hf r).2]

@[simp] theorem mpart_touch (m t) : (d.touch m t).mpart = d.mpart := by
  have := d.mbKeys_map (fun r => if r.id = m then { r with updated := t } else r)
    (fun r => by split <;> simp)
  simp only [mpart, touch] at this ⊢
  rw [this]

@[simp] theorem messages_insMessage (r) : (d.insMessage r).messages = d.messages ++ [r] := rfl
@[simp] theorem mbKeys_insMessage (r) : (d.insMessage r).mbKeys = d.mbKeys := rfl
@[simp] theorem messages_insMailbox (r) : (d.insMailbox r).messages = d.messages := rfl
@[simp] theorem mbKeys_insMailbox (r) : (d.insMailbox r).mbKeys = d.mbKeys ++ [(r.app, r.id)] := by
  simp [mbKeys, insMailbox]

end prim

/-! ### the relations -/

/-- same messages, the same mailbox rows (possibly re-stamped) and possibly more of them -/
structure Grow (d d' : Chan) : Prop where
  msgs : d'.messages = d.messages
  keys : ∃ extra, d'.mbKeys = d.mbKeys ++ extra

theorem Grow.refl (d : Chan) : Grow d d := ⟨rfl, [], by simp⟩

theorem Grow.of_mpart {d d' : Chan} (h : d'.mpart = d.mpart) : Grow d d' := by
  simp only [mpart, Prod.mk.injEq] at h
  exact ⟨h.1, [], by simp [h.2]⟩

theorem Grow.trans {a b c : Chan} (h1 : Grow a b) (h2 : Grow b c) : Grow a c := by
  obtain ⟨e1, k1⟩ := h1.keys
  obtain ⟨e2, k2⟩ := h2.keys
  exact ⟨h2.msgs.trans h1.msgs, e1 ++ e2, by simp [k2, k1]⟩

/-- the mailbox rows with an id in `dead` and the messages of those ids are gone; nothing else
    changed in `messages` / in the set of mailbox rows -/
structure ShrinkBy (dead : List String) (d d' : Chan) : Prop where
  msgs : d'.messages = d.messages.filter (fun r => r.mailbox ∉ dead)
  keys : d'.mbKeys = d.mbKeys.filter (fun k => k.2 ∉ dead)

theorem ShrinkBy.of_mpart {d d' : Chan} (h : d'.mpart = d.mpart) : ShrinkBy [] d d' := by
  simp only [mpart, Prod.mk.injEq] at h
  exact ⟨by rw [h.1]; exact (List.filter_eq_self.2 (by simp)).symm,
    by rw [h.2]; exact (List.filter_eq_self.2 (by simp)).symm⟩

theorem ShrinkBy.trans {l1 l2 : List String} {a b c : Chan} (h1 : ShrinkBy l1 a b)
    (h2 : ShrinkBy l2 b c) : ShrinkBy (l1 ++ l2) a c := by
  constructor
  · rw [h2.msgs, h1.msgs, List.filter_filter]
    apply List.filter_congr
    intro r _
    simp only [List.mem_append, not_or, Bool.decide_and, Bool.and_comm]
  · rw [h2.keys, h1.keys, List.filter_filter]
    apply List.filter_congr
    intro r _
    simp only [List.mem_append, not_or, Bool.decide_and, Bool.and_comm]

/-- a deletion step all of whose victims satisfy `ok` -/
def DelStep (ok : String → String → Prop) (d d' : Chan) : Prop :=
  ∃ dead, ShrinkBy dead d d' ∧ ∀ k ∈ d.mbKeys, k.2 ∈ dead → ok k.1 k.2

theorem DelStep.of_mpart {ok} {d d' : Chan} (h : d'.mpart = d.mpart) : DelStep ok d d' :=
  ⟨[], ShrinkBy.of_mpart h, by simp⟩

theorem DelStep.refl {ok} (d : Chan) : DelStep ok d d := DelStep.of_mpart rfl

theorem DelStep.trans {ok} {a b c : Chan} (h1 : DelStep ok a b) (h2 : DelStep ok b c) :
    DelStep ok a c := by
  obtain ⟨l1, s1, o1⟩ := h1
  obtain ⟨l2, s2, o2⟩ := h2
  refine ⟨l1 ++ l2, s1.trans s2, ?_⟩
  intro k hk hd
  by_cases h : k.2 ∈ l1
  · exact o1 k hk h
  · have hk' : k ∈ b.mbKeys := by
      rw [s1.keys, List.mem_filter]; exact ⟨hk, by simpa using h⟩
    rcases List.mem_append.1 hd with h' | h'
    · exact absurd h' h
    · exact o2 k hk' h'

theorem DelStep.mono {ok ok' : String → String → Prop} {d d' : Chan} (h : ∀ a m, ok a m → ok' a m) :
    DelStep ok d d' → DelStep ok' d d' := by
  rintro ⟨l, s, o⟩
  exact ⟨l, s, fun k hk hd => h _ _ (o k hk hd)⟩

/-- `DELETE FROM messages WHERE mailbox_id=?; ...; DELETE FROM mailboxes WHERE id=?` -/
theorem ShrinkBy.delete (d : Chan) (mb : String) {d' : Chan}
    (h1 : d'.messages = (d.delMessagesOf mb).messages) (h2 : d'.mailboxes = (d.delMailbox mb).mailboxes) :
    ShrinkBy [mb] d d' := by
  constructor
  · rw [h1]; simp [delMessagesOf]
  · simp only [mbKeys, h2, delMailbox, List.filter_map]
    congr 1
    apply List.filter_congr
    intro r _
    simp

/-! ### closure of a predicate on databases -/

/-- closed under changes that leave `mpart` alone -/
def SameClosed (P : Chan → Prop) : Prop := ∀ d d', P d → d'.mpart = d.mpart → P d'
def GrowClosed (P : Chan → Prop) : Prop := ∀ d d', P d → Grow d d' → P d'
def DelClosed (ok : String → String → Prop) (P : Chan → Prop) : Prop := ∀ d d', P d → DelStep ok d d' → P d'

theorem GrowClosed.same {P} (h : GrowClosed P) : SameClosed P :=
  fun d d' hp e => h d d' hp (Grow.of_mpart e)
theorem DelClosed.same {ok P} (h : DelClosed ok P) : SameClosed P :=
  fun d d' hp e => h d d' hp (DelStep.of_mpart e)

theorem growClosed_grow (d0 : Chan) : GrowClosed (Grow d0) := fun _ _ h1 h2 => h1.trans h2

/-- first grown, then shrunk: what a whole operation other than `add` does -/
def Tr (ok : String → String → Prop) (d0 d : Chan) : Prop := ∃ d1, Grow d0 d1 ∧ DelStep ok d1 d

theorem Tr.of_grow {ok} {d0 d : Chan} (h : Grow d0 d) : Tr ok d0 d := ⟨d, h, DelStep.refl d⟩
theorem Tr.of_del {ok} {d0 d : Chan} (h : DelStep ok d0 d) : Tr ok d0 d := ⟨d0, Grow.refl d0, h⟩
theorem delClosed_tr (ok) (d0 : Chan) : DelClosed ok (Tr ok d0) :=
  fun _ _ ⟨d1, g, s⟩ h2 => ⟨d1, g, s.trans h2⟩
theorem delClosed_delStep (ok) (d0 : Chan) : DelClosed ok (DelStep ok d0) :=
  fun _ _ h1 h2 => h1.trans h2

end Chan

namespace Sys

/-- `P` holds of the live database and, when `W`, also of the committed database and of every
    crash point of this step (`W := True`: the full statement; `W := False`: the live database
    only, usable in states with uncommitted writes) -/
structure AllDb (W : Prop) (P : Chan → Prop) (s : Sys) : Prop where
  db : P s.db
  rest : W → P s.disk ∧ ∀ p ∈ s.snaps, P p.1

section alldb
variable {W : Prop} {P : Chan → Prop} {s : Sys}

theorem AllDb.dbOnly (h : P s.db) : AllDb False P s := ⟨h, fun w => w.elim⟩

theorem AllDb.mono {Q : Chan → Prop} (h : ∀ d, P d → Q d) (a : AllDb W P s) : AllDb W Q s :=
  ⟨h _ a.db, fun w => ⟨h _ (a.rest w).1, fun p hp => h _ ((a.rest w).2 p hp)⟩⟩

theorem AllDb.modDb (a : AllDb W P s) {f} (h : P (f s.db)) : AllDb W P (s.modDb f) := ⟨h, a.rest⟩
theorem AllDb.modUdb (a : AllDb W P s) {f} : AllDb W P (s.modUdb f) := ⟨a.db, a.rest⟩
theorem AllDb.updConn (a : AllDb W P s) {c f} : AllDb W P (s.updConn c f) := ⟨a.db, a.rest⟩
theorem AllDb.emit (a : AllDb W P s) {e} : AllDb W P (s.emit e) := ⟨a.db, a.rest⟩
theorem AllDb.send (a : AllDb W P s) {c f} : AllDb W P (s.send c f) := ⟨a.db, a.rest⟩
theorem AllDb.sendError (a : AllDb W P s) {c t} : AllDb W P (s.sendError c t) := ⟨a.db, a.rest⟩
theorem AllDb.internalErr (a : AllDb W P s) {c t} : AllDb W P (s.internalErr c t) := ⟨a.db, a.rest⟩
theorem AllDb.stopListeners (a : AllDb W P s) {app mb} : AllDb W P (s.stopListeners app mb) :=
  ⟨a.db, a.rest⟩

theorem AllDb.commit (a : AllDb W P s) : AllDb W P s.commit := by
  unfold Sys.commit
  split
  · exact a
  · refine ⟨a.db, fun w => ⟨a.db, ?_⟩⟩
    intro p hp
    rcases List.mem_append.1 hp with h | h
    · exact (a.rest w).2 p h
    · simp only [List.mem_singleton] at h; subst h; exact a.db

theorem AllDb.ucommit (a : AllDb W P s) : AllDb W P s.ucommit := by
  unfold Sys.ucommit
  split
  · exact a
  · refine ⟨a.db, fun w => ⟨(a.rest w).1, ?_⟩⟩
    intro p hp
    rcases List.mem_append.1 hp with h | h
    · exact (a.rest w).2 p h
    · simp only [List.mem_singleton] at h; subst h; exact (a.rest w).1

theorem AllDb.modDb_same (a : AllDb W P s) (hP : Chan.SameClosed P) {f}
    (h : (f s.db).mpart = s.db.mpart) : AllDb W P (s.modDb f) := a.modDb (hP _ _ a.db h)

theorem AllDb.foldl_send {α} (g : α → Nat) (fr : α → Frame) (l : List α) :
    ∀ {s : Sys}, AllDb W P s → AllDb W P (l.foldl (fun s a => s.send (g a) (fr a)) s) := by
  induction l with
  | nil => intro s a; exact a
  | cons x l ih => intro s a; exact ih a.send

/-! ### functions that only touch the usage database -/

theorem AllDb.storeNameplateUsage (a : AllDb W P s) {app sides t p} :
    AllDb W P (s.storeNameplateUsage app sides t p).1 := by
  unfold Sys.storeNameplateUsage
  split
  · exact a
  · exact ⟨a.db, a.rest⟩

theorem AllDb.storeMailboxUsage (a : AllDb W P s) {app forNp sides t p} :
    AllDb W P (s.storeMailboxUsage app forNp sides t p) := ⟨a.db, a.rest⟩

theorem AllDb.storeNameplatesOfMailbox {app t} (l : List Nameplate) :
    ∀ {s : Sys}, AllDb W P s → AllDb W P (s.storeNameplatesOfMailbox app t l).1 := by
  induction l with
  | nil => intro s a; exact a
  | cons np rest ih =>
    intro s a
    unfold Sys.storeNameplatesOfMailbox
    have h1 := a.storeNameplateUsage (app := app) (sides := s.db.npSidesOf np.id) (t := t) (p := false)
    split
    · rename_i s2 heq; rw [heq] at h1; exact h1
    · rename_i s2 heq; rw [heq] at h1; exact ih h1

theorem AllDb.logClientVersion (a : AllDb W P s) {app side t impl version} :
    AllDb W P (s.logClientVersion app side t impl version) := by
  unfold Sys.logClientVersion
  split
  · exact a.modUdb.ucommit
  · exact a

theorem AllDb.dumpStats (a : AllDb W P s) {now} : AllDb W P (s.dumpStats now) := by
  unfold Sys.dumpStats
  split
  · exact a.modUdb.ucommit
  · exact a

/-! ### Mailbox / AppNamespace: the growing functions -/

theorem AllDb.mailboxOpen (a : AllDb W P s) (hP : Chan.SameClosed P) {mb side t} :
    AllDb W P (s.mailboxOpen mb side t) := by
  unfold Sys.mailboxOpen
  split
  · exact ((a.modDb_same hP (by simp)).modDb_same hP (by simp)).commit
  · exact (a.modDb_same hP (by simp)).commit

theorem AllDb.addMailbox (a : AllDb W P s) (hP : Chan.GrowClosed P) {app mb forNp t s1}
    (h : s.addMailbox app mb forNp t = some s1) : AllDb W P s1 := by
  unfold Sys.addMailbox at h
  split at h
  · cases h; exact a
  · split at h
    · cases h
    · cases h
      exact a.modDb (hP _ _ a.db ⟨by simp, [(app, mb)], by simp⟩)

theorem AllDb.openMailbox (a : AllDb W P s) (hP : Chan.GrowClosed P) {app mb side t} :
    AllDb W P (s.openMailbox app mb side t).1 := by
  unfold Sys.openMailbox
  split
  · exact a
  · rename_i s1 h1
    have := ((a.addMailbox hP h1).mailboxOpen hP.same (mb := mb) (side := side) (t := t)).commit
    simp only []
    split <;> exact this

theorem AllDb.claimTail (a : AllDb W P s) (hP : Chan.GrowClosed P) {app npid mb side t} :
    AllDb W P (s.claimTail app npid mb side t).1 := by
  rw [Sys.claimTail_eq]
  have cont : ∀ s2 : Sys, AllDb W P s2 → AllDb W P (Sys.claimCont s2 app npid mb side t).1 := by
    intro s2 a2
    unfold Sys.claimCont
    dsimp only
    have h3 := a2.commit.openMailbox hP (app := app) (mb := mb) (side := side) (t := t)
    split <;> rename_i s3 heq <;> rw [heq] at h3
    · exact h3
    · exact h3
    · split <;> exact h3
  split
  · exact cont _ (a.modDb_same hP.same (by simp))
  · split
    · exact cont _ a
    · exact a

theorem AllDb.claimNameplate (a : AllDb W P s) (hP : Chan.GrowClosed P) {app name side t fresh} :
    AllDb W P (s.claimNameplate app name side t fresh).1 := by
  unfold Sys.claimNameplate
  split
  · split
    · exact a
    · rename_i s2 h2
      exact ((a.addMailbox hP h2).modDb_same hP.same (by simp)).claimTail hP
  · exact a.claimTail hP

theorem AllDb.releaseNameplate (a : AllDb W P s) (hP : Chan.SameClosed P) {app name side t} :
    AllDb W P (s.releaseNameplate app name side t).1 := by
  unfold Sys.releaseNameplate
  split
  · exact a
  · split
    · exact a
    · rename_i _ np _ _ _ _
      have h1 : AllDb W P ((s.modDb (·.unclaim np.id side)).commit) := (a.modDb_same hP (by simp)).commit
      simp only []
      split
      · exact h1
      · have h2 : AllDb W P (((s.modDb (·.unclaim np.id side)).commit).modDb
            (fun d => (d.delNpSidesOf np.id).delNameplate np.id)) := h1.modDb_same hP (by simp)
        split
        · have h3 := h2.storeNameplateUsage (app := app)
            (sides := ((s.modDb (·.unclaim np.id side)).commit).db.npSidesOf np.id) (t := t) (p := false)
          split <;> rename_i s3 heq <;> rw [heq] at h3
          · exact h3
          · exact h3.ucommit.commit
        · exact h2.commit

/-! ### the deleting functions -/

section del
variable {ok : String → String → Prop}

theorem _root_.Wormhole.Chan.delBlock_close (d : Chan) (app mb : String) :
    Chan.ShrinkBy [mb] d (((((d.delNpSidesOfMailbox app mb).delNameplatesOfMailbox app mb).delMessagesOf
      mb).delMbSidesOf mb).delMailbox mb) := Chan.ShrinkBy.delete d mb rfl rfl

theorem _root_.Wormhole.Chan.delBlock_prune (d : Chan) (mb : String) :
    Chan.ShrinkBy [mb] d (((d.delMessagesOf mb).delMbSidesOf mb).delMailbox mb) :=
  Chan.ShrinkBy.delete d mb rfl rfl

theorem AllDb.closeTail {s2 : Sys} (a : AllDb W P s2) (hP : Chan.DelClosed ok P) {mb : String}
    (hok : ∀ a', ok a' mb) {b : Bool} {app : String} {forNp : Bool}
    {sideRows : List MbSide} {t : Time} :
    AllDb W P (if (!b) = true then (s2, false) else
      let s3 := s2.modDb (fun d =>
        ((((d.delNpSidesOfMailbox app mb).delNameplatesOfMailbox app mb).delMessagesOf mb).delMbSidesOf
          mb).delMailbox mb)
      let s4 := if s3.cfg.usage then (s3.storeMailboxUsage app forNp sideRows t false).ucommit else s3
      ((s4.commit).stopListeners app mb, true)).1 := by
  have h3 : AllDb W P (s2.modDb (fun d =>
        ((((d.delNpSidesOfMailbox app mb).delNameplatesOfMailbox app mb).delMessagesOf mb).delMbSidesOf
          mb).delMailbox mb)) :=
    a.modDb (hP _ _ a.db ⟨[mb], Chan.delBlock_close _ app mb, fun k _ hd => by
      have : k.2 = mb := by simpa using hd
      rw [this]; exact hok k.1⟩)
  split
  · exact a
  · apply AllDb.stopListeners
    apply AllDb.commit
    split
    · exact h3.storeMailboxUsage.ucommit
    · exact h3

theorem AllDb.mailboxClose (a : AllDb W P s) (hP : Chan.DelClosed ok P) {mb : String}
    (hok : ∀ a', ok a' mb) {app side mood t} :
    AllDb W P (s.mailboxClose app mb side mood t).1 := by
  unfold Sys.mailboxClose
  split
  · exact a
  · split
    · exact a
    · have h1 : AllDb W P ((s.modDb (·.closeSide mb side mood)).commit) :=
        (a.modDb_same hP.same (by simp)).commit
      simp only []
      split
      · exact h1
      · split
        · have h2 := AllDb.storeNameplatesOfMailbox (app := app) (t := t)
              (((s.modDb (·.closeSide mb side mood)).commit).db.nameplatesOfMailbox app mb) h1
          exact h2.closeTail hP hok
        · exact h1.closeTail hP hok

theorem AllDb.touchListened (a : AllDb W P s) (hP : Chan.SameClosed P) {app now} :
    AllDb W P (s.touchListened app now) := by
  unfold Sys.touchListened
  apply a.modDb_same hP
  have := s.db.mbKeys_map (fun r => if r.app = app ∧ s.listeners app r.id ≠ [] then { r with updated := now } else r)
    (fun r => by split <;> simp)
  simp only [Chan.mpart] at this ⊢
  rw [this]

theorem AllDb.pruneNameplates (hP : Chan.SameClosed P) {app now} (l : List Nameplate) :
    ∀ {s : Sys}, AllDb W P s → AllDb W P (s.pruneNameplates app now l).1 := by
  induction l with
  | nil => intro s a; exact a
  | cons np rest ih =>
    intro s a
    unfold Sys.pruneNameplates
    simp only []
    have h0 : AllDb W P (s.modDb (fun d => (d.delNpSidesOf np.id).delNameplate np.id)) :=
      a.modDb_same hP (by simp)
    split
    · have h1 := h0.storeNameplateUsage (app := app) (sides := s.db.npSidesOf np.id) (t := now) (p := true)
      split <;> rename_i heq <;> rw [heq] at h1
      · exact h1
      · exact ih h1
    · exact ih h0

/-- the loop over `old_mailboxes`: every row deleted by id; `hok`: whatever mailbox row has the id
    of a listed row satisfies `ok` -/
theorem AllDb.pruneMailboxes (hP : Chan.DelClosed ok P) {app now} (l : List MailboxRow) :
    ∀ {s : Sys}, AllDb W P s → (∀ row ∈ l, ∀ k ∈ s.db.mbKeys, k.2 = row.id → ok k.1 k.2) →
      AllDb W P (s.pruneMailboxes app now l) := by
  induction l with
  | nil => intro s a _; exact a
  | cons row rest ih =>
    intro s a hok
    unfold Sys.pruneMailboxes
    simp only []
    have hs := Chan.delBlock_prune s.db row.id
    have h0 : AllDb W P (s.modDb (fun d => ((d.delMessagesOf row.id).delMbSidesOf row.id).delMailbox row.id)) :=
      a.modDb (hP _ _ a.db ⟨[row.id], hs, fun k hk hd =>
        hok row (by simp) k hk (by simpa using hd)⟩)
    have hok' : ∀ r ∈ rest, ∀ k ∈ (((s.db.delMessagesOf row.id).delMbSidesOf row.id).delMailbox row.id).mbKeys,
        k.2 = r.id → ok k.1 k.2 := by
      intro r hr k hk
      rw [hs.keys] at hk
      exact hok r (by simp [hr]) k (List.mem_filter.1 hk).1
    split
    · exact ih h0.storeMailboxUsage hok'
    · exact ih h0 hok'

end del
end alldb

/-! ### Core.lean leaves the connection records alone (except the stop callbacks of `close`) -/

section conns
variable (s : Sys)

theorem listeners_congr {s s' : Sys} (h : s'.conns = s.conns) (a m : String) :
    s'.listeners a m = s.listeners a m := by simp [listeners, h]

@[simp] theorem storeNameplateUsage_conns (app sides t p) :
    (s.storeNameplateUsage app sides t p).1.conns = s.conns := by
  unfold storeNameplateUsage; split <;> rfl
@[simp] theorem storeMailboxUsage_conns (app forNp sides t p) :
    (s.storeMailboxUsage app forNp sides t p).conns = s.conns := rfl
@[simp] theorem mailboxOpen_conns (mb side t) : (s.mailboxOpen mb side t).conns = s.conns := by
  unfold mailboxOpen; split <;> simp
@[simp] theorem logClientVersion_conns (a sd t i v) : (s.logClientVersion a sd t i v).conns = s.conns := by
  unfold logClientVersion; split <;> simp
@[simp] theorem dumpStats_conns (now) : (s.dumpStats now).conns = s.conns := by
  unfold dumpStats; split <;> simp
@[simp] theorem touchListened_conns (app now) : (s.touchListened app now).conns = s.conns := rfl
@[simp] theorem emit_conns (e) : (s.emit e).conns = s.conns := rfl
@[simp] theorem send_conns (c f) : (s.send c f).conns = s.conns := rfl
@[simp] theorem sendError_conns (c t) : (s.sendError c t).conns = s.conns := rfl
@[simp] theorem internalErr_conns (c t) : (s.internalErr c t).conns = s.conns := rfl

theorem addMailbox_conns {s s1 : Sys} {app mb forNp t} (h : s.addMailbox app mb forNp t = some s1) :
    s1.conns = s.conns := by
  unfold addMailbox at h
  split at h
  · cases h; rfl
  · split at h
    · cases h
    · cases h; rfl

@[simp] theorem openMailbox_conns (app mb side t) : (s.openMailbox app mb side t).1.conns = s.conns := by
  unfold openMailbox
  split
  · rfl
  · rename_i s1 h1
    simp only []
    split <;> simp [addMailbox_conns h1]

@[simp] theorem claimCont_conns (app npid mb side t) : (claimCont s app npid mb side t).1.conns = s.conns := by
  unfold claimCont
  dsimp only
  have h3 := openMailbox_conns s.commit app mb side t
  split <;> rename_i s3 heq <;> rw [heq] at h3
  · simpa using h3
  · simpa using h3
  · split <;> simpa using h3

@[simp] theorem claimTail_conns (app npid mb side t) : (s.claimTail app npid mb side t).1.conns = s.conns := by
  rw [claimTail_eq]
  split
  · simp
  · split
    · simp
    · rfl

@[simp] theorem claimNameplate_conns (app name side t fresh) :
    (s.claimNameplate app name side t fresh).1.conns = s.conns := by
  unfold claimNameplate
  split
  · split
    · rfl
    · rename_i s2 h2
      simp [addMailbox_conns h2]
  · simp

@[simp] theorem releaseNameplate_conns (app name side t) :
    (s.releaseNameplate app name side t).1.conns = s.conns := by
  unfold releaseNameplate
  split
  · rfl
  · split
    · rfl
    · rename_i _ np _ _ _ _
      simp only []
      split
      · simp
      · split
        · have h3 := storeNameplateUsage_conns (((s.modDb (·.unclaim np.id side)).commit).modDb
            (fun d => (d.delNpSidesOf np.id).delNameplate np.id)) app
            (((s.modDb (·.unclaim np.id side)).commit).db.npSidesOf np.id) t false
          split <;> rename_i s3 heq <;> rw [heq] at h3
          · simpa using h3
          · simpa using h3
        · simp

theorem storeNameplatesOfMailbox_conns {app t} (l : List Nameplate) :
    ∀ (s : Sys), (s.storeNameplatesOfMailbox app t l).1.conns = s.conns := by
  induction l with
  | nil => intro s; rfl
  | cons np rest ih =>
    intro s
    unfold storeNameplatesOfMailbox
    have h1 := storeNameplateUsage_conns s app (s.db.npSidesOf np.id) t false
    split
    · rename_i s2 heq; rw [heq] at h1; exact h1
    · rename_i s2 heq; rw [heq] at h1; rw [ih s2, h1]

theorem pruneNameplates_conns {app now} (l : List Nameplate) :
    ∀ (s : Sys), (s.pruneNameplates app now l).1.conns = s.conns := by
  induction l with
  | nil => intro s; rfl
  | cons np rest ih =>
    intro s
    unfold pruneNameplates
    simp only []
    split
    · have h1 := storeNameplateUsage_conns (s.modDb (fun d => (d.delNpSidesOf np.id).delNameplate np.id))
        app (s.db.npSidesOf np.id) now true
      split <;> rename_i heq <;> rw [heq] at h1
      · simpa using h1
      · rw [ih]; simpa using h1
    · rw [ih]; rfl

theorem pruneMailboxes_conns {app now} (l : List MailboxRow) :
    ∀ (s : Sys), (s.pruneMailboxes app now l).conns = s.conns := by
  induction l with
  | nil => intro s; rfl
  | cons row rest ih =>
    intro s
    unfold pruneMailboxes
    simp only []
    rw [ih]
    split <;> rfl

@[simp] theorem prune_conns (app now old) : (s.prune app now old).1.conns = s.conns := by
  rw [prune_eq]
  dsimp only
  unfold pruneRest
  have h2 := pruneNameplates_conns (app := app) (now := now)
    (((s.touchListened app now).commit.db.nameplatesOfApp app).filter (fun r => r.mailbox ∈
      (((s.touchListened app now).commit.db.mailboxesOfApp app).filter (fun r => ¬ r.updated > old)).map (·.id)))
    (s.touchListened app now).commit
  split <;> rename_i heq <;> rw [heq] at h2
  · simpa using h2
  · dsimp only
    split
    · split <;> simp [pruneMailboxes_conns] <;> simpa using h2
    · simp [pruneMailboxes_conns]; simpa using h2

theorem pruneApps_conns {now old} (l : List String) :
    ∀ (s : Sys), (s.pruneApps now old l).1.conns = s.conns := by
  induction l with
  | nil => intro s; rfl
  | cons app rest ih =>
    intro s
    unfold pruneApps
    have h1 := prune_conns s app now old
    split <;> rename_i heq <;> rw [heq] at h1
    · exact h1
    · rw [ih]; exact h1

/-- **a sweep never touches a connection record** -/
@[simp] theorem expire_conns (now fault) : (s.expire now fault).conns = s.conns := by
  unfold expire
  simp only [dumpStats_conns]
  split
  · rfl
  · have h1 := pruneApps_conns (now := now) (old := now - Generated.expirationTicks)
      ((s.emit (.fired now (now - Generated.expirationTicks))).allApps)
      (s.emit (.fired now (now - Generated.expirationTicks)))
    split <;> rename_i heq <;> rw [heq] at h1
    · simpa using h1
    · simpa using h1

/-- `Mailbox.close`: either the connection records and `mpart` are as before, or the mailbox row
    was deleted and the stop callbacks ran (and nothing else happened to the records) -/
theorem mailboxClose_conns (app mb side mood t) :
    ((s.mailboxClose app mb side mood t).1.conns = s.conns ∧
      (s.mailboxClose app mb side mood t).1.db.mpart = s.db.mpart) ∨
    ((s.mailboxClose app mb side mood t).1.conns = (s.stopListeners app mb).conns ∧
      (∃ row, s.db.findMailbox app mb = some row) ∧
      ∀ k ∈ (s.mailboxClose app mb side mood t).1.db.mbKeys, ¬ k.2 = mb) := by
  unfold mailboxClose
  split
  · exact .inl ⟨rfl, rfl⟩
  · rename_i row hrow
    split
    · exact .inl ⟨rfl, rfl⟩
    · simp only []
      split
      · exact .inl ⟨by simp, by simp⟩
      · generalize hE : (if ((s.modDb (·.closeSide mb side mood)).commit).cfg.usage then _ else _) = p
        obtain ⟨s2, b⟩ := p
        obtain ⟨u, _, _⟩ := closeStore_spec hE
        have hc : s2.conns = s.conns := by
          split at hE
          · have := storeNameplatesOfMailbox_conns (app := app) (t := t)
              (((s.modDb (·.closeSide mb side mood)).commit).db.nameplatesOfMailbox app mb)
              ((s.modDb (·.closeSide mb side mood)).commit)
            rw [hE] at this
            simpa using this
          · cases hE; simp
        have hd : s2.db.mpart = s.db.mpart := by rw [u.db]; simp
        dsimp only
        split
        · exact .inl ⟨hc, hd⟩
        · refine .inr ⟨?_, ⟨row, hrow⟩, ?_⟩
          · simp only [stopListeners]
            split <;> simp [hc, storeMailboxUsage]
          · intro k hk
            simp only [stopListeners_db, commit_db] at hk
            have hk' : k ∈ (((((s2.db.delNpSidesOfMailbox app mb).delNameplatesOfMailbox app mb).delMessagesOf
                mb).delMbSidesOf mb).delMailbox mb).mbKeys := by
              split at hk <;> simpa [storeMailboxUsage] using hk
            rw [(Chan.delBlock_close s2.db app mb).keys] at hk'
            simpa using (List.mem_filter.1 hk').2

end conns

end Sys
end Wormhole
