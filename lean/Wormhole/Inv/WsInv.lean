/-
  Websocket level (Ws.lean = server_websocket.py): every handler maps `Full` states to `Full`
  states, and emits an `Event.internal` only for the stated cause.

  `Full U t S s` = `Good U t S s` (Inv/StepInv.lean) + connection ids unique + every connection
  record is consistent (`Conn.Ok`) and remembers only known mailbox ids (`Conn.UC U`).
  `WInv … c z s` is the same with the record of the ACTING connection `c` pinned to the value `z`
  and exempted from `Conn.Ok` (it is transiently violated inside `handle_close`, which holds a
  handle without listening).
-/
import Wormhole.Inv.StepInv
import Wormhole.Inv.WsLemmas

set_option linter.unusedSimpArgs false

namespace Wormhole

/-- the per-connection part of `ConnInv`: handle ⇔ listening, app ⇔ side -/
structure Conn.Ok (y : Conn) : Prop where
  hl : y.mailbox.isSome → y.listening = true
  lm : y.listening = true → y.mailbox.isSome
  bound : y.app.isSome ↔ y.side.isSome

/-- the mailbox id a connection remembers is known -/
def Conn.UC (U : String → Prop) (y : Conn) : Prop := ∀ m, y.mailboxId = some m → U m

/-- the mailbox id exists, but not under this app (finding K-global-mailbox-id) -/
def Chan.ForeignMb (d : Chan) (app mb : String) : Prop := ¬ d.HasMb app mb ∧ ∃ m ∈ d.mailboxes, m.id = mb

/-- an `internal` event implies `A` -/
def IntOnly (A : Prop) (e : Event) : Prop := ∀ cc cls, e = .internal cc cls → A

theorem intOnly_of_commit {A : Prop} (e : Event) (h : Sys.IsCommit e) : IntOnly A e := by
  obtain ⟨w, rfl⟩ := h
  intro cc cls h; cases h

theorem intOnly_frame {A : Prop} (c f b) : IntOnly A (.frame c f b) := by
  intro cc cls h; cases h

theorem intOnly_internal {A : Prop} (a : A) (c cls) : IntOnly A (.internal c cls) := fun _ _ _ => a

namespace Sys

theorem CExt.intOnly {A : Prop} {s s' : Sys} (h : CExt s s') : OutExt (IntOnly A) s s' :=
  h.mono intOnly_of_commit

theorem findConn_id' {s : Sys} {c : Nat} {x : Conn} (hx : s.findConn c = some x) : x.id = c := by
  have := List.find?_some hx
  simpa using this

theorem findConn_mem' {s : Sys} {c : Nat} {x : Conn} (hx : s.findConn c = some x) : x ∈ s.conns :=
  List.mem_of_find?_eq_some hx

section
variable {U : String → Prop} {t : Time} {S : Prop}

structure Full (U : String → Prop) (t : Time) (S : Prop) (s : Sys) : Prop where
  good : s.Good U t S
  ids : s.conns.Pairwise (fun a b => ¬ a.id = b.id)
  conn : ∀ y ∈ s.conns, y.Ok ∧ y.UC U

structure WInv (U : String → Prop) (t : Time) (S : Prop) (c : Nat) (z : Conn) (s : Sys) : Prop where
  good : s.Good U t S
  ids : s.conns.Pairwise (fun a b => ¬ a.id = b.id)
  others : ∀ y ∈ s.conns, ¬ y.id = c → y.Ok ∧ y.UC U
  self : ∀ y ∈ s.conns, y.id = c → y = z
  zid : z.id = c

theorem Full.winv {s : Sys} (h : s.Full U t S) {x : Conn} (hx : x ∈ s.conns) : s.WInv U t S x.id x := by
  refine ⟨h.good, h.ids, fun y hy _ => h.conn y hy, ?_, rfl⟩
  intro y hy e
  exact Chan.eq_of_pairwise_ne (f := Conn.id) h.ids hy hx e

theorem WInv.full {s : Sys} {c : Nat} {z : Conn} (h : s.WInv U t S c z) (hz : z.Ok) (hu : z.UC U) :
    s.Full U t S := by
  refine ⟨h.good, h.ids, ?_⟩
  intro y hy
  by_cases e : y.id = c
  · rw [h.self y hy e]; exact ⟨hz, hu⟩
  · exact h.others y hy e

theorem Full.emit {s : Sys} (h : s.Full U t S) (e : Event) : (s.emit e).Full U t S :=
  ⟨h.good.emit e, h.ids, h.conn⟩
theorem Full.send {s : Sys} (h : s.Full U t S) (c f) : (s.send c f).Full U t S := h.emit _
theorem Full.sendError {s : Sys} (h : s.Full U t S) (c txt) : (s.sendError c txt).Full U t S := h.emit _
theorem Full.internalErr {s : Sys} (h : s.Full U t S) (c cls) : (s.internalErr c cls).Full U t S := h.emit _

theorem WInv.emit {s : Sys} {c : Nat} {z : Conn} (h : s.WInv U t S c z) (e : Event) :
    (s.emit e).WInv U t S c z :=
  ⟨h.good.emit e, h.ids, h.others, h.self, h.zid⟩

/-- a Core function that leaves the connection records alone -/
theorem WInv.of_core {s s1 : Sys} {c : Nat} {z : Conn} (h : s.WInv U t S c z) (g : s1.Good U t S)
    (e : s1.conns = s.conns) : s1.WInv U t S c z :=
  ⟨g, by rw [e]; exact h.ids, by rw [e]; exact h.others, by rw [e]; exact h.self, h.zid⟩

theorem Full.of_core {s s1 : Sys} (h : s.Full U t S) (g : s1.Good U t S) (e : s1.conns = s.conns) :
    s1.Full U t S :=
  ⟨g, by rw [e]; exact h.ids, by rw [e]; exact h.conn⟩

theorem stop_ok {y : Conn} (h : y.Ok) : ({ y with mailbox := none, listening := false } : Conn).Ok :=
  ⟨by simp, by simp, h.bound⟩

/-- `Mailbox.close` (which may run the stop callbacks), while the acting connection is not listening -/
theorem WInv.of_close {s s1 : Sys} {c : Nat} {z : Conn} {app mb : String} (h : s.WInv U t S c z)
    (hz : z.listening = false) (g : s1.Good U t S)
    (e : s1.conns = s.conns ∨ s1.conns = (s.stopListeners app mb).conns) : s1.WInv U t S c z := by
  rcases e with e | e
  · exact h.of_core g e
  · have hmem : ∀ y' ∈ s1.conns, ∃ y ∈ s.conns, y'.id = y.id ∧
        (y' = y ∨ (y.listening = true ∧ y' = { y with mailbox := none, listening := false })) := by
      intro y' hy'
      rw [e] at hy'
      simp only [stopListeners, List.mem_map] at hy'
      obtain ⟨y, hy, rfl⟩ := hy'
      refine ⟨y, hy, ?_⟩
      split
      · rename_i hc; exact ⟨rfl, Or.inr ⟨hc.1, rfl⟩⟩
      · exact ⟨rfl, Or.inl rfl⟩
    refine ⟨g, ?_, ?_, ?_, h.zid⟩
    · rw [e]
      simp only [stopListeners, List.pairwise_map]
      refine h.ids.imp ?_
      intro a b hab
      split <;> split <;> exact hab
    · intro y' hy' hne
      obtain ⟨y, hy, eid, hcase⟩ := hmem y' hy'
      have hyo := h.others y hy (by rw [← eid]; exact hne)
      rcases hcase with rfl | ⟨_, rfl⟩
      · exact hyo
      · exact ⟨stop_ok hyo.1, hyo.2⟩
    · intro y' hy' heq
      obtain ⟨y, hy, eid, hcase⟩ := hmem y' hy'
      have hyz := h.self y hy (by rw [← eid]; exact heq)
      rcases hcase with rfl | ⟨hl, _⟩
      · exact hyz
      · rw [hyz, hz] at hl; cases hl

/-- an update of the acting connection's record -/
theorem WInv.updConn {s : Sys} {c : Nat} {z : Conn} (h : s.WInv U t S c z) (f : Conn → Conn)
    (hid : (f z).id = z.id)
    (hlh : (f z).listening = true → ∀ m, (f z).mailbox = some m → ∃ a, (f z).app = some a ∧ s.db.HasMb a m) :
    (s.updConn c f).WInv U t S c (f z) := by
  have hmem : ∀ y' ∈ (s.updConn c f).conns, ∃ y ∈ s.conns, y'.id = y.id ∧
      ((¬ y.id = c ∧ y' = y) ∨ (y.id = c ∧ y' = f z)) := by
    intro y' hy'
    simp only [Sys.updConn, List.mem_map] at hy'
    obtain ⟨y, hy, rfl⟩ := hy'
    refine ⟨y, hy, ?_⟩
    split
    · rename_i hc
      have := h.self y hy hc
      subst this
      exact ⟨hid, Or.inr ⟨hc, rfl⟩⟩
    · rename_i hc; exact ⟨rfl, Or.inl ⟨hc, rfl⟩⟩
  refine ⟨⟨⟨h.good.db, h.good.d.of_eq rfl rfl, ?_⟩, h.good.sx⟩, ?_, ?_, ?_, hid.trans h.zid⟩
  · intro y' hy' hl m hm
    obtain ⟨y, hy, _, hcase⟩ := hmem y' hy'
    rcases hcase with ⟨_, rfl⟩ | ⟨_, rfl⟩
    · exact h.good.lh y' hy hl m hm
    · exact hlh hl m hm
  · simp only [Sys.updConn, List.pairwise_map]
    refine h.ids.imp_of_mem ?_
    intro a b ha hb hab
    have ea : (if a.id = c then f a else a).id = a.id := by
      split
      · rename_i hc; rw [h.self a ha hc]; exact hid
      · rfl
    have eb : (if b.id = c then f b else b).id = b.id := by
      split
      · rename_i hc; rw [h.self b hb hc]; exact hid
      · rfl
    rw [ea, eb]; exact hab
  · intro y' hy' hne
    obtain ⟨y, hy, eid, hcase⟩ := hmem y' hy'
    rcases hcase with ⟨hc, rfl⟩ | ⟨hc, rfl⟩
    · exact h.others y' hy hc
    · exact absurd (hid.trans h.zid) hne
  · intro y' hy' _
    obtain ⟨y, hy, eid, hcase⟩ := hmem y' hy'
    rcases hcase with ⟨hc, rfl⟩ | ⟨hc, rfl⟩
    · exact absurd (eid ▸ ‹y'.id = c›) hc
    · rfl

theorem Full.foldl_send {α : Type} (g : α → Nat) (fr : α → Frame) (l : List α) :
    ∀ {s : Sys}, s.Full U t S → (l.foldl (fun s a => s.send (g a) (fr a)) s).Full U t S := by
  induction l with
  | nil => intro s h; exact h
  | cons a l ih => intro s h; exact ih (h.send _ _)

end

end Sys
end Wormhole
