/-
  Websocket level (Ws.lean = server_websocket.py): every handler maps `Full` states to `Full`
  states, and emits an `Event.internal` only for the stated cause.

  `Full U t S s` = `Good U t S s` (Inv/StepInv.lean) + connection ids unique + every connection
  record is consistent (`Conn.Ok`) and remembers only known mailbox ids (`Conn.UC U`).
  `WInv … c z s` is the same with the record of the ACTING connection `c` pinned to the value `z`
  and exempted from `Conn.Ok` (it is transiently violated inside `handle_close`, which holds a
  handle without listening).
-/
import Wormhole.Inv.StepInv
import Wormhole.Inv.WsLemmas
import Wormhole.Reach

set_option linter.unusedSimpArgs false

namespace Wormhole

/-- the per-connection part of `ConnInv`: handle ⇔ listening, app ⇔ side -/
structure Conn.Ok (y : Conn) : Prop where
  hl : y.mailbox.isSome → y.listening = true
  lm : y.listening = true → y.mailbox.isSome
  bound : y.app.isSome ↔ y.side.isSome

/-- the mailbox id a connection remembers is known -/
def Conn.UC (U : String → Prop) (y : Conn) : Prop := ∀ m, y.mailboxId = some m → U m

/-- the mailbox id exists, but not under this app (finding K-global-mailbox-id) -/
def Chan.ForeignMb (d : Chan) (app mb : String) : Prop := ¬ d.HasMb app mb ∧ ∃ m ∈ d.mailboxes, m.id = mb

/-- an `internal` event implies `A` -/
def IntOnly (A : Prop) (e : Event) : Prop := ∀ cc cls, e = .internal cc cls → A

theorem intOnly_of_commit {A : Prop} (e : Event) (h : Sys.IsCommit e) : IntOnly A e := by
  obtain ⟨w, rfl⟩ := h
  intro cc cls h; cases h

theorem intOnly_frame {A : Prop} (c f b) : IntOnly A (.frame c f b) := by
  intro cc cls h; cases h

theorem intOnly_internal {A : Prop} (a : A) (c cls) : IntOnly A (.internal c cls) := fun _ _ _ => a

/-- `e` is not an `Event.internal` -/
def Event.notInternal : Event → Bool
  | .internal _ _ => false
  | _ => true

theorem notInternal_of_intOnly_false {e : Event} (h : IntOnly False e) : e.notInternal = true := by
  cases e with
  | internal c cls => exact (h c cls rfl).elim
  | _ => rfl

theorem IntOnly.cause {A : Prop} {e : Event} (h : IntOnly A e) (he : e.notInternal = false) : A := by
  cases e with
  | internal c cls => exact h c cls rfl
  | _ => cases he

namespace Sys

theorem CExt.intOnly {A : Prop} {s s' : Sys} (h : CExt s s') : OutExt (IntOnly A) s s' :=
  h.mono intOnly_of_commit

theorem findConn_id' {s : Sys} {c : Nat} {x : Conn} (hx : s.findConn c = some x) : x.id = c := by
  have := List.find?_some hx
  simpa using this

theorem findConn_mem' {s : Sys} {c : Nat} {x : Conn} (hx : s.findConn c = some x) : x ∈ s.conns :=
  List.mem_of_find?_eq_some hx

section
variable {U : String → Prop} {t : Time} {S : Prop}

structure Full (U : String → Prop) (t : Time) (S : Prop) (s : Sys) : Prop where
  good : s.Good U t S
  ids : s.conns.Pairwise (fun a b => ¬ a.id = b.id)
  conn : ∀ y ∈ s.conns, y.Ok ∧ y.UC U

structure WInv (U : String → Prop) (t : Time) (S : Prop) (c : Nat) (z : Conn) (s : Sys) : Prop where
  good : s.Good U t S
  ids : s.conns.Pairwise (fun a b => ¬ a.id = b.id)
  others : ∀ y ∈ s.conns, ¬ y.id = c → y.Ok ∧ y.UC U
  self : ∀ y ∈ s.conns, y.id = c → y = z
  zid : z.id = c

theorem Full.winv {s : Sys} (h : s.Full U t S) {x : Conn} (hx : x ∈ s.conns) : s.WInv U t S x.id x := by
  refine ⟨h.good, h.ids, fun y hy _ => h.conn y hy, ?_, rfl⟩
  intro y hy e
  exact Chan.eq_of_pairwise_ne (f := Conn.id) h.ids hy hx e

theorem WInv.full {s : Sys} {c : Nat} {z : Conn} (h : s.WInv U t S c z) (hz : z.Ok) (hu : z.UC U) :
    s.Full U t S := by
  refine ⟨h.good, h.ids, ?_⟩
  intro y hy
  by_cases e : y.id = c
  · rw [h.self y hy e]; exact ⟨hz, hu⟩
  · exact h.others y hy e

theorem Full.emit {s : Sys} (h : s.Full U t S) (e : Event) : (s.emit e).Full U t S :=
  ⟨h.good.emit e, h.ids, h.conn⟩
theorem Full.send {s : Sys} (h : s.Full U t S) (c f) : (s.send c f).Full U t S := h.emit _
theorem Full.sendError {s : Sys} (h : s.Full U t S) (c txt) : (s.sendError c txt).Full U t S := h.emit _
theorem Full.internalErr {s : Sys} (h : s.Full U t S) (c cls) : (s.internalErr c cls).Full U t S := h.emit _

theorem WInv.emit {s : Sys} {c : Nat} {z : Conn} (h : s.WInv U t S c z) (e : Event) :
    (s.emit e).WInv U t S c z :=
  ⟨h.good.emit e, h.ids, h.others, h.self, h.zid⟩

/-- a Core function that leaves the connection records alone -/
theorem WInv.of_core {s s1 : Sys} {c : Nat} {z : Conn} (h : s.WInv U t S c z) (g : s1.Good U t S)
    (e : s1.conns = s.conns) : s1.WInv U t S c z :=
  ⟨g, by rw [e]; exact h.ids, by rw [e]; exact h.others, by rw [e]; exact h.self, h.zid⟩

theorem Full.of_core {s s1 : Sys} (h : s.Full U t S) (g : s1.Good U t S) (e : s1.conns = s.conns) :
    s1.Full U t S :=
  ⟨g, by rw [e]; exact h.ids, by rw [e]; exact h.conn⟩

theorem stop_ok {y : Conn} (h : y.Ok) : ({ y with mailbox := none, listening := false } : Conn).Ok :=
  ⟨by simp, by simp, h.bound⟩

/-- `Mailbox.close` (which may run the stop callbacks), while the acting connection is not listening -/
theorem WInv.of_close {s s1 : Sys} {c : Nat} {z : Conn} {app mb : String} (h : s.WInv U t S c z)
    (hz : z.listening = false) (g : s1.Good U t S)
    (e : s1.conns = s.conns ∨ s1.conns = (s.stopListeners app mb).conns) : s1.WInv U t S c z := by
  rcases e with e | e
  · exact h.of_core g e
  · have hmem : ∀ y' ∈ s1.conns, ∃ y ∈ s.conns, y'.id = y.id ∧
        (y' = y ∨ (y.listening = true ∧ y' = { y with mailbox := none, listening := false })) := by
      intro y' hy'
      rw [e] at hy'
      simp only [stopListeners, List.mem_map] at hy'
      obtain ⟨y, hy, rfl⟩ := hy'
      refine ⟨y, hy, ?_⟩
      split
      · rename_i hc; exact ⟨rfl, Or.inr ⟨hc.1, rfl⟩⟩
      · exact ⟨rfl, Or.inl rfl⟩
    refine ⟨g, ?_, ?_, ?_, h.zid⟩
    · rw [e]
      simp only [stopListeners, List.pairwise_map]
      refine h.ids.imp ?_
      intro a b hab
      split <;> split <;> exact hab
    · intro y' hy' hne
      obtain ⟨y, hy, eid, hcase⟩ := hmem y' hy'
      have hyo := h.others y hy (by rw [← eid]; exact hne)
      rcases hcase with rfl | ⟨_, rfl⟩
      · exact hyo
      · exact ⟨stop_ok hyo.1, hyo.2⟩
    · intro y' hy' heq
      obtain ⟨y, hy, eid, hcase⟩ := hmem y' hy'
      have hyz := h.self y hy (by rw [← eid]; exact heq)
      rcases hcase with rfl | ⟨hl, _⟩
      · exact hyz
      · rw [hyz, hz] at hl; cases hl

/-- an update of the acting connection's record -/
theorem WInv.updConn {s : Sys} {c : Nat} {z : Conn} (h : s.WInv U t S c z) (f : Conn → Conn)
    (hid : (f z).id = z.id)
    (hlh : (f z).listening = true → ∀ m, (f z).mailbox = some m → ∃ a, (f z).app = some a ∧ s.db.HasMb a m) :
    (s.updConn c f).WInv U t S c (f z) := by
  have hmem : ∀ y' ∈ (s.updConn c f).conns, ∃ y ∈ s.conns, y'.id = y.id ∧
      ((¬ y.id = c ∧ y' = y) ∨ (y.id = c ∧ y' = f z)) := by
    intro y' hy'
    simp only [Sys.updConn, List.mem_map] at hy'
    obtain ⟨y, hy, rfl⟩ := hy'
    refine ⟨y, hy, ?_⟩
    split
    · rename_i hc
      have := h.self y hy hc
      subst this
      exact ⟨hid, Or.inr ⟨hc, rfl⟩⟩
    · rename_i hc; exact ⟨rfl, Or.inl ⟨hc, rfl⟩⟩
  refine ⟨⟨⟨h.good.db, h.good.d.of_eq rfl rfl, ?_⟩, h.good.sx⟩, ?_, ?_, ?_, hid.trans h.zid⟩
  · intro y' hy' hl m hm
    obtain ⟨y, hy, _, hcase⟩ := hmem y' hy'
    rcases hcase with ⟨_, rfl⟩ | ⟨_, rfl⟩
    · exact h.good.lh y' hy hl m hm
    · exact hlh hl m hm
  · simp only [Sys.updConn, List.pairwise_map]
    refine h.ids.imp_of_mem ?_
    intro a b ha hb hab
    have ea : (if a.id = c then f a else a).id = a.id := by
      split
      · rename_i hc; rw [h.self a ha hc]; exact hid
      · rfl
    have eb : (if b.id = c then f b else b).id = b.id := by
      split
      · rename_i hc; rw [h.self b hb hc]; exact hid
      · rfl
    rw [ea, eb]; exact hab
  · intro y' hy' hne
    obtain ⟨y, hy, eid, hcase⟩ := hmem y' hy'
    rcases hcase with ⟨hc, rfl⟩ | ⟨hc, rfl⟩
    · exact h.others y' hy hc
    · exact absurd (hid.trans h.zid) hne
  · intro y' hy' _
    obtain ⟨y, hy, eid, hcase⟩ := hmem y' hy'
    rcases hcase with ⟨hc, rfl⟩ | ⟨hc, rfl⟩
    · exact absurd (eid ▸ ‹y'.id = c›) hc
    · rfl

theorem Full.foldl_send {α : Type} (g : α → Nat) (fr : α → Frame) (l : List α) :
    ∀ {s : Sys}, s.Full U t S → (l.foldl (fun s a => s.send (g a) (fr a)) s).Full U t S := by
  induction l with
  | nil => intro s h; exact h
  | cons a l ih => intro s h; exact ih (h.send _ _)

end

/-! ### `allocate` on a free name with a fresh mailbox id cannot be crowded, reclaimed or refused -/

theorem mbSidesOf_openSide_le (d : Chan) (mb side : String) (t : Time) :
    ((d.openSide mb side t).mbSidesOf mb).length ≤ (d.mbSidesOf mb).length + 1 := by
  unfold Chan.openSide
  split
  · simp only [Chan.mbSidesOf, Chan.touch, Chan.insMbSide, List.filter_append, List.length_append]
    have : ([({ mailbox := mb, opened := true, side := side, added := t, mood := none } : MbSide)].filter
        (fun r => decide (r.mailbox = mb))).length ≤ 1 := List.length_filter_le _ _
    omega
  · simp only [Chan.mbSidesOf, Chan.touch]; omega

theorem openMailbox_integrity {s s1 : Sys} {app mb side : String} {t : Time}
    (e : s.openMailbox app mb side t = (s1, .integrity)) : ¬ s.db.HasMb app mb := by
  unfold openMailbox at e
  split at e
  · rename_i e0; exact (addMailbox_none e0).1
  · dsimp only at e
    split at e <;> simp at e

theorem openMailbox_crowded {s s1 : Sys} {app mb side : String} {t : Time}
    (e : s.openMailbox app mb side t = (s1, .crowded)) : 2 ≤ (s.db.mbSidesOf mb).length := by
  unfold openMailbox at e
  split at e
  · simp at e
  · rename_i s0 e0
    have hs0 : s0.db.mbSides = s.db.mbSides := by
      rcases addMailbox_cases e0 with ⟨rfl, _⟩ | ⟨rfl, _⟩ <;> rfl
    dsimp only at e
    split at e
    · rename_i hlen
      have hdb : ((s0.mailboxOpen mb side t).commit).db = s0.db.openSide mb side t := by
        rw [mailboxOpen_eq]; simp
      rw [hdb] at hlen
      have := mbSidesOf_openSide_le s0.db mb side t
      have e2 : (s0.db.mbSidesOf mb) = (s.db.mbSidesOf mb) := by simp [Chan.mbSidesOf, hs0]
      rw [e2] at this
      omega
    · simp at e

theorem claimCont_isOk {s s1 : Sys} {app mb side : String} {npid : Nat} {t : Time} {r : ClaimRes}
    (hmb : s.db.HasMb app mb) (h1 : (s.db.mbSidesOf mb).length < 2) (h2 : (s.db.npSidesOf npid).length ≤ 2)
    (e : claimCont s app npid mb side t = (s1, r)) : r = .ok mb := by
  unfold claimCont at e
  dsimp only at e
  split at e
  · rename_i s3 e3
    exact absurd (by simpa using hmb) (openMailbox_integrity e3)
  · rename_i s3 e3
    have := openMailbox_crowded e3
    simp only [commit_db] at this
    omega
  · rename_i s3 e3
    obtain ⟨d, _, _⟩ := openMailbox_spec e3
    have hnp := d.np
    simp only [Chan.npPart, commit_db, Prod.mk.injEq] at hnp
    have e2 : s3.db.npSidesOf npid = s.db.npSidesOf npid := by simp [Chan.npSidesOf, hnp.2.1]
    rw [e2] at e
    split at e
    · omega
    · simp only [Prod.mk.injEq] at e
      exact e.2.symm

theorem npSidesOf_insNew_length (d : Chan) (hb : d.IdsBounded) (app name mb side : String) (t : Time) :
    (((d.insNameplate app name mb).insNpSide ⟨d.nextNp, true, side, t⟩).npSidesOf d.nextNp).length ≤ 1 := by
  have h0 : (d.npSides.filter (fun r => decide (r.npid = d.nextNp))) = [] := by
    simp only [List.filter_eq_nil_iff, decide_eq_true_eq]
    intro r' hr' e'
    have := hb.2 r' hr'
    omega
  simp only [Chan.npSidesOf, Chan.insNpSide, Chan.insNameplate, List.filter_append, List.length_append, h0,
    List.length_nil, Nat.zero_add]
  exact List.length_filter_le _ _

theorem claimNameplate_new_isOk {s s1 : Sys} {app name side fresh : String} {t : Time} {r : ClaimRes}
    (hc : s.db.CInv) (hnp : s.db.findNameplate app name = none) (hfresh : ∀ m ∈ s.db.mailboxes, ¬ m.id = fresh)
    (e : s.claimNameplate app name side t fresh = (s1, r)) : r = .ok fresh := by
  unfold claimNameplate at e
  simp only [hnp] at e
  split at e
  · rename_i e0
    obtain ⟨_, m, hm, em⟩ := addMailbox_none e0
    exact absurd em (hfresh m hm)
  · rename_i s0 e0
    rcases addMailbox_cases e0 with ⟨_, ⟨m, hm, em, _⟩⟩ | ⟨rfl, _⟩
    · exact absurd em (hfresh m hm)
    · have hside : ((s.modDb (·.insMailbox ⟨app, fresh, t, true⟩)).modDb (·.insNameplate app name fresh)).db.findNpSide
          (s.modDb (·.insMailbox ⟨app, fresh, t, true⟩)).db.nextNp side = none := by
        exact hc.bounded.findNpSide_fresh side
      rw [claimTail_eq, hside] at e
      dsimp only at e
      refine claimCont_isOk ?_ ?_ ?_ e
      · simp only [modDb_db, Chan.hasMb_insNpSide, Chan.hasMb_insNameplate]
        exact (Chan.hasMb_insMailbox _ _ _ _).2 (Or.inr ⟨rfl, rfl⟩)
      · have : ∀ r' ∈ s.db.mbSides, ¬ r'.mailbox = fresh := by
          intro r' hr' e'
          obtain ⟨m, hm, em⟩ := hc.msFk r' hr'
          exact hfresh m hm (em.trans e')
        have h0 : (s.db.mbSides.filter (fun r => decide (r.mailbox = fresh))) = [] := by
          simp only [List.filter_eq_nil_iff, decide_eq_true_eq]
          exact this
        simp [Chan.mbSidesOf, Chan.insNpSide, Chan.insNameplate, Chan.insMailbox, h0]
      · exact Nat.le_trans (npSidesOf_insNew_length (s.db.insMailbox ⟨app, fresh, t, true⟩) hc.bounded app name
          fresh side t) (by omega)

theorem findShort_not_mem {claimed : List String} {pick : Nat} :
    ∀ {sizes : List Nat} {k : Nat}, findShort claimed pick sizes = some k → ¬ toString k ∈ claimed := by
  intro sizes
  induction sizes with
  | nil => intro k h; simp [findShort] at h
  | cons size rest ih =>
    intro k h
    unfold findShort at h
    dsimp only at h
    split at h
    · rename_i k' hk'
      cases h
      have := List.mem_of_getElem? hk'
      simp only [availableOfSize, List.mem_filter, decide_not, Bool.not_eq_eq_eq_not, Bool.not_true,
        decide_eq_false_iff_not] at this
      exact this.2
    · exact ih h

/-- the name `_find_available_nameplate_id` returns is not among the claimed ones -/
theorem findAvailable_not_mem {claimed : List String} {pick : Nat} {draws : List Nat} {n : String}
    (h : findAvailable claimed pick draws = some n) : ¬ n ∈ claimed := by
  unfold findAvailable at h
  split at h
  · rename_i k hk
    cases h
    exact findShort_not_mem hk
  · split at h
    · rename_i k hk
      cases h
      have := List.find?_some hk
      simpa using this
    · cases h

theorem mem_namesOfApp' {d : Chan} {app n : String} :
    n ∈ d.namesOfApp app ↔ ∃ r ∈ d.nameplates, r.app = app ∧ r.name = n := by
  unfold Chan.namesOfApp
  rw [List.mem_eraseDups, List.mem_map]
  constructor
  · rintro ⟨r, hr, rfl⟩
    rw [List.mem_filter] at hr
    exact ⟨r, hr.1, by simpa using hr.2, rfl⟩
  · rintro ⟨r, hr, ha, rfl⟩
    exact ⟨r, List.mem_filter.2 ⟨hr, by simpa using ha⟩, rfl⟩

theorem findNameplate_none_of_findAvailable {d : Chan} {app : String} {pick : Nat} {draws : List Nat} {n : String}
    (h : findAvailable (d.namesOfApp app) pick draws = some n) : d.findNameplate app n = none := by
  have := findAvailable_not_mem h
  rw [mem_namesOfApp'] at this
  simp only [Chan.findNameplate, List.find?_eq_none, decide_eq_true_eq]
  intro r hr hk
  exact this ⟨r, hr, hk⟩

/-! ### the handlers -/

section handlers
variable {U : String → Prop} {t : Time} {S : Prop} {s : Sys} {x : Conn} {A : Prop}

theorem ox_send {s1 : Sys} (h : OutExt (IntOnly A) s s1) (c f) : OutExt (IntOnly A) s (s1.send c f) :=
  h.send (fun b => intOnly_frame c f b)
theorem ox_sendError {s1 : Sys} (h : OutExt (IntOnly A) s s1) (c txt) : OutExt (IntOnly A) s (s1.sendError c txt) :=
  ox_send h c _
theorem ox_internalErr {s1 : Sys} (h : OutExt (IntOnly A) s s1) (a : A) (c cls) :
    OutExt (IntOnly A) s (s1.internalErr c cls) :=
  h.emit (intOnly_internal a _ _)

/-- an update of flags that the invariant does not look at -/
theorem Full.updConn_flags (h : s.Full U t S) (hx : x ∈ s.conns) (f : Conn → Conn)
    (hf : (f x).id = x.id ∧ (f x).mailbox = x.mailbox ∧ (f x).listening = x.listening ∧ (f x).app = x.app ∧
      (f x).side = x.side ∧ (f x).mailboxId = x.mailboxId) : (s.updConn x.id f).Full U t S := by
  obtain ⟨f1, f2, f3, f4, f5, f6⟩ := hf
  obtain ⟨ok, uc⟩ := h.conn x hx
  refine ((h.winv hx).updConn f f1 ?_).full ⟨?_, ?_, ?_⟩ ?_
  · rw [f2, f3, f4]; exact h.good.lh x hx
  · rw [f2, f3]; exact ok.hl
  · rw [f2, f3]; exact ok.lm
  · rw [f4, f5]; exact ok.bound
  · intro m; rw [f6]; exact uc m

theorem handlePing_full (h : s.Full U t S) (c v) :
    (s.handlePing c v).Full U t S ∧ OutExt (IntOnly False) s (s.handlePing c v) := by
  unfold Sys.handlePing
  split
  · exact ⟨h.sendError _ _, ox_sendError OutExt.refl _ _⟩
  · exact ⟨h.send _ _, ox_send OutExt.refl _ _⟩

theorem handleBind_full (h : s.Full U t S) (hx : x ∈ s.conns) (t' a sd i v) :
    (s.handleBind x t' a sd i v).Full U t S ∧ OutExt (IntOnly False) s (s.handleBind x t' a sd i v) := by
  unfold Sys.handleBind
  split
  · exact ⟨h.sendError _ _, ox_sendError OutExt.refl _ _⟩
  · rename_i hg
    split
    · exact ⟨h.sendError _ _, ox_sendError OutExt.refl _ _⟩
    · split
      · exact ⟨h.sendError _ _, ox_sendError OutExt.refl _ _⟩
      · rename_i a' _ sd'
        obtain ⟨ok, uc⟩ := h.conn x hx
        have hnone : x.app = none := by
          cases hxa : x.app with
          | none => rfl
          | some _ => exact absurd (Or.inl (by simp [hxa])) hg
        have F1 : (s.updConn x.id (fun y => { y with app := some a', side := some sd' })).Full U t S := by
          refine ((h.winv hx).updConn _ rfl ?_).full ⟨ok.hl, ok.lm, by simp⟩ uc
          intro hl m hm
          obtain ⟨a0, ha0, _⟩ := h.good.lh x hx hl m hm
          rw [hnone] at ha0; cases ha0
        refine ⟨F1.of_core (F1.good.logClientVersion _ _ _ _ _) (by simp), ?_⟩
        exact (CExt.logClientVersion (OutExt.updConn OutExt.refl)).intOnly

theorem handleList_full (h : s.Full U t S) (app) :
    (s.handleList x app).Full U t S ∧ OutExt (IntOnly False) s (s.handleList x app) :=
  ⟨h.send _ _, ox_send OutExt.refl _ _⟩

theorem handleAllocate_full (h : s.Full U t S) (hx : x ∈ s.conns) (app side pick draws) {fresh : String}
    (hu : U fresh) :
    (s.handleAllocate x app side t pick draws fresh).Full U t S ∧
    OutExt (IntOnly (findAvailable (s.db.namesOfApp app) pick draws = none ∨ ∃ m ∈ s.db.mailboxes, m.id = fresh))
      s (s.handleAllocate x app side t pick draws fresh) := by
  unfold Sys.handleAllocate
  split
  · exact ⟨h.sendError _ _, ox_sendError OutExt.refl _ _⟩
  · split
    · rename_i efa
      exact ⟨h.internalErr _ _, ox_internalErr OutExt.refl (Or.inl efa) _ _⟩
    · rename_i name efa
      have hcause : ∀ {s1 : Sys} {r : ClaimRes}, s.claimNameplate app name side t fresh = (s1, r) →
          (∀ m, r ≠ .ok m) →
          (findAvailable (s.db.namesOfApp app) pick draws = none ∨ ∃ m ∈ s.db.mailboxes, m.id = fresh) := by
        intro s1 r e hr
        by_cases hf : ∃ m ∈ s.db.mailboxes, m.id = fresh
        · exact Or.inr hf
        · have := claimNameplate_new_isOk h.good.db.cinv (findNameplate_none_of_findAvailable efa)
            (fun m hm em => hf ⟨m, hm, em⟩) e
          exact absurd this (hr fresh)
      have key : ∀ {s1 : Sys} {r : ClaimRes}, s.claimNameplate app name side t fresh = (s1, r) →
          s1.Full U t S ∧ x ∈ s1.conns ∧
          OutExt (IntOnly (findAvailable (s.db.namesOfApp app) pick draws = none ∨
            ∃ m ∈ s.db.mailboxes, m.id = fresh)) s s1 := by
        intro s1 r e
        obtain ⟨k1, k2, _, _, _⟩ := claimNameplate_good h.good hu e
        refine ⟨h.of_core k1 k2, by rw [k2]; exact hx, ?_⟩
        have := (CExt.claimNameplate (OutExt.refl (s := s)) (app := app) (name := name) (side := side) (t := t)
          (fresh := fresh)).intOnly (A := (findAvailable (s.db.namesOfApp app) pick draws = none ∨
            ∃ m ∈ s.db.mailboxes, m.id = fresh))
        rw [e] at this; exact this
      split
      · rename_i s1 _ e
        obtain ⟨F1, hx1, ox⟩ := key e
        refine ⟨(F1.updConn_flags hx1 _ ⟨rfl, rfl, rfl, rfl, rfl, rfl⟩).send _ _, ?_⟩
        exact ox_send (OutExt.updConn ox) _ _
      · rename_i s1 e
        obtain ⟨F1, _, ox⟩ := key e
        exact ⟨F1.internalErr _ _, ox_internalErr ox (hcause e (by simp)) _ _⟩
      · rename_i s1 e
        obtain ⟨F1, _, ox⟩ := key e
        exact ⟨F1.internalErr _ _, ox_internalErr ox (hcause e (by simp)) _ _⟩
      · rename_i s1 e
        obtain ⟨F1, _, ox⟩ := key e
        exact ⟨F1.internalErr _ _, ox_internalErr ox (hcause e (by simp)) _ _⟩

theorem handleClaim_full (h : s.Full U t S) (hx : x ∈ s.conns) (app side n) {fresh : String} (hu : U fresh) :
    (s.handleClaim x app side t n fresh).Full U t S ∧
    OutExt (IntOnly (s.db.ForeignMb app fresh)) s (s.handleClaim x app side t n fresh) := by
  unfold Sys.handleClaim
  split
  · exact ⟨h.sendError _ _, ox_sendError OutExt.refl _ _⟩
  · rename_i name
    split
    · exact ⟨h.sendError _ _, ox_sendError OutExt.refl _ _⟩
    · dsimp only
      have F0 : (s.updConn x.id (fun y => { y with didClaim := true, nameplateId := some name })).Full U t S :=
        h.updConn_flags hx _ ⟨rfl, rfl, rfl, rfl, rfl, rfl⟩
      have key : ∀ {s1 : Sys} {r : ClaimRes},
          (s.updConn x.id (fun y => { y with didClaim := true, nameplateId := some name })).claimNameplate app name
            side t fresh = (s1, r) →
          s1.Full U t S ∧ OutExt (IntOnly (s.db.ForeignMb app fresh)) s s1 ∧
            (r = .integrity → s.db.ForeignMb app fresh) := by
        intro s1 r e
        obtain ⟨k1, k2, _, _, k5⟩ := claimNameplate_good F0.good hu e
        refine ⟨F0.of_core k1 k2, ?_, k5⟩
        have := (CExt.claimNameplate (OutExt.updConn (OutExt.refl (s := s)) (c := x.id)
          (f := fun y => { y with didClaim := true, nameplateId := some name })) (app := app) (name := name)
          (side := side) (t := t) (fresh := fresh)).intOnly (A := s.db.ForeignMb app fresh)
        rw [e] at this; exact this
      split
      · rename_i s1 _ e
        obtain ⟨F1, ox, _⟩ := key e
        exact ⟨F1.send _ _, ox_send ox _ _⟩
      · rename_i s1 e
        obtain ⟨F1, ox, _⟩ := key e
        exact ⟨F1.sendError _ _, ox_sendError ox _ _⟩
      · rename_i s1 e
        obtain ⟨F1, ox, _⟩ := key e
        exact ⟨F1.sendError _ _, ox_sendError ox _ _⟩
      · rename_i s1 e
        obtain ⟨F1, ox, k5⟩ := key e
        exact ⟨F1.internalErr _ _, ox_internalErr ox (k5 rfl) _ _⟩

theorem handleRelease_full (h : s.Full U t S) (hx : x ∈ s.conns) (app side t' n) :
    (s.handleRelease x app side t' n).Full U t S ∧ OutExt (IntOnly False) s (s.handleRelease x app side t' n) := by
  unfold Sys.handleRelease
  have go : ∀ name : String,
      (match (s.updConn x.id (fun y => { y with didRelease := true })).releaseNameplate app name side t' with
       | (s1, true) => s1.send x.id .released
       | (s1, false) => s1.internalErr x.id "IndexError").Full U t S ∧
      OutExt (IntOnly False) s
      (match (s.updConn x.id (fun y => { y with didRelease := true })).releaseNameplate app name side t' with
       | (s1, true) => s1.send x.id .released
       | (s1, false) => s1.internalErr x.id "IndexError") := by
    intro name
    have F0 : (s.updConn x.id (fun y => { y with didRelease := true })).Full U t S :=
      h.updConn_flags hx _ ⟨rfl, rfl, rfl, rfl, rfl, rfl⟩
    split
    all_goals
      rename_i s1 e
      obtain ⟨k1, k2, k3, _⟩ := releaseNameplate_good F0.good e
    · have ox : OutExt (IntOnly False) s s1 := by
        have := (CExt.releaseNameplate (OutExt.updConn (OutExt.refl (s := s)) (c := x.id)
          (f := fun y => { y with didRelease := true })) (app := app) (name := name) (side := side)
          (t := t')).intOnly (A := False)
        rw [e] at this; exact this
      exact ⟨(F0.of_core k1 k3).send _ _, ox_send ox _ _⟩
    · cases k2
  split
  · exact ⟨h.sendError _ _, ox_sendError OutExt.refl _ _⟩
  · dsimp only
    split
    · split
      · exact ⟨h.sendError _ _, ox_sendError OutExt.refl _ _⟩
      · exact go _
    · exact go _
    · exact go _
    · exact ⟨h.sendError _ _, ox_sendError OutExt.refl _ _⟩

theorem replay_full {s1 : Sys} (h : s1.Full U t S) (c app mb) : (s1.replay c app mb).Full U t S := by
  unfold Sys.replay
  exact Full.foldl_send (fun _ => c) (fun (m : Message) => .message m.side m.phase m.body m.rx m.msgId) _ h

theorem ox_replay {s1 : Sys} (h : OutExt (IntOnly A) s s1) (c app mb) : OutExt (IntOnly A) s (s1.replay c app mb) := by
  unfold Sys.replay
  exact OutExt.foldl_send (fun _ => c) (fun (m : Message) => .message m.side m.phase m.body m.rx m.msgId) _ h
    (fun _ _ b => intOnly_frame _ _ b)

theorem broadcast_full {s1 : Sys} (h : s1.Full U t S) (app mb f) : (s1.broadcast app mb f).Full U t S := by
  unfold Sys.broadcast
  exact Full.foldl_send (fun c => c) (fun _ => f) _ h

theorem ox_broadcast {s1 : Sys} (h : OutExt (IntOnly A) s s1) (app mb f) :
    OutExt (IntOnly A) s (s1.broadcast app mb f) := by
  unfold Sys.broadcast
  exact OutExt.foldl_send (fun c => c) (fun _ => f) _ h (fun _ _ b => intOnly_frame _ _ b)

theorem handleOpen_full (h : s.Full U t S) (hx : x ∈ s.conns) {app : String} (happ : x.app = some app)
    (side : String) (mailbox : Option String) (hu : ∀ mb, mailbox = some mb → U mb) :
    (s.handleOpen x app side t mailbox).Full U t S ∧
    OutExt (IntOnly (∃ mb, mailbox = some mb ∧ s.db.ForeignMb app mb)) s (s.handleOpen x app side t mailbox) := by
  unfold Sys.handleOpen
  split
  · exact ⟨h.sendError _ _, ox_sendError OutExt.refl _ _⟩
  · rename_i hnone
    split
    · exact ⟨h.sendError _ _, ox_sendError OutExt.refl _ _⟩
    · rename_i mb
      dsimp only
      obtain ⟨ok, uc⟩ := h.conn x hx
      have w0 : (s.updConn x.id (fun y => { y with mailboxId := some mb })).WInv U t S x.id
          { x with mailboxId := some mb } :=
        (h.winv hx).updConn (fun y => { y with mailboxId := some mb }) rfl (h.good.lh x hx)
      have ok0 : ({ x with mailboxId := some mb } : Conn).Ok := ⟨ok.hl, ok.lm, ok.bound⟩
      have uc0 : ({ x with mailboxId := some mb } : Conn).UC U := by
        intro m hm
        simp only [Option.some.injEq] at hm
        subst hm
        exact hu _ rfl
      split
      all_goals
        rename_i s1 e
        obtain ⟨k1, k2, _, _, k5, k6⟩ := openMailbox_good w0.good (hu mb rfl) e
        have w1 := w0.of_core k1 k2
        have ox : OutExt (IntOnly (∃ mb', some mb = some mb' ∧ s.db.ForeignMb app mb')) s s1 := by
          have := (CExt.openMailbox (OutExt.updConn (OutExt.refl (s := s)) (c := x.id)
            (f := fun y => { y with mailboxId := some mb })) (app := app) (mb := mb) (side := side)
            (t := t)).intOnly (A := (∃ mb', some mb = some mb' ∧ s.db.ForeignMb app mb'))
          rw [e] at this; exact this
      · exact ⟨(w1.full ok0 uc0).sendError _ _, ox_sendError ox _ _⟩
      · exact ⟨(w1.full ok0 uc0).internalErr _ _, ox_internalErr ox ⟨mb, rfl, k6 rfl⟩ _ _⟩
      · have w2 := w1.updConn (fun y => { y with mailbox := some mb, listening := true }) rfl (by
          intro _ m hm
          simp only [Option.some.injEq] at hm
          subst hm
          exact ⟨app, happ, k5 (by simp)⟩)
        have F2 := w2.full ⟨by simp, by simp, ok.bound⟩ uc0
        exact ⟨replay_full F2 _ _ _, ox_replay (OutExt.updConn ox) _ _ _⟩

theorem handleAdd_full (h : s.Full U t S) (hx : x ∈ s.conns) {app : String} (happ : x.app = some app)
    (side : String) (id : Val) (ph bd : Option Val) :
    (s.handleAdd x app side t id ph bd).Full U t S ∧ OutExt (IntOnly False) s (s.handleAdd x app side t id ph bd) := by
  unfold Sys.handleAdd
  split
  · exact ⟨h.sendError _ _, ox_sendError OutExt.refl _ _⟩
  · rename_i mb hmb
    split
    · exact ⟨h.sendError _ _, ox_sendError OutExt.refl _ _⟩
    · split
      · exact ⟨h.sendError _ _, ox_sendError OutExt.refl _ _⟩
      · rename_i ph' _ bd'
        obtain ⟨ok, _⟩ := h.conn x hx
        have hl := ok.hl (by simp [hmb])
        obtain ⟨a, ha, hb⟩ := h.good.lh x hx hl mb hmb
        rw [happ] at ha
        cases ha
        have F1 := h.of_core (addMessage_good h.good side ph' bd' id hb) (by simp)
        exact ⟨broadcast_full F1 _ _ _, ox_broadcast (CExt.addMessage OutExt.refl).intOnly _ _ _⟩

theorem handleClose_full (h : s.Full U t S) (hx : x ∈ s.conns) (app : String)
    (side : String) (mailbox : Option String) (mood : Option String) (hu : ∀ mb, mailbox = some mb → U mb) :
    (s.handleClose x app side t mailbox mood).Full U t S ∧
    OutExt (IntOnly (∃ mb, (mailbox = some mb ∨ (mailbox = none ∧ x.mailboxId = some mb)) ∧ s.db.ForeignMb app mb)) s
      (s.handleClose x app side t mailbox mood) := by
  unfold Sys.handleClose
  obtain ⟨ok, uc⟩ := h.conn x hx
  have tail : ∀ (A : Prop) (s1 : Sys) (r : OpenRes) (hd : String) (z : Conn), s1.WInv U t S x.id z →
      (r ≠ .ok → z.Ok) → (z.app.isSome ↔ z.side.isSome) → z.UC U → OutExt (IntOnly A) s s1 → (r = .integrity → A) →
      (match ((s1, r, hd) : Sys × OpenRes × String) with
       | (s1, .crowded, _) => s1.sendError x.id "crowded"
       | (s1, .integrity, _) => s1.internalErr x.id "IntegrityError"
       | (s1, .ok, h) =>
         let s2 := s1.updConn x.id (fun y => { y with listening := false, didClose := true })
         match s2.mailboxClose app h side mood t with
         | (s3, false) => s3.internalErr x.id "IndexError"
         | (s3, true) => (s3.updConn x.id (fun y => { y with mailbox := none })).send x.id .closed).Full U t S ∧
      OutExt (IntOnly A) s
      (match ((s1, r, hd) : Sys × OpenRes × String) with
       | (s1, .crowded, _) => s1.sendError x.id "crowded"
       | (s1, .integrity, _) => s1.internalErr x.id "IntegrityError"
       | (s1, .ok, h) =>
         let s2 := s1.updConn x.id (fun y => { y with listening := false, didClose := true })
         match s2.mailboxClose app h side mood t with
         | (s3, false) => s3.internalErr x.id "IndexError"
         | (s3, true) => (s3.updConn x.id (fun y => { y with mailbox := none })).send x.id .closed) := by
    intro A s1 r hd z w1 hzok hzb hzu ox hint
    cases r
    · dsimp only
      have w2 := w1.updConn (fun y => { y with listening := false, didClose := true }) rfl
        (by intro hl; simp at hl)
      split
      all_goals
        rename_i s3 e
        obtain ⟨k1, k2, _, k4⟩ := mailboxClose_good w2.good e
      · cases k2
      · have w3 := w2.of_close rfl k1 k4
        have w4 := w3.updConn (fun y => { y with mailbox := none }) rfl (by intro hl; simp at hl)
        have ox3 : OutExt (IntOnly A) s s3 := by
          have := (CExt.mailboxClose (OutExt.updConn (OutExt.refl (s := s1)) (c := x.id)
            (f := fun y => { y with listening := false, didClose := true })) (app := app) (mb := hd) (side := side)
            (mood := mood) (t := t)).intOnly (A := A)
          rw [e] at this; exact ox.trans this
        exact ⟨(w4.full ⟨by simp, by simp, hzb⟩ hzu).send _ _, ox_send (OutExt.updConn ox3) _ _⟩
    · exact ⟨(w1.full (hzok (by simp)) hzu).sendError _ _, ox_sendError ox _ _⟩
    · exact ⟨(w1.full (hzok (by simp)) hzu).internalErr _ _, ox_internalErr ox (hint rfl) _ _⟩
  have go : ∀ (A : Prop) (mb : String), U mb → (s.db.ForeignMb app mb → A) →
      (match (match x.mailbox with
          | some h => (s, OpenRes.ok, h)
          | none =>
            match s.openMailbox app mb side t with
            | (s1, r) => (s1.updConn x.id (fun y => if r = OpenRes.ok then { y with mailbox := some mb } else y), r, mb)
          : Sys × OpenRes × String) with
       | (s1, .crowded, _) => s1.sendError x.id "crowded"
       | (s1, .integrity, _) => s1.internalErr x.id "IntegrityError"
       | (s1, .ok, h) =>
         let s2 := s1.updConn x.id (fun y => { y with listening := false, didClose := true })
         match s2.mailboxClose app h side mood t with
         | (s3, false) => s3.internalErr x.id "IndexError"
         | (s3, true) => (s3.updConn x.id (fun y => { y with mailbox := none })).send x.id .closed).Full U t S ∧
      OutExt (IntOnly A) s
      (match (match x.mailbox with
          | some h => (s, OpenRes.ok, h)
          | none =>
            match s.openMailbox app mb side t with
            | (s1, r) => (s1.updConn x.id (fun y => if r = OpenRes.ok then { y with mailbox := some mb } else y), r, mb)
          : Sys × OpenRes × String) with
       | (s1, .crowded, _) => s1.sendError x.id "crowded"
       | (s1, .integrity, _) => s1.internalErr x.id "IntegrityError"
       | (s1, .ok, h) =>
         let s2 := s1.updConn x.id (fun y => { y with listening := false, didClose := true })
         match s2.mailboxClose app h side mood t with
         | (s3, false) => s3.internalErr x.id "IndexError"
         | (s3, true) => (s3.updConn x.id (fun y => { y with mailbox := none })).send x.id .closed) := by
    intro A mb humb hA
    cases hxm : x.mailbox with
    | some hd =>
      exact tail A s .ok hd x (h.winv hx) (fun _ => ok) ok.bound uc OutExt.refl (fun e => nomatch e)
    | none =>
      dsimp only
      cases e : s.openMailbox app mb side t with
      | mk s1 r =>
        obtain ⟨k1, k2, _, _, _, k6⟩ := openMailbox_good h.good humb e
        have w1 := (h.winv hx).of_core k1 k2
        have ox : OutExt (IntOnly A) s s1 := by
          have := (CExt.openMailbox (OutExt.refl (s := s)) (app := app) (mb := mb) (side := side) (t := t)).intOnly
            (A := A)
          rw [e] at this; exact this
        have w2 := w1.updConn (fun y => if r = OpenRes.ok then { y with mailbox := some mb } else y)
          (by split <;> rfl)
          (by
            intro hl m _
            have hl' : x.listening = true := by
              split at hl <;> exact hl
            have := ok.lm hl'
            rw [hxm] at this; cases this)
        refine tail A _ r mb _ w2 ?_ ?_ ?_ (OutExt.updConn ox) (fun er => hA (k6 er))
        · intro hr; rw [if_neg hr]; exact ok
        · split <;> exact ok.bound
        · intro m hm
          apply uc m
          split at hm <;> exact hm
  split
  · exact ⟨h.sendError _ _, ox_sendError OutExt.refl _ _⟩
  · dsimp only
    split
    · rename_i m held hheld
      split
      · exact ⟨h.sendError _ _, ox_sendError OutExt.refl _ _⟩
      · exact go _ m (hu m rfl) (fun hf => ⟨m, Or.inl rfl, hf⟩)
    · rename_i m _
      exact go _ m (hu m rfl) (fun hf => ⟨m, Or.inl rfl, hf⟩)
    · rename_i held hheld
      exact go _ held (uc held hheld) (fun hf => ⟨held, Or.inr ⟨rfl, hheld⟩, hf⟩)
    · exact ⟨h.sendError _ _, ox_sendError OutExt.refl _ _⟩

theorem IntOnly.imp {A B : Prop} (f : A → B) (e : Event) (h : IntOnly A e) : IntOnly B e :=
  fun cc cls he => f (h cc cls he)

end handlers

/-! ### onMessage and the other operations -/

/-- the only causes of an `internal` event while a message is processed:
    `ValueError` of an exhausted allocation (K-alloc-exhaust), a "fresh" mailbox id that already
    exists (excluded by well-formedness), a mailbox id that exists under another app
    (K-global-mailbox-id) -/
def IntCause (s : Sys) (c : Nat) : Cmd → Prop
  | .allocate pick draws fresh => ∃ x app, s.findConn c = some x ∧ x.app = some app ∧
      (findAvailable (s.db.namesOfApp app) pick draws = none ∨ ∃ m ∈ s.db.mailboxes, m.id = fresh)
  | .claim _ fresh => ∃ x app, s.findConn c = some x ∧ x.app = some app ∧ s.db.ForeignMb app fresh
  | .open_ m => ∃ x app mb, s.findConn c = some x ∧ x.app = some app ∧ m = some mb ∧ s.db.ForeignMb app mb
  | .close m _ => ∃ x app mb, s.findConn c = some x ∧ x.app = some app ∧
      (m = some mb ∨ (m = none ∧ x.mailboxId = some mb)) ∧ s.db.ForeignMb app mb
  | _ => False

section ops
variable {U : String → Prop} {t : Time} {S : Prop} {s : Sys}

theorem onMessage_full (h : s.Full U t S) (c : Nat) (id : Val) (cmd : Cmd) (hu : ∀ m ∈ cmd.mailboxIds, U m) :
    (s.onMessage c t id cmd).Full U t S ∧ OutExt (IntOnly (s.IntCause c cmd)) s (s.onMessage c t id cmd) := by
  unfold Sys.onMessage
  split
  · exact ⟨h, OutExt.refl⟩
  · rename_i x hfx
    have hx : x ∈ s.conns := findConn_mem' hfx
    have ha := h.send c (.ack id)
    have hxa : x ∈ (s.send c (.ack id)).conns := hx
    have oxa : ∀ {A : Prop}, OutExt (IntOnly A) s (s.send c (.ack id)) := ox_send OutExt.refl _ _
    have fin : ∀ {A : Prop} {s' : Sys}, (A → s.IntCause c cmd) →
        s'.Full U t S ∧ OutExt (IntOnly A) (s.send c (.ack id)) s' →
        s'.Full U t S ∧ OutExt (IntOnly (s.IntCause c cmd)) s s' :=
      fun f hh => ⟨hh.1, oxa.trans (hh.2.mono (IntOnly.imp f))⟩
    cases cmd with
    | noType => exact ⟨h.sendError _ _, ox_sendError OutExt.refl _ _⟩
    | ping v => exact fin False.elim (handlePing_full ha _ _)
    | bind a sd i v => exact fin False.elim (handleBind_full ha hxa _ _ _ _ _)
    | unknown =>
      dsimp only
      split
      · exact ⟨ha.sendError _ _, ox_sendError oxa _ _⟩
      · exact ⟨ha.sendError _ _, ox_sendError oxa _ _⟩
    | list =>
      dsimp only
      split
      · exact ⟨ha.sendError _ _, ox_sendError oxa _ _⟩
      · exact fin False.elim (handleList_full ha _)
    | allocate pick draws fresh =>
      dsimp only
      split
      · exact ⟨ha.sendError _ _, ox_sendError oxa _ _⟩
      · rename_i app happ
        exact fin (fun a => ⟨x, app, hfx, happ, a⟩)
          (handleAllocate_full ha hxa _ _ _ _ (hu fresh (by simp [Cmd.mailboxIds])))
    | claim n fresh =>
      dsimp only
      split
      · exact ⟨ha.sendError _ _, ox_sendError oxa _ _⟩
      · rename_i app happ
        exact fin (fun a => ⟨x, app, hfx, happ, a⟩)
          (handleClaim_full ha hxa _ _ _ (hu fresh (by simp [Cmd.mailboxIds])))
    | release n =>
      dsimp only
      split
      · exact ⟨ha.sendError _ _, ox_sendError oxa _ _⟩
      · exact fin False.elim (handleRelease_full ha hxa _ _ _ _)
    | open_ m =>
      dsimp only
      split
      · exact ⟨ha.sendError _ _, ox_sendError oxa _ _⟩
      · rename_i app happ
        refine fin (fun a => ?_) (handleOpen_full ha hxa happ _ m (fun mb e => hu mb (by simp [Cmd.mailboxIds, e])))
        obtain ⟨mb, e, hf⟩ := a
        exact ⟨x, app, mb, hfx, happ, e, hf⟩
    | add ph bd =>
      dsimp only
      split
      · exact ⟨ha.sendError _ _, ox_sendError oxa _ _⟩
      · rename_i app happ
        exact fin False.elim (handleAdd_full ha hxa happ _ _ _ _)
    | close m mood =>
      dsimp only
      split
      · exact ⟨ha.sendError _ _, ox_sendError oxa _ _⟩
      · rename_i app happ
        refine fin (fun a => ?_) (handleClose_full ha hxa app _ m mood
          (fun mb e => hu mb (by simp [Cmd.mailboxIds, e])))
        obtain ⟨mb, e, hf⟩ := a
        exact ⟨x, app, mb, hfx, happ, e, hf⟩

theorem connect_full (h : s.Full U t S) (c : Nat) (hfresh : ∀ x ∈ s.conns, x.id ≠ c) : (s.connect c).Full U t S := by
  unfold Sys.connect
  apply Full.send
  refine ⟨⟨⟨h.good.db, h.good.d.of_eq rfl rfl, ?_⟩, h.good.sx⟩, ?_, ?_⟩
  · intro y hy hl m hm
    simp only [List.mem_append, List.mem_singleton] at hy
    rcases hy with hy | rfl
    · exact h.good.lh y hy hl m hm
    · cases hl
  · simp only [List.pairwise_append, List.pairwise_cons, List.mem_singleton]
    refine ⟨h.ids, by simp, ?_⟩
    intro a ha b hb; subst hb
    exact hfresh a ha
  · intro y hy
    simp only [List.mem_append, List.mem_singleton] at hy
    rcases hy with hy | rfl
    · exact h.conn y hy
    · exact ⟨⟨by simp, by simp, by simp⟩, fun m hm => by cases hm⟩

theorem dropConn_full (h : s.Full U t S) (c : Nat) : (s.dropConn c).Full U t S := by
  refine ⟨⟨⟨h.good.db, h.good.d.of_eq rfl rfl, ?_⟩, h.good.sx⟩, h.ids.filter _, ?_⟩
  · intro y hy
    simp only [Sys.dropConn, List.mem_filter] at hy
    exact h.good.lh y hy.1
  · intro y hy
    simp only [Sys.dropConn, List.mem_filter] at hy
    exact h.conn y hy.1

theorem restart_full (h : s.Full U t S) (hsync : s.db = s.disk) (t' : Time) : (s.restart t').Full U t S := by
  refine ⟨⟨⟨h.good.d.disk, h.good.d.of_eq rfl rfl, ?_⟩, ?_⟩, List.Pairwise.nil, ?_⟩
  · intro y hy; simp [Sys.restart] at hy
  · intro hS
    show s.disk.SExtra
    rw [← hsync]; exact h.good.sx hS
  · intro y hy; simp [Sys.restart] at hy

/-- the causes of an `internal` event in one (plain) operation -/
def OpIntCause (s : Sys) : Op → Prop
  | .recv c _ _ cmd => s.IntCause c cmd
  | .sweep _ fault => fault = true
  | _ => False

/-- every plain operation, run at its own time `t`, keeps the invariant (in particular every
    snapshot it commits satisfies `CInv`), and emits `internal` only for the stated causes -/
theorem stepPlain_full (h : s.Full U t S) (hsync : s.db = s.disk) (op : Op)
    (hconn : ∀ c, op = .connect c → ∀ x ∈ s.conns, x.id ≠ c)
    (hu : ∀ m ∈ op.mailboxIds, U m) (ht : ∀ t', op.time? = some t' → t' = t) :
    (s.stepPlain op).Full U t S ∧ OutExt (IntOnly (s.OpIntCause op)) s (s.stepPlain op) := by
  cases op with
  | connect c => exact ⟨connect_full h c (hconn c rfl), ox_send (OutExt.of_out_eq rfl) _ _⟩
  | recv c t' id cmd =>
    have := ht t' rfl
    subst this
    exact onMessage_full h c id cmd hu
  | drop c => exact ⟨dropConn_full h c, OutExt.of_out_eq rfl⟩
  | sweep now fault =>
    have := ht now rfl
    subst this
    obtain ⟨k1, k2, _⟩ := expire_good h.good (Int.le_refl _) fault
    refine ⟨h.of_core k1 k2, ?_⟩
    unfold Sys.stepPlain Sys.expire
    dsimp only
    refine OutExt.trans ?_ (CExt.dumpStats OutExt.refl).intOnly
    have h0 : OutExt (IntOnly (s.OpIntCause (.sweep now fault))) s
        (s.emit (.fired now (now - Generated.expirationTicks))) :=
      OutExt.refl.emit (fun _ _ he => by cases he)
    split
    · rename_i hf
      exact h0.emit (intOnly_internal hf _ _)
    · have h1 := (CExt.pruneApps (now := now) (old := now - Generated.expirationTicks)
        ((s.emit (.fired now (now - Generated.expirationTicks))).allApps)
        (OutExt.refl (s := s.emit (.fired now (now - Generated.expirationTicks))))).intOnly
        (A := s.OpIntCause (.sweep now fault))
      split
      · rename_i s1 e
        rw [e] at h1
        exact h0.trans h1
      · rename_i s1 e
        have hold : now - Generated.expirationTicks < now := Int.sub_lt_self now expirationTicks_pos
        have := (pruneApps_good (Int.le_refl _) hold _ (h.good.emit _) e).2.1
        simp at this
  | restart t' => exact ⟨restart_full h hsync t', OutExt.of_out_eq rfl⟩
  | crashIn k op => exact ⟨h, OutExt.refl⟩

end ops

end Sys
end Wormhole
