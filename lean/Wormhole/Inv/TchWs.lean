/-
  Two-run simulation for K-close-touch, part 3: the handlers of Ws.lean, one operation, a history.
-/
import Wormhole.Inv.TchCore

namespace Wormhole
namespace Sys

variable {u t : Time} {m ap : String} {b a : Sys}

theorem TchRel.foldl_send {α : Type} (g : α → Nat) (fr : α → Frame) (l : List α) :
    ∀ {b a : Sys}, TchRel u t m ap b a →
      TchRel u t m ap (l.foldl (fun s x => s.send (g x) (fr x)) b) (l.foldl (fun s x => s.send (g x) (fr x)) a) := by
  induction l with
  | nil => intro b a h; exact h
  | cons x l ih => intro b a h; exact ih (h.send _ _)

theorem TchRel.handlePing (h : TchRel u t m ap b a) (c : Nat) (v : Option Val) :
    TchRel u t m ap (b.handlePing c v) (a.handlePing c v) := by
  unfold Sys.handlePing
  cases v with
  | none => exact h.sendError _ _
  | some v => exact h.send _ _

theorem TchRel.handleBind (h : TchRel u t m ap b a) (x : Conn) (t' : Time) (app side impl version : Option String) :
    TchRel u t m ap (b.handleBind x t' app side impl version) (a.handleBind x t' app side impl version) := by
  unfold Sys.handleBind
  split
  · exact h.sendError _ _
  · cases app with
    | none => exact h.sendError _ _
    | some ap' =>
      cases side with
      | none => exact h.sendError _ _
      | some sd => exact (h.updConn _ _).logClientVersion _ _ _ _ _

theorem TchRel.handleList (h : TchRel u t m ap b a) (x : Conn) (app : String) :
    TchRel u t m ap (b.handleList x app) (a.handleList x app) := by
  unfold Sys.handleList
  rw [h.cfg, h.db.namesOfApp]
  exact h.send _ _

theorem TchRel.handleAllocate (h : TchRel u t m ap b a) (x : Conn) (app side : String) (t' : Time) (pick : Nat)
    (draws : List Nat) (fresh : String) :
    TchRel u t m ap (b.handleAllocate x app side t' pick draws fresh) (a.handleAllocate x app side t' pick draws fresh) := by
  unfold Sys.handleAllocate
  split
  · exact h.sendError _ _
  · rw [h.db.namesOfApp]
    cases findAvailable (b.db.namesOfApp app) pick draws with
    | none => exact h.internalErr _ _
    | some name =>
      dsimp only
      obtain ⟨h1, e1⟩ := h.claimNameplate app name side t' fresh
      cases hb : b.claimNameplate app name side t' fresh with
      | mk b1 rb =>
        cases ha : a.claimNameplate app name side t' fresh with
        | mk a1 ra =>
          rw [hb, ha] at h1 e1
          dsimp only at h1 e1
          subst e1
          cases ra with
          | ok mb => exact (h1.updConn _ _).send _ _
          | crowded => exact h1.internalErr _ _
          | reclaimed => exact h1.internalErr _ _
          | integrity => exact h1.internalErr _ _

theorem TchRel.handleClaim (h : TchRel u t m ap b a) (x : Conn) (app side : String) (t' : Time)
    (nameplate : Option String) (fresh : String) :
    TchRel u t m ap (b.handleClaim x app side t' nameplate fresh) (a.handleClaim x app side t' nameplate fresh) := by
  unfold Sys.handleClaim
  cases nameplate with
  | none => exact h.sendError _ _
  | some name =>
    dsimp only
    split
    · exact h.sendError _ _
    · obtain ⟨h1, e1⟩ := (h.updConn x.id (fun y => { y with didClaim := true, nameplateId := some name })).claimNameplate
        app name side t' fresh
      cases hb : (b.updConn x.id (fun y => { y with didClaim := true, nameplateId := some name })).claimNameplate
          app name side t' fresh with
      | mk b1 rb =>
        cases ha : (a.updConn x.id (fun y => { y with didClaim := true, nameplateId := some name })).claimNameplate
            app name side t' fresh with
        | mk a1 ra =>
          rw [hb, ha] at h1 e1
          dsimp only at h1 e1
          subst e1
          cases ra with
          | ok mb => exact h1.send _ _
          | crowded => exact h1.sendError _ _
          | reclaimed => exact h1.sendError _ _
          | integrity => exact h1.internalErr _ _

theorem TchRel.handleRelease (h : TchRel u t m ap b a) (x : Conn) (app side : String) (t' : Time)
    (nameplate : Option String) :
    TchRel u t m ap (b.handleRelease x app side t' nameplate) (a.handleRelease x app side t' nameplate) := by
  have go : ∀ name : String,
      TchRel u t m ap
        (match (b.updConn x.id (fun y => { y with didRelease := true })).releaseNameplate app name side t' with
          | (s1, true) => s1.send x.id .released
          | (s1, false) => s1.internalErr x.id "IndexError")
        (match (a.updConn x.id (fun y => { y with didRelease := true })).releaseNameplate app name side t' with
          | (s1, true) => s1.send x.id .released
          | (s1, false) => s1.internalErr x.id "IndexError") := by
    intro name
    obtain ⟨h1, e1⟩ := (h.updConn x.id (fun y => { y with didRelease := true })).releaseNameplate app name side t'
    cases hb : (b.updConn x.id (fun y => { y with didRelease := true })).releaseNameplate app name side t' with
    | mk b1 rb =>
      cases ha : (a.updConn x.id (fun y => { y with didRelease := true })).releaseNameplate app name side t' with
      | mk a1 ra =>
        rw [hb, ha] at h1 e1
        dsimp only at h1 e1
        subst e1
        cases ra with
        | true => exact h1.send _ _
        | false => exact h1.internalErr _ _
  unfold Sys.handleRelease
  split
  · exact h.sendError _ _
  · dsimp only
    split
    · split
      · exact h.sendError _ _
      · exact go _
    · exact go _
    · exact go _
    · exact h.sendError _ _

theorem TchRel.replay (h : TchRel u t m ap b a) (c : Nat) (app mb : String) :
    TchRel u t m ap (b.replay c app mb) (a.replay c app mb) := by
  unfold Sys.replay
  rw [h.db.messagesOf]
  exact TchRel.foldl_send (fun _ => c) (fun x : Message => .message x.side x.phase x.body x.rx x.msgId) _ h

theorem TchRel.handleOpen (h : TchRel u t m ap b a) (x : Conn) (app side : String) (t' : Time)
    (mailbox : Option String) :
    TchRel u t m ap (b.handleOpen x app side t' mailbox) (a.handleOpen x app side t' mailbox) := by
  unfold Sys.handleOpen
  split
  · exact h.sendError _ _
  · cases mailbox with
    | none => exact h.sendError _ _
    | some mb =>
      dsimp only
      obtain ⟨h1, e1⟩ := (h.updConn x.id (fun y => { y with mailboxId := some mb })).openMailbox app mb side t'
      cases hb : (b.updConn x.id (fun y => { y with mailboxId := some mb })).openMailbox app mb side t' with
      | mk b1 rb =>
        cases ha : (a.updConn x.id (fun y => { y with mailboxId := some mb })).openMailbox app mb side t' with
        | mk a1 ra =>
          rw [hb, ha] at h1 e1
          dsimp only at h1 e1
          subst e1
          cases ra with
          | crowded => exact h1.sendError _ _
          | integrity => exact h1.internalErr _ _
          | ok => exact (h1.updConn _ _).replay _ _ _

theorem TchRel.broadcast (h : TchRel u t m ap b a) (app mb : String) (f : Frame) :
    TchRel u t m ap (b.broadcast app mb f) (a.broadcast app mb f) := by
  unfold Sys.broadcast
  rw [h.listeners]
  exact TchRel.foldl_send (fun c => c) (fun _ => f) _ h

theorem TchRel.handleAdd (h : TchRel u t m ap b a) (x : Conn) (app side : String) (t' : Time) (id : Val)
    (phase body : Option Val) :
    TchRel u t m ap (b.handleAdd x app side t' id phase body) (a.handleAdd x app side t' id phase body) := by
  unfold Sys.handleAdd
  cases x.mailbox with
  | none => exact h.sendError _ _
  | some mb =>
    dsimp only
    cases phase with
    | none => exact h.sendError _ _
    | some ph =>
      cases body with
      | none => exact h.sendError _ _
      | some bd => exact (h.addMessage app mb side ph bd t' id).broadcast _ _ _

theorem TchRel.handleClose (h : TchRel u t m ap b a) (x : Conn) (app side : String) (t' : Time)
    (mailbox mood : Option String) :
    TchRel u t m ap (b.handleClose x app side t' mailbox mood) (a.handleClose x app side t' mailbox mood) := by
  -- the part after the (possibly implicit) open, for related states and the same handle
  have tail : ∀ {b1 a1 : Sys}, TchRel u t m ap b1 a1 → ∀ hd : String,
      TchRel u t m ap
        (match (b1.updConn x.id (fun y => { y with listening := false, didClose := true })).mailboxClose app hd side mood t' with
          | (s3, false) => s3.internalErr x.id "IndexError"
          | (s3, true) => (s3.updConn x.id (fun y => { y with mailbox := none })).send x.id .closed)
        (match (a1.updConn x.id (fun y => { y with listening := false, didClose := true })).mailboxClose app hd side mood t' with
          | (s3, false) => s3.internalErr x.id "IndexError"
          | (s3, true) => (s3.updConn x.id (fun y => { y with mailbox := none })).send x.id .closed) := by
    intro b1 a1 h1 hd
    obtain ⟨h2, e2⟩ := (h1.updConn x.id (fun y => { y with listening := false, didClose := true })).mailboxClose
      app hd side mood t'
    cases hb : (b1.updConn x.id (fun y => { y with listening := false, didClose := true })).mailboxClose app hd side mood t' with
    | mk b3 rb =>
      cases ha : (a1.updConn x.id (fun y => { y with listening := false, didClose := true })).mailboxClose app hd side mood t' with
      | mk a3 ra =>
        rw [hb, ha] at h2 e2
        dsimp only at h2 e2
        subst e2
        cases ra with
        | false => exact h2.internalErr _ _
        | true => exact (h2.updConn _ _).send _ _
  have go : ∀ mb : String,
      TchRel u t m ap
        (match (match x.mailbox with
            | some hd => (b, OpenRes.ok, hd)
            | none =>
              match b.openMailbox app mb side t' with
              | (s1, r) => (s1.updConn x.id (fun y => if r = .ok then { y with mailbox := some mb } else y), r, mb) :
            Sys × OpenRes × String) with
          | (s1, .crowded, _) => s1.sendError x.id "crowded"
          | (s1, .integrity, _) => s1.internalErr x.id "IntegrityError"
          | (s1, .ok, hd) =>
            match (s1.updConn x.id (fun y => { y with listening := false, didClose := true })).mailboxClose app hd side mood t' with
            | (s3, false) => s3.internalErr x.id "IndexError"
            | (s3, true) => (s3.updConn x.id (fun y => { y with mailbox := none })).send x.id .closed)
        (match (match x.mailbox with
            | some hd => (a, OpenRes.ok, hd)
            | none =>
              match a.openMailbox app mb side t' with
              | (s1, r) => (s1.updConn x.id (fun y => if r = .ok then { y with mailbox := some mb } else y), r, mb) :
            Sys × OpenRes × String) with
          | (s1, .crowded, _) => s1.sendError x.id "crowded"
          | (s1, .integrity, _) => s1.internalErr x.id "IntegrityError"
          | (s1, .ok, hd) =>
            match (s1.updConn x.id (fun y => { y with listening := false, didClose := true })).mailboxClose app hd side mood t' with
            | (s3, false) => s3.internalErr x.id "IndexError"
            | (s3, true) => (s3.updConn x.id (fun y => { y with mailbox := none })).send x.id .closed) := by
    intro mb
    cases x.mailbox with
    | some hd => exact tail h hd
    | none =>
      dsimp only
      obtain ⟨h1, e1⟩ := h.openMailbox app mb side t'
      cases hb : b.openMailbox app mb side t' with
      | mk b1 rb =>
        cases ha : a.openMailbox app mb side t' with
        | mk a1 ra =>
          rw [hb, ha] at h1 e1
          dsimp only at h1 e1
          subst e1
          cases ra with
          | crowded => exact (h1.updConn _ _).sendError _ _
          | integrity => exact (h1.updConn _ _).internalErr _ _
          | ok => exact tail (h1.updConn _ _) mb
  unfold Sys.handleClose
  split
  · exact h.sendError _ _
  · dsimp only
    split
    · split
      · exact h.sendError _ _
      · exact go _
    · exact go _
    · exact go _
    · exact h.sendError _ _

/-- `onMessage` -/
theorem TchRel.onMessage (h : TchRel u t m ap b a) (c : Nat) (t' : Time) (id : Val) (cmd : Cmd) :
    TchRel u t m ap (b.onMessage c t' id cmd) (a.onMessage c t' id cmd) := by
  unfold Sys.onMessage
  rw [h.findConn]
  cases b.findConn c with
  | none => exact h
  | some x =>
    dsimp only
    have h1 := h.send c (.ack id)
    cases cmd with
    | noType => exact h.sendError _ _
    | unknown =>
      dsimp only
      cases x.app with
      | none => exact h1.sendError _ _
      | some app => exact h1.sendError _ _
    | ping v => exact h1.handlePing _ _
    | bind ap' sd i v => exact h1.handleBind _ _ _ _ _ _
    | list =>
      dsimp only
      cases x.app with
      | none => exact h1.sendError _ _
      | some app => exact h1.handleList _ _
    | allocate pick draws fresh =>
      dsimp only
      cases x.app with
      | none => exact h1.sendError _ _
      | some app => exact h1.handleAllocate _ _ _ _ _ _ _
    | claim n fresh =>
      dsimp only
      cases x.app with
      | none => exact h1.sendError _ _
      | some app => exact h1.handleClaim _ _ _ _ _ _
    | release n =>
      dsimp only
      cases x.app with
      | none => exact h1.sendError _ _
      | some app => exact h1.handleRelease _ _ _ _ _
    | open_ mb =>
      dsimp only
      cases x.app with
      | none => exact h1.sendError _ _
      | some app => exact h1.handleOpen _ _ _ _ _
    | add ph bd =>
      dsimp only
      cases x.app with
      | none => exact h1.sendError _ _
      | some app => exact h1.handleAdd _ _ _ _ _ _ _
    | close mb mood =>
      dsimp only
      cases x.app with
      | none => exact h1.sendError _ _
      | some app => exact h1.handleClose _ _ _ _ _ _

theorem TchRel.connect (h : TchRel u t m ap b a) (c : Nat) : TchRel u t m ap (b.connect c) (a.connect c) := by
  have e : a.cfg.welcome = b.cfg.welcome := by rw [h.cfg]
  unfold Sys.connect
  rw [e, h.conns]
  exact (h.setConns _).send _ _

theorem TchRel.dropConn (h : TchRel u t m ap b a) (c : Nat) : TchRel u t m ap (b.dropConn c) (a.dropConn c) := by
  unfold Sys.dropConn
  rw [h.conns]
  exact h.setConns _

theorem TchRel.restart (h : TchRel u t m ap b a) (t' : Time) : TchRel u t m ap (b.restart t') (a.restart t') :=
  ⟨h.disk, h.disk, rfl, h.cfg, h.out⟩

theorem TchRel.clear (h : TchRel u t m ap b a) :
    TchRel u t m ap { b with out := [], snaps := [] } { a with out := [], snaps := [] } :=
  ⟨h.db, h.disk, h.conns, h.cfg, rfl⟩

/-- the condition on one operation: a non-faulted sweep at `now` either finds somebody subscribed to
    `(ap, m)` or its cutoff does not separate the two stamps -/
def SweepOK (u t : Time) (m ap : String) (b : Sys) (op : Op) : Prop :=
  ∀ now, op = .sweep now false → b.listeners ap m ≠ [] ∨ NoSplit u t (now - Generated.expirationTicks)

/-- **one operation** (not a crash) -/
theorem TchRel.step (h : TchRel u t m ap b a) (op : Op) (hop : op.isCrash = false) (hs : SweepOK u t m ap b op) :
    TchRel u t m ap (b.step op) (a.step op) := by
  rw [step_eq_of_not_crash b hop, step_eq_of_not_crash a hop]
  have h0 := h.clear
  cases op with
  | connect c => exact h0.connect c
  | recv c t' id cmd => exact h0.onMessage c t' id cmd
  | drop c => exact h0.dropConn c
  | restart t' => exact h0.restart t'
  | crashIn k op => simp [Op.isCrash] at hop
  | sweep now fault =>
    refine h0.expire now fault ?_
    intro hf
    subst hf
    exact hs now rfl

end Sys
end Wormhole
