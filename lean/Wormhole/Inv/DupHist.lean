/-
  C14 (re-sending an acknowledged command), part 5: the four operations of the duplicate as a
  run, and the original command and its duplicate put together.
-/
import Wormhole.Inv.DupOrig
import Wormhole.Inv.DupSim

namespace Wormhole
open Sys

/-- **the duplicate**: a fresh connection `c'` binds to the same `(app, side)` at the same virtual
    instant `t`, re-sends the command, and goes away -/
def dup (c' : Nat) (t : Time) (id₁ id : Val) (a σ : String) (impl ver : Option String) (cmd' : Cmd) : List Op :=
  [.connect c', .recv c' t id₁ (.bind (some a) (some σ) impl ver), .recv c' t id cmd', .drop c']

theorem dup_noCrash (c' : Nat) (t : Time) (id₁ id : Val) (a σ : String) (impl ver : Option String) (cmd' : Cmd) :
    ∀ op ∈ dup c' t id₁ id a σ impl ver cmd', op.isCrash = false := by
  intro op hop
  simp only [dup, List.mem_cons, List.not_mem_nil, or_false] at hop
  rcases hop with rfl | rfl | rfl | rfl <;> rfl

/-- the frames that answer a command after its `ack`, as a function of the addressee `k`:
    `claimed m` / `released` / the replay of the stored messages of `(a, mb)` in `d` / `closed` -/
def answerOf (d : Chan) (a m : String) : Cmd → Nat → List Event
  | .claim _ _, k => [.frame k (.claimed m) true]
  | .release _, k => [.frame k .released true]
  | .open_ (some mb), k => replayFrames d k a mb
  | .close _ _, k => [.frame k .closed true]
  | _, _ => []

theorem answerOf_to (d : Chan) (a m : String) (cmd : Cmd) (k : Nat) :
    ∀ k' f b, Event.frame k' f b ∈ answerOf d a m cmd k → k' = k := by
  intro k' f b h
  cases cmd with
  | open_ mo =>
    cases mo with
    | none => simp [answerOf] at h
    | some mb => exact replayFrames_to d k a mb k' f b h
  | claim _ _ => simp [answerOf] at h; exact h.1
  | release _ => simp [answerOf] at h; exact h.1
  | close _ _ => simp [answerOf] at h; exact h.1
  | _ => simp [answerOf] at h

theorem answerOf_isFrame (d : Chan) (a m : String) (cmd : Cmd) (k : Nat) :
    ∀ e ∈ answerOf d a m cmd k, e.isFrame = true := by
  intro e h
  cases cmd with
  | open_ mo =>
    cases mo with
    | none => simp [answerOf] at h
    | some mb => exact replayFrames_isFrame d k a mb e h
  | claim _ _ => simp [answerOf] at h; subst h; rfl
  | release _ => simp [answerOf] at h; subst h; rfl
  | close _ _ => simp [answerOf] at h; subst h; rfl
  | _ => simp [answerOf] at h

/-- the events of the duplicate: `welcome`; `ack` of the bind and its (usage) commits; `ack` of the
    command, its commits, its answer -/
def dupEvents (welcome : String) (c' : Nat) (id₁ id : Val) (commits₁ commits ans : List Event) : List Event :=
  [.frame c' (.welcome welcome) true] ++ (.frame c' (.ack id₁) true :: commits₁) ++
    (.frame c' (.ack id) true :: (commits ++ ans))

/-- every frame among the events of the duplicate is addressed to the duplicate's connection -/
theorem dupEvents_private {welcome : String} {c' : Nat} {id₁ id : Val} {commits₁ commits ans : List Event}
    (h1 : ∀ e ∈ commits₁, IsCommit e) (h2 : ∀ e ∈ commits, IsCommit e)
    (h3 : ∀ k f b, Event.frame k f b ∈ ans → k = c') :
    ∀ k f b, Event.frame k f b ∈ dupEvents welcome c' id₁ id commits₁ commits ans → k = c' := by
  intro k f b h
  simp only [dupEvents, List.mem_append, List.mem_cons, List.not_mem_nil, or_false] at h
  rcases h with (h | h | h) | h | h | h
  · cases h; rfl
  · cases h; rfl
  · obtain ⟨w, hw⟩ := h1 _ h; cases hw
  · cases h; rfl
  · obtain ⟨w, hw⟩ := h2 _ h; cases hw
  · exact h3 k f b h

namespace Sys

theorem dup_run_append (s : Sys) (l₁ l₂ : List Op) :
    Sys.run s (l₁ ++ l₂) =
      ((Sys.run (Sys.run s l₁).1 l₂).1, (Sys.run s l₁).2 ++ (Sys.run (Sys.run s l₁).1 l₂).2) := by
  induction l₁ generalizing s with
  | nil => simp [Sys.run]
  | cons op rest ih => simp [Sys.run, ih]

/-- what the third operation of the duplicate has to deliver (Inv/DupStep.lean: `dup_claim`, ...) -/
def Step3 (s : Sys) (c' : Nat) (a σ : String) (t : Time) (id : Val) (cmd' : Cmd) (D' : Chan) (ans : List Event) : Prop :=
  ∀ sb, DupReady s sb c' a σ → ∀ sc, sc = sb.step (.recv c' t id cmd') →
    sc.db = D' ∧ sc.Synced ∧ sc.cfg = s.cfg ∧ (∃ y, y.id = c' ∧ sc.conns = s.conns ++ [y]) ∧
    ∃ commits, (∀ e ∈ commits, IsCommit e) ∧ sc.out = .frame c' (.ack id) true :: (commits ++ ans)

/-- **the four operations of the duplicate, run from `s`.** -/
theorem dup_run_of_step3 {s : Sys} (hs : s.Synced) {c' : Nat} (hf : ∀ y ∈ s.conns, y.id ≠ c') (a σ : String)
    (t : Time) (id₁ id : Val) (impl ver : Option String) (cmd' : Cmd) {D' : Chan} {ans : List Event}
    (h3 : Step3 s c' a σ t id cmd' D' ans) :
    (Sys.run s (dup c' t id₁ id a σ impl ver cmd')).1.db = D' ∧
    (Sys.run s (dup c' t id₁ id a σ impl ver cmd')).1.disk = D' ∧
    (Sys.run s (dup c' t id₁ id a σ impl ver cmd')).1.conns = s.conns ∧
    (Sys.run s (dup c' t id₁ id a σ impl ver cmd')).1.cfg = s.cfg ∧
    (Sys.run s (dup c' t id₁ id a σ impl ver cmd')).1.Synced ∧
    ∃ commits₁ commits, (∀ e ∈ commits₁, IsCommit e) ∧ (∀ e ∈ commits, IsCommit e) ∧
      (Sys.run s (dup c' t id₁ id a σ impl ver cmd')).2 =
        dupEvents s.cfg.welcome c' id₁ id commits₁ commits ans := by
  obtain ⟨hR, hout1, commits₁, hc1, hout2⟩ := dup_prefix hs hf a σ t id₁ impl ver
  obtain ⟨hdb, hsy, hcfg, ⟨y, hy, hconns⟩, commits, hc, hout3⟩ := h3 _ hR _ rfl
  obtain ⟨k1, k2, k3, k4, k5, k6, k7⟩ := dup_drop hf hy hconns
  simp only [dup, Sys.run]
  refine ⟨k2.trans hdb, ?_, k1, k4.trans hcfg, ⟨?_, ?_⟩, commits₁, commits, hc1, hc, ?_⟩
  · rw [k3, ← hsy.1]; exact hdb
  · rw [k2, k3]; exact hsy.1
  · rw [k5, k6]; exact hsy.2
  · rw [hout1, hout2, hout3, k7]
    simp [dupEvents]

end Sys

namespace GSys

theorem dup_run_append (g : GSys) (l1 l2 : List Op) : g.run (l1 ++ l2) = (g.run l1).run l2 := by
  induction l1 generalizing g with
  | nil => rfl
  | cons op rest ih => exact ih (g.step op)

theorem dup_wf_append {g : GSys} {l1 l2 : List Op} : g.WF (l1 ++ l2) → g.WF l1 ∧ (g.run l1).WF l2 := by
  induction l1 generalizing g with
  | nil => intro h; exact ⟨trivial, h⟩
  | cons op rest ih =>
    intro h
    obtain ⟨h1, h2⟩ := h
    obtain ⟨a, b⟩ := ih h2
    exact ⟨⟨h1, a⟩, b⟩

end GSys

/-! ### the original command and its duplicate -/

/-- the guard of the history theorem, on the state `s` after the original command; it concerns `close` only:
    the mailbox did not survive the original close, OR it survives with at most two side rows
    (K-crowded-rejoin) and its `updated` column already carries `t` (K-close-touch) -/
def CloseGuard (s : Sys) (t : Time) (cmd' : Cmd) : Prop :=
  ∀ m mood, cmd' = .close (some m) mood →
    ¬ s.db.HasId m ∨ ((s.db.mbSidesOf m).length ≤ 2 ∧ ∀ r ∈ s.db.mailboxes, r.id = m → r.updated = t)

/-- **one answered command and its duplicate** (the step-level core of C14).  `g`: any ghost state
    satisfying the invariant in which every handle has its side row; `op = recv c t id cmd` well-formed
    and answered successfully on a connection bound to `(a, σ)`; `cmd'` the re-sent command; the guard
    for `close`.  Then, from the state `s` after `op`, the third operation of the duplicate on ANY state
    `sb` that is `s` plus a fresh bound connection `c'` is answered like the original — `ack`, commits,
    and the answer frames of the original with `c'` for `c` — and leaves the channel database of `s`. -/
theorem dup_after_op {g : GSys} (hI : g.GInv) (hH : g.sys.HandleRow) {c : Nat} {t : Time} {id : Val} {cmd cmd' : Cmd}
    (hw : g.WFOp (.recv c t id cmd)) {x : Conn} {a σ : String} (hx : g.sys.findConn c = some x)
    (ha : x.app = some a) (hσ : x.side = some σ) (hre : Resend x cmd cmd')
    (hans : Answered (g.sys.step (.recv c t id cmd)).out c id cmd)
    (hguard : CloseGuard (g.sys.step (.recv c t id cmd)) t cmd')
    {c' : Nat} (hf : ∀ y ∈ (g.sys.step (.recv c t id cmd)).conns, y.id ≠ c') :
    ∃ m commits₀, (∀ e ∈ commits₀, IsCommit e) ∧
      (g.sys.step (.recv c t id cmd)).out =
        .frame c (.ack id) true :: (commits₀ ++ answerOf (g.sys.step (.recv c t id cmd)).db a m cmd' c) ∧
      Step3 (g.sys.step (.recv c t id cmd)) c' a σ t id cmd' (g.sys.step (.recv c t id cmd)).db
        (answerOf (g.sys.step (.recv c t id cmd)).db a m cmd' c') := by
  have hI' : (g.step (.recv c t id cmd)).GInv := hI.step _ hw
  have hs : (g.sys.step (.recv c t id cmd)).Synced := hI'.synced
  have hP : (g.sys.step (.recv c t id cmd)).db.PInv := hI'.cinv.toPInv
  cases hre with
  | claim n f f' =>
    obtain ⟨m, b, hA⟩ := hans
    obtain ⟨n', e, hD, commits₀, hc0, hout0⟩ := orig_claim hI hx ha hσ hI' hA
    cases e
    exact ⟨m, commits₀, hc0, hout0, fun sb hR => dup_claim hR hs hf hP hD id f'⟩
  | release nm n hn =>
    obtain ⟨b, hA⟩ := hans
    obtain ⟨n', hn', ⟨s0, s1, b1, hdb0, e, hdb⟩, commits₀, hc0, hout0⟩ := orig_release hI hx ha hσ hA
    rw [hn] at hn'; cases hn'
    exact ⟨"", commits₀, hc0, hout0,
      fun sb hR => dup_release hR hs hf (by rw [hdb0]; exact hI.cinv.toPInv) e hdb t id⟩
  | open_ m =>
    obtain ⟨m', e, hdb, hlen, commits₀, hc0, hout0⟩ := orig_open hI hx ha hσ hans.2
    cases e
    refine ⟨"", commits₀, hc0, hout0, fun sb hR sc hsc => ?_⟩
    obtain ⟨k1, k2, k3, k4, k5⟩ := dup_open hR hs hf hP hdb hlen id sc hsc
    exact ⟨k1, k2, k3, ⟨_, rfl, k4⟩, k5⟩
  | close mo m mood htg =>
    obtain ⟨b, hA⟩ := hans
    obtain ⟨m', htg', hcase, commits₀, hc0, hout0⟩ := orig_close hI hH hx ha hσ hA
    rw [htg] at htg'; cases htg'
    refine ⟨"", commits₀, hc0, hout0, ?_⟩
    by_cases hid : (g.sys.step (.recv c t id (.close mo mood))).db.HasId m
    · have hSv : (g.sys.step (.recv c t id (.close mo mood))).db.CloseSurvived a m σ mood := by
        rcases hcase with h | h
        · exact absurd hid h
        · exact h
      obtain ⟨hlen, hst⟩ : ((g.sys.step (.recv c t id (.close mo mood))).db.mbSidesOf m).length ≤ 2 ∧
          ∀ r ∈ (g.sys.step (.recv c t id (.close mo mood))).db.mailboxes, r.id = m → r.updated = t := by
        rcases hguard m mood rfl with h | h
        · exact absurd hid h
        · exact h
      intro sb hR sc hsc
      have := dup_close_survived hR hs hf hP hI'.cinv.npHasSide hSv hlen t id sc hsc
      rw [Chan.touch_eq_self hst] at this
      exact this
    · have hno : ∀ y ∈ (g.sys.step (.recv c t id (.close mo mood))).conns, y.mailbox ≠ some m := by
        intro y hy hk
        obtain ⟨_, _, _, m0, hm0, hi, _⟩ := hI'.conn.handle y hy m hk
        exact hid ⟨m0, hm0, hi⟩
      exact fun sb hR => dup_close_gone hR hs hf hP hI'.cinv.npHasSide hid hno mood t id

/-- **K-close-touch, exactly**: the same for a `close` whose mailbox SURVIVES, under the guard "at most
    two side rows" alone: the answer is `closed` again and the channel database is `touch m t` of the one
    after the original — every table and the counter unchanged except the column `updated` of the
    mailbox row `m`, which becomes `t`. -/
theorem dup_after_close_survived {g : GSys} (hI : g.GInv) (hH : g.sys.HandleRow) {c : Nat} {t : Time} {id : Val}
    {mo mood : Option String} (hw : g.WFOp (.recv c t id (.close mo mood))) {x : Conn} {a σ : String}
    (hx : g.sys.findConn c = some x) (ha : x.app = some a) (hσ : x.side = some σ) {m : String}
    (htg : x.closeTarget mo = some m)
    (hans : Answered (g.sys.step (.recv c t id (.close mo mood))).out c id (.close mo mood))
    (hid : (g.sys.step (.recv c t id (.close mo mood))).db.HasId m)
    (hlen : ((g.sys.step (.recv c t id (.close mo mood))).db.mbSidesOf m).length ≤ 2)
    {c' : Nat} (hf : ∀ y ∈ (g.sys.step (.recv c t id (.close mo mood))).conns, y.id ≠ c') :
    (g.sys.step (.recv c t id (.close mo mood))).db.CloseSurvived a m σ mood ∧
    ∃ commits₀, (∀ e ∈ commits₀, IsCommit e) ∧
      (g.sys.step (.recv c t id (.close mo mood))).out =
        .frame c (.ack id) true :: (commits₀ ++ [.frame c .closed true]) ∧
      Step3 (g.sys.step (.recv c t id (.close mo mood))) c' a σ t id (.close (some m) mood)
        ((g.sys.step (.recv c t id (.close mo mood))).db.touch m t) [.frame c' .closed true] := by
  have hI' : (g.step (.recv c t id (.close mo mood))).GInv := hI.step _ hw
  obtain ⟨b, hA⟩ := hans
  obtain ⟨m', htg', hcase, commits₀, hc0, hout0⟩ := orig_close hI hH hx ha hσ hA
  rw [htg] at htg'; cases htg'
  have hSv : (g.sys.step (.recv c t id (.close mo mood))).db.CloseSurvived a m σ mood := by
    rcases hcase with h | h
    · exact absurd hid h
    · exact h
  exact ⟨hSv, commits₀, hc0, hout0,
    fun sb hR => dup_close_survived hR hI'.synced hf hI'.cinv.toPInv hI'.cinv.npHasSide hSv hlen t id⟩

end Wormhole
