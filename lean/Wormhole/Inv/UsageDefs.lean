/-
  Usage records and retirements: definitions shared by Props/C15b.lean and Props/C16b.lean.

  * `npRecord`, `mbRecord`: THE usage row of a nameplate / mailbox with given side rows, retired at
    `t` (`C15.nameplateSpec` / `C15.mailboxSpec` of Props/C15.lean put into the row format);
  * `storeNameplateUsage_eq`, `storeMailboxUsage_eq`: the two storing primitives append exactly
    that row;
  * `Chan.retiredNp B d`, `Chan.retiredMb B d`: the rows of `B` whose id is absent from `d`;
  * list lemmas about `filter`/`Perm` used to maintain "records ~ retired rows" one deletion at a
    time.
-/
import Wormhole.Props.C15
import Wormhole.Inv.SyncLemmas

namespace Wormhole

/-- the usage `nameplates` row of a nameplate of `app` whose side rows were added at `added`,
    retired at `t` -/
def npRecord (blur : Time → Time) (app : String) (added : List Time) (t : Time) (pruned : Bool) :
    UNameplate :=
  let u := C15.nameplateSpec blur added t pruned
  ⟨app, u.started, u.waiting, u.total, u.result⟩

/-- the usage `mailboxes` row of a mailbox of `app` with side rows `sides`, retired at `t` -/
def mbRecord (blur : Time → Time) (app : String) (forNp : Bool) (sides : List MbSide) (t : Time)
    (pruned : Bool) : UMailbox :=
  let u := C15.mailboxSpec blur sides t pruned
  ⟨app, forNp, u.started, u.total, u.waiting, u.result⟩

namespace Sys

theorem blurTime_congr {s s1 : Sys} (h : s1.cfg = s.cfg) : s1.blurTime = s.blurTime := by
  funext t
  unfold blurTime blurTicks
  rw [h]

@[simp] theorem blurTime_modDb (s : Sys) (f) : (s.modDb f).blurTime = s.blurTime := blurTime_congr rfl
@[simp] theorem blurTime_modUdb (s : Sys) (f) : (s.modUdb f).blurTime = s.blurTime := blurTime_congr rfl
@[simp] theorem blurTime_updConn (s : Sys) (c f) : (s.updConn c f).blurTime = s.blurTime := blurTime_congr rfl
@[simp] theorem blurTime_emit (s : Sys) (e) : (s.emit e).blurTime = s.blurTime := blurTime_congr rfl
@[simp] theorem blurTime_send (s : Sys) (c f) : (s.send c f).blurTime = s.blurTime := blurTime_congr rfl
@[simp] theorem blurTime_commit (s : Sys) : s.commit.blurTime = s.blurTime := blurTime_congr (by simp)
@[simp] theorem blurTime_ucommit (s : Sys) : s.ucommit.blurTime = s.blurTime := blurTime_congr (by simp)

/-- `_summarize_nameplate_and_store` on a non-empty list of side rows appends exactly `npRecord` -/
theorem storeNameplateUsage_eq (s : Sys) (app : String) {sides : List NpSide} (t : Time) (pruned : Bool)
    (h : sides ≠ []) :
    s.storeNameplateUsage app sides t pruned =
      (s.modUdb (fun d => { d with nameplates := d.nameplates ++
        [npRecord s.blurTime app (sides.map (·.added)) t pruned] }), true) := by
  have := C15.C15_storeNameplateUsage s app sides t pruned
  simp only [h, if_false] at this
  rw [this]
  rfl

/-- `_summarize_mailbox_and_store` appends exactly `mbRecord` -/
theorem storeMailboxUsage_eq (s : Sys) (app : String) (forNp : Bool) (sides : List MbSide) (t : Time)
    (pruned : Bool) :
    s.storeMailboxUsage app forNp sides t pruned =
      s.modUdb (fun d => { d with mailboxes := d.mailboxes ++
        [mbRecord s.blurTime app forNp sides t pruned] }) := by
  have := C15.C15_storeMailboxUsage s app forNp sides t pruned
  rw [this]
  rfl

end Sys

namespace Chan

/-- the nameplate rows of `B` whose row id is not in `d` any more -/
def retiredNp (B d : Chan) : List Nameplate :=
  B.nameplates.filter (fun n => ¬ n.id ∈ d.nameplates.map (·.id))

/-- the mailbox rows of `B` whose id is not in `d` any more -/
def retiredMb (B d : Chan) : List MailboxRow :=
  B.mailboxes.filter (fun m => ¬ m.id ∈ d.mailboxes.map (·.id))

theorem retiredNp_congr {B d d' : Chan} (h : d'.nameplates = d.nameplates) :
    B.retiredNp d' = B.retiredNp d := by unfold retiredNp; rw [h]

theorem retiredMb_congr {B d d' : Chan} (h : d'.mailboxes.map (·.id) = d.mailboxes.map (·.id)) :
    B.retiredMb d' = B.retiredMb d := by unfold retiredMb; rw [h]

theorem retiredNp_eq_nil {B d : Chan} (h : ∀ n ∈ B.nameplates, n.id ∈ d.nameplates.map (·.id)) :
    B.retiredNp d = [] := by
  simp only [retiredNp, List.filter_eq_nil_iff, decide_not, Bool.not_eq_true', decide_eq_false_iff_not,
    Decidable.not_not]
  exact h

theorem retiredMb_eq_nil {B d : Chan} (h : ∀ m ∈ B.mailboxes, m.id ∈ d.mailboxes.map (·.id)) :
    B.retiredMb d = [] := by
  simp only [retiredMb, List.filter_eq_nil_iff, decide_not, Bool.not_eq_true', decide_eq_false_iff_not,
    Decidable.not_not]
  exact h

theorem retiredNp_self (d : Chan) : d.retiredNp d = [] :=
  retiredNp_eq_nil (fun n hn => List.mem_map.2 ⟨n, hn, rfl⟩)

theorem retiredMb_self (d : Chan) : d.retiredMb d = [] :=
  retiredMb_eq_nil (fun n hn => List.mem_map.2 ⟨n, hn, rfl⟩)

theorem mem_retiredNp {B d : Chan} {n : Nameplate} :
    n ∈ B.retiredNp d ↔ n ∈ B.nameplates ∧ ∀ n' ∈ d.nameplates, n'.id ≠ n.id := by
  simp [retiredNp]

theorem mem_retiredMb {B d : Chan} {m : MailboxRow} :
    m ∈ B.retiredMb d ↔ m ∈ B.mailboxes ∧ ∀ m' ∈ d.mailboxes, m'.id ≠ m.id := by
  simp [retiredMb]

end Chan

/-! ### list lemmas -/

theorem nodup_of_pairwise_key {α β : Type} (key : α → β) {l : List α}
    (h : l.Pairwise (fun a b => ¬ key a = key b)) : l.Nodup :=
  h.imp (fun hk e => hk (by rw [e]))

/-- enlarging a filter predicate by exactly one element `a` of a duplicate-free list appends `a`,
    up to order -/
theorem filter_perm_snoc {α : Type} [DecidableEq α] {l : List α} (p q : α → Bool) {a : α} (hnd : l.Nodup)
    (ha : a ∈ l) (hpa : p a = false) (hq : ∀ x ∈ l, q x = (p x || decide (x = a))) :
    (l.filter q).Perm (l.filter p ++ [a]) := by
  induction l with
  | nil => simp at ha
  | cons x xs ih =>
    have hnx : x ∉ xs := (List.nodup_cons.1 hnd).1
    have hnd' : xs.Nodup := (List.nodup_cons.1 hnd).2
    by_cases hxa : x = a
    · subst hxa
      have hsame : xs.filter q = xs.filter p := by
        apply List.filter_congr
        intro y hy
        rw [hq y (List.mem_cons_of_mem _ hy)]
        have : y ≠ x := fun e => hnx (e ▸ hy)
        simp [this]
      have hqx : q x = true := by rw [hq x (List.mem_cons_self)]; simp
      rw [List.filter_cons_of_pos hqx, List.filter_cons_of_neg (by simp [hpa]), hsame]
      exact (List.perm_append_singleton x _).symm
    · have ha' : a ∈ xs := by
        rcases List.mem_cons.1 ha with e | h
        · exact absurd e.symm hxa
        · exact h
      have ih' := ih hnd' ha' (fun y hy => hq y (List.mem_cons_of_mem _ hy))
      have hqx : q x = p x := by rw [hq x (List.mem_cons_self)]; simp [hxa]
      cases hp : p x
      · rw [List.filter_cons_of_neg (by simp [hqx, hp]), List.filter_cons_of_neg (by simp [hp])]
        exact ih'
      · rw [List.filter_cons_of_pos (by simp [hqx, hp]), List.filter_cons_of_pos (by simp [hp])]
        exact List.Perm.cons x ih'

/-- rows with pairwise different keys: equal keys, equal rows -/
theorem eq_of_key_eq {α β : Type} (key : α → β) {l : List α}
    (h : l.Pairwise (fun a b => ¬ key a = key b)) {a b : α} (ha : a ∈ l) (hb : b ∈ l)
    (e : key a = key b) : a = b := by
  induction l with
  | nil => simp at ha
  | cons x xs ih =>
    obtain ⟨hx, hxs⟩ := List.pairwise_cons.1 h
    rcases List.mem_cons.1 ha with rfl | ha' <;> rcases List.mem_cons.1 hb with rfl | hb'
    · rfl
    · exact absurd e (hx b hb')
    · exact absurd e.symm (hx a ha')
    · exact ih hxs ha' hb'

/-- in a list with pairwise different keys, a predicate that pins the key selects one row -/
theorem filter_eq_singleton {α β : Type} (key : α → β) {l : List α} (p : α → Bool)
    (h : l.Pairwise (fun a b => ¬ key a = key b)) {a : α} (ha : a ∈ l) (hp : p a = true)
    (hk : ∀ x ∈ l, p x = true → key x = key a) : l.filter p = [a] := by
  induction l with
  | nil => simp at ha
  | cons x xs ih =>
    obtain ⟨hx, hxs⟩ := List.pairwise_cons.1 h
    rcases List.mem_cons.1 ha with rfl | ha'
    · rw [List.filter_cons_of_pos hp]
      congr 1
      rw [List.filter_eq_nil_iff]
      intro y hy hpy
      exact hx y hy (hk y (List.mem_cons_of_mem _ hy) hpy).symm
    · have hpx : ¬ p x = true := fun hpx => hx a ha' (hk x List.mem_cons_self hpx)
      rw [List.filter_cons_of_neg hpx]
      exact ih hxs ha' (fun y hy => hk y (List.mem_cons_of_mem _ hy))

/-- a duplicate-free-by-key list, filtered by "key not among the keys of (the list filtered by q)",
    is the list filtered by `¬ q` -/
theorem filter_not_mem_filter {α β : Type} [DecidableEq β] (key : α → β) {l : List α} (q : α → Bool)
    (h : l.Pairwise (fun a b => ¬ key a = key b)) :
    l.filter (fun n => ¬ key n ∈ (l.filter q).map key) = l.filter (fun n => !q n) := by
  apply List.filter_congr
  intro n hn
  have hiff : key n ∈ (l.filter q).map key ↔ q n = true := by
    constructor
    · intro hm
      obtain ⟨n', hn', e⟩ := List.mem_map.1 hm
      have hn'l := (List.mem_filter.1 hn').1
      have : n' = n := eq_of_key_eq key h hn'l hn e
      subst this
      exact (List.mem_filter.1 hn').2
    · intro hq
      exact List.mem_map.2 ⟨n, List.mem_filter.2 ⟨hn, hq⟩, rfl⟩
  by_cases hq : q n = true
  · simp [hiff.2 hq, hq]
  · have : ¬ key n ∈ (l.filter q).map key := fun hm => hq (hiff.1 hm)
    simp [this, hq]

end Wormhole
