/-
  The subscription lists `Sys.listeners app mb` through the websocket handlers: which
  connection records a command changes, and what that does to every `listeners a m`.
-/
import Wormhole.Inv.MsgOpen

namespace Wormhole
namespace Sys

/-- `x` is a listener of the `Mailbox` object of `(a, m)` -/
def isL (a m : String) (x : Conn) : Bool :=
  decide (x.listening ∧ x.app = some a ∧ x.mailbox = some m)

theorem isL_iff {a m : String} {x : Conn} :
    isL a m x = true ↔ x.listening = true ∧ x.app = some a ∧ x.mailbox = some m := by
  simp [isL]

theorem listeners_eq (s : Sys) (a m : String) : s.listeners a m = (s.conns.filter (isL a m)).map (·.id) := rfl

theorem mem_listeners_iff {s : Sys} {a m : String} {c : Nat} :
    c ∈ s.listeners a m ↔ ∃ x ∈ s.conns, x.id = c ∧ isL a m x = true := by
  simp only [listeners_eq, List.mem_map, List.mem_filter]
  constructor
  · rintro ⟨x, ⟨h1, h2⟩, h3⟩; exact ⟨x, h1, h3, h2⟩
  · rintro ⟨x, h1, h3, h2⟩; exact ⟨x, ⟨h1, h2⟩, h3⟩

/-- connection ids are unique, so each listener is listed once -/
theorem listeners_pairwise {s : Sys} (h : s.conns.Pairwise (fun a b => ¬ a.id = b.id)) (a m : String) :
    (s.listeners a m).Pairwise (· ≠ ·) := by
  rw [listeners_eq, List.pairwise_map]
  exact (h.filter _).imp (fun h => h)

/-- a listener of one mailbox is not a listener of another -/
theorem isL_unique {a m a' m' : String} {x : Conn} (h : isL a m x = true) (h' : isL a' m' x = true) :
    a' = a ∧ m' = m := by
  rw [isL_iff] at h h'
  obtain ⟨_, h1, h2⟩ := h
  obtain ⟨_, h1', h2'⟩ := h'
  rw [h1] at h1'; rw [h2] at h2'
  cases h1'; cases h2'
  exact ⟨rfl, rfl⟩

/-! ### list-level forms of `updConn` and `stopListeners` -/

def updL (c : Nat) (f : Conn → Conn) (l : List Conn) : List Conn :=
  l.map (fun x => if x.id = c then f x else x)

def stopC (a m : String) (x : Conn) : Conn :=
  if x.listening ∧ x.app = some a ∧ x.mailbox = some m then { x with mailbox := none, listening := false }
  else x

def stopL (a m : String) (l : List Conn) : List Conn := l.map (stopC a m)

theorem updConn_conns' (s : Sys) (c : Nat) (f : Conn → Conn) : (s.updConn c f).conns = updL c f s.conns := rfl
theorem stopListeners_conns' (s : Sys) (a m : String) : (s.stopListeners a m).conns = stopL a m s.conns := rfl

theorem stopC_id (a m : String) (x : Conn) : (stopC a m x).id = x.id := by unfold stopC; split <;> rfl
theorem stopC_app (a m : String) (x : Conn) : (stopC a m x).app = x.app := by unfold stopC; split <;> rfl

theorem isL_stopC (a m a' m' : String) (x : Conn) :
    isL a' m' (stopC a m x) = (isL a' m' x && !isL a m x) := by
  unfold stopC
  split
  · rename_i h
    simp [isL, h]
  · rename_i h
    have : isL a m x = false := by simpa [isL] using h
    simp [this]

/-- the listeners after a `map` that keeps ids -/
theorem listeners_of_map {s s' : Sys} (G : Conn → Conn) (h : s'.conns = s.conns.map G)
    (hid : ∀ y ∈ s.conns, (G y).id = y.id) (a m : String) :
    s'.listeners a m = (s.conns.filter (fun y => isL a m (G y))).map (·.id) := by
  rw [listeners_eq, h, List.filter_map, List.map_map]
  apply List.map_congr_left
  intro y hy
  exact hid y (List.mem_filter.1 hy).1

/-! ### commands that keep every subscription list -/

/-- the record is the same as far as subscriptions are concerned -/
def KL (y y' : Conn) : Prop :=
  y'.id = y.id ∧ y'.listening = y.listening ∧ y'.app = y.app ∧ y'.mailbox = y.mailbox

/-- every connection record is the same as far as subscriptions are concerned -/
def KeepL (s s' : Sys) : Prop := ∃ G : Conn → Conn, s'.conns = s.conns.map G ∧ ∀ y, KL y (G y)

theorem KeepL.of_eq {s s' : Sys} (h : s'.conns = s.conns) : KeepL s s' :=
  ⟨id, by simp [h], fun _ => ⟨rfl, rfl, rfl, rfl⟩⟩

theorem KeepL.refl (s : Sys) : KeepL s s := KeepL.of_eq rfl

theorem KeepL.trans {a b c : Sys} (h1 : KeepL a b) (h2 : KeepL b c) : KeepL a c := by
  obtain ⟨G1, e1, k1⟩ := h1
  obtain ⟨G2, e2, k2⟩ := h2
  refine ⟨G2 ∘ G1, by simp [e2, e1], fun y => ?_⟩
  obtain ⟨a1, a2, a3, a4⟩ := k1 y
  obtain ⟨b1, b2, b3, b4⟩ := k2 (G1 y)
  exact ⟨b1.trans a1, b2.trans a2, b3.trans a3, b4.trans a4⟩

theorem KeepL.updConn {s s1 : Sys} (h : KeepL s s1) {c : Nat} {f : Conn → Conn} (hf : ∀ y, KL y (f y)) :
    KeepL s (s1.updConn c f) :=
  h.trans ⟨fun x => if x.id = c then f x else x, rfl, fun y => by
    show KL y (if y.id = c then f y else y)
    split
    · exact hf y
    · exact ⟨rfl, rfl, rfl, rfl⟩⟩

theorem KeepL.conns_eq {s s1 s2 : Sys} (h : KeepL s s1) (e : s2.conns = s1.conns) : KeepL s s2 :=
  h.trans (KeepL.of_eq e)

/-- **no subscription list changes** -/
theorem KeepL.listeners {s s' : Sys} (h : KeepL s s') (a m : String) : s'.listeners a m = s.listeners a m := by
  obtain ⟨G, e, k⟩ := h
  rw [listeners_of_map G e (fun y _ => (k y).1), listeners_eq]
  congr 1
  apply List.filter_congr
  intro y _
  obtain ⟨_, k2, k3, k4⟩ := k y
  simp [isL, k2, k3, k4]

section keep
variable {s : Sys} {x : Conn}

theorem handlePing_keepL {c v} : KeepL s (s.handlePing c v) := by
  unfold handlePing; split <;> exact KeepL.of_eq rfl

theorem handleList_keepL {app} : KeepL s (s.handleList x app) := KeepL.of_eq rfl

theorem handleAllocate_keepL {app side t pick draws fresh} :
    KeepL s (s.handleAllocate x app side t pick draws fresh) := by
  unfold handleAllocate
  split
  · exact KeepL.of_eq rfl
  · split
    · exact KeepL.of_eq rfl
    · rename_i name _
      have h := claimNameplate_conns s app name side t fresh
      split <;> rename_i heq <;> rw [heq] at h
      · exact ((KeepL.of_eq h).updConn (c := x.id) (f := fun y => { y with didAllocate := true })
          (fun y => ⟨rfl, rfl, rfl, rfl⟩)).conns_eq rfl
      · exact KeepL.of_eq h
      · exact KeepL.of_eq h
      · exact KeepL.of_eq h

theorem handleClaim_keepL {app side t nameplate fresh} :
    KeepL s (s.handleClaim x app side t nameplate fresh) := by
  unfold handleClaim
  split
  · exact KeepL.of_eq rfl
  · rename_i name
    split
    · exact KeepL.of_eq rfl
    · have h0 : KeepL s (s.updConn x.id (fun y => { y with didClaim := true, nameplateId := some name })) :=
        (KeepL.refl s).updConn (fun y => ⟨rfl, rfl, rfl, rfl⟩)
      have h := claimNameplate_conns (s.updConn x.id (fun y => { y with didClaim := true, nameplateId := some name }))
        app name side t fresh
      simp only []
      split <;> rename_i heq <;> rw [heq] at h <;> exact h0.conns_eq h

theorem handleRelease_keepL {app side t n} : KeepL s (s.handleRelease x app side t n) := by
  have hgo : ∀ name, KeepL s
      (match (s.updConn x.id (fun y => { y with didRelease := true })).releaseNameplate app name side t with
        | (s1, true) => s1.send x.id .released
        | (s1, false) => s1.internalErr x.id "IndexError") := by
    intro name
    have h0 : KeepL s (s.updConn x.id (fun y => { y with didRelease := true })) :=
      (KeepL.refl s).updConn (fun y => ⟨rfl, rfl, rfl, rfl⟩)
    have h := releaseNameplate_conns (s.updConn x.id (fun y => { y with didRelease := true })) app name side t
    split <;> rename_i heq <;> rw [heq] at h <;> exact h0.conns_eq h
  unfold handleRelease
  split
  · exact KeepL.of_eq rfl
  · simp only []
    split
    · split
      · exact KeepL.of_eq rfl
      · exact hgo _
    · exact hgo _
    · exact hgo _
    · exact KeepL.of_eq rfl

theorem broadcast_conns (app mb f) : (s.broadcast app mb f).conns = s.conns :=
  (foldl_send_spec (fun c => c) (fun _ => f) (s.listeners app mb) s).2.2.2.2.2.1

theorem replay_conns (c app mb) : (s.replay c app mb).conns = s.conns :=
  (foldl_send_spec (fun _ => c) (fun (r : Message) => Frame.message r.side r.phase r.body r.rx r.msgId)
    _ s).2.2.2.2.2.1

theorem handleAdd_keepL {app side t id ph bd} : KeepL s (s.handleAdd x app side t id ph bd) := by
  unfold handleAdd
  split
  · exact KeepL.of_eq rfl
  · split
    · exact KeepL.of_eq rfl
    · split
      · exact KeepL.of_eq rfl
      · exact KeepL.of_eq (by rw [broadcast_conns]; exact addMessage_conns)

/-- `open`: unless `open_mailbox` answers ok, only `mailboxId` is recorded -/
theorem handleOpen_conns {app side t mailbox} :
    KeepL s (s.handleOpen x app side t mailbox) ∨
    (∃ mb, mailbox = some mb ∧ x.mailbox = none ∧
      ((s.updConn x.id (fun y => { y with mailboxId := some mb })).openMailbox app mb side t).2 = .ok ∧
      (s.handleOpen x app side t mailbox).conns =
        updL x.id (fun y => { y with mailbox := some mb, listening := true })
          (updL x.id (fun y => { y with mailboxId := some mb }) s.conns)) := by
  unfold handleOpen
  split
  · exact .inl (KeepL.of_eq rfl)
  · rename_i hmb
    split
    · exact .inl (KeepL.of_eq rfl)
    · rename_i mb
      have h0 : KeepL s (s.updConn x.id (fun y => { y with mailboxId := some mb })) :=
        (KeepL.refl s).updConn (fun y => ⟨rfl, rfl, rfl, rfl⟩)
      have h := openMailbox_conns (s.updConn x.id (fun y => { y with mailboxId := some mb })) app mb side t
      simp only []
      split <;> rename_i heq <;> rw [heq] at h
      · exact .inl (h0.conns_eq h)
      · exact .inl (h0.conns_eq h)
      · refine .inr ⟨mb, rfl, by simpa using hmb, by rw [heq], ?_⟩
        rw [replay_conns, updConn_conns', h]
        rfl

end keep

/-! ### `close` -/

/-- the connection records after an accepted `close` by `c` of the mailbox with handle `h` under
    app `a`: `c`'s record stops listening (and may lose / gain the handle), and, when the mailbox
    was deleted (`stopped`), the stop callbacks ran on every remaining listener of `(a, h)` -/
def CloseShape (c : Nat) (a h : String) (stopped : Bool) (l l' : List Conn) : Prop :=
  ∃ f1 f3 : Conn → Conn, (∀ y, (f1 y).id = y.id) ∧ (∀ y, (f3 y).id = y.id ∧ (f3 y).listening = y.listening) ∧
    l' = updL c f3 ((if stopped then stopL a h else id)
      (updL c (fun y => { y with listening := false, didClose := true }) (updL c f1 l)))

theorem handleClose_conns {s : Sys} {x : Conn} {app side : String} {t : Time} {m mood}
    (h1 : x.didClose = false)
    (h2 : ∀ a held, m = some a → x.mailboxId = some held → a = held)
    (h3 : ¬ (m = none ∧ x.mailboxId = none)) :
    (x.mailbox = none ∧ KeepL s (s.handleClose x app side t m mood)) ∨
    (∃ stopped h, CloseShape x.id app h stopped s.conns (s.handleClose x app side t m mood).conns ∧
      (stopped = true → ∀ k ∈ (s.handleClose x app side t m mood).db.mbKeys, ¬ k.2 = h)) := by
  have hgo : ∀ mb, ∀ s', s' =
      (match (match x.mailbox with
          | some h => (s, OpenRes.ok, h)
          | none =>
            match s.openMailbox app mb side t with
            | (s1, r) =>
              (s1.updConn x.id (fun y => if r = .ok then { y with mailbox := some mb } else y), r, mb)
          : Sys × OpenRes × String) with
      | (s1, .crowded, _) => s1.sendError x.id "crowded"
      | (s1, .integrity, _) => s1.internalErr x.id "IntegrityError"
      | (s1, .ok, h) =>
        match (s1.updConn x.id (fun y => { y with listening := false, didClose := true })).mailboxClose
            app h side mood t with
        | (s3, false) => s3.internalErr x.id "IndexError"
        | (s3, true) => (s3.updConn x.id (fun y => { y with mailbox := none })).send x.id .closed) →
      (x.mailbox = none ∧ KeepL s s') ∨
      (∃ stopped h, CloseShape x.id app h stopped s.conns s'.conns ∧
        (stopped = true → ∀ k ∈ s'.db.mbKeys, ¬ k.2 = h)) := by
    intro mb s' hs'
    -- the state after the (possible) implicit open
    have hop : ∀ s1 r h, (match x.mailbox with
          | some h => (s, OpenRes.ok, h)
          | none =>
            match s.openMailbox app mb side t with
            | (s1, r) =>
              (s1.updConn x.id (fun y => if r = .ok then { y with mailbox := some mb } else y), r, mb)
          : Sys × OpenRes × String) = (s1, r, h) →
        (r = .ok → ∃ f1 : Conn → Conn, (∀ y, (f1 y).id = y.id) ∧ s1.conns = updL x.id f1 s.conns) ∧
        (r ≠ .ok → x.mailbox = none ∧ KeepL s s1) := by
      intro s1 r h heq
      split at heq
      · cases heq
        exact ⟨fun _ => ⟨id, fun _ => rfl, by simp [updL]⟩, fun h => absurd rfl h⟩
      · rename_i hxm
        split at heq
        rename_i s1' r' hom
        cases heq
        have hc := openMailbox_conns s app mb side t
        rw [hom] at hc
        constructor
        · intro hr
          refine ⟨fun y => { y with mailbox := some mb }, fun _ => rfl, ?_⟩
          rw [updConn_conns', hc]
          simp [hr]
        · intro hr
          refine ⟨hxm, ?_⟩
          have : (s1'.updConn x.id (fun y => if r = .ok then { y with mailbox := some mb } else y)).conns = s.conns := by
            rw [updConn_conns', hc]
            simp [updL, hr]
          exact KeepL.of_eq this
    subst hs'
    split <;> rename_i heq <;> obtain ⟨hok, hnok⟩ := hop _ _ _ heq
    · obtain ⟨hx, hk⟩ := hnok (by simp)
      exact .inl ⟨hx, hk.conns_eq rfl⟩
    · obtain ⟨hx, hk⟩ := hnok (by simp)
      exact .inl ⟨hx, hk.conns_eq rfl⟩
    · rename_i _ s1 hh
      obtain ⟨f1, hf1, hc1⟩ := hok rfl
      right
      have hmc := mailboxClose_conns (s1.updConn x.id (fun y => { y with listening := false, didClose := true }))
        app hh side mood t
      split <;> rename_i heq2 <;> rw [heq2] at hmc <;> simp only at hmc
      · -- IndexError: the record keeps the handle
        rcases hmc with ⟨hc, _⟩ | ⟨hc, _, hk⟩
        · refine ⟨false, hh, ⟨f1, id, hf1, fun _ => ⟨rfl, rfl⟩, ?_⟩, by simp⟩
          show _ = updL x.id id _
          rw [show (Sys.internalErr _ x.id "IndexError").conns = _ from hc, updConn_conns', hc1]
          simp [updL]
        · refine ⟨true, hh, ⟨f1, id, hf1, fun _ => ⟨rfl, rfl⟩, ?_⟩, fun _ => hk⟩
          show _ = updL x.id id _
          rw [show (Sys.internalErr _ x.id "IndexError").conns = _ from hc, stopListeners_conns', updConn_conns', hc1]
          simp [updL]
      · rcases hmc with ⟨hc, _⟩ | ⟨hc, _, hk⟩
        · refine ⟨false, hh, ⟨f1, fun y => { y with mailbox := none }, hf1, fun _ => ⟨rfl, rfl⟩, ?_⟩, by simp⟩
          show (Sys.updConn _ x.id _).conns = _
          rw [updConn_conns', hc, updConn_conns', hc1]
          simp
        · refine ⟨true, hh, ⟨f1, fun y => { y with mailbox := none }, hf1, fun _ => ⟨rfl, rfl⟩, ?_⟩, fun _ => hk⟩
          show (Sys.updConn _ x.id _).conns = _
          rw [updConn_conns', hc, stopListeners_conns', updConn_conns', hc1]
          simp
  unfold handleClose
  simp only [h1, Bool.false_eq_true, if_false]
  split
  · rename_i a held hh
    rw [if_neg (by simpa using h2 a held rfl hh)]
    exact hgo _ _ rfl
  · exact hgo _ _ rfl
  · exact hgo _ _ rfl
  · rename_i hh
    exact absurd ⟨rfl, hh⟩ h3

/-- the subscription lists after a `CloseShape` change -/
theorem CloseShape.listeners {s s' : Sys} {c : Nat} {a h : String} {stopped : Bool}
    (hsh : CloseShape c a h stopped s.conns s'.conns) (a' m' : String) (c' : Nat) :
    c' ∈ s'.listeners a' m' ↔
      c' ∈ s.listeners a' m' ∧ c' ≠ c ∧ ¬ (stopped = true ∧ a' = a ∧ m' = h) := by
  obtain ⟨f1, f3, hf1, hf3, e⟩ := hsh
  -- one function on records
  let f2 : Conn → Conn := fun y => { y with listening := false, didClose := true }
  let st : Conn → Conn := if stopped then stopC a h else id
  let G : Conn → Conn := fun y =>
    (fun z => if z.id = c then f3 z else z) (st ((fun z => if z.id = c then f2 z else z)
      ((fun z => if z.id = c then f1 z else z) y)))
  have hst_id : ∀ z, (st z).id = z.id := by
    intro z; simp only [st]; split
    · exact stopC_id a h z
    · rfl
  have hG : s'.conns = s.conns.map G := by
    rw [e]
    cases stopped <;> simp [updL, stopL, G, st, f2, List.map_map, Function.comp_def]
  have hGc : ∀ y, y.id = c → (G y).id = y.id ∧ (G y).listening = false := by
    intro y hy
    have e1 : ((fun z : Conn => if z.id = c then f1 z else z) y) = f1 y := by simp [hy]
    have i1 : (f1 y).id = c := by rw [hf1, hy]
    have e2 : ((fun z : Conn => if z.id = c then f2 z else z) (f1 y)) = f2 (f1 y) := by simp [i1]
    have i2 : (f2 (f1 y)).id = c := i1
    have l2 : (f2 (f1 y)).listening = false := rfl
    have i3 : (st (f2 (f1 y))).id = c := by rw [hst_id, i2]
    have l3 : (st (f2 (f1 y))).listening = false := by
      simp only [st]; split
      · unfold stopC; split <;> simp [l2]
      · exact l2
    have e3 : G y = f3 (st (f2 (f1 y))) := by
      simp only [G, e1, e2]
      simp [i3]
    rw [e3]
    exact ⟨by rw [(hf3 _).1, i3, hy], by rw [(hf3 _).2, l3]⟩
  have hGn : ∀ y, y.id ≠ c → G y = st y := by
    intro y hy
    have i3 : (st y).id ≠ c := by rw [hst_id]; exact hy
    simp [G, hy, i3]
  have hid : ∀ y ∈ s.conns, (G y).id = y.id := by
    intro y _
    by_cases hy : y.id = c
    · exact (hGc y hy).1
    · rw [hGn y hy, hst_id]
  rw [listeners_of_map G hG hid, mem_listeners_iff]
  simp only [List.mem_map, List.mem_filter]
  constructor
  · rintro ⟨y, ⟨hy, hl⟩, rfl⟩
    have hne : y.id ≠ c := by
      intro hyc
      have := (hGc y hyc).2
      rw [isL_iff] at hl
      rw [this] at hl
      exact absurd hl.1 (by simp)
    rw [hGn y hne] at hl
    cases hs : stopped with
    | false =>
      simp only [st, hs] at hl
      exact ⟨⟨y, hy, rfl, hl⟩, hne, by simp⟩
    | true =>
      simp only [st, hs, if_true] at hl
      rw [isL_stopC, Bool.and_eq_true] at hl
      refine ⟨⟨y, hy, rfl, hl.1⟩, hne, ?_⟩
      rintro ⟨_, rfl, rfl⟩
      simp [hl.1] at hl
  · rintro ⟨⟨y, hy, rfl, hl⟩, hne, hns⟩
    refine ⟨y, ⟨hy, ?_⟩, rfl⟩
    rw [hGn y hne]
    cases hs : stopped with
    | false => simpa [st, hs] using hl
    | true =>
      simp only [st, hs, if_true]
      rw [isL_stopC, hl, Bool.true_and]
      cases hl2 : isL a h y with
      | false => rfl
      | true =>
        obtain ⟨rfl, rfl⟩ := isL_unique hl2 hl
        exact absurd ⟨hs, rfl, rfl⟩ hns

/-! ### `onMessage`, command by command -/

/-- a refused command changes no connection record -/
theorem onMessage_rejected_conns {s : Sys} {c : Nat} {x : Conn} {t : Time} {id : Val} {cmd : Cmd} {text : String}
    (hx : s.findConn c = some x) (hr : rejectText x cmd = some text) :
    (s.onMessage c t id cmd).conns = s.conns := by
  rw [onMessage_rejected hx hr]
  split <;> rfl

/-- is the command one of `bind`, `open`, `close`? -/
def _root_.Wormhole.Cmd.touchesSubs : Cmd → Bool
  | .bind _ _ _ _ | .open_ _ | .close _ _ => true
  | _ => false

/-- **every command other than `bind` / `open` / `close` keeps every subscription list**
    (whether accepted or refused, whatever it does to the database) -/
theorem onMessage_keepL {s : Sys} {c : Nat} {t : Time} {id : Val} {cmd : Cmd}
    (hc : cmd.touchesSubs = false) : KeepL s (s.onMessage c t id cmd) := by
  unfold onMessage
  split
  · exact KeepL.refl s
  · rename_i x hx
    split
    · exact KeepL.of_eq rfl
    · have h0 : KeepL s (s.send c (.ack id)) := KeepL.of_eq rfl
      simp only []
      split
      · exact h0.trans handlePing_keepL
      · simp [Cmd.touchesSubs] at hc
      · split
        · exact KeepL.of_eq rfl
        · split
          · exact h0.trans handleList_keepL
          · exact h0.trans handleAllocate_keepL
          · exact h0.trans handleClaim_keepL
          · exact h0.trans handleRelease_keepL
          · simp [Cmd.touchesSubs] at hc
          · exact h0.trans handleAdd_keepL
          · simp [Cmd.touchesSubs] at hc
          · exact KeepL.of_eq rfl

/-- `bind`: refused, or the record (which was unbound) gets its app and side -/
theorem onMessage_bind_conns {s : Sys} {c : Nat} {x : Conn} {t : Time} {id : Val} {a sd i v}
    (hx : s.findConn c = some x) :
    (s.onMessage c t id (.bind a sd i v)).conns = s.conns ∨
    (x.app = none ∧ ∃ a' sd', (s.onMessage c t id (.bind a sd i v)).conns =
      updL c (fun y => { y with app := some a', side := some sd' }) s.conns) := by
  have hid := findConn_id hx
  cases hr : rejectText x (.bind a sd i v) with
  | some text => exact .inl (onMessage_rejected_conns hx hr)
  | none =>
    right
    simp only [rejectText] at hr
    split at hr; · cases hr
    rename_i hb
    split at hr; · cases hr
    split at hr; · cases hr
    obtain ⟨a', rfl⟩ := Option.ne_none_iff_exists'.1 ‹¬ a = none›
    obtain ⟨sd', rfl⟩ := Option.ne_none_iff_exists'.1 ‹¬ sd = none›
    have h1 : x.app = none := by
      cases h : x.app
      · rfl
      · exact absurd (Or.inl (by simp [h])) hb
    refine ⟨h1, a', sd', ?_⟩
    have hb' : ¬ (x.app.isSome = true ∨ x.side.isSome = true ∧ x.side ≠ some "") := by
      rintro (h | ⟨h, h'⟩)
      · simp [h1] at h
      · exact hb (Or.inr ⟨by intro h0; simp [h0] at h, h'⟩)
    simp only [onMessage, hx, handleBind, if_neg hb', logClientVersion_conns, hid]
    rfl

/-- `open`: every subscription list is kept, unless the command is accepted and answered ok -/
theorem onMessage_open_conns {s : Sys} {c : Nat} {x : Conn} {t : Time} {id : Val} {mailbox : Option String}
    (hx : s.findConn c = some x) :
    KeepL s (s.onMessage c t id (.open_ mailbox)) ∨
    (∃ a mb, x.app = some a ∧ mailbox = some mb ∧ x.mailbox = none ∧
      s.db.openRes a mb (x.side.getD "") = .ok ∧
      (s.onMessage c t id (.open_ mailbox)).conns =
        updL c (fun y => { y with mailbox := some mb, listening := true })
          (updL c (fun y => { y with mailboxId := some mb }) s.conns)) := by
  have hid := findConn_id hx
  unfold onMessage
  simp only [hx]
  cases ha : x.app with
  | none => exact .inl (KeepL.of_eq rfl)
  | some a =>
    simp only []
    rcases handleOpen_conns (s := s.send c (.ack id)) (x := x) (app := a) (side := x.side.getD "") (t := t)
      (mailbox := mailbox) with h | ⟨mb, h1, h2, h3, h4⟩
    · exact .inl ((KeepL.of_eq rfl).trans h)
    · refine .inr ⟨a, mb, rfl, h1, h2, ?_, ?_⟩
      · rw [openMailbox_res] at h3; exact h3
      · rw [h4, hid]; rfl

/-- `close`: refused or answered crowded / IntegrityError (then the connection held no handle and
    nothing changes), or the records change as `CloseShape` says -/
theorem onMessage_close_conns {s : Sys} {c : Nat} {x : Conn} {t : Time} {id : Val} {m : Option String} {mood}
    (hx : s.findConn c = some x) :
    ((rejectText x (.close m mood) ≠ none ∨ x.mailbox = none) ∧ KeepL s (s.onMessage c t id (.close m mood))) ∨
    (rejectText x (.close m mood) = none ∧ ∃ a stopped h, x.app = some a ∧
      CloseShape c a h stopped s.conns (s.onMessage c t id (.close m mood)).conns ∧
      (stopped = true → ∀ k ∈ (s.onMessage c t id (.close m mood)).db.mbKeys, ¬ k.2 = h)) := by
  have hid := findConn_id hx
  cases hr : rejectText x (.close m mood) with
  | some text => exact .inl ⟨.inl (by simp), KeepL.of_eq (onMessage_rejected_conns hx hr)⟩
  | none =>
    obtain ⟨⟨app, happ⟩, h⟩ := needBind_eq_none hr
    have h1 : x.didClose = false := by cases hd : x.didClose <;> simp_all
    have e : s.onMessage c t id (.close m mood) =
        (s.send c (.ack id)).handleClose x app (x.side.getD "") t m mood := by
      simp [onMessage, hx, happ]
    rw [e]
    rcases handleClose_conns (s := s.send c (.ack id)) (x := x) (app := app) (side := x.side.getD "") (t := t)
      (m := m) (mood := mood) h1
      (by
        intro a held hn hh
        subst hn
        simpa [h1, hh] using h)
      (by
        rintro ⟨rfl, hh⟩
        simp [h1, hh] at h) with ⟨hxm, hk⟩ | ⟨stopped, hh, hsh, hst⟩
    · exact .inl ⟨.inr hxm, (KeepL.of_eq rfl).trans hk⟩
    · refine .inr ⟨rfl, app, stopped, hh, happ, ?_, hst⟩
      subst hid; exact hsh

end Sys
end Wormhole
