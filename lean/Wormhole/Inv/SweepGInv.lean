/-
  The sweep and the global invariant `GSys.GInv` (Inv/Main.lean): `GInv` gives `Sys.SwInv`, and
  a well-formed sweep (its time is not before the clock) preserves `GInv`.
-/
import Wormhole.Inv.SweepRows
import Wormhole.Inv.Main

namespace Wormhole

theorem GSys.GInv.swInv {g : GSys} (h : g.GInv) : g.sys.SwInv := ⟨h.cinv, h.conn, h.synced⟩

/-! ### the global invariant is preserved by well-formed sweeps -/

theorem GSys.GInv.step_sweep {g : GSys} (h : g.GInv) {now : Time} {fault : Bool}
    (hw : g.WFOp (.sweep now fault)) : (g.step (.sweep now fault)).GInv := by
  have hsw := h.swInv.step_sweep now fault
  have hmono : g.clock ≤ now := hw.mono now rfl
  have hused : (g.step (.sweep now fault)).used = g.used := by simp [GSys.step, Op.mailboxIds]
  have hclock : (g.step (.sweep now fault)).clock = now := rfl
  have hsys : (g.step (.sweep now fault)).sys = g.sys.step (.sweep now fault) := rfl
  cases fault with
  | true =>
    obtain ⟨hd, hf⟩ := Sys.step_sweep_fault g.sys now
    refine ⟨hsw.cinv, hsw.conn, hsw.synced, ?_, ?_, ?_⟩
    · rw [hsys, hd, hused]; exact h.used
    · rw [hsys, hf.conns, hused]; exact h.usedConn
    · rw [hsys, hd, hclock]; intro m hm; exact Int.le_trans (h.clockMb m hm) hmono
  | false =>
    obtain ⟨hd, hf⟩ := Sys.step_sweep_spec h.cinv now
    refine ⟨hsw.cinv, hsw.conn, hsw.synced, ?_, ?_, ?_⟩
    · rw [hsys, hd, hused]
      intro m' hm'
      obtain ⟨m, hm, _, rfl⟩ := Chan.mem_sweepP_mailboxes.1 hm'
      simpa using h.used m hm
    · rw [hsys, hf.conns, hused]; exact h.usedConn
    · rw [hsys, hd, hclock]
      intro m' hm'
      obtain ⟨m, hm, _, rfl⟩ := Chan.mem_sweepP_mailboxes.1 hm'
      unfold Chan.stamp
      split
      · exact Int.le_refl _
      · exact Int.le_trans (h.clockMb m hm) hmono

end Wormhole
