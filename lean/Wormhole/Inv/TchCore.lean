/-
  Two-run simulation for K-close-touch, part 2: every function of Core.lean preserves `Sys.TchRel`
  and returns the same result in both runs.  The only function that READS `mailboxes.updated` is
  `AppNamespace.prune`; it needs the hypothesis that the cutoff does not separate the two stamps
  (`NoSplit`) unless somebody is subscribed to the mailbox (then both rows are re-stamped first).
-/
import Wormhole.Inv.TchDefs

namespace Wormhole
namespace Sys

variable {u t : Time} {m ap : String} {b a : Sys}

theorem TchRel.blurTime (h : TchRel u t m ap b a) : a.blurTime = b.blurTime := by
  funext x
  simp only [Sys.blurTime, Sys.blurTicks, h.cfg]

/-! ### usage blocks -/

theorem TchRel.storeNameplateUsage (h : TchRel u t m ap b a) (app : String) (sides : List NpSide) (t' : Time)
    (p : Bool) :
    TchRel u t m ap (b.storeNameplateUsage app sides t' p).1 (a.storeNameplateUsage app sides t' p).1 ∧
      (a.storeNameplateUsage app sides t' p).2 = (b.storeNameplateUsage app sides t' p).2 := by
  unfold Sys.storeNameplateUsage
  rw [h.blurTime]
  cases summarizeNameplate b.blurTime (sides.map (·.added)) t' p with
  | none => exact ⟨h, rfl⟩
  | some s => exact ⟨h.modUdb _ _, rfl⟩

theorem TchRel.storeMailboxUsage (h : TchRel u t m ap b a) (app : String) (f : Bool) (sides : List MbSide) (t' : Time)
    (p : Bool) :
    TchRel u t m ap (b.storeMailboxUsage app f sides t' p) (a.storeMailboxUsage app f sides t' p) := by
  unfold Sys.storeMailboxUsage
  exact h.modUdb _ _

theorem TchRel.uNp (h : TchRel u t m ap b a) (app : String) (sides : List NpSide) (t' : Time) (p : Bool) :
    TchRel u t m ap (b.uNp app sides t' p).1 (a.uNp app sides t' p).1 ∧
      (a.uNp app sides t' p).2 = (b.uNp app sides t' p).2 := by
  unfold Sys.uNp
  rw [h.cfg]
  split
  · exact h.storeNameplateUsage app sides t' p
  · exact ⟨h, rfl⟩

theorem TchRel.uMb (h : TchRel u t m ap b a) (app : String) (f : Bool) (sides : List MbSide) (t' : Time) (p : Bool) :
    TchRel u t m ap (b.uMb app f sides t' p) (a.uMb app f sides t' p) := by
  unfold Sys.uMb
  rw [h.cfg]
  split
  · exact h.storeMailboxUsage app f sides t' p
  · exact h

theorem TchRel.uCommit (h : TchRel u t m ap b a) : TchRel u t m ap b.uCommit a.uCommit := by
  unfold Sys.uCommit
  rw [h.cfg]
  split
  · exact h.ucommit
  · exact h

theorem TchRel.uNps (app : String) (t' : Time) (l : List Nameplate) :
    ∀ {b a : Sys}, TchRel u t m ap b a →
      TchRel u t m ap (b.uNps app t' l).1 (a.uNps app t' l).1 ∧ (a.uNps app t' l).2 = (b.uNps app t' l).2 := by
  induction l with
  | nil => intro b a h; exact ⟨h, rfl⟩
  | cons np rest ih =>
    intro b a h
    unfold Sys.uNps
    rw [h.db.npSidesOf]
    obtain ⟨h1, e1⟩ := h.uNp app (b.db.npSidesOf np.id) t' false
    cases hb : b.uNp app (b.db.npSidesOf np.id) t' false with
    | mk b1 rb =>
      cases ha : a.uNp app (b.db.npSidesOf np.id) t' false with
      | mk a1 ra =>
        rw [hb, ha] at h1 e1
        dsimp only at h1 e1
        subst e1
        cases rb with
        | false => exact ⟨h1, rfl⟩
        | true => exact ih h1

theorem TchRel.logClientVersion (h : TchRel u t m ap b a) (app side : String) (t' : Time) (i v : Option String) :
    TchRel u t m ap (b.logClientVersion app side t' i v) (a.logClientVersion app side t' i v) := by
  unfold Sys.logClientVersion
  rw [h.cfg]
  split
  · exact (h.modUdb _ _).ucommit
  · exact h

/-! ### Mailbox -/

/-- both runs refuse (`IntegrityError`), or both go on from related states -/
theorem TchRel.addMailbox (h : TchRel u t m ap b a) (app mb : String) (forNp : Bool) (t' : Time) :
    (b.addMailbox app mb forNp t' = none ∧ a.addMailbox app mb forNp t' = none) ∨
      ∃ b1 a1, b.addMailbox app mb forNp t' = some b1 ∧ a.addMailbox app mb forNp t' = some a1 ∧
        TchRel u t m ap b1 a1 := by
  unfold Sys.addMailbox
  rcases h.db.findMailbox app mb with ⟨e1, e2⟩ | ⟨rb, ra, e1, e2, _⟩
  · rw [e1, e2]
    dsimp only
    rcases h.db.findMailboxById mb with ⟨f1, f2⟩ | ⟨rb, ra, f1, f2, _⟩
    · rw [f1, f2]
      exact Or.inr ⟨_, _, rfl, rfl, h.modDb (h.db.insMailbox _)⟩
    · rw [f1, f2]
      exact Or.inl ⟨rfl, rfl⟩
  · rw [e1, e2]
    exact Or.inr ⟨_, _, rfl, rfl, h⟩

theorem TchRel.mailboxOpen (h : TchRel u t m ap b a) (mb side : String) (t' : Time) :
    TchRel u t m ap (b.mailboxOpen mb side t') (a.mailboxOpen mb side t') := by
  unfold Sys.mailboxOpen
  rw [h.db.findMbSide]
  cases b.db.findMbSide mb side with
  | none =>
    have h1 : TchRel u t m ap (b.modDb (·.insMbSide ⟨mb, true, side, t', none⟩))
        (a.modDb (·.insMbSide ⟨mb, true, side, t', none⟩)) := h.modDb (h.db.insMbSide _)
    exact (h1.modDb (h1.db.touch mb t')).commit
  | some _ => exact (h.modDb (h.db.touch mb t')).commit

theorem TchRel.openMailbox (h : TchRel u t m ap b a) (app mb side : String) (t' : Time) :
    TchRel u t m ap (b.openMailbox app mb side t').1 (a.openMailbox app mb side t').1 ∧
      (a.openMailbox app mb side t').2 = (b.openMailbox app mb side t').2 := by
  unfold Sys.openMailbox
  rcases h.addMailbox app mb false t' with ⟨e1, e2⟩ | ⟨b1, a1, e1, e2, h1⟩
  · rw [e1, e2]; exact ⟨h, rfl⟩
  · rw [e1, e2]
    dsimp only
    have h2 := (h1.mailboxOpen mb side t').commit
    rw [h2.db.mbSidesOf]
    split
    · exact ⟨h2, rfl⟩
    · exact ⟨h2, rfl⟩

theorem TchRel.addMessage (h : TchRel u t m ap b a) (app mb side : String) (ph bd : Val) (t' : Time) (id : Val) :
    TchRel u t m ap (b.addMessage app mb side ph bd t' id) (a.addMessage app mb side ph bd t' id) := by
  unfold Sys.addMessage
  have h1 : TchRel u t m ap (b.modDb (·.insMessage ⟨app, mb, side, ph.toText, bd.toText, t', id.toText⟩))
      (a.modDb (·.insMessage ⟨app, mb, side, ph.toText, bd.toText, t', id.toText⟩)) := h.modDb (h.db.insMessage _)
  exact (h1.modDb (h1.db.touch mb t')).commit

/-- `Mailbox.close` -/
theorem TchRel.mailboxClose (h : TchRel u t m ap b a) (app mb side : String) (mood : Option String) (t' : Time) :
    TchRel u t m ap (b.mailboxClose app mb side mood t').1 (a.mailboxClose app mb side mood t').1 ∧
      (a.mailboxClose app mb side mood t').2 = (b.mailboxClose app mb side mood t').2 := by
  rw [mailboxClose_eq, mailboxClose_eq]
  rcases h.db.findMailbox app mb with ⟨e1, e2⟩ | ⟨rb, ra, e1, e2, hr⟩
  · rw [e1, e2]; exact ⟨h, rfl⟩
  · rw [e1, e2]
    dsimp only
    rw [h.db.findMbSide]
    cases b.db.findMbSide mb side with
    | none => exact ⟨h, rfl⟩
    | some r =>
      dsimp only
      have h1 : TchRel u t m ap ((b.modDb (·.closeSide mb side mood)).commit) ((a.modDb (·.closeSide mb side mood)).commit) :=
        (h.modDb (h.db.closeSide mb side mood)).commit
      rw [h1.db.mbSidesOf, h1.db.nameplatesOfMailbox, hr.forNp]
      split
      · exact ⟨h1, rfl⟩
      · obtain ⟨h2, e2'⟩ := TchRel.uNps app t' (((b.modDb (·.closeSide mb side mood)).commit).db.nameplatesOfMailbox app mb) h1
        cases hb : ((b.modDb (·.closeSide mb side mood)).commit).uNps app t'
            (((b.modDb (·.closeSide mb side mood)).commit).db.nameplatesOfMailbox app mb) with
        | mk b2 rb2 =>
          cases ha : ((a.modDb (·.closeSide mb side mood)).commit).uNps app t'
              (((b.modDb (·.closeSide mb side mood)).commit).db.nameplatesOfMailbox app mb) with
          | mk a2 ra2 =>
            rw [hb, ha] at h2 e2'
            dsimp only at h2 e2'
            subst e2'
            cases rb2 with
            | false => exact ⟨h2, rfl⟩
            | true =>
              dsimp only
              have h3 := h2.modDb (h2.db.closeDeletes app mb)
              exact ⟨(((h3.uMb app rb.forNp _ t' false).uCommit).commit).stopListeners app mb, rfl⟩

end Sys
end Wormhole
