/-
  Two-run simulation for K-close-touch, part 2: every function of Core.lean preserves `Sys.TchRel`
  and returns the same result in both runs.  The only function that READS `mailboxes.updated` is
  `AppNamespace.prune`; it needs the hypothesis that the cutoff does not separate the two stamps
  (`NoSplit`) unless somebody is subscribed to the mailbox (then both rows are re-stamped first).
-/
import Wormhole.Inv.TchDefs
import Wormhole.Inv.SweepSys

namespace Wormhole
namespace Sys

variable {u t : Time} {m ap : String} {b a : Sys}

theorem TchRel.blurTime (h : TchRel u t m ap b a) : a.blurTime = b.blurTime := by
  funext x
  simp only [Sys.blurTime, Sys.blurTicks, h.cfg]

/-- the same conditional UPDATE of `updated` on related rows -/
theorem _root_.Wormhole.RowRel.ite_set {rb ra : MailboxRow} (hr : RowRel u t m ap rb ra) {P Q : Prop} [Decidable P]
    [Decidable Q] (hpq : Q ↔ P) (v : Time) :
    RowRel u t m ap (if P then { rb with updated := v } else rb) (if Q then { ra with updated := v } else ra) := by
  by_cases hp : P
  · rw [if_pos hp, if_pos (hpq.2 hp)]
    exact Or.inl (hr.set v)
  · rw [if_neg hp, if_neg (fun hq => hp (hpq.1 hq))]
    exact hr

/-! ### usage blocks -/

theorem TchRel.storeNameplateUsage (h : TchRel u t m ap b a) (app : String) (sides : List NpSide) (t' : Time)
    (p : Bool) :
    TchRel u t m ap (b.storeNameplateUsage app sides t' p).1 (a.storeNameplateUsage app sides t' p).1 ∧
      (a.storeNameplateUsage app sides t' p).2 = (b.storeNameplateUsage app sides t' p).2 := by
  unfold Sys.storeNameplateUsage
  rw [h.blurTime]
  cases summarizeNameplate b.blurTime (sides.map (·.added)) t' p with
  | none => exact ⟨h, rfl⟩
  | some s =>
    dsimp only
    exact ⟨h.modUdb _ _, rfl⟩

theorem TchRel.storeMailboxUsage (h : TchRel u t m ap b a) (app : String) (f : Bool) (sides : List MbSide) (t' : Time)
    (p : Bool) :
    TchRel u t m ap (b.storeMailboxUsage app f sides t' p) (a.storeMailboxUsage app f sides t' p) := by
  unfold Sys.storeMailboxUsage
  exact h.modUdb _ _

theorem TchRel.uNp (h : TchRel u t m ap b a) (app : String) (sides : List NpSide) (t' : Time) (p : Bool) :
    TchRel u t m ap (b.uNp app sides t' p).1 (a.uNp app sides t' p).1 ∧
      (a.uNp app sides t' p).2 = (b.uNp app sides t' p).2 := by
  unfold Sys.uNp
  rw [h.cfg]
  split
  · exact h.storeNameplateUsage app sides t' p
  · exact ⟨h, rfl⟩

theorem TchRel.uMb (h : TchRel u t m ap b a) (app : String) (f : Bool) (sides : List MbSide) (t' : Time) (p : Bool) :
    TchRel u t m ap (b.uMb app f sides t' p) (a.uMb app f sides t' p) := by
  unfold Sys.uMb
  rw [h.cfg]
  split
  · exact h.storeMailboxUsage app f sides t' p
  · exact h

theorem TchRel.uCommit (h : TchRel u t m ap b a) : TchRel u t m ap b.uCommit a.uCommit := by
  unfold Sys.uCommit
  rw [h.cfg]
  split
  · exact h.ucommit
  · exact h

theorem TchRel.uNps (app : String) (t' : Time) (l : List Nameplate) :
    ∀ {b a : Sys}, TchRel u t m ap b a →
      TchRel u t m ap (b.uNps app t' l).1 (a.uNps app t' l).1 ∧ (a.uNps app t' l).2 = (b.uNps app t' l).2 := by
  induction l with
  | nil => intro b a h; exact ⟨h, rfl⟩
  | cons np rest ih =>
    intro b a h
    unfold Sys.uNps
    rw [h.db.npSidesOf]
    obtain ⟨h1, e1⟩ := h.uNp app (b.db.npSidesOf np.id) t' false
    cases hb : b.uNp app (b.db.npSidesOf np.id) t' false with
    | mk b1 rb =>
      cases ha : a.uNp app (b.db.npSidesOf np.id) t' false with
      | mk a1 ra =>
        rw [hb, ha] at h1 e1
        dsimp only at h1 e1
        subst e1
        cases ra with
        | false => exact ⟨h1, rfl⟩
        | true => exact ih h1

theorem TchRel.logClientVersion (h : TchRel u t m ap b a) (app side : String) (t' : Time) (i v : Option String) :
    TchRel u t m ap (b.logClientVersion app side t' i v) (a.logClientVersion app side t' i v) := by
  unfold Sys.logClientVersion
  rw [h.cfg]
  split
  · exact (h.modUdb _ _).ucommit
  · exact h

/-! ### Mailbox -/

/-- both runs refuse (`IntegrityError`), or both go on from related states -/
theorem TchRel.addMailbox (h : TchRel u t m ap b a) (app mb : String) (forNp : Bool) (t' : Time) :
    (b.addMailbox app mb forNp t' = none ∧ a.addMailbox app mb forNp t' = none) ∨
      ∃ b1 a1, b.addMailbox app mb forNp t' = some b1 ∧ a.addMailbox app mb forNp t' = some a1 ∧
        TchRel u t m ap b1 a1 := by
  unfold Sys.addMailbox
  rcases h.db.findMailbox app mb with ⟨e1, e2⟩ | ⟨rb, ra, e1, e2, _⟩
  · rw [e1, e2]
    dsimp only
    rcases h.db.findMailboxById mb with ⟨f1, f2⟩ | ⟨rb, ra, f1, f2, _⟩
    · rw [f1, f2]
      exact Or.inr ⟨_, _, rfl, rfl, h.modDb (h.db.insMailbox _)⟩
    · rw [f1, f2]
      exact Or.inl ⟨rfl, rfl⟩
  · rw [e1, e2]
    exact Or.inr ⟨_, _, rfl, rfl, h⟩

theorem TchRel.mailboxOpen (h : TchRel u t m ap b a) (mb side : String) (t' : Time) :
    TchRel u t m ap (b.mailboxOpen mb side t') (a.mailboxOpen mb side t') := by
  unfold Sys.mailboxOpen
  rw [h.db.findMbSide]
  cases b.db.findMbSide mb side with
  | none =>
    have h1 : TchRel u t m ap (b.modDb (·.insMbSide ⟨mb, true, side, t', none⟩))
        (a.modDb (·.insMbSide ⟨mb, true, side, t', none⟩)) := h.modDb (h.db.insMbSide _)
    exact (h1.modDb (h1.db.touch mb t')).commit
  | some _ => exact (h.modDb (h.db.touch mb t')).commit

theorem TchRel.openMailbox (h : TchRel u t m ap b a) (app mb side : String) (t' : Time) :
    TchRel u t m ap (b.openMailbox app mb side t').1 (a.openMailbox app mb side t').1 ∧
      (a.openMailbox app mb side t').2 = (b.openMailbox app mb side t').2 := by
  unfold Sys.openMailbox
  rcases h.addMailbox app mb false t' with ⟨e1, e2⟩ | ⟨b1, a1, e1, e2, h1⟩
  · rw [e1, e2]; exact ⟨h, rfl⟩
  · rw [e1, e2]
    dsimp only
    have h2 := (h1.mailboxOpen mb side t').commit
    rw [h2.db.mbSidesOf]
    split
    · exact ⟨h2, rfl⟩
    · exact ⟨h2, rfl⟩

theorem TchRel.addMessage (h : TchRel u t m ap b a) (app mb side : String) (ph bd : Val) (t' : Time) (id : Val) :
    TchRel u t m ap (b.addMessage app mb side ph bd t' id) (a.addMessage app mb side ph bd t' id) := by
  unfold Sys.addMessage
  have h1 : TchRel u t m ap (b.modDb (·.insMessage ⟨app, mb, side, ph.toText, bd.toText, t', id.toText⟩))
      (a.modDb (·.insMessage ⟨app, mb, side, ph.toText, bd.toText, t', id.toText⟩)) := h.modDb (h.db.insMessage _)
  exact (h1.modDb (h1.db.touch mb t')).commit

/-- `Mailbox.close` -/
theorem TchRel.mailboxClose (h : TchRel u t m ap b a) (app mb side : String) (mood : Option String) (t' : Time) :
    TchRel u t m ap (b.mailboxClose app mb side mood t').1 (a.mailboxClose app mb side mood t').1 ∧
      (a.mailboxClose app mb side mood t').2 = (b.mailboxClose app mb side mood t').2 := by
  rw [mailboxClose_eq, mailboxClose_eq]
  rcases h.db.findMailbox app mb with ⟨e1, e2⟩ | ⟨rb, ra, e1, e2, hr⟩
  · rw [e1, e2]; exact ⟨h, rfl⟩
  · rw [e1, e2]
    dsimp only
    rw [h.db.findMbSide]
    cases b.db.findMbSide mb side with
    | none => exact ⟨h, rfl⟩
    | some r =>
      dsimp only
      have h1 : TchRel u t m ap ((b.modDb (·.closeSide mb side mood)).commit) ((a.modDb (·.closeSide mb side mood)).commit) :=
        (h.modDb (h.db.closeSide mb side mood)).commit
      rw [h1.db.mbSidesOf, h1.db.nameplatesOfMailbox, hr.forNp]
      split
      · exact ⟨h1, rfl⟩
      · obtain ⟨h2, e2'⟩ := TchRel.uNps app t' (((b.modDb (·.closeSide mb side mood)).commit).db.nameplatesOfMailbox app mb) h1
        cases hb : ((b.modDb (·.closeSide mb side mood)).commit).uNps app t'
            (((b.modDb (·.closeSide mb side mood)).commit).db.nameplatesOfMailbox app mb) with
        | mk b2 rb2 =>
          cases ha : ((a.modDb (·.closeSide mb side mood)).commit).uNps app t'
              (((b.modDb (·.closeSide mb side mood)).commit).db.nameplatesOfMailbox app mb) with
          | mk a2 ra2 =>
            rw [hb, ha] at h2 e2'
            dsimp only at h2 e2'
            subst e2'
            cases ra2 with
            | false => exact ⟨h2, rfl⟩
            | true =>
              dsimp only
              have h3 := h2.modDb
                (f := fun d => ((((d.delNpSidesOfMailbox app mb).delNameplatesOfMailbox app mb).delMessagesOf mb).delMbSidesOf
                  mb).delMailbox mb)
                (g := fun d => ((((d.delNpSidesOfMailbox app mb).delNameplatesOfMailbox app mb).delMessagesOf mb).delMbSidesOf
                  mb).delMailbox mb) (h2.db.closeDeletes app mb)
              exact ⟨(((h3.uMb app rb.forNp _ t' false).uCommit).commit).stopListeners app mb, rfl⟩


/-! ### AppNamespace -/

theorem TchRel.claimCont (h : TchRel u t m ap b a) (app : String) (npid : Nat) (mb side : String) (t' : Time) :
    TchRel u t m ap (claimCont b app npid mb side t').1 (claimCont a app npid mb side t').1 ∧
      (claimCont a app npid mb side t').2 = (claimCont b app npid mb side t').2 := by
  unfold Sys.claimCont
  dsimp only
  obtain ⟨h3, e3⟩ := h.commit.openMailbox app mb side t'
  cases hb : b.commit.openMailbox app mb side t' with
  | mk b3 ob =>
    cases ha : a.commit.openMailbox app mb side t' with
    | mk a3 oa =>
      rw [hb, ha] at h3 e3
      dsimp only at h3 e3
      subst e3
      cases oa with
      | integrity => exact ⟨h3, rfl⟩
      | crowded => exact ⟨h3, rfl⟩
      | ok =>
        dsimp only
        rw [h3.db.npSidesOf]
        split
        · exact ⟨h3, rfl⟩
        · exact ⟨h3, rfl⟩

theorem TchRel.claimTail (h : TchRel u t m ap b a) (app : String) (npid : Nat) (mb side : String) (t' : Time) :
    TchRel u t m ap (b.claimTail app npid mb side t').1 (a.claimTail app npid mb side t').1 ∧
      (a.claimTail app npid mb side t').2 = (b.claimTail app npid mb side t').2 := by
  rw [claimTail_eq, claimTail_eq, h.db.findNpSide]
  cases b.db.findNpSide npid side with
  | none => exact (h.modDb (h.db.insNpSide _)).claimCont app npid mb side t'
  | some r =>
    dsimp only
    split
    · exact h.claimCont app npid mb side t'
    · exact ⟨h, rfl⟩

/-- `claim_nameplate` -/
theorem TchRel.claimNameplate (h : TchRel u t m ap b a) (app name side : String) (t' : Time) (fresh : String) :
    TchRel u t m ap (b.claimNameplate app name side t' fresh).1 (a.claimNameplate app name side t' fresh).1 ∧
      (a.claimNameplate app name side t' fresh).2 = (b.claimNameplate app name side t' fresh).2 := by
  unfold Sys.claimNameplate
  rw [h.db.findNameplate]
  cases b.db.findNameplate app name with
  | some row => exact h.claimTail app row.id row.mailbox side t'
  | none =>
    dsimp only
    rcases h.addMailbox app fresh true t' with ⟨e1, e2⟩ | ⟨b1, a1, e1, e2, h1⟩
    · rw [e1, e2]; exact ⟨h, rfl⟩
    · rw [e1, e2]
      dsimp only
      rw [h1.db.next]
      exact (h1.modDb (h1.db.insNameplate app name fresh)).claimTail app _ fresh side t'

/-- `release_nameplate` -/
theorem TchRel.releaseNameplate (h : TchRel u t m ap b a) (app name side : String) (t' : Time) :
    TchRel u t m ap (b.releaseNameplate app name side t').1 (a.releaseNameplate app name side t').1 ∧
      (a.releaseNameplate app name side t').2 = (b.releaseNameplate app name side t').2 := by
  rw [releaseNameplate_eq, releaseNameplate_eq, h.db.findNameplate]
  cases b.db.findNameplate app name with
  | none => exact ⟨h, rfl⟩
  | some np =>
    dsimp only
    rw [h.db.findNpSide]
    cases b.db.findNpSide np.id side with
    | none => exact ⟨h, rfl⟩
    | some r =>
      dsimp only
      have h1 : TchRel u t m ap ((b.modDb (·.unclaim np.id side)).commit) ((a.modDb (·.unclaim np.id side)).commit) :=
        (h.modDb (h.db.unclaim np.id side)).commit
      rw [h1.db.npSidesOf]
      split
      · exact ⟨h1, rfl⟩
      · have h2 : TchRel u t m ap
            (((b.modDb (·.unclaim np.id side)).commit).modDb (fun d => (d.delNpSidesOf np.id).delNameplate np.id))
            (((a.modDb (·.unclaim np.id side)).commit).modDb (fun d => (d.delNpSidesOf np.id).delNameplate np.id)) :=
          h1.modDb (h1.db.delNp np.id)
        obtain ⟨h3, e3⟩ := h2.uNp app (((b.modDb (·.unclaim np.id side)).commit).db.npSidesOf np.id) t' false
        cases hb : (((b.modDb (·.unclaim np.id side)).commit).modDb
            (fun d => (d.delNpSidesOf np.id).delNameplate np.id)).uNp app
            (((b.modDb (·.unclaim np.id side)).commit).db.npSidesOf np.id) t' false with
        | mk b3 rb3 =>
          cases ha : (((a.modDb (·.unclaim np.id side)).commit).modDb
              (fun d => (d.delNpSidesOf np.id).delNameplate np.id)).uNp app
              (((b.modDb (·.unclaim np.id side)).commit).db.npSidesOf np.id) t' false with
          | mk a3 ra3 =>
            rw [hb, ha] at h3 e3
            dsimp only at h3 e3
            subst e3
            cases ra3 with
            | false => exact ⟨h3, rfl⟩
            | true => exact ⟨h3.uCommit.commit, rfl⟩

/-! ### prune -/

theorem TchRel.touchListened (h : TchRel u t m ap b a) (app : String) (now : Time) :
    TchRel u t m ap (b.touchListened app now) (a.touchListened app now) := by
  unfold Sys.touchListened
  refine h.modDb ⟨h.db.nps, h.db.sides, ?_, h.db.mbSides, h.db.msgs, h.db.next⟩
  apply h.db.mbs.map
  intro rb _ ra _ hr
  exact hr.ite_set (by rw [h.listeners, hr.id, hr.app]) now

theorem TchRel.pruneNameplates (app : String) (now : Time) (l : List Nameplate) :
    ∀ {b a : Sys}, TchRel u t m ap b a →
      TchRel u t m ap (b.pruneNameplates app now l).1 (a.pruneNameplates app now l).1 ∧
        (a.pruneNameplates app now l).2 = (b.pruneNameplates app now l).2 := by
  induction l with
  | nil => intro b a h; exact ⟨h, rfl⟩
  | cons np rest ih =>
    intro b a h
    rw [pruneNameplates_cons, pruneNameplates_cons, h.db.npSidesOf]
    have h1 : TchRel u t m ap (b.modDb (fun d => (d.delNpSidesOf np.id).delNameplate np.id))
        (a.modDb (fun d => (d.delNpSidesOf np.id).delNameplate np.id)) := h.modDb (h.db.delNp np.id)
    obtain ⟨h2, e2⟩ := h1.uNp app (b.db.npSidesOf np.id) now true
    cases hb : (b.modDb (fun d => (d.delNpSidesOf np.id).delNameplate np.id)).uNp app (b.db.npSidesOf np.id) now true with
    | mk b2 rb2 =>
      cases ha : (a.modDb (fun d => (d.delNpSidesOf np.id).delNameplate np.id)).uNp app (b.db.npSidesOf np.id) now true with
      | mk a2 ra2 =>
        rw [hb, ha] at h2 e2
        dsimp only at h2 e2
        subst e2
        cases ra2 with
        | false => exact ⟨h2, rfl⟩
        | true => exact ih h2

/-- the loop over `old_mailboxes`, the two lists related row by row -/
theorem TchRel.pruneMailboxes (app : String) (now : Time) :
    ∀ {lb la : List MailboxRow}, All2 (RowRel u t m ap) lb la → ∀ {b a : Sys}, TchRel u t m ap b a →
      TchRel u t m ap (b.pruneMailboxes app now lb) (a.pruneMailboxes app now la) := by
  intro lb la hl
  induction hl with
  | nil => intro b a h; exact h
  | @cons rb ra lb la hr _ ih =>
    intro b a h
    rw [pruneMailboxes_cons, pruneMailboxes_cons, hr.id, hr.forNp, h.db.mbSidesOf]
    have h1 : TchRel u t m ap (b.modDb (fun d => ((d.delMessagesOf rb.id).delMbSidesOf rb.id).delMailbox rb.id))
        (a.modDb (fun d => ((d.delMessagesOf rb.id).delMbSidesOf rb.id).delMailbox rb.id)) := h.modDb (h.db.delMb rb.id)
    exact ih (h1.uMb app rb.forNp _ now true)

/-- the cutoff `old` does not separate the two stamps -/
def NoSplit (u t old : Time) : Prop := (u ≤ old ↔ t ≤ old)

instance (u t old : Time) : Decidable (NoSplit u t old) := by unfold NoSplit; infer_instance

/-- `AppNamespace.prune`: related results when, for the app of the distinguished mailbox, either somebody is
    subscribed to it (both rows are re-stamped by the touch loop) or the cutoff does not separate `u` and `t` -/
theorem TchRel.prune (h : TchRel u t m ap b a) (app : String) (now old : Time)
    (hns : app = ap → b.listeners ap m ≠ [] ∨ NoSplit u t old) :
    TchRel u t m ap (b.prune app now old).1 (a.prune app now old).1 ∧
      (a.prune app now old).2 = (b.prune app now old).2 := by
  rw [prune_eq, prune_eq, pruneRest_eq, pruneRest_eq]
  dsimp only
  have h1 : TchRel u t m ap ((b.touchListened app now).commit) ((a.touchListened app now).commit) :=
    (h.touchListened app now).commit
  -- the two `old_mailboxes` lists are related
  have hold : All2 (RowRel u t m ap)
      ((((b.touchListened app now).commit).db.mailboxesOfApp app).filter (fun r => ¬ r.updated > old))
      ((((a.touchListened app now).commit).db.mailboxesOfApp app).filter (fun r => ¬ r.updated > old)) := by
    simp only [commit_db]
    unfold Sys.touchListened Chan.mailboxesOfApp
    simp only [modDb_db, List.filter_filter]
    rw [List.filter_map, List.filter_map]
    apply All2.map
    · apply h.db.mbs.filter
      intro rb _ ra _ hr
      simp only [Function.comp_apply, h.listeners, hr.id, hr.app]
      rcases hr with rfl | ⟨e1, e2, e3, rfl⟩
      · rfl
      · by_cases hc : rb.app = app ∧ b.listeners app rb.id ≠ []
        · simp only [hc, and_self, ne_eq, not_false_eq_true, if_true]
        · simp only [hc, if_false]
          by_cases happ : rb.app = app
          · have hl : b.listeners app rb.id = [] := by
              by_cases hl : b.listeners app rb.id = []
              · exact hl
              · exact absurd ⟨happ, hl⟩ hc
            have := hns (happ.symm.trans e2)
            rw [← e2, happ, ← e1, hl] at this
            rcases this with h' | h'
            · exact absurd rfl h'
            · unfold NoSplit at h'
              simp only [happ, e3, Int.not_lt, decide_true, Bool.and_true, gt_iff_lt]
              exact decide_eq_decide.2 h'
          · simp [happ]
    · intro rb hb ra _ hr
      exact hr.ite_set (by rw [h.listeners, hr.id, hr.app]) now
  have hnpl : (((a.touchListened app now).commit).db.nameplatesOfApp app).filter
        (fun r => r.mailbox ∈ ((((a.touchListened app now).commit).db.mailboxesOfApp app).filter
          (fun r => ¬ r.updated > old)).map (·.id)) =
      (((b.touchListened app now).commit).db.nameplatesOfApp app).filter
        (fun r => r.mailbox ∈ ((((b.touchListened app now).commit).db.mailboxesOfApp app).filter
          (fun r => ¬ r.updated > old)).map (·.id)) := by
    rw [h1.db.nameplatesOfApp, (hold.map_eq (·.id) (·.id) (fun _ _ _ _ hr => hr.id.symm))]
  rw [hnpl]
  obtain ⟨h2, e2⟩ := TchRel.pruneNameplates app now
    ((((b.touchListened app now).commit).db.nameplatesOfApp app).filter
      (fun r => r.mailbox ∈ ((((b.touchListened app now).commit).db.mailboxesOfApp app).filter
        (fun r => ¬ r.updated > old)).map (·.id))) h1
  cases hb : ((b.touchListened app now).commit).pruneNameplates app now
      ((((b.touchListened app now).commit).db.nameplatesOfApp app).filter
        (fun r => r.mailbox ∈ ((((b.touchListened app now).commit).db.mailboxesOfApp app).filter
          (fun r => ¬ r.updated > old)).map (·.id))) with
  | mk b2 rb2 =>
    cases ha : ((a.touchListened app now).commit).pruneNameplates app now
        ((((b.touchListened app now).commit).db.nameplatesOfApp app).filter
          (fun r => r.mailbox ∈ ((((b.touchListened app now).commit).db.mailboxesOfApp app).filter
            (fun r => ¬ r.updated > old)).map (·.id))) with
    | mk a2 ra2 =>
      rw [hb, ha] at h2 e2
      dsimp only at h2 e2
      subst e2
      cases ra2 with
      | false => exact ⟨h2, rfl⟩
      | true =>
        dsimp only
        have h3 := TchRel.pruneMailboxes app now hold h2
        have hnil : ((((a.touchListened app now).commit).db.mailboxesOfApp app).filter (fun r => ¬ r.updated > old)) ≠ [] ↔
            ((((b.touchListened app now).commit).db.mailboxesOfApp app).filter (fun r => ¬ r.updated > old)) ≠ [] := by
          have := hold.length_eq
          constructor
          · intro h' e; rw [e] at this; exact h' (List.eq_nil_of_length_eq_zero this.symm)
          · intro h' e; rw [e] at this; exact h' (List.eq_nil_of_length_eq_zero this)
        simp only [hnil]
        split
        · exact ⟨h3.commit.uCommit, rfl⟩
        · exact ⟨h3, rfl⟩

theorem tch_uNp_conns (s : Sys) (app sides t' p) : (s.uNp app sides t' p).1.conns = s.conns := by
  unfold Sys.uNp
  split
  · exact (storeNameplateUsage_fixed s app sides t' p).1.conns
  · rfl

theorem tch_pruneNameplates_conns (app : String) (now : Time) (l : List Nameplate) :
    ∀ s : Sys, (s.pruneNameplates app now l).1.conns = s.conns := by
  induction l with
  | nil => intro s; rfl
  | cons np rest ih =>
    intro s
    rw [pruneNameplates_cons]
    have h1 := tch_uNp_conns (s.modDb (fun d => (d.delNpSidesOf np.id).delNameplate np.id)) app (s.db.npSidesOf np.id) now true
    cases e : (s.modDb (fun d => (d.delNpSidesOf np.id).delNameplate np.id)).uNp app (s.db.npSidesOf np.id) now true with
    | mk s2 r =>
      rw [e] at h1
      cases r with
      | false => exact h1
      | true => dsimp only; rw [ih s2]; exact h1

theorem prune_conns (s : Sys) (app : String) (now old : Time) : (s.prune app now old).1.conns = s.conns := by
  rw [prune_eq, pruneRest_eq]
  dsimp only
  have h1 := tch_pruneNameplates_conns app now
    ((((s.touchListened app now).commit).db.nameplatesOfApp app).filter
      (fun r => r.mailbox ∈ ((((s.touchListened app now).commit).db.mailboxesOfApp app).filter
        (fun r => ¬ r.updated > old)).map (·.id))) ((s.touchListened app now).commit)
  cases e : ((s.touchListened app now).commit).pruneNameplates app now
    ((((s.touchListened app now).commit).db.nameplatesOfApp app).filter
      (fun r => r.mailbox ∈ ((((s.touchListened app now).commit).db.mailboxesOfApp app).filter
        (fun r => ¬ r.updated > old)).map (·.id))) with
  | mk s2 r =>
    rw [e] at h1
    have h0 : ((s.touchListened app now).commit).conns = s.conns := by simp [Sys.touchListened]
    cases r with
    | false => exact h1.trans h0
    | true =>
      dsimp only
      have h3 := (sw_pruneMailboxes_db (app := app) (now := now)
        ((((s.touchListened app now).commit).db.mailboxesOfApp app).filter (fun r => ¬ r.updated > old)) s2).2.conns
      split
      · simp only [Sys.uCommit]
        split
        · simp only [ucommit_conns, commit_conns]; exact h3.trans (h1.trans h0)
        · simp only [commit_conns]; exact h3.trans (h1.trans h0)
      · exact h3.trans (h1.trans h0)

theorem TchRel.pruneApps (now old : Time) (l : List String) :
    ∀ {b a : Sys}, TchRel u t m ap b a → (b.listeners ap m ≠ [] ∨ NoSplit u t old) →
      TchRel u t m ap (b.pruneApps now old l).1 (a.pruneApps now old l).1 ∧
        (a.pruneApps now old l).2 = (b.pruneApps now old l).2 := by
  induction l with
  | nil => intro b a h _; exact ⟨h, rfl⟩
  | cons app rest ih =>
    intro b a h hns
    unfold Sys.pruneApps
    obtain ⟨h1, e1⟩ := h.prune app now old (fun _ => hns)
    have hc := prune_conns b app now old
    cases hb : b.prune app now old with
    | mk b1 rb1 =>
      cases ha : a.prune app now old with
      | mk a1 ra1 =>
        rw [hb, ha] at h1 e1
        rw [hb] at hc
        dsimp only at h1 e1 hc
        subst e1
        cases ra1 with
        | false => exact ⟨h1, rfl⟩
        | true =>
          refine ih h1 ?_
          simp only [Sys.listeners, hc]
          exact hns

theorem TchRel.allApps (h : TchRel u t m ap b a) : a.allApps = b.allApps := by
  unfold Sys.allApps
  rw [h.db.nps, h.db.mbApps, h.db.msgs]

theorem TchRel.dumpStats (h : TchRel u t m ap b a) (now : Time) :
    TchRel u t m ap (b.dumpStats now) (a.dumpStats now) := by
  unfold Sys.dumpStats
  rw [h.cfg]
  split
  · exact (h.modUdb _ _).ucommit
  · exact h

/-- one firing of `expire()` -/
theorem TchRel.expire (h : TchRel u t m ap b a) (now : Time) (fault : Bool)
    (hns : fault = false → b.listeners ap m ≠ [] ∨ NoSplit u t (now - Generated.expirationTicks)) :
    TchRel u t m ap (b.expire now fault) (a.expire now fault) := by
  unfold Sys.expire
  dsimp only
  have h0 := h.emit (.fired now (now - Generated.expirationTicks))
  cases fault with
  | true => exact (h0.emit _).dumpStats now
  | false =>
    simp only [Bool.false_eq_true, if_false]
    rw [h0.allApps]
    obtain ⟨h1, e1⟩ := TchRel.pruneApps now (now - Generated.expirationTicks)
      (b.emit (.fired now (now - Generated.expirationTicks))).allApps h0 (hns rfl)
    cases hb : (b.emit (.fired now (now - Generated.expirationTicks))).pruneApps now
        (now - Generated.expirationTicks) (b.emit (.fired now (now - Generated.expirationTicks))).allApps with
    | mk b1 rb1 =>
      cases ha : (a.emit (.fired now (now - Generated.expirationTicks))).pruneApps now
          (now - Generated.expirationTicks) (b.emit (.fired now (now - Generated.expirationTicks))).allApps with
      | mk a1 ra1 =>
        rw [hb, ha] at h1 e1
        dsimp only at h1 e1
        subst e1
        cases ra1 with
        | true => exact h1.dumpStats now
        | false => exact (h1.emit _).dumpStats now

end Sys
end Wormhole
