/-
  A subscription is kept by every operation that is not the subscriber's own drop / close, a
  restart, a crash or somebody's `close`: `Sys.Holds s c a mb` ("connection `c` is subscribed to
  mailbox `mb` of app `a`, whose row exists") is preserved by `Sys.step`.
  Used by `C12_connected_mixed` (Props/C12.lean).  Built on the connection lemmas and the
  `AllDb` calculus of Inv/MsgDb.lean.
-/
import Wormhole.Inv.MsgDb
import Wormhole.Inv.SweepRows

namespace Wormhole

/-- the operations that cannot end the subscription of connection `c`: everything except its
    own `drop`, any `close` command, a restart and a crash -/
def Op.harmlessFor (c : Nat) : Op → Bool
  | .connect _ => true
  | .recv _ _ _ (.close _ _) => false
  | .recv _ _ _ _ => true
  | .drop c' => decide (c' ≠ c)
  | .sweep _ _ => true
  | .restart _ => false
  | .crashIn _ _ => false

namespace Sys

/-- connection `c` is subscribed to mailbox `mb` of app `a`, and the mailbox row exists -/
structure Holds (s : Sys) (c : Nat) (a mb : String) : Prop where
  sub : ∃ y ∈ s.conns, y.id = c ∧ y.listening = true ∧ y.app = some a ∧ y.mailbox = some mb
  key : (a, mb) ∈ s.db.mbKeys

instance (s : Sys) (c : Nat) (a mb : String) : Decidable (s.Holds c a mb) :=
  decidable_of_iff ((∃ y ∈ s.conns, y.id = c ∧ y.listening = true ∧ y.app = some a ∧ y.mailbox = some mb) ∧
    (a, mb) ∈ s.db.mbKeys) ⟨fun h => ⟨h.1, h.2⟩, fun h => ⟨h.1, h.2⟩⟩

theorem mem_mbKeys_iff {d : Chan} {a mb : String} :
    (a, mb) ∈ d.mbKeys ↔ ∃ r ∈ d.mailboxes, r.id = mb ∧ r.app = a := by
  simp only [Chan.mbKeys, List.mem_map, Prod.mk.injEq]
  constructor
  · rintro ⟨r, hr, e1, e2⟩; exact ⟨r, hr, e2, e1⟩
  · rintro ⟨r, hr, e1, e2⟩; exact ⟨r, hr, e2, e1⟩

section
variable {c : Nat} {a mb : String}

/-- the database half of `Holds` -/
def KeyP (a mb : String) : Chan → Prop := fun d => (a, mb) ∈ d.mbKeys

theorem growClosed_key : Chan.GrowClosed (KeyP a mb) := by
  intro d d' h g
  obtain ⟨extra, e⟩ := g.keys
  show (a, mb) ∈ d'.mbKeys
  rw [e]; exact List.mem_append_left _ h

theorem Holds.of_eq {s s' : Sys} (h : s.Holds c a mb) (h1 : s'.conns = s.conns) (h2 : KeyP a mb s'.db) :
    s'.Holds c a mb := ⟨by rw [h1]; exact h.sub, h2⟩

theorem Holds.same {s s' : Sys} (h : s.Holds c a mb) (h1 : s'.conns = s.conns) (h2 : s'.db = s.db) :
    s'.Holds c a mb := h.of_eq h1 (by show (a, mb) ∈ s'.db.mbKeys; rw [h2]; exact h.key)

theorem Holds.send {s : Sys} (h : s.Holds c a mb) (i f) : (s.send i f).Holds c a mb := h.same rfl rfl
theorem Holds.sendError {s : Sys} (h : s.Holds c a mb) (i t) : (s.sendError i t).Holds c a mb := h.same rfl rfl
theorem Holds.internalErr {s : Sys} (h : s.Holds c a mb) (i t) : (s.internalErr i t).Holds c a mb :=
  h.same rfl rfl

theorem Holds.updConn_ne {s : Sys} (h : s.Holds c a mb) {i : Nat} (hne : i ≠ c) (f : Conn → Conn) :
    (s.updConn i f).Holds c a mb := by
  refine ⟨?_, h.key⟩
  obtain ⟨y, hy, e, k⟩ := h.sub
  refine ⟨y, ?_, e, k⟩
  simp only [updConn, List.mem_map]
  exact ⟨y, hy, by simp [e, Ne.symm hne]⟩

/-- an update of flags that are not part of the subscription -/
theorem Holds.updConn_pres {s : Sys} (h : s.Holds c a mb) (i : Nat) {f : Conn → Conn}
    (hf : ∀ y : Conn, (f y).id = y.id ∧ (f y).listening = y.listening ∧ (f y).app = y.app ∧
      (f y).mailbox = y.mailbox) : (s.updConn i f).Holds c a mb := by
  refine ⟨?_, h.key⟩
  obtain ⟨y, hy, e, k1, k2, k3⟩ := h.sub
  by_cases hi : y.id = i
  · refine ⟨f y, ?_, ?_, ?_, ?_, ?_⟩
    · simp only [updConn, List.mem_map]; exact ⟨y, hy, by simp [hi]⟩
    · rw [(hf y).1]; exact e
    · rw [(hf y).2.1]; exact k1
    · rw [(hf y).2.2.1]; exact k2
    · rw [(hf y).2.2.2]; exact k3
  · refine ⟨y, ?_, e, k1, k2, k3⟩
    simp only [updConn, List.mem_map]; exact ⟨y, hy, by simp [hi]⟩

theorem foldl_send_conns {α : Type} (g : α → Nat) (fr : α → Frame) (l : List α) :
    ∀ s : Sys, (l.foldl (fun s a => s.send (g a) (fr a)) s).conns = s.conns ∧
      (l.foldl (fun s a => s.send (g a) (fr a)) s).db = s.db := by
  induction l with
  | nil => intro s; exact ⟨rfl, rfl⟩
  | cons x l ih => intro s; simp only [List.foldl_cons]; exact ⟨(ih _).1, (ih _).2⟩

theorem Holds.broadcast {s : Sys} (h : s.Holds c a mb) (app m f) : (s.broadcast app m f).Holds c a mb :=
  h.same (foldl_send_conns (fun i => i) (fun _ => f) _ s).1 (foldl_send_conns (fun i => i) (fun _ => f) _ s).2

theorem Holds.replay {s : Sys} (h : s.Holds c a mb) (i app m) : (s.replay i app m).Holds c a mb :=
  h.same (foldl_send_conns (fun _ => i) (fun r : Message => .message r.side r.phase r.body r.rx r.msgId) _ s).1
    (foldl_send_conns (fun _ => i) (fun r : Message => .message r.side r.phase r.body r.rx r.msgId) _ s).2

theorem Holds.claimNameplate {s : Sys} (h : s.Holds c a mb) (app name side t fresh) :
    (s.claimNameplate app name side t fresh).1.Holds c a mb :=
  h.of_eq (claimNameplate_conns s app name side t fresh)
    ((AllDb.dbOnly (P := KeyP a mb) h.key).claimNameplate growClosed_key).db

theorem Holds.releaseNameplate {s : Sys} (h : s.Holds c a mb) (app name side t) :
    (s.releaseNameplate app name side t).1.Holds c a mb :=
  h.of_eq (releaseNameplate_conns s app name side t)
    ((AllDb.dbOnly (P := KeyP a mb) h.key).releaseNameplate growClosed_key.same).db

theorem Holds.openMailbox {s : Sys} (h : s.Holds c a mb) (app m side t) :
    (s.openMailbox app m side t).1.Holds c a mb :=
  h.of_eq (openMailbox_conns s app m side t)
    ((AllDb.dbOnly (P := KeyP a mb) h.key).openMailbox growClosed_key).db

theorem Holds.addMessage {s : Sys} (h : s.Holds c a mb) (app m side ph bd t id) :
    (s.addMessage app m side ph bd t id).Holds c a mb := by
  refine h.of_eq (by simp [Sys.addMessage]) ?_
  show (a, mb) ∈ (s.addMessage app m side ph bd t id).db.mbKeys
  have : (s.addMessage app m side ph bd t id).db.mpart.2 = s.db.mpart.2 := by
    simp [Sys.addMessage, Chan.mpart]
    have := Chan.mpart_touch (s.db.insMessage ⟨app, m, side, ph.toText, bd.toText, t, id.toText⟩) m t
    simp only [Chan.mpart, Prod.mk.injEq] at this
    exact this.2
  simp only [Chan.mpart] at this
  rw [this]; exact h.key

/-! ### the handlers other than `close` -/

variable {s : Sys} {x : Conn}

/-- what we know about the record the handler works on: if it is `c`'s, it is the subscribed one -/
def IsSub (x : Conn) (c : Nat) (a mb : String) : Prop :=
  x.id = c → x.listening = true ∧ x.app = some a ∧ x.mailbox = some mb

theorem Holds.handlePing (h : s.Holds c a mb) (i v) : (s.handlePing i v).Holds c a mb := by
  unfold Sys.handlePing; split
  · exact h.sendError _ _
  · exact h.send _ _

theorem Holds.handleBind (h : s.Holds c a mb) (hx : IsSub x c a mb) (t app side impl version) :
    (s.handleBind x t app side impl version).Holds c a mb := by
  unfold Sys.handleBind
  split
  · exact h.sendError _ _
  · rename_i hnb
    have hne : x.id ≠ c := by
      intro e
      apply hnb
      left
      rw [(hx e).2.1]; rfl
    split
    · exact h.sendError _ _
    · split
      · exact h.sendError _ _
      · exact Holds.same (h.updConn_ne hne _) (logClientVersion_conns _ _ _ _ _ _) (logClientVersion_db _ _ _ _ _ _)

theorem Holds.handleList (h : s.Holds c a mb) (app) : (s.handleList x app).Holds c a mb := h.send _ _

theorem Holds.handleAllocate (h : s.Holds c a mb) (app side t pick draws fresh) :
    (s.handleAllocate x app side t pick draws fresh).Holds c a mb := by
  unfold Sys.handleAllocate
  split
  · exact h.sendError _ _
  · split
    · exact h.internalErr _ _
    · rename_i name _
      have h1 := h.claimNameplate app name side t fresh
      split <;> rename_i heq <;> rw [heq] at h1
      · refine Holds.send ?_ _ _
        exact h1.updConn_pres _ (fun y => ⟨rfl, rfl, rfl, rfl⟩)
      · exact h1.internalErr _ _
      · exact h1.internalErr _ _
      · exact h1.internalErr _ _

theorem Holds.handleClaim (h : s.Holds c a mb) (app side t n fresh) :
    (s.handleClaim x app side t n fresh).Holds c a mb := by
  unfold Sys.handleClaim
  split
  · exact h.sendError _ _
  · rename_i name
    split
    · exact h.sendError _ _
    · have h0 : (s.updConn x.id (fun y => { y with didClaim := true, nameplateId := some name })).Holds c a mb :=
        h.updConn_pres _ (fun y => ⟨rfl, rfl, rfl, rfl⟩)
      have h1 := h0.claimNameplate app name side t fresh
      simp only []
      split <;> rename_i heq <;> rw [heq] at h1
      · exact h1.send _ _
      · exact h1.sendError _ _
      · exact h1.sendError _ _
      · exact h1.internalErr _ _

theorem Holds.handleRelease (h : s.Holds c a mb) (app side t n) :
    (s.handleRelease x app side t n).Holds c a mb := by
  unfold Sys.handleRelease
  have go : ∀ name, (match (s.updConn x.id (fun y => { y with didRelease := true })).releaseNameplate app name side t with
      | (s1, true) => s1.send x.id .released
      | (s1, false) => s1.internalErr x.id "IndexError").Holds c a mb := by
    intro name
    have h0 : (s.updConn x.id (fun y => { y with didRelease := true })).Holds c a mb :=
      h.updConn_pres _ (fun y => ⟨rfl, rfl, rfl, rfl⟩)
    have h1 := h0.releaseNameplate app name side t
    split <;> rename_i heq <;> rw [heq] at h1
    · exact h1.send _ _
    · exact h1.internalErr _ _
  split
  · exact h.sendError _ _
  · simp only []
    split
    · split
      · exact h.sendError _ _
      · exact go _
    · exact go _
    · exact go _
    · exact h.sendError _ _

theorem Holds.handleOpen (h : s.Holds c a mb) (hx : IsSub x c a mb) (app side t m) :
    (s.handleOpen x app side t m).Holds c a mb := by
  unfold Sys.handleOpen
  split
  · exact h.sendError _ _
  · rename_i hno
    have hne : x.id ≠ c := by
      intro e
      apply hno
      rw [(hx e).2.2]; rfl
    split
    · exact h.sendError _ _
    · rename_i m'
      have h0 : (s.updConn x.id (fun y => { y with mailboxId := some m' })).Holds c a mb := h.updConn_ne hne _
      have h1 := h0.openMailbox app m' side t
      simp only []
      split <;> rename_i heq <;> rw [heq] at h1
      · exact h1.sendError _ _
      · exact h1.internalErr _ _
      · exact (h1.updConn_ne hne _).replay _ _ _

theorem Holds.handleAdd (h : s.Holds c a mb) (app side t id ph bd) :
    (s.handleAdd x app side t id ph bd).Holds c a mb := by
  unfold Sys.handleAdd
  split
  · exact h.sendError _ _
  · split
    · exact h.sendError _ _
    · split
      · exact h.sendError _ _
      · exact (h.addMessage _ _ _ _ _ _ _).broadcast _ _ _

/-- unique connection ids: the record `findConn c` returns is the subscribed one -/
theorem Holds.isSub (h : s.Holds c a mb) (hids : s.conns.Pairwise (fun p q => ¬ p.id = q.id)) {i : Nat}
    (hx : s.findConn i = some x) : IsSub x c a mb := by
  intro e
  obtain ⟨y, hy, e', k⟩ := h.sub
  have hxm : x ∈ s.conns := List.mem_of_find?_eq_some hx
  have : x = y := Chan.eq_of_pairwise_ne (f := Conn.id) hids hxm hy (e.trans e'.symm)
  subst this; exact k

/-- every command other than `close` keeps the subscription -/
theorem Holds.onMessage (h : s.Holds c a mb) (hids : s.conns.Pairwise (fun p q => ¬ p.id = q.id))
    (i : Nat) (t : Time) (id : Val) {cmd : Cmd} (hcmd : ∀ m mood, cmd ≠ .close m mood) :
    (s.onMessage i t id cmd).Holds c a mb := by
  unfold Sys.onMessage
  split
  · exact h
  · rename_i x hx
    have hsub : IsSub x c a mb := h.isSub hids hx
    split
    · exact h.sendError _ _
    · simp only []
      have h' := h.send i (.ack id)
      split
      · exact h'.handlePing _ _
      · exact h'.handleBind hsub _ _ _ _ _
      · split
        · exact h'.sendError _ _
        · split
          · exact h'.handleList _
          · exact h'.handleAllocate _ _ _ _ _ _
          · exact h'.handleClaim _ _ _ _ _
          · exact h'.handleRelease _ _ _ _
          · exact h'.handleOpen hsub _ _ _ _
          · exact h'.handleAdd _ _ _ _ _ _
          · exact absurd rfl (hcmd _ _)
          · exact h'.sendError _ _

end


/-! ### a `close` by another connection -/

section close
variable {c : Nat} {a mb : String}

/-- the subscription is intact, or the mailbox row is gone -/
def HoldsOrGone (s : Sys) (c : Nat) (a mb : String) : Prop :=
  s.Holds c a mb ∨ ∀ k ∈ s.db.mbKeys, ¬ k.2 = mb

theorem HoldsOrGone.same {s s' : Sys} (h : s.HoldsOrGone c a mb) (h1 : s'.conns = s.conns) (h2 : s'.db = s.db) :
    s'.HoldsOrGone c a mb := by
  rcases h with h | h
  · exact .inl (h.same h1 h2)
  · exact .inr (by rw [h2]; exact h)

theorem HoldsOrGone.updConn_ne {s : Sys} (h : s.HoldsOrGone c a mb) {i : Nat} (hne : i ≠ c) (f : Conn → Conn) :
    (s.updConn i f).HoldsOrGone c a mb := by
  rcases h with h | h
  · exact .inl (h.updConn_ne hne f)
  · exact .inr h

theorem delClosed_key : Chan.DelClosed (fun _ m' => ¬ m' = mb) (KeyP a mb) := by
  rintro d d' h ⟨dead, sh, hok⟩
  show (a, mb) ∈ d'.mbKeys
  rw [sh.keys, List.mem_filter]
  refine ⟨h, ?_⟩
  simp only [decide_eq_true_eq]
  intro hd
  exact hok (a, mb) h hd rfl

/-- `Mailbox.close` on a state where `c` is subscribed to `(a, mb)` -/
theorem Holds.mailboxClose {s : Sys} (h : s.Holds c a mb) (app tgt side mood t) :
    (s.mailboxClose app tgt side mood t).1.HoldsOrGone c a mb := by
  by_cases e : tgt = mb
  · subst e
    rcases mailboxClose_conns s app tgt side mood t with ⟨h1, h2⟩ | ⟨_, _, h3⟩
    · refine .inl (h.of_eq h1 ?_)
      show (a, tgt) ∈ (s.mailboxClose app tgt side mood t).1.db.mbKeys
      simp only [Chan.mpart, Prod.mk.injEq] at h2
      rw [h2.2]; exact h.key
    · exact .inr h3
  · left
    refine ⟨?_, ((AllDb.dbOnly (P := KeyP a mb) h.key).mailboxClose delClosed_key (fun _ => e)).db⟩
    obtain ⟨y, hy, k0, k1, k2, k3⟩ := h.sub
    rcases mailboxClose_conns s app tgt side mood t with ⟨h1, _⟩ | ⟨h1, _, _⟩
    · rw [h1]; exact ⟨y, hy, k0, k1, k2, k3⟩
    · rw [h1]
      refine ⟨y, ?_, k0, k1, k2, k3⟩
      simp only [stopListeners, List.mem_map]
      refine ⟨y, hy, ?_⟩
      have : ¬ (y.listening = true ∧ y.app = some app ∧ y.mailbox = some tgt) := by
        rintro ⟨_, _, e3⟩
        rw [k3] at e3
        exact e (Option.some.inj e3).symm
      simp [this]

theorem Holds.handleClose {s : Sys} {x : Conn} (h : s.Holds c a mb) (hne : x.id ≠ c) (app side t m mood) :
    (s.handleClose x app side t m mood).HoldsOrGone c a mb := by
  have hgo : ∀ tgt, HoldsOrGone
      (match (match x.mailbox with
          | some h => (s, OpenRes.ok, h)
          | none =>
            match s.openMailbox app tgt side t with
            | (s1, r) =>
              (s1.updConn x.id (fun y => if r = .ok then { y with mailbox := some tgt } else y), r, tgt)
          : Sys × OpenRes × String) with
      | (s1, .crowded, _) => s1.sendError x.id "crowded"
      | (s1, .integrity, _) => s1.internalErr x.id "IntegrityError"
      | (s1, .ok, h) =>
        match (s1.updConn x.id (fun y => { y with listening := false, didClose := true })).mailboxClose
            app h side mood t with
        | (s3, false) => s3.internalErr x.id "IndexError"
        | (s3, true) => (s3.updConn x.id (fun y => { y with mailbox := none })).send x.id .closed) c a mb := by
    intro tgt
    have hop : ∀ s1 r h', (match x.mailbox with
          | some h => (s, OpenRes.ok, h)
          | none =>
            match s.openMailbox app tgt side t with
            | (s1, r) =>
              (s1.updConn x.id (fun y => if r = .ok then { y with mailbox := some tgt } else y), r, tgt)
          : Sys × OpenRes × String) = (s1, r, h') → s1.Holds c a mb := by
      intro s1 r h' heq
      split at heq
      · cases heq; exact h
      · split at heq
        rename_i s1' r' hom
        cases heq
        have := h.openMailbox app tgt side t
        rw [hom] at this
        exact this.updConn_ne hne _
    split <;> rename_i heq <;> have h1 := hop _ _ _ heq
    · exact .inl (h1.sendError _ _)
    · exact .inl (h1.internalErr _ _)
    · rename_i _ s1 hh
      have hc := (h1.updConn_ne hne (fun y => { y with listening := false, didClose := true })).mailboxClose
        app hh side mood t
      split <;> rename_i heq2 <;> rw [heq2] at hc
      · exact hc.same rfl rfl
      · exact (hc.updConn_ne hne _).same rfl rfl
  unfold Sys.handleClose
  split
  · exact .inl (h.sendError _ _)
  · simp only []
    split
    · split
      · exact .inl (h.sendError _ _)
      · exact hgo _
    · exact hgo _
    · exact hgo _
    · exact .inl (h.sendError _ _)

/-- **a `close` sent on ANOTHER connection** either leaves `c`'s subscription and the mailbox row
    intact, or it deleted the mailbox: no row with that id is left -/
theorem Holds.step_close {s : Sys} {c : Nat} {a mb : String} (h : s.Holds c a mb) {i : Nat} (hi : i ≠ c)
    (t : Time) (id : Val) (m mood : Option String) :
    (s.step (.recv i t id (.close m mood))).HoldsOrGone c a mb := by
  have h0 : ({ s with out := [], snaps := [] } : Sys).Holds c a mb := ⟨h.sub, h.key⟩
  show (({ s with out := [], snaps := [] } : Sys).onMessage i t id (.close m mood)).HoldsOrGone c a mb
  unfold Sys.onMessage
  split
  · exact .inl h0
  · rename_i x hx
    have hxi : x.id = i := by simpa using List.find?_some hx
    simp only []
    split
    · exact .inl ((h0.send _ _).sendError _ _)
    · exact (h0.send i (.ack id)).handleClose (by rw [hxi]; exact hi) _ _ _ _ _

end close

/-! ### every harmless operation -/

/-- **a subscription is kept by every harmless operation**: from a state satisfying the sweep
    invariant, after any operation other than the subscriber's drop, a `close` command, a restart
    or a crash, connection `c` is still subscribed to `(a, mb)` and the row still exists -/
theorem Holds.step {s : Sys} (hI : s.SwInv) {c : Nat} {a mb : String} (h : s.Holds c a mb) {op : Op}
    (hop : op.harmlessFor c = true) : (s.step op).Holds c a mb := by
  have h0 : ({ s with out := [], snaps := [] } : Sys).Holds c a mb := ⟨h.sub, h.key⟩
  cases op with
  | connect i =>
    refine ⟨?_, h.key⟩
    obtain ⟨y, hy, k⟩ := h.sub
    exact ⟨y, by simp [Sys.step, Sys.stepPlain, Sys.connect, Sys.send, Sys.emit, hy], k⟩
  | recv i t id cmd =>
    show (({ s with out := [], snaps := [] } : Sys).onMessage i t id cmd).Holds c a mb
    apply h0.onMessage hI.conn.ids
    intro m mood e
    subst e
    simp [Op.harmlessFor] at hop
  | drop i =>
    simp only [Op.harmlessFor, decide_eq_true_eq] at hop
    refine ⟨?_, h.key⟩
    obtain ⟨y, hy, e, k⟩ := h.sub
    refine ⟨y, ?_, e, k⟩
    simp only [Sys.step, Sys.stepPlain, Sys.dropConn, List.mem_filter, decide_not, Bool.not_eq_eq_eq_not,
      Bool.not_true, decide_eq_false_iff_not]
    exact ⟨hy, by rw [e]; exact fun e' => hop e'.symm⟩
  | sweep now fault =>
    obtain ⟨r, hr, e1, e2⟩ := mem_mbKeys_iff.1 h.key
    obtain ⟨y, hy, e, k1, k2, k3⟩ := h.sub
    have hl : s.listened r.app r.id = true := listened_iff.2 ⟨y, hy, k1, by rw [k2, e2], by rw [k3, e1]⟩
    cases fault with
    | true =>
      obtain ⟨hd, hf⟩ := step_sweep_fault s now
      exact ⟨by rw [hf.conns]; exact ⟨y, hy, e, k1, k2, k3⟩, by rw [hd]; exact h.key⟩
    | false =>
      obtain ⟨hd, hf⟩ := step_sweep_spec hI.cinv now
      refine ⟨by rw [hf.conns]; exact ⟨y, hy, e, k1, k2, k3⟩, ?_⟩
      rw [hd, mem_mbKeys_iff]
      have hnd : Chan.dead (fun _ => true) s.listened (now - Generated.expirationTicks) r = false := by
        simp [Chan.dead, hl]
      exact ⟨_, (Chan.sweepP_keep hI.cinv.toPInv hr hnd).1, by simpa using e1, by simpa using e2⟩
  | restart t => simp [Op.harmlessFor] at hop
  | crashIn k op => simp [Op.harmlessFor] at hop

end Sys
end Wormhole
