/-
  Exact step specifications of the two nameplate functions of the model
  (`Sys.claimNameplate`, `Sys.releaseNameplate`), and the bookkeeping of COMMIT POINTS.

  Part 1 (`DbAll`): a step leaves behind, besides its final state, the states it committed on
  the way (`Sys.snaps`, the places a crash can cut it).  `DbAll P s` says that the committed
  state and every snapshot of the current step satisfy `P`; for every function of `Core.lean`
  we record at which database values it commits.

  Part 2: the final database of `claimNameplate` / `releaseNameplate`, case by case, as an
  explicit expression of the initial one (used by Props/C03.lean and Props/C07.lean).
-/
import Wormhole.Inv.SyncLemmas

namespace Wormhole
namespace Sys.Np

/-! ## Part 1: commit points -/

/-- the committed channel database and every snapshot taken in the current step satisfy `P` -/
def DbAll (P : Chan → Prop) (s : Sys) : Prop := P s.disk ∧ ∀ p ∈ s.snaps, P p.1

/-- `s1` was reached from `s` without a commit -/
structure NoCommit (s s1 : Sys) : Prop where
  disk : s1.disk = s.disk
  snaps : s1.snaps = s.snaps

theorem NoCommit.refl (s : Sys) : NoCommit s s := ⟨rfl, rfl⟩
theorem NoCommit.trans {a b c : Sys} (h1 : NoCommit a b) (h2 : NoCommit b c) : NoCommit a c :=
  ⟨h2.disk.trans h1.disk, h2.snaps.trans h1.snaps⟩

theorem NoCommit.dbAll {P} {s s1 : Sys} (h : NoCommit s s1) (hA : DbAll P s) : DbAll P s1 := by
  unfold DbAll; rw [h.disk, h.snaps]; exact hA

theorem NoCommit.modDb (s : Sys) (f) : NoCommit s (s.modDb f) := ⟨rfl, rfl⟩
theorem NoCommit.modUdb (s : Sys) (f) : NoCommit s (s.modUdb f) := ⟨rfl, rfl⟩
theorem NoCommit.updConn (s : Sys) (c f) : NoCommit s (s.updConn c f) := ⟨rfl, rfl⟩
theorem NoCommit.emit (s : Sys) (e) : NoCommit s (s.emit e) := ⟨rfl, rfl⟩
theorem NoCommit.send (s : Sys) (c f) : NoCommit s (s.send c f) := ⟨rfl, rfl⟩
theorem NoCommit.sendError (s : Sys) (c t) : NoCommit s (s.sendError c t) := ⟨rfl, rfl⟩
theorem NoCommit.internalErr (s : Sys) (c t) : NoCommit s (s.internalErr c t) := ⟨rfl, rfl⟩
theorem NoCommit.stopListeners (s : Sys) (a m) : NoCommit s (s.stopListeners a m) := ⟨rfl, rfl⟩
theorem NoCommit.touchListened (s : Sys) (a now) : NoCommit s (s.touchListened a now) := ⟨rfl, rfl⟩

theorem DbAll.commit {P} {s : Sys} (h : DbAll P s) (hp : P s.db) : DbAll P s.commit := by
  unfold Sys.commit
  split
  · exact h
  · refine ⟨hp, ?_⟩
    intro p hp'
    simp only [List.mem_append, List.mem_singleton] at hp'
    rcases hp' with h' | rfl
    · exact h.2 p h'
    · exact hp

theorem DbAll.ucommit {P} {s : Sys} (h : DbAll P s) : DbAll P s.ucommit := by
  unfold Sys.ucommit
  split
  · exact h
  · refine ⟨h.1, ?_⟩
    intro p hp'
    simp only [List.mem_append, List.mem_singleton] at hp'
    rcases hp' with h' | rfl
    · exact h.2 p h'
    · exact h.1

theorem NoCommit.foldl_send {α} (g : α → Nat) (fr : α → Frame) (l : List α) :
    ∀ (s : Sys), NoCommit s (l.foldl (fun s a => s.send (g a) (fr a)) s) ∧
      (l.foldl (fun s a => s.send (g a) (fr a)) s).db = s.db := by
  induction l with
  | nil => intro s; exact ⟨NoCommit.refl _, rfl⟩
  | cons a l ih =>
    intro s
    obtain ⟨h1, h2⟩ := ih (s.send (g a) (fr a))
    exact ⟨(NoCommit.send s _ _).trans h1, h2⟩

theorem storeNameplateUsage_noCommit {s s1 : Sys} {app sides t p b}
    (h : s.storeNameplateUsage app sides t p = (s1, b)) : NoCommit s s1 ∧ s1.db = s.db := by
  unfold storeNameplateUsage at h
  split at h <;>
  · simp only [Prod.mk.injEq] at h
    obtain ⟨rfl, rfl⟩ := h
    exact ⟨⟨rfl, rfl⟩, rfl⟩

theorem storeNameplatesOfMailbox_noCommit {app t} (l : List Nameplate) :
    ∀ {s s1 : Sys} {b}, s.storeNameplatesOfMailbox app t l = (s1, b) → NoCommit s s1 := by
  induction l with
  | nil =>
    intro s s1 b h
    simp only [storeNameplatesOfMailbox, Prod.mk.injEq] at h
    obtain ⟨rfl, rfl⟩ := h
    exact NoCommit.refl _
  | cons np rest ih =>
    intro s s1 b h
    unfold storeNameplatesOfMailbox at h
    split at h
    · rename_i s0 e
      simp only [Prod.mk.injEq] at h
      obtain ⟨rfl, rfl⟩ := h
      exact (storeNameplateUsage_noCommit e).1
    · rename_i s0 e
      exact (storeNameplateUsage_noCommit e).1.trans (ih h)

theorem addMailbox_noCommit {s s1 : Sys} {app mb forNp t} (h : s.addMailbox app mb forNp t = some s1) :
    NoCommit s s1 := by
  unfold addMailbox at h
  split at h
  · cases h; exact NoCommit.refl _
  · split at h
    · cases h
    · cases h; exact NoCommit.modDb _ _

/-- `Mailbox.open`: one commit, at the final database -/
theorem mailboxOpen_dbAll {P} (s : Sys) (mb side : String) (t : Time) (hA : DbAll P s)
    (hp : P (s.mailboxOpen mb side t).db) : DbAll P (s.mailboxOpen mb side t) := by
  unfold mailboxOpen at hp ⊢
  split at hp <;> simp only [commit_db] at hp <;> exact DbAll.commit hA hp

/-- `open_mailbox`: one effective commit, at the final database -/
theorem openMailbox_dbAll {P} {s s1 : Sys} {app mb side t r} (h : s.openMailbox app mb side t = (s1, r))
    (hA : DbAll P s) (hp : P s1.db) : DbAll P s1 := by
  unfold openMailbox at h
  split at h
  · simp only [Prod.mk.injEq] at h
    obtain ⟨rfl, rfl⟩ := h
    exact hA
  · rename_i s0 e
    have h0 : DbAll P s0 := (addMailbox_noCommit e).dbAll hA
    dsimp only at h
    split at h <;>
    · simp only [Prod.mk.injEq] at h
      obtain ⟨rfl, rfl⟩ := h
      simp only [commit_db] at hp
      exact DbAll.commit (mailboxOpen_dbAll _ _ _ _ h0 hp) (by simpa using hp)

theorem addMessage_dbAll {P} (s : Sys) (app mb side ph bd t id) (hA : DbAll P s)
    (hp : P (s.addMessage app mb side ph bd t id).db) : DbAll P (s.addMessage app mb side ph bd t id) := by
  unfold addMessage at hp ⊢
  simp only [commit_db] at hp
  exact DbAll.commit hA hp

/-- the continuation of `claim_nameplate`: commits at its initial and at its final database -/
theorem claimCont_dbAll {P} {s s1 : Sys} {app npid mb side t r}
    (h : claimCont s app npid mb side t = (s1, r)) (hA : DbAll P s) (h1 : P s.db) (h2 : P s1.db) :
    DbAll P s1 := by
  unfold claimCont at h
  dsimp only at h
  have hc : DbAll P s.commit := hA.commit h1
  split at h
  · rename_i s3 e
    simp only [Prod.mk.injEq] at h
    obtain ⟨rfl, rfl⟩ := h
    exact openMailbox_dbAll e hc h2
  · rename_i s3 e
    simp only [Prod.mk.injEq] at h
    obtain ⟨rfl, rfl⟩ := h
    exact openMailbox_dbAll e hc h2
  · rename_i s3 e
    split at h <;>
    · simp only [Prod.mk.injEq] at h
      obtain ⟨rfl, rfl⟩ := h
      exact openMailbox_dbAll e hc h2

/-- `release_nameplate`: commits after the UPDATE and at the final database -/
theorem releaseNameplate_dbAll {P} {s s1 : Sys} {app name side t b}
    (h : s.releaseNameplate app name side t = (s1, b)) (hA : DbAll P s)
    (h1 : ∀ np, s.db.findNameplate app name = some np → P (s.db.unclaim np.id side))
    (h2 : P s1.db) : DbAll P s1 := by
  unfold releaseNameplate at h
  split at h
  · simp only [Prod.mk.injEq] at h
    obtain ⟨rfl, rfl⟩ := h
    exact hA
  · rename_i np hnp
    split at h
    · simp only [Prod.mk.injEq] at h
      obtain ⟨rfl, rfl⟩ := h
      exact hA
    · have hc : DbAll P ((s.modDb (·.unclaim np.id side)).commit) :=
        DbAll.commit (s := s.modDb (·.unclaim np.id side)) hA (h1 np hnp)
      dsimp only at h
      split at h
      · simp only [Prod.mk.injEq] at h
        obtain ⟨rfl, rfl⟩ := h
        exact hc
      · split at h
        · split at h
          · rename_i s3 e
            simp only [Prod.mk.injEq] at h
            obtain ⟨rfl, rfl⟩ := h
            exact (storeNameplateUsage_noCommit e).1.dbAll hc
          · rename_i s3 e
            simp only [Prod.mk.injEq] at h
            obtain ⟨rfl, rfl⟩ := h
            have h3 : DbAll P s3 := (storeNameplateUsage_noCommit e).1.dbAll hc
            exact DbAll.commit h3.ucommit (by simpa using h2)
        · simp only [Prod.mk.injEq] at h
          obtain ⟨rfl, rfl⟩ := h
          exact DbAll.commit (s := (s.modDb _).commit.modDb _) hc (by simpa using h2)

/-- `Mailbox.close`: commits after the UPDATE and at the final database -/
theorem mailboxClose_dbAll {P} {s s1 : Sys} {app mb side mood t b}
    (h : s.mailboxClose app mb side mood t = (s1, b)) (hA : DbAll P s)
    (h1 : P (s.db.closeSide mb side mood)) (h2 : P s1.db) : DbAll P s1 := by
  unfold mailboxClose at h
  split at h
  · simp only [Prod.mk.injEq] at h
    obtain ⟨rfl, rfl⟩ := h
    exact hA
  · split at h
    · simp only [Prod.mk.injEq] at h
      obtain ⟨rfl, rfl⟩ := h
      exact hA
    · have hc : DbAll P ((s.modDb (·.closeSide mb side mood)).commit) :=
        DbAll.commit (s := s.modDb (·.closeSide mb side mood)) hA h1
      dsimp only at h
      split at h
      · simp only [Prod.mk.injEq] at h
        obtain ⟨rfl, rfl⟩ := h
        exact hc
      · generalize hE : (if ((s.modDb _).commit).cfg.usage then _ else _) = p at h
        obtain ⟨s2, ok⟩ := p
        have h2' : DbAll P s2 := by
          split at hE
          · exact (storeNameplatesOfMailbox_noCommit _ hE).dbAll hc
          · simp only [Prod.mk.injEq] at hE
            obtain ⟨rfl, rfl⟩ := hE
            exact hc
        dsimp only at h
        split at h
        · simp only [Prod.mk.injEq] at h
          obtain ⟨rfl, rfl⟩ := h
          exact h2'
        · simp only [Prod.mk.injEq] at h
          obtain ⟨rfl, rfl⟩ := h
          rw [stopListeners_db, commit_db] at h2
          refine (NoCommit.stopListeners _ _ _).dbAll (DbAll.commit ?_ h2)
          split
          · exact DbAll.ucommit h2'
          · exact h2'

end Sys.Np

/-! ## Part 2: exact final states -/

namespace Chan

/-- the database after `Mailbox.open(side, when)` on mailbox `mb` -/
def npOpen (d : Chan) (mb side : String) (t : Time) : Chan :=
  (match d.findMbSide mb side with
   | none => d.insMbSide ⟨mb, true, side, t, none⟩
   | some _ => d).touch mb t

/-- the database after the part of `claim_nameplate` that follows the look-up of the nameplate
    row (`npid`, `mb`), when the caller's side row is absent or claimed and the mailbox exists -/
def npClaim (d : Chan) (npid : Nat) (mb side : String) (t : Time) : Chan :=
  (match d.findNpSide npid side with
   | none => d.insNpSide ⟨npid, true, side, t⟩
   | some _ => d).npOpen mb side t

/-- the two crowding checks, in the order of the code (`open_mailbox` first) -/
def npClaimRes (d : Chan) (npid : Nat) (mb : String) : Sys.ClaimRes :=
  if (d.mbSidesOf mb).length > 2 then .crowded
  else if (d.npSidesOf npid).length > 2 then .crowded else .ok mb

@[simp] theorem npOpen_nameplates (d : Chan) (mb side t) : (d.npOpen mb side t).nameplates = d.nameplates := by
  unfold npOpen; split <;> rfl
@[simp] theorem npOpen_npSides (d : Chan) (mb side t) : (d.npOpen mb side t).npSides = d.npSides := by
  unfold npOpen; split <;> rfl
@[simp] theorem npOpen_nextNp (d : Chan) (mb side t) : (d.npOpen mb side t).nextNp = d.nextNp := by
  unfold npOpen; split <;> rfl
@[simp] theorem npOpen_messages (d : Chan) (mb side t) : (d.npOpen mb side t).messages = d.messages := by
  unfold npOpen; split <;> rfl
theorem npOpen_mailboxes (d : Chan) (mb side t) : (d.npOpen mb side t).mailboxes =
    d.mailboxes.map (fun r => if r.id = mb then { r with updated := t } else r) := by
  unfold npOpen; split <;> rfl
theorem npOpen_mbSides (d : Chan) (mb side t) : (d.npOpen mb side t).mbSides =
    d.mbSides ++ (match d.findMbSide mb side with | none => [⟨mb, true, side, t, none⟩] | some _ => []) := by
  unfold npOpen; split <;> simp [touch, insMbSide]
@[simp] theorem npOpen_npPart (d : Chan) (mb side t) : (d.npOpen mb side t).npPart = d.npPart := by
  simp [npPart]

@[simp] theorem npClaim_nameplates (d : Chan) (npid mb side t) :
    (d.npClaim npid mb side t).nameplates = d.nameplates := by
  unfold npClaim; split <;> simp [insNpSide]
@[simp] theorem npClaim_nextNp (d : Chan) (npid mb side t) : (d.npClaim npid mb side t).nextNp = d.nextNp := by
  unfold npClaim; split <;> simp [insNpSide]
@[simp] theorem npClaim_messages (d : Chan) (npid mb side t) :
    (d.npClaim npid mb side t).messages = d.messages := by
  unfold npClaim; split <;> simp [insNpSide]
theorem npClaim_npSides (d : Chan) (npid mb side t) : (d.npClaim npid mb side t).npSides =
    d.npSides ++ (match d.findNpSide npid side with | none => [⟨npid, true, side, t⟩] | some _ => []) := by
  unfold npClaim; split <;> simp [insNpSide]
theorem npClaim_mailboxes (d : Chan) (npid mb side t) : (d.npClaim npid mb side t).mailboxes =
    d.mailboxes.map (fun r => if r.id = mb then { r with updated := t } else r) := by
  unfold npClaim; split <;> simp [insNpSide, npOpen_mailboxes]
theorem npClaim_mbSides (d : Chan) (npid mb side t) : (d.npClaim npid mb side t).mbSides =
    d.mbSides ++ (match d.findMbSide mb side with | none => [⟨mb, true, side, t, none⟩] | some _ => []) := by
  unfold npClaim; split <;> simp [insNpSide, npOpen_mbSides, findMbSide]

end Chan

namespace Sys.Np

theorem mailboxOpen_db (s : Sys) (mb side : String) (t : Time) :
    (s.mailboxOpen mb side t).db = s.db.npOpen mb side t := by
  unfold mailboxOpen Chan.npOpen
  split <;> simp_all

theorem mailboxOpen_conns (s : Sys) (mb side : String) (t : Time) :
    (s.mailboxOpen mb side t).conns = s.conns := by
  unfold mailboxOpen
  split <;> simp [modDb]

/-- `open_mailbox` on a mailbox that exists under the caller's app -/
theorem openMailbox_present {s s1 : Sys} {app mb side t r} {row : MailboxRow}
    (hm : s.db.findMailbox app mb = some row) (h : s.openMailbox app mb side t = (s1, r)) :
    s1.db = s.db.npOpen mb side t ∧ s1.conns = s.conns ∧
    r = (if ((s.db.npOpen mb side t).mbSidesOf mb).length > 2 then .crowded else .ok) := by
  unfold openMailbox addMailbox at h
  simp only [hm] at h
  split at h <;>
  · simp only [Prod.mk.injEq] at h
    obtain ⟨rfl, rfl⟩ := h
    simp_all [mailboxOpen_db, mailboxOpen_conns]

theorem claimCont_present {s s1 : Sys} {app npid mb side t r} {row : MailboxRow}
    (hm : s.db.findMailbox app mb = some row) (h : claimCont s app npid mb side t = (s1, r)) :
    s1.db = s.db.npOpen mb side t ∧ s1.conns = s.conns ∧ r = s1.db.npClaimRes npid mb := by
  unfold claimCont at h
  dsimp only at h
  split at h
  all_goals
    rename_i s3 e
    obtain ⟨e1, e2, e3⟩ := openMailbox_present (s := s.commit) (by simpa using hm) e
    simp only [commit_db, commit_conns] at e1 e2 e3
  · simp at e3
    split at e3 <;> cases e3
  · simp only [Prod.mk.injEq] at h
    obtain ⟨rfl, rfl⟩ := h
    refine ⟨e1, e2, ?_⟩
    unfold Chan.npClaimRes
    rw [e1]
    split at e3
    · simp_all
    · cases e3
  · have hle : ¬ ((s.db.npOpen mb side t).mbSidesOf mb).length > 2 := by
      intro hh; rw [if_pos hh] at e3; cases e3
    split at h <;>
    · simp only [Prod.mk.injEq] at h
      obtain ⟨rfl, rfl⟩ := h
      refine ⟨e1, e2, ?_⟩
      rename_i hnp
      unfold Chan.npClaimRes
      rw [e1] at hnp ⊢
      first
        | rw [if_neg hle, if_pos hnp]
        | rw [if_neg hle, if_neg hnp]


theorem findMailbox_of_mem {d : Chan} {m : MailboxRow} (hm : m ∈ d.mailboxes) :
    ∃ row, d.findMailbox m.app m.id = some row := by
  have : (d.findMailbox m.app m.id).isSome := by
    unfold Chan.findMailbox
    rw [List.find?_isSome]
    exact ⟨m, hm, by simp⟩
  exact Option.isSome_iff_exists.1 this

/-- the mailbox of a nameplate row found by `(app, name)` exists under `app` -/
theorem findMailbox_of_findNameplate {d : Chan} (hp : d.PInv) {app name : String} {row : Nameplate}
    (hrow : d.findNameplate app name = some row) :
    row ∈ d.nameplates ∧ row.app = app ∧ row.name = name ∧ ∃ m, d.findMailbox app row.mailbox = some m := by
  have hmem : row ∈ d.nameplates := List.mem_of_find?_eq_some hrow
  have hk := List.find?_some hrow
  simp only [decide_eq_true_eq] at hk
  obtain ⟨m, hm, h1, h2⟩ := hp.npMb row hmem
  obtain ⟨m', hm'⟩ := findMailbox_of_mem hm
  refine ⟨hmem, hk.1, hk.2, m', ?_⟩
  rw [← hk.1, ← h2, ← h1]; exact hm'

/-- **`claim_nameplate`, nameplate present** (case (b)).  Either the caller's side row says
    `claimed = 0`: `ReclaimedError` before any write, the state is returned as it was; or the
    final database is `npClaim` (the caller's nameplate-side row is inserted if absent, its
    mailbox-side row likewise, the mailbox is touched; the nameplate row itself, and every other
    row, is as before) and the answer is `npClaimRes` of that database: `crowded` if the mailbox or
    the nameplate now has more than two side rows — the rows just written stay — else `ok` with
    the row's mailbox id.  `IntegrityError` cannot happen. -/
theorem claimNameplate_present {s s1 : Sys} {app name side t fresh r} {row : Nameplate} (hp : s.db.PInv)
    (hrow : s.db.findNameplate app name = some row)
    (h : s.claimNameplate app name side t fresh = (s1, r)) :
    (∃ r0, s.db.findNpSide row.id side = some r0 ∧ r0.claimed = false ∧ s1 = s ∧ r = .reclaimed) ∨
    ((∀ r0, s.db.findNpSide row.id side = some r0 → r0.claimed = true) ∧
      s1.db = s.db.npClaim row.id row.mailbox side t ∧ s1.conns = s.conns ∧
      r = s1.db.npClaimRes row.id row.mailbox) := by
  obtain ⟨_, _, _, m, hm⟩ := findMailbox_of_findNameplate hp hrow
  unfold claimNameplate at h
  simp only [hrow] at h
  rw [claimTail_eq] at h
  cases hf : s.db.findNpSide row.id side with
  | none =>
    rw [hf] at h
    dsimp only at h
    obtain ⟨e1, e2, e3⟩ := claimCont_present (s := s.modDb (·.insNpSide ⟨row.id, true, side, t⟩))
      (row := m) hm h
    refine Or.inr ⟨by simp, ?_, e2, e3⟩
    rw [e1]; unfold Chan.npClaim; rw [hf]; rfl
  | some r0 =>
    rw [hf] at h
    dsimp only at h
    split at h
    · rename_i hc
      obtain ⟨e1, e2, e3⟩ := claimCont_present (row := m) hm h
      refine Or.inr ⟨by simpa using hc, ?_, e2, e3⟩
      rw [e1]; unfold Chan.npClaim; rw [hf]
    · rename_i hc
      simp only [Prod.mk.injEq] at h
      obtain ⟨rfl, rfl⟩ := h
      exact Or.inl ⟨r0, rfl, by simpa using hc, rfl, rfl⟩

end Sys.Np

/-- the database after `claim_nameplate` created the nameplate: exactly one new row in each of
    `mailboxes`, `nameplates`, `nameplate_sides`, `mailbox_sides`; the counter advanced -/
def Chan.npClaimNew (d : Chan) (app name side fresh : String) (t : Time) : Chan :=
  { d with
    mailboxes := d.mailboxes ++ [⟨app, fresh, t, true⟩]
    nameplates := d.nameplates ++ [⟨d.nextNp, app, name, fresh⟩]
    npSides := d.npSides ++ [⟨d.nextNp, true, side, t⟩]
    mbSides := d.mbSides ++ [⟨fresh, true, side, t, none⟩]
    nextNp := d.nextNp + 1 }

namespace Sys.Np

/-- **`claim_nameplate`, nameplate absent, `fresh` not a mailbox id** (case (a)) -/
theorem claimNameplate_new {s s1 : Sys} {app name side t fresh r} (hp : s.db.PInv)
    (hnone : s.db.findNameplate app name = none) (hfresh : ∀ m ∈ s.db.mailboxes, m.id ≠ fresh)
    (h : s.claimNameplate app name side t fresh = (s1, r)) :
    s1.db = s.db.npClaimNew app name side fresh t ∧ s1.conns = s.conns ∧ r = .ok fresh := by
  have h1 : s.db.findMailbox app fresh = none := by
    simp only [Chan.findMailbox, List.find?_eq_none, decide_eq_true_eq, not_and]
    intro m hm _; exact hfresh m hm
  have h2 : s.db.findMailboxById fresh = none := by
    simp only [Chan.findMailboxById, List.find?_eq_none, decide_eq_true_eq]
    intro m hm; exact hfresh m hm
  have h3 : s.db.findNpSide s.db.nextNp side = none := hp.bounded.findNpSide_fresh side
  have h4 : s.db.findMbSide fresh side = none := by
    simp only [Chan.findMbSide, List.find?_eq_none, decide_eq_true_eq, not_and]
    intro r hr e
    obtain ⟨m, hm, e'⟩ := hp.msFk r hr
    exact absurd (e'.trans e) (hfresh m hm)
  unfold claimNameplate addMailbox at h
  simp only [hnone, h1, h2] at h
  rw [claimTail_eq] at h
  have h3' : ((s.modDb (·.insMailbox ⟨app, fresh, t, true⟩)).modDb (·.insNameplate app name fresh)).db.findNpSide
      (s.modDb (·.insMailbox ⟨app, fresh, t, true⟩)).db.nextNp side = none := h3
  rw [h3'] at h
  dsimp only at h
  have hm : (((s.modDb (·.insMailbox ⟨app, fresh, t, true⟩)).modDb (·.insNameplate app name fresh)).modDb
      (·.insNpSide ⟨(s.modDb (·.insMailbox ⟨app, fresh, t, true⟩)).db.nextNp, true, side, t⟩)).db.findMailbox
        app fresh = some ⟨app, fresh, t, true⟩ := by
    simp only [modDb_db, Chan.findMailbox, Chan.insNpSide, Chan.insNameplate, Chan.insMailbox]
    rw [List.find?_append]
    simp only [Chan.findMailbox] at h1
    rw [h1]; simp
  obtain ⟨e1, e2, e3⟩ := claimCont_present hm h
  have hdb : s1.db = s.db.npClaimNew app name side fresh t := by
    rw [e1]
    simp only [modDb_db]
    unfold Chan.npOpen
    have : (((s.db.insMailbox ⟨app, fresh, t, true⟩).insNameplate app name fresh).insNpSide
        ⟨(s.db.insMailbox ⟨app, fresh, t, true⟩).nextNp, true, side, t⟩).findMbSide fresh side = none := h4
    rw [this]
    simp only [Chan.npClaimNew, Chan.touch, Chan.insMbSide, Chan.insNpSide, Chan.insNameplate, Chan.insMailbox,
      List.map_append, List.map_cons, List.map_nil]
    congr 1
    congr 1
    · conv => rhs; rw [← List.map_id s.db.mailboxes]
      apply List.map_congr_left
      intro m hm'
      simp [hfresh m hm']
  refine ⟨hdb, e2, ?_⟩
  rw [e3, hdb]
  unfold Chan.npClaimRes
  have a1 : ((s.db.npClaimNew app name side fresh t).mbSidesOf fresh).length = 1 := by
    simp only [Chan.mbSidesOf, Chan.npClaimNew, List.filter_append]
    have : s.db.mbSides.filter (fun r => decide (r.mailbox = fresh)) = [] := by
      simp only [List.filter_eq_nil_iff, decide_eq_true_eq]
      intro r hr e
      obtain ⟨m, hm, e'⟩ := hp.msFk r hr
      exact hfresh m hm (e'.trans e)
    rw [this]; simp
  have a2 : ((s.db.npClaimNew app name side fresh t).npSidesOf s.db.nextNp).length = 1 := by
    simp only [Chan.npSidesOf, Chan.npClaimNew, List.filter_append]
    have : s.db.npSides.filter (fun r => decide (r.npid = s.db.nextNp)) = [] := by
      simp only [List.filter_eq_nil_iff, decide_eq_true_eq]
      intro r hr e
      have := hp.bounded.2 r hr
      omega
    rw [this]; simp
  have a2' : ((s.db.npClaimNew app name side fresh t).npSidesOf
      (s.modDb (·.insMailbox ⟨app, fresh, t, true⟩)).db.nextNp).length = 1 := a2
  rw [a1, a2']
  simp


/-- **`claim_nameplate`, `IntegrityError`** (case (c)): only when the nameplate is absent and
    `fresh` is already the id of a mailbox of ANOTHER app (the INSERT violates the primary key;
    impossible when `fresh` is new); the state is returned as it was. -/
theorem claimNameplate_integrity {s s1 : Sys} {app name side t fresh} (hp : s.db.PInv)
    (h : s.claimNameplate app name side t fresh = (s1, .integrity)) :
    s1 = s ∧ s.db.findNameplate app name = none ∧ ∃ m ∈ s.db.mailboxes, m.id = fresh ∧ m.app ≠ app := by
  cases hrow : s.db.findNameplate app name with
  | some row =>
    rcases claimNameplate_present hp hrow h with ⟨_, _, _, _, e⟩ | ⟨_, _, _, e⟩
    · cases e
    · exfalso
      unfold Chan.npClaimRes at e
      split at e
      · cases e
      · split at e <;> cases e
  | none =>
    by_cases hfresh : ∀ m ∈ s.db.mailboxes, m.id ≠ fresh
    · have := (claimNameplate_new hp hrow hfresh h).2.2
      cases this
    · have hfresh' : ∃ m ∈ s.db.mailboxes, m.id = fresh := by
        apply Classical.byContradiction
        intro hne
        apply hfresh
        intro m hm e
        exact hne ⟨m, hm, e⟩
      obtain ⟨m, hm, e⟩ := hfresh'
      unfold claimNameplate addMailbox at h
      simp only [hrow] at h
      cases h1 : s.db.findMailbox app fresh with
      | none =>
        simp only [h1] at h
        cases h2 : s.db.findMailboxById fresh with
        | none =>
          exfalso
          simp only [Chan.findMailboxById, List.find?_eq_none, decide_eq_true_eq] at h2
          exact h2 m hm e
        | some m2 =>
          simp only [h2, Prod.mk.injEq] at h
          refine ⟨h.1.symm, rfl, m, hm, e, ?_⟩
          intro ea
          simp only [Chan.findMailbox, List.find?_eq_none, decide_eq_true_eq, not_and] at h1
          exact h1 m hm ea e
      | some m1 =>
        exfalso
        simp only [h1] at h
        rw [claimTail_eq] at h
        have h3 : (s.modDb (·.insNameplate app name fresh)).db.findNpSide s.db.nextNp side = none :=
          hp.bounded.findNpSide_fresh side
        rw [h3] at h
        dsimp only at h
        have := (claimCont_present (s := (s.modDb (·.insNameplate app name fresh)).modDb
          (·.insNpSide ⟨s.db.nextNp, true, side, t⟩)) (row := m1) h1 h).2.2
        unfold Chan.npClaimRes at this
        split at this
        · cases this
        · split at this <;> cases this

/-- the continuation answers `ok` only with the mailbox id it was given -/
theorem claimCont_ok {s s1 : Sys} {app npid mb side t m}
    (h : claimCont s app npid mb side t = (s1, .ok m)) : m = mb := by
  unfold claimCont at h
  dsimp only at h
  split at h
  · cases h
  · cases h
  · split at h
    · cases h
    · simp only [Prod.mk.injEq, ClaimRes.ok.injEq] at h
      exact h.2.symm

/-- **`claim_nameplate` answers `ok m`** only with the mailbox id of the nameplate row it found,
    or, when it found none, with the generated id (needs nothing but the id bound) -/
theorem claimNameplate_ok {s s1 : Sys} {a n σ t fresh m}
    (h : s.claimNameplate a n σ t fresh = (s1, .ok m)) :
    (∃ row, s.db.findNameplate a n = some row ∧ m = row.mailbox) ∨
    (s.db.findNameplate a n = none ∧ m = fresh) := by
  unfold claimNameplate at h
  split at h
  · rename_i hnone
    split at h
    · cases h
    · dsimp only at h
      rw [claimTail_eq] at h
      split at h
      · exact Or.inr ⟨hnone, claimCont_ok h⟩
      · split at h
        · exact Or.inr ⟨hnone, claimCont_ok h⟩
        · cases h
  · rename_i row hrow
    rw [claimTail_eq] at h
    split at h
    · exact Or.inl ⟨row, hrow, claimCont_ok h⟩
    · split at h
      · exact Or.inl ⟨row, hrow, claimCont_ok h⟩
      · cases h

/-! ### `release_nameplate` -/

/-- **`release_nameplate`, exact.**  It never fails.  No nameplate `(app, name)`, or no row of
    `side` on it: the state is returned as it was.  Otherwise the side's row gets
    `claimed := false` (`unclaim`); if a claimed row remains that is all; else the nameplate row
    and all its side rows are deleted and, with a usage database, exactly one usage row is
    appended.  Nothing else in the channel database changes in any case. -/
theorem releaseNameplate_exact {s s1 : Sys} {app name side t b}
    (h : s.releaseNameplate app name side t = (s1, b)) :
    b = true ∧ s1.conns = s.conns ∧
    ((s.db.findNameplate app name = none ∧ s1 = s) ∨
     (∃ np, s.db.findNameplate app name = some np ∧ s.db.findNpSide np.id side = none ∧ s1 = s) ∨
     (∃ np r0, s.db.findNameplate app name = some np ∧ s.db.findNpSide np.id side = some r0 ∧
        ((((s.db.unclaim np.id side).npSidesOf np.id).any (·.claimed) = true ∧
            s1.db = s.db.unclaim np.id side ∧ s1.udb = s.udb) ∨
         (((s.db.unclaim np.id side).npSidesOf np.id).any (·.claimed) = false ∧
            s1.db = ((s.db.unclaim np.id side).delNpSidesOf np.id).delNameplate np.id ∧
            (s.cfg.usage = false → s1.udb = s.udb) ∧
            (s.cfg.usage = true → ∃ u, s1.udb = { s.udb with nameplates := s.udb.nameplates ++ [u] }))))) := by
  unfold releaseNameplate at h
  split at h
  · rename_i e
    simp only [Prod.mk.injEq] at h
    obtain ⟨rfl, rfl⟩ := h
    exact ⟨rfl, rfl, Or.inl ⟨e, rfl⟩⟩
  · rename_i np hnp
    split at h
    · rename_i e
      simp only [Prod.mk.injEq] at h
      obtain ⟨rfl, rfl⟩ := h
      exact ⟨rfl, rfl, Or.inr (Or.inl ⟨np, hnp, e, rfl⟩)⟩
    · rename_i r0 hr0
      dsimp only at h
      split at h
      · rename_i hany
        simp only [Prod.mk.injEq] at h
        obtain ⟨rfl, rfl⟩ := h
        refine ⟨rfl, by simp [modDb], Or.inr (Or.inr ⟨np, r0, hnp, hr0, Or.inl ⟨?_, by simp, by simp⟩⟩)⟩
        simpa using hany
      · rename_i hany
        have hany' : ((s.db.unclaim np.id side).npSidesOf np.id).any (·.claimed) = false := by
          simpa using hany
        split at h
        · rename_i hu
          simp only [modDb_cfg, commit_cfg] at hu
          split at h
          · rename_i s3 e
            obtain ⟨_, hok⟩ := storeNameplateUsage_spec e
            have := hok (by simpa using npSidesOf_unclaim_ne_nil hr0)
            simp at this
          · rename_i s3 e
            simp only [Prod.mk.injEq] at h
            obtain ⟨rfl, rfl⟩ := h
            obtain ⟨u, _⟩ := storeNameplateUsage_spec e
            refine ⟨rfl, ?_, Or.inr (Or.inr ⟨np, r0, hnp, hr0, Or.inr ⟨hany', ?_, ?_, ?_⟩⟩)⟩
            · unfold storeNameplateUsage at e
              split at e
              · simp only [Prod.mk.injEq] at e; obtain ⟨rfl, _⟩ := e; simp [modDb]
              · simp only [Prod.mk.injEq] at e; obtain ⟨rfl, _⟩ := e; simp [modDb, modUdb]
            · simp [u.db]
            · intro hf; simp [hf] at hu
            · intro _
              unfold storeNameplateUsage at e
              split at e
              · simp only [Prod.mk.injEq] at e; cases e.2
              · rename_i uu _
                simp only [Prod.mk.injEq] at e
                obtain ⟨rfl, _⟩ := e
                exact ⟨⟨app, uu.started, uu.waiting, uu.total, uu.result⟩, by simp⟩
        · rename_i hu
          simp only [modDb_cfg, commit_cfg, Bool.not_eq_true] at hu
          simp only [Prod.mk.injEq] at h
          obtain ⟨rfl, rfl⟩ := h
          refine ⟨rfl, by simp [modDb], Or.inr (Or.inr ⟨np, r0, hnp, hr0, Or.inr ⟨hany', by simp, by simp, ?_⟩⟩)⟩
          intro ht; simp [ht] at hu

/-! ### snapshots of a `claim` that creates the nameplate -/

/-- every snapshot taken between `s` and `s1` satisfies `P` -/
def SnapNew (P : Chan → Prop) (s s1 : Sys) : Prop := ∀ p ∈ s1.snaps, p ∈ s.snaps ∨ P p.1

theorem SnapNew.refl {P} (s : Sys) : SnapNew P s s := fun _ h => Or.inl h

theorem SnapNew.noCommit {P} {s s1 s2 : Sys} (h : SnapNew P s s1) (hn : NoCommit s1 s2) : SnapNew P s s2 := by
  unfold SnapNew; rw [hn.snaps]; exact h

theorem SnapNew.commit {P} {s s1 : Sys} (h : SnapNew P s s1) (hp : P s1.db) : SnapNew P s s1.commit := by
  unfold Sys.commit
  split
  · exact h
  · intro p hp'
    simp only [List.mem_append, List.mem_singleton] at hp'
    rcases hp' with h' | rfl
    · exact h p h'
    · exact Or.inr hp

theorem mailboxOpen_snapNew {P} {s : Sys} (s1 : Sys) (mb side : String) (t : Time) (hA : SnapNew P s s1)
    (hp : P (s1.mailboxOpen mb side t).db) : SnapNew P s (s1.mailboxOpen mb side t) := by
  unfold mailboxOpen at hp ⊢
  split at hp <;> simp only [commit_db] at hp <;> exact SnapNew.commit (hA.noCommit ⟨rfl, rfl⟩) hp

theorem openMailbox_snapNew {P} {s s1 s2 : Sys} {app mb side t r} (h : s1.openMailbox app mb side t = (s2, r))
    (hA : SnapNew P s s1) (hp : P s2.db) : SnapNew P s s2 := by
  unfold openMailbox at h
  split at h
  · simp only [Prod.mk.injEq] at h
    obtain ⟨rfl, rfl⟩ := h
    exact hA
  · rename_i s0 e
    have h0 : SnapNew P s s0 := hA.noCommit (addMailbox_noCommit e)
    dsimp only at h
    split at h <;>
    · simp only [Prod.mk.injEq] at h
      obtain ⟨rfl, rfl⟩ := h
      simp only [commit_db] at hp
      exact SnapNew.commit (mailboxOpen_snapNew _ _ _ _ h0 hp) (by simpa using hp)

theorem claimCont_snapNew {P} {s s1 s2 : Sys} {app npid mb side t r}
    (h : claimCont s1 app npid mb side t = (s2, r)) (hA : SnapNew P s s1) (h1 : P s1.db) (h2 : P s2.db) :
    SnapNew P s s2 := by
  unfold claimCont at h
  dsimp only at h
  have hc : SnapNew P s s1.commit := hA.commit h1
  split at h
  · rename_i s3 e
    simp only [Prod.mk.injEq] at h
    obtain ⟨rfl, rfl⟩ := h
    exact openMailbox_snapNew e hc h2
  · rename_i s3 e
    simp only [Prod.mk.injEq] at h
    obtain ⟨rfl, rfl⟩ := h
    exact openMailbox_snapNew e hc h2
  · rename_i s3 e
    split at h <;>
    · simp only [Prod.mk.injEq] at h
      obtain ⟨rfl, rfl⟩ := h
      exact openMailbox_snapNew e hc h2

/-- when `claim_nameplate` finds no nameplate and does not fail with `IntegrityError`, EVERY state
    it commits already contains the new nameplate row -/
theorem claimNameplate_snaps_new {s s1 : Sys} {a n σ t fresh r}
    (h : s.claimNameplate a n σ t fresh = (s1, r)) (hb : s.db.IdsBounded)
    (hnone : s.db.findNameplate a n = none) (hr : r ≠ .integrity) :
    SnapNew (fun d => (⟨s.db.nextNp, a, n, fresh⟩ : Nameplate) ∈ d.nameplates) s s1 ∧
    (⟨s.db.nextNp, a, n, fresh⟩ : Nameplate) ∈ s1.db.nameplates := by
  unfold claimNameplate at h
  simp only [hnone] at h
  split at h
  · simp only [Prod.mk.injEq] at h
    exact absurd h.2.symm hr
  · rename_i s0 e
    obtain ⟨d0, _⟩ := addMailbox_spec e
    have hnp := d0.np
    simp only [Chan.npPart, Prod.mk.injEq] at hnp
    obtain ⟨n1, n2, n3⟩ := hnp
    have hb0 : s0.db.IdsBounded := by
      unfold Chan.IdsBounded; rw [n1, n2, n3]; exact hb
    have hfresh : (s0.modDb (·.insNameplate a n fresh)).db.findNpSide s0.db.nextNp σ = none := by
      have := hb0.findNpSide_fresh σ
      simpa [Chan.findNpSide, Chan.insNameplate] using this
    rw [claimTail_eq, hfresh] at h
    dsimp only at h
    obtain ⟨d1, _, _⟩ := claimCont_spec h
    have hmid : (⟨s.db.nextNp, a, n, fresh⟩ : Nameplate) ∈
        ((s0.modDb (·.insNameplate a n fresh)).modDb (·.insNpSide ⟨s0.db.nextNp, true, σ, t⟩)).db.nameplates := by
      simp [Chan.insNpSide, Chan.insNameplate, n3]
    have hfin : (⟨s.db.nextNp, a, n, fresh⟩ : Nameplate) ∈ s1.db.nameplates := by
      have := d1.np
      simp only [Chan.npPart, Prod.mk.injEq] at this
      rw [this.1]; exact hmid
    refine ⟨claimCont_snapNew h ?_ hmid hfin, hfin⟩
    exact (SnapNew.refl s).noCommit ((addMailbox_noCommit e).trans ((NoCommit.modDb _ _).trans (NoCommit.modDb _ _)))

end Sys.Np
end Wormhole
