/-
  C06, two-run simulation, part 3: server_websocket.py.

  `IW b s₁ s₂` = the two runs are related (`IsoRel b ρ` for some renaming `ρ` of nameplate ids)
  and both are at a point of a step where nothing is uncommitted (`Sys.Ok`, the invariant of
  C09): so every frame is sent with the flag `true` in both runs and frames can be compared with
  their flags.

  Result: every handler run on behalf of a connection that is bound to `b` (same record `x` in
  both runs), `onMessage` for a connection that is not bound to another app, `connect`,
  `dropConn`, `restart` preserve `IW b`.  The guard of K-global-mailbox-id enters where a mailbox
  id is named: `claim`/`allocate` (the generated id), `open`, `close`.
-/
import Wormhole.Inv.IsoSimCore

set_option linter.unusedSimpArgs false

namespace Wormhole
namespace Sys

structure IW (b : String) (s₁ s₂ : Sys) : Prop where
  rel : ∃ ρ, IsoRel b ρ s₁ s₂
  oka : s₁.Ok
  okb : s₂.Ok

section basics
variable {b : String} {ρ : Nat → Nat} {s₁ s₂ : Sys}

theorem IsoRel.emit (h : IsoRel b ρ s₁ s₂) (e : Event) : IsoRel b ρ (s₁.emit e) (s₂.emit e) :=
  ⟨h.db, h.udb, h.conns, h.cfg, by rw [emit_frames, emit_frames, h.frames]⟩

theorem IsoRel.updConn (h : IsoRel b ρ s₁ s₂) (c : Nat) (f : Conn → Conn)
    (hf : ∀ y, (f y).app = y.app ∧ (f y).id = y.id) : IsoRel b ρ (s₁.updConn c f) (s₂.updConn c f) := by
  unfold Sys.updConn
  apply h.setConns
  apply All2.map _ _ h.conns
  intro x₁ _ x₂ _ r
  rw [r.1]
  split
  · refine ⟨by rw [(hf x₂).2, (hf x₁).2, r.1], ?_, ?_⟩
    · intro ho
      have : ¬ x₁.other b := by
        intro ⟨a, ha, hab⟩; exact ho ⟨a, by rw [(hf x₁).1]; exact ha, hab⟩
      rw [r.2.1 this]
    · intro ⟨a, ha, hab⟩
      rw [(hf x₂).1]
      exact r.2.2 ⟨a, by rw [← (hf x₁).1]; exact ha, hab⟩
  · exact r

theorem IW.send (w : IW b s₁ s₂) (c : Nat) (f : Frame) : IW b (s₁.send c f) (s₂.send c f) := by
  obtain ⟨ρ, h⟩ := w.rel
  refine ⟨⟨ρ, ?_⟩, w.oka.send c f, w.okb.send c f⟩
  unfold Sys.send
  rw [(synced_iff s₁).2 w.oka.synced, (synced_iff s₂).2 w.okb.synced]
  exact h.emit _

theorem IW.sendError (w : IW b s₁ s₂) (c : Nat) (t : String) : IW b (s₁.sendError c t) (s₂.sendError c t) :=
  w.send c _

theorem IW.internalErr (w : IW b s₁ s₂) (c : Nat) (cls : String) :
    IW b (s₁.internalErr c cls) (s₂.internalErr c cls) := by
  obtain ⟨ρ, h⟩ := w.rel
  exact ⟨⟨ρ, h.emit _⟩, w.oka.internalErr c cls, w.okb.internalErr c cls⟩

theorem IW.updConn (w : IW b s₁ s₂) (c : Nat) (f : Conn → Conn) (hf : ∀ y, (f y).app = y.app ∧ (f y).id = y.id) :
    IW b (s₁.updConn c f) (s₂.updConn c f) := by
  obtain ⟨ρ, h⟩ := w.rel
  exact ⟨⟨ρ, h.updConn c f hf⟩, w.oka.updConn c f, w.okb.updConn c f⟩

theorem IW.foldl_send {α : Type} (g : α → Nat) (fr : α → Frame) (l : List α) :
    ∀ {s₁ s₂ : Sys}, IW b s₁ s₂ →
      IW b (l.foldl (fun s x => s.send (g x) (fr x)) s₁) (l.foldl (fun s x => s.send (g x) (fr x)) s₂) := by
  induction l with
  | nil => intro s₁ s₂ w; exact w
  | cons x l ih => intro s₁ s₂ w; exact ih (w.send _ _)

/-! #### Core.lean in `IW` form -/

theorem IW.claimNameplate (w : IW b s₁ s₂) (hp : s₁.db.PInv) {name side : String} {t : Time} {fresh : String}
    (hg : ¬ s₁.db.ForeignMb b fresh) {a₁ a₂ : Sys} {r₁ r₂ : ClaimRes}
    (e₁ : s₁.claimNameplate b name side t fresh = (a₁, r₁)) (e₂ : s₂.claimNameplate b name side t fresh = (a₂, r₂)) :
    IW b a₁ a₂ ∧ r₁ = r₂ := by
  obtain ⟨ρ, h⟩ := w.rel
  obtain ⟨ρ', h', hr⟩ := claimNameplate_iso h hp w.okb.np.bounded.1 hg e₁ e₂
  exact ⟨⟨⟨ρ', h'⟩, w.oka.claimNameplate e₁, w.okb.claimNameplate e₂⟩, hr⟩

theorem IW.releaseNameplate (w : IW b s₁ s₂) {name side : String} {t : Time} {a₁ a₂ : Sys} {r₁ r₂ : Bool}
    (e₁ : s₁.releaseNameplate b name side t = (a₁, r₁)) (e₂ : s₂.releaseNameplate b name side t = (a₂, r₂)) :
    IW b a₁ a₂ ∧ r₁ = r₂ := by
  obtain ⟨ρ, h⟩ := w.rel
  obtain ⟨h', hr⟩ := releaseNameplate_iso h e₁ e₂
  exact ⟨⟨⟨ρ, h'⟩, w.oka.releaseNameplate e₁, w.okb.releaseNameplate e₂⟩, hr⟩

theorem IW.openMailbox (w : IW b s₁ s₂) (hp : s₁.db.PInv) {m side : String} {t : Time}
    (hg : ¬ s₁.db.ForeignMb b m) {a₁ a₂ : Sys} {r₁ r₂ : OpenRes}
    (e₁ : s₁.openMailbox b m side t = (a₁, r₁)) (e₂ : s₂.openMailbox b m side t = (a₂, r₂)) :
    IW b a₁ a₂ ∧ r₁ = r₂ ∧ a₁.db.npPart = s₁.db.npPart := by
  obtain ⟨ρ, h⟩ := w.rel
  obtain ⟨h', hr, _, _, hn, _⟩ := openMailbox_iso h (absent_of_pinv hp hg) e₁ e₂
  exact ⟨⟨⟨ρ, h'⟩, w.oka.openMailbox e₁, w.okb.openMailbox e₂⟩, hr, hn⟩

theorem IW.mailboxClose (w : IW b s₁ s₂) (hu : s₁.db.NpIdsUnique) {m side : String} {mood : Option String} {t : Time}
    {a₁ a₂ : Sys} {r₁ r₂ : Bool} (e₁ : s₁.mailboxClose b m side mood t = (a₁, r₁))
    (e₂ : s₂.mailboxClose b m side mood t = (a₂, r₂)) : IW b a₁ a₂ ∧ r₁ = r₂ := by
  obtain ⟨ρ, h⟩ := w.rel
  obtain ⟨h', hr⟩ := mailboxClose_iso h hu e₁ e₂
  exact ⟨⟨⟨ρ, h'⟩, w.oka.mailboxClose e₁, w.okb.mailboxClose e₂⟩, hr⟩

theorem IW.addMessage (w : IW b s₁ s₂) (m side : String) (ph bd : Val) (t : Time) (id : Val) :
    IW b (s₁.addMessage b m side ph bd t id) (s₂.addMessage b m side ph bd t id) := by
  obtain ⟨ρ, h⟩ := w.rel
  exact ⟨⟨ρ, addMessage_iso h m side ph bd t id⟩, w.oka.addMessage _ _ _ _ _ _ _, w.okb.addMessage _ _ _ _ _ _ _⟩

theorem IsoRel.lcv (h : IsoRel b ρ s₁ s₂) (side : String) (t : Time) (i v : Option String) :
    IsoRel b ρ (s₁.logClientVersion b side t i v) (s₂.logClientVersion b side t i v) := by
  unfold Sys.logClientVersion
  rw [← h.cfg, ← h.blurTime]
  split
  · apply IsoRel.ucommit
    refine ⟨h.db, ?_, h.conns, h.cfg, h.frames⟩
    obtain ⟨u1, u2, u3⟩ := h.udb
    refine ⟨u1, u2, ?_⟩
    simp only [Usage.clientsB, Sys.modUdb, List.filter_append] at u3 ⊢
    rw [u3]
  · exact h

end basics

/-! ### the handlers, for a connection record `x` that is the same in both runs -/

section handlers
variable {b : String} {s₁ s₂ : Sys}

theorem IW.handlePing (w : IW b s₁ s₂) (c : Nat) (v : Option Val) : IW b (s₁.handlePing c v) (s₂.handlePing c v) := by
  unfold Sys.handlePing
  cases v with
  | none => exact w.sendError _ _
  | some v => exact w.send _ _

/-- `bind`: `x` is the record of the acting connection in both runs; the bind, if accepted, is
    to app `b` -/
theorem IW.handleBind (w : IW b s₁ s₂) (x : Conn) (hx : ∀ y ∈ s₁.conns, y.id = x.id → y = x) (t : Time)
    (app side impl version : Option String)
    (hab : ¬ (x.app.isSome = true ∨ (x.side.isSome = true ∧ x.side ≠ some "")) → ∀ a, app = some a → side.isSome → a = b) :
    IW b (s₁.handleBind x t app side impl version) (s₂.handleBind x t app side impl version) := by
  unfold Sys.handleBind
  by_cases hc : (x.app.isSome = true ∨ (x.side.isSome = true ∧ x.side ≠ some ""))
  · rw [if_pos hc, if_pos hc]
    exact w.sendError _ _
  · rw [if_neg hc, if_neg hc]
    cases app with
    | none => exact w.sendError _ _
    | some ap =>
      cases side with
      | none => exact w.sendError _ _
      | some sd =>
        dsimp only
        have e : ap = b := hab hc ap rfl rfl
        subst e
        obtain ⟨ρ, h⟩ := w.rel
        have hxa : x.app = none := by
          cases hh : x.app with
          | none => rfl
          | some a => exact absurd (Or.inl (by simp [hh])) hc
        have h1 : IsoRel ap ρ (s₁.updConn x.id (fun y => { y with app := some ap, side := some sd }))
            (s₂.updConn x.id (fun y => { y with app := some ap, side := some sd })) := by
          unfold Sys.updConn
          apply h.setConns
          apply All2.map _ _ h.conns
          intro x₁ hx₁ x₂ _ r
          rw [r.1]
          split
          · rename_i hid
            have e1 : x₁ = x := hx x₁ hx₁ hid
            have hno : ¬ x₁.other ap := by
              rw [e1]; intro ⟨a, ha, _⟩; rw [hxa] at ha; cases ha
            rw [r.2.1 hno]
            refine ⟨rfl, fun _ => rfl, ?_⟩
            intro ⟨a, ha, hne⟩
            simp at ha
            exact absurd ha.symm hne
          · exact r
        exact ⟨⟨ρ, h1.lcv sd t impl version⟩, (w.oka.updConn _ _).logClientVersion _ _ _ _ _,
          (w.okb.updConn _ _).logClientVersion _ _ _ _ _⟩

theorem IW.handleList (w : IW b s₁ s₂) (x : Conn) : IW b (s₁.handleList x b) (s₂.handleList x b) := by
  obtain ⟨ρ, h⟩ := w.rel
  unfold Sys.handleList
  rw [← h.cfg, h.db.namesOfApp]
  exact w.send _ _

theorem IW.handleAllocate (w : IW b s₁ s₂) (hp : s₁.db.PInv) (x : Conn) (side : String) (t : Time) (pick : Nat)
    (draws : List Nat) (fresh : String) (hg : ¬ s₁.db.ForeignMb b fresh) :
    IW b (s₁.handleAllocate x b side t pick draws fresh) (s₂.handleAllocate x b side t pick draws fresh) := by
  obtain ⟨ρ, h⟩ := w.rel
  unfold Sys.handleAllocate
  by_cases hc : x.didAllocate = true
  · rw [if_pos hc, if_pos hc]
    exact w.sendError _ _
  · rw [if_neg hc, if_neg hc, h.db.namesOfApp]
    cases findAvailable (s₁.db.namesOfApp b) pick draws with
    | none => exact w.internalErr _ _
    | some name =>
      dsimp only
      cases ea : s₁.claimNameplate b name side t fresh with
      | mk a1 ra =>
        cases eb : s₂.claimNameplate b name side t fresh with
        | mk b1 rb =>
          obtain ⟨w1, rfl⟩ := w.claimNameplate hp hg ea eb
          cases ra with
          | ok m => exact (w1.updConn _ _ (by intro y; exact ⟨rfl, rfl⟩)).send _ _
          | crowded => exact w1.internalErr _ _
          | reclaimed => exact w1.internalErr _ _
          | integrity => exact w1.internalErr _ _

theorem IW.handleClaim (w : IW b s₁ s₂) (hp : s₁.db.PInv) (x : Conn) (side : String) (t : Time) (n : Option String)
    (fresh : String) (hg : ¬ s₁.db.ForeignMb b fresh) :
    IW b (s₁.handleClaim x b side t n fresh) (s₂.handleClaim x b side t n fresh) := by
  unfold Sys.handleClaim
  cases n with
  | none => exact w.sendError _ _
  | some name =>
    dsimp only
    by_cases hc : x.didClaim = true
    · rw [if_pos hc, if_pos hc]
      exact w.sendError _ _
    · rw [if_neg hc, if_neg hc]
      have w0 := w.updConn x.id (fun y => { y with didClaim := true, nameplateId := some name }) (fun _ => ⟨rfl, rfl⟩)
      cases ea : (s₁.updConn x.id (fun y => { y with didClaim := true, nameplateId := some name })).claimNameplate
          b name side t fresh with
      | mk a1 ra =>
        cases eb : (s₂.updConn x.id (fun y => { y with didClaim := true, nameplateId := some name })).claimNameplate
            b name side t fresh with
        | mk b1 rb =>
          obtain ⟨w1, rfl⟩ := w0.claimNameplate hp hg ea eb
          cases ra with
          | ok m => exact w1.send _ _
          | crowded => exact w1.sendError _ _
          | reclaimed => exact w1.sendError _ _
          | integrity => exact w1.internalErr _ _

theorem IW.handleRelease (w : IW b s₁ s₂) (x : Conn) (side : String) (t : Time) (n : Option String) :
    IW b (s₁.handleRelease x b side t n) (s₂.handleRelease x b side t n) := by
  unfold Sys.handleRelease
  have go : ∀ name : String,
      IW b
        (match (s₁.updConn x.id (fun y => { y with didRelease := true })).releaseNameplate b name side t with
         | (s1, true) => s1.send x.id .released
         | (s1, false) => s1.internalErr x.id "IndexError")
        (match (s₂.updConn x.id (fun y => { y with didRelease := true })).releaseNameplate b name side t with
         | (s1, true) => s1.send x.id .released
         | (s1, false) => s1.internalErr x.id "IndexError") := by
    intro name
    have w0 := w.updConn x.id (fun y => { y with didRelease := true }) (fun _ => ⟨rfl, rfl⟩)
    cases ea : (s₁.updConn x.id (fun y => { y with didRelease := true })).releaseNameplate b name side t with
    | mk a1 ba =>
      cases eb : (s₂.updConn x.id (fun y => { y with didRelease := true })).releaseNameplate b name side t with
      | mk b1 bb =>
        obtain ⟨w1, rfl⟩ := w0.releaseNameplate ea eb
        cases ba with
        | true => exact w1.send _ _
        | false => exact w1.internalErr _ _
  by_cases hc : x.didRelease = true
  · rw [if_pos hc, if_pos hc]
    exact w.sendError _ _
  · rw [if_neg hc, if_neg hc]
    dsimp only
    cases n with
    | some nm =>
      cases x.nameplateId with
      | some held =>
        dsimp only
        by_cases hne : nm ≠ held
        · rw [if_pos hne, if_pos hne]
          exact w.sendError _ _
        · rw [if_neg hne, if_neg hne]
          exact go _
      | none => exact go _
    | none =>
      cases x.nameplateId with
      | some held => exact go _
      | none => exact w.sendError _ _

theorem IW.replay (w : IW b s₁ s₂) (c : Nat) (m : String) : IW b (s₁.replay c b m) (s₂.replay c b m) := by
  obtain ⟨ρ, h⟩ := w.rel
  unfold Sys.replay
  rw [h.db.messagesOf]
  exact IW.foldl_send (fun _ => c) (fun (m : Message) => .message m.side m.phase m.body m.rx m.msgId) _ w

theorem IW.broadcast (w : IW b s₁ s₂) (m : String) (f : Frame) : IW b (s₁.broadcast b m f) (s₂.broadcast b m f) := by
  obtain ⟨ρ, h⟩ := w.rel
  unfold Sys.broadcast
  rw [h.listeners m]
  exact IW.foldl_send (fun c => c) (fun _ => f) _ w

theorem IW.handleOpen (w : IW b s₁ s₂) (hp : s₁.db.PInv) (x : Conn) (side : String) (t : Time) (m : Option String)
    (hg : ∀ mb, m = some mb → ¬ s₁.db.ForeignMb b mb) :
    IW b (s₁.handleOpen x b side t m) (s₂.handleOpen x b side t m) := by
  unfold Sys.handleOpen
  by_cases hc : x.mailbox.isSome = true
  · rw [if_pos hc, if_pos hc]
    exact w.sendError _ _
  · rw [if_neg hc, if_neg hc]
    cases m with
    | none => exact w.sendError _ _
    | some mb =>
      dsimp only
      have w0 := w.updConn x.id (fun y => { y with mailboxId := some mb }) (fun _ => ⟨rfl, rfl⟩)
      cases ea : (s₁.updConn x.id (fun y => { y with mailboxId := some mb })).openMailbox b mb side t with
      | mk a1 ra =>
        cases eb : (s₂.updConn x.id (fun y => { y with mailboxId := some mb })).openMailbox b mb side t with
        | mk b1 rb =>
          obtain ⟨w1, rfl, _⟩ := w0.openMailbox hp (hg mb rfl) ea eb
          cases ra with
          | crowded => exact w1.sendError _ _
          | integrity => exact w1.internalErr _ _
          | ok => exact (w1.updConn _ _ (by intro y; exact ⟨rfl, rfl⟩)).replay _ _

theorem IW.handleAdd (w : IW b s₁ s₂) (x : Conn) (side : String) (t : Time) (id : Val) (ph bd : Option Val) :
    IW b (s₁.handleAdd x b side t id ph bd) (s₂.handleAdd x b side t id ph bd) := by
  unfold Sys.handleAdd
  cases x.mailbox with
  | none => exact w.sendError _ _
  | some mb =>
    cases ph with
    | none => exact w.sendError _ _
    | some p =>
      cases bd with
      | none => exact w.sendError _ _
      | some d => exact (w.addMessage _ _ _ _ _ _).broadcast _ _

theorem IW.handleClose (w : IW b s₁ s₂) (hp : s₁.db.PInv) (x : Conn) (side : String) (t : Time)
    (m mood : Option String)
    (hg : ∀ mb, (m = some mb ∨ (m = none ∧ x.mailboxId = some mb)) → ¬ s₁.db.ForeignMb b mb) :
    IW b (s₁.handleClose x b side t m mood) (s₂.handleClose x b side t m mood) := by
  unfold Sys.handleClose
  have tail : ∀ (a1 b1 : Sys) (r : OpenRes) (hd : String), IW b a1 b1 → a1.db.NpIdsUnique →
      IW b
        (match ((a1, r, hd) : Sys × OpenRes × String) with
         | (s1, .crowded, _) => s1.sendError x.id "crowded"
         | (s1, .integrity, _) => s1.internalErr x.id "IntegrityError"
         | (s1, .ok, h) =>
           let s2 := s1.updConn x.id (fun y => { y with listening := false, didClose := true })
           match s2.mailboxClose b h side mood t with
           | (s3, false) => s3.internalErr x.id "IndexError"
           | (s3, true) => (s3.updConn x.id (fun y => { y with mailbox := none })).send x.id .closed)
        (match ((b1, r, hd) : Sys × OpenRes × String) with
         | (s1, .crowded, _) => s1.sendError x.id "crowded"
         | (s1, .integrity, _) => s1.internalErr x.id "IntegrityError"
         | (s1, .ok, h) =>
           let s2 := s1.updConn x.id (fun y => { y with listening := false, didClose := true })
           match s2.mailboxClose b h side mood t with
           | (s3, false) => s3.internalErr x.id "IndexError"
           | (s3, true) => (s3.updConn x.id (fun y => { y with mailbox := none })).send x.id .closed) := by
    intro a1 b1 r hd w1 hu
    cases r with
    | crowded => exact w1.sendError _ _
    | integrity => exact w1.internalErr _ _
    | ok =>
      dsimp only
      have w2 := w1.updConn x.id (fun y => { y with listening := false, didClose := true }) (fun _ => ⟨rfl, rfl⟩)
      cases ea : (a1.updConn x.id (fun y => { y with listening := false, didClose := true })).mailboxClose
          b hd side mood t with
      | mk a3 ba =>
        cases eb : (b1.updConn x.id (fun y => { y with listening := false, didClose := true })).mailboxClose
            b hd side mood t with
        | mk b3 bb =>
          obtain ⟨w3, rfl⟩ := w2.mailboxClose hu ea eb
          cases ba with
          | true => exact (w3.updConn _ _ (by intro y; exact ⟨rfl, rfl⟩)).send _ _
          | false => exact w3.internalErr _ _
  have go : ∀ mb : String, ((x.mailbox = none) → ¬ s₁.db.ForeignMb b mb) →
      IW b
        (match (match x.mailbox with
            | some h => (s₁, OpenRes.ok, h)
            | none =>
              match s₁.openMailbox b mb side t with
              | (s1, r) => (s1.updConn x.id (fun y => if r = OpenRes.ok then { y with mailbox := some mb } else y), r, mb)
            : Sys × OpenRes × String) with
         | (s1, .crowded, _) => s1.sendError x.id "crowded"
         | (s1, .integrity, _) => s1.internalErr x.id "IntegrityError"
         | (s1, .ok, h) =>
           let s2 := s1.updConn x.id (fun y => { y with listening := false, didClose := true })
           match s2.mailboxClose b h side mood t with
           | (s3, false) => s3.internalErr x.id "IndexError"
           | (s3, true) => (s3.updConn x.id (fun y => { y with mailbox := none })).send x.id .closed)
        (match (match x.mailbox with
            | some h => (s₂, OpenRes.ok, h)
            | none =>
              match s₂.openMailbox b mb side t with
              | (s1, r) => (s1.updConn x.id (fun y => if r = OpenRes.ok then { y with mailbox := some mb } else y), r, mb)
            : Sys × OpenRes × String) with
         | (s1, .crowded, _) => s1.sendError x.id "crowded"
         | (s1, .integrity, _) => s1.internalErr x.id "IntegrityError"
         | (s1, .ok, h) =>
           let s2 := s1.updConn x.id (fun y => { y with listening := false, didClose := true })
           match s2.mailboxClose b h side mood t with
           | (s3, false) => s3.internalErr x.id "IndexError"
           | (s3, true) => (s3.updConn x.id (fun y => { y with mailbox := none })).send x.id .closed) := by
    intro mb hgm
    cases hx : x.mailbox with
    | some hd => exact tail s₁ s₂ .ok hd w hp.npIds
    | none =>
      dsimp only
      cases ea : s₁.openMailbox b mb side t with
      | mk a1 ra =>
        cases eb : s₂.openMailbox b mb side t with
        | mk b1 rb =>
          obtain ⟨w1, rfl, hn⟩ := w.openMailbox hp (hgm hx) ea eb
          have hu : a1.db.NpIdsUnique := by
            unfold Chan.NpIdsUnique; rw [(npPart_eq hn).1]; exact hp.npIds
          refine tail _ _ ra mb (w1.updConn _ _ ?_) hu
          intro y; split <;> exact ⟨rfl, rfl⟩
  by_cases hc : x.didClose = true
  · rw [if_pos hc, if_pos hc]
    exact w.sendError _ _
  · rw [if_neg hc, if_neg hc]
    dsimp only
    cases m with
    | some mm =>
      cases hmid : x.mailboxId with
      | some held =>
        dsimp only
        by_cases hne : mm ≠ held
        · rw [if_pos hne, if_pos hne]
          exact w.sendError _ _
        · rw [if_neg hne, if_neg hne]
          exact go _ (fun _ => hg mm (Or.inl rfl))
      | none => exact go _ (fun _ => hg mm (Or.inl rfl))
    | none =>
      cases hmid : x.mailboxId with
      | some held => exact go _ (fun _ => hg held (Or.inr ⟨rfl, hmid⟩))
      | none => exact w.sendError _ _

end handlers

/-! ### `onMessage`, `connect`, `dropConn`, `restart` -/

/-- the mailbox ids a command makes the server look up on behalf of connection record `x`
    (`close` without a `mailbox` key uses the id remembered from `open`) -/
def namedIds (x : Conn) : Cmd → List String
  | .allocate _ _ fresh => [fresh]
  | .claim _ fresh => [fresh]
  | .open_ (some m) => [m]
  | .close (some m) _ => [m]
  | .close none _ => x.mailboxId.toList
  | _ => []

/-- none of the ids the command names exists under another app only (the situation of
    K-global-mailbox-id does not arise for this command) -/
def NoForeign (d : Chan) (b : String) (x : Conn) (cmd : Cmd) : Prop :=
  ∀ m ∈ namedIds x cmd, ¬ d.ForeignMb b m

section ops
variable {b : String} {s₁ s₂ : Sys}

theorem IW.onMessage (w : IW b s₁ s₂) (hp : s₁.db.PInv) (hids : s₁.conns.Pairwise (fun a b => ¬ a.id = b.id))
    (c : Nat) (t : Time) (id : Val) (cmd : Cmd) (hno : s₁.otherOp b (.recv c t id cmd) = false)
    (hg : ∀ x, s₁.findConn c = some x → x.app = some b → NoForeign s₁.db b x cmd) :
    IW b (s₁.onMessage c t id cmd) (s₂.onMessage c t id cmd) := by
  obtain ⟨ρ, h⟩ := w.rel
  unfold Sys.onMessage
  have hfind := All2.find? (fun x : Conn => decide (x.id = c)) (fun x : Conn => decide (x.id = c)) h.conns
    (by intro x₁ _ x₂ _ r; rw [r.1])
  rcases hfind with ⟨h1, h2⟩ | ⟨x, x₂, h1, h2, r⟩
  · have e1 : s₁.findConn c = none := h1
    have e2 : s₂.findConn c = none := h2
    rw [e1, e2]; exact w
  · have e1 : s₁.findConn c = some x := h1
    have e2 : s₂.findConn c = some x₂ := h2
    have hxm : x ∈ s₁.conns := List.mem_of_find?_eq_some h1
    simp only [Sys.otherOp, e1] at hno
    have hnoth : ¬ x.other b := by
      intro ⟨a, ha, hab⟩
      rw [ha] at hno
      simp [hab] at hno
    have ex : x₂ = x := r.2.1 hnoth
    subst ex
    rw [e1, e2]
    dsimp only
    have hgx := hg x₂ e1
    have wa := w.send c (.ack id)
    have happ : ∀ app, x₂.app = some app → app = b := by
      intro app ha
      rw [ha] at hno
      simpa using hno
    cases cmd with
    | noType => exact w.sendError _ _
    | ping v => exact wa.handlePing _ _
    | bind ap sd i v =>
      dsimp only
      apply wa.handleBind x₂ _ t ap sd i v
      · intro hc a ha hsd
        have hxa : x₂.app = none := by
          cases hh : x₂.app with
          | none => rfl
          | some a' => exact absurd (Or.inl (by simp [hh])) hc
        rw [hxa] at hno
        subst ha
        obtain ⟨sd', rfl⟩ := Option.isSome_iff_exists.1 hsd
        have hc2 : ¬ (x₂.side.isSome = true ∧ x₂.side ≠ some "") := fun h' => hc (Or.inr h')
        simpa [hc2] using hno
      · intro y hy hyid
        exact Chan.eq_of_pairwise_ne hids hy hxm hyid
    | unknown =>
      dsimp only
      cases x₂.app with
      | none => exact wa.sendError _ _
      | some app => exact wa.sendError _ _
    | list =>
      dsimp only
      cases hxa : x₂.app with
      | none => exact wa.sendError _ _
      | some app => obtain rfl := happ app hxa; exact wa.handleList _
    | allocate pick draws fresh =>
      dsimp only
      cases hxa : x₂.app with
      | none => exact wa.sendError _ _
      | some app =>
        obtain rfl := happ app hxa
        exact wa.handleAllocate hp _ _ _ _ _ _ (hgx hxa fresh (by simp [namedIds]))
    | claim n fresh =>
      dsimp only
      cases hxa : x₂.app with
      | none => exact wa.sendError _ _
      | some app =>
        obtain rfl := happ app hxa
        exact wa.handleClaim hp _ _ _ _ _ (hgx hxa fresh (by simp [namedIds]))
    | release n =>
      dsimp only
      cases hxa : x₂.app with
      | none => exact wa.sendError _ _
      | some app => obtain rfl := happ app hxa; exact wa.handleRelease _ _ _ _
    | open_ m =>
      dsimp only
      cases hxa : x₂.app with
      | none => exact wa.sendError _ _
      | some app =>
        obtain rfl := happ app hxa
        exact wa.handleOpen hp _ _ _ _ (fun mb e => hgx hxa mb (by subst e; simp [namedIds]))
    | add ph bd =>
      dsimp only
      cases hxa : x₂.app with
      | none => exact wa.sendError _ _
      | some app => obtain rfl := happ app hxa; exact wa.handleAdd _ _ _ _ _ _
    | close m mood =>
      dsimp only
      cases hxa : x₂.app with
      | none => exact wa.sendError _ _
      | some app =>
        obtain rfl := happ app hxa
        refine wa.handleClose hp _ _ _ _ _ ?_
        intro mb hmb
        apply hgx hxa mb
        rcases hmb with rfl | ⟨rfl, e⟩
        · simp [namedIds]
        · simp [namedIds, e]

/-- `onOpen` -/
theorem IW.connect (w : IW b s₁ s₂) (c : Nat) : IW b (s₁.connect c) (s₂.connect c) := by
  obtain ⟨ρ, h⟩ := w.rel
  unfold Sys.connect
  have hw : s₂.cfg.welcome = s₁.cfg.welcome := by rw [h.cfg]
  rw [hw]
  have hr : ConnRel b ({ id := c } : Conn) ({ id := c } : Conn) :=
    ⟨rfl, fun _ => rfl, fun _ => rfl⟩
  have h' : IsoRel b ρ { s₁ with conns := s₁.conns ++ [({ id := c } : Conn)] }
      { s₂ with conns := s₂.conns ++ [({ id := c } : Conn)] } :=
    h.setConns (h.conns.append (.cons hr .nil))
  exact IW.send (s₁ := { s₁ with conns := s₁.conns ++ [({ id := c } : Conn)] })
    (s₂ := { s₂ with conns := s₂.conns ++ [({ id := c } : Conn)] })
    ⟨⟨ρ, h'⟩, ⟨w.oka.frames, w.oka.synced, w.oka.np⟩, ⟨w.okb.frames, w.okb.synced, w.okb.np⟩⟩ _ _

/-- `onClose` -/
theorem IW.dropConn (w : IW b s₁ s₂) (c : Nat) : IW b (s₁.dropConn c) (s₂.dropConn c) := by
  obtain ⟨ρ, h⟩ := w.rel
  unfold Sys.dropConn
  refine ⟨⟨ρ, h.setConns ?_⟩, ⟨w.oka.frames, w.oka.synced, w.oka.np⟩, ⟨w.okb.frames, w.okb.synced, w.okb.np⟩⟩
  apply All2.filter _ _ h.conns
  intro x₁ _ x₂ _ r
  rw [r.1]

theorem IW.restart (w : IW b s₁ s₂) (t : Time) : IW b (s₁.restart t) (s₂.restart t) := by
  obtain ⟨ρ, h⟩ := w.rel
  refine ⟨⟨ρ, ?_⟩, w.oka.restart t, w.okb.restart t⟩
  unfold Sys.restart
  refine ⟨?_, ?_, .nil, h.cfg, h.frames⟩
  · show Chan.ViewRel b ρ s₁.disk s₂.disk
    rw [← w.oka.synced.1, ← w.okb.synced.1]; exact h.db
  · show Usage.SameB b s₁.udisk s₂.udisk
    rw [← w.oka.synced.2, ← w.okb.synced.2]; exact h.udb

end ops

end Sys
end Wormhole
