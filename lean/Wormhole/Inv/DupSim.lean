/-
  Two-run library, instance 3 (for C14): `UsgRel`.

  The two runs have the same channel side (`db`, `disk`, `conns`) and the same configuration;
  NOTHING is assumed about the usage databases `udb`, `udisk` (the duplicate of C14 leaves extra
  rows there: a `client_versions` row of its `bind`, a usage `mailboxes` row of a close that
  re-creates and re-deletes a mailbox) or about `rebooted`.  Events are compared after
  `eraseUsage` (Inv/SimDefs.lean), which drops ONLY the effective commits of the usage database:
  every frame (addressee, content — the payload of `nameplates` answers included —, `synced`
  flag), every channel commit, every `internal` and `fired` event is kept, in order.

  Every usage block is a `UsgStep`: it leaves `db`, `disk`, `conns`, `cfg` alone and appends
  only events that `eraseUsage` drops.  `dump_stats` is a `UsgStep` too.
-/
import Wormhole.Inv.SimWs

namespace Wormhole
namespace Sys

structure UsgRel (a b : Sys) : Prop where
  chan : ChanEq a b
  cfg : a.cfg = b.cfg
  out : a.out.filterMap eraseUsage = b.out.filterMap eraseUsage

/-- a step that is invisible on the channel side and in the erased trace -/
structure UsgStep (s s' : Sys) : Prop where
  db : s'.db = s.db
  disk : s'.disk = s.disk
  conns : s'.conns = s.conns
  cfg : s'.cfg = s.cfg
  out : s'.out.filterMap eraseUsage = s.out.filterMap eraseUsage

theorem UsgStep.refl (s : Sys) : UsgStep s s := ⟨rfl, rfl, rfl, rfl, rfl⟩
theorem UsgStep.trans {a b c : Sys} (h1 : UsgStep a b) (h2 : UsgStep b c) : UsgStep a c :=
  ⟨h2.db.trans h1.db, h2.disk.trans h1.disk, h2.conns.trans h1.conns, h2.cfg.trans h1.cfg,
   h2.out.trans h1.out⟩

theorem UsgStep.modUdb (s : Sys) (f) : UsgStep s (s.modUdb f) := ⟨rfl, rfl, rfl, rfl, rfl⟩

theorem UsgStep.ucommit (s : Sys) : UsgStep s s.ucommit := by
  unfold Sys.ucommit
  split
  · exact UsgStep.refl s
  · exact ⟨rfl, rfl, rfl, rfl, by simp [List.filterMap_append, eraseUsage]⟩

theorem UsgStep.storeNameplateUsage (s : Sys) (app sides t p) :
    UsgStep s (s.storeNameplateUsage app sides t p).1 := by
  unfold Sys.storeNameplateUsage
  split
  · exact UsgStep.refl s
  · exact ⟨rfl, rfl, rfl, rfl, rfl⟩

theorem UsgStep.uNp (s : Sys) (app sides t p) : UsgStep s (s.uNp app sides t p).1 := by
  unfold Sys.uNp
  split
  · exact UsgStep.storeNameplateUsage s _ _ _ _
  · exact UsgStep.refl s

theorem UsgStep.uMb (s : Sys) (app f sides t p) : UsgStep s (s.uMb app f sides t p) := by
  unfold Sys.uMb Sys.storeMailboxUsage
  split
  · exact UsgStep.modUdb s _
  · exact UsgStep.refl s

theorem UsgStep.uCommit (s : Sys) : UsgStep s s.uCommit := by
  unfold Sys.uCommit
  split
  · exact UsgStep.ucommit s
  · exact UsgStep.refl s

theorem UsgStep.logClientVersion (s : Sys) (app side t i v) : UsgStep s (s.logClientVersion app side t i v) := by
  unfold Sys.logClientVersion
  split
  · exact (UsgStep.modUdb s _).trans (UsgStep.ucommit _)
  · exact UsgStep.refl s

theorem UsgStep.dumpStats (s : Sys) (now : Time) : UsgStep s (s.dumpStats now) := by
  unfold Sys.dumpStats
  split
  · exact (UsgStep.modUdb s _).trans (UsgStep.ucommit _)
  · exact UsgStep.refl s

theorem UsgRel.ustep {a b a' b' : Sys} (h : UsgRel a b) (ua : UsgStep a a') (ub : UsgStep b b') : UsgRel a' b' := by
  obtain ⟨⟨h1, h2, h3⟩, hw, ho⟩ := h
  refine ⟨⟨?_, ?_, ?_⟩, ?_, ?_⟩
  · rw [ua.db, ub.db]; exact h1
  · rw [ua.disk, ub.disk]; exact h2
  · rw [ua.conns, ub.conns]; exact h3
  · rw [ua.cfg, ub.cfg]; exact hw
  · rw [ua.out, ub.out]; exact ho

theorem UsgRel.commit {a b : Sys} (h : UsgRel a b) : UsgRel a.commit b.commit := by
  obtain ⟨⟨e1, e2, e3⟩, hw, ho⟩ := h
  unfold Sys.commit
  by_cases hc : a.db = a.disk
  · have hc' : b.db = b.disk := by rw [← e1, ← e2]; exact hc
    rw [if_pos hc, if_pos hc']
    exact ⟨⟨e1, e2, e3⟩, hw, ho⟩
  · have hc' : ¬ b.db = b.disk := by rw [← e1, ← e2]; exact hc
    rw [if_neg hc, if_neg hc']
    exact ⟨⟨e1, e1, e3⟩, hw, by simp [List.filterMap_append, ho, eraseUsage]⟩

theorem UsgRel.emit {a b : Sys} (h : UsgRel a b) (e : Event) : UsgRel (a.emit e) (b.emit e) :=
  ⟨h.chan, h.cfg, by simp [List.filterMap_append, h.out]⟩

/-- with equal configuration and equal database the answer to `list` is the same frame -/
theorem UsgRel.list {a b : Sys} (h : UsgRel a b) (ha : a.Synced) (hb : b.Synced) (x : Conn) (app : String) :
    UsgRel (a.handleList x app) (b.handleList x app) := by
  unfold Sys.handleList Sys.send
  rw [(synced_iff a).2 ha, (synced_iff b).2 hb, h.cfg, h.chan.1]
  exact h.emit _

/-- `UsgRel` has the closure properties of the generic walk -/
theorem usgRel_simRel : SimRel UsgRel where
  chan h := h.chan
  welcome h := by rw [h.cfg]
  modDb h f := ⟨⟨congrArg f h.chan.1, h.chan.2.1, h.chan.2.2⟩, h.cfg, h.out⟩
  commit h := h.commit
  setConns h _ := ⟨⟨h.chan.1, h.chan.2.1, rfl⟩, h.cfg, h.out⟩
  emit h e := h.emit e
  list h ha hb x app := h.list ha hb x app
  uNp h app sides t p := h.ustep (UsgStep.uNp _ app sides t p) (UsgStep.uNp _ app sides t p)
  uMb h app f sides t p := h.ustep (UsgStep.uMb _ app f sides t p) (UsgStep.uMb _ app f sides t p)
  uCommit h := h.ustep (UsgStep.uCommit _) (UsgStep.uCommit _)
  lcv h app side t i v := h.ustep (UsgStep.logClientVersion _ app side t i v) (UsgStep.logClientVersion _ app side t i v)
  restart h _ := ⟨⟨h.chan.2.1, h.chan.2.1, rfl⟩, h.cfg, h.out⟩

theorem UsgRel.dumpStats {a b : Sys} (h : UsgRel a b) (now : Time) : UsgRel (a.dumpStats now) (b.dumpStats now) :=
  h.ustep (UsgStep.dumpStats a now) (UsgStep.dumpStats b now)

/-- **the generic walk instantiated**: every non-crash operation, from related states that are
    at the start of a step (`out = []`) with nothing uncommitted and the nameplate tables in
    order -/
theorem W.stepPlain_usg {a b : Sys} (w : W UsgRel a b) (op : Op) :
    W UsgRel (a.stepPlain op) (b.stepPlain op) := by
  cases op with
  | connect c => exact w.connect usgRel_simRel c
  | recv c t id cmd => exact w.onMessage usgRel_simRel c t id cmd
  | drop c => exact w.dropConn usgRel_simRel c
  | sweep now fault =>
    have w1 := w.expireCore usgRel_simRel now fault
    exact ⟨w1.rel.dumpStats now, w1.oka.dumpStats now, w1.okb.dumpStats now⟩
  | restart t => exact w.restart usgRel_simRel t
  | crashIn k op => exact w

end Sys

open Sys

/-- the relation between the run with the duplicate and the run without it, BETWEEN operations:
    same channel database as seen by the process (five tables and the AUTOINCREMENT counter), same
    committed channel database, same connection records, same configuration, nothing uncommitted
    in either run, nameplate tables in order.  The usage databases and `rebooted` are free. -/
structure DupSim (s₁ s₂ : Sys) : Prop where
  chan : ChanEq s₁ s₂
  cfg : s₁.cfg = s₂.cfg
  synced₁ : s₁.Synced
  synced₂ : s₂.Synced
  np : s₁.db.NpOk

/-- one operation other than a crash from states related by `DupSim`: related again, and the
    events of the step are equal once usage commits are erased -/
theorem DupSim_step {s₁ s₂ : Sys} (h : DupSim s₁ s₂) (op : Op) (hop : op.isCrash = false) :
    DupSim (s₁.step op) (s₂.step op) ∧
      (s₁.step op).out.filterMap eraseUsage = (s₂.step op).out.filterMap eraseUsage := by
  rw [step_eq_of_not_crash s₁ hop, step_eq_of_not_crash s₂ hop]
  have hn2 : s₂.db.NpOk := by rw [← h.chan.1]; exact h.np
  have w : W UsgRel ({ s₁ with out := [], snaps := [] } : Sys) ({ s₂ with out := [], snaps := [] } : Sys) :=
    ⟨⟨h.chan, h.cfg, rfl⟩, Ok.clear h.synced₁ h.np, Ok.clear h.synced₂ hn2⟩
  have w' := w.stepPlain_usg op
  exact ⟨⟨w'.rel.chan, w'.rel.cfg, w'.oka.synced, w'.okb.synced, w'.oka.np⟩, w'.rel.out⟩

/-- histories from related states -/
theorem DupSim_run (ops : List Op) (hops : ∀ op ∈ ops, op.isCrash = false) :
    ∀ {s₁ s₂ : Sys}, DupSim s₁ s₂ →
      DupSim (Sys.run s₁ ops).1 (Sys.run s₂ ops).1 ∧
        (Sys.run s₁ ops).2.filterMap eraseUsage = (Sys.run s₂ ops).2.filterMap eraseUsage := by
  induction ops with
  | nil => intro s₁ s₂ h; exact ⟨h, rfl⟩
  | cons op rest ih =>
    intro s₁ s₂ h
    obtain ⟨h1, o1⟩ := DupSim_step h op (hops op (by simp))
    obtain ⟨h2, o2⟩ := ih (fun o ho => hops o (by simp [ho])) h1
    simp only [Sys.run]
    exact ⟨h2, by rw [List.filterMap_append, List.filterMap_append, o1, o2]⟩

/-! ### what `eraseUsage` keeps -/

theorem eraseUsage_frame (c : Nat) (f : Frame) (b : Bool) : eraseUsage (.frame c f b) = some (.frame c f b) := rfl
theorem eraseUsage_commit_chan : eraseUsage (.commit .chan) = some (.commit .chan) := rfl
theorem eraseUsage_commit_usage : eraseUsage (.commit .usage) = none := rfl
theorem eraseUsage_internal (c : Option Nat) (cls : String) :
    eraseUsage (.internal c cls) = some (.internal c cls) := rfl
theorem eraseUsage_fired (now old : Time) : eraseUsage (.fired now old) = some (.fired now old) := rfl

/-- frames are not touched by `eraseUsage` -/
theorem dup_filter_isFrame_eraseUsage (l : List Event) :
    (l.filterMap eraseUsage).filter Event.isFrame = l.filter Event.isFrame := by
  induction l with
  | nil => rfl
  | cons e l ih =>
    cases e with
    | commit w =>
      cases w
      · simp only [List.filterMap_cons, eraseUsage, List.filter_cons, Event.isFrame, ih]; simp
      · simp only [List.filterMap_cons, eraseUsage, List.filter_cons, Event.isFrame, ih]; simp
    | frame c f b => simp only [List.filterMap_cons, eraseUsage, List.filter_cons, Event.isFrame, ih]
    | internal c cls => simp only [List.filterMap_cons, eraseUsage, List.filter_cons, Event.isFrame, ih]; simp
    | fired a b => simp only [List.filterMap_cons, eraseUsage, List.filter_cons, Event.isFrame, ih]; simp

/-- equal erased traces have the same frames: addressee, content, `synced` flag and order -/
theorem dup_frames_eq_of_eraseUsage_eq {l₁ l₂ : List Event}
    (h : l₁.filterMap eraseUsage = l₂.filterMap eraseUsage) :
    l₁.filter Event.isFrame = l₂.filter Event.isFrame := by
  rw [← dup_filter_isFrame_eraseUsage l₁, ← dup_filter_isFrame_eraseUsage l₂, h]

end Wormhole
